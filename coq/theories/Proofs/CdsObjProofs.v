(* Setter-invariant lemmas for ONE live CdsShortTimestamp object with its cached views
   (Model/CdsObj.v): whatever the receiver was -- made with init_dt_unix_stamp=False, by
   from_datetime, stale after a refused addition, already holding exactly the decoded content --
   an accepted read_from_raw / addition leaves both cached views those of the stored pair. *)
From Coq Require Import ZArith List Bool Lia ZifyBool.
From SP Require Import Base.Result Base.Bytes Base.BytesFacts Model.Cds Model.CdsSoftFloat Model.CdsFloat
  Model.CdsObj Spec.CdsSpec Proofs.CdsProofs.
Import ListNotations.
Open Scope Z_scope.

(* the cached views are in step with the stored pair: what Model/Cds.v + CdsFloat.v (and the
   theorems C14_unix_seconds_close / C14_datetime_exact about them) speak about *)
Definition cobj_views_ok (o : cobj) : Prop :=
  o_unix o = cds_unix_seconds (cobj_pair o) /\ o_dt o = Some (cds_datetime_us (cobj_pair o)).

Lemma cobj_setup_pair o : cobj_pair (cobj_setup o) = cobj_pair o.
Proof. reflexivity. Qed.
Lemma cobj_setup_views o : cobj_views_ok (cobj_setup o).
Proof. split; reflexivity. Qed.

(* construction paths *)
Lemma cobj_new_init_views d ms : cobj_views_ok (cobj_new d ms true).
Proof. apply cobj_setup_views. Qed.
Lemma cobj_new_pair d ms init : cobj_pair (cobj_new d ms init) = cds_new d ms.
Proof. destruct init; reflexivity. Qed.
Lemma cobj_unpack_spec data o : cobj_unpack data = Ok o ->
  cds_unpack data = Ok (cobj_pair o) /\ cobj_views_ok o.
Proof.
  unfold cobj_unpack, cds_unpack. destruct (cds_unpack_from_raw data) as [[d ms]|e]; [|discriminate].
  cbn [bind]. intros H. inversion H. split; [reflexivity|apply cobj_setup_views].
Qed.
Lemma cobj_from_datetime_pair ud sod us : cobj_pair (cobj_from_datetime ud sod us) = cds_from_datetime ud sod us.
Proof. reflexivity. Qed.

(* read_from_raw: the result does not depend on the receiver AT ALL (neither on its fields nor on
   its cache): it is the freshly unpacked object *)
Lemma cobj_read_is_unpack o data : cobj_read_from_raw o data = cobj_unpack data.
Proof.
  unfold cobj_read_from_raw, cobj_unpack. destruct (cds_unpack_from_raw data) as [[d ms]|e]; reflexivity.
Qed.
Lemma cobj_read_receiver_irrelevant o1 o2 data : cobj_read_from_raw o1 data = cobj_read_from_raw o2 data.
Proof. rewrite !cobj_read_is_unpack. reflexivity. Qed.
Lemma cobj_read_views o data o' : cobj_read_from_raw o data = Ok o' ->
  cds_unpack_from_raw data = Ok (o_days o', o_ms o') /\ cobj_views_ok o'.
Proof.
  unfold cobj_read_from_raw. destruct (cds_unpack_from_raw data) as [[d ms]|e]; [|discriminate].
  cbn [bind]. intros H. inversion H. split; [reflexivity|apply cobj_setup_views].
Qed.
(* also when the decoded content equals what the receiver already holds and its cache was never
   filled (empty(False), constructor flag False) *)
Lemma cobj_read_same_content_unset d ms data o' : cds_unpack_from_raw data = Ok (d, ms) ->
  cobj_read_from_raw (cobj_new d ms false) data = Ok o' -> o' = cobj_new d ms true.
Proof. intros E. unfold cobj_read_from_raw. rewrite E. cbn [bind]. intros H. inversion H. reflexivity. Qed.

(* a refused read changes nothing *)
Lemma cobj_read_refused o data e : cobj_read_from_raw o data = Err e -> cobj_step o (ORead data) = (Err e, o).
Proof. intros H. cbn [cobj_step]. rewrite H. reflexivity. Qed.

(* re-reading its own pack(): for every packable object, whatever its cache looks like, the fields
   stay and the views are (re-)established *)
Lemma cobj_read_own o : cds_packable (cobj_pair o) -> cobj_step o OReadOwn = (Ok [], cobj_setup o).
Proof.
  intros Hp. cbn [cobj_step]. unfold cobj_pack. rewrite cds_pack_layout_packable by assumption.
  unfold cobj_read_from_raw. rewrite <- (app_nil_r (cds_layout (cobj_pair o))).
  rewrite cds_unpack_from_raw_layout by assumption. cbn [bind]. destruct o; reflexivity.
Qed.

(* pack() never changes the object *)
Lemma cobj_pack_keeps o : snd (cobj_step o OPack) = o.
Proof. reflexivity. Qed.

(* __add__: on the stored pair it is cds_add of Model/Cds.v (so cds_add_correct / _overflow_iff
   apply); accepted -> views in step; refused -> OverflowError exactly when cds_add refuses *)
Lemma cobj_add_spec o d s u :
  match cobj_add o d s u with
  | (o', None) => cds_add (cobj_pair o) d s u = Ok (cobj_pair o') /\ cobj_views_ok o'
  | (o', Some e) => e = EOverflow /\ cds_add (cobj_pair o) d s u = Err EOverflow /\
                    o_unix o' = o_unix o /\ o_dt o' = o_dt o
  end.
Proof.
  unfold cobj_add, cds_add. cbn [cobj_pair cdays cms].
  set (ms := o_ms o + (u / 1000 + s * 1000)).
  destruct (ms >=? MS_PER_DAY) eqn:C; cbn [andb].
  - destruct (o_days o + 1 >? 2 ^ 16 - 1) eqn:O1.
    + cbn [bind]. repeat split.
    + cbn [bind]. destruct (o_days o + 1 + d >? 2 ^ 16 - 1) eqn:O2.
      * repeat split.
      * split; [reflexivity|apply cobj_setup_views].
  - cbn [bind]. destruct (o_days o + d >? 2 ^ 16 - 1) eqn:O2.
    + repeat split.
    + split; [reflexivity|apply cobj_setup_views].
Qed.

(* the invariant over histories: once the views are in step they stay in step under every
   ACCEPTED operation; and after any accepted read / addition they are in step whatever was before *)
Lemma cobj_step_establishes o op o' : 
  match op with OPack => False | _ => True end ->
  cobj_step o op = (Ok [], o') -> (match op with OReadOwn => cds_packable (cobj_pair o) | _ => True end) ->
  cobj_views_ok o'.
Proof.
  destruct op as [data|d s u| |]; intros Hop H Hp; try contradiction.
  - cbn [cobj_step] in H. destruct (cobj_read_from_raw o data) as [o1|e] eqn:E; inversion H; subst.
    eapply cobj_read_views; eassumption.
  - cbn [cobj_step] in H. pose proof (cobj_add_spec o d s u) as S.
    destruct (cobj_add o d s u) as [o1 [e|]]; inversion H; subst. apply S.
  - rewrite cobj_read_own in H by assumption. inversion H. apply cobj_setup_views.
Qed.
