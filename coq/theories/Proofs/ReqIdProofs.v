(* Proofs for Model/ReqId.v (property C15, request-ID part; C09/C10 lemmas of RequestId.unpack). *)
From Coq Require Import ZArith List Bool Lia ZifyBool.
From SP Require Import Base.Result Base.Bytes Base.BytesFacts Model.SpacePacket Model.ReqId
  Spec.SpacePacketSpec Spec.Srv1Spec Proofs.SpacePacketProofs.
Import ListNotations.
Open Scope Z_scope.
Ltac Zify.zify_post_hook ::= Z.to_euclidean_division_equations.
Ltac list_eq := repeat (apply f_equal2; [lia|]); try reflexivity.

(* ================= layout ================= *)

Lemma reqid_layout_words h : sph_valid h ->
  reqid_layout h = be_encode 2 (sph_word0 h) ++ be_encode 2 (sph_word1 h).
Proof.
  intros H. unfold reqid_layout. rewrite sph_layout_words by assumption.
  rewrite !be_encode_2. reflexivity.
Qed.

Lemma reqid_layout_length h : length (reqid_layout h) = 4%nat.
Proof. reflexivity. Qed.

Lemma reqid_layout_wf h : sph_valid h -> wf_bytes (reqid_layout h).
Proof. intros H. unfold reqid_layout. apply wf_bytes_firstn, sph_layout_wf, H. Qed.

Lemma reqid_u32_words h : reqid_u32 h = sph_word0 h * 65536 + sph_word1 h.
Proof. unfold reqid_u32, sph_word0, sph_word1. lia. Qed.

Lemma reqid_u32_range h : sph_valid h -> 0 <= reqid_u32 h < 4294967296.
Proof. unfold sph_valid, reqid_u32. lia. Qed.

Lemma reqid_u32_decode h : sph_valid h -> be_decode (reqid_layout h) = reqid_u32 h.
Proof.
  intros H. unfold reqid_layout, sph_layout, reqid_u32, sph_valid in *.
  cbn [firstn be_decode length]. change (Z.of_nat 3) with 3. change (Z.of_nat 2) with 2.
  change (Z.of_nat 1) with 1. change (Z.of_nat 0) with 0.
  change (256 ^ 3) with 16777216. change (256 ^ 2) with 65536. change (256 ^ 1) with 256.
  change (256 ^ 0) with 1. lia.
Qed.

Lemma reqid_word0_sph h : sph_valid h -> reqid_word0 (reqid_from_sph h) = sph_word0 h.
Proof. intros H. unfold reqid_word0, reqid_from_sph; cbn [rq_ver rq_pid]. apply pid_raw_word0, H. Qed.

(* the packed request ID is the first four octets of the space packet header *)
Theorem reqid_pack_layout h : sph_valid h -> reqid_pack (reqid_from_sph h) = Ok (reqid_layout h).
Proof.
  intros H. unfold reqid_pack. rewrite reqid_word0_sph by assumption.
  change (rq_psc (reqid_from_sph h)) with (sph_psc h). rewrite psc_raw_word1 by assumption.
  destruct (word0_fields h H) as (R0 & _). destruct (word1_fields h H) as (R1 & _).
  rewrite !struct_pack_ok by (cbn; lia). cbn [bind].
  rewrite reqid_layout_words by assumption. reflexivity.
Qed.

(* the 32-bit integer form is those four octets read big-endian *)
Theorem reqid_as_u32_spec h : sph_valid h ->
  reqid_as_u32 (reqid_from_sph h) = reqid_u32 h /\
  reqid_as_u32 (reqid_from_sph h) = be_decode (reqid_layout h).
Proof.
  intros H. rewrite reqid_u32_decode by assumption. split; [|].
  all: unfold reqid_as_u32; rewrite reqid_word0_sph by assumption;
    change (rq_psc (reqid_from_sph h)) with (sph_psc h); rewrite psc_raw_word1 by assumption;
    destruct (word0_fields h H) as (R0 & _); destruct (word1_fields h H) as (R1 & _);
    rewrite shiftl_mul by lia; rewrite (lor_disjoint _ _ 16) by (change (2 ^ 16) with 65536; lia);
    rewrite reqid_u32_words; change (2 ^ 16) with 65536; reflexivity.
Qed.

(* ================= decoding ================= *)

Lemma reqid_ext t1 s1 a1 f1 c1 v1 t2 s2 a2 f2 c2 v2 :
  t1 = t2 /\ s1 = s2 /\ a1 = a2 /\ f1 = f2 /\ c1 = c2 /\ v1 = v2 ->
  {| rq_pid := {| pid_ptype := t1; pid_shf := s1; pid_apid := a1 |};
     rq_psc := {| psc_flags := f1; psc_count := c1 |}; rq_ver := v1 |} =
  {| rq_pid := {| pid_ptype := t2; pid_shf := s2; pid_apid := a2 |};
     rq_psc := {| psc_flags := f2; psc_count := c2 |}; rq_ver := v2 |}.
Proof. intros (-> & -> & -> & -> & -> & ->). reflexivity. Qed.

(* what four octets denote *)
Definition reqid_of_octets (b0 b1 b2 b3 : Z) : reqid := reqid_from_sph (sph_of_octets b0 b1 b2 b3 0 0).

Lemma reqid_unpack_octets b0 b1 b2 b3 rest :
  wf_bytes [b0; b1; b2; b3] ->
  reqid_unpack (b0 :: b1 :: b2 :: b3 :: rest) = Ok (reqid_of_octets b0 b1 b2 b3).
Proof.
  intros W. unfold wf_bytes in W.
  repeat match goal with H : Forall _ (_ :: _) |- _ => inversion H; clear H; subst end.
  unfold reqid_unpack.
  assert (L : len (b0 :: b1 :: b2 :: b3 :: rest) <? 4 = false).
  { unfold len. cbn [length]. lia. }
  rewrite L.
  change (slice (b0 :: b1 :: b2 :: b3 :: rest) 0 2) with [b0; b1].
  change (slice (b0 :: b1 :: b2 :: b3 :: rest) 2 4) with [b2; b3].
  rewrite !struct_unpack_ok by reflexivity. cbn [bind]. rewrite !be_decode_2.
  rewrite pid_from_raw_spec. cbn [bind].
  destruct (psc_from_raw_spec (b2 * 256 + b3)) as [S _]. rewrite S by lia. cbn [bind].
  rewrite shiftr_div by lia. change 7 with (2 ^ 3 - 1). rewrite land_ones_mod by lia.
  change (2 ^ 13) with 8192. change (2 ^ 3) with 8.
  unfold reqid_of_octets, reqid_from_sph, sph_of_octets, sph_pid, sph_psc;
    cbn [ver ptype shf apid sflags scount].
  f_equal. apply reqid_ext. lia.
Qed.

Lemma four_octets (b : bytes) : (4 <= length b)%nat ->
  exists b0 b1 b2 b3 rest, b = b0 :: b1 :: b2 :: b3 :: rest.
Proof. intros H. do 4 (destruct b as [|? b]; [cbn in H; lia|]). repeat eexists. Qed.

Lemma wf4_wf6 b0 b1 b2 b3 : wf_bytes [b0; b1; b2; b3] -> wf_bytes [b0; b1; b2; b3; 0; 0].
Proof.
  intros W. unfold wf_bytes in *.
  repeat match goal with H : Forall _ (_ :: _) |- _ => inversion H; clear H; subst end.
  repeat constructor; lia.
Qed.

Lemma reqid_of_octets_layout b0 b1 b2 b3 : wf_bytes [b0; b1; b2; b3] ->
  sph_valid (sph_of_octets b0 b1 b2 b3 0 0) /\
  reqid_layout (sph_of_octets b0 b1 b2 b3 0 0) = [b0; b1; b2; b3].
Proof.
  intros W. apply wf4_wf6 in W. split; [apply sph_of_octets_valid, W|].
  unfold reqid_layout. rewrite sph_layout_of_octets by assumption. reflexivity.
Qed.

(* decode (first four header octets ++ anything) = the telecommand's request ID *)
Theorem reqid_unpack_layout h rest : sph_valid h ->
  reqid_unpack (reqid_layout h ++ rest) = Ok (reqid_from_sph h).
Proof.
  intros H. pose proof (reqid_layout_wf h H) as W.
  unfold reqid_layout, sph_layout in *. cbn [firstn app] in *.
  rewrite reqid_unpack_octets by assumption.
  unfold reqid_of_octets, reqid_from_sph, sph_of_octets, sph_pid, sph_psc;
    cbn [ver ptype shf apid sflags scount].
  unfold sph_valid in H. f_equal. f_equal; [f_equal; lia | f_equal; lia | lia].
Qed.

(* any >= 4 octets decode; the result is in range, packs to exactly those four octets and its
   integer form is their big-endian value: packed, integer and decoded forms agree *)
Theorem reqid_pack_unpack b : wf_bytes b -> (4 <= length b)%nat ->
  exists r, reqid_unpack b = Ok r /\ reqid_valid r /\ reqid_pack r = Ok (firstn 4 b) /\
            reqid_as_u32 r = be_decode (firstn 4 b).
Proof.
  intros W L. destruct (four_octets b L) as (b0 & b1 & b2 & b3 & rest & ->).
  assert (W4 : wf_bytes [b0; b1; b2; b3]).
  { change (wf_bytes (firstn 4 (b0 :: b1 :: b2 :: b3 :: rest))). apply wf_bytes_firstn, W. }
  destruct (reqid_of_octets_layout b0 b1 b2 b3 W4) as [V E].
  exists (reqid_of_octets b0 b1 b2 b3).
  split; [apply reqid_unpack_octets, W4|].
  split; [exact V|]. unfold reqid_of_octets.
  rewrite reqid_pack_layout by assumption. destruct (reqid_as_u32_spec _ V) as [_ ->].
  rewrite E. split; reflexivity.
Qed.

(* all 2^32 values *)
Theorem reqid_u32_all v : 0 <= v < 4294967296 ->
  exists r, reqid_unpack (be_encode 4 v) = Ok r /\ reqid_valid r /\
            reqid_as_u32 r = v /\ reqid_pack r = Ok (be_encode 4 v) /\
            r = reqid_from_sph (reqid_fields_of_u32 v).
Proof.
  intros R.
  destruct (reqid_pack_unpack (be_encode 4 v) (be_encode_wf 4 v)) as (r & U & V & P & A).
  { rewrite be_encode_length. lia. }
  assert (F : firstn 4 (be_encode 4 v) = be_encode 4 v) by reflexivity.
  rewrite F in P, A. rewrite be_decode_encode in A by (cbn; lia).
  exists r. split; [exact U|]. split; [exact V|]. split; [exact A|]. split; [exact P|].
  (* the fields are those the 32 bits denote *)
  cbn [be_encode] in U. change (Z.of_nat 3) with 3 in U. change (Z.of_nat 2) with 2 in U.
  change (Z.of_nat 1) with 1 in U. change (Z.of_nat 0) with 0 in U.
  change (256 ^ 3) with 16777216 in U. change (256 ^ 2) with 65536 in U. change (256 ^ 1) with 256 in U.
  change (256 ^ 0) with 1 in U.
  rewrite reqid_unpack_octets in U by (repeat constructor; lia).
  inversion U; subst r.
  unfold reqid_of_octets, reqid_from_sph, sph_of_octets, reqid_fields_of_u32, sph_pid, sph_psc;
    cbn [ver ptype shf apid sflags scount].
  apply reqid_ext. lia.
Qed.

Theorem reqid_unpack_short b : (length b < 4)%nat -> reqid_unpack b = Err ETooShort.
Proof. intros H. unfold reqid_unpack, len. destruct (_ <? 4) eqn:E; [reflexivity|lia]. Qed.

(* ================= equality and hash ================= *)

Lemma reqid_from_sph_of_reqid r : reqid_from_sph (sph_of_reqid r) = r.
Proof. destruct r as [[t s a] [f c] v]. reflexivity. Qed.

Lemma reqid_as_u32_valid r : reqid_valid r ->
  reqid_as_u32 r = reqid_u32 (sph_of_reqid r) /\ 0 <= reqid_as_u32 r < 4294967296.
Proof.
  intros V. destruct (reqid_as_u32_spec _ V) as [E _]. rewrite reqid_from_sph_of_reqid in E.
  rewrite E. split; [reflexivity|apply reqid_u32_range, V].
Qed.

Lemma reqid_u32_inj r1 r2 : reqid_valid r1 -> reqid_valid r2 ->
  reqid_u32 (sph_of_reqid r1) = reqid_u32 (sph_of_reqid r2) -> r1 = r2.
Proof.
  destruct r1 as [[t1 s1 a1] [f1 c1] v1], r2 as [[t2 s2 a2] [f2 c2] v2].
  unfold reqid_valid, sph_valid, reqid_u32, sph_of_reqid; cbn. intros V1 V2 E.
  assert (v1 = v2 /\ t1 = t2 /\ s1 = s2 /\ a1 = a2 /\ f1 = f2 /\ c1 = c2) by lia.
  intuition congruence.
Qed.

Lemma py_int_hash_small v : 0 <= v < 4294967296 -> py_int_hash v = v.
Proof.
  intros R. unfold py_int_hash. destruct (0 <=? v) eqn:E; [|lia].
  apply Z.mod_small. change (2 ^ 61 - 1) with 2305843009213693951. lia.
Qed.

(* two request IDs are equal iff they are the same 32 bits (same fields, same packed octets,
   same integer), and they hash equal iff they are equal *)
Theorem reqid_eq_iff r1 r2 : reqid_valid r1 -> reqid_valid r2 ->
  (reqid_eqb r1 r2 = true <-> r1 = r2) /\
  (reqid_eqb r1 r2 = true <-> reqid_pack r1 = reqid_pack r2) /\
  (reqid_eqb r1 r2 = true <-> reqid_as_u32 r1 = reqid_as_u32 r2) /\
  (reqid_hash r1 = reqid_hash r2 <-> reqid_eqb r1 r2 = true).
Proof.
  intros V1 V2.
  destruct (reqid_as_u32_valid r1 V1) as [E1 R1]. destruct (reqid_as_u32_valid r2 V2) as [E2 R2].
  assert (A : reqid_eqb r1 r2 = true <-> r1 = r2).
  { unfold reqid_eqb. rewrite Z.eqb_eq. split; [|intros ->; reflexivity].
    intros E. apply reqid_u32_inj; congruence. }
  split; [exact A|]. split; [|split].
  - rewrite A. split; [intros ->; reflexivity|]. intros P.
    pose proof (reqid_pack_layout _ V1) as P1. pose proof (reqid_pack_layout _ V2) as P2.
    rewrite reqid_from_sph_of_reqid in P1, P2.
    assert (Q : reqid_layout (sph_of_reqid r1) = reqid_layout (sph_of_reqid r2)) by congruence.
    apply reqid_u32_inj; try assumption.
    pose proof (reqid_u32_decode _ V1) as D1. pose proof (reqid_u32_decode _ V2) as D2.
    rewrite Q in D1. congruence.
  - unfold reqid_eqb. apply Z.eqb_eq.
  - unfold reqid_hash, reqid_eqb. rewrite !py_int_hash_small by assumption. symmetry. apply Z.eqb_eq.
Qed.

Lemma reqid_eqb_refl r : reqid_eqb r r = true.
Proof. unfold reqid_eqb. apply Z.eqb_refl. Qed.

Lemma reqid_from_sph_valid h : sph_valid h -> reqid_valid (reqid_from_sph h).
Proof. unfold reqid_valid, sph_valid, sph_of_reqid, reqid_from_sph; cbn. lia. Qed.

(* ================= C10 / C09 lemmas for RequestId.unpack ================= *)

Theorem reqid_unpack_total d : wf_bytes d -> ok_or_documented (reqid_unpack d).
Proof.
  intros W. destruct (le_lt_dec 4 (length d)) as [L|L].
  - destruct (reqid_pack_unpack d W L) as (r & -> & _). exact I.
  - rewrite reqid_unpack_short by assumption. reflexivity.
Qed.

(* every strict prefix of a packed request ID is rejected with the documented too-short error *)
Theorem reqid_prefix_rejected h n : (n < 4)%nat ->
  reqid_unpack (firstn n (reqid_layout h)) = Err ETooShort.
Proof. intros H. apply reqid_unpack_short. rewrite firstn_length. cbn. lia. Qed.

(* no over-read: only the first four octets matter *)
Theorem reqid_no_overread d : wf_bytes d -> (4 <= length d)%nat ->
  reqid_unpack d = reqid_unpack (firstn 4 d).
Proof.
  intros W L. destruct (four_octets d L) as (b0 & b1 & b2 & b3 & rest & ->).
  assert (W4 : wf_bytes [b0; b1; b2; b3]).
  { change (wf_bytes (firstn 4 (b0 :: b1 :: b2 :: b3 :: rest))). apply wf_bytes_firstn, W. }
  cbn [firstn]. rewrite !reqid_unpack_octets by assumption. reflexivity.
Qed.

Theorem reqid_unpack_pack_app h s : sph_valid h ->
  reqid_unpack (reqid_layout h ++ s) = reqid_unpack (reqid_layout h).
Proof.
  intros H. rewrite reqid_unpack_layout by assumption.
  pose proof (reqid_unpack_layout h [] H) as E. rewrite app_nil_r in E. rewrite E. reflexivity.
Qed.

(* ================= operation histories over a request ID object ================= *)

Definition rq_op_in_range (o : rq_op) : Prop :=
  match o with
  | RqVer v => 0 <= v < 8
  | RqPtype v => 0 <= v < 2
  | RqShf v => 0 <= v < 2
  | RqApid v => 0 <= v <= 2047
  | RqFlags v => 0 <= v < 4
  | RqCount v => 0 <= v <= 16383
  | RqPack | RqObserve | RqEqFresh => True
  end.

Lemma reqid_apply_valid r o : reqid_valid r -> rq_op_in_range o -> reqid_valid (reqid_apply r o).
Proof.
  destruct r as [[t s a] [f c] v].
  unfold reqid_valid, sph_valid, sph_of_reqid.
  destruct o; cbn; intros; lia.
Qed.

Lemma reqid_history_valid ops : forall r, reqid_valid r -> Forall rq_op_in_range ops ->
  reqid_valid (fold_left reqid_apply ops r).
Proof.
  induction ops as [|o ops IH]; intros r H F; cbn [fold_left]; [assumption|].
  inversion F; subst. apply IH; [apply reqid_apply_valid|]; assumption.
Qed.

(* after ANY sequence of in-range attribute assignments the object packs to the first four header
   octets of its current values, its integer form is those octets read big-endian, and its hash is
   that integer: nothing is cached *)
Theorem reqid_history_forms ops r : reqid_valid r -> Forall rq_op_in_range ops ->
  let r' := fold_left reqid_apply ops r in
  reqid_pack r' = Ok (reqid_layout (sph_of_reqid r')) /\
  reqid_as_u32 r' = be_decode (reqid_layout (sph_of_reqid r')) /\
  reqid_hash r' = reqid_as_u32 r'.
Proof.
  intros H F r'. pose proof (reqid_history_valid ops r H F) as V. fold r' in V.
  pose proof (reqid_pack_layout _ V) as P. rewrite reqid_from_sph_of_reqid in P.
  destruct (reqid_as_u32_spec _ V) as [_ U]. rewrite reqid_from_sph_of_reqid in U.
  destruct (reqid_as_u32_valid r' V) as [_ R].
  split; [exact P|]. split; [exact U|].
  unfold reqid_hash. apply py_int_hash_small. exact R.
Qed.

(* ... and it equals, and hashes like, a freshly constructed request ID with the same values and the
   request ID decoded from its own octets *)
Theorem reqid_eq_fresh_valid r : reqid_valid r -> reqid_eq_fresh r = Ok (true, true, true, true).
Proof.
  intros V. unfold reqid_eq_fresh.
  assert (R : 0 <= pid_apid (rq_pid r) <= 2047 /\ 0 <= psc_count (rq_psc r) <= 16383).
  { destruct r as [[t s a] [f c] v]. unfold reqid_valid, sph_valid, sph_of_reqid in V. cbn in *. lia. }
  destruct R as [Ra Rc].
  rewrite pid_new_ok, psc_new_ok by assumption. cbn [bind].
  replace {| rq_pid := {| pid_ptype := pid_ptype (rq_pid r); pid_shf := pid_shf (rq_pid r);
                          pid_apid := pid_apid (rq_pid r) |};
             rq_psc := {| psc_flags := psc_flags (rq_psc r); psc_count := psc_count (rq_psc r) |};
             rq_ver := rq_ver r |} with r by (destruct r as [[t s a] [f c] v]; reflexivity).
  pose proof (reqid_pack_layout _ V) as P. rewrite reqid_from_sph_of_reqid in P. rewrite P. cbn [bind].
  pose proof (reqid_unpack_layout _ [] V) as U. rewrite app_nil_r, reqid_from_sph_of_reqid in U.
  rewrite U. cbn [bind]. rewrite reqid_eqb_refl, Z.eqb_refl. reflexivity.
Qed.

Corollary reqid_history_eq_fresh ops r : reqid_valid r -> Forall rq_op_in_range ops ->
  reqid_eq_fresh (fold_left reqid_apply ops r) = Ok (true, true, true, true).
Proof. intros H F. apply reqid_eq_fresh_valid, reqid_history_valid; assumption. Qed.
