(* C18 gap: the constructors of the name-carrying messages refuse what does not fit the
   255-octet TLV value (not only reserved_new). *)
From Coq Require Import ZArith List Bool Lia ZifyBool.
From SP Require Import Base.Result Base.Bytes Base.BytesFacts Base.Utf8 Model.Lv Model.Tlv
  Model.MsgToUser Spec.TlvSpec Spec.MsgSpec Proofs.LvProofs Proofs.TlvProofs Proofs.MsgProofs.
Import ListNotations.
Open Scope Z_scope.
Ltac Zify.zify_post_hook ::= Z.to_euclidean_division_equations.

(* ---- proxy put request ---- *)
Lemma put_request_too_long v w S D :
  width_ok w -> 0 <= v < 256 ^ w -> len S <= 255 -> len D <= 255 ->
  250 < len (put_request_fields (Z.to_nat w) v S D) ->
  proxy_put_request (v, w) S D = Err EValue.
Proof.
  intros Hw Hv LS LD LF. assert (W0 : 0 <= w <= 8) by (unfold width_ok in Hw; lia).
  assert (LI : len (ubf_as_bytes (v, w)) <= 255) by (rewrite ubf_bytes_len; lia).
  unfold proxy_put_request. rewrite lv_new_ok by assumption. cbn [bind].
  apply reserved_new_too_long; [cbv; split; discriminate|].
  unfold put_request_fields in LF. rewrite <- !lv_pack_layout in LF. exact LF.
Qed.

(* exactly which names fit: 3 length octets + ID width + both names <= 250 *)
Lemma put_request_accept_iff v w S D :
  width_ok w -> 0 <= v < 256 ^ w -> len S <= 255 -> len D <= 255 ->
  (is_ok (proxy_put_request (v, w) S D) = true <-> len S + len D <= 247 - w).
Proof.
  intros Hw Hv LS LD. assert (W0 : 0 <= w <= 8) by (unfold width_ok in Hw; lia).
  pose proof (put_request_fields_len (Z.to_nat w) v S D) as L. rewrite Z2Nat.id in L by lia.
  destruct (Z_le_gt_dec (len S + len D) (247 - w)) as [H|H].
  - destruct (put_request_msg v w S D Hw Hv LS LD ltac:(lia)) as [E _]. rewrite E.
    split; [intros _; exact H|reflexivity].
  - rewrite put_request_too_long by (try assumption; lia). split; [discriminate|lia].
Qed.

(* ---- directory listing request ---- *)
Lemma dir_request_fields_len P N : len (dir_request_fields P N) = 2 + len P + len N.
Proof. unfold dir_request_fields. rewrite len_app, !lv_layout_len. lia. Qed.

Lemma dir_request_too_long P N :
  len P <= 255 -> len N <= 255 -> 250 < len (dir_request_fields P N) ->
  directory_listing_request P N = Err EValue.
Proof.
  intros LP LN LF. unfold directory_listing_request.
  apply reserved_new_too_long; [cbv; split; discriminate|].
  unfold dir_request_fields in LF. rewrite <- !lv_pack_layout in LF. exact LF.
Qed.

Lemma dir_request_accept_iff P N : len P <= 255 -> len N <= 255 ->
  (is_ok (directory_listing_request P N) = true <-> len P + len N <= 248).
Proof.
  intros LP LN. pose proof (dir_request_fields_len P N) as L.
  destruct (Z_le_gt_dec (len P + len N) 248) as [H|H].
  - destruct (dir_request_msg P N LP LN ltac:(lia)) as [E _]. rewrite E.
    split; [intros _; exact H|reflexivity].
  - rewrite dir_request_too_long by (try assumption; lia). split; [discriminate|lia].
Qed.

(* ---- directory listing response ---- *)
Lemma dir_response_fields_len s P N : len (dir_response_fields s P N) = 3 + len P + len N.
Proof. unfold dir_response_fields. rewrite !len_app, !lv_layout_len. unfold len at 1. cbn [length]. lia. Qed.

Lemma dir_response_too_long s P N :
  In s [0; 1] -> len P <= 255 -> len N <= 255 -> 250 < len (dir_response_fields s P N) ->
  directory_listing_response s P N = Err EValue.
Proof.
  intros Hs LP LN LF. unfold directory_listing_response.
  assert (S1 : one_byte (Z.shiftl s 7) = Ok [s * 128]).
  { destruct Hs as [<-|[<-|[]]]; reflexivity. }
  rewrite S1. cbn [bind].
  apply reserved_new_too_long; [cbv; split; discriminate|].
  unfold dir_response_fields in LF. rewrite <- !lv_pack_layout in LF. exact LF.
Qed.

Lemma dir_response_accept_iff s P N : In s [0; 1] -> len P <= 255 -> len N <= 255 ->
  (is_ok (directory_listing_response s P N) = true <-> len P + len N <= 247).
Proof.
  intros Hs LP LN. pose proof (dir_response_fields_len s P N) as L.
  destruct (Z_le_gt_dec (len P + len N) 247) as [H|H].
  - destruct (dir_response_msg s P N Hs LP LN ltac:(lia)) as [E _]. rewrite E.
    split; [intros _; exact H|reflexivity].
  - rewrite dir_response_too_long by (try assumption; lia). split; [discriminate|lia].
Qed.

(* ---- names of 251..255 octets (the property text says 0..255): a single name of more than
   246 (put request, 1-octet ID) / 248 (listing request) / 247 (listing response) octets does not
   fit the 255-octet TLV value together with "cfdp", the type octet and the length octets, and
   is refused with ValueError by every name-carrying constructor, whatever the other name ---- *)
Lemma long_name_refused v w s S D :
  width_ok w -> 0 <= v < 256 ^ w -> In s [0; 1] -> len S <= 255 -> len D <= 255 ->
  251 <= len S \/ 251 <= len D ->
  proxy_put_request (v, w) S D = Err EValue /\
  directory_listing_request S D = Err EValue /\
  directory_listing_response s S D = Err EValue.
Proof.
  intros Hw Hv Hs LS LD Hl. assert (W0 : 0 <= w <= 8) by (unfold width_ok in Hw; lia).
  pose proof (len_nonneg S). pose proof (len_nonneg D).
  pose proof (put_request_fields_len (Z.to_nat w) v S D) as L1. rewrite Z2Nat.id in L1 by lia.
  pose proof (dir_request_fields_len S D) as L2. pose proof (dir_response_fields_len s S D) as L3.
  split; [apply put_request_too_long; try assumption; lia|].
  split; [apply dir_request_too_long; try assumption; lia|].
  apply dir_response_too_long; try assumption; lia.
Qed.

(* the other six kinds have fields of at most 17 octets: their constructors never meet the limit
   (C18_put_cancel .. C18_originating_transaction_id carry no length hypothesis) *)
Lemma fixed_kinds_fit sw sv qw qv cc dc fs b rc al :
  (sw <= 8)%nat -> (qw <= 8)%nat ->
  len (originating_id_fields sw sv qw qv) <= 17 /\ len (put_response_fields cc dc fs) = 1 /\
  len (closure_fields b) = 1 /\ len (transmission_mode_fields b) = 1 /\
  len (dir_options_fields rc al) = 1.
Proof.
  intros H1 H2. repeat split.
  unfold originating_id_fields. rewrite !len_app. unfold len. rewrite !be_encode_length. cbn [length]. lia.
Qed.

(* non-vacuity: the boundary for 1-octet IDs and an empty destination name *)
Example put_request_boundary :
  is_ok (proxy_put_request (1, 1) (repeat 65 246) []) = true /\
  proxy_put_request (1, 1) (repeat 65 247) [] = Err EValue /\
  is_ok (directory_listing_request (repeat 65 248) []) = true /\
  directory_listing_request (repeat 65 249) [] = Err EValue /\
  is_ok (directory_listing_response 1 (repeat 65 247) []) = true /\
  directory_listing_response 1 (repeat 65 248) [] = Err EValue.
Proof. vm_compute. repeat split. Qed.
