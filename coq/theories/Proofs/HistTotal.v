(* C11 (gap 3): the length invariants are not vacuous - totality of the setter histories. *)
From Coq Require Import ZArith List Bool Lia ZifyBool.
From SP Require Import Base.Result Base.Bytes Base.BytesFacts Base.Utf8 Base.Crc16
  Model.PduHeader Spec.PduHeaderSpec Proofs.PduHeaderProofs
  Model.FileDirective Proofs.FileDirectiveProofs
  Model.Lv Model.Tlv Spec.TlvSpec Proofs.LvProofs Proofs.TlvProofs
  Model.Finished Model.Metadata Model.Nak Model.FileData
  Spec.PduBSpec Spec.PduCSpec Spec.FileDataSpec Spec.HistSpec
  Proofs.FinishedProofs Proofs.MetadataProofs Proofs.NakProofs Proofs.FileDataProofs Proofs.FileDataCrc.
Import ListNotations.
Open Scope Z_scope.
Ltac Zify.zify_post_hook ::= Z.to_euclidean_division_equations.

(* ======================= Finished ======================= *)
(* what each setter does to the parameter set *)
Definition fin_after (q : FinParams) (o : fin_op) : FinParams :=
  match o with
  | FSetFault x => fn_with_fault q x
  | FSetResps x => fn_with_resps q (match x with None => [] | Some l => l end)
  | FSetCc cc => {| fn_cc := cc; fn_dc := fn_dc q; fn_fs := fn_fs q; fn_resps := fn_resps q; fn_fault := fn_fault q |}
  end.
(* exact condition: every parameter set the history passes through is one of the standard *)
Fixpoint fin_hist_ok (c : PduConfig) (q : FinParams) (ops : list fin_op) : Prop :=
  match ops with
  | [] => True
  | o :: r => fin_valid c (fin_after q o) /\ fin_hist_ok c (fin_after q o) r
  end.
(* condition on the arguments alone *)
Definition fin_op_ok (c : PduConfig) (o : fin_op) : Prop :=
  match o with
  | FSetFault x => fin_fault_arg_ok x
  | FSetResps x => fin_resps_arg_ok x
  | FSetCc cc => fin_cc_arg_ok cc
  end.

Lemma fin_apply_op_spec c q o : flag (cf_crc c) ->
  fin_apply_op (fin_pdu_of c q) o =
  if fin_dlen c (fin_after q o) <=? 65535 then Ok (fin_pdu_of c (fin_after q o)) else Err EValue.
Proof.
  intros Fc. destruct o as [x|x|cc]; unfold fin_apply_op, fin_set_fault, fin_set_resps, fin_set_cc;
    unfold fin_pdu_of at 1; cbn [fin_fdir fin_params]; rewrite fin_calc_len_spec by exact Fc; reflexivity.
Qed.

(* totality, exact form: the history is accepted call by call, the object at the end is the
   freshly constructed one for the parameter set the setters describe, and that set is valid *)
Theorem fin_history_total c ops : forall q, fin_valid c q -> fin_hist_ok c q ops ->
  let q' := fold_left fin_after ops q in
  fin_apply_ops (fin_pdu_of c q) ops = Ok (fin_pdu_of c q') /\ fin_valid c q'.
Proof.
  induction ops as [|o r IH]; intros q V H; cbn [fold_left fin_apply_ops].
  - split; [reflexivity|exact V].
  - destruct H as [V1 H1]. rewrite fin_apply_op_spec by apply V.
    assert (D : fin_dlen c (fin_after q o) <= 65535) by apply V1.
    destruct (fin_dlen c (fin_after q o) <=? 65535) eqn:E; [|lia]. cbn [bind].
    apply IH; assumption.
Qed.

(* the arguments-only condition implies the exact one *)
Definition fin_roomy (q : FinParams) : Prop := fin_resps_roomy (fn_resps q).

Lemma fin_fault_layout_le q : fault_valid (fn_fault q) -> len (fin_fault_layout q) <= 257.
Proof.
  unfold fin_fault_layout, fin_fault_emitted. destruct (fault_allowed (fn_cc q)); [|cbn; lia].
  destruct (fn_fault q) as [t|]; [|cbn; lia]. intros (_ & L & _).
  unfold entity_layout. rewrite tlv_layout_len. lia.
Qed.

Lemma fin_roomy_dlen c q : flag (cf_crc c) -> fault_valid (fn_fault q) -> fin_roomy q -> fin_dlen c q <= 65535.
Proof.
  intros Fc Vf R. rewrite fin_dlen_eq, resps_len_cat. pose proof (fin_fault_layout_le q Vf).
  unfold fin_roomy, fin_resps_roomy in R. destruct (crc_octets_cases c Fc) as [[_ ->]|[_ ->]]; lia.
Qed.

Lemma fin_op_ok_step c q o : fin_valid c q -> fin_roomy q -> fin_op_ok c o ->
  fin_valid c (fin_after q o) /\ fin_roomy (fin_after q o).
Proof.
  intros (C & Vc & Vd & Vs & Vr & Vf & D) R O.
  assert (Fc : flag (cf_crc c)) by apply C.
  destruct o as [x|x|cc]; cbn [fin_op_ok fin_after] in *.
  - split; [|exact R]. unfold fin_valid. cbn [fn_with_fault fn_cc fn_dc fn_fs fn_resps fn_fault].
    refine (conj C (conj Vc (conj Vd (conj Vs (conj Vr (conj O _)))))).
    apply fin_roomy_dlen; [exact Fc|exact O|exact R].
  - destruct O as [O1 O2]. split; [|exact O2]. unfold fin_valid. cbn [fn_with_resps fn_cc fn_dc fn_fs fn_resps fn_fault].
    refine (conj C (conj Vc (conj Vd (conj Vs (conj O1 (conj Vf _)))))).
    apply fin_roomy_dlen; [exact Fc|exact Vf|exact O2].
  - split; [|exact R]. unfold fin_valid. cbn [fn_cc fn_dc fn_fs fn_resps fn_fault].
    refine (conj C (conj O (conj Vd (conj Vs (conj Vr (conj Vf _)))))).
    apply fin_roomy_dlen; [exact Fc|exact Vf|exact R].
Qed.

Lemma fin_ops_ok_hist c ops : forall q, fin_valid c q -> fin_roomy q -> Forall (fin_op_ok c) ops ->
  fin_hist_ok c q ops.
Proof.
  induction ops as [|o r IH]; intros q V R F; cbn [fin_hist_ok]; [exact I|].
  inversion F as [|? ? Fo Fr]; subst. destruct (fin_op_ok_step c q o V R Fo) as [V1 R1].
  split; [exact V1|]. apply IH; assumption.
Qed.

(* totality in the form: valid start, every argument in range -> accepted, valid at the end;
   together with fin_len_inv: the length clauses hold after every such history *)
Theorem fin_apply_ops_total c q ops : fin_valid c q -> fin_roomy q -> Forall (fin_op_ok c) ops ->
  exists p, fin_apply_ops (fin_pdu_of c q) ops = Ok p /\ fin_valid c (fin_params p) /\
    fin_params p = fold_left fin_after ops q /\
    fin_pack p = Ok (fin_layout c (fin_params p)) /\
    fin_packet_len p = len (fin_layout c (fin_params p)) /\
    fin_new c (fin_params p) = Ok (p, c, fin_params p).
Proof.
  intros V R F. destruct (fin_history_total c ops q V (fin_ops_ok_hist c ops q V R F)) as [A V'].
  cbv zeta in A, V'. eexists. split; [exact A|]. cbn [fin_pdu_of fin_params].
  split; [exact V'|]. split; [reflexivity|].
  apply (fin_len_inv c q ops _ V A). exact V'.
Qed.

Definition fin_hist_example : list fin_op :=
  [FSetCc 0; FSetFault None; FSetResps (Some [ex_resp2]); FSetCc 7;
   FSetFault (Some {| tlv_type := 6; tlv_value := [7; 7; 7; 7] |}); FSetResps None].
Example fin_apply_ops_total_example :
  fin_valid (ex_conf 1 0) ex_fin /\ fin_roomy ex_fin /\ Forall (fin_op_ok (ex_conf 1 0)) fin_hist_example /\
  fin_hist_ok (ex_conf 1 0) ex_fin fin_hist_example /\
  (do p <- fin_apply_ops (fin_pdu_of (ex_conf 1 0) ex_fin) fin_hist_example; fin_pack p) =
  Ok [46; 0; 10; 147; 1; 2; 255; 255; 255; 255; 255; 255; 5; 117; 6; 4; 7; 7; 7; 7; 91; 11].
Proof.
  assert (V : fin_valid (ex_conf 1 0) ex_fin) by apply fin_valid_example.
  assert (R : fin_roomy ex_fin) by (vm_compute; discriminate).
  assert (F : Forall (fin_op_ok (ex_conf 1 0)) fin_hist_example).
  { unfold fin_hist_example. repeat constructor; cbn [fin_op_ok]; unfold fin_cc_arg_ok, cc_valid, fin_fault_arg_ok,
      fault_valid, fin_resps_arg_ok, fin_resps_roomy; cbn [tlv_type tlv_value]; try lia; try exact I;
      try (vm_compute; discriminate); try reflexivity; try apply ex_resp_valid; try (repeat constructor; lia). }
  split; [exact V|]. split; [exact R|]. split; [exact F|]. split; [apply fin_ops_ok_hist; assumption|].
  vm_compute. reflexivity.
Qed.

(* ======================= Metadata ======================= *)
Definition mp_with_src (q : MdParams) (n : option bytes) : MdParams :=
  {| mp_closure := mp_closure q; mp_cstype := mp_cstype q; mp_fsize := mp_fsize q; mp_src := n; mp_dst := mp_dst q |}.
Definition mp_with_dst (q : MdParams) (n : option bytes) : MdParams :=
  {| mp_closure := mp_closure q; mp_cstype := mp_cstype q; mp_fsize := mp_fsize q; mp_src := mp_src q; mp_dst := n |}.
(* the values an object stands for after a setter call: (parameters, options) *)
Definition md_after (st : MdParams * option (list tlv)) (op : md_op) : MdParams * option (list tlv) :=
  match op with
  | MSetOptions x => (fst st, x)
  | MSetSrc n => (mp_with_src (fst st) n, snd st)
  | MSetDst n => (mp_with_dst (fst st) n, snd st)
  end.
Fixpoint md_hist_ok (c : PduConfig) (st : MdParams * option (list tlv)) (ops : list md_op) : Prop :=
  match ops with
  | [] => True
  | op :: r => md_valid c (fst (md_after st op)) (snd (md_after st op)) /\ md_hist_ok c (md_after st op) r
  end.
Definition md_op_ok (c : PduConfig) (op : md_op) : Prop :=
  match op with
  | MSetOptions x => md_opts_arg_ok x
  | MSetSrc n => md_name_arg_ok n
  | MSetDst n => md_name_arg_ok n
  end.

(* the object for values (q, o) that keeps referring to the caller's parameter object q0 *)
Definition md_reparam (p : MetadataPdu) (q0 : MdParams) : MetadataPdu :=
  {| md_fdir := md_fdir p; md_params := q0; md_src_lv := md_src_lv p; md_dst_lv := md_dst_lv p;
     md_options := md_options p |}.

Lemma md_apply_op_spec c q0 q o op : flag (cf_crc c) -> flag (cf_large c) ->
  let st := md_after (q, o) op in
  name_valid (mp_src (fst st)) -> name_valid (mp_dst (fst st)) ->
  md_apply_op (md_reparam (md_pdu_of c q o) q0) op =
  if md_dlen c (fst st) (snd st) <=? 65535 then Ok (md_reparam (md_pdu_of c (fst st) (snd st)) q0) else Err EValue.
Proof.
  intros Fc Fl st Ns Nd. unfold st in *. clear st.
  destruct op as [x|n|n]; cbn [md_after fst snd mp_with_src mp_with_dst mp_src mp_dst] in *;
    unfold md_apply_op, md_set_options, md_set_src, md_set_dst, md_reparam, md_pdu_of;
    cbn [md_fdir md_params md_src_lv md_dst_lv md_options];
    rewrite ?(name_lv_ok n) by assumption; cbn [bind];
    rewrite md_calc_len_spec by assumption; cbv zeta; rewrite <- ?md_dlen_eq.
  - rewrite (md_dlen_eq c q x). reflexivity.
  - rewrite (md_dlen_eq c (mp_with_src q n) o). cbn [mp_with_src mp_src mp_dst]. reflexivity.
  - rewrite (md_dlen_eq c (mp_with_dst q n) o). cbn [mp_with_dst mp_src mp_dst]. reflexivity.
Qed.

Theorem md_history_total c q0 ops : forall q o, md_valid c q o -> md_hist_ok c (q, o) ops ->
  let st := fold_left md_after ops (q, o) in
  md_apply_ops (md_reparam (md_pdu_of c q o) q0) ops = Ok (md_reparam (md_pdu_of c (fst st) (snd st)) q0) /\
  md_valid c (fst st) (snd st).
Proof.
  induction ops as [|op r IH]; intros q o V H; cbn [fold_left md_apply_ops].
  - split; [reflexivity|exact V].
  - destruct H as [V1 H1].
    assert (Fc : flag (cf_crc c)) by apply V. assert (Fl : flag (cf_large c)) by apply V.
    pose proof V1 as (_ & _ & _ & _ & Ns & Nd & _ & D).
    rewrite (md_apply_op_spec c q0 q o op Fc Fl Ns Nd). cbv zeta.
    destruct (md_dlen c (fst (md_after (q, o) op)) (snd (md_after (q, o) op)) <=? 65535) eqn:E; [|lia].
    cbn [bind]. destruct (md_after (q, o) op) as [q1 o1] eqn:A. cbn [fst snd] in *.
    apply IH; assumption.
Qed.

Lemma md_reparam_id c q o : md_reparam (md_pdu_of c q o) q = md_pdu_of c q o.
Proof. reflexivity. Qed.

(* the validity of a parameter set looks at the names only through their octets *)
Lemma md_valid_names c q q' o :
  mp_closure q' = mp_closure q -> mp_cstype q' = mp_cstype q -> mp_fsize q' = mp_fsize q ->
  name_octets (mp_src q') = name_octets (mp_src q) -> name_octets (mp_dst q') = name_octets (mp_dst q) ->
  md_valid c q o -> md_valid c q' o.
Proof.
  intros E1 E2 E3 E4 E5 (C & V1 & V2 & V3 & V4 & V5 & V6 & D).
  unfold md_valid, name_valid in *. rewrite E1, E2, E3, E4, E5.
  refine (conj C (conj V1 (conj V2 (conj V3 (conj V4 (conj V5 (conj V6 _))))))).
  rewrite md_dlen_eq in *. rewrite E4, E5. exact D.
Qed.

Lemma md_after_keeps ops : forall st,
  mp_closure (fst (fold_left md_after ops st)) = mp_closure (fst st) /\
  mp_cstype (fst (fold_left md_after ops st)) = mp_cstype (fst st) /\
  mp_fsize (fst (fold_left md_after ops st)) = mp_fsize (fst st).
Proof.
  induction ops as [|op r IH]; intros st; cbn [fold_left]; [repeat split|].
  destruct (IH (md_after st op)) as (A & B & C). rewrite A, B, C. destruct op; repeat split.
Qed.

Definition md_roomy (o : option (list tlv)) : Prop := md_opts_roomy o.

Lemma md_roomy_dlen c q o : conf_valid c -> name_valid (mp_src q) -> name_valid (mp_dst q) -> md_roomy o ->
  md_dlen c q o <= 65535.
Proof.
  intros C (L1 & _) (L2 & _) R. rewrite md_dlen_eq, opts_len_cat. unfold md_roomy, md_opts_roomy in R.
  assert (Fc : flag (cf_crc c)) by apply C. assert (Fl : flag (cf_large c)) by apply C.
  unfold fss_width. destruct (crc_octets_cases c Fc) as [[_ ->]|[_ ->]]; destruct Fl as [-> | ->]; cbn [Z.eqb Pos.eqb]; lia.
Qed.

Lemma md_op_ok_step c q o op : md_valid c q o -> md_roomy o -> md_op_ok c op ->
  md_valid c (fst (md_after (q, o) op)) (snd (md_after (q, o) op)) /\ md_roomy (snd (md_after (q, o) op)).
Proof.
  intros (C & V1 & V2 & V3 & V4 & V5 & V6 & D) R O.
  destruct op as [x|n|n]; cbn [md_op_ok md_after fst snd] in *.
  - destruct O as [O1 O2]. split; [|exact O2].
    refine (conj C (conj V1 (conj V2 (conj V3 (conj V4 (conj V5 (conj O1 _))))))).
    apply md_roomy_dlen; assumption.
  - split; [|exact R]. unfold md_valid. cbn [mp_with_src mp_closure mp_cstype mp_fsize mp_src mp_dst].
    refine (conj C (conj V1 (conj V2 (conj V3 (conj O (conj V5 (conj V6 _))))))).
    apply md_roomy_dlen; assumption.
  - split; [|exact R]. unfold md_valid. cbn [mp_with_dst mp_closure mp_cstype mp_fsize mp_src mp_dst].
    refine (conj C (conj V1 (conj V2 (conj V3 (conj V4 (conj O (conj V6 _))))))).
    apply md_roomy_dlen; assumption.
Qed.

Lemma md_ops_ok_hist c ops : forall q o, md_valid c q o -> md_roomy o -> Forall (md_op_ok c) ops ->
  md_hist_ok c (q, o) ops.
Proof.
  induction ops as [|op r IH]; intros q o V R F; cbn [md_hist_ok]; [exact I|].
  inversion F as [|? ? Fo Fr]; subst. destruct (md_op_ok_step c q o op V R Fo) as [V1 R1].
  split; [exact V1|]. destruct (md_after (q, o) op) as [q1 o1]. apply IH; assumption.
Qed.

Theorem md_apply_ops_total c q o ops : md_valid c q o -> md_roomy o -> Forall (md_op_ok c) ops ->
  exists p, md_apply_ops (md_pdu_of c q o) ops = Ok p /\
    md_valid c (md_current p) (md_options p) /\
    md_params p = q /\                                  (* the caller's object: not written *)
    (let st := fold_left md_after ops (q, o) in
     md_options p = snd st /\ md_src_lv p = name_octets (mp_src (fst st)) /\
     md_dst_lv p = name_octets (mp_dst (fst st))) /\
    md_pack p = Ok (md_layout c (md_current p) (md_options p)) /\
    md_packet_len p = len (md_layout c (md_current p) (md_options p)).
Proof.
  intros V R F.
  destruct (md_history_total c q ops q o V (md_ops_ok_hist c ops q o V R F)) as [A V'].
  cbv zeta in A, V'. rewrite md_reparam_id in A.
  set (st := fold_left md_after ops (q, o)) in *.
  exists (md_reparam (md_pdu_of c (fst st) (snd st)) q). split; [exact A|].
  destruct (md_after_keeps ops (q, o)) as (K1 & K2 & K3). fold st in K1, K2, K3. cbn [fst] in K1, K2, K3.
  assert (Vc : md_valid c (md_current (md_reparam (md_pdu_of c (fst st) (snd st)) q))
                 (md_options (md_reparam (md_pdu_of c (fst st) (snd st)) q))).
  { cbn [md_reparam md_pdu_of md_options]. eapply md_valid_names; [..|exact V'];
      unfold md_current; cbn [md_params md_src_lv md_dst_lv mp_closure mp_cstype mp_fsize mp_src mp_dst name_octets];
      cbn [md_reparam md_params]; first [congruence | reflexivity]. }
  split; [exact Vc|]. split; [reflexivity|]. split; [repeat split|].
  apply (md_len_inv c q o ops _ V A Vc).
Qed.

Definition md_hist_example : list md_op :=
  [MSetDst (Some [98]); MSetOptions None; MSetSrc None; MSetOptions (Some [{| tlv_type := 6; tlv_value := [1] |}])].
Example md_apply_ops_total_example :
  md_valid (ex_conf 0 1) ex_md ex_opts /\ md_roomy ex_opts /\ Forall (md_op_ok (ex_conf 0 1)) md_hist_example /\
  (do p <- md_apply_ops (md_pdu_of (ex_conf 0 1) ex_md ex_opts) md_hist_example; md_pack p) =
  Ok [37; 0; 16; 147; 1; 2; 255; 255; 255; 255; 255; 255; 7; 67; 0; 0; 0; 1; 0; 0; 0; 0; 0; 1; 98; 6; 1; 1].
Proof.
  split.
  { destruct md_valid_example as (C & R). split; [apply ex_conf_valid; [left|right]; reflexivity|].
    destruct R as (V1 & V2 & V3 & V4 & V5 & V6 & _). repeat (split; [assumption|]). vm_compute. congruence. }
  split; [vm_compute; discriminate|]. split.
  { unfold md_hist_example. repeat constructor; cbn [md_op_ok]; unfold md_name_arg_ok, name_valid, md_opts_arg_ok, md_opts_roomy,
      opt_valid, wf_bytes; cbn [opts_of name_octets tlv_type tlv_value]; try (vm_compute; congruence); repeat constructor; try lia;
      try (vm_compute; congruence). }
  vm_compute. reflexivity.
Qed.

(* ======================= NAK ======================= *)
Definition np_with_segs (q : NakParams) (l : list (Z * Z)) : NakParams :=
  {| np_start := np_start q; np_end := np_end q; np_segs := l |}.
Definition np_with_start (q : NakParams) (v : Z) : NakParams :=
  {| np_start := v; np_end := np_end q; np_segs := np_segs q |}.
Definition np_with_end (q : NakParams) (v : Z) : NakParams :=
  {| np_start := np_start q; np_end := v; np_segs := np_segs q |}.
(* (file flag, values) after a setter call *)
Definition nak_after (st : Z * NakParams) (op : nak_op) : Z * NakParams :=
  match op with
  | SetSegs l => (fst st, np_with_segs (snd st) l)
  | SetFileFlag v => (v, snd st)
  | SetStart v => (fst st, np_with_start (snd st) v)
  | SetEnd v => (fst st, np_with_end (snd st) v)
  end.
Fixpoint nak_hist_ok (c : PduConfig) (st : Z * NakParams) (ops : list nak_op) : Prop :=
  match ops with
  | [] => True
  | op :: r => nak_valid (conf_set_large c (fst (nak_after st op))) (snd (nak_after st op)) /\
               nak_hist_ok c (nak_after st op) r
  end.
Definition nak_op_ok (c : PduConfig) (op : nak_op) : Prop :=
  match op with
  | SetSegs l => nak_segs_arg_ok l
  | SetFileFlag v => nak_flag_arg_ok v
  | SetStart v => nak_scope_arg_ok v
  | SetEnd v => nak_scope_arg_ok v
  end.

Lemma nak_calc_len_fwd c' n0 q' : flag (cf_large c') -> nak_plen c' q' + 1 <= 65535 ->
  nak_calc_len {| nk_fd := fdir_of c' 8 n0; nk_segs := np_segs q'; nk_start := np_start q'; nk_end := np_end q' |}
  = Ok (nak_mk c' q').
Proof.
  intros F L. rewrite nak_calc_len_spec by exact F.
  unfold nk_conf, nk_hdr, nak_params, fdir_of. cbn [nk_fd nk_segs nk_start nk_end FileDirective.fd_hdr fd_type h_conf h_type h_meta].
  assert (E : {| np_start := np_start q'; np_end := np_end q'; np_segs := np_segs q' |} = q') by (destruct q'; reflexivity).
  rewrite E. destruct (nak_plen c' q' + 1 <=? 65535) eqn:G; [|lia]. reflexivity.
Qed.

Lemma nak_apply_op_spec c lf q op :
  let st := nak_after (lf, q) op in
  nak_valid (conf_set_large c (fst st)) (snd st) ->
  nak_apply_op (nak_pdu_of (conf_set_large c lf) q) op = Ok (nak_pdu_of (conf_set_large c (fst st)) (snd st)).
Proof.
  intros st V. unfold st in *. clear st. pose proof (nak_valid_plen _ _ V) as [_ P]. pose proof V as (C & _).
  destruct op as [l|v|v|v]; cbn [nak_after fst snd nak_apply_op] in *.
  - unfold nak_set_segs, nak_with_segs, nak_pdu_of. cbn [nak_mk nk_fd nk_segs nk_start nk_end].
    apply (nak_calc_len_fwd (conf_set_dir (conf_set_large c lf) 1) _ (np_with_segs q l)); [apply C|exact P].
  - unfold nak_set_file_flag, nak_with_fd, nak_pdu_of.
    cbn [nak_mk nk_fd nk_segs nk_start nk_end fdir_of FileDirective.fd_hdr fd_type hdr_with_conf h_type h_meta h_dlen h_conf].
    apply (nak_calc_len_fwd (conf_set_large (conf_set_dir (conf_set_large c lf) 1) v) (nak_plen (conf_set_dir (conf_set_large c lf) 1) q) q);
      [apply C|exact P].
  - reflexivity.
  - reflexivity.
Qed.

Theorem nak_history_total c ops : forall lf q, nak_valid (conf_set_large c lf) q -> nak_hist_ok c (lf, q) ops ->
  let st := fold_left nak_after ops (lf, q) in
  nak_apply_ops (nak_pdu_of (conf_set_large c lf) q) ops = Ok (nak_pdu_of (conf_set_large c (fst st)) (snd st)) /\
  nak_valid (conf_set_large c (fst st)) (snd st).
Proof.
  induction ops as [|op r IH]; intros lf q V H; cbn [fold_left nak_apply_ops].
  - split; [reflexivity|exact V].
  - destruct H as [V1 H1]. rewrite (nak_apply_op_spec c lf q op V1). cbn [bind].
    destruct (nak_after (lf, q) op) as [lf1 q1]. cbn [fst snd] in *. apply IH; assumption.
Qed.

Definition nak_roomy (q : NakParams) : Prop :=
  nak_scope_arg_ok (np_start q) /\ nak_scope_arg_ok (np_end q) /\ nak_segs_arg_ok (np_segs q).

Lemma conf_set_large_valid c v : conf_valid c -> flag v -> conf_valid (conf_set_large c v).
Proof.
  intros V F. unfold conf_valid, conf_set_large in *.
  cbn [cf_src cf_dst cf_seq cf_mode cf_large cf_crc cf_dir cf_segctrl]. tauto.
Qed.

Lemma conf_set_large_id c : conf_set_large c (cf_large c) = c.
Proof. destruct c; reflexivity. Qed.

Lemma in_width_4_any c v : flag (cf_large c) -> in_width 4 v -> in_width (nak_w c) v.
Proof.
  intros F [A B]. unfold in_width, nak_w. change (256 ^ Z.of_nat 4) with 4294967296 in B.
  destruct F as [-> | ->]; cbn [Z.eqb Pos.eqb].
  - change (256 ^ Z.of_nat 4) with 4294967296. lia.
  - change (256 ^ Z.of_nat 8) with 18446744073709551616. lia.
Qed.

Lemma nak_roomy_valid c lf q : conf_valid c -> flag lf -> nak_roomy q -> nak_valid (conf_set_large c lf) q.
Proof.
  intros C F (Rs & Re & (Rl & Rn)). pose proof (conf_set_large_valid c lf C F) as C2.
  assert (Fl : flag (cf_large (conf_set_large c lf))) by exact F.
  refine (conj C2 (conj (in_width_4_any _ _ Fl Rs) (conj (in_width_4_any _ _ Fl Re) (conj _ _)))).
  - eapply Forall_impl; [|exact Rl]. intros se [A B]. split; apply in_width_4_any; assumption.
  - unfold nak_dlen, nak_plen, nak_w. cbn [conf_set_large cf_large cf_crc].
    destruct F as [-> | ->]; cbn [Z.eqb Pos.eqb]; destruct (cf_crc c =? 1); lia.
Qed.

Lemma nak_op_ok_step lf q op : flag lf -> nak_roomy q -> forall c, nak_op_ok c op ->
  flag (fst (nak_after (lf, q) op)) /\ nak_roomy (snd (nak_after (lf, q) op)).
Proof.
  intros F (Rs & Re & Rl) c O. destruct op as [l|v|v|v]; cbn [nak_op_ok nak_after fst snd] in *.
  - split; [exact F|]. exact (conj Rs (conj Re O)).
  - split; [exact O|]. exact (conj Rs (conj Re Rl)).
  - split; [exact F|]. exact (conj O (conj Re Rl)).
  - split; [exact F|]. exact (conj Rs (conj O Rl)).
Qed.

Lemma nak_ops_ok_hist c ops : conf_valid c -> forall lf q, flag lf -> nak_roomy q ->
  Forall (nak_op_ok c) ops -> nak_hist_ok c (lf, q) ops.
Proof.
  intros C. induction ops as [|op r IH]; intros lf q F R Fo; cbn [nak_hist_ok]; [exact I|].
  inversion Fo as [|? ? O Fr]; subst.
  destruct (nak_op_ok_step lf q op F R c O) as [F1 R1].
  split; [apply nak_roomy_valid; assumption|].
  destruct (nak_after (lf, q) op) as [lf1 q1]. cbn [fst snd] in *. apply IH; assumption.
Qed.

Theorem nak_apply_ops_total c q ops : nak_valid c q -> nak_roomy q -> Forall (nak_op_ok c) ops ->
  exists p lf, nak_apply_ops (nak_pdu_of c q) ops = Ok p /\ flag lf /\
    let c2 := conf_set_large c lf in
    (lf, nak_params p) = fold_left nak_after ops (cf_large c, q) /\
    nak_valid c2 (nak_params p) /\
    nak_pack p = Ok (nak_layout c2 (nak_params p)) /\
    nak_packet_len p = len (nak_layout c2 (nak_params p)) /\
    nak_new c2 (np_start (nak_params p)) (np_end (nak_params p)) (np_segs (nak_params p)) = Ok (p, c2).
Proof.
  intros V R F. pose proof V as (C & _). assert (Fl : flag (cf_large c)) by apply C.
  pose proof (nak_ops_ok_hist c ops C (cf_large c) q Fl R F) as H.
  rewrite <- (conf_set_large_id c) in V at 1.
  destruct (nak_history_total c ops (cf_large c) q V H) as [A V'].
  cbv zeta in A, V'. rewrite conf_set_large_id in A.
  destruct (fold_left nak_after ops (cf_large c, q)) as [lf' q'] eqn:E. cbn [fst snd] in *.
  exists (nak_pdu_of (conf_set_large c lf') q'), lf'. split; [exact A|].
  assert (P : nak_params (nak_pdu_of (conf_set_large c lf') q') = q') by (destruct q'; reflexivity).
  split; [apply V'|]. cbv zeta. rewrite P. split; [reflexivity|]. split; [exact V'|].
  split; [apply nak_pack_layout; exact V'|]. split; [apply (nak_data_field_len _ _ V')|].
  apply nak_new_ok. exact V'.
Qed.

Definition nak_hist_q : NakParams := {| np_start := 1; np_end := 100; np_segs := [(1, 2)] |}.
Definition nak_hist_example : list nak_op :=
  [SetSegs [(0, 10); (20, 30)]; SetFileFlag 1; SetStart 5; SetSegs [(7, 4294967295)]; SetEnd 4294967295].
Example nak_apply_ops_total_example :
  nak_valid (ex_conf 1 0) nak_hist_q /\ nak_roomy nak_hist_q /\ Forall (nak_op_ok (ex_conf 1 0)) nak_hist_example /\
  (do p <- nak_apply_ops (nak_pdu_of (ex_conf 1 0) nak_hist_q) nak_hist_example; nak_pack p) =
  Ok ([47; 0; 35; 147; 1; 2; 255; 255; 255; 255; 255; 255; 8;
       0; 0; 0; 0; 0; 0; 0; 5;  0; 0; 0; 0; 255; 255; 255; 255;
       0; 0; 0; 0; 0; 0; 0; 7;  0; 0; 0; 0; 255; 255; 255; 255] ++ [0; 252]).
Proof.
  assert (R : nak_roomy nak_hist_q).
  { unfold nak_roomy, nak_hist_q, nak_scope_arg_ok, nak_segs_arg_ok, in_width. cbn [np_start np_end np_segs fst snd length].
    change (256 ^ Z.of_nat 4) with 4294967296. repeat split; try lia. repeat constructor; cbn [fst snd]; lia. }
  split.
  { pose proof (nak_roomy_valid (ex_conf 1 0) 0 nak_hist_q (ex_conf_valid 1 0 ltac:(right; reflexivity) ltac:(left; reflexivity))
                  ltac:(left; reflexivity) R) as V. exact V. }
  split; [exact R|]. split.
  { unfold nak_hist_example. repeat constructor; cbn [nak_op_ok]; unfold nak_segs_arg_ok, nak_flag_arg_ok, nak_scope_arg_ok, in_width;
      change (256 ^ Z.of_nat 4) with 4294967296; cbn [fst snd length]; try lia; try (right; reflexivity);
      repeat constructor; cbn [fst snd]; lia. }
  vm_compute. reflexivity.
Qed.

(* ======================= File Data ======================= *)
Definition fd_after (q : FdParams) (op : fd_op) : FdParams :=
  match op with
  | SetFileData d => {| fp_data := d; fp_offset := fp_offset q; fp_meta := fp_meta q |}
  | SetSegMeta m => {| fp_data := fp_data q; fp_offset := fp_offset q; fp_meta := m |}
  end.
Fixpoint fd_hist_ok (c : PduConfig) (q : FdParams) (ops : list fd_op) : Prop :=
  match ops with
  | [] => True
  | op :: r => fd_valid c (fd_after q op) /\ fd_hist_ok c (fd_after q op) r
  end.
Definition fd_op_ok (c : PduConfig) (op : fd_op) : Prop :=
  match op with SetFileData d => fd_data_arg_ok d | SetSegMeta m => fd_meta_arg_ok m end.

Lemma fd_apply_op_spec c q op : flag (cf_large c) -> fd_dlen c (fd_after q op) <= 65535 ->
  fd_apply_op (fd_pdu_of c q) op = Ok (fd_pdu_of c (fd_after q op)).
Proof.
  intros L D.
  assert (X : exists p', fd_apply_op (fd_pdu_of c q) op = Ok p' /\ fd_params p' = fd_after q op).
  { destruct op as [d|m]; unfold fd_apply_op, fd_set_data, fd_set_meta; cbv zeta;
      rewrite (fd_calc_len_spec c) by (try exact L; reflexivity);
      unfold fd_with_params, fd_with_hdr, fd_pdu_of; cbn [FileData.fd_hdr fd_params fd_after] in *;
      (destruct (fd_dlen c _ <=? 65535) eqn:E; [|lia]); eexists; split; reflexivity. }
  destruct X as (p' & A & P). rewrite A. f_equal.
  pose proof (fd_apply_op_inv c (fd_pdu_of c q) op p' L ltac:(reflexivity) A) as I.
  unfold fd_inv in I. rewrite I, P. reflexivity.
Qed.

Theorem fd_history_total c ops : forall q, fd_valid c q -> fd_hist_ok c q ops ->
  let q' := fold_left fd_after ops q in
  fd_apply_ops (fd_pdu_of c q) ops = Ok (fd_pdu_of c q') /\ fd_valid c q'.
Proof.
  induction ops as [|op r IH]; intros q V H; cbn [fold_left fd_apply_ops].
  - split; [reflexivity|exact V].
  - destruct H as [V1 H1]. rewrite fd_apply_op_spec; [|apply V|apply V1]. cbn [bind]. apply IH; assumption.
Qed.

Definition fd_roomy (q : FdParams) : Prop := len (fp_data q) <= 65461.

Lemma fd_roomy_dlen c q : conf_valid c -> meta_valid (fp_meta q) -> fd_roomy q -> fd_dlen c q <= 65535.
Proof.
  intros C M R. unfold fd_dlen. rewrite fd_body_len. unfold fd_roomy in R.
  assert (Fl : flag (cf_large c)) by apply C.
  assert (X : match fp_meta q with Some s => 1 + len (sm_data s) | None => 0 end <= 64).
  { destruct (fp_meta q) as [s|]; [|lia]. destruct M as (_ & M & _). lia. }
  unfold fss_octets. destruct Fl as [-> | ->]; cbn [Z.eqb Pos.eqb]; destruct (cf_crc c =? 1); lia.
Qed.

Lemma fd_op_ok_step c q op : fd_valid c q -> fd_roomy q -> fd_op_ok c op ->
  fd_valid c (fd_after q op) /\ fd_roomy (fd_after q op).
Proof.
  intros (C & W & M & O & D) R K. destruct op as [d|m]; cbn [fd_op_ok fd_after] in *.
  - destruct K as [K1 K2]. split; [|exact K2].
    refine (conj C (conj K1 (conj M (conj O _)))). apply fd_roomy_dlen; assumption.
  - split; [|exact R].
    refine (conj C (conj W (conj K (conj O _)))). apply fd_roomy_dlen; assumption.
Qed.

Lemma fd_ops_ok_hist c ops : forall q, fd_valid c q -> fd_roomy q -> Forall (fd_op_ok c) ops -> fd_hist_ok c q ops.
Proof.
  induction ops as [|op r IH]; intros q V R F; cbn [fd_hist_ok]; [exact I|].
  inversion F as [|? ? Fo Fr]; subst. destruct (fd_op_ok_step c q op V R Fo) as [V1 R1].
  split; [exact V1|]. apply IH; assumption.
Qed.

Theorem fd_apply_ops_total c q ops : fd_valid c q -> fd_roomy q -> Forall (fd_op_ok c) ops ->
  exists p, fd_apply_ops (fd_pdu_of c q) ops = Ok p /\ fd_valid c (fd_params p) /\
    fd_params p = fold_left fd_after ops q /\
    fd_pack p = Ok (fd_layout c (fd_params p)) /\
    fd_packet_len p = len (fd_layout c (fd_params p)) /\
    fd_new c (fd_params p) = Ok (p, c).
Proof.
  intros V R F. destruct (fd_history_total c ops q V (fd_ops_ok_hist c ops q V R F)) as [A V'].
  cbv zeta in A, V'. eexists. split; [exact A|]. cbn [fd_pdu_of fd_params].
  split; [exact V'|]. split; [reflexivity|].
  destruct (fd_len_inv_full c q ops (fd_pdu_of c q) c _ ltac:(apply V) (fd_new_ok c q V) A V') as (P1 & P2 & P3 & _).
  cbn [fd_pdu_of fd_params] in P1, P2, P3. repeat split; assumption.
Qed.

Definition fd_hist_example : list fd_op :=
  [SetFileData [1; 2; 3]; SetSegMeta None; SetFileData []; SetSegMeta (Some {| sm_state := 1; sm_data := [9] |}); SetFileData [7]].
Example fd_apply_ops_total_example :
  fd_valid fd_example_conf fd_example_params /\ fd_roomy fd_example_params /\
  Forall (fd_op_ok fd_example_conf) fd_hist_example /\
  (do p <- fd_apply_ops (fd_pdu_of fd_example_conf fd_example_params) fd_hist_example; fd_pack p) =
  Ok [53; 0; 11; 155; 1; 2; 255; 255; 255; 255; 255; 255; 65; 9; 255; 255; 255; 255; 255; 255; 255; 255; 7].
Proof.
  split; [apply fd_valid_example|]. split; [vm_compute; discriminate|]. split.
  { unfold fd_hist_example. repeat constructor; cbn [fd_op_ok]; unfold fd_data_arg_ok, fd_meta_arg_ok, meta_valid, wf_bytes;
      cbn [sm_state sm_data]; try exact I; try (vm_compute; discriminate); repeat constructor; try lia; try (vm_compute; discriminate). }
  vm_compute. reflexivity.
Qed.
