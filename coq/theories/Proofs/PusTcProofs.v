From Coq Require Import ZArith List Bool Lia ZifyBool.
From SP Require Import Base.Result Base.Bytes Base.BytesFacts Base.Crc16 Base.Crc16Facts
  Model.SpacePacket Spec.SpacePacketSpec Proofs.SpacePacketProofs Model.PusTc Model.PusTm Spec.PusSpec.
Import ListNotations.
Open Scope Z_scope.
Ltac Zify.zify_post_hook ::= Z.to_euclidean_division_equations.
Ltac sph_cbn := cbn [ver ptype shf SpacePacket.apid sflags scount dlen tcs_service tcs_subservice tcs_source_id tcs_ack].
Ltac len_simpl := unfold sph_layout; rewrite ?len_app, ?len_cons, ?len_nil.
Ltac list_eq := repeat (apply f_equal2; [lia|]); try reflexivity.

(* ---------- small general facts ---------- *)
Lemma ba_append_ok l x : 0 <= x < 256 -> ba_append l x = Ok (l ++ [x]).
Proof. intros H. unfold ba_append, is_byte. destruct (_ && _) eqn:E; [reflexivity|lia]. Qed.
Lemma ba_append_err l x : ~ 0 <= x < 256 -> ba_append l x = Err EValue.
Proof. intros H. unfold ba_append, is_byte. destruct (_ && _) eqn:E; [lia|reflexivity]. Qed.

Lemma len_firstn (d : bytes) n : 0 <= n <= len d -> len (firstn (Z.to_nat n) d) = n.
Proof. unfold len. intros H. rewrite firstn_length. lia. Qed.

Lemma slice_firstn (d : bytes) n i j : 0 <= i -> j <= n -> slice (firstn (Z.to_nat n) d) i j = slice d i j.
Proof.
  intros Hi Hj. unfold slice.
  destruct (Z_le_dec j i) as [L|G].
  - replace (Z.to_nat (j - i)) with 0%nat by lia. reflexivity.
  - rewrite skipn_firstn_comm, firstn_firstn. f_equal. lia.
Qed.

Lemma slice_to_firstn (d : bytes) n : slice_to d n = firstn (Z.to_nat n) d.
Proof. reflexivity. Qed.

Lemma firstn_firstn_same {A} (d : list A) n : firstn n (firstn n d) = firstn n d.
Proof. rewrite firstn_firstn. f_equal. lia. Qed.

Lemma firstn_cons_pos {A} (x : A) l n : (0 < n)%nat -> firstn n (x :: l) = x :: firstn (n - 1) l.
Proof. destruct n; [lia|]. intros _. cbn [firstn]. f_equal. f_equal. lia. Qed.

Lemma wf_cons x (l : bytes) : wf_bytes (x :: l) <-> 0 <= x < 256 /\ wf_bytes l.
Proof. unfold wf_bytes. split; [intros H; inversion H; auto|intros [? ?]; constructor; auto]. Qed.

Lemma struct_pack2_ok v : 0 <= v < 65536 -> struct_pack 2 v = Ok (be_encode 2 v).
Proof. intros H. apply struct_pack_ok. change (256 ^ Z.of_nat 2) with 65536. lia. Qed.

(* first octet of a PUS secondary header: version nibble / low nibble *)
Definition chk_nibbles (d0 : Z) : bool :=
  (Z.shiftr (Z.land d0 240) 4 =? d0 / 16) && (Z.land d0 15 =? d0 mod 16).
Lemma nibbles_sweep : forallb chk_nibbles (zrange 0 256) = true.
Proof. vm_compute. reflexivity. Qed.
Lemma nibbles d0 : 0 <= d0 < 256 ->
  Z.shiftr (Z.land d0 240) 4 = d0 / 16 /\ Z.land d0 15 = d0 mod 16.
Proof.
  intros H. pose proof (sweep _ 0 256 ltac:(lia) nibbles_sweep d0 ltac:(lia)) as P.
  unfold chk_nibbles in P. lia.
Qed.
Lemma version_or x : 0 <= x < 16 -> Z.lor (Z.shiftl 2 4) x = 32 + x.
Proof.
  intros H. change (Z.shiftl 2 4) with 32. apply (lor_disjoint 32 x 5); [lia|reflexivity|].
  change (2 ^ 5) with 32. lia.
Qed.

(* ---------- secondary header ---------- *)
Definition tcsec_valid (s : tcsec) : Prop :=
  0 <= tcs_service s < 256 /\ 0 <= tcs_subservice s < 256 /\
  0 <= tcs_source_id s < 65536 /\ 0 <= tcs_ack s < 16.

Definition tcsec_layout (s : tcsec) : bytes :=
  [32 + tcs_ack s; tcs_service s; tcs_subservice s; tcs_source_id s / 256; tcs_source_id s mod 256].

Lemma tcsec_pack_layout s : tcsec_valid s -> tcsec_pack s = Ok (tcsec_layout s).
Proof.
  intros (H1 & H2 & H3 & H4). unfold tcsec_pack, PUS_C.
  rewrite version_or by lia. rewrite ba_append_ok by lia. cbn [bind].
  rewrite ba_append_ok by lia. cbn [bind]. rewrite ba_append_ok by lia. cbn [bind].
  rewrite struct_pack2_ok by lia. cbn [bind]. rewrite be_encode_2.
  unfold tcsec_layout. cbn [List.app]. f_equal. list_eq.
Qed.

Lemma tcsec_layout_wf s : tcsec_valid s -> wf_bytes (tcsec_layout s).
Proof.
  intros (H1 & H2 & H3 & H4). unfold tcsec_layout, wf_bytes.
  repeat constructor; lia.
Qed.

(* ---------- decoder = its specification, on every octet string ---------- *)
Lemma slice_from_cons6 b0 b1 b2 b3 b4 b5 (r : bytes) :
  slice_from (b0 :: b1 :: b2 :: b3 :: b4 :: b5 :: r) CCSDS_HEADER_LEN = r.
Proof. reflexivity. Qed.

Lemma sph_of_octets_dlen b0 b1 b2 b3 b4 b5 : dlen (sph_of_octets b0 b1 b2 b3 b4 b5) = b4 * 256 + b5.
Proof. reflexivity. Qed.

Lemma tcsec_unpack_short r : (length r < 5)%nat -> tcsec_unpack r = Err ETooShort.
Proof.
  intros H. unfold tcsec_unpack, PUS_C_SEC_HEADER_LEN, len.
  destruct (_ <? 5) eqn:E; [reflexivity|lia].
Qed.

Lemma tcsec_unpack_cells b6 b7 b8 b9 b10 tl :
  wf_bytes [b6; b7; b8; b9; b10] ->
  tcsec_unpack (b6 :: b7 :: b8 :: b9 :: b10 :: tl) =
  if negb (b6 / 16 =? 2) then Err EValue else
  Ok {| tcs_service := b7; tcs_subservice := b8; tcs_source_id := b9 * 256 + b10;
        tcs_ack := b6 mod 16 |}.
Proof.
  intros W. rewrite !wf_cons in W. destruct W as (H6 & H7 & H8 & H9 & H10 & _).
  unfold tcsec_unpack, PUS_C_SEC_HEADER_LEN, PUS_C.
  assert (L : len (b6 :: b7 :: b8 :: b9 :: b10 :: tl) <? 5 = false).
  { unfold len. cbn [length]. lia. }
  rewrite L. eval_get. cbn [bind].
  destruct (nibbles b6 H6) as [N1 N2]. rewrite N1, N2.
  destruct (negb (b6 / 16 =? 2)); [reflexivity|].
  change (slice (b6 :: b7 :: b8 :: b9 :: b10 :: tl) 3 5) with [b9; b10].
  rewrite struct_unpack_ok by reflexivity. cbn [bind]. rewrite be_decode_2. reflexivity.
Qed.

Theorem tc_unpack_spec d : wf_bytes d -> tc_unpack d = tc_decode_spec d.
Proof.
  intros W. unfold tc_unpack, tc_decode_spec, tc_decode_cells.
  destruct d as [|b0 [|b1 [|b2 [|b3 [|b4 [|b5 r]]]]]];
    try (rewrite sph_unpack_short by (cbn; lia); reflexivity).
  assert (W6 : wf_bytes [b0; b1; b2; b3; b4; b5]).
  { change (wf_bytes (firstn 6 (b0 :: b1 :: b2 :: b3 :: b4 :: b5 :: r))).
    apply wf_bytes_firstn. assumption. }
  rewrite sph_unpack_octets by assumption. cbn [bind]. rewrite slice_from_cons6.
  destruct r as [|b6 [|b7 [|b8 [|b9 [|b10 tl]]]]];
    try (rewrite tcsec_unpack_short by (cbn; lia); reflexivity).
  assert (W5 : wf_bytes [b6; b7; b8; b9; b10]).
  { change (wf_bytes (firstn 5 (skipn 6 (b0 :: b1 :: b2 :: b3 :: b4 :: b5 :: b6 :: b7 :: b8 :: b9 :: b10 :: tl)))).
    apply wf_bytes_firstn, wf_bytes_skipn. assumption. }
  rewrite tcsec_unpack_cells by assumption.
  destruct (negb (b6 / 16 =? 2)); [reflexivity|]. cbn [bind].
  unfold sph_packet_len. rewrite sph_of_octets_dlen.
  unfold CCSDS_HEADER_LEN, PUS_C_SEC_HEADER_LEN.
  replace (6 + (b4 * 256 + b5) + 1) with (b4 * 256 + b5 + 7) by lia.
  change (6 + 5 + 2) with 13. change (6 + 5) with 11.
  destruct (b4 * 256 + b5 + 7 <? 13); [reflexivity|].
  destruct (len _ <? b4 * 256 + b5 + 7); [reflexivity|].
  rewrite slice_to_firstn. reflexivity.
Qed.

(* ---------- consequences for every octet string ---------- *)
Theorem tc_unpack_total d : wf_bytes d -> ok_or_documented (tc_unpack d).
Proof.
  intros W. rewrite tc_unpack_spec by assumption. unfold tc_decode_spec, tc_decode_cells.
  repeat (destruct d as [|? d]; [exact eq_refl|]).
  repeat match goal with |- ok_or_documented (if ?c then _ else _) => destruct c; [exact eq_refl|] end.
  exact I.
Qed.

(* what acceptance implies: the declared length holds header + CRC, fits the buffer, and the
   CRC over exactly the declared octets is zero *)
Theorem tc_accept_inv d t : wf_bytes d -> tc_unpack d = Ok t ->
  let n := sph_packet_len (tc_sph t) in
  13 <= n <= len d /\ crc16 (firstn (Z.to_nat n) d) = 0 /\
  sph_unpack d = Ok (tc_sph t) /\ tc_app t = slice d 11 (n - 2) /\
  tc_crc t = Some (slice d (n - 2) n).
Proof.
  intros W. rewrite tc_unpack_spec by assumption. unfold tc_decode_spec, tc_decode_cells.
  do 11 (destruct d as [|? d]; [discriminate|]).
  match goal with |- context [sph_of_octets ?a ?b ?c ?e ?f ?g] =>
    set (b0 := a); set (b1 := b); set (b2 := c); set (b3 := e); set (b4 := f); set (b5 := g) end.
  destruct (negb (_ / 16 =? 2)); [discriminate|].
  destruct (b4 * 256 + b5 + 7 <? 13) eqn:E1; [discriminate|].
  destruct (len _ <? b4 * 256 + b5 + 7) eqn:E2; [discriminate|].
  destruct (negb (crc16 _ =? 0)) eqn:E3; [discriminate|].
  intros E; inversion E; subst t; clear E. cbn [tc_sph tc_app tc_crc].
  unfold sph_packet_len, CCSDS_HEADER_LEN. rewrite sph_of_octets_dlen. cbv zeta.
  replace (6 + (b4 * 256 + b5) + 1) with (b4 * 256 + b5 + 7) by lia.
  assert (W6 : wf_bytes [b0; b1; b2; b3; b4; b5]).
  { subst b0 b1 b2 b3 b4 b5.
    match goal with W : wf_bytes ?l |- _ => change (wf_bytes (firstn 6 l)) end.
    apply wf_bytes_firstn. assumption. }
  repeat split; try lia.
  apply sph_unpack_octets; assumption.
Qed.

Theorem tc_unpack_rejects_small_decl d : wf_bytes d -> (6 <= length d)%nat ->
  (forall h, sph_unpack d = Ok h -> dlen h + 7 < 13) ->
  exists e, tc_unpack d = Err e /\ documented e = true.
Proof.
  intros W L Hsmall. pose proof (tc_unpack_total d W) as T.
  destruct (tc_unpack d) as [t|e] eqn:E; [|exists e; split; [reflexivity|exact T]].
  exfalso. destruct (tc_accept_inv d t W E) as (R & _ & S & _).
  specialize (Hsmall _ S). unfold sph_packet_len, CCSDS_HEADER_LEN in R. lia.
Qed.

(* C09: only the declared octets are read *)
Theorem tc_no_overread d t : wf_bytes d -> tc_unpack d = Ok t ->
  tc_unpack (firstn (Z.to_nat (tc_packet_len t)) d) = Ok t.
Proof.
  intros W E. destruct (tc_accept_inv d t W E) as (R & C & _ & _).
  unfold tc_packet_len. set (n := sph_packet_len (tc_sph t)) in *.
  assert (W' : wf_bytes (firstn (Z.to_nat n) d)) by (apply wf_bytes_firstn; assumption).
  rewrite tc_unpack_spec in * by assumption.
  unfold tc_decode_spec, tc_decode_cells in *.
  do 11 (destruct d as [|? d]; [discriminate|]).
  rewrite !firstn_cons_pos by lia. do 11 rewrite <- firstn_cons_pos by lia.
  match type of E with context [sph_of_octets ?a ?b ?c ?e ?f ?g] =>
    set (b4 := f) in *; set (b5 := g) in * end.
  destruct (negb (_ / 16 =? 2)); [discriminate|].
  destruct (b4 * 256 + b5 + 7 <? 13) eqn:E1; [discriminate|].
  destruct (len _ <? b4 * 256 + b5 + 7) eqn:E2 in E; [discriminate|].
  destruct (negb (crc16 _ =? 0)) eqn:E3 in E; [discriminate|].
  assert (N : n = b4 * 256 + b5 + 7).
  { inversion E; subst t. unfold n, sph_packet_len, CCSDS_HEADER_LEN. cbn [tc_sph]. rewrite sph_of_octets_dlen. lia. }
  rewrite <- N in *.
  rewrite len_firstn by lia.
  destruct (n <? n) eqn:E4; [lia|].
  rewrite firstn_firstn_same, E3.
  rewrite !slice_firstn by lia. exact E.
Qed.

(* ---------- constructor, pack = layout, lengths ---------- *)
Lemma tc_new_ok service subservice apid seq source_id ack app :
  0 <= apid <= 2047 -> 0 <= seq <= 16383 -> len app <= 65529 ->
  tc_new service subservice apid app seq source_id ack =
  Ok {| tc_sph := {| ver := 0; ptype := 1; shf := 1; apid := apid; sflags := 3; scount := seq;
                     dlen := 5 + len app + 1 |};
        tc_sec := {| tcs_service := service; tcs_subservice := subservice;
                     tcs_source_id := source_id; tcs_ack := ack |};
        tc_app := app; tc_crc := None |}.
Proof.
  intros Ha Hs Hl. unfold tc_new, tc_get_data_length, PUS_C_SEC_HEADER_LEN, PT_TC, SF_UNSEG.
  pose proof (len_nonneg app). rewrite sph_new_ok by lia. reflexivity.
Qed.

Theorem tc_new_refuses service subservice apid seq source_id ack app :
  ~ (0 <= apid <= 2047 /\ 0 <= seq <= 16383 /\ len app <= 65529) ->
  tc_new service subservice apid app seq source_id ack = Err EValue.
Proof.
  intros H. unfold tc_new, tc_get_data_length, PUS_C_SEC_HEADER_LEN.
  pose proof (len_nonneg app).
  destruct (sph_new_accepts_iff PT_TC apid seq (5 + len app + 1) 1 SF_UNSEG 0) as [_ R].
  rewrite R by lia. reflexivity.
Qed.

Lemma tc_body_wf service subservice apid seq source_id ack app :
  tc_args_valid service subservice apid seq source_id ack app ->
  wf_bytes (tc_body service subservice apid seq source_id ack app).
Proof.
  intros (H1 & H2 & H3 & H4 & H5 & H6 & W & L). pose proof (len_nonneg app).
  unfold tc_body. rewrite !wf_bytes_app. repeat split.
  - apply sph_layout_wf. unfold sph_valid; sph_cbn; lia.
  - unfold wf_bytes. repeat constructor; lia.
  - assumption.
Qed.

Lemma crc_trailer m : wf_bytes m -> be_encode 2 (crc16 m) = [crc16 m / 256; crc16 m mod 256].
Proof.
  intros W. pose proof (crc16_range m W) as R. unfold in16 in R. rewrite be_encode_2.
  f_equal. apply Z.mod_small. lia.
Qed.

Theorem tc_pack_layout service subservice apid seq source_id ack app :
  tc_args_valid service subservice apid seq source_id ack app ->
  exists t t', tc_new service subservice apid app seq source_id ack = Ok t /\
    tc_pack t = Ok (tc_layout service subservice apid seq source_id ack app, t') /\
    tc_sph t' = tc_sph t /\ tc_sec t' = tc_sec t /\ tc_app t' = tc_app t /\
    tc_packet_len t = len (tc_layout service subservice apid seq source_id ack app) /\
    dlen (tc_sph t) = len (tc_layout service subservice apid seq source_id ack app) - 7.
Proof.
  intros V. pose proof (tc_body_wf _ _ _ _ _ _ _ V) as WB.
  destruct V as (H1 & H2 & H3 & H4 & H5 & H6 & W & L). pose proof (len_nonneg app).
  rewrite tc_new_ok by lia. eexists. eexists. split; [reflexivity|].
  unfold tc_pack. cbn [tc_sph tc_sec tc_app].
  rewrite sph_pack_layout by (unfold sph_valid; sph_cbn; lia). cbn [bind].
  rewrite tcsec_pack_layout by (unfold tcsec_valid; sph_cbn; lia). cbn [bind].
  unfold tcsec_layout; cbn [tcs_ack tcs_service tcs_subservice tcs_source_id].
  fold (tc_body service subservice apid seq source_id ack app).
  pose proof (crc16_range _ WB) as R. unfold in16 in R.
  rewrite struct_pack2_ok by lia. cbn [bind].
  rewrite crc_trailer by assumption. unfold tc_layout. cbv zeta.
  split; [reflexivity|]. cbn [tc_sph tc_sec tc_app]. repeat split.
  - unfold tc_packet_len, sph_packet_len, CCSDS_HEADER_LEN; cbn [tc_sph dlen].
    unfold tc_body. len_simpl. lia.
  - cbn [dlen]. unfold tc_body. len_simpl. lia.
Qed.

(* ---------- round trip ---------- *)
Lemma tc_decode_spec_cells d b0 b1 b2 b3 b4 b5 b6 b7 b8 b9 b10 tl :
  d = b0 :: b1 :: b2 :: b3 :: b4 :: b5 :: b6 :: b7 :: b8 :: b9 :: b10 :: tl ->
  tc_decode_spec d = tc_decode_cells b0 b1 b2 b3 b4 b5 b6 b7 b8 b9 b10 d.
Proof. intros ->. reflexivity. Qed.

Lemma firstn_two_parts (X C rest : bytes) n :
  n = len X + len C -> firstn (Z.to_nat n) (X ++ C ++ rest) = X ++ C.
Proof.
  intros ->. rewrite app_assoc. apply firstn_app_exact. rewrite app_length. unfold len. lia.
Qed.

Theorem tc_unpack_pack service subservice apid seq source_id ack app rest :
  tc_args_valid service subservice apid seq source_id ack app -> wf_bytes rest ->
  let p := tc_layout service subservice apid seq source_id ack app in
  tc_unpack (p ++ rest) =
  Ok {| tc_sph := {| ver := 0; ptype := 1; shf := 1; apid := apid; sflags := 3; scount := seq;
                     dlen := 5 + len app + 1 |};
        tc_sec := {| tcs_service := service; tcs_subservice := subservice;
                     tcs_source_id := source_id; tcs_ack := ack |};
        tc_app := app;
        tc_crc := Some (be_encode 2 (crc16 (tc_body service subservice apid seq source_id ack app))) |}.
Proof.
  intros V Wr p. pose proof (tc_body_wf _ _ _ _ _ _ _ V) as WB.
  destruct V as (H1 & H2 & H3 & H4 & H5 & H6 & W & L). pose proof (len_nonneg app) as Lp.
  set (body := tc_body service subservice apid seq source_id ack app) in *.
  set (C := be_encode 2 (crc16 body)).
  assert (LC : len C = 2) by (unfold C, len; rewrite be_encode_length; reflexivity).
  assert (Ep : p ++ rest = body ++ C ++ rest).
  { unfold p, tc_layout. cbv zeta. fold body. unfold C. rewrite crc_trailer by assumption.
    rewrite <- app_assoc. reflexivity. }
  assert (Wp : wf_bytes (body ++ C ++ rest)).
  { rewrite !wf_bytes_app. repeat split; try assumption. apply be_encode_wf. }
  rewrite Ep. rewrite tc_unpack_spec by assumption.
  set (h := {| ver := 0; ptype := 1; shf := 1; apid := apid; sflags := 3; scount := seq;
               dlen := 5 + len app + 1 |}).
  assert (Vh : sph_valid h) by (unfold sph_valid, h; sph_cbn; lia).
  set (pre := sph_layout h ++ [32 + ack; service; subservice; source_id / 256; source_id mod 256]).
  assert (Eb : body = pre ++ app) by (unfold body, tc_body, pre; rewrite <- app_assoc; reflexivity).
  assert (Lpre : len pre = 11) by reflexivity.
  assert (LB : len body = 11 + len app) by (rewrite Eb, len_app; lia).
  pose proof (sph_of_octets_layout h Vh) as SO.
  erewrite tc_decode_spec_cells; [|rewrite Eb; unfold pre, sph_layout; cbn [List.app]; reflexivity].
  unfold tc_decode_cells. unfold sph_layout in SO.
  cbn [ver ptype shf SpacePacket.apid sflags scount dlen h] in *.
  match goal with |- context [sph_of_octets ?a ?b ?c ?e ?f ?g] =>
    set (b0 := a) in *; set (b1 := b) in *; set (b2 := c) in *; set (b3 := e) in *;
    set (b4 := f) in *; set (b5 := g) in * end.
  assert (N : b4 * 256 + b5 + 7 = 13 + len app) by (subst b4 b5; lia).
  rewrite N.
  replace (negb ((32 + ack) / 16 =? 2)) with false by lia.
  destruct (13 + len app <? 13) eqn:E1; [lia|].
  pose proof (len_nonneg rest).
  rewrite !len_app, LB, LC.
  destruct (11 + len app + (2 + len rest) <? 13 + len app) eqn:E2; [lia|].
  rewrite firstn_two_parts by lia.
  unfold C at 1. rewrite crc_residue by assumption. cbn [negb Z.eqb].
  f_equal. rewrite SO. f_equal.
  - f_equal; lia.
  - rewrite Eb, <- app_assoc. apply slice_mid; lia.
  - f_equal. apply slice_mid; lia.
Qed.

Lemma sph_eqb_refl h : sph_valid h -> sph_eqb h h = true.
Proof. intros V. unfold sph_eqb. rewrite sph_pack_layout by assumption. apply bytes_eqb_eq. reflexivity. Qed.
Lemma tcsec_eqb_refl s : tcsec_valid s -> tcsec_eqb s s = true.
Proof. intros V. unfold tcsec_eqb. rewrite tcsec_pack_layout by assumption. apply bytes_eqb_eq. reflexivity. Qed.
Lemma bytes_eqb_refl b : bytes_eqb b b = true.
Proof. apply bytes_eqb_eq. reflexivity. Qed.

(* construct -> pack -> unpack (with any suffix): equal to the original, every field identical,
   re-packing reproduces the octets, the space-packet view packs to the same octets, the
   standalone CRC check passes *)
Theorem tc_roundtrip service subservice apid seq source_id ack app rest :
  tc_args_valid service subservice apid seq source_id ack app -> wf_bytes rest ->
  exists t p t' u,
    tc_new service subservice apid app seq source_id ack = Ok t /\
    tc_pack t = Ok (p, t') /\ p = tc_layout service subservice apid seq source_id ack app /\
    tc_unpack (p ++ rest) = Ok u /\
    tc_sph u = tc_sph t /\ tc_sec u = tc_sec t /\ tc_app u = tc_app t /\
    tc_eqb u t = true /\ tc_eqb t u = true /\
    (exists u', tc_pack u = Ok (p, u')) /\
    tc_to_space_packet_pack t = Ok p /\
    check_pus_crc p = true /\
    tc_packet_len u = len p.
Proof.
  intros V Wr. pose proof (tc_body_wf _ _ _ _ _ _ _ V) as WB.
  destruct (tc_pack_layout _ _ _ _ _ _ _ V) as (t & t' & En & Ep & S1 & S2 & S3 & PL & DL).
  pose proof (tc_unpack_pack _ _ _ _ _ _ _ rest V Wr) as U. cbv zeta in U.
  destruct V as (H1 & H2 & H3 & H4 & H5 & H6 & W & L). pose proof (len_nonneg app) as Lp.
  rewrite tc_new_ok in En by lia. inversion En; subst t; clear En.
  cbn [tc_sph tc_sec tc_app] in *.
  assert (Vh : sph_valid {| ver := 0; ptype := 1; shf := 1; apid := apid; sflags := 3; scount := seq;
               dlen := 5 + len app + 1 |}) by (unfold sph_valid; sph_cbn; lia).
  assert (Vs : tcsec_valid {| tcs_service := service; tcs_subservice := subservice;
               tcs_source_id := source_id; tcs_ack := ack |}) by (unfold tcsec_valid; sph_cbn; lia).
  do 4 eexists. split; [apply tc_new_ok; lia|]. split; [exact Ep|]. split; [reflexivity|].
  split; [exact U|]. cbn [tc_sph tc_sec tc_app].
  repeat split.
  - unfold tc_eqb; cbn [tc_sph tc_sec tc_app].
    rewrite sph_eqb_refl, tcsec_eqb_refl, bytes_eqb_refl by assumption. reflexivity.
  - unfold tc_eqb; cbn [tc_sph tc_sec tc_app].
    rewrite sph_eqb_refl, tcsec_eqb_refl, bytes_eqb_refl by assumption. reflexivity.
  - (* re-pack of the decoded object *)
    unfold tc_pack. cbn [tc_sph tc_sec tc_app].
    rewrite sph_pack_layout, tcsec_pack_layout by assumption. cbn [bind].
    unfold tcsec_layout; cbn [tcs_ack tcs_service tcs_subservice tcs_source_id].
    fold (tc_body service subservice apid seq source_id ack app).
    pose proof (crc16_range _ WB) as R. unfold in16 in R.
    rewrite struct_pack2_ok by lia. cbn [bind]. eexists. f_equal. f_equal.
    unfold tc_layout. cbv zeta. rewrite <- crc_trailer by assumption. reflexivity.
  - (* space packet view *)
    unfold tc_to_space_packet_pack, tc_calc_crc. cbn [tc_sph tc_sec tc_app].
    rewrite sph_pack_layout, tcsec_pack_layout by assumption. cbn [bind].
    unfold tcsec_layout; cbn [tcs_ack tcs_service tcs_subservice tcs_source_id].
    fold (tc_body service subservice apid seq source_id ack app).
    pose proof (crc16_range _ WB) as R. unfold in16 in R.
    rewrite struct_pack2_ok by lia. cbn [bind tc_sec tc_crc tc_sph tc_app].
    rewrite tcsec_pack_layout by assumption. cbn [bind].
    rewrite space_packet_pack_spec by assumption. cbn [shf].
    f_equal. unfold tc_layout, tc_body. cbv zeta. rewrite <- crc_trailer by assumption.
    unfold tcsec_layout; cbn [tcs_ack tcs_service tcs_subservice tcs_source_id].
    rewrite <- !app_assoc. reflexivity.
  - unfold check_pus_crc, tc_layout. cbv zeta. rewrite <- crc_trailer by assumption.
    rewrite crc_residue by assumption. reflexivity.
  - unfold tc_packet_len. cbn [tc_sph]. exact PL.
Qed.

(* the CRC trailer an accepted packet carries is the CRC of the octets before it (needed for
   the general re-pack statement): uniqueness of the two-octet residue *)
Example tc_valid_example :
  tc_args_valid 17 1 2047 16383 65535 15 [1; 2; 255].
Proof. unfold tc_args_valid, wf_bytes, len. cbn. repeat split; try lia. repeat constructor; lia. Qed.
