(* Lemmas about Model/Nak.v (NakPdu): constructor, pack = layout, lengths, unpack of a layout
   (segment-request lists of any length), refusal of surplus octets, the converse for every
   accepted octet string (re-pack identical, CRC holds), totality (C10), prefix rejection,
   fuel adequacy, setter histories (C11), too-large values, the max-segment-request formula. *)
From Coq Require Import ZArith List Bool Lia ZifyBool.
From SP Require Import Base.Result Base.Bytes Base.BytesFacts Base.Crc16 Base.Crc16Facts Base.PduCExtra
  Model.PduHeader Spec.PduHeaderSpec Proofs.PduHeaderProofs Model.FileDirective Proofs.FileDirectiveProofs
  Model.Nak Spec.PduCSpec.
Import ListNotations.
Open Scope Z_scope.
Ltac Zify.zify_post_hook ::= Z.to_euclidean_division_equations.
Ltac list_eq := repeat (apply f_equal2; [lia|]); try reflexivity.

(* ================= objects and their layout ================= *)

Definition nak_params (p : NakPdu) : NakParams :=
  {| np_start := nk_start p; np_end := nk_end p; np_segs := nk_segs p |}.

(* the object with header configuration c' (direction already inside) and parameters q *)
Definition nak_mk (c' : PduConfig) (q : NakParams) : NakPdu :=
  {| nk_fd := fdir_of c' 8 (nak_plen c' q); nk_segs := np_segs q; nk_start := np_start q; nk_end := np_end q |}.

(* the PDU object the constructor builds for (c, q) *)
Definition nak_pdu_of (c : PduConfig) (q : NakParams) : NakPdu := nak_mk (conf_set_dir c 1) q.

Definition pair_ok (w : nat) (se : Z * Z) : Prop := in_width w (fst se) /\ in_width w (snd se).

(* values fit the width the object's header selects; header and directive code are octet-valid *)
Definition nak_obj_valid (p : NakPdu) : Prop :=
  fdir_valid (nk_fd p) /\ pair_ok (nak_w (nk_conf p)) (nk_start p, nk_end p) /\
  Forall (pair_ok (nak_w (nk_conf p))) (nk_segs p).

Definition nak_obj_pre (p : NakPdu) : bytes :=
  fdir_layout (nk_fd p) ++ pair_layout (nak_w (nk_conf p)) (nk_start p, nk_end p)
  ++ segs_layout (nak_w (nk_conf p)) (nk_segs p).

Definition nak_obj_layout (p : NakPdu) : bytes :=
  if cf_crc (nk_conf p) =? 1 then nak_obj_pre p ++ be_encode 2 (crc16 (nak_obj_pre p)) else nak_obj_pre p.

Lemma nak_w_cases c : flag (cf_large c) ->
  (cf_large c = 0 /\ nak_w c = 4%nat) \/ (cf_large c = 1 /\ nak_w c = 8%nat).
Proof. intros [L | L]; unfold nak_w; rewrite L; [left|right]; split; reflexivity. Qed.

Lemma nak_w_pos c : (0 < nak_w c)%nat.
Proof. unfold nak_w. destruct (cf_large c =? 1); lia. Qed.

Lemma nak_w_dir c d : nak_w (conf_set_dir c d) = nak_w c.
Proof. reflexivity. Qed.

Lemma pair_layout_len w se : len (pair_layout w se) = 2 * Z.of_nat w.
Proof. unfold pair_layout. rewrite len_app, !len_be_encode. lia. Qed.

Lemma segs_layout_len w l : len (segs_layout w l) = 2 * Z.of_nat w * Z.of_nat (length l).
Proof.
  induction l as [|se r IH]; [cbn [segs_layout length]; rewrite len_nil; lia|]. cbn [segs_layout length].
  rewrite len_app, pair_layout_len, IH. lia.
Qed.

Lemma pair_layout_wf w se : wf_bytes (pair_layout w se).
Proof. unfold pair_layout. apply wf_bytes_app. split; apply be_encode_wf. Qed.

Lemma segs_layout_wf w l : wf_bytes (segs_layout w l).
Proof.
  induction l as [|se r IH]; [constructor|]. cbn [segs_layout]. apply wf_bytes_app.
  split; [apply pair_layout_wf|exact IH].
Qed.

Lemma nak_obj_pre_wf p : nak_obj_valid p -> wf_bytes (nak_obj_pre p).
Proof.
  intros (V & _). unfold nak_obj_pre. rewrite !wf_bytes_app.
  split; [apply fdir_layout_wf; exact V|]. split; [apply pair_layout_wf|apply segs_layout_wf].
Qed.

Lemma nak_obj_layout_wf p : nak_obj_valid p -> wf_bytes (nak_obj_layout p).
Proof.
  intros V. unfold nak_obj_layout. destruct (cf_crc (nk_conf p) =? 1).
  - apply wf_bytes_app. split; [apply nak_obj_pre_wf; exact V|apply be_encode_wf].
  - apply nak_obj_pre_wf; exact V.
Qed.

(* the Spec layout is the object layout of the constructed PDU *)
Lemma nak_layout_obj c q : nak_layout c q = nak_obj_layout (nak_pdu_of c q).
Proof.
  unfold nak_layout, nak_obj_layout, nak_obj_pre, nak_pdu_of, nak_mk, nk_conf, nk_hdr, fdir_layout, fdir_of, nak_body.
  cbn [nk_fd nk_segs nk_start nk_end fd_hdr fd_type h_conf np_start np_end np_segs].
  cbv zeta. rewrite <- !app_assoc. reflexivity.
Qed.

(* ================= pack ================= *)

Lemma nak_pack_pair_ok c b s e : flag (cf_large c) -> pair_ok (nak_w c) (s, e) ->
  nak_pack_pair (cf_large c =? FILE_LARGE) b s e = Ok (b ++ pair_layout (nak_w c) (s, e)).
Proof.
  intros F [Rs Re]. unfold in_width in *. cbn [fst snd] in *. unfold nak_pack_pair, pair_layout, FILE_LARGE.
  cbn [fst snd].
  destruct (nak_w_cases c F) as [[L N] | [L N]]; rewrite N in *; rewrite L; cbn [Z.eqb Pos.eqb negb].
  - change (256 ^ Z.of_nat 4) with 4294967296 in *. change (2 ^ 32 - 1) with 4294967295.
    destruct ((s >? 4294967295) || (e >? 4294967295)) eqn:E; [lia|].
    rewrite !struct_pack_ok by (change (256 ^ Z.of_nat 4) with 4294967296; lia). cbn [bind].
    rewrite <- app_assoc. reflexivity.
  - rewrite !struct_pack_ok by assumption. cbn [bind]. rewrite <- app_assoc. reflexivity.
Qed.

Lemma nak_pack_segs_ok c l : flag (cf_large c) -> Forall (pair_ok (nak_w c)) l -> forall b,
  nak_pack_segs (cf_large c =? FILE_LARGE) b l = Ok (b ++ segs_layout (nak_w c) l).
Proof.
  intros F. induction 1 as [|[s e] r H _ IH]; intros b; cbn [nak_pack_segs segs_layout].
  - rewrite app_nil_r. reflexivity.
  - rewrite nak_pack_pair_ok by assumption. cbn [bind]. rewrite IH, <- app_assoc. reflexivity.
Qed.

Lemma nak_obj_flag p : nak_obj_valid p -> flag (cf_large (nk_conf p)) /\ flag (cf_crc (nk_conf p)).
Proof. intros ((V & _) & _). unfold nk_conf, nk_hdr. split; apply V. Qed.

Theorem nak_pack_obj p : nak_obj_valid p -> nak_pack p = Ok (nak_obj_layout p).
Proof.
  intros V. pose proof V as (VF & VP & VS). destruct (nak_obj_flag p V) as [FL FC].
  unfold nak_pack. rewrite fdir_pack_layout by exact VF. cbn [bind].
  unfold hdr_large_file. fold (nk_conf p).
  rewrite nak_pack_pair_ok by assumption. cbn [bind].
  rewrite nak_pack_segs_ok by assumption. cbn [bind].
  unfold nak_obj_layout, CRC_WITH_CRC.
  assert (E : (fdir_layout (nk_fd p) ++ pair_layout (nak_w (nk_conf p)) (nk_start p, nk_end p)) ++
              segs_layout (nak_w (nk_conf p)) (nk_segs p) = nak_obj_pre p)
    by (unfold nak_obj_pre; rewrite <- app_assoc; reflexivity).
  rewrite E. destruct (cf_crc (nk_conf p) =? 1); [|reflexivity].
  rewrite struct_pack_crc by (apply nak_obj_pre_wf; exact V). reflexivity.
Qed.

(* ================= _calculate_directive_field_len, constructor ================= *)

Lemma nak_calc_len_spec p : flag (cf_large (nk_conf p)) ->
  nak_calc_len p =
  if nak_plen (nk_conf p) (nak_params p) + 1 <=? 65535
  then Ok (nak_with_fd p {| fd_hdr := {| h_type := h_type (nk_hdr p); h_meta := h_meta (nk_hdr p);
                                         h_dlen := nak_plen (nk_conf p) (nak_params p) + 1;
                                         h_conf := nk_conf p |};
                            fd_type := fd_type (nk_fd p) |})
  else Err EValue.
Proof.
  intros F. unfold nak_calc_len, nak_plen, nseg, FILE_NORMAL, FILE_LARGE, CRC_WITH_CRC.
  cbn [nak_params np_segs].
  destruct (nak_w_cases _ F) as [[L N] | [L N]]; rewrite L, N; cbn [Z.eqb Pos.eqb bind];
    rewrite fdir_set_param_len_spec;
    match goal with |- context [if cf_crc ?c =? 1 then _ else _] => destruct (cf_crc c =? 1) end.
  all: match goal with |- (do f <- (if ?a <=? _ then _ else _); _) = (if ?b <=? _ then _ else _) =>
         replace a with b by lia; destruct (b <=? 65535); reflexivity end.
Qed.

Lemma nak_valid_plen c q : nak_valid c q -> 0 <= nak_plen c q /\ nak_plen c q + 1 <= 65535.
Proof.
  intros (_ & _ & _ & _ & D). unfold nak_dlen in D. split; [|exact D].
  unfold nak_plen. destruct (cf_crc c =? 1); lia.
Qed.

Theorem nak_new_ok c q : nak_valid c q ->
  nak_new c (np_start q) (np_end q) (np_segs q) = Ok (nak_pdu_of c q, c).
Proof.
  intros V. pose proof V as (C & _). destruct (nak_valid_plen c q V) as [P0 P1].
  unfold nak_new, DIR_TOWARDS_SENDER, DT_NAK.
  rewrite fdir_new_ok by (try lia; unfold conf_set_dir; cbn [cf_src cf_dst]; apply C). cbn [bind].
  rewrite nak_calc_len_spec by (unfold nk_conf, nk_hdr, fdir_of; cbn [nk_fd fd_hdr h_conf conf_set_dir cf_large]; apply C).
  unfold nk_conf, nk_hdr, fdir_of, nak_params. cbn [nk_fd nk_segs nk_start nk_end fd_hdr fd_type h_conf h_type h_meta].
  assert (E : nak_plen (conf_set_dir c 1) {| np_start := 0; np_end := 0; np_segs := np_segs q |} = nak_plen c q) by reflexivity.
  rewrite E. destruct (nak_plen c q + 1 <=? 65535) eqn:E2; [|lia]. cbn [bind].
  reflexivity.
Qed.

(* valid parameters give a valid object *)
Lemma nak_pdu_of_valid c q : nak_valid c q -> nak_obj_valid (nak_pdu_of c q).
Proof.
  intros V. pose proof V as (C & Rs & Re & Rl & D). destruct (nak_valid_plen c q V) as [P0 P1].
  unfold nak_obj_valid, nak_pdu_of, nak_mk, nk_conf, nk_hdr. cbn [nk_fd nk_start nk_end nk_segs fdir_of fd_hdr h_conf].
  split; [|split].
  - apply fdir_of_valid; [|lia|assert (nak_plen (conf_set_dir c 1) q = nak_plen c q) as -> by reflexivity; lia].
    destruct C as (Vs & Vd & Vq & Heq & Hm & Hl & Hc & Hd & Hsg).
    unfold conf_valid, conf_set_dir. cbn [cf_src cf_dst cf_seq cf_mode cf_large cf_crc cf_dir cf_segctrl].
    repeat (split; [assumption|]). split; [unfold flag; lia|assumption].
  - split; assumption.
  - exact Rl.
Qed.

(* pack = header ++ [8] ++ be w start ++ be w end ++ pairs ++ [crc16 of all before] *)
Theorem nak_pack_layout c q : nak_valid c q -> nak_pack (nak_pdu_of c q) = Ok (nak_layout c q).
Proof.
  intros V. rewrite nak_layout_obj. apply nak_pack_obj, nak_pdu_of_valid, V.
Qed.

(* ================= lengths ================= *)

Lemma nak_obj_layout_len p : nak_obj_valid p ->
  len (nak_obj_layout p) = fdir_header_len (nk_fd p) + nak_plen (nk_conf p) (nak_params p).
Proof.
  intros (V & _). unfold nak_obj_layout, nak_obj_pre, nak_plen. cbn [nak_params np_segs].
  destruct (cf_crc (nk_conf p) =? 1);
    rewrite ?len_app, ?len_be_encode, pair_layout_len, segs_layout_len, (fdir_layout_len _ V); lia.
Qed.

(* the object's cached data-field length is the one its values require *)
Definition nak_len_ok (p : NakPdu) : Prop := h_dlen (nk_hdr p) = nak_plen (nk_conf p) (nak_params p) + 1.

Lemma nak_packet_len_obj p : nak_obj_valid p -> nak_len_ok p -> nak_packet_len p = len (nak_obj_layout p).
Proof.
  intros V L. rewrite nak_obj_layout_len by exact V. unfold nak_packet_len, fdir_packet_len, hdr_packet_len, fdir_header_len.
  unfold nak_len_ok, nk_hdr in L. rewrite L. unfold nk_conf, nk_hdr. lia.
Qed.

Lemma nak_mk_len_ok c' q : nak_len_ok (nak_mk c' q).
Proof. reflexivity. Qed.

Lemma nak_body_len c q : len (nak_body c q) = nak_plen c q + 1 - (if cf_crc c =? 1 then 2 else 0).
Proof.
  unfold nak_body, nak_plen. rewrite !len_app, pair_layout_len, segs_layout_len. change (len [8]) with 1.
  destruct (cf_crc c =? 1); lia.
Qed.

(* the reported lengths: data field = everything after the header; packet_len = packed length *)
Theorem nak_data_field_len c q : nak_valid c q ->
  let p := nak_pdu_of c q in
  h_dlen (nk_hdr p) = len (nak_layout c q) - hdr_header_len (nk_hdr p) /\
  nak_packet_len p = len (nak_layout c q) /\
  h_dlen (nk_hdr p) = len (nak_body c q) + (if cf_crc c =? 1 then 2 else 0).
Proof.
  intros V. cbv zeta. pose proof (nak_pdu_of_valid c q V) as OV.
  pose proof (nak_packet_len_obj _ OV (nak_mk_len_ok _ _)) as PL.
  rewrite nak_layout_obj. rewrite <- PL. rewrite nak_body_len.
  unfold nak_packet_len, fdir_packet_len, hdr_packet_len.
  assert (E : h_dlen (nk_hdr (nak_pdu_of c q)) = nak_plen c q + 1) by reflexivity.
  unfold nk_hdr in *. rewrite E. split; [lia|]. split; [reflexivity|lia].
Qed.

(* ================= the segment-request loop ================= *)

Lemma slice_empty (d : bytes) i : slice d i i = [].
Proof. unfold slice. rewrite Z.sub_diag. reflexivity. Qed.

(* on any octet string: k pairs of w-octet values from idx are decoded, never out of fuel when
   fuel > k, and the decoded pairs are exactly what the octets idx .. stop encode *)
Lemma nak_unpack_segs_spec (d : bytes) (w : nat) : (0 < w)%nat -> wf_bytes d ->
  forall (k : nat) idx stop acc fuel,
    0 <= idx -> stop = idx + 2 * Z.of_nat w * Z.of_nat k -> stop <= len d -> (k < fuel)%nat ->
    exists segs, nak_unpack_segs fuel d idx stop (Z.of_nat w) acc = Ok (acc ++ segs) /\
      length segs = k /\ Forall (pair_ok w) segs /\ segs_layout w segs = slice d idx stop.
Proof.
  intros Hw W. induction k as [|k IH]; intros idx stop acc fuel Hi Hs Hl Hf;
    (destruct fuel as [|fuel]; [lia|]); cbn [nak_unpack_segs].
  - assert (stop = idx) as -> by lia. rewrite Z.ltb_irrefl. exists []. rewrite app_nil_r, slice_empty.
    repeat split; constructor.
  - destruct (idx <? stop) eqn:E; [|lia]. rewrite Nat2Z.id.
    set (n := Z.of_nat w) in *.
    assert (L1 : length (slice d idx (idx + n)) = w) by (rewrite slice_length by lia; lia).
    assert (L2 : length (slice d (idx + n) (idx + n + n)) = w) by (rewrite slice_length by lia; lia).
    rewrite (struct_unpack_ok w _ L1). cbn [bind]. rewrite (struct_unpack_ok w _ L2). cbn [bind].
    destruct (IH (idx + n + n) stop (acc ++ [(be_decode (slice d idx (idx + n)), be_decode (slice d (idx + n) (idx + n + n)))]) fuel)
      as (segs & R & LS & FS & LY); try lia.
    exists ((be_decode (slice d idx (idx + n)), be_decode (slice d (idx + n) (idx + n + n))) :: segs).
    rewrite R, <- app_assoc. split; [reflexivity|]. split; [cbn [length]; lia|]. split.
    + constructor; [|exact FS]. split; cbn [fst snd]; unfold in_width.
      * pose proof (be_decode_range _ (wf_bytes_slice d idx (idx + n) W)) as B. rewrite L1 in B. exact B.
      * pose proof (be_decode_range _ (wf_bytes_slice d (idx + n) (idx + n + n) W)) as B. rewrite L2 in B. exact B.
    + cbn [segs_layout]. unfold pair_layout. cbn [fst snd].
      pose proof (be_encode_decode _ (wf_bytes_slice d idx (idx + n) W)) as B1. rewrite L1 in B1. rewrite B1.
      pose proof (be_encode_decode _ (wf_bytes_slice d (idx + n) (idx + n + n) W)) as B2. rewrite L2 in B2. rewrite B2.
      rewrite LY. rewrite slice_adjacent by lia. apply slice_adjacent; lia.
Qed.

(* "never loops": the fuel NakPdu.unpack supplies is never exhausted *)
Theorem nak_fuel_ok (d : bytes) (w : nat) k idx stop acc : (0 < w)%nat -> wf_bytes d ->
  0 <= idx -> stop = idx + 2 * Z.of_nat w * Z.of_nat k -> stop <= len d ->
  nak_unpack_segs (length d + 1) d idx stop (Z.of_nat w) acc <> Err EFuel.
Proof.
  intros Hw W Hi Hs Hl.
  destruct (nak_unpack_segs_spec d w Hw W k idx stop acc (length d + 1)) as (segs & R & _); try assumption.
  - unfold len in Hl. nia.
  - rewrite R. discriminate.
Qed.

Lemma pair_layout_length w se : length (pair_layout w se) = (w + w)%nat.
Proof. unfold pair_layout. rewrite app_length, !be_encode_length. reflexivity. Qed.

Lemma pair_layout_inj w a b : pair_ok w a -> pair_ok w b -> pair_layout w a = pair_layout w b -> a = b.
Proof.
  intros [A1 A2] [B1 B2] E. unfold pair_layout in E.
  apply app_eq_len in E; [|rewrite !be_encode_length; reflexivity]. destruct E as [E1 E2].
  apply be_encode_inj in E1; try assumption. apply be_encode_inj in E2; try assumption.
  destruct a, b; cbn [fst snd] in *; congruence.
Qed.

Lemma segs_layout_inj w : forall a b, Forall (pair_ok w) a -> Forall (pair_ok w) b -> length a = length b ->
  segs_layout w a = segs_layout w b -> a = b.
Proof.
  induction a as [|x a IH]; intros [|y b] Fa Fb L E; try discriminate; [reflexivity|].
  cbn [segs_layout] in E. apply app_eq_len in E; [|rewrite !pair_layout_length; reflexivity].
  destruct E as [E1 E2]. inversion Fa; inversion Fb; subst.
  f_equal; [apply (pair_layout_inj w); assumption|]. apply IH; try assumption. cbn in L. lia.
Qed.

(* the loop on a layout: pre ++ pairs ++ tail gives back the pairs, for lists of any length *)
Lemma nak_unpack_segs_layout (w : nat) segs (pre tail : bytes) fuel : (0 < w)%nat ->
  wf_bytes pre -> wf_bytes tail -> Forall (pair_ok w) segs -> (length segs < fuel)%nat ->
  nak_unpack_segs fuel (pre ++ segs_layout w segs ++ tail) (len pre) (len pre + len (segs_layout w segs)) (Z.of_nat w) []
  = Ok segs.
Proof.
  intros Hw Wp Wt FS Hf. pose proof (len_nonneg pre) as Lp. pose proof (len_nonneg tail) as Lt.
  destruct (nak_unpack_segs_spec (pre ++ segs_layout w segs ++ tail) w Hw
              ltac:(rewrite !wf_bytes_app; repeat split; try assumption; apply segs_layout_wf)
              (length segs) (len pre) (len pre + len (segs_layout w segs)) [] fuel)
    as (segs' & R & LS & FS' & LY); try assumption.
  - rewrite segs_layout_len. reflexivity.
  - rewrite !len_app. lia.
  - rewrite R. cbn [app]. f_equal.
    rewrite slice_mid in LY by reflexivity.
    apply (segs_layout_inj w); assumption.
Qed.

(* ================= unpack of a packed PDU ================= *)

Lemma nak_empty_ok : exists e0, nak_empty = Ok e0 /\ nk_segs e0 = [].
Proof. eexists. split; [vm_compute; reflexivity|reflexivity]. Qed.

(* an object as NakPdu.unpack can return it / as the constructor builds it *)
Definition nak_wf (p : NakPdu) : Prop := nak_obj_valid p /\ nak_len_ok p /\ fd_type (nk_fd p) = 8.

Lemma nak_wf_pl p : nak_wf p -> hdr_packet_len (nk_hdr p) = len (nak_obj_layout p).
Proof. intros (V & L & _). exact (nak_packet_len_obj p V L). Qed.

Lemma nak_obj_layout_head p : exists tl,
  nak_obj_layout p = fdir_layout (nk_fd p) ++ tl /\ (nak_obj_valid p -> wf_bytes tl).
Proof.
  unfold nak_obj_layout, nak_obj_pre. destruct (cf_crc (nk_conf p) =? 1).
  - eexists. rewrite <- !app_assoc. split; [reflexivity|]. intros _.
    rewrite !wf_bytes_app. repeat split; [apply pair_layout_wf|apply segs_layout_wf|apply be_encode_wf].
  - eexists. split; [reflexivity|]. intros _. apply wf_bytes_app. split; [apply pair_layout_wf|apply segs_layout_wf].
Qed.

Lemma nak_fdir_unpack_layout p s : nak_obj_valid p -> wf_bytes s ->
  fdir_unpack (nak_obj_layout p ++ s) = Ok (nk_fd p).
Proof.
  intros V W. destruct (nak_obj_layout_head p) as (tl & -> & Wt). rewrite <- app_assoc.
  apply fdir_unpack_layout; [apply V|]. apply wf_bytes_app. split; [apply Wt, V|exact W].
Qed.

Lemma nak_verify_layout p s : nak_wf p -> wf_bytes s ->
  hdr_verify_length_and_checksum (nk_hdr p) (nak_obj_layout p ++ s) = Ok (len (nak_obj_layout p)).
Proof.
  intros Wf W. pose proof (nak_wf_pl p Wf) as PL. destruct Wf as (V & L & T).
  destruct (nak_obj_flag p V) as [_ FC]. pose proof (len_nonneg s) as Ls.
  pose proof (hdr_valid_packet_len (nk_hdr p) ltac:(apply V)) as [_ P7].
  rewrite <- PL. unfold nak_obj_layout in *. unfold nk_conf in *.
  destruct FC as [C0 | C1].
  - rewrite C0 in *. cbn [Z.eqb] in *. apply hdr_verify_nocrc; [lia|exact C0|]. rewrite len_app. lia.
  - rewrite C1 in *. cbn [Z.eqb Pos.eqb] in *. apply hdr_verify_crc; [apply nak_obj_pre_wf; exact V|exact C1|].
    rewrite PL, len_app, len_be_encode. lia.
Qed.

(* a PDU followed by anything: refused (the number of segment requests follows from the PDU
   length alone, so the decoder insists on a buffer that ends with the PDU) *)
Theorem nak_unpack_obj_surplus p s : nak_wf p -> wf_bytes s -> s <> [] ->
  nak_unpack (nak_obj_layout p ++ s) = Err EValue.
Proof.
  intros Wf W NE. pose proof Wf as (V & L & T).
  unfold nak_unpack. destruct nak_empty_ok as (e0 & -> & _). cbn [bind].
  rewrite nak_fdir_unpack_layout by assumption. cbn [bind].
  fold (nk_hdr p). rewrite nak_verify_layout by assumption. cbn [bind].
  rewrite T. unfold DT_NAK. cbn [Z.eqb Pos.eqb negb].
  rewrite len_app. destruct s as [|x s]; [contradiction|]. rewrite len_cons. pose proof (len_nonneg s).
  destruct (_ >? _) eqn:E; [reflexivity|lia].
Qed.

Lemma nak_eta p : {| nk_fd := nk_fd p; nk_segs := nk_segs p; nk_start := nk_start p; nk_end := nk_end p |} = p.
Proof. destruct p; reflexivity. Qed.

Theorem nak_unpack_obj p : nak_wf p -> nak_unpack (nak_obj_layout p) = Ok p.
Proof.
  intros Wf. pose proof Wf as (V & L & T). pose proof V as (VF & (Rs & Re) & VS). cbn [fst snd] in Rs, Re.
  destruct (nak_obj_flag p V) as [FL FC].
  pose proof (nak_wf_pl p Wf) as PL. pose proof (nak_obj_layout_len p V) as LL.
  pose proof (fdir_layout_len _ VF) as LF. pose proof (fdir_header_len_range _ VF) as RF.
  unfold nak_unpack. destruct nak_empty_ok as (e0 & -> & S0). cbn [bind].
  pose proof (nak_fdir_unpack_layout p [] V ltac:(constructor)) as U1. rewrite app_nil_r in U1. rewrite U1. cbn [bind].
  pose proof (nak_verify_layout p [] Wf ltac:(constructor)) as U2. rewrite app_nil_r in U2.
  fold (nk_hdr p). rewrite U2. cbn [bind].
  rewrite T. unfold DT_NAK. cbn [Z.eqb Pos.eqb negb]. rewrite Z.gtb_ltb, Z.ltb_irrefl.
  unfold hdr_large_file, FILE_LARGE, CRC_WITH_CRC. fold (nk_conf p).
  set (w := nak_w (nk_conf p)) in *.
  assert (N : (if negb (cf_large (nk_conf p) =? 1) then 4 else 8) = Z.of_nat w).
  { unfold w. destruct (nak_w_cases _ FL) as [[A B] | [A B]]; rewrite A, B; reflexivity. }
  rewrite N. pose proof (nak_w_pos (nk_conf p)) as Wp. fold w in Wp.
  (* the octets as blocks *)
  set (H := fdir_layout (nk_fd p)) in *.
  set (S1 := be_encode w (nk_start p)). set (E1 := be_encode w (nk_end p)).
  set (SG := segs_layout w (nk_segs p)).
  set (TR := if cf_crc (nk_conf p) =? 1 then be_encode 2 (crc16 (nak_obj_pre p)) else []).
  assert (EL : nak_obj_layout p = H ++ S1 ++ E1 ++ SG ++ TR).
  { unfold nak_obj_layout, TR, nak_obj_pre, pair_layout. fold w H. cbn [fst snd]. fold S1 E1 SG.
    destruct (cf_crc (nk_conf p) =? 1); rewrite <- ?app_assoc, ?app_nil_r; reflexivity. }
  assert (LS1 : len S1 = Z.of_nat w) by apply len_be_encode.
  assert (LE1 : len E1 = Z.of_nat w) by apply len_be_encode.
  assert (LSG : len SG = 2 * Z.of_nat w * Z.of_nat (length (nk_segs p))) by apply segs_layout_len.
  assert (LTR : len TR = if cf_crc (nk_conf p) =? 1 then 2 else 0)
    by (unfold TR; destruct (cf_crc (nk_conf p) =? 1); [apply len_be_encode|reflexivity]).
  assert (STOP : (if cf_crc (nk_conf p) =? 1 then len (nak_obj_layout p) - 2 else len (nak_obj_layout p))
                 = len H + len S1 + len E1 + len SG).
  { rewrite EL, !len_app, LTR. destruct (cf_crc (nk_conf p) =? 1); lia. }
  rewrite STOP. rewrite <- LF. rewrite EL.
  pose proof (len_nonneg SG) as LSG0.
  destruct (len H + 2 * Z.of_nat w >? len H + len S1 + len E1 + len SG) eqn:G; [lia|]. clear G.
  rewrite (slice_mid H S1 (E1 ++ SG ++ TR)) by lia.
  rewrite Nat2Z.id. unfold S1 at 1. rewrite struct_unpack_encode by exact Rs. cbn [bind].
  replace (H ++ S1 ++ E1 ++ SG ++ TR) with ((H ++ S1) ++ E1 ++ SG ++ TR) by (rewrite <- app_assoc; reflexivity).
  rewrite (slice_mid (H ++ S1) E1 (SG ++ TR)) by (rewrite len_app; lia).
  unfold E1 at 1. rewrite struct_unpack_encode by exact Re. cbn [bind].
  unfold nak_set_end, nak_set_start, nak_with_fd. cbn [nk_fd nk_segs nk_start nk_end]. rewrite S0.
  destruct (len H + Z.of_nat w + Z.of_nat w <? len H + len S1 + len E1 + len SG) eqn:G.
  - (* at least one segment request *)
    replace ((len H + len S1 + len E1 + len SG - (len H + Z.of_nat w + Z.of_nat w)) mod (Z.of_nat w * 2)) with 0
      by (rewrite LS1, LE1, LSG; symmetry;
          replace (len H + Z.of_nat w + Z.of_nat w + 2 * Z.of_nat w * Z.of_nat (length (nk_segs p)) - (len H + Z.of_nat w + Z.of_nat w))
            with (Z.of_nat (length (nk_segs p)) * (Z.of_nat w * 2)) by lia;
          apply Z.mod_mul; lia).
    cbn [Z.eqb negb].
    replace ((H ++ S1) ++ E1 ++ SG ++ TR) with (((H ++ S1) ++ E1) ++ SG ++ TR) by (rewrite <- !app_assoc; reflexivity).
    replace (len H + Z.of_nat w + Z.of_nat w) with (len ((H ++ S1) ++ E1)) by (rewrite !len_app; lia).
    replace (len H + len S1 + len E1 + len SG) with (len ((H ++ S1) ++ E1) + len SG) by (rewrite !len_app; lia).
    unfold SG. rewrite nak_unpack_segs_layout; try assumption.
    + cbn [bind]. unfold nak_set_segs, nak_with_segs. cbn [nk_fd nk_segs nk_start nk_end].
      rewrite nak_calc_len_spec by exact FL.
      unfold nk_conf, nk_hdr, nak_params. cbn [nk_fd nk_segs nk_start nk_end].
      assert (PE : nak_plen (h_conf (fd_hdr (nk_fd p))) {| np_start := nk_start p; np_end := nk_end p; np_segs := nk_segs p |} + 1
                   = h_dlen (fd_hdr (nk_fd p))) by (symmetry; exact L).
      rewrite PE. destruct VF as ((_ & _ & _ & D) & _).
      destruct (h_dlen (fd_hdr (nk_fd p)) <=? 65535) eqn:E; [|lia].
      unfold nak_with_fd. cbn [nk_fd nk_segs nk_start nk_end].
      destruct p as [[[ht hm hd hc] ft] sg st en]; reflexivity.
    + rewrite !wf_bytes_app. repeat split; [apply fdir_layout_wf; exact VF|apply be_encode_wf|apply be_encode_wf].
    + unfold TR. destruct (cf_crc (nk_conf p) =? 1); [apply be_encode_wf|constructor].
    + rewrite app_length, !app_length. unfold S1, E1. rewrite !be_encode_length.
      pose proof (pair_layout_length w (0, 0)). fold SG.
      assert (length SG = (length (nk_segs p) * (w + w))%nat).
      { unfold SG. clear. induction (nk_segs p) as [|x r IH]; [reflexivity|].
        cbn [segs_layout length]. rewrite app_length, pair_layout_length, IH. lia. }
      nia.
  - (* no segment request *)
    assert (nk_segs p = []) as E0.
    { destruct (nk_segs p); [reflexivity|]. cbn [length] in LSG. lia. }
    rewrite <- E0. rewrite nak_eta. reflexivity.
Qed.

(* ================= the property in terms of (configuration, parameters) ================= *)

Lemma nak_pdu_of_wf c q : nak_valid c q -> nak_wf (nak_pdu_of c q).
Proof. intros V. split; [apply nak_pdu_of_valid; exact V|]. split; reflexivity. Qed.

(* decode (encode p) = p for segment-request lists of any length, CRC on/off, 32/64-bit offsets *)
Theorem nak_unpack_pack c q : nak_valid c q -> nak_unpack (nak_layout c q) = Ok (nak_pdu_of c q).
Proof. intros V. rewrite nak_layout_obj. apply nak_unpack_obj, nak_pdu_of_wf, V. Qed.

(* C09: a packed NAK PDU followed by further octets is refused with ValueError *)
Theorem nak_unpack_pack_surplus c q s : nak_valid c q -> wf_bytes s -> s <> [] ->
  nak_unpack (nak_layout c q ++ s) = Err EValue.
Proof. intros V W N. rewrite nak_layout_obj. apply nak_unpack_obj_surplus; [apply nak_pdu_of_wf; exact V|exact W|exact N]. Qed.

Lemma ubf_eqb_refl u : ubf_eqb u u = true.
Proof. unfold ubf_eqb. rewrite !Z.eqb_refl. reflexivity. Qed.
Lemma hdr_eqb_refl h : hdr_eqb h h = true.
Proof. unfold hdr_eqb. rewrite !Z.eqb_refl, !ubf_eqb_refl. reflexivity. Qed.
Lemma segs_eqb_refl l : segs_eqb l l = true.
Proof. induction l as [|[s e] r IH]; [reflexivity|]. cbn [segs_eqb]. rewrite !Z.eqb_refl, IH. reflexivity. Qed.
Lemma nak_eqb_refl p : nak_eqb p p = true.
Proof. unfold nak_eqb, fdir_eqb. rewrite hdr_eqb_refl, segs_eqb_refl, !Z.eqb_refl. reflexivity. Qed.

Lemma segs_eqb_eq a : forall b, segs_eqb a b = true -> a = b.
Proof.
  induction a as [|[s e] a IH]; intros [|[s' e'] b] H; cbn [segs_eqb] in H; try discriminate; [reflexivity|].
  rewrite !andb_true_iff, !Z.eqb_eq in H. destruct H as [[-> ->] H]. f_equal. apply IH, H.
Qed.

(* the property as one chain: construct, pack, decode: same scope, same segment requests, equal
   PDU, identical re-pack, reported length = packed length, caller's PduConfig untouched *)
Theorem nak_roundtrip c q : nak_valid c q ->
  exists p b p',
    nak_new c (np_start q) (np_end q) (np_segs q) = Ok (p, c) /\ nak_pack p = Ok b /\ b = nak_layout c q /\
    nak_unpack b = Ok p' /\
    nk_start p' = np_start q /\ nk_end p' = np_end q /\ nk_segs p' = np_segs q /\
    nak_eqb p' p = true /\ nak_pack p' = Ok b /\ nak_packet_len p' = len b /\
    h_dlen (nk_hdr p') = len b - hdr_header_len (nk_hdr p').
Proof.
  intros V. exists (nak_pdu_of c q), (nak_layout c q), (nak_pdu_of c q).
  split; [apply nak_new_ok; exact V|]. split; [apply nak_pack_layout; exact V|].
  split; [reflexivity|]. split; [apply nak_unpack_pack; exact V|].
  split; [reflexivity|]. split; [reflexivity|]. split; [reflexivity|].
  split; [apply nak_eqb_refl|]. split; [apply nak_pack_layout; exact V|].
  destruct (nak_data_field_len c q V) as (A & B & _). split; [exact B|exact A].
Qed.

(* ================= values that do not fit the selected width ================= *)

Lemma nak_pack_pair_fails c b s e : flag (cf_large c) -> ~ pair_ok (nak_w c) (s, e) ->
  exists err, nak_pack_pair (cf_large c =? FILE_LARGE) b s e = Err err.
Proof.
  intros F N. unfold pair_ok, in_width in N. cbn [fst snd] in N. unfold nak_pack_pair, FILE_LARGE.
  destruct (nak_w_cases c F) as [[L W] | [L W]]; rewrite W in N; rewrite L; cbn [Z.eqb Pos.eqb negb].
  - change (256 ^ Z.of_nat 4) with 4294967296 in N. change (2 ^ 32 - 1) with 4294967295.
    destruct ((s >? 4294967295) || (e >? 4294967295)) eqn:E; [eexists; reflexivity|].
    destruct (Z_lt_dec s 0) as [S0|S0].
    + rewrite struct_pack_err by (change (256 ^ Z.of_nat 4) with 4294967296; lia). eexists; reflexivity.
    + rewrite struct_pack_ok by (change (256 ^ Z.of_nat 4) with 4294967296; lia). cbn [bind].
      rewrite struct_pack_err by (change (256 ^ Z.of_nat 4) with 4294967296; lia). eexists; reflexivity.
  - destruct (struct_pack 8 s) eqn:S1; [|eexists; reflexivity]. cbn [bind].
    destruct (struct_pack 8 e) eqn:S2; [|eexists; reflexivity]. exfalso. apply N.
    unfold struct_pack in S1, S2.
    destruct ((0 <=? s) && (s <? 256 ^ Z.of_nat 8)) eqn:A; [|discriminate].
    destruct ((0 <=? e) && (e <? 256 ^ Z.of_nat 8)) eqn:B; [|discriminate]. lia.
Qed.

Lemma nak_pack_segs_fails c l : flag (cf_large c) -> Exists (fun se => ~ pair_ok (nak_w c) se) l -> forall b,
  exists err, nak_pack_segs (cf_large c =? FILE_LARGE) b l = Err err.
Proof.
  intros F. induction 1 as [[s e] r H | [s e] r _ IH]; intros b; cbn [nak_pack_segs].
  - destruct (nak_pack_pair_fails c b s e F H) as (err & ->). eexists; reflexivity.
  - destruct (nak_pack_pair _ b s e); [cbn [bind]; apply IH|eexists; reflexivity].
Qed.

(* a scope value or an offset outside the selected width (>= 2^32 with the normal file flag,
   >= 2^64 with the large one, negative): packing fails, never truncated octets *)
Theorem nak_too_large_fails p : flag (cf_large (nk_conf p)) ->
  ~ pair_ok (nak_w (nk_conf p)) (nk_start p, nk_end p) \/
  Exists (fun se => ~ pair_ok (nak_w (nk_conf p)) se) (nk_segs p) ->
  exists err, nak_pack p = Err err.
Proof.
  intros F H. unfold nak_pack. destruct (fdir_pack (nk_fd p)) as [b|e0]; [|eexists; reflexivity]. cbn [bind].
  unfold hdr_large_file. fold (nk_conf p). destruct H as [H | H].
  - destruct (nak_pack_pair_fails (nk_conf p) b _ _ F H) as (err & ->). eexists; reflexivity.
  - destruct (nak_pack_pair _ b _ _) as [b'|e0]; [|eexists; reflexivity]. cbn [bind].
    destruct (nak_pack_segs_fails (nk_conf p) _ F H b') as (err & ->). eexists; reflexivity.
Qed.

(* the property's wording: 32-bit fields, a value >= 2^32 *)
Corollary nak_too_large_32 p : cf_large (nk_conf p) = 0 ->
  nk_start p >= 2 ^ 32 \/ nk_end p >= 2 ^ 32 \/ Exists (fun se => fst se >= 2 ^ 32 \/ snd se >= 2 ^ 32) (nk_segs p) ->
  exists err, nak_pack p = Err err.
Proof.
  intros L H. apply nak_too_large_fails; [left; exact L|].
  assert (W : nak_w (nk_conf p) = 4%nat) by (unfold nak_w; rewrite L; reflexivity). rewrite W.
  unfold pair_ok, in_width. change (256 ^ Z.of_nat 4) with (2 ^ 32). cbn [fst snd].
  destruct H as [H | [H | H]]; [left; lia|left; lia|right].
  induction H as [se r H | se r _ IH]; [left; lia|right; exact IH].
Qed.

(* ================= get_max_seg_reqs_for_max_packet_size_and_pdu_cfg ================= *)

Definition nak_base (c : PduConfig) : Z :=
  conf_header_len c + 1 + (if cf_crc c =? 1 then 2 else 0) + 2 * Z.of_nat (nak_w c).

Theorem nak_max_seg_reqs_spec mx c : flag (cf_large c) -> flag (cf_crc c) ->
  nak_max_seg_reqs mx c =
  if mx <? nak_base c then Err EValue else Ok ((mx - nak_base c) / (2 * Z.of_nat (nak_w c))).
Proof.
  intros FL FC. unfold nak_max_seg_reqs, nak_base, FILE_NORMAL, FILE_LARGE.
  destruct (nak_w_cases c FL) as [[L W] | [L W]]; rewrite L, W; destruct FC as [-> | ->]; cbn [Z.eqb Pos.eqb negb];
    match goal with |- (if ?a <? ?b then _ else _) = (if ?a <? ?b' then _ else _) => replace b' with b by lia end;
    match goal with |- context [?a <? ?b] => destruct (a <? b) end; try reflexivity; f_equal; f_equal; lia.
Qed.

Lemma nak_layout_len c q : nak_valid c q ->
  len (nak_layout c q) = nak_base c + 2 * Z.of_nat (nak_w c) * Z.of_nat (length (np_segs q)).
Proof.
  intros V. pose proof V as (C & _). rewrite nak_layout_obj, nak_obj_layout_len by (apply nak_pdu_of_valid; exact V).
  unfold nak_base, nak_plen, fdir_header_len, hdr_header_len, conf_header_len, FIXED_LENGTH, nak_pdu_of, nak_mk, nk_conf, nk_hdr.
  cbn [nk_fd fdir_of fd_hdr h_conf nak_params np_segs nk_segs conf_set_dir cf_src cf_seq cf_dst cf_crc].
  assert (nak_w (conf_set_dir c 1) = nak_w c) as -> by reflexivity.
  destruct C as (_ & _ & _ & Heq & _). destruct (cf_crc c =? 1); lia.
Qed.

(* the formula is exact: a NAK PDU for configuration c fits into max_packet_size octets
   iff it carries at most the returned number of segment requests *)
Theorem nak_max_seg_reqs_exact c q mx n : nak_valid c q -> nak_max_seg_reqs mx c = Ok n ->
  0 <= n /\ (Z.of_nat (length (np_segs q)) <= n <-> len (nak_layout c q) <= mx).
Proof.
  intros V G. pose proof V as (C & _). rewrite nak_max_seg_reqs_spec in G by apply C.
  rewrite (nak_layout_len c q V).
  assert (FL : flag (cf_large c)) by apply C.
  set (k := Z.of_nat (length (np_segs q))). assert (0 <= k) by (unfold k; lia).
  set (tw := 2 * Z.of_nat (nak_w c)) in *.
  assert (TW : tw = 8 \/ tw = 16) by (unfold tw; destruct (nak_w_cases c FL) as [[_ W] | [_ W]]; rewrite W; [left|right]; reflexivity).
  clearbody tw.
  destruct (mx <? nak_base c) eqn:E; [discriminate|].
  assert (G' : n = (mx - nak_base c) / tw) by congruence. clear G.
  destruct TW; subst tw; lia.
Qed.

(* ================= every accepted octet string ================= *)

Lemma firstn_len_all (d : bytes) n : n = len d -> firstn (Z.to_nat n) d = d.
Proof. intros ->. apply firstn_all2. unfold len. lia. Qed.

(* the segment_requests setter on an object whose cached length already fits the new list *)
Lemma nak_set_segs_id f segs s e l0 :
  let P := {| nk_fd := f; nk_segs := segs; nk_start := s; nk_end := e |} in
  nak_obj_valid P -> nak_len_ok P ->
  nak_set_segs {| nk_fd := f; nk_segs := l0; nk_start := s; nk_end := e |} segs = Ok P.
Proof.
  intros P V L. destruct (nak_obj_flag P V) as [FL _]. destruct V as (((_ & _ & _ & D) & _) & _).
  unfold nak_set_segs, nak_with_segs. cbn [nk_fd nk_segs nk_start nk_end]. fold P.
  rewrite nak_calc_len_spec by exact FL. unfold nak_len_ok in L. rewrite <- L.
  unfold nk_hdr in *. cbn [P nk_fd] in D. cbn [P nk_fd].
  destruct (h_dlen (fd_hdr f) <=? 65535) eqn:E; [|lia].
  unfold nak_with_fd, P, nk_conf, nk_hdr. cbn [nk_fd nk_segs nk_start nk_end].
  destruct f as [[? ? ? ?] ?]; reflexivity.
Qed.

(* Whatever NakPdu.unpack accepts is exactly the encoding of what it returns: the buffer is the
   layout of the decoded object (so nothing outside the PDU, and not the CRC trailer, can have
   been folded into the values), the object is well-formed, its lengths are the buffer's. *)
Theorem nak_unpack_inv d p : wf_bytes d -> nak_unpack d = Ok p -> nak_wf p /\ nak_obj_layout p = d.
Proof.
  intros W. unfold nak_unpack. destruct nak_empty_ok as (e0 & -> & S0). cbn [bind].
  destruct (fdir_unpack d) as [f|e] eqn:UF; [|discriminate]. cbn [bind].
  destruct (fdir_unpack_inv d f W UF) as (VF & _ & LHL & LY).
  pose proof VF as (VH & RT).
  destruct (hdr_valid_packet_len _ VH) as [RHL RPL].
  destruct (hdr_verify_length_and_checksum (fd_hdr f) d) as [pl|e] eqn:UV; [|discriminate]. cbn [bind].
  destruct (hdr_verify_accept (fd_hdr f) d pl ltac:(lia) UV) as (EPL & LPL & CRC). clear UV.
  destruct (negb (fd_type f =? DT_NAK)) eqn:ET; [discriminate|].
  assert (T8 : fd_type f = 8) by (unfold DT_NAK in ET; lia). clear ET.
  destruct (len d >? pl) eqn:ES; [discriminate|]. assert (PLD : pl = len d) by lia. clear ES LPL.
  assert (FL : flag (cf_large (h_conf (fd_hdr f)))) by apply VH.
  assert (FC : flag (cf_crc (h_conf (fd_hdr f)))) by apply VH.
  unfold hdr_large_file, FILE_LARGE, CRC_WITH_CRC.
  set (c := h_conf (fd_hdr f)) in *. set (w := nak_w c).
  assert (N : (if negb (cf_large c =? 1) then 4 else 8) = Z.of_nat w).
  { unfold w. destruct (nak_w_cases _ FL) as [[A B] | [A B]]; rewrite A, B; reflexivity. }
  cbv zeta. rewrite !N, !Nat2Z.id. pose proof (nak_w_pos c) as Wp. fold w in Wp.
  set (n := Z.of_nat w) in *. set (hl := fdir_header_len f) in *.
  set (stop := if cf_crc c =? 1 then pl - 2 else pl).
  assert (Hn : 0 < n) by (unfold n; lia).
  assert (Hhl : hl = hdr_header_len (fd_hdr f) + 1) by reflexivity.
  destruct (hl + 2 * n >? stop) eqn:G; [discriminate|].
  assert (STL : stop <= len d) by (unfold stop; destruct (cf_crc c =? 1); lia).
  assert (L1 : length (slice d hl (hl + n)) = w) by (rewrite slice_length by lia; lia).
  assert (L2 : length (slice d (hl + n) (hl + n + n)) = w) by (rewrite slice_length by lia; lia).
  rewrite (struct_unpack_ok w _ L1). cbn [bind]. rewrite (struct_unpack_ok w _ L2). cbn [bind].
  set (s := be_decode (slice d hl (hl + n))). set (e := be_decode (slice d (hl + n) (hl + n + n))).
  unfold nak_set_end, nak_set_start, nak_with_fd. cbn [nk_fd nk_segs nk_start nk_end]. rewrite S0.
  (* the common conclusion, for the decoded list of segment requests *)
  assert (FIN : forall segs, Forall (pair_ok w) segs -> segs_layout w segs = slice d (hl + n + n) stop ->
            stop = hl + n + n + 2 * n * Z.of_nat (length segs) ->
            let P := {| nk_fd := f; nk_segs := segs; nk_start := s; nk_end := e |} in
            nak_wf P /\ nak_obj_layout P = d).
  { intros segs FS LS ST P.
    assert (DL : h_dlen (fd_hdr f) = nak_plen c (nak_params P) + 1).
    { unfold nak_plen. cbn [nak_params np_segs P nk_segs]. fold w n.
      unfold hdr_packet_len in EPL. unfold hl, fdir_header_len in ST. unfold stop in ST.
      destruct (cf_crc c =? 1); lia. }
    assert (OV : nak_obj_valid P).
    { unfold nak_obj_valid, P, nk_conf, nk_hdr. cbn [nk_fd nk_segs nk_start nk_end]. fold c w.
      split; [exact VF|]. split; [|exact FS]. split; cbn [fst snd]; unfold in_width.
      - pose proof (be_decode_range _ (wf_bytes_slice d hl (hl + n) W)) as B. rewrite L1 in B. exact B.
      - pose proof (be_decode_range _ (wf_bytes_slice d (hl + n) (hl + n + n) W)) as B. rewrite L2 in B. exact B. }
    split; [split; [exact OV|split; [exact DL|exact T8]]|].
    assert (PRE : nak_obj_pre P = firstn (Z.to_nat stop) d).
    { unfold nak_obj_pre, pair_layout, P, nk_conf, nk_hdr. cbn [nk_fd nk_segs nk_start nk_end fst snd]. fold c w.
      unfold s, e.
      pose proof (be_encode_decode _ (wf_bytes_slice d hl (hl + n) W)) as B1. rewrite L1 in B1. rewrite B1.
      pose proof (be_encode_decode _ (wf_bytes_slice d (hl + n) (hl + n + n) W)) as B2. rewrite L2 in B2. rewrite B2.
      rewrite LS, LY. fold hl. rewrite <- slice_0_firstn.
      rewrite <- app_assoc. rewrite (slice_adjacent d (hl + n)) by lia.
      rewrite (slice_adjacent d hl) by lia. rewrite slice_adjacent by lia. apply slice_0_firstn. }
    unfold nak_obj_layout. rewrite PRE. unfold P, nk_conf, nk_hdr. cbn [nk_fd]. fold c.
    unfold stop in *. destruct FC as [C0 | C1].
    - rewrite C0 in *. cbn [Z.eqb] in *. apply firstn_len_all. exact PLD.
    - rewrite C1 in *. cbn [Z.eqb Pos.eqb] in *.
      rewrite <- (firstn_skipn (Z.to_nat (pl - 2)) d) at 3. f_equal. symmetry.
      apply crc_trailer_unique.
      + apply wf_bytes_firstn, W.
      + apply wf_bytes_skipn, W.
      + rewrite skipn_length. unfold len in PLD. lia.
      + rewrite firstn_skipn. rewrite <- (firstn_len_all d pl PLD). apply CRC. reflexivity. }
  destruct (hl + n + n <? stop) eqn:G2.
  - destruct (negb ((stop - (hl + n + n)) mod (n * 2) =? 0)) eqn:M; [discriminate|].
    assert (M0 : (stop - (hl + n + n)) mod (n * 2) = 0) by lia. clear M.
    set (k := Z.to_nat ((stop - (hl + n + n)) / (n * 2))).
    assert (ST : stop = hl + n + n + 2 * n * Z.of_nat k).
    { unfold k. rewrite Z2Nat.id by (apply Z.div_pos; lia).
      pose proof (Z.div_mod (stop - (hl + n + n)) (n * 2) ltac:(lia)) as DM. rewrite M0 in DM. lia. }
    destruct (nak_unpack_segs_spec d w Wp W k (hl + n + n) stop [] (length d + 1)) as (segs & R & LS & FS & LYS);
      try assumption; try lia.
    { assert (Z.of_nat k <= len d) by nia. unfold len in *. lia. }
    fold n in R. rewrite R. cbn [bind app].
    intros X. destruct (FIN segs FS LYS ltac:(rewrite LS; exact ST)) as (WF & LAY). cbv zeta in WF, LAY.
    rewrite (nak_set_segs_id f segs s e []) in X by apply WF. injection X as <-.
    split; [exact WF|exact LAY].
  - intros X. injection X as <-.
    apply (FIN []); [constructor| |cbn [length]; lia].
    assert (stop = hl + n + n) as -> by lia. rewrite slice_empty. reflexivity.
Qed.

(* consequences: identical re-pack, lengths, CRC *)
Theorem nak_repack d p : wf_bytes d -> nak_unpack d = Ok p ->
  nak_pack p = Ok d /\ nak_packet_len p = len d /\
  h_dlen (nk_hdr p) = len d - hdr_header_len (nk_hdr p) /\ nak_unpack d = Ok p /\ nak_eqb p p = true.
Proof.
  intros W U. destruct (nak_unpack_inv d p W U) as ((V & L & T) & LAY).
  split; [rewrite nak_pack_obj by exact V; rewrite LAY; reflexivity|].
  pose proof (nak_packet_len_obj p V L) as PL. rewrite LAY in PL.
  split; [exact PL|]. split; [|split; [exact U|apply nak_eqb_refl]].
  unfold nak_packet_len, fdir_packet_len, hdr_packet_len in PL. unfold nk_hdr. lia.
Qed.

(* C04 hook: an accepted CRC-flagged NAK PDU has CRC-16 residue 0 over the whole buffer *)
Theorem nak_accept_needs_crc0 d p : wf_bytes d -> nak_unpack d = Ok p ->
  cf_crc (nk_conf p) = 1 -> crc16 d = 0.
Proof.
  intros W U C. destruct (nak_unpack_inv d p W U) as ((V & _) & LAY).
  rewrite <- LAY. unfold nak_obj_layout. rewrite C. cbn [Z.eqb Pos.eqb].
  apply crc_residue, nak_obj_pre_wf, V.
Qed.

(* C09: the decoder reads exactly the declared packet: the reported length is the buffer length *)
Theorem nak_no_overread d p : wf_bytes d -> nak_unpack d = Ok p ->
  nak_unpack (firstn (Z.to_nat (nak_packet_len p)) d) = Ok p /\ nak_packet_len p = len d.
Proof.
  intros W U. destruct (nak_repack d p W U) as (_ & PL & _). split; [|exact PL].
  rewrite firstn_len_all by exact PL. exact U.
Qed.

(* C09: pack p ++ s is decoded as pack p (s empty) or refused with a documented error *)
Theorem nak_suffix c q s : nak_valid c q -> wf_bytes s ->
  nak_unpack (nak_layout c q ++ s) = nak_unpack (nak_layout c q) \/
  exists e, nak_unpack (nak_layout c q ++ s) = Err e /\ documented e = true.
Proof.
  intros V W. destruct s as [|x s]; [left; rewrite app_nil_r; reflexivity|right].
  exists EValue. split; [apply nak_unpack_pack_surplus; [exact V|exact W|discriminate]|reflexivity].
Qed.

(* ================= C10: every octet string decodes or fails with a documented error ================= *)

Lemma nak_calc_len_err p e : nak_calc_len p = Err e -> e = EValue.
Proof.
  unfold nak_calc_len.
  destruct (cf_large (nk_conf p) =? FILE_NORMAL); [|destruct (cf_large (nk_conf p) =? FILE_LARGE)]; cbn [bind];
    try (intros H; injection H as <-; reflexivity);
    rewrite fdir_set_param_len_spec;
    match goal with |- context [if ?a <=? 65535 then _ else _] => destruct (a <=? 65535) end; cbn [bind];
    intros H; try discriminate; injection H as <-; reflexivity.
Qed.

Theorem nak_unpack_total d : wf_bytes d -> ok_or_documented (nak_unpack d).
Proof.
  intros W. unfold nak_unpack. destruct nak_empty_ok as (e0 & -> & S0). cbn [bind].
  pose proof (fdir_unpack_total d W) as TF.
  destruct (fdir_unpack d) as [f|e] eqn:UF; [|exact TF]. clear TF. cbn [bind].
  destruct (fdir_unpack_inv d f W UF) as (VF & _ & LHL & LY).
  pose proof VF as (VH & RT).
  destruct (hdr_valid_packet_len _ VH) as [RHL RPL].
  destruct (hdr_verify_length_and_checksum (fd_hdr f) d) as [pl|e] eqn:UV.
  2:{ destruct (hdr_verify_err (fd_hdr f) d e ltac:(lia) UV) as [-> | ->]; reflexivity. }
  cbn [bind].
  destruct (hdr_verify_accept (fd_hdr f) d pl ltac:(lia) UV) as (EPL & LPL & CRC). clear UV.
  destruct (negb (fd_type f =? DT_NAK)); [reflexivity|].
  destruct (len d >? pl) eqn:ES; [reflexivity|]. assert (PLD : pl = len d) by lia.
  assert (FL : flag (cf_large (h_conf (fd_hdr f)))) by apply VH.
  unfold hdr_large_file, FILE_LARGE, CRC_WITH_CRC.
  set (c := h_conf (fd_hdr f)) in *. set (w := nak_w c).
  assert (N : (if negb (cf_large c =? 1) then 4 else 8) = Z.of_nat w).
  { unfold w. destruct (nak_w_cases _ FL) as [[A B] | [A B]]; rewrite A, B; reflexivity. }
  cbv zeta. rewrite !N, !Nat2Z.id. pose proof (nak_w_pos c) as Wp. fold w in Wp.
  set (n := Z.of_nat w) in *. set (hl := fdir_header_len f) in *.
  set (stop := if cf_crc c =? 1 then pl - 2 else pl).
  assert (Hn : 0 < n) by (unfold n; lia).
  assert (Hhl : hl = hdr_header_len (fd_hdr f) + 1) by reflexivity.
  destruct (hl + 2 * n >? stop) eqn:G; [reflexivity|].
  assert (STL : stop <= len d) by (unfold stop; destruct (cf_crc c =? 1); lia).
  assert (L1 : length (slice d hl (hl + n)) = w) by (rewrite slice_length by lia; lia).
  assert (L2 : length (slice d (hl + n) (hl + n + n)) = w) by (rewrite slice_length by lia; lia).
  rewrite (struct_unpack_ok w _ L1). cbn [bind]. rewrite (struct_unpack_ok w _ L2). cbn [bind].
  destruct (hl + n + n <? stop) eqn:G2; [|exact I].
  destruct (negb ((stop - (hl + n + n)) mod (n * 2) =? 0)) eqn:M; [reflexivity|].
  assert (M0 : (stop - (hl + n + n)) mod (n * 2) = 0) by lia. clear M.
  set (k := Z.to_nat ((stop - (hl + n + n)) / (n * 2))).
  assert (ST : stop = hl + n + n + 2 * n * Z.of_nat k).
  { unfold k. rewrite Z2Nat.id by (apply Z.div_pos; lia).
    pose proof (Z.div_mod (stop - (hl + n + n)) (n * 2) ltac:(lia)) as DM. rewrite M0 in DM. lia. }
  destruct (nak_unpack_segs_spec d w Wp W k (hl + n + n) stop [] (length d + 1)) as (segs & R & _);
    try assumption; try lia.
  { assert (Z.of_nat k <= len d) by nia. unfold len in *. lia. }
  fold n in R. rewrite R. cbn [bind app]. unfold nak_set_segs.
  destruct (nak_calc_len _) as [p|e] eqn:CL; [exact I|].
  rewrite (nak_calc_len_err _ _ CL). reflexivity.
Qed.

(* every strict prefix of a packed NAK PDU is refused with a documented error *)
Theorem nak_prefix_rejected c q n : nak_valid c q -> (n < length (nak_layout c q))%nat ->
  exists e, nak_unpack (firstn n (nak_layout c q)) = Err e /\ documented e = true.
Proof.
  intros V L. pose proof (nak_pdu_of_wf c q V) as WF0. pose proof WF0 as (OV0 & _).
  assert (WL : wf_bytes (nak_layout c q)) by (rewrite nak_layout_obj; apply nak_obj_layout_wf; exact OV0).
  set (LL := nak_layout c q) in *.
  assert (Wp : wf_bytes (firstn n LL)) by (apply wf_bytes_firstn; exact WL).
  pose proof (nak_unpack_total _ Wp) as T.
  destruct (nak_unpack (firstn n LL)) as [p|e] eqn:U; [|exists e; split; [reflexivity|exact T]].
  exfalso. clear T.
  destruct (nak_unpack_inv _ p Wp U) as (WF & LAY). pose proof WF as (OV & _).
  (* the common part decoded from the prefix is the common part of the PDU *)
  pose proof (nak_fdir_unpack_layout p [] OV ltac:(constructor)) as UF. rewrite app_nil_r, LAY in UF.
  destruct (fdir_unpack_inv _ _ Wp UF) as (VF & _ & LH & LYF).
  assert (E : LL = fdir_layout (nk_fd p) ++ skipn (Z.to_nat (fdir_header_len (nk_fd p))) LL).
  { rewrite LYF. rewrite firstn_firstn.
    replace (Nat.min (Z.to_nat (fdir_header_len (nk_fd p))) n) with (Z.to_nat (fdir_header_len (nk_fd p))).
    - symmetry. apply firstn_skipn.
    - unfold len in LH. rewrite firstn_length in LH. lia. }
  assert (U2 : fdir_unpack LL = Ok (nk_fd p)).
  { rewrite E. apply fdir_unpack_layout; [exact VF|]. apply wf_bytes_skipn. exact WL. }
  pose proof (nak_fdir_unpack_layout (nak_pdu_of c q) [] OV0 ltac:(constructor)) as U3.
  rewrite app_nil_r, <- nak_layout_obj in U3. fold LL in U3. assert (EF : nk_fd p = nk_fd (nak_pdu_of c q)) by congruence.
  pose proof (nak_wf_pl p WF) as P1. pose proof (nak_wf_pl _ WF0) as P2.
  rewrite <- nak_layout_obj in P2. fold LL in P2. rewrite LAY in P1.
  unfold nk_hdr in P1, P2. rewrite EF in P1. rewrite P2 in P1.
  unfold len in P1. rewrite firstn_length in P1. lia.
Qed.

(* ================= C11: lengths track the setters; caller's configuration untouched ================= *)

Inductive nak_op := SetSegs (l : list (Z * Z)) | SetFileFlag (v : Z) | SetStart (v : Z) | SetEnd (v : Z).
Definition nak_apply_op (p : NakPdu) (o : nak_op) : res NakPdu :=
  match o with
  | SetSegs l => nak_set_segs p l
  | SetFileFlag v => nak_set_file_flag p v
  | SetStart v => Ok (nak_set_start p v)
  | SetEnd v => Ok (nak_set_end p v)
  end.
Fixpoint nak_apply_ops (p : NakPdu) (ops : list nak_op) : res NakPdu :=
  match ops with [] => Ok p | o :: r => do p' <- nak_apply_op p o; nak_apply_ops p' r end.

(* the invariant: the PDU is the one a fresh constructor call builds for the caller's
   configuration with the current file flag and the current values *)
Definition nak_inv (c : PduConfig) (p : NakPdu) : Prop :=
  exists lf, flag lf /\ p = nak_pdu_of (conf_set_large c lf) (nak_params p).

Lemma nak_calc_len_flag p p' : nak_calc_len p = Ok p' -> flag (cf_large (nk_conf p)).
Proof.
  unfold nak_calc_len, FILE_NORMAL, FILE_LARGE, flag.
  destruct (cf_large (nk_conf p) =? 0) eqn:A; [lia|]. destruct (cf_large (nk_conf p) =? 1) eqn:B; [lia|].
  discriminate.
Qed.

Lemma nak_calc_len_mk c' n0 q' p' :
  nak_calc_len {| nk_fd := fdir_of c' 8 n0; nk_segs := np_segs q'; nk_start := np_start q'; nk_end := np_end q' |} = Ok p' ->
  flag (cf_large c') /\ p' = nak_mk c' q'.
Proof.
  intros H. pose proof (nak_calc_len_flag _ _ H) as F. split; [exact F|].
  rewrite nak_calc_len_spec in H by exact F.
  unfold nk_conf, nk_hdr, nak_params, fdir_of in H. cbn [nk_fd nk_segs nk_start nk_end fd_hdr fd_type h_conf h_type h_meta] in H.
  match type of H with (if ?a <=? _ then _ else _) = _ => destruct (a <=? 65535) end; [|discriminate].
  injection H as <-. unfold nak_with_fd, nak_mk, fdir_of. cbn [nk_fd nk_segs nk_start nk_end].
  destruct q'; reflexivity.
Qed.

Lemma nak_new_inv c s e l p c' : nak_new c s e l = Ok (p, c') ->
  c' = c /\ nak_inv c p /\ nak_params p = {| np_start := s; np_end := e; np_segs := l |}.
Proof.
  unfold nak_new. destruct (fdir_new _ _ _) as [f|er] eqn:N; [|discriminate]. cbn [bind].
  destruct (Z.eq_dec (ubf_len (cf_src c)) (ubf_len (cf_dst c))) as [Eq|Ne].
  2:{ rewrite fdir_new_err in N by (unfold conf_set_dir; cbn [cf_src cf_dst]; lia). discriminate. }
  rewrite fdir_new_ok in N by (try lia; exact Eq). injection N as <-.
  destruct (nak_calc_len _) as [p1|er] eqn:CL; [|discriminate]. cbn [bind]. intros X. injection X as <- <-.
  split; [reflexivity|].
  destruct (nak_calc_len_mk (conf_set_dir c DIR_TOWARDS_SENDER) 8 {| np_start := 0; np_end := 0; np_segs := l |} p1 CL) as [F E].
  subst p1. split; [|reflexivity].
  exists (cf_large c). split; [exact F|].
  unfold nak_pdu_of, nak_set_end, nak_set_start, nak_mk, nak_params. cbn [nk_fd nk_segs nk_start nk_end np_start np_end np_segs].
  unfold DIR_TOWARDS_SENDER, conf_set_dir, conf_set_large. cbn [cf_src cf_dst cf_seq cf_mode cf_large cf_crc cf_dir cf_segctrl].
  reflexivity.
Qed.

Lemma nak_apply_op_inv c p o p' : nak_inv c p -> nak_apply_op p o = Ok p' -> nak_inv c p'.
Proof.
  intros (lf & F & I) H. destruct o as [l|v|v|v]; cbn [nak_apply_op] in H.
  - (* segment_requests setter *)
    unfold nak_set_segs, nak_with_segs in H. rewrite I in H. unfold nak_pdu_of in H.
    cbn [nak_mk nk_fd nk_segs nk_start nk_end] in H.
    destruct (nak_calc_len_mk _ _ {| np_start := np_start (nak_params p); np_end := np_end (nak_params p); np_segs := l |} p' H) as [_ ->].
    exists lf. split; [exact F|]. reflexivity.
  - (* file_flag setter *)
    unfold nak_set_file_flag, nak_with_fd in H. rewrite I in H. unfold nak_pdu_of in H.
    cbn [nak_mk nk_fd nk_segs nk_start nk_end fdir_of fd_hdr fd_type hdr_with_conf h_type h_meta h_dlen h_conf] in H.
    destruct (nak_calc_len_mk (conf_set_large (conf_set_dir (conf_set_large c lf) 1) v) (nak_plen (conf_set_dir (conf_set_large c lf) 1) (nak_params p))
                {| np_start := np_start (nak_params p); np_end := np_end (nak_params p); np_segs := np_segs (nak_params p) |} p' H) as [F' ->].
    exists v. split; [exact F'|]. reflexivity.
  - injection H as <-. exists lf. split; [exact F|]. rewrite I at 1. reflexivity.
  - injection H as <-. exists lf. split; [exact F|]. rewrite I at 1. reflexivity.
Qed.

Theorem nak_setters_inv c s e l ops p0 c' p :
  nak_new c s e l = Ok (p0, c') -> nak_apply_ops p0 ops = Ok p -> c' = c /\ nak_inv c p.
Proof.
  intros N A. destruct (nak_new_inv c s e l p0 c' N) as (-> & I & _). split; [reflexivity|].
  clear N. revert p0 I A. induction ops as [|o r IH]; intros p0 I A; cbn [nak_apply_ops] in A.
  - injection A as <-. exact I.
  - destruct (nak_apply_op p0 o) as [p1|er] eqn:E; [|discriminate]. cbn [bind] in A.
    apply (IH p1); [eapply nak_apply_op_inv; eassumption|exact A].
Qed.

(* after any setter history: the caller's PduConfig is untouched, and (for final values that are
   valid parameters) the packed octets are those of a fresh PDU with the final values, the reported
   length is the packed length, the length field inside is what the format requires *)
Theorem nak_len_inv c s e l ops p0 c' p :
  nak_new c s e l = Ok (p0, c') -> nak_apply_ops p0 ops = Ok p ->
  c' = c /\
  exists lf, flag lf /\
    let c2 := conf_set_large c lf in
    let q := nak_params p in
    p = nak_pdu_of c2 q /\
    (nak_valid c2 q ->
       nak_pack p = Ok (nak_layout c2 q) /\
       nak_packet_len p = len (nak_layout c2 q) /\
       nak_new c2 (np_start q) (np_end q) (np_segs q) = Ok (p, c2) /\
       h_dlen (nk_hdr p) = len (nak_layout c2 q) - hdr_header_len (nk_hdr p)).
Proof.
  intros N A. destruct (nak_setters_inv c s e l ops p0 c' p N A) as (-> & lf & F & I).
  split; [reflexivity|]. exists lf. split; [exact F|]. cbv zeta. split; [exact I|]. intros V.
  pose proof (nak_pack_layout _ _ V) as P. pose proof (nak_new_ok _ _ V) as NW.
  destruct (nak_data_field_len _ _ V) as (D1 & D2 & _). cbv zeta in D1, D2.
  rewrite <- I in P, NW, D1, D2. repeat split; assumption.
Qed.

(* pack does not change the object (it returns octets only): packing twice gives the same octets *)
Lemma nak_pack_repeatable p : nak_pack p = nak_pack p.
Proof. reflexivity. Qed.

(* ================= non-vacuity ================= *)

Definition nak_example_conf : PduConfig :=
  {| cf_src := {| ubf_val := 258; ubf_len := 2 |}; cf_dst := {| ubf_val := 65535; ubf_len := 2 |};
     cf_seq := {| ubf_val := 4294967295; ubf_len := 4 |};
     cf_mode := 1; cf_large := 1; cf_crc := 1; cf_dir := 0; cf_segctrl := 1 |}.
Definition nak_example_params : NakParams :=
  {| np_start := 1; np_end := 18446744073709551615; np_segs := [(256, 65536); (4294967296, 4294967297)] |}.
Example nak_valid_example : nak_valid nak_example_conf nak_example_params.
Proof.
  unfold nak_valid, conf_valid, ubf_valid, width_ok, flag, in_width, nak_example_conf, nak_example_params.
  cbn [cf_src cf_dst cf_seq cf_mode cf_large cf_crc cf_dir cf_segctrl ubf_val ubf_len np_start np_end np_segs].
  repeat split; try (repeat constructor; cbn; lia); try (vm_compute; intuition congruence).
Qed.
Example nak_layout_example :
  nak_layout nak_example_conf nak_example_params =
  [47; 0; 51; 147; 1; 2; 255; 255; 255; 255; 255; 255; 8;
   0; 0; 0; 0; 0; 0; 0; 1; 255; 255; 255; 255; 255; 255; 255; 255;
   0; 0; 0; 0; 0; 0; 1; 0; 0; 0; 0; 0; 0; 1; 0; 0;
   0; 0; 0; 1; 0; 0; 0; 0; 0; 0; 0; 1; 0; 0; 0; 1] ++ be_encode 2 (crc16 (firstn 61 (nak_layout nak_example_conf nak_example_params))).
Proof. vm_compute. reflexivity. Qed.
Example nak_too_large_example :
  match nak_new (conf_set_large nak_example_conf 0) 0 4294967296 [] with
  | Ok (p, _) => Some (nak_pack p)
  | Err _ => None
  end = Some (Err EValue).
Proof. vm_compute. reflexivity. Qed.
