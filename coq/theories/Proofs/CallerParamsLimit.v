(* C11 (gap 1, limit): the PDU classes that KEEP A REFERENCE to the caller's parameter object
   (FinishedPdu -> FinishedParams, FileDataPdu -> FileDataParams) write through it in their setters.
   "The caller's parameter object is the same after any PDU-side setter" is therefore false for
   them - by design of the classes (finished_params / the params attribute return that very
   object); the property only speaks of constructing and packing, which leave it alone
   (fin_new_caller_objects, fd_new_coherent; pack returns octets only). *)
From Coq Require Import ZArith List Bool.
From SP Require Import Base.Result Base.Bytes Model.PduHeader Spec.PduHeaderSpec Model.FileDirective Model.Lv Model.Tlv
  Model.Finished Spec.PduBSpec Proofs.FinishedProofs Model.FileData Spec.FileDataSpec Proofs.FileDataProofs.
Import ListNotations.
Open Scope Z_scope.

Theorem setter_keeps_caller_params_refuted :
  (exists c q p p', fin_new c q = Ok (p, c, q) /\ fin_params p = q /\
     fin_set_cc p 6 = Ok p' /\ fin_params p' <> q) /\
  (exists c q p p', fd_new c q = Ok (p, c) /\ fd_params p = q /\
     fd_set_data p [120; 121; 122] = Ok p' /\ fd_params p' <> q).
Proof.
  split.
  - exists (ex_conf 0 0), fn_success. eexists. eexists.
    split; [vm_compute; reflexivity|]. split; [reflexivity|]. split; [vm_compute; reflexivity|].
    intros H. vm_compute in H. discriminate H.
  - exists fd_example_conf, fd_example_params. eexists. eexists.
    split; [vm_compute; reflexivity|]. split; [reflexivity|]. split; [vm_compute; reflexivity|].
    intros H. vm_compute in H. discriminate H.
Qed.
