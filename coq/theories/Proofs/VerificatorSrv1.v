(* C16 gaps: (a) the reports the tracker is fed come from Service1Tm objects (C15): every
   object that Service1Tm.unpack / from_tm / create_*_tm returns carries a step id when it is a
   step report, so the hypothesis `op_in_spec` of the refinement theorems excludes nothing that
   these entry points produce; (b) non-vacuity of `always_present`; (c) the exact exception class
   of every raising transition. *)
From Coq Require Import ZArith List Bool Lia ZifyBool.
From SP Require Import Base.Result Base.Bytes Model.SpacePacket Model.PusTm Model.Fields.
From SP Require Model.ReqId Model.Srv1.
From SP Require Import Model.Verificator Spec.VerificatorSpec Proofs.VerificatorBase Proofs.VerificatorProofs.
Import ListNotations.
Open Scope Z_scope.

(* ================= (a) glue: the report the tracker reads off a Service1Tm ================= *)

(* pus_1_tm.tc_req_id as the tracker's key object (same three components) *)
Definition reqid_of (r : ReqId.reqid) : reqid :=
  {| r_ver := ReqId.rq_ver r; r_pid := ReqId.rq_pid r; r_psc := ReqId.rq_psc r |}.

(* add_tm reads tc_req_id, subservice and (for step reports) step_id.val *)
Definition report_of (s : Srv1.srv1) : report :=
  {| rep_id := reqid_of (Srv1.vp_req (Srv1.s1_vp s));
     rep_sub := Srv1.srv1_subservice s;
     rep_step := option_map pfe_val (Srv1.vp_step (Srv1.s1_vp s)) |}.

(* the dictionary key is the request id's as_u32 of C15 *)
Lemma reqid_of_key r : reqid_as_u32 (reqid_of r) = ReqId.reqid_as_u32 r.
Proof. reflexivity. Qed.

Definition has_step_if_step_report (s : Srv1.srv1) : Prop :=
  Srv1.srv1_subservice s = 5 \/ Srv1.srv1_subservice s = 6 -> Srv1.vp_step (Srv1.s1_vp s) <> None.

Lemma has_step_in_spec s : has_step_if_step_report s -> op_in_spec (AddTm (report_of s)).
Proof.
  unfold has_step_if_step_report, op_in_spec, report_of. cbn [rep_sub rep_step].
  intros H Hs. specialize (H Hs). destruct (Srv1.vp_step (Srv1.s1_vp s)); [discriminate|congruence].
Qed.

Lemma unpack_raw_tm_has_step s0 cfg s :
  Srv1.unpack_raw_tm s0 cfg = Ok s -> has_step_if_step_report s.
Proof.
  unfold Srv1.unpack_raw_tm. destruct (len _ <? 4); [discriminate|]. intros H.
  apply bind_ok in H as (rq & _ & H).
  set (s1 := Srv1.set_req s0 rq) in *.
  assert (Sub : forall x, Srv1.s1_tm x = Srv1.s1_tm s1 -> Srv1.srv1_subservice x = Srv1.srv1_subservice s1).
  { intros x E. unfold Srv1.srv1_subservice. rewrite E. reflexivity. }
  unfold has_step_if_step_report.
  destruct (Srv1.srv1_subservice s1 mod 2 =? 0) eqn:Par.
  - (* failure reports *)
    unfold Srv1.unpack_failure_verification in H.
    apply bind_ok in H as (el & _ & H). destruct (len _ <? el); [discriminate|].
    apply bind_ok in H as ([s2 idx] & E2 & H). apply bind_ok in H as (f & _ & H).
    injection H as <-. unfold Srv1.srv1_is_step_reply in E2.
    destruct ((Srv1.srv1_subservice s1 =? Srv1.SUB_STEP_FAIL) || (Srv1.srv1_subservice s1 =? Srv1.SUB_STEP_OK)) eqn:St.
    + apply bind_ok in E2 as (st & _ & E2). injection E2 as <- _.
      intros _. cbn. discriminate.
    + injection E2 as <- _. rewrite (Sub (Srv1.set_fn s1 f) eq_refl).
      unfold Srv1.SUB_STEP_FAIL, Srv1.SUB_STEP_OK in St. intros [E|E]; rewrite E in St; discriminate St.
  - (* success reports *)
    unfold Srv1.unpack_success_verification in H.
    destruct (Srv1.srv1_subservice s1 =? Srv1.SUB_STEP_OK) eqn:S5.
    + apply bind_ok in H as (st & _ & H). injection H as <-. intros _. cbn. discriminate.
    + destruct (negb _) eqn:N in H; [discriminate|]. injection H as <-.
      unfold Srv1.SUB_STEP_OK in S5. intros [E|E]; rewrite E in *; [discriminate S5|discriminate Par].
Qed.

(* Service1Tm.unpack *)
Theorem srv1_unpack_in_spec data cfg s :
  Srv1.srv1_unpack data cfg = Ok s -> op_in_spec (AddTm (report_of s)).
Proof.
  unfold Srv1.srv1_unpack. intros H. apply bind_ok in H as (t & _ & H).
  apply has_step_in_spec. eapply unpack_raw_tm_has_step. exact H.
Qed.

(* Service1Tm.from_tm *)
Theorem srv1_from_tm_in_spec t cfg s :
  Srv1.srv1_from_tm t cfg = Ok s -> op_in_spec (AddTm (report_of s)).
Proof. intros H. apply has_step_in_spec. eapply unpack_raw_tm_has_step. exact H. Qed.

(* the constructor with verification parameters (hence create_*_tm): InvalidVerifParams unless a
   step report carries a step id *)
Theorem srv1_new_in_spec apid k ts v sc ver ref dest s :
  Srv1.srv1_new apid k ts (Some v) sc ver ref dest = Ok s ->
  op_in_spec (AddTm (report_of s)).
Proof.
  unfold Srv1.srv1_new. intros H. apply bind_ok in H as (t & Et & H).
  apply bind_ok in H as ([] & Ev & H). apply bind_ok in H as (d & _ & H). injection H as <-.
  apply has_step_in_spec. unfold has_step_if_step_report. cbn [Srv1.s1_vp].
  assert (Sk : Srv1.srv1_subservice {| Srv1.s1_tm := tm_set_tm_data t d; Srv1.s1_vp := v |} = k).
  { unfold Srv1.srv1_subservice. cbn [Srv1.s1_tm]. unfold tm_new in Et.
    apply bind_ok in Et as (h & _ & Et). apply bind_ok in Et as (sec & Es & Et). injection Et as <-.
    unfold tm_set_tm_data. cbn [tm_sec]. unfold tmsec_new in Es.
    repeat (match type of Es with (if ?c then _ else _) = _ => destruct c; [discriminate Es|] end).
    injection Es as <-. reflexivity. }
  rewrite Sk. intros Hs. unfold Srv1.vp_verify, Srv1.SUB_STEP_FAIL, Srv1.SUB_STEP_OK in Ev.
  destruct (Srv1.vp_step v); [discriminate|]. exfalso.
  destruct Hs as [-> | ->]; cbn in Ev; destruct (Srv1.is_none (Srv1.vp_fn v)); discriminate Ev.
Qed.

Theorem srv1_create_in_spec k apid tc_hdr step fn ts s :
  Srv1.srv1_create k apid tc_hdr step fn ts = Ok s ->
  op_in_spec (AddTm (report_of s)).
Proof. unfold Srv1.srv1_create. apply srv1_new_in_spec. Qed.

(* the one way to obtain a step report WITHOUT a step id: the constructor called without
   verification parameters (Service1Tm(subservice=TM_STEP_SUCCESS) is accepted).  Such an object
   cannot be packed-and-decoded again, is outside `op_in_spec`, and add_tm raises AttributeError
   for it (the model's EAttribute), leaving the step field already set. *)
Lemma step_report_without_step_id :
  let h := {| ver := 0; ptype := 1; shf := 1; apid := 5; sflags := 3; scount := 7; dlen := 0 |} in
  exists s, Srv1.srv1_new 5 5 [] None 0 0 0 0 = Ok s /\
    ~ op_in_spec (AddTm (report_of s)) /\
    (do p <- Srv1.srv1_pack s; Srv1.srv1_unpack (fst p) {| Srv1.up_ts_len := 0; Srv1.up_step := 1; Srv1.up_err := 1 |})
      = Err ETooShort /\
    let r := {| rep_id := reqid_from_sp_header h; rep_sub := rep_sub (report_of s); rep_step := rep_step (report_of s) |} in
    snd (add_tm (fst (add_tc [] h)) r) = Err EAttribute /\
    map (fun e => step (snd e)) (fst (add_tm (fst (add_tc [] h)) r)) = [SUCCESS].
Proof.
  cbv zeta. eexists. split; [vm_compute; reflexivity|]. split.
  - unfold op_in_spec. cbn. intros H. apply H; [left; reflexivity|reflexivity].
  - split; [vm_compute; reflexivity|]. split; vm_compute; reflexivity.
Qed.

(* ================= (b) always_present: when it holds ================= *)

(* no removal of k in the history (no remove_entry for k, no remove_completed_entries at all):
   the entry is there after every call *)
Definition never_removes (k : Z) (o : vop) : Prop :=
  match o with
  | RemoveEntry r => reqid_as_u32 r <> k
  | RemoveCompleted => False
  | _ => True
  end.

Lemma present_vstep k d o : uniq d -> never_removes k o -> lookup k d <> None ->
  lookup k (fst (vstep d o)) <> None.
Proof.
  intros U N P. destruct o as [h|r|q|]; cbn [vstep never_removes] in *.
  - unfold add_tc. destruct (mem _ d); cbn [fst]; [assumption|].
    rewrite lookup_app. destruct (lookup k d); [discriminate|congruence].
  - destruct (add_tm d r) as [d' x] eqn:E. cbn [fst].
    pose proof (isolation d r) as I. rewrite E in I. cbn [fst] in I. destruct I as [K _].
    rewrite lookup_None_keys in *. rewrite K. assumption.
  - destruct (remove_entry d q) as [d' b] eqn:E. cbn [fst].
    destruct (remove_entry_exact d q U) as (_ & _ & O). rewrite E in O. cbn [fst] in O.
    rewrite O by congruence. assumption.
  - contradiction.
Qed.

Theorem always_present_no_removal k : forall ops d, uniq d -> Forall (never_removes k) ops ->
  lookup k d <> None -> always_present k d ops.
Proof.
  induction ops as [|o ops IH]; intros d U F P; [exact I|].
  inversion F as [|? ? N Fr]; subst. cbn [always_present].
  pose proof (present_vstep k d o U N P) as P1. split; [exact P1|].
  apply IH; [apply uniq_vstep; assumption|assumption|assumption].
Qed.

(* non-vacuity of C16_tracker_refines / C16_failed_step_sticky / C16_all_recvd_monotone: two
   telecommands interleaved; a failed step of the first, then a successful step, completion,
   a duplicate registration and reports for the second: every hypothesis holds and the failed
   step is still recorded at the end *)
Lemma refinement_hyps_example :
  let h1 := {| ver := 0; ptype := 1; shf := 1; apid := 5; sflags := 3; scount := 7; dlen := 0 |} in
  let h2 := {| ver := 0; ptype := 1; shf := 1; apid := 5; sflags := 3; scount := 8; dlen := 0 |} in
  let rp h sub st := AddTm {| rep_id := reqid_from_sp_header h; rep_sub := sub; rep_step := st |} in
  let d0 := vfinal [] [AddTc h1; AddTc h2; rp h1 1 None; rp h1 3 None; rp h1 6 (Some 2)] in
  let ops := [rp h2 1 None; rp h1 5 (Some 3); AddTc h1; rp h2 4 None; rp h1 7 None;
              RemoveEntry (reqid_from_sp_header h2)] in
  let k := key_of_hdr h1 in
  uniq d0 /\ Forall op_in_spec ops /\ Forall (never_removes k) ops /\ always_present k d0 ops /\
  (exists s, lookup k d0 = Some s /\ step s = FAILURE /\ recvd s = 1) /\
  (exists s', lookup k (vfinal d0 ops) = Some s' /\ step s' = FAILURE /\ steps s' = [2; 3] /\ recvd s' = 1) /\
  lookup (key_of_hdr h2) (vfinal d0 ops) = None.
Proof.
  cbv zeta.
  assert (U : uniq (vfinal [] [AddTc {| ver := 0; ptype := 1; shf := 1; apid := 5; sflags := 3; scount := 7; dlen := 0 |};
                               AddTc {| ver := 0; ptype := 1; shf := 1; apid := 5; sflags := 3; scount := 8; dlen := 0 |}])).
  { vm_compute. repeat split. }
  split; [vm_compute; repeat split|].
  split; [repeat (apply Forall_cons; [cbn; first [exact I | intros _; discriminate | intros [E|E]; discriminate E]|]); apply Forall_nil|].
  assert (N : Forall (never_removes (key_of_hdr {| ver := 0; ptype := 1; shf := 1; apid := 5; sflags := 3; scount := 7; dlen := 0 |}))
    [AddTm {| rep_id := reqid_from_sp_header {| ver := 0; ptype := 1; shf := 1; apid := 5; sflags := 3; scount := 8; dlen := 0 |}; rep_sub := 1; rep_step := None |};
     AddTm {| rep_id := reqid_from_sp_header {| ver := 0; ptype := 1; shf := 1; apid := 5; sflags := 3; scount := 7; dlen := 0 |}; rep_sub := 5; rep_step := Some 3 |};
     AddTc {| ver := 0; ptype := 1; shf := 1; apid := 5; sflags := 3; scount := 7; dlen := 0 |};
     AddTm {| rep_id := reqid_from_sp_header {| ver := 0; ptype := 1; shf := 1; apid := 5; sflags := 3; scount := 8; dlen := 0 |}; rep_sub := 4; rep_step := None |};
     AddTm {| rep_id := reqid_from_sp_header {| ver := 0; ptype := 1; shf := 1; apid := 5; sflags := 3; scount := 7; dlen := 0 |}; rep_sub := 7; rep_step := None |};
     RemoveEntry (reqid_from_sp_header {| ver := 0; ptype := 1; shf := 1; apid := 5; sflags := 3; scount := 8; dlen := 0 |})]).
  { repeat (apply Forall_cons; [cbn [never_removes]; first [exact I | vm_compute; discriminate]|]). apply Forall_nil. }
  split; [exact N|].
  split.
  - apply always_present_no_removal; [vm_compute; repeat split|exact N|vm_compute; discriminate].
  - split; [eexists; split; [vm_compute; reflexivity|split; reflexivity]|].
    split; [eexists; split; [vm_compute; reflexivity|repeat split; reflexivity]|vm_compute; reflexivity].
Qed.

(* ================= (c) the exception class of every raising transition ================= *)

(* a call raises only in add_tm for a REGISTERED telecommand, and then exactly:
   - ValueError when the subservice is outside 1..8, dictionary unchanged;
   - AttributeError when a step report (5 / 6) carries no step id (excluded by op_in_spec; not
     producible by unpack / from_tm / create_*_tm, see (a)); the status object has by then been
     mutated as far as the code got (the model's `fst (check_subservice r s)`).
   `abs_out` maps both to the specification's single error output; under `op_in_spec` only the
   first occurs (C16_add_tm_errors_documented). *)
Lemma classic_step r :
  (rep_sub r = 5 \/ rep_sub r = 6 -> rep_step r <> None) \/
  ((rep_sub r = 5 \/ rep_sub r = 6) /\ rep_step r = None).
Proof.
  destruct (rep_step r) as [v|]; [left; intros _; discriminate|].
  destruct (Z.eq_dec (rep_sub r) 5) as [E|N5]; [right; split; [left; exact E|reflexivity]|].
  destruct (Z.eq_dec (rep_sub r) 6) as [E|N6]; [right; split; [right; exact E|reflexivity]|].
  left. intros [E|E]; contradiction.
Qed.

Theorem vstep_raise_class d o e :
  snd (vstep d o) = ORaise e ->
  exists r s, o = AddTm r /\ lookup (reqid_as_u32 (rep_id r)) d = Some s /\
    ((e = EValue /\ ~ (1 <= rep_sub r <= 8) /\ fst (vstep d o) = d) \/
     (e = EAttribute /\ (rep_sub r = 5 \/ rep_sub r = 6) /\ rep_step r = None /\
      fst (vstep d o) = replace (reqid_as_u32 (rep_id r)) (fst (check_subservice r s)) d)).
Proof.
  destruct o as [h|r|q|]; cbn [vstep].
  - destruct (add_tc d h). discriminate.
  - unfold add_tm. destruct (lookup _ d) as [s|] eqn:L; cbn [snd fst]; [|discriminate].
    destruct ((rep_sub r <=? 0) || (rep_sub r >? 8)) eqn:G; cbn [fst snd].
    + intros H. injection H as <-. exists r, s. split; [reflexivity|]. split; [exact L|].
      left. repeat split. lia.
    + destruct (classic_step r) as [Hs|Hs].
      * destruct (check_subservice_table r s ltac:(lia) Hs) as (s' & c & C & _). rewrite C. cbn [snd]. discriminate.
      * destruct Hs as (Hsub & Hnone).
        destruct (check_subservice r s) as [s' [c|e']] eqn:C; cbn [fst snd]; [discriminate|].
        intros H. injection H as <-. exists r, s. split; [reflexivity|]. split; [exact L|].
        right. split; [|split; [exact Hsub|split; [exact Hnone|rewrite C; reflexivity]]].
        unfold check_subservice, step_val in C. rewrite Hnone in C.
        destruct Hsub as [E5|E6]; rewrite ?E5, ?E6 in C; cbn in C; injection C as _ <-; reflexivity.
  - destruct (remove_entry d q). discriminate.
  - discriminate.
Qed.
