From Coq Require Import ZArith List Bool Lia ZifyBool.
From SP Require Import Base.Result Base.Bytes Base.BytesFacts Model.SpacePacket Model.Parser Spec.ParserSpec.
Import ListNotations.
Open Scope Z_scope.

(* D-C13-1 on the faithful model of the unrepaired code: a 7-octet packet cut after octet 3. *)
Lemma parse_split_refuted :
  exists raws a b p1 q1 p2 q2,
    parse_buf raws a = Ok (p1, q1) /\ parse_buf raws (concat q1 ++ b) = Ok (p2, q2) /\
    parse_buf raws (a ++ b) <> Ok (p1 ++ p2, q2).
Proof.
  exists [2051], [8; 3; 192], [0; 0; 0; 85], [], [], [], [].
  vm_compute. repeat split; congruence.
Qed.

(* a complete packet followed by 6 octets of the next one: the 6 octets are dropped *)
Lemma parse_tail_dropped_refuted :
  exists raws buf, parse_buf raws buf = Ok ([firstn 7 buf], []) /\ length buf = 13%nat.
Proof.
  exists [2051], [8; 3; 192; 0; 0; 0; 85; 8; 3; 192; 1; 0; 0]. vm_compute. split; reflexivity.
Qed.
