(* C13: the stream parser.  Part A: facts about Spec.spec_stream (suffix form);
   Part B: the model (index/slice form, fuel) computes spec_stream; Part C: the
   theorems transported to the model; Part D: witness for the unrepaired code. *)
From Coq Require Import ZArith List Bool Lia ZifyBool.
From SP Require Import Base.Result Base.Bytes Base.BytesFacts Model.SpacePacket Model.Parser Spec.ParserSpec.
Import ListNotations.
Open Scope Z_scope.

(* ================= Part A: spec_stream ================= *)

Lemma sscan_short f raws s : (length s <= 6)%nat -> sscan f raws s = ([], s).
Proof.
  intros H. destruct f; [reflexivity|].
  do 7 (destruct s as [|? s]; [reflexivity|]). cbn [length] in H. lia.
Qed.

(* the declared total length of a packet starting with header octets b4 b5 *)
Definition plen (b4 b5 : Z) : nat := Z.to_nat (b4 * 256 + b5 + 7).

Lemma sscan_step f raws b0 b1 b2 b3 b4 b5 b6 r :
  sscan (S f) raws (b0 :: b1 :: b2 :: b3 :: b4 :: b5 :: b6 :: r) =
  let s := b0 :: b1 :: b2 :: b3 :: b4 :: b5 :: b6 :: r in
  if registered raws b0 b1 then
    if (plen b4 b5 <=? length s)%nat then
      let '(p, rm) := sscan f raws (skipn (plen b4 b5) s) in (firstn (plen b4 b5) s :: p, rm)
    else ([], s)
  else sscan f raws (tl s).
Proof. reflexivity. Qed.

Lemma sscan_fuel raws : forall f1 f2 s, (length s <= f1)%nat -> (length s <= f2)%nat ->
  wf_bytes s -> sscan f1 raws s = sscan f2 raws s.
Proof.
  induction f1 as [|f1 IH]; intros f2 s H1 H2 W.
  - destruct s; [|cbn [length] in H1; lia]. destruct f2; reflexivity.
  - destruct (Nat.le_gt_cases (length s) 6) as [Hs|Hs].
    + rewrite !sscan_short by assumption. reflexivity.
    + destruct f2 as [|f2]; [lia|].
      do 7 (destruct s as [|? s]; [cbn [length] in Hs; lia|]).
      rewrite !sscan_step. cbv zeta.
      destruct (registered raws z z0).
      * destruct (Nat.leb_spec (plen z3 z4) (length (z :: z0 :: z1 :: z2 :: z3 :: z4 :: z5 :: s))) as [Hn|Hn]; [|reflexivity].
        assert (Hp : (7 <= plen z3 z4)%nat).
        { unfold plen. unfold wf_bytes in W.
          assert (0 <= z3 < 256 /\ 0 <= z4 < 256) as [? ?].
          { repeat match goal with H : Forall _ (_ :: _) |- _ => inversion H; clear H; subst end. lia. }
          lia. }
        rewrite (IH f2); [reflexivity| | |].
        -- rewrite skipn_length. cbn [length] in *. lia.
        -- rewrite skipn_length. cbn [length] in *. lia.
        -- apply wf_bytes_skipn. assumption.
      * cbn [tl]. apply IH; cbn [length] in *; try lia.
        unfold wf_bytes in *. inversion W; assumption.
Qed.

Lemma hdr_bytes b0 b1 b2 b3 b4 b5 (r : bytes) :
  wf_bytes (b0 :: b1 :: b2 :: b3 :: b4 :: b5 :: r) -> 0 <= b4 < 256 /\ 0 <= b5 < 256.
Proof.
  unfold wf_bytes. intros W.
  repeat match goal with H : Forall _ (_ :: _) |- _ => inversion H; clear H; subst end. lia.
Qed.

Lemma plen_ge7 b0 b1 b2 b3 b4 b5 (r : bytes) :
  wf_bytes (b0 :: b1 :: b2 :: b3 :: b4 :: b5 :: r) -> (7 <= plen b4 b5)%nat.
Proof. intros W. apply hdr_bytes in W. unfold plen. lia. Qed.

(* the unfolding equation of spec_stream, fuel hidden *)
Definition hd_registered (raws : list Z) (s : bytes) : bool := registered raws (nth 0 s 0) (nth 1 s 0).
Definition hd_plen (s : bytes) : nat := plen (nth 4 s 0) (nth 5 s 0).

Lemma spec_stream_eq raws s : wf_bytes s ->
  spec_stream raws s =
  if (length s <=? 6)%nat then ([], s)
  else if hd_registered raws s then
    if (hd_plen s <=? length s)%nat then
      let '(p, rm) := spec_stream raws (skipn (hd_plen s) s) in (firstn (hd_plen s) s :: p, rm)
    else ([], s)
  else spec_stream raws (tl s).
Proof.
  intros W. destruct (Nat.leb_spec (length s) 6) as [Hs|Hs].
  - apply sscan_short. assumption.
  - do 7 (destruct s as [|? s]; [cbn [length] in Hs; lia|]).
    unfold spec_stream at 1, hd_registered, hd_plen. cbn [nth].
    change (length (z :: z0 :: z1 :: z2 :: z3 :: z4 :: z5 :: s)) with (S (length (z0 :: z1 :: z2 :: z3 :: z4 :: z5 :: s))) at 1.
    rewrite sscan_step. cbv zeta.
    destruct (registered raws z z0).
    + destruct (Nat.leb_spec (plen z3 z4) (length (z :: z0 :: z1 :: z2 :: z3 :: z4 :: z5 :: s))) as [Hn|Hn]; [|reflexivity].
      pose proof (plen_ge7 _ _ _ _ _ _ _ W) as Hp.
      unfold spec_stream.
      rewrite (sscan_fuel raws _ (length (skipn (plen z3 z4) (z :: z0 :: z1 :: z2 :: z3 :: z4 :: z5 :: s)))); [reflexivity| | |].
      * rewrite skipn_length. cbn [length] in *. lia.
      * lia.
      * apply wf_bytes_skipn. assumption.
    + cbn [tl]. unfold spec_stream. apply sscan_fuel; cbn [length]; try lia.
      unfold wf_bytes in *. inversion W; assumption.
Qed.

Lemma hd_plen_ge7 s : wf_bytes s -> (7 <= length s)%nat -> (7 <= hd_plen s)%nat.
Proof.
  intros W H. do 7 (destruct s as [|? s]; [cbn [length] in H; lia|]).
  unfold hd_plen. cbn [nth]. eapply plen_ge7. eassumption.
Qed.

Lemma wf_bytes_tl s : wf_bytes s -> wf_bytes (tl s).
Proof. destruct s; [trivial|]. unfold wf_bytes. intros W; inversion W; assumption. Qed.

Lemma spec_stream_short raws s : (length s <= 6)%nat -> spec_stream raws s = ([], s).
Proof. apply sscan_short. Qed.

Lemma length_tl {A} (s : list A) : length (tl s) = (length s - 1)%nat.
Proof. destruct s; cbn; lia. Qed.

Lemma skipn_skipn' {A} : forall a b (l : list A), skipn a (skipn b l) = skipn (b + a) l.
Proof.
  intros a b. induction b as [|b IH]; intros l; [reflexivity|].
  destruct l; [rewrite !skipn_nil; reflexivity|]. cbn [skipn Nat.add]. apply IH.
Qed.

(* the remainder is a suffix of the input *)
Lemma spec_stream_suffix raws : forall n s, (length s <= n)%nat -> wf_bytes s ->
  exists k, snd (spec_stream raws s) = skipn k s.
Proof.
  induction n as [|n IH]; intros s Hn W.
  - exists 0%nat. rewrite spec_stream_short by lia. reflexivity.
  - rewrite spec_stream_eq by assumption.
    destruct (Nat.leb_spec (length s) 6) as [Hs|Hs]; [exists 0%nat; reflexivity|].
    destruct (hd_registered raws s).
    + destruct (Nat.leb_spec (hd_plen s) (length s)) as [Hl|Hl]; [|exists 0%nat; reflexivity].
      pose proof (hd_plen_ge7 s W ltac:(lia)) as Hp.
      destruct (IH (skipn (hd_plen s) s)) as [k Hk].
      * rewrite skipn_length. lia.
      * apply wf_bytes_skipn. assumption.
      * exists (hd_plen s + k)%nat.
        destruct (spec_stream raws (skipn (hd_plen s) s)) as [p rm]. cbn [snd] in *.
        rewrite Hk, skipn_skipn'. reflexivity.
    + destruct (IH (tl s)) as [k Hk].
      * rewrite length_tl. lia.
      * apply wf_bytes_tl. assumption.
      * exists (S k). rewrite Hk. destruct s; [cbn [length] in Hs; lia|]. reflexivity.
Qed.

Lemma spec_stream_rem_wf raws s : wf_bytes s -> wf_bytes (snd (spec_stream raws s)).
Proof.
  intros W. destruct (spec_stream_suffix raws (length s) s (le_n _) W) as [k ->].
  apply wf_bytes_skipn. assumption.
Qed.

Lemma hd_registered_app raws a b : (2 <= length a)%nat -> hd_registered raws (a ++ b) = hd_registered raws a.
Proof. intros H. unfold hd_registered. rewrite !app_nth1 by lia. reflexivity. Qed.
Lemma hd_plen_app a b : (6 <= length a)%nat -> hd_plen (a ++ b) = hd_plen a.
Proof. intros H. unfold hd_plen. rewrite !app_nth1 by lia. reflexivity. Qed.

(* ---- parse_split on the spec ---- *)
Lemma spec_split raws : forall n a b, (length a <= n)%nat -> wf_bytes a -> wf_bytes b ->
  spec_stream raws (a ++ b) =
  let '(p1, r1) := spec_stream raws a in
  let '(p2, r2) := spec_stream raws (r1 ++ b) in (p1 ++ p2, r2).
Proof.
  induction n as [|n IH]; intros a b Hn Wa Wb.
  - destruct a; [|cbn [length] in Hn; lia]. rewrite (spec_stream_short raws []) by (cbn [length]; lia).
    cbn [app]. destruct (spec_stream raws b); reflexivity.
  - destruct (Nat.le_gt_cases (length a) 6) as [Hs|Hs].
    + rewrite (spec_stream_short raws a) by assumption.
      destruct (spec_stream raws (a ++ b)); reflexivity.
    + assert (Wab : wf_bytes (a ++ b)) by (apply wf_bytes_app; split; assumption).
      rewrite (spec_stream_eq raws a) by assumption.
      destruct (Nat.leb_spec (length a) 6) as [?|_]; [lia|].
      destruct (hd_registered raws a) eqn:R.
      * pose proof (hd_plen_ge7 a Wa ltac:(lia)) as Hp.
        destruct (Nat.leb_spec (hd_plen a) (length a)) as [Hl|Hl].
        -- rewrite (spec_stream_eq raws (a ++ b)) by assumption.
           rewrite hd_registered_app, hd_plen_app, R by lia.
           destruct (Nat.leb_spec (length (a ++ b)) 6) as [H6|_]; [rewrite app_length in H6; lia|].
           assert ((hd_plen a <=? length (a ++ b))%nat = true) as ->.
           { apply Nat.leb_le. rewrite app_length. lia. }
           rewrite skipn_app, firstn_app.
           replace (hd_plen a - length a)%nat with 0%nat by lia.
           cbn [skipn firstn]. rewrite app_nil_r.
           rewrite (IH (skipn (hd_plen a) a) b).
           ++ destruct (spec_stream raws (skipn (hd_plen a) a)) as [p1 r1].
              destruct (spec_stream raws (r1 ++ b)) as [p2 r2]. reflexivity.
           ++ rewrite skipn_length. lia.
           ++ apply wf_bytes_skipn. assumption.
           ++ assumption.
        -- (* incomplete in a: everything from here on is the remainder *)
           destruct (spec_stream raws (a ++ b)); reflexivity.
      * rewrite (spec_stream_eq raws (a ++ b)) by assumption.
        rewrite hd_registered_app, R by lia.
        destruct (Nat.leb_spec (length (a ++ b)) 6) as [H6|_]; [rewrite app_length in H6; lia|].
        replace (tl (a ++ b)) with (tl a ++ b) by (destruct a; [cbn [length] in Hs; lia|reflexivity]).
        apply IH.
        -- rewrite length_tl. lia.
        -- apply wf_bytes_tl. assumption.
        -- assumption.
Qed.

Lemma spec_split' raws a b : wf_bytes a -> wf_bytes b ->
  spec_stream raws (a ++ b) =
  let '(p1, r1) := spec_stream raws a in
  let '(p2, r2) := spec_stream raws (r1 ++ b) in (p1 ++ p2, r2).
Proof. apply (spec_split raws (length a)). lia. Qed.

(* a parse of a remainder returns nothing and keeps it *)
Lemma spec_idem raws s : wf_bytes s ->
  spec_stream raws (snd (spec_stream raws s)) = ([], snd (spec_stream raws s)).
Proof.
  intros W. pose proof (spec_split' raws s [] W (Forall_nil _)) as H.
  rewrite !app_nil_r in H.
  destruct (spec_stream raws s) as [p1 r1] eqn:E1. cbn [snd].
  rewrite app_nil_r in H.
  destruct (spec_stream raws r1) as [p2 r2] eqn:E2.
  inversion H as [[Hp Hr]].
  assert (p2 = []) as ->.
  { apply (f_equal (@length _)) in Hp. rewrite app_length in Hp. destruct p2; [reflexivity|cbn [length] in Hp; lia]. }
  reflexivity.
Qed.

(* ---- complete streams ---- *)
Lemma spec_stream_packet raws p rest : wf_packet raws p -> wf_bytes rest ->
  spec_stream raws (p ++ rest) = let '(ps, r) := spec_stream raws rest in (p :: ps, r).
Proof.
  intros [Wp (b0 & b1 & b2 & b3 & b4 & b5 & d & -> & R & L)] Wr.
  pose proof (hdr_bytes _ _ _ _ _ _ _ Wp) as Hb.
  assert (Wpr : wf_bytes ((b0 :: b1 :: b2 :: b3 :: b4 :: b5 :: d) ++ rest)) by (apply wf_bytes_app; split; assumption).
  rewrite spec_stream_eq by assumption.
  assert (Hlen : hd_plen ((b0 :: b1 :: b2 :: b3 :: b4 :: b5 :: d) ++ rest) = length (b0 :: b1 :: b2 :: b3 :: b4 :: b5 :: d)).
  { unfold hd_plen, plen. cbn [app nth length]. unfold len in L. lia. }
  assert (Hd : (1 <= length d)%nat) by (unfold len in L; lia).
  destruct (Nat.leb_spec (length ((b0 :: b1 :: b2 :: b3 :: b4 :: b5 :: d) ++ rest)) 6) as [H6|_].
  { rewrite app_length in H6. cbn [length] in H6. lia. }
  assert (hd_registered raws ((b0 :: b1 :: b2 :: b3 :: b4 :: b5 :: d) ++ rest) = true) as -> by exact R.
  rewrite Hlen.
  assert ((length (b0 :: b1 :: b2 :: b3 :: b4 :: b5 :: d) <=? length ((b0 :: b1 :: b2 :: b3 :: b4 :: b5 :: d) ++ rest))%nat = true) as ->.
  { apply Nat.leb_le. rewrite app_length. lia. }
  rewrite skipn_app_exact, firstn_app_exact by reflexivity. reflexivity.
Qed.

Lemma spec_stream_complete raws ps : Forall (wf_packet raws) ps -> spec_stream raws (concat ps) = (ps, []).
Proof.
  induction ps as [|p ps IH]; intros H; [reflexivity|].
  inversion H as [|? ? Hp Hps]; subst. cbn [concat].
  rewrite spec_stream_packet; [rewrite IH by assumption; reflexivity|assumption|].
  clear -Hps. induction Hps as [|q qs [Wq _] _ IHq]; [constructor|].
  cbn [concat]. apply wf_bytes_app. split; assumption.
Qed.

(* ---- junk ---- *)
Lemma junk_skipped raws : forall j s, wf_bytes (j ++ s) -> junk_ok raws j s ->
  fst (spec_stream raws (j ++ s)) = fst (spec_stream raws s) /\
  ((7 <= length s)%nat -> spec_stream raws (j ++ s) = spec_stream raws s).
Proof.
  induction j as [|b0 j IH]; intros s W J; [split; reflexivity|].
  cbn [junk_ok] in J. destruct J as [J0 J].
  assert (W' : wf_bytes (j ++ s)) by (apply (wf_bytes_tl _ W)).
  destruct (IH s W' J) as [IH1 IH2].
  rewrite spec_stream_eq by assumption.
  destruct (Nat.leb_spec (length ((b0 :: j) ++ s)) 6) as [H6|H6].
  - split.
    + cbn [fst]. rewrite spec_stream_short; [reflexivity|].
      rewrite app_length in H6. lia.
    + intros H7. rewrite app_length in H6. lia.
  - assert (hd_registered raws ((b0 :: j) ++ s) = false) as ->.
    { unfold hd_registered. cbn [app nth]. destruct (j ++ s) as [|b1 r] eqn:E.
      - cbn [app length] in H6. rewrite E in H6. cbn [length] in H6. lia.
      - exact J0. }
    cbn [app tl]. split; assumption.
Qed.

Lemma junk_ok_head raws : forall j x s1 s2, junk_ok raws j (x :: s1) -> junk_ok raws j (x :: s2).
Proof.
  induction j as [|b0 j IH]; intros x s1 s2 H; [exact I|].
  cbn [junk_ok] in *. destruct H as [H0 H]. split; [|eapply IH; eassumption].
  destruct j; cbn [app] in *; assumption.
Qed.

(* a stream of packets, each preceded by junk, followed by trailing junk *)
Fixpoint junk_stream (segs : list (bytes * bytes)) (trail : bytes) : bytes :=
  match segs with
  | [] => trail
  | (j, p) :: r => j ++ p ++ junk_stream r trail
  end.

Lemma junk_stream_wf segs trail :
  Forall (fun jp => wf_bytes (fst jp) /\ wf_bytes (snd jp)) segs -> wf_bytes trail ->
  wf_bytes (junk_stream segs trail).
Proof.
  induction 1 as [|[j p] r [Wj Wp] _ IH]; intros Wt; [assumption|].
  cbn [junk_stream]. apply wf_bytes_app; split; [assumption|].
  apply wf_bytes_app; split; [assumption|auto].
Qed.

Lemma spec_stream_junk raws segs trail :
  Forall (fun jp => wf_bytes (fst jp) /\ wf_packet raws (snd jp) /\ junk_ok raws (fst jp) (snd jp)) segs ->
  wf_bytes trail -> junk_ok raws trail [] ->
  fst (spec_stream raws (junk_stream segs trail)) = map snd segs.
Proof.
  induction 1 as [|[j p] r (Wj & Wp & Jp) Hr IH]; intros Wt Jt.
  - cbn [junk_stream map].
    destruct (junk_skipped raws trail [] ltac:(rewrite app_nil_r; assumption) Jt) as [H _].
    rewrite app_nil_r in H. rewrite H. reflexivity.
  - cbn [junk_stream map fst snd] in *.
    assert (Wrest : wf_bytes (junk_stream r trail)).
    { apply junk_stream_wf; [|assumption].
      eapply Forall_impl; [|exact Hr]. intros [j' p'] (? & [? _] & _). split; assumption. }
    destruct Wp as [Wpb Hex]. pose proof Hex as (b0 & b1 & b2 & b3 & b4 & b5 & d & Ep & _).
    assert (J' : junk_ok raws j (p ++ junk_stream r trail)).
    { rewrite Ep in *. rewrite <- app_comm_cons. eapply junk_ok_head. exact Jp. }
    destruct (junk_skipped raws j (p ++ junk_stream r trail)) as [H _]; [|exact J'|].
    { apply wf_bytes_app; split; [assumption|]. apply wf_bytes_app; split; assumption. }
    rewrite H, spec_stream_packet by (try split; assumption).
    specialize (IH Wt Jt). destruct (spec_stream raws (junk_stream r trail)). cbn [fst] in *.
    rewrite IH. reflexivity.
Qed.

(* ================= Part B: the model computes spec_stream ================= *)

Definition to_queue (r : bytes) : queue := match r with [] => [] | _ => [r] end.

Lemma concat_to_queue r : concat (to_queue r) = r.
Proof. destruct r; [reflexivity|]. cbn [to_queue concat]. apply app_nil_r. Qed.

Lemma id_in_registered raws b0 b1 :
  id_in (Z.land (b0 * 256 + b1) PACKET_ID_MASK) raws = registered raws b0 b1.
Proof.
  unfold id_in, registered, PACKET_ID_MASK.
  change 8191 with (2 ^ 13 - 1). rewrite land_ones_mod by lia. reflexivity.
Qed.

Lemma skipn_nth_cons : forall (s : bytes) k, (k < length s)%nat ->
  skipn k s = nth k s 0 :: skipn (S k) s.
Proof.
  induction s as [|x s IH]; intros k H; [cbn [length] in H; lia|].
  destruct k; [reflexivity|]. cbn [skipn nth]. rewrite IH by (cbn [length] in H; lia). reflexivity.
Qed.

(* buf[idx+i : idx+i+2] in terms of the suffix s = buf[idx:] *)
Lemma slice_pair (buf : bytes) idx i :
  0 <= idx -> 0 <= i -> idx + i + 2 <= len buf ->
  slice buf (idx + i) (idx + i + 2) =
  [nth (Z.to_nat i) (skipn (Z.to_nat idx) buf) 0; nth (S (Z.to_nat i)) (skipn (Z.to_nat idx) buf) 0].
Proof.
  intros Hi Hj Hl. unfold slice, len in *.
  replace (Z.to_nat (idx + i + 2 - (idx + i))) with 2%nat by lia.
  replace (Z.to_nat (idx + i)) with (Z.to_nat idx + Z.to_nat i)%nat by lia.
  rewrite <- skipn_skipn'.
  set (s := skipn (Z.to_nat idx) buf).
  assert (Hs : (Z.to_nat i + 2 <= length s)%nat) by (subst s; rewrite skipn_length; lia).
  rewrite (skipn_nth_cons s (Z.to_nat i)) by lia.
  rewrite (skipn_nth_cons s (S (Z.to_nat i))) by lia.
  reflexivity.
Qed.

Lemma struct_unpack_pair a b : struct_unpack 2 [a; b] = Ok (a * 256 + b).
Proof. unfold struct_unpack. cbn. f_equal. lia. Qed.

Lemma nth_wf (s : bytes) k : wf_bytes s -> (k < length s)%nat -> 0 <= nth k s 0 < 256.
Proof.
  intros W H. unfold wf_bytes in W. rewrite Forall_forall in W. apply W. apply nth_In. assumption.
Qed.

Lemma scan_refines raws buf : wf_bytes buf ->
  forall fuel idx tm, 0 <= idx <= len buf ->
  (length buf - Z.to_nat idx < fuel)%nat ->
  scan fuel raws buf [] idx tm =
  let '(p, r) := spec_stream raws (skipn (Z.to_nat idx) buf) in Ok (tm ++ p, to_queue r).
Proof.
  intros W. induction fuel as [|f IH]; intros idx tm Hi Hf; [lia|].
  set (s := skipn (Z.to_nat idx) buf).
  assert (Ws : wf_bytes s) by (apply wf_bytes_skipn; assumption).
  assert (Ls : Z.of_nat (length s) = len buf - idx).
  { subst s. rewrite skipn_length. unfold len in *. lia. }
  cbn [scan]. unfold CCSDS_HEADER_LEN.
  rewrite (spec_stream_eq raws s) by assumption.
  destruct (Z.geb_spec (idx + 6) (len buf)) as [Hbrk|Hgo].
  - destruct (Nat.leb_spec (length s) 6) as [_|?]; [|lia].
    destruct (Z.ltb_spec idx (len buf)) as [Hlt|Hge].
    + rewrite app_nil_r. unfold slice_from. fold s.
      destruct s; [cbn [length] in Ls; lia|reflexivity].
    + rewrite app_nil_r. destruct s; [reflexivity|cbn [length] in Ls; lia].
  - destruct (Nat.leb_spec (length s) 6) as [?|Hs7]; [lia|].
    pose proof (slice_pair buf idx 0 ltac:(lia) ltac:(lia) ltac:(lia)) as S0.
    rewrite Z.add_0_r in S0. rewrite S0. fold s. rewrite struct_unpack_pair.
    cbn [bind]. cbv zeta. change (Z.to_nat 0) with 0%nat.
    rewrite id_in_registered. fold (hd_registered raws s).
    destruct (hd_registered raws s).
    + unfold handle_packet_id_match.
      pose proof (slice_pair buf idx 4 ltac:(lia) ltac:(lia) ltac:(lia)) as S4.
      replace (idx + 4 + 2) with (idx + 6) in S4 by lia. rewrite S4. fold s.
      rewrite struct_unpack_pair. cbn [bind]. cbv zeta.
      change (Z.to_nat 4) with 4%nat.
      unfold get_total_space_packet_len_from_len_field.
      pose proof (nth_wf s 4 Ws ltac:(lia)) as B4. pose proof (nth_wf s 5 Ws ltac:(lia)) as B5.
      assert (Hpl : Z.of_nat (hd_plen s) = nth 4 s 0 * 256 + nth 5 s 0 + 6 + 1).
      { unfold hd_plen, plen. lia. }
      destruct (Z.gtb_spec (idx + (nth 4 s 0 * 256 + nth 5 s 0 + 6 + 1)) (len buf)) as [Hinc|Hcmp].
      * destruct (Nat.leb_spec (hd_plen s) (length s)) as [?|_]; [lia|].
        cbn [bind negb Z.eqb]. rewrite app_nil_r. unfold slice_from. fold s.
        destruct s; [cbn [length] in Hs7; lia|reflexivity].
      * destruct (Nat.leb_spec (hd_plen s) (length s)) as [Hle|?]; [|lia].
        cbn [bind negb Z.eqb].
        rewrite IH by (unfold len in *; lia).
        replace (Z.to_nat (idx + (nth 4 s 0 * 256 + nth 5 s 0 + 6 + 1))) with (Z.to_nat idx + hd_plen s)%nat by lia.
        rewrite <- skipn_skipn'. fold s.
        replace (slice buf idx (idx + (nth 4 s 0 * 256 + nth 5 s 0 + 6 + 1))) with (firstn (hd_plen s) s).
        2:{ unfold slice. fold s. f_equal. lia. }
        destruct (spec_stream raws (skipn (hd_plen s) s)) as [p r].
        rewrite <- app_assoc. reflexivity.
    + rewrite IH by (unfold len in *; lia).
      replace (Z.to_nat (idx + 1)) with (Z.to_nat idx + 1)%nat by lia.
      rewrite <- skipn_skipn'. fold s.
      replace (skipn 1 s) with (tl s) by (destruct s; reflexivity).
      reflexivity.
Qed.

Theorem parse_buf_spec raws buf : wf_bytes buf ->
  parse_buf raws buf = let '(p, r) := spec_stream raws buf in Ok (p, to_queue r).
Proof.
  intros W. unfold parse_buf.
  destruct (Z.ltb_spec (len buf) 6) as [H6|H6].
  - rewrite spec_stream_short by (unfold len in H6; lia).
    destruct (Z.gtb_spec (len buf) 0) as [H0|H0]; destruct buf; cbn [len length to_queue] in *;
      try reflexivity; unfold len in *; cbn [length] in *; lia.
  - rewrite scan_refines; try assumption.
    + cbn [Z.to_nat skipn app]. reflexivity.
    + pose proof (len_nonneg buf). lia.
    + cbn [Z.to_nat]. lia.
Qed.

(* ================= Part C: theorems about the model ================= *)

(* the fuel supplied (length buf + 1) is never exhausted, and no slice / struct error occurs *)
Theorem scan_fuel_ok raws buf idx tm : wf_bytes buf -> 0 <= idx <= len buf ->
  exists p q, scan (S (length buf)) raws buf [] idx tm = Ok (p, q).
Proof.
  intros W Hi. rewrite scan_refines by (try assumption; lia).
  destruct (spec_stream raws _) as [p r]. eauto.
Qed.

Theorem parse_buf_total raws buf : wf_bytes buf -> exists p q, parse_buf raws buf = Ok (p, q).
Proof.
  intros W. rewrite parse_buf_spec by assumption. destruct (spec_stream raws buf). eauto.
Qed.

Lemma parse_buf_queue_wf raws buf p q : wf_bytes buf -> parse_buf raws buf = Ok (p, q) -> Forall wf_bytes q.
Proof.
  intros W. rewrite parse_buf_spec by assumption.
  pose proof (spec_stream_rem_wf raws buf W) as Wr.
  destruct (spec_stream raws buf) as [p' r]. cbn [snd] in Wr. intros E. inversion E; subst.
  destruct r; constructor; [assumption|constructor].
Qed.

Lemma wf_concat (q : queue) : Forall wf_bytes q -> wf_bytes (concat q).
Proof.
  induction 1 as [|x q Hx _ IH]; [constructor|]. cbn [concat]. apply wf_bytes_app. split; assumption.
Qed.

Theorem parse_split raws a b : wf_bytes a -> wf_bytes b ->
  parse_buf raws (a ++ b) =
  (do (p1, q1) <- parse_buf raws a;
   do (p2, q2) <- parse_buf raws (concat q1 ++ b);
   Ok (p1 ++ p2, q2)).
Proof.
  intros Wa Wb.
  rewrite (parse_buf_spec raws (a ++ b)) by (apply wf_bytes_app; split; assumption).
  rewrite (parse_buf_spec raws a) by assumption.
  rewrite spec_split' by assumption.
  pose proof (spec_stream_rem_wf raws a Wa) as Wr.
  destruct (spec_stream raws a) as [p1 r1]. cbn [snd] in Wr. cbn [bind].
  rewrite concat_to_queue.
  rewrite (parse_buf_spec raws (r1 ++ b)) by (apply wf_bytes_app; split; assumption).
  destruct (spec_stream raws (r1 ++ b)) as [p2 r2]. reflexivity.
Qed.

(* parsing what a parse left behind returns nothing and leaves it as it is *)
Theorem parse_idem raws buf p q : wf_bytes buf ->
  parse_buf raws buf = Ok (p, q) -> parse_buf raws (concat q) = Ok ([], q).
Proof.
  intros W. rewrite parse_buf_spec by assumption.
  pose proof (spec_idem raws buf W) as I. pose proof (spec_stream_rem_wf raws buf W) as Wr.
  destruct (spec_stream raws buf) as [p' r]. cbn [snd] in *. intros E. inversion E; subst.
  rewrite concat_to_queue, parse_buf_spec, I by assumption. reflexivity.
Qed.

Lemma parse_space_packets_buf q ids : parse_space_packets q ids = parse_buf (ids_raw ids) (concat q).
Proof. destruct q; reflexivity. Qed.

(* ---- histories ---- *)
Definition appended (ops : list pop) : bytes :=
  concat (map (fun o => match o with Append c => c | Parse _ => [] end) ops).

Definition op_ok (raws : list Z) (o : pop) : Prop :=
  match o with Append c => wf_bytes c | Parse ids => ids_raw ids = raws end.

Lemma last_cons {A} (l : list A) : forall x d, last (x :: l) d = last l x.
Proof.
  induction l as [|y l IH]; intros x d; [reflexivity|].
  change (last (x :: y :: l) d) with (last (y :: l) d). rewrite !IH. reflexivity.
Qed.

Theorem parse_chunked raws : forall ops q0, Forall wf_bytes q0 -> Forall (op_ok raws) ops ->
  exists obs, run_ops q0 ops = Ok obs /\
    let outs := concat (map fst obs) in
    let qf := last (map snd obs) q0 in
    Forall wf_bytes qf /\
    parse_buf raws (concat q0 ++ appended ops) =
    (do (p, q) <- parse_buf raws (concat qf); Ok (outs ++ p, q)).
Proof.
  induction ops as [|o ops IH]; intros q0 W0 Hops.
  - exists []. split; [reflexivity|]. cbn [map concat last appended]. rewrite app_nil_r.
    split; [assumption|]. destruct (parse_buf_total raws (concat q0) (wf_concat _ W0)) as (p & q & ->).
    reflexivity.
  - inversion Hops as [|? ? Ho Hr]; subst. cbn [run_ops].
    destruct o as [c|ids]; cbn [op_ok] in Ho.
    + cbn [step bind].
      assert (W1 : Forall wf_bytes (q0 ++ [c])).
      { apply Forall_app. split; [assumption|]. constructor; [assumption|constructor]. }
      destruct (IH (q0 ++ [c]) W1 Hr) as (obs & E & Wf & H).
      rewrite E. cbn [bind]. eexists. split; [reflexivity|].
      cbn [map fst snd concat app]. rewrite last_cons. split; [exact Wf|].
      rewrite <- H. rewrite concat_app. cbn [concat]. rewrite app_nil_r.
      unfold appended. cbn [map concat]. rewrite app_assoc. reflexivity.
    + cbn [step]. rewrite parse_space_packets_buf, Ho.
      destruct (parse_buf_total raws (concat q0) (wf_concat _ W0)) as (P & Q1 & EP).
      rewrite EP. cbn [bind].
      pose proof (parse_buf_queue_wf raws _ _ _ (wf_concat _ W0) EP) as W1.
      destruct (IH Q1 W1 Hr) as (obs & E & Wf & H).
      rewrite E. cbn [bind]. eexists. split; [reflexivity|].
      cbn [map fst snd concat]. rewrite last_cons. split; [exact Wf|].
      unfold appended. cbn [map concat app]. fold (appended ops).
      rewrite parse_split; [|apply wf_concat; assumption|].
      * rewrite EP. cbn [bind]. rewrite H.
        destruct (parse_buf raws (concat (last (map snd obs) Q1))) as [[p q]|e]; [|reflexivity].
        cbn [bind]. rewrite app_assoc. reflexivity.
      * clear -Hr. unfold appended. induction Hr as [|o l Ho _ IHl]; [constructor|].
        cbn [map concat]. apply wf_bytes_app. split; [|assumption].
        destruct o; [exact Ho|constructor].
Qed.

(* when the history ends with a parse: the concatenated outputs are the output of one parse
   over everything appended, and the queue is its remainder *)
Theorem parse_chunked_final raws ops ids : Forall (op_ok raws) ops -> ids_raw ids = raws ->
  exists obs, run_ops [] (ops ++ [Parse ids]) = Ok obs /\
    parse_buf raws (appended ops) = Ok (concat (map fst obs), last (map snd obs) []).
Proof.
  intros Hops Hid.
  assert (Hall : Forall (op_ok raws) (ops ++ [Parse ids])).
  { apply Forall_app. split; [assumption|]. constructor; [exact Hid|constructor]. }
  destruct (parse_chunked raws _ [] (Forall_nil _) Hall) as (obs & E & Wf & H).
  exists obs. split; [exact E|]. cbn zeta in H. cbn [concat app] in H.
  assert (Happ : appended (ops ++ [Parse ids]) = appended ops).
  { unfold appended. rewrite map_app, concat_app. cbn [map concat]. rewrite !app_nil_r. reflexivity. }
  rewrite Happ in H. rewrite H.
  (* the last observation comes from a parse: its queue is a fixed point *)
  clear H Happ Hall.
  assert (G : forall ops q0 obs, Forall wf_bytes q0 -> Forall (op_ok raws) ops ->
            run_ops q0 (ops ++ [Parse ids]) = Ok obs ->
            parse_buf raws (concat (last (map snd obs) q0)) = Ok ([], last (map snd obs) q0)).
  { clear -Hid. induction ops as [|o ops IH]; intros q0 obs W0 Hops E.
    - cbn [app run_ops step] in E. rewrite parse_space_packets_buf, Hid in E.
      destruct (parse_buf raws (concat q0)) as [[p q]|e] eqn:EP; [|discriminate].
      cbn [bind] in E. inversion E; subst. cbn [map snd last].
      eapply parse_idem; [|exact EP]. apply wf_concat. assumption.
    - inversion Hops as [|? ? Ho Hr]; subst. cbn [app run_ops] in E.
      destruct (step q0 o) as [[p q']|e] eqn:ES; [|discriminate]. cbn [bind] in E.
      destruct (run_ops q' (ops ++ [Parse ids])) as [rest|e] eqn:ER; [|discriminate].
      cbn [bind] in E. inversion E; subst. cbn [map snd]. rewrite last_cons.
      apply (IH q' rest); [|assumption|exact ER].
      destruct o as [c|ids']; cbn [step op_ok] in *.
      + inversion ES; subst. apply Forall_app. split; [assumption|]. constructor; [assumption|constructor].
      + rewrite parse_space_packets_buf, Ho in ES.
        eapply parse_buf_queue_wf; [|exact ES]. apply wf_concat. assumption. }
  rewrite (G ops [] obs (Forall_nil _) Hops E). cbn [bind]. rewrite app_nil_r. reflexivity.
Qed.

(* ---- complete streams, junk ---- *)
Theorem parse_stream_complete raws ps : Forall (wf_packet raws) ps ->
  parse_buf raws (concat ps) = Ok (ps, []).
Proof.
  intros H.
  assert (W : wf_bytes (concat ps)).
  { clear -H. induction H as [|q qs [Wq _] _ IHq]; [constructor|].
    cbn [concat]. apply wf_bytes_app. split; assumption. }
  rewrite parse_buf_spec, spec_stream_complete by assumption. reflexivity.
Qed.

Theorem parse_junk_skipped raws j s : wf_bytes (j ++ s) -> junk_ok raws j s ->
  exists p q q', parse_buf raws (j ++ s) = Ok (p, q) /\ parse_buf raws s = Ok (p, q') /\
    ((7 <= length s)%nat -> q = q').
Proof.
  intros W J. pose proof W as W'. apply wf_bytes_app in W' as [_ Ws].
  rewrite !parse_buf_spec by assumption.
  destruct (junk_skipped raws j s W J) as [H1 H2].
  destruct (spec_stream raws (j ++ s)) as [p r], (spec_stream raws s) as [p' r'].
  cbn [fst] in H1. subst p'. exists p, (to_queue r), (to_queue r').
  repeat split. intros H7. specialize (H2 H7). inversion H2; reflexivity.
Qed.

Theorem parse_stream_junk raws segs trail :
  Forall (fun jp => wf_bytes (fst jp) /\ wf_packet raws (snd jp) /\ junk_ok raws (fst jp) (snd jp)) segs ->
  wf_bytes trail -> junk_ok raws trail [] ->
  exists q, parse_buf raws (junk_stream segs trail) = Ok (map snd segs, q).
Proof.
  intros H Wt Jt. rewrite parse_buf_spec.
  - pose proof (spec_stream_junk raws segs trail H Wt Jt) as E.
    destruct (spec_stream raws _) as [p r]. cbn [fst] in E. subst p. eauto.
  - apply junk_stream_wf; [|assumption].
    eapply Forall_impl; [|exact H]. intros [j p] (? & [? _] & _). split; assumption.
Qed.

(* the property as a whole: any fragmentation / interleaving of a stream of registered
   packets, ending with a parse, returns every packet exactly once, in order, queue empty *)
Theorem parse_fragmented_stream_complete raws ops ids ps :
  Forall (op_ok raws) ops -> ids_raw ids = raws -> Forall (wf_packet raws) ps ->
  appended ops = concat ps ->
  exists obs, run_ops [] (ops ++ [Parse ids]) = Ok obs /\
    concat (map fst obs) = ps /\ last (map snd obs) [] = [].
Proof.
  intros Hops Hid Hps Happ.
  destruct (parse_chunked_final raws ops ids Hops Hid) as (obs & E & H).
  exists obs. split; [exact E|].
  rewrite Happ, parse_stream_complete in H by assumption. inversion H. split; reflexivity.
Qed.

(* a registered, well-formed packet built from a header layout *)
Lemma wf_packet_example : wf_packet [2051] [8; 3; 192; 0; 0; 0; 85].
Proof.
  split.
  - repeat constructor; lia.
  - exists 8, 3, 192, 0, 0, 0, [85]. repeat split.
Qed.

(* ================= Part D: the code before the repair ================= *)

(* D-C13-1: a 7-octet packet cut after octet 3 is lost *)
Lemma parse_split_refuted_before_repair :
  exists raws a b p1 q1 p2 q2,
    parse_buf0 raws a = Ok (p1, q1) /\ parse_buf0 raws (concat q1 ++ b) = Ok (p2, q2) /\
    parse_buf0 raws (a ++ b) <> Ok (p1 ++ p2, q2).
Proof.
  exists [2051], [8; 3; 192], [0; 0; 0; 85], [], [], [], [].
  vm_compute. repeat split; congruence.
Qed.

(* a complete packet followed by 6 octets of the next one: the 6 octets are dropped *)
Lemma parse_tail_dropped_before_repair :
  exists raws buf, parse_buf0 raws buf = Ok ([firstn 7 buf], []) /\ length buf = 13%nat.
Proof.
  exists [2051], [8; 3; 192; 0; 0; 0; 85; 8; 3; 192; 1; 0; 0]. vm_compute. split; reflexivity.
Qed.

(* ================= Part E: well-formed packets in terms of the C01 layout ================= *)
From SP Require Import Spec.SpacePacketSpec Proofs.SpacePacketProofs.

Lemma registered_In raws b0 b1 : registered raws b0 b1 = true <-> In ((b0 * 256 + b1) mod 8192) raws.
Proof.
  unfold registered. rewrite existsb_exists. split.
  - intros (x & Hx & E). apply Z.eqb_eq in E. subst. assumption.
  - intros H. eexists. split; [exact H|]. apply Z.eqb_refl.
Qed.

(* header per CCSDS 133.0-B-2 (Spec.sph_layout) ++ data field of dlen+1 octets, id registered *)
Lemma wf_packet_layout raws h d :
  sph_valid h -> In (sph_word0 h mod 8192) raws -> wf_bytes d -> len d = dlen h + 1 ->
  wf_packet raws (sph_layout h ++ d).
Proof.
  intros V Hin Wd Ld. split.
  - apply wf_bytes_app. split; [apply sph_layout_wf; assumption|assumption].
  - unfold sph_layout. cbn [app].
    do 6 eexists. exists d. split; [reflexivity|]. split.
    + apply registered_In.
      replace ((ver h * 32 + ptype h * 16 + shf h * 8 + apid h / 256) * 256 + apid h mod 256)
        with (sph_word0 h); [assumption|].
      unfold sph_word0. unfold sph_valid in V. lia.
    + rewrite Ld. unfold sph_valid in V. lia.
Qed.

(* ================= Part F: soundness — whatever is returned is a declared-length packet ================= *)

Lemma firstn_wf_packet raws s : wf_bytes s -> (7 <= length s)%nat ->
  hd_registered raws s = true -> (hd_plen s <= length s)%nat ->
  wf_packet raws (firstn (hd_plen s) s).
Proof.
  intros W H7 R Hl.
  do 7 (destruct s as [|? s]; [cbn [length] in H7; lia|]).
  unfold hd_registered, hd_plen in *. cbn [nth] in *.
  pose proof (hdr_bytes _ _ _ _ _ _ _ W) as [B4 B5].
  assert (E : plen z3 z4 = (6 + Z.to_nat (z3 * 256 + z4 + 1))%nat) by (unfold plen; lia).
  rewrite E in *. cbn [Nat.add firstn].
  split.
  - apply (wf_bytes_firstn (6 + Z.to_nat (z3 * 256 + z4 + 1)) _ W).
  - exists z, z0, z1, z2, z3, z4, (firstn (Z.to_nat (z3 * 256 + z4 + 1)) (z5 :: s)).
    split; [reflexivity|]. split; [assumption|].
    unfold len. rewrite firstn_length. cbn [length] in *. lia.
Qed.

Lemma spec_stream_sound raws : forall n s, (length s <= n)%nat -> wf_bytes s ->
  Forall (wf_packet raws) (fst (spec_stream raws s)).
Proof.
  induction n as [|n IH]; intros s Hn W.
  - rewrite spec_stream_short by lia. constructor.
  - rewrite spec_stream_eq by assumption.
    destruct (Nat.leb_spec (length s) 6) as [Hs|Hs]; [constructor|].
    destruct (hd_registered raws s) eqn:R.
    + destruct (Nat.leb_spec (hd_plen s) (length s)) as [Hl|Hl]; [|constructor].
      pose proof (hd_plen_ge7 s W ltac:(lia)) as Hp.
      specialize (IH (skipn (hd_plen s) s)).
      destruct (spec_stream raws (skipn (hd_plen s) s)) as [p rm]. cbn [fst] in *.
      constructor.
      * apply firstn_wf_packet; try assumption; lia.
      * apply IH; [rewrite skipn_length; lia|apply wf_bytes_skipn; assumption].
    + apply IH; [rewrite length_tl; lia|apply wf_bytes_tl; assumption].
Qed.

(* every returned packet is a well-formed octet string of exactly its declared length whose
   identification is registered (nothing is read beyond the declared packet: C09 for the parser) *)
Theorem parse_buf_sound raws buf ps q : wf_bytes buf ->
  parse_buf raws buf = Ok (ps, q) -> Forall (wf_packet raws) ps.
Proof.
  intros W. rewrite parse_buf_spec by assumption.
  pose proof (spec_stream_sound raws (length buf) buf (le_n _) W) as S.
  destruct (spec_stream raws buf) as [p r]. cbn [fst] in S. intros E. inversion E; subst. assumption.
Qed.
