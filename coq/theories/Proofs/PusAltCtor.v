(* C02 / C03, alternative construction paths: PusTc.from_sp_header, PusTc.from_composite_fields,
   PusTm.from_composite_fields build exactly the object the constructor builds from the same
   values, so everything proved about tc_new / tm_new (layout, round trip, CRC) holds for them. *)
From Coq Require Import ZArith List Bool Lia.
From SP Require Import Base.Result Base.Bytes Model.SpacePacket Model.PusTc Model.PusTcHist
  Model.PusTm Model.PusTmHist Spec.SpacePacketSpec Spec.PusSpec Proofs.PusTcProofs Proofs.PusTmProofs.
Import ListNotations.
Open Scope Z_scope.

Lemma Ok_inj {A} (a b : A) : Ok a = Ok b -> a = b.
Proof. intros H. injection H. exact (fun e => e). Qed.

Lemma sph_new_fields pt ap sc dl sh fl v h :
  sph_new pt ap sc dl sh fl v = Ok h ->
  h = {| ver := v; ptype := pt; shf := sh; apid := ap; sflags := fl; scount := sc; dlen := dl |}.
Proof.
  unfold sph_new, pid_new, psc_new. intros E.
  destruct (_ || _); [discriminate|].
  destruct (_ || _); [discriminate|]. cbn [bind] in E.
  destruct (_ || _); [discriminate|]. cbn [bind] in E.
  apply Ok_inj in E. subst h. reflexivity.
Qed.

(* from_sp_header with ANY caller header (whatever its type, flag and length were) whose
   version is 0 and whose flags are "unsegmented": the result is the constructor's object *)
Theorem tc_from_sp_header_is_new pt sh dl apid seq service subservice app source_id ack h t :
  sph_new pt apid seq dl sh SF_UNSEG 0 = Ok h ->
  tc_new service subservice apid app seq source_id ack = Ok t ->
  tc_from_sp_header h service subservice app source_id ack = t.
Proof.
  intros Eh Et. apply sph_new_fields in Eh. subst h.
  unfold tc_new in Et.
  destruct (sph_new PT_TC apid seq _ 1 SF_UNSEG 0) as [h'|] eqn:E'; [|discriminate].
  cbn [bind] in Et. apply Ok_inj in Et. subst t.
  apply sph_new_fields in E'. subst h'. reflexivity.
Qed.

(* with any other version / flags the result differs from the constructor's object in those two
   header fields only *)
Theorem tc_from_sp_header_fields h service subservice app source_id ack :
  let t := tc_from_sp_header h service subservice app source_id ack in
  ver (tc_sph t) = ver h /\ sflags (tc_sph t) = sflags h /\ apid (tc_sph t) = apid h /\
  scount (tc_sph t) = scount h /\ ptype (tc_sph t) = PT_TC /\ shf (tc_sph t) = 1 /\
  dlen (tc_sph t) = PUS_C_SEC_HEADER_LEN + len app + 1 /\
  tc_app t = app /\ tc_crc t = None /\
  tc_sec t = {| tcs_service := service; tcs_subservice := subservice;
                tcs_source_id := source_id; tcs_ack := ack |}.
Proof. cbn. unfold tc_get_data_length. repeat split. Qed.

Theorem tc_from_composite_is_new service subservice apid app seq source_id ack t :
  tc_new service subservice apid app seq source_id ack = Ok t ->
  tc_from_composite_fields (tc_sph t) (tc_sec t) (tc_app t) = Ok t.
Proof.
  unfold tc_new. intros Et.
  destruct (sph_new PT_TC apid seq _ 1 SF_UNSEG 0) as [h'|] eqn:E'; [|discriminate].
  cbn [bind] in Et. apply Ok_inj in Et. subst t.
  apply sph_new_fields in E'. subst h'. reflexivity.
Qed.

Theorem tc_from_composite_refuses_tm h s app :
  ptype h = PT_TM -> tc_from_composite_fields h s app = Err EValue.
Proof. unfold tc_from_composite_fields. intros ->. reflexivity. Qed.

(* nothing but the packet type is looked at, everything is adopted as given *)
Theorem tc_from_composite_adopts h s app :
  ptype h <> PT_TM ->
  tc_from_composite_fields h s app = Ok {| tc_sph := h; tc_sec := s; tc_app := app; tc_crc := None |}.
Proof.
  unfold tc_from_composite_fields. intros N.
  destruct (ptype h =? PT_TM) eqn:E; [apply Z.eqb_eq in E; contradiction|reflexivity].
Qed.

Theorem tm_from_composite_is_new service subservice stamp src apid seq msgcnt ref dest version t :
  tm_new service subservice stamp src apid seq msgcnt ref dest version = Ok t ->
  tm_from_composite_fields (tm_sph t) (tm_sec t) (tm_src t) = Ok t.
Proof.
  unfold tm_new. intros Et.
  destruct (sph_new PT_TM apid seq _ 1 SF_UNSEG version) as [h'|] eqn:E'; [|discriminate].
  cbn [bind] in Et.
  destruct (tmsec_new _ _ _ _ _ _) as [s|]; [|discriminate]. cbn [bind] in Et.
  apply Ok_inj in Et. subst t.
  apply sph_new_fields in E'. subst h'. reflexivity.
Qed.

Theorem tm_from_composite_refuses_tc h s d :
  ptype h = PT_TC -> tm_from_composite_fields h s d = Err EValue.
Proof. unfold tm_from_composite_fields. intros ->. reflexivity. Qed.

Theorem tm_from_composite_adopts h s d :
  ptype h <> PT_TC ->
  tm_from_composite_fields h s d = Ok {| tm_sph := h; tm_sec := s; tm_src := d; tm_crc := None |}.
Proof.
  unfold tm_from_composite_fields. intros N.
  destruct (ptype h =? PT_TC) eqn:E; [apply Z.eqb_eq in E; contradiction|reflexivity].
Qed.

(* ---- the layout theorems carried over to the alternative paths ---- *)
Theorem tc_from_sp_header_layout pt sh dl service subservice apid seq source_id ack app h :
  tc_args_valid service subservice apid seq source_id ack app ->
  sph_new pt apid seq dl sh SF_UNSEG 0 = Ok h ->
  exists t', tc_pack (tc_from_sp_header h service subservice app source_id ack)
             = Ok (tc_layout service subservice apid seq source_id ack app, t') /\
    tc_packet_len (tc_from_sp_header h service subservice app source_id ack)
      = len (tc_layout service subservice apid seq source_id ack app).
Proof.
  intros V Eh.
  destruct (tc_pack_layout _ _ _ _ _ _ _ V) as (t & t' & En & Ep & _ & _ & _ & El & _).
  rewrite (tc_from_sp_header_is_new _ _ _ _ _ _ _ _ _ _ _ _ Eh En).
  exists t'. split; assumption.
Qed.

Theorem tm_from_composite_layout service subservice apid seq msgcnt ref dest version stamp src :
  tm_args_valid service subservice apid seq msgcnt ref dest version stamp src ->
  exists t u t', tm_new service subservice stamp src apid seq msgcnt ref dest version = Ok t /\
    tm_from_composite_fields (tm_sph t) (tm_sec t) (tm_src t) = Ok u /\
    tm_pack u = Ok (tm_layout service subservice apid seq msgcnt ref dest version stamp src, t') /\
    tm_packet_len u = len (tm_layout service subservice apid seq msgcnt ref dest version stamp src).
Proof.
  intros V.
  destruct (tm_pack_layout _ _ _ _ _ _ _ _ _ _ V) as (t & t' & En & Ep & _ & _ & _ & El & _).
  exists t, t, t'. split; [exact En|]. split; [exact (tm_from_composite_is_new _ _ _ _ _ _ _ _ _ _ _ En)|].
  split; assumption.
Qed.
