(* C12 (gap 7): non-vacuity of directive_head and pdu_wf. *)
From Coq Require Import ZArith List Bool.
From SP Require Import Base.Result Base.Bytes Model.PduHeader Spec.PduHeaderSpec Model.FileDirective
  Proofs.FileDirectiveProofs Spec.PduASpec Proofs.DirectiveProofs Model.Eof Proofs.EofProofs
  Model.Factory Proofs.FactoryProofs.
Import ListNotations.
Open Scope Z_scope.

(* a packed EOF PDU followed by two foreign octets has a directive head: the inspectors apply *)
Example directive_head_example :
  directive_head (eof_layout eof_example_conf eof_example_params ++ [165; 90])
                 (directive_fdir eof_example_conf 0 4 (eof_params_layout eof_example_conf eof_example_params)) /\
  fac_pdu_directive_type (eof_layout eof_example_conf eof_example_params ++ [165; 90]) = Ok (Some 4).
Proof.
  assert (H : directive_head (eof_layout eof_example_conf eof_example_params ++ [165; 90])
                (directive_fdir eof_example_conf 0 4 (eof_params_layout eof_example_conf eof_example_params))).
  { apply head_app. apply eof_head. apply eof_valid_example. }
  split; [exact H|]. destruct (head_inspectors _ _ H) as (_ & _ & D). rewrite D. reflexivity.
Qed.

Example pdu_wf_example :
  pdu_wf (PEof (eof_pdu_of eof_example_conf eof_example_params)) /\
  holder_to 1 (Some (PEof (eof_pdu_of eof_example_conf eof_example_params))) =
    Ok (PEof (eof_pdu_of eof_example_conf eof_example_params)) /\
  holder_to 2 (Some (PEof (eof_pdu_of eof_example_conf eof_example_params))) = Err EType.
Proof. split; [reflexivity|]. split; reflexivity. Qed.
