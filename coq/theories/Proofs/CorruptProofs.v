(* C04 — a corrupted CRC-protected packet is never accepted (PUS TC / TM part).
   Error patterns: e has the packet's length, the corrupted packet is xor_bytes p e, burst16 e
   (Base/Crc16Burst.v) = non-zero, all set bits within 16 consecutive bit positions. *)
From Coq Require Import ZArith List Bool Lia ZifyBool.
From SP Require Import Base.Result Base.Bytes Base.BytesFacts Base.Crc16 Base.Crc16Facts Base.Crc16Burst
  Model.SpacePacket Spec.SpacePacketSpec Proofs.SpacePacketProofs Model.PusTc Model.PusTm Spec.PusSpec
  Proofs.PusTcProofs Proofs.PusTmProofs.
Import ListNotations.
Open Scope Z_scope.
Ltac Zify.zify_post_hook ::= Z.to_euclidean_division_equations.

Lemma Ok_inj {A} (a b : A) : Ok a = Ok b -> a = b.
Proof. intros H; inversion H; reflexivity. Qed.

(* ---------- xor_bytes basics ---------- *)
Lemma xor_bytes_length a : forall b, length (xor_bytes a b) = length a.
Proof. induction a as [|x a IH]; intros [|y b]; cbn [xor_bytes length]; try reflexivity. rewrite IH. reflexivity. Qed.

Lemma xor_bytes_wf a : forall b, wf_bytes a -> wf_bytes b -> wf_bytes (xor_bytes a b).
Proof.
  induction a as [|x a IH]; intros [|y b] Wa Wb; cbn [xor_bytes]; try assumption.
  rewrite wf_cons in *. destruct Wa, Wb. split; [|apply IH; assumption].
  change 256 with (2 ^ 8). apply lxor_lt_pow2; lia.
Qed.

Lemma xor_bytes_nth a : forall b i, length b = length a ->
  nth i (xor_bytes a b) 0 = Z.lxor (nth i a 0) (nth i b 0).
Proof.
  induction a as [|x a IH]; intros [|y b] i L; try discriminate.
  - destruct i; reflexivity.
  - destruct i; cbn [xor_bytes nth]; [reflexivity|]. apply IH. cbn in L. lia.
Qed.

Lemma xor_untouched a b i : length b = length a -> nth i b 0 = 0 -> nth i (xor_bytes a b) 0 = nth i a 0.
Proof. intros L H. rewrite xor_bytes_nth, H by assumption. apply Z.lxor_0_r. Qed.

(* the declared length of a space packet is determined by octets 4 and 5 *)
Lemma sph_unpack_dlen d h : wf_bytes d -> sph_unpack d = Ok h -> dlen h = nth 4 d 0 * 256 + nth 5 d 0.
Proof.
  intros W E.
  destruct d as [|b0 [|b1 [|b2 [|b3 [|b4 [|b5 r]]]]]];
    try (rewrite sph_unpack_short in E by (cbn; lia); discriminate).
  assert (W6 : wf_bytes [b0; b1; b2; b3; b4; b5]).
  { change (wf_bytes (firstn 6 (b0 :: b1 :: b2 :: b3 :: b4 :: b5 :: r))). apply wf_bytes_firstn. assumption. }
  rewrite sph_unpack_octets in E by assumption. inversion E. reflexivity.
Qed.

Definition len_field_untouched (e : bytes) : Prop := nth 4 e 0 = 0 /\ nth 5 e 0 = 0.

(* generic core: a space-packet based, CRC-protected unit *)
Section Generic.
  Context {T : Type} (unpack : bytes -> res T) (hdr_of : T -> sph).
  Hypothesis total : forall d, wf_bytes d -> ok_or_documented (unpack d).
  Hypothesis accept : forall d t, wf_bytes d -> unpack d = Ok t ->
    crc16 (firstn (Z.to_nat (sph_packet_len (hdr_of t))) d) = 0 /\ sph_unpack d = Ok (hdr_of t).

  Lemma corrupt_rejected_generic p e :
    wf_bytes p -> crc16 p = 0 -> (6 <= length p)%nat ->
    len p = nth 4 p 0 * 256 + nth 5 p 0 + 7 ->
    burst16 e -> length e = length p -> len_field_untouched e ->
    exists x, unpack (xor_bytes p e) = Err x /\ documented x = true.
  Proof.
    intros Wp C0 L6 Ln B Le [U4 U5].
    assert (We : wf_bytes e) by (apply burst16_wf; assumption).
    assert (Wd : wf_bytes (xor_bytes p e)) by (apply xor_bytes_wf; assumption).
    pose proof (total _ Wd) as Tt.
    destruct (unpack (xor_bytes p e)) as [t|x] eqn:E; [|exists x; split; [reflexivity|exact Tt]].
    exfalso. destruct (accept _ _ Wd E) as [C S].
    pose proof (sph_unpack_dlen _ _ Wd S) as D.
    rewrite !xor_untouched in D by assumption.
    assert (N : sph_packet_len (hdr_of t) = len p).
    { unfold sph_packet_len, CCSDS_HEADER_LEN. lia. }
    rewrite N in C. unfold len in C. rewrite Nat2Z.id in C.
    rewrite <- (xor_bytes_length p e), firstn_all in C.
    apply (crc_detects_burst16 p e Wp B Le). congruence.
  Qed.
End Generic.

(* ---------- telecommands ---------- *)
Lemma tc_layout_facts service subservice apid seq source_id ack app :
  tc_args_valid service subservice apid seq source_id ack app ->
  let p := tc_layout service subservice apid seq source_id ack app in
  wf_bytes p /\ crc16 p = 0 /\ (6 <= length p)%nat /\ len p = nth 4 p 0 * 256 + nth 5 p 0 + 7.
Proof.
  intros V p. pose proof (tc_body_wf _ _ _ _ _ _ _ V) as WB.
  destruct V as (H1 & H2 & H3 & H4 & H5 & H6 & W & L). pose proof (len_nonneg app).
  unfold p, tc_layout. cbv zeta. rewrite <- crc_trailer by assumption.
  repeat split.
  - rewrite wf_bytes_app. split; [assumption|apply be_encode_wf].
  - apply crc_residue. assumption.
  - unfold tc_body, sph_layout. cbn [List.app length]. lia.
  - rewrite len_app. unfold tc_body at 1. unfold sph_layout at 1. rewrite !len_app, !len_cons, !len_nil.
    unfold len at 2. rewrite be_encode_length.
    unfold tc_body, sph_layout. cbn [List.app nth dlen]. lia.
Qed.

Theorem tc_corrupt_rejected service subservice apid seq source_id ack app e :
  tc_args_valid service subservice apid seq source_id ack app ->
  let p := tc_layout service subservice apid seq source_id ack app in
  burst16 e -> length e = length p -> len_field_untouched e ->
  (exists x, tc_unpack (xor_bytes p e) = Err x /\ documented x = true) /\
  check_pus_crc (xor_bytes p e) = false.
Proof.
  intros V p B Le U. destruct (tc_layout_facts _ _ _ _ _ _ _ V) as (Wp & C0 & L6 & Ln). fold p in Wp, C0, L6, Ln.
  split.
  - apply (corrupt_rejected_generic tc_unpack tc_sph tc_unpack_total); try assumption.
    intros d t Wd E. destruct (tc_accept_inv d t Wd E) as (_ & C & S & _). split; assumption.
  - unfold check_pus_crc. pose proof (crc_detects_burst16 p e Wp B Le) as N. rewrite C0 in N.
    destruct (crc16 (xor_bytes p e) =? 0) eqn:E; [|reflexivity]. lia.
Qed.

(* whatever fields were set or changed before packing: pack() always appends the CRC of the
   octets it just produced, so its output always passes the check *)
Theorem tc_pack_always_valid t p t' : wf_bytes (tc_app t) -> tc_pack t = Ok (p, t') ->
  check_pus_crc p = true.
Proof.
  intros Wa E. unfold tc_pack in E.
  destruct (sph_pack (tc_sph t)) as [hb|] eqn:Eh; [|discriminate]. cbn [bind] in E.
  destruct (tcsec_pack (tc_sec t)) as [sb|] eqn:Es; [|discriminate]. cbn [bind] in E.
  assert (Wh : wf_bytes hb).
  { apply (sph_pack_ok_shape _ _ Eh). }
  assert (Ws : wf_bytes sb).
  { unfold tcsec_pack, ba_append, struct_pack in Es.
    repeat match type of Es with context [if ?c then _ else _] => destruct c eqn:?; [|discriminate] end.
    cbn [bind] in Es. apply Ok_inj in Es. subst sb. rewrite !wf_bytes_app. unfold is_byte in *.
    repeat split; try apply be_encode_wf; constructor; try constructor; lia. }
  assert (WB : wf_bytes (hb ++ sb ++ tc_app t)) by (rewrite !wf_bytes_app; repeat split; assumption).
  pose proof (crc16_range _ WB) as R. unfold in16 in R.
  rewrite struct_pack2_ok in E by lia. cbn [bind] in E. inversion E; subst.
  unfold check_pus_crc. rewrite crc_residue by assumption. reflexivity.
Qed.

(* ---------- telemetry, any timestamp length ---------- *)
Lemma tm_layout_facts service subservice apid seq msgcnt ref dest version stamp src :
  tm_args_valid service subservice apid seq msgcnt ref dest version stamp src ->
  let p := tm_layout service subservice apid seq msgcnt ref dest version stamp src in
  wf_bytes p /\ crc16 p = 0 /\ (6 <= length p)%nat /\ len p = nth 4 p 0 * 256 + nth 5 p 0 + 7.
Proof.
  intros V p. pose proof (tm_body_wf _ _ _ _ _ _ _ _ _ _ V) as WB.
  destruct V as (H1 & H2 & H3 & H4 & H5 & H6 & H7 & H8 & W1 & W2 & L).
  pose proof (len_nonneg stamp). pose proof (len_nonneg src).
  unfold p, tm_layout. cbv zeta. rewrite <- crc_trailer by assumption.
  repeat split.
  - rewrite wf_bytes_app. split; [assumption|apply be_encode_wf].
  - apply crc_residue. assumption.
  - unfold tm_body, sph_layout. cbn [List.app length]. lia.
  - rewrite len_app. unfold tm_body at 1. unfold sph_layout at 1. rewrite !len_app, !len_cons, !len_nil.
    unfold len at 3. rewrite be_encode_length.
    unfold tm_body, sph_layout. cbn [List.app nth dlen]. lia.
Qed.

Theorem tm_corrupt_rejected service subservice apid seq msgcnt ref dest version stamp src e ts :
  tm_args_valid service subservice apid seq msgcnt ref dest version stamp src -> 0 <= ts ->
  let p := tm_layout service subservice apid seq msgcnt ref dest version stamp src in
  burst16 e -> length e = length p -> len_field_untouched e ->
  (exists x, tm_unpack (xor_bytes p e) ts = Err x /\ documented x = true) /\
  check_pus_crc (xor_bytes p e) = false.
Proof.
  intros V Hts p B Le U. destruct (tm_layout_facts _ _ _ _ _ _ _ _ _ _ V) as (Wp & C0 & L6 & Ln).
  fold p in Wp, C0, L6, Ln. split.
  - apply (corrupt_rejected_generic (fun d => tm_unpack d ts) tm_sph); try assumption.
    + intros d Wd. apply tm_unpack_total; assumption.
    + intros d t Wd E. destruct (tm_accept_inv d ts t Wd Hts E) as (_ & C & S & _). split; assumption.
  - unfold check_pus_crc. pose proof (crc_detects_burst16 p e Wp B Le) as N. rewrite C0 in N.
    destruct (crc16 (xor_bytes p e) =? 0) eqn:E; [|reflexivity]. lia.
Qed.

Theorem tm_pack_always_valid t p t' : wf_bytes (tms_stamp (tm_sec t)) -> wf_bytes (tm_src t) ->
  tm_pack t = Ok (p, t') -> check_pus_crc p = true.
Proof.
  intros Wst Wa E. unfold tm_pack in E.
  destruct (sph_pack (tm_sph t)) as [hb|] eqn:Eh; [|discriminate]. cbn [bind] in E.
  destruct (tmsec_pack (tm_sec t)) as [sb|] eqn:Es; [|discriminate]. cbn [bind] in E.
  assert (Wh : wf_bytes hb).
  { apply (sph_pack_ok_shape _ _ Eh). }
  assert (Ws : wf_bytes sb).
  { unfold tmsec_pack, ba_append, struct_pack in Es.
    repeat match type of Es with context [if ?c then _ else _] => destruct c eqn:?; [|discriminate] end.
    cbn [bind] in Es. apply Ok_inj in Es. subst sb. rewrite !wf_bytes_app. unfold is_byte in *.
    repeat split; try apply be_encode_wf; try assumption; constructor; try constructor; lia. }
  assert (WB : wf_bytes (hb ++ sb ++ tm_src t)) by (rewrite !wf_bytes_app; repeat split; assumption).
  pose proof (crc16_range _ WB) as R. unfold in16 in R.
  rewrite struct_pack2_ok in E by lia. cbn [bind] in E. inversion E; subst.
  unfold check_pus_crc. rewrite crc_residue by assumption. reflexivity.
Qed.

(* non-vacuity: a concrete burst that leaves the length field alone *)
Example burst_example : burst16 (repeat 0 7 ++ [2 ^ 3] ++ repeat 0 8) /\
  len_field_untouched (repeat 0 7 ++ [2 ^ 3] ++ repeat 0 8).
Proof. split; [apply single_bit_burst; lia|split; reflexivity]. Qed.
