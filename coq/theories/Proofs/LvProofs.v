(* Lemmas about Model/Lv.v (CfdpLv): layout, round trips, consumed length, totality,
   prefix rejection, no over-read.  Reusable by the directive-PDU proofs. *)
From Coq Require Import ZArith List Bool Lia ZifyBool.
From SP Require Import Base.Result Base.Bytes Base.BytesFacts Model.Lv Spec.TlvSpec.
Import ListNotations.
Open Scope Z_scope.

(* ---------- small list facts used throughout the TLV proofs ---------- *)

Lemma len_0_nil (v : bytes) : len v = 0 -> v = [].
Proof. destruct v; [reflexivity|]. unfold len. cbn [length]. lia. Qed.

Lemma len_firstn (n : nat) (l : bytes) : (n <= length l)%nat -> len (firstn n l) = Z.of_nat n.
Proof. intros H. unfold len. rewrite firstn_length. lia. Qed.

Lemma slice_cons1 x (r : bytes) n : 0 <= n -> slice (x :: r) 1 (1 + n) = firstn (Z.to_nat n) r.
Proof.
  intros H. unfold slice. replace (1 + n - 1) with n by lia.
  change (Z.to_nat 1) with 1%nat. reflexivity.
Qed.

Lemma slice_cons2 x y (r : bytes) n :
  0 <= n -> slice (x :: y :: r) 2 (2 + n) = firstn (Z.to_nat n) r.
Proof.
  intros H. unfold slice. replace (2 + n - 2) with n by lia.
  change (Z.to_nat 2) with 2%nat. reflexivity.
Qed.

Lemma firstn_len_app (v rest : bytes) : firstn (Z.to_nat (len v)) (v ++ rest) = v.
Proof. unfold len. rewrite Nat2Z.id. apply firstn_app_exact. reflexivity. Qed.

Lemma py_get_0_cons x (r : bytes) : py_get (x :: r) 0 = Ok x.
Proof. reflexivity. Qed.
Lemma py_get_1_cons x y (r : bytes) : py_get (x :: y :: r) 1 = Ok y.
Proof. reflexivity. Qed.

Lemma wf_bytes_cons x (r : bytes) : wf_bytes (x :: r) <-> 0 <= x < 256 /\ wf_bytes r.
Proof.
  unfold wf_bytes. split; [intros H; inversion H; auto | intros [? ?]; constructor; auto].
Qed.

(* documented-ness through bind *)
Lemma bind_documented {A B} (r : res A) (f : A -> res B) :
  ok_or_documented r -> (forall a, r = Ok a -> ok_or_documented (f a)) ->
  ok_or_documented (bind r f).
Proof. destruct r; cbn; auto. Qed.

(* ---------- CfdpLv ---------- *)

Lemma lv_pack_layout v : lv_pack v = lv_layout v.
Proof.
  unfold lv_pack, lv_layout. destruct v as [|x r]; [reflexivity|].
  assert (len (x :: r) >? 0 = true) as ->; [unfold len; cbn [length]; lia | reflexivity].
Qed.

Lemma lv_pack_cons v : lv_pack v = len v :: v.
Proof. apply lv_pack_layout. Qed.

Lemma lv_pack_len v : len (lv_pack v) = lv_packet_len v.
Proof. rewrite lv_pack_cons, len_cons. unfold lv_packet_len. lia. Qed.

Lemma lv_pack_wf v : wf_bytes v -> len v <= 255 -> wf_bytes (lv_pack v).
Proof.
  intros Hv Hl. rewrite lv_pack_cons. apply wf_bytes_cons. split; [|assumption].
  pose proof (len_nonneg v). lia.
Qed.

Lemma lv_new_ok v : len v <= 255 -> lv_new v = Ok v.
Proof. intros H. unfold lv_new. destruct (len v >? 255) eqn:E; [lia|reflexivity]. Qed.

Lemma lv_new_too_long v : 255 < len v -> lv_new v = Err EValue.
Proof. intros H. unfold lv_new. destruct (len v >? 255) eqn:E; [reflexivity|lia]. Qed.

Lemma lv_new_inv v w : lv_new v = Ok w -> w = v /\ len v <= 255.
Proof.
  unfold lv_new. destruct (len v >? 255) eqn:E; intros H; inversion H; subst. split; [reflexivity|lia].
Qed.

(* decode (encode v ++ anything) = v : the value is recovered, whatever follows *)
Lemma lv_unpack_pack_app v rest : len v <= 255 -> lv_unpack (lv_pack v ++ rest) = Ok v.
Proof.
  intros Hl. rewrite lv_pack_cons. cbn [app]. unfold lv_unpack.
  pose proof (len_nonneg v) as Hn.
  rewrite len_cons, len_app. pose proof (len_nonneg rest).
  destruct (1 + (len v + len rest) <? 1) eqn:E1; [lia|].
  rewrite py_get_0_cons. cbn [bind].
  destruct (1 + len v >? 1 + (len v + len rest)) eqn:E2; [lia|].
  destruct (len v =? 0) eqn:E3.
  - rewrite (len_0_nil v) by lia. reflexivity.
  - rewrite slice_cons1 by lia. rewrite firstn_len_app. apply lv_new_ok. assumption.
Qed.

Lemma lv_unpack_pack v : len v <= 255 -> lv_unpack (lv_pack v) = Ok v.
Proof. intros H. rewrite <- (app_nil_r (lv_pack v)). apply lv_unpack_pack_app. assumption. Qed.

(* every accepted input starts with the packed form of the result *)
Lemma lv_unpack_inv d v :
  wf_bytes d -> lv_unpack d = Ok v -> exists rest, d = lv_pack v ++ rest /\ len v <= 255.
Proof.
  intros Hwf H. unfold lv_unpack in H.
  destruct d as [|n r]; [cbn in H; discriminate|].
  apply wf_bytes_cons in Hwf. destruct Hwf as [Hn Hr].
  rewrite len_cons in H. pose proof (len_nonneg r).
  destruct (1 + len r <? 1) eqn:E1; [lia|].
  rewrite py_get_0_cons in H. cbn [bind] in H.
  destruct (1 + n >? 1 + len r) eqn:E2; [discriminate|].
  destruct (n =? 0) eqn:E3.
  - apply lv_new_inv in H. destruct H as [-> _]. exists r. split; [|cbn; lia].
    rewrite lv_pack_cons. cbn. f_equal. lia.
  - rewrite slice_cons1 in H by lia. apply lv_new_inv in H. destruct H as [-> Hl].
    exists (skipn (Z.to_nat n) r). split; [|assumption].
    rewrite lv_pack_cons. cbn [app]. rewrite firstn_skipn. f_equal.
    rewrite len_firstn; [lia|]. unfold len in *. lia.
Qed.

(* the only failures are the too-short error and ValueError *)
Lemma lv_unpack_total d : ok_or_documented (lv_unpack d).
Proof.
  unfold lv_unpack. destruct (len d <? 1) eqn:E1; [reflexivity|].
  destruct d as [|n r]; [cbn in E1; discriminate|].
  rewrite py_get_0_cons. cbn [bind].
  destruct (1 + n >? len (n :: r)); [reflexivity|].
  destruct (n =? 0); unfold lv_new;
    match goal with |- context [if ?c then _ else _] => destruct c end; reflexivity.
Qed.

Lemma lv_unpack_err d e : lv_unpack d = Err e -> e = ETooShort \/ e = EValue.
Proof.
  unfold lv_unpack. destruct (len d <? 1) eqn:E1; [intros H; inversion H; auto|].
  destruct d as [|n r]; [cbn in E1; discriminate|].
  rewrite py_get_0_cons. cbn [bind].
  destruct (1 + n >? len (n :: r)); [intros H; inversion H; auto|].
  destruct (n =? 0); unfold lv_new;
    match goal with |- context [if ?c then _ else _] => destruct c end;
    intros H; inversion H; auto.
Qed.

(* every strict prefix of a packed LV is refused *)
Lemma lv_prefix_rejected v n :
  len v <= 255 -> (n < length (lv_pack v))%nat ->
  exists e, lv_unpack (firstn n (lv_pack v)) = Err e /\ documented e = true.
Proof.
  intros Hl Hn. rewrite lv_pack_cons in *. cbn [length] in Hn.
  destruct n as [|k].
  - exists ETooShort. split; reflexivity.
  - exists EValue. split; [|reflexivity]. cbn [firstn]. unfold lv_unpack.
    rewrite len_cons. pose proof (len_nonneg (firstn k v)).
    destruct (1 + len (firstn k v) <? 1) eqn:E1; [lia|].
    rewrite py_get_0_cons. cbn [bind].
    assert (len (firstn k v) < len v).
    { unfold len. rewrite firstn_length. lia. }
    destruct (1 + len v >? 1 + len (firstn k v)) eqn:E2; [reflexivity|lia].
Qed.

(* C09: the result depends on the first packet_len octets only *)
Lemma lv_no_overread d v :
  wf_bytes d -> lv_unpack d = Ok v ->
  lv_unpack (firstn (Z.to_nat (lv_packet_len v)) d) = Ok v /\
  lv_packet_len v = len (lv_pack v).
Proof.
  intros Hwf H. destruct (lv_unpack_inv d v Hwf H) as [rest [-> Hl]].
  rewrite lv_pack_len. split; [|reflexivity].
  rewrite <- lv_pack_len. rewrite firstn_len_app. apply lv_unpack_pack. assumption.
Qed.

Lemma lv_suffix_irrelevant v s :
  len v <= 255 -> lv_unpack (lv_pack v ++ s) = lv_unpack (lv_pack v).
Proof. intros H. rewrite lv_unpack_pack_app, lv_unpack_pack by assumption. reflexivity. Qed.

(* the rest of the buffer after a decoded LV starts packet_len octets in *)
Lemma lv_rest_after v rest :
  slice_from (lv_pack v ++ rest) (lv_packet_len v) = rest.
Proof. apply slice_from_app. symmetry. apply lv_pack_len. Qed.

Lemma lv_eqb_eq a b : lv_eqb a b = true <-> a = b.
Proof. apply bytes_eqb_eq. Qed.
