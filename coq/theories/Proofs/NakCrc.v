(* C04 for the NAK PDU: a packed CRC-flagged NAK PDU with any burst of up to 16 flipped bits
   (single bit flips included) outside the length-determining octets 1..3 and the CRC flag bit is
   never accepted; it is refused with a documented error. *)
From Coq Require Import ZArith List Bool Lia ZifyBool.
From SP Require Import Base.Result Base.Bytes Base.BytesFacts Base.Crc16 Base.Crc16Facts Base.Crc16Burst
  Model.PduHeader Spec.PduHeaderSpec Proofs.PduHeaderProofs Model.FileDirective Proofs.FileDirectiveProofs
  Spec.PduASpec Proofs.DirectiveProofs Proofs.DirectiveCrc Model.Nak Spec.PduCSpec Proofs.NakProofs.
Import ListNotations.
Open Scope Z_scope.
Ltac Zify.zify_post_hook ::= Z.to_euclidean_division_equations.

Theorem nak_corrupt_rejected c q e : nak_valid c q -> cf_crc c = 1 ->
  burst16 e -> length e = length (nak_layout c q) -> length_fields_untouched e ->
  exists x, nak_unpack (xor_bytes (nak_layout c q) e) = Err x /\ documented x = true.
Proof.
  intros V C1 Be Le (e0 & te & Ee & E0).
  pose proof (nak_pdu_of_wf c q V) as WF0. pose proof WF0 as (OV0 & _).
  set (L := nak_layout c q) in *.
  assert (WL : wf_bytes L) by (unfold L; rewrite nak_layout_obj; apply nak_obj_layout_wf; exact OV0).
  pose proof (burst16_wf e Be) as We.
  set (d' := xor_bytes L e).
  assert (Wd : wf_bytes d') by (apply xor_bytes_wf; assumption).
  pose proof (nak_unpack_total d' Wd) as T.
  destruct (nak_unpack d') as [p|err] eqn:R; [exfalso|exists err; split; [reflexivity|exact T]].
  (* the uncorrupted PDU: header, CRC 0 *)
  pose proof (nak_fdir_unpack_layout (nak_pdu_of c q) [] OV0 ltac:(constructor)) as U0.
  rewrite app_nil_r, <- nak_layout_obj in U0. fold L in U0.
  destruct (fdir_unpack_inv L _ WL U0) as (FV & Uh & _).
  assert (C0 : crc16 L = 0).
  { unfold L. rewrite nak_layout_obj. unfold nak_obj_layout.
    assert (cf_crc (nk_conf (nak_pdu_of c q)) = 1) as -> by exact C1. cbn [Z.eqb Pos.eqb].
    apply crc_residue, nak_obj_pre_wf, OV0. }
  pose proof (nak_wf_pl _ WF0) as PL0. rewrite <- nak_layout_obj in PL0. fold L in PL0.
  pose proof (hdr_valid_packet_len _ (proj1 FV)) as [_ P7].
  destruct L as [|b0 [|b1 [|b2 [|b3 tl]]]] eqn:EL; try (unfold nk_hdr, len in *; cbn [length] in PL0; lia).
  assert (RB : 0 <= b0 < 256).
  { unfold wf_bytes in WL. inversion WL; subst. assumption. }
  assert (RE : 0 <= e0 < 256).
  { rewrite Ee in We. inversion We; subst. assumption. }
  assert (Ed : d' = Z.lxor b0 e0 :: b1 :: b2 :: b3 :: xor_bytes tl te).
  { unfold d'. rewrite Ee. cbn [xor_bytes]. rewrite !Z.lxor_0_r. reflexivity. }
  (* the corrupted octets were accepted: the decoded header still carries the CRC flag *)
  destruct (nak_unpack_inv d' p Wd R) as (WFp & LAY). pose proof WFp as (OVp & _).
  pose proof (nak_fdir_unpack_layout p [] OVp ltac:(constructor)) as U'. rewrite app_nil_r, LAY in U'.
  destruct (fdir_unpack_inv d' _ Wd U') as (_ & Uh' & _).
  pose proof (nak_accept_needs_crc0 d' p Wd R) as CRC'.
  rewrite Ed in Uh', Wd.
  destruct (hdr_unpack_fixed _ _ _ _ _ _ Wd Uh') as (_ & _ & _ & CF').
  destruct (hdr_unpack_fixed _ _ _ _ _ _ WL Uh) as (_ & _ & _ & CF).
  assert (CF1 : cf_crc (h_conf (fd_hdr (nk_fd (nak_pdu_of c q)))) = 1) by exact C1.
  rewrite crcbit in CF' by assumption. rewrite <- CF, CF1 in CF'.
  specialize (CRC' CF').
  apply (crc_detects_burst16 (b0 :: b1 :: b2 :: b3 :: tl) e WL Be Le).
  fold d'. rewrite CRC', C0. reflexivity.
Qed.

(* the uncorrupted packed PDU passes the check: nak_unpack_pack (Props/C06_c.v) *)
