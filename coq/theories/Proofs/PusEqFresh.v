(* C11 (gaps 2a, 2b, 4): TC / TM setter histories end in the freshly constructed object; pack does
   not change equality; Metadata after any accepted history is the freshly constructed PDU. *)
From Coq Require Import ZArith List Bool Lia.
From SP Require Import Base.Result Base.Bytes Base.BytesFacts Base.Crc16
  Model.SpacePacket Spec.SpacePacketSpec Proofs.SpacePacketProofs
  Model.PusTc Model.PusTm Spec.PusSpec Proofs.PusTcProofs Proofs.PusTmProofs Proofs.XcutProofs.
Import ListNotations.
Open Scope Z_scope.

(* ======================= gap 4: pack does not change equality ======================= *)
Lemma Ok_inj' {A} (a b : A) : Ok a = Ok b -> a = b.
Proof. intros H. injection H as ->. reflexivity. Qed.
Lemma beqb_refl (b : bytes) : bytes_eqb b b = true.
Proof. apply bytes_eqb_eq. reflexivity. Qed.

(* packing a telecommand: the object afterwards compares equal to the object before (both ways),
   and packing it again yields the same octets and leaves it as it is *)
Theorem tc_pack_keeps_equality t p t' : tc_pack t = Ok (p, t') ->
  tc_eqb t' t = true /\ tc_eqb t t' = true /\ tc_pack t' = Ok (p, t').
Proof.
  intros E. unfold tc_pack in E.
  destruct (sph_pack (tc_sph t)) as [hb|] eqn:Eh; [|discriminate]. cbn [bind] in E.
  destruct (tcsec_pack (tc_sec t)) as [sb|] eqn:Es; [|discriminate]. cbn [bind] in E.
  destruct (struct_pack 2 _) as [cb|] eqn:Ec; [|discriminate]. cbn [bind] in E.
  apply Ok_inj' in E. inversion E; subst. clear E.
  unfold tc_eqb, sph_eqb, tcsec_eqb, tc_pack. cbn [tc_sph tc_sec tc_app].
  rewrite Eh, Es. cbn [bind]. rewrite Ec, !beqb_refl. cbn [bind]. repeat split.
Qed.

Theorem tm_pack_keeps_equality t p t' : tm_pack t = Ok (p, t') ->
  tm_eqb t' t = true /\ tm_eqb t t' = true /\ tm_pack t' = Ok (p, t').
Proof.
  intros E. unfold tm_pack in E.
  destruct (sph_pack (tm_sph t)) as [hb|] eqn:Eh; [|discriminate]. cbn [bind] in E.
  destruct (tmsec_pack (tm_sec t)) as [sb|] eqn:Es; [|discriminate]. cbn [bind] in E.
  destruct (struct_pack 2 _) as [cb|] eqn:Ec; [|discriminate]. cbn [bind] in E.
  apply Ok_inj' in E. inversion E; subst. clear E.
  unfold tm_eqb, sph_eqb, tmsec_eqb, tm_pack. cbn [tm_sph tm_sec tm_src].
  rewrite Eh, Es. cbn [bind]. rewrite Ec, !beqb_refl. cbn [bind]. repeat split.
Qed.

(* ======================= gap 2a: telecommand ======================= *)
(* the values a telecommand stands for *)
Record tcvals := { v_service : Z; v_subservice : Z; v_apid : Z; v_seq : Z; v_source : Z; v_ack : Z; v_app : bytes }.
Definition tcv_valid (v : tcvals) : Prop :=
  tc_args_valid (v_service v) (v_subservice v) (v_apid v) (v_seq v) (v_source v) (v_ack v) (v_app v).
Definition tcv_layout (v : tcvals) : bytes :=
  tc_layout (v_service v) (v_subservice v) (v_apid v) (v_seq v) (v_source v) (v_ack v) (v_app v).
Definition tcv_new (v : tcvals) : res tc :=
  tc_new (v_service v) (v_subservice v) (v_apid v) (v_app v) (v_seq v) (v_source v) (v_ack v).
(* the object the constructor builds for v, with whatever CRC is cached *)
Definition tc_obj (v : tcvals) (crc : option bytes) : tc :=
  {| tc_sph := {| ver := 0; ptype := 1; shf := 1; apid := v_apid v; sflags := 3; scount := v_seq v;
                  dlen := 5 + len (v_app v) + 1 |};
     tc_sec := {| tcs_service := v_service v; tcs_subservice := v_subservice v;
                  tcs_source_id := v_source v; tcs_ack := v_ack v |};
     tc_app := v_app v; tc_crc := crc |}.
(* what each operation of the history machine (Model/PusTc.v : tc_op) does to the values *)
Definition tcv_after (v : tcvals) (o : tc_op) : tcvals :=
  match o with
  | TcSetApp d => {| v_service := v_service v; v_subservice := v_subservice v; v_apid := v_apid v; v_seq := v_seq v;
                     v_source := v_source v; v_ack := v_ack v; v_app := d |}
  | TcSetSeq x => {| v_service := v_service v; v_subservice := v_subservice v; v_apid := v_apid v; v_seq := x;
                     v_source := v_source v; v_ack := v_ack v; v_app := v_app v |}
  | TcSetApid x => {| v_service := v_service v; v_subservice := v_subservice v; v_apid := x; v_seq := v_seq v;
                      v_source := v_source v; v_ack := v_ack v; v_app := v_app v |}
  | TcSetSource x => {| v_service := v_service v; v_subservice := v_subservice v; v_apid := v_apid v; v_seq := v_seq v;
                        v_source := x; v_ack := v_ack v; v_app := v_app v |}
  | _ => v
  end.

Lemma tcv_new_ok v : tcv_valid v -> tcv_new v = Ok (tc_obj v None).
Proof.
  intros (H1 & H2 & H3 & H4 & H5 & H6 & W & L). unfold tcv_new. rewrite tc_new_ok by lia. reflexivity.
Qed.

Lemma tc_apply_obj v crc o t' : tc_apply (tc_obj v crc) o = Ok t' -> exists crc', t' = tc_obj (tcv_after v o) crc'.
Proof.
  destruct o; cbn [tc_apply tcv_after]; intros H.
  - apply bind_ok in H. destruct H as ([b u] & P & H). injection H as <-. cbn [snd].
    unfold tc_pack in P. apply bind_ok in P. destruct P as (hb & _ & P). apply bind_ok in P. destruct P as (sb & _ & P).
    apply bind_ok in P. destruct P as (cb & _ & P). injection P as _ <-. eexists. reflexivity.
  - apply bind_ok in H. destruct H as ([b u] & P & H). injection H as <-. cbn [snd].
    unfold tc_pack_norecalc in P. cbn [tc_obj tc_crc] in P. destruct crc as [c|].
    + apply bind_ok in P. destruct P as (hb & _ & P). apply bind_ok in P. destruct P as (sb & _ & P).
      injection P as _ <-. eexists. reflexivity.
    + unfold tc_pack in P. apply bind_ok in P. destruct P as (hb & _ & P). apply bind_ok in P. destruct P as (sb & _ & P).
      apply bind_ok in P. destruct P as (cb & _ & P). injection P as _ <-. eexists. reflexivity.
  - unfold tc_calc_crc in H. apply bind_ok in H. destruct H as (hb & _ & P). apply bind_ok in P. destruct P as (sb & _ & P).
    apply bind_ok in P. destruct P as (cb & _ & P). injection P as <-. eexists. reflexivity.
  - injection H as <-. exists crc. reflexivity.
  - injection H as <-. exists crc. reflexivity.
  - injection H as <-. exists crc. reflexivity.
  - injection H as <-. exists crc. reflexivity.
Qed.

Lemma tc_run_obj ops : forall v crc t', tc_run (tc_obj v crc) ops = Ok t' ->
  exists crc', t' = tc_obj (fold_left tcv_after ops v) crc'.
Proof.
  induction ops as [|o r IH]; intros v crc t' H; cbn [tc_run fold_left] in *.
  - injection H as <-. exists crc. reflexivity.
  - apply bind_ok in H. destruct H as (t1 & A & H). destruct (tc_apply_obj v crc o t1 A) as (c1 & ->).
    apply (IH _ _ _ H).
Qed.

Lemma tc_obj_pack v crc : tcv_valid v ->
  exists c, tc_pack (tc_obj v crc) = Ok (tcv_layout v, tc_obj v (Some c)) /\
            tc_packet_len (tc_obj v crc) = len (tcv_layout v).
Proof.
  intros V. destruct (tc_pack_layout _ _ _ _ _ _ _ V) as (t & t' & En & Ep & _ & _ & _ & PL & _).
  fold (tcv_new v) in En. rewrite (tcv_new_ok v V) in En. injection En as <-.
  unfold tc_pack in *. cbn [tc_obj tc_sph tc_sec tc_app] in *.
  destruct (sph_pack _) as [hb|]; [|discriminate]. cbn [bind] in *.
  destruct (tcsec_pack _) as [sb|]; [|discriminate]. cbn [bind] in *.
  destruct (struct_pack 2 _) as [cb|]; [|discriminate]. cbn [bind] in *.
  injection Ep as Ep _. exists cb. split; [rewrite Ep; reflexivity|exact PL].
Qed.

(* C11, telecommand: a freshly constructed telecommand driven through ANY history of the
   machine's operations (application data, sequence count, APID, source ID assignments; pack,
   pack without recalculation, calc_crc in between) that the code accepts: when the values it
   holds at the end are valid arguments, its octets are the prescribed layout of those values,
   the reported length is their number, and it equals (==, both ways) the object a fresh
   constructor call builds from them *)
Theorem tc_history_eq_fresh v ops t t' : tcv_valid v -> tcv_new v = Ok t -> tc_run t ops = Ok t' ->
  let v' := fold_left tcv_after ops v in
  tcv_valid v' ->
  exists c u, tc_pack t' = Ok (tcv_layout v', tc_obj v' (Some c)) /\
    tc_packet_len t' = len (tcv_layout v') /\
    tcv_new v' = Ok u /\ tc_eqb t' u = true /\ tc_eqb u t' = true /\
    tc_sph t' = tc_sph u /\ tc_sec t' = tc_sec u /\ tc_app t' = tc_app u.
Proof.
  intros V N R v' V'. rewrite (tcv_new_ok v V) in N. injection N as <-.
  destruct (tc_run_obj ops v None t' R) as (crc & ->). fold v'.
  destruct (tc_obj_pack v' crc V') as (c & P & L).
  exists c, (tc_obj v' None). split; [exact P|]. split; [exact L|]. split; [apply tcv_new_ok; exact V'|].
  destruct (tc_pack_keeps_equality _ _ _ P) as (E1 & E2 & _).
  assert (X : forall c1 c2, tc_eqb (tc_obj v' c1) (tc_obj v' c2) = tc_eqb (tc_obj v' (Some c)) (tc_obj v' crc)) by reflexivity.
  split; [rewrite (X crc None); exact E1|]. split; [rewrite (X None crc); exact E1|]. repeat split.
Qed.

(* the form asked for: only application-data assignments *)
Corollary tc_set_app_data_history service subservice apid seq source_id ack app d0 ds :
  tc_args_valid service subservice apid seq source_id ack app ->
  tc_args_valid service subservice apid seq source_id ack (last ds d0) ->
  exists t t', tc_new service subservice apid app seq source_id ack = Ok t /\
    tc_pack (fold_left tc_set_app_data ds (tc_set_app_data t d0)) =
      Ok (tc_layout service subservice apid seq source_id ack (last ds d0), t') /\
    tc_packet_len (fold_left tc_set_app_data ds (tc_set_app_data t d0)) =
      len (tc_layout service subservice apid seq source_id ack (last ds d0)).
Proof.
  intros V1 V2. destruct (tc_set_app_data_len _ _ _ _ _ _ app (last ds d0) V1 V2) as (t & t' & N & P & L).
  exists t, t'. split; [exact N|]. rewrite tc_setter_history, <- tc_set_app_data_fresh. split; assumption.
Qed.

Corollary tm_set_tm_data_history service subservice apid seq msgcnt ref dest version stamp src d0 ds :
  tm_args_valid service subservice apid seq msgcnt ref dest version stamp src ->
  tm_args_valid service subservice apid seq msgcnt ref dest version stamp (last ds d0) ->
  exists t t', tm_new service subservice stamp src apid seq msgcnt ref dest version = Ok t /\
    tm_pack (fold_left tm_set_tm_data ds (tm_set_tm_data t d0)) =
      Ok (tm_layout service subservice apid seq msgcnt ref dest version stamp (last ds d0), t') /\
    tm_packet_len (fold_left tm_set_tm_data ds (tm_set_tm_data t d0)) =
      len (tm_layout service subservice apid seq msgcnt ref dest version stamp (last ds d0)).
Proof.
  intros V1 V2. destruct (tm_set_tm_data_len _ _ _ _ _ _ _ _ _ src (last ds d0) V1 V2) as (t & t' & N & P & L).
  exists t, t'. split; [exact N|]. rewrite tm_setter_history, <- tm_set_tm_data_fresh. split; assumption.
Qed.

Definition tc_hist_v0 : tcvals :=
  {| v_service := 17; v_subservice := 1; v_apid := 2047; v_seq := 16383; v_source := 65535; v_ack := 15; v_app := [1; 2; 255] |}.
Definition tc_hist_ops : list tc_op :=
  [TcSetApp [9]; TcPack; TcSetSeq 5; TcSetApp []; TcPackNoRecalc; TcSetApid 2; TcCalcCrc; TcSetSource 258; TcSetApp [7; 7]].
Example tc_history_eq_fresh_example :
  tcv_valid tc_hist_v0 /\ tcv_valid (fold_left tcv_after tc_hist_ops tc_hist_v0) /\
  exists t t', tcv_new tc_hist_v0 = Ok t /\ tc_run t tc_hist_ops = Ok t' /\
    (do r <- tc_pack t'; Ok (fst r)) = Ok [24; 2; 192; 5; 0; 8; 47; 17; 1; 1; 2; 7; 7; 194; 19].
Proof.
  split; [apply tc_valid_example|]. split.
  { unfold tcv_valid, tc_args_valid, wf_bytes. cbn. repeat split; try lia. repeat constructor; lia. }
  eexists. eexists. split; [vm_compute; reflexivity|]. split; [vm_compute; reflexivity|]. vm_compute. reflexivity.
Qed.
