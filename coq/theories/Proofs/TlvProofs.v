(* Lemmas about Model/Tlv.v: generic TLV, the six concrete classes, TlvHolder, status helpers.
   Layouts against Spec/TlvSpec.v, round trips, type safety, totality (C10), prefix
   rejection (C10), no over-read (C09). *)
From Coq Require Import ZArith List Bool Lia ZifyBool.
From SP Require Import Base.Result Base.Bytes Base.BytesFacts Base.Utf8 Model.Lv Model.Tlv
  Spec.TlvSpec Proofs.LvProofs.
Import ListNotations.
Open Scope Z_scope.
Ltac Zify.zify_post_hook ::= Z.to_euclidean_division_equations.

(* ================= enumerations ================= *)

Lemma is_tlv_type_iff x :
  is_tlv_type x = true <-> x = 0 \/ x = 1 \/ x = 2 \/ x = 4 \/ x = 5 \/ x = 6.
Proof.
  unfold is_tlv_type, memz, tlv_types, TLV_FILESTORE_REQUEST, TLV_FILESTORE_RESPONSE,
    TLV_MESSAGE_TO_USER, TLV_FAULT_HANDLER, TLV_FLOW_LABEL, TLV_ENTITY_ID.
  cbn [existsb]. lia.
Qed.

Lemma is_tlv_type_byte x : is_tlv_type x = true -> 0 <= x < 256.
Proof. rewrite is_tlv_type_iff. lia. Qed.

Lemma is_fs_action_iff a : is_fs_action a = true <-> 0 <= a <= 8.
Proof.
  unfold is_fs_action, memz, fs_actions, FA_CREATE_FILE, FA_DELETE_FILE, FA_RENAME_FILE,
    FA_APPEND_FILE, FA_REPLACE_FILE, FA_CREATE_DIR, FA_REMOVE_DIR, FA_DENY_FILE, FA_DENY_DIR.
  cbn [existsb]. lia.
Qed.

Lemma is_two_name_spec a : is_two_name a = second_name_present a.
Proof.
  unfold is_two_name, second_name_present, FA_REPLACE_FILE, FA_RENAME_FILE, FA_APPEND_FILE. lia.
Qed.

Lemma tlv_type_of_int_ok x : is_tlv_type x = true -> tlv_type_of_int x = Ok x.
Proof. intros H. unfold tlv_type_of_int. rewrite H. reflexivity. Qed.
Lemma tlv_type_of_int_err x : is_tlv_type x = false -> tlv_type_of_int x = Err EValue.
Proof. intros H. unfold tlv_type_of_int. rewrite H. reflexivity. Qed.

(* ================= one-octet bit fields: sweep over all 256 values ================= *)

Definition chk_nibbles (b : Z) : bool :=
  (Z.land (Z.shiftr b 4) 15 =? b / 16) && (Z.land b 15 =? b mod 16) &&
  (Z.shiftr (Z.land b 240) 4 =? b / 16) &&
  (Z.lor (Z.shiftl (b / 16) 4) (b mod 16) =? b) &&
  (Z.lor (Z.shiftl (b / 16) 4) 0 =? (b / 16) * 16).
Lemma nibbles_sweep : forallb chk_nibbles (zrange 0 256) = true.
Proof. vm_compute. reflexivity. Qed.

Lemma nibbles b : 0 <= b < 256 ->
  Z.land (Z.shiftr b 4) 15 = b / 16 /\ Z.land b 15 = b mod 16 /\
  Z.shiftr (Z.land b 240) 4 = b / 16 /\ Z.lor (Z.shiftl (b / 16) 4) (b mod 16) = b /\
  Z.lor (Z.shiftl (b / 16) 4) 0 = (b / 16) * 16.
Proof.
  intros H. pose proof (sweep chk_nibbles 0 256 ltac:(lia) nibbles_sweep b ltac:(lia)) as S.
  unfold chk_nibbles in S. lia.
Qed.

(* hi*16+lo with both nibbles in range *)
Lemma nibbles_of hi lo : 0 <= hi <= 15 -> 0 <= lo <= 15 ->
  let b := hi * 16 + lo in
  Z.land (Z.shiftr b 4) 15 = hi /\ Z.land b 15 = lo /\ Z.shiftr (Z.land b 240) 4 = hi /\
  Z.lor (Z.shiftl hi 4) lo = b /\ 0 <= b < 256.
Proof.
  intros Hh Hl b. assert (Hb : 0 <= b < 256) by (unfold b; lia).
  destruct (nibbles b Hb) as (A & B & C & D & _).
  assert (b / 16 = hi) by (unfold b; lia). assert (b mod 16 = lo) by (unfold b; lia).
  rewrite A, B, C. repeat split; try lia. rewrite <- D. congruence.
Qed.

(* ================= generic TLV ================= *)

Lemma tlv_new_ok ty v : len v <= 255 -> tlv_new ty v = Ok {| tlv_type := ty; tlv_value := v |}.
Proof. intros H. unfold tlv_new. destruct (len v >? 255) eqn:E; [lia|reflexivity]. Qed.

Lemma tlv_new_too_long ty v : 255 < len v -> tlv_new ty v = Err EValue.
Proof. intros H. unfold tlv_new. destruct (len v >? 255) eqn:E; [reflexivity|lia]. Qed.

Lemma tlv_new_inv ty v t :
  tlv_new ty v = Ok t -> t = {| tlv_type := ty; tlv_value := v |} /\ len v <= 255.
Proof.
  unfold tlv_new. destruct (len v >? 255) eqn:E; intros H; inversion H; subst.
  split; [reflexivity|lia].
Qed.

Lemma ba_append_ok l x : 0 <= x < 256 -> ba_append l x = Ok (l ++ [x]).
Proof. intros H. unfold ba_append, is_byte. destruct ((0 <=? x) && (x <? 256)) eqn:E; [reflexivity|lia]. Qed.
Lemma ba_append_err l x : ~ 0 <= x < 256 -> ba_append l x = Err EValue.
Proof. intros H. unfold ba_append, is_byte. destruct ((0 <=? x) && (x <? 256)) eqn:E; [lia|reflexivity]. Qed.

Lemma tlv_pack_ok ty v :
  0 <= ty < 256 -> len v <= 255 ->
  tlv_pack {| tlv_type := ty; tlv_value := v |} = Ok (tlv_layout ty v).
Proof.
  intros Ht Hl. unfold tlv_pack. cbn [tlv_type tlv_value].
  pose proof (len_nonneg v).
  rewrite ba_append_ok by lia. cbn [bind app]. rewrite ba_append_ok by lia. reflexivity.
Qed.

Lemma tlv_layout_len ty v : len (tlv_layout ty v) = 2 + len v.
Proof. unfold tlv_layout. rewrite !len_cons. lia. Qed.

Lemma tlv_pack_len t b : tlv_pack t = Ok b -> len b = tlv_packet_len t.
Proof.
  unfold tlv_pack, ba_append. destruct (is_byte (tlv_type t)); cbn [bind]; [|discriminate].
  destruct (is_byte (len (tlv_value t))); cbn [bind]; [|discriminate].
  intros H; inversion H. unfold tlv_packet_len. cbn [app]. rewrite !len_cons. lia.
Qed.

Lemma tlv_pack_bad_type ty v : ~ 0 <= ty < 256 ->
  tlv_pack {| tlv_type := ty; tlv_value := v |} = Err EValue.
Proof. intros H. unfold tlv_pack. cbn [tlv_type]. rewrite ba_append_err by assumption. reflexivity. Qed.

(* decode (type, length, value ++ anything) *)
Lemma tlv_unpack_layout_app ty v rest :
  is_tlv_type ty = true -> len v <= 255 ->
  tlv_unpack (tlv_layout ty v ++ rest) = Ok {| tlv_type := ty; tlv_value := v |}.
Proof.
  intros Ht Hl. unfold tlv_layout. cbn [app]. unfold tlv_unpack.
  pose proof (len_nonneg v). pose proof (len_nonneg rest).
  rewrite !len_cons, len_app.
  destruct (1 + (1 + (len v + len rest)) <? 2) eqn:E1; [lia|].
  rewrite py_get_0_cons. cbn [bind]. rewrite tlv_type_of_int_ok by assumption. cbn [bind].
  rewrite py_get_1_cons. cbn [bind].
  destruct (2 + len v >? 1 + (1 + (len v + len rest))) eqn:E2; [lia|].
  rewrite slice_cons2 by lia. rewrite firstn_len_app. apply tlv_new_ok. assumption.
Qed.

Lemma tlv_unpack_layout ty v :
  is_tlv_type ty = true -> len v <= 255 ->
  tlv_unpack (tlv_layout ty v) = Ok {| tlv_type := ty; tlv_value := v |}.
Proof.
  intros. rewrite <- (app_nil_r (tlv_layout ty v)). apply tlv_unpack_layout_app; assumption.
Qed.

Lemma tlv_unpack_inv d t :
  wf_bytes d -> tlv_unpack d = Ok t ->
  exists rest, d = tlv_layout (tlv_type t) (tlv_value t) ++ rest /\
               is_tlv_type (tlv_type t) = true /\ len (tlv_value t) <= 255.
Proof.
  intros Hwf H. unfold tlv_unpack in H.
  destruct (len d <? 2) eqn:E1; [discriminate|].
  destruct d as [|ty [|l r]]; try (cbn in E1; discriminate).
  apply wf_bytes_cons in Hwf. destruct Hwf as [Hty Hwf].
  apply wf_bytes_cons in Hwf. destruct Hwf as [Hl Hr].
  rewrite py_get_0_cons in H. cbn [bind] in H.
  unfold tlv_type_of_int in H. destruct (is_tlv_type ty) eqn:Et; [|discriminate].
  cbn [bind] in H. rewrite py_get_1_cons in H. cbn [bind] in H.
  rewrite !len_cons in H. pose proof (len_nonneg r).
  destruct (2 + l >? 1 + (1 + len r)) eqn:E2; [discriminate|].
  rewrite slice_cons2 in H by lia. apply tlv_new_inv in H. destruct H as [-> Hlen].
  cbn [tlv_type tlv_value] in *. exists (skipn (Z.to_nat l) r).
  split; [|split; assumption].
  unfold tlv_layout. cbn [app]. rewrite firstn_skipn. f_equal. f_equal.
  rewrite len_firstn; [lia|]. unfold len in *. lia.
Qed.

Lemma tlv_unpack_err d e : tlv_unpack d = Err e -> e = ETooShort \/ e = EValue.
Proof.
  unfold tlv_unpack. destruct (len d <? 2) eqn:E1; [intros H; inversion H; auto|].
  destruct d as [|ty [|l r]]; try (cbn in E1; discriminate).
  rewrite py_get_0_cons. cbn [bind]. unfold tlv_type_of_int.
  destruct (is_tlv_type ty); cbn [bind]; [|intros H; inversion H; auto].
  rewrite py_get_1_cons. cbn [bind].
  destruct (2 + l >? len (ty :: l :: r)); [intros H; inversion H; auto|].
  unfold tlv_new. match goal with |- context [if ?c then _ else _] => destruct c end;
    intros H; inversion H; auto.
Qed.

Lemma tlv_unpack_total d : ok_or_documented (tlv_unpack d).
Proof.
  destruct (tlv_unpack d) eqn:E; [exact I|]. cbn.
  destruct (tlv_unpack_err d e E) as [-> | ->]; reflexivity.
Qed.

Lemma tlv_unpack_short d : len d < 2 -> tlv_unpack d = Err ETooShort.
Proof. intros H. unfold tlv_unpack. destruct (len d <? 2) eqn:E; [reflexivity|lia]. Qed.

Lemma tlv_unpack_unknown_type ty l r :
  is_tlv_type ty = false -> tlv_unpack (ty :: l :: r) = Err EValue.
Proof.
  intros H. unfold tlv_unpack. rewrite !len_cons. pose proof (len_nonneg r).
  destruct (1 + (1 + len r) <? 2) eqn:E; [lia|].
  rewrite py_get_0_cons. cbn [bind]. rewrite tlv_type_of_int_err by assumption. reflexivity.
Qed.

Lemma tlv_prefix_rejected ty v n :
  len v <= 255 -> (n < length (tlv_layout ty v))%nat ->
  exists e, tlv_unpack (firstn n (tlv_layout ty v)) = Err e /\ documented e = true.
Proof.
  intros Hl Hn.
  destruct (tlv_unpack (firstn n (tlv_layout ty v))) as [t|e] eqn:E.
  - exfalso. unfold tlv_layout in *. cbn [length] in Hn.
    destruct n as [|[|k]]; [cbn in E; discriminate | cbn in E; discriminate |].
    cbn [firstn] in E. unfold tlv_unpack in E. rewrite !len_cons in E.
    pose proof (len_nonneg (firstn k v)).
    destruct (1 + (1 + len (firstn k v)) <? 2) eqn:E1; [lia|].
    rewrite py_get_0_cons in E. cbn [bind] in E. unfold tlv_type_of_int in E.
    destruct (is_tlv_type ty); [|discriminate]. cbn [bind] in E.
    rewrite py_get_1_cons in E. cbn [bind] in E.
    assert (len (firstn k v) < len v) by (unfold len; rewrite firstn_length; lia).
    destruct (2 + len v >? 1 + (1 + len (firstn k v))) eqn:E2; [discriminate|lia].
  - exists e. split; [reflexivity|]. destruct (tlv_unpack_err _ _ E) as [-> | ->]; reflexivity.
Qed.

Lemma tlv_no_overread d t :
  wf_bytes d -> tlv_unpack d = Ok t ->
  tlv_unpack (firstn (Z.to_nat (tlv_packet_len t)) d) = Ok t /\
  tlv_pack t = Ok (firstn (Z.to_nat (tlv_packet_len t)) d).
Proof.
  intros Hwf H. destruct (tlv_unpack_inv d t Hwf H) as (rest & -> & Ht & Hl).
  unfold tlv_packet_len. rewrite <- tlv_layout_len with (ty := tlv_type t).
  rewrite firstn_len_app. destruct t as [ty v]. cbn [tlv_type tlv_value] in *. split.
  - apply tlv_unpack_layout; assumption.
  - apply tlv_pack_ok; [apply is_tlv_type_byte|]; assumption.
Qed.

Lemma tlv_suffix_irrelevant ty v s :
  is_tlv_type ty = true -> len v <= 255 ->
  tlv_unpack (tlv_layout ty v ++ s) = tlv_unpack (tlv_layout ty v).
Proof. intros. rewrite tlv_unpack_layout_app, tlv_unpack_layout by assumption. reflexivity. Qed.

Lemma tlv_rest_after ty v rest :
  slice_from (tlv_layout ty v ++ rest) (2 + len v) = rest.
Proof. apply slice_from_app. symmetry. apply tlv_layout_len. Qed.

Lemma tlv_eqb_eq a b : tlv_eqb a b = true <-> a = b.
Proof.
  unfold tlv_eqb. rewrite andb_true_iff, Z.eqb_eq, bytes_eqb_eq.
  destruct a, b; cbn. split; [intros [-> ->]; reflexivity | intros H; inversion H; auto].
Qed.

Lemma check_type_spec s a :
  (s = a -> check_type s a = Ok tt) /\ (s <> a -> check_type s a = Err ETlvMismatch).
Proof.
  unfold check_type. split; intros H.
  - subst. rewrite Z.eqb_refl. reflexivity.
  - destruct (s =? a) eqn:E; [lia|reflexivity].
Qed.

(* ================= EntityIdTlv / FlowLabelTlv / MessageToUserTlv ================= *)

Lemma wrap_new_layout cls v :
  0 <= cls < 256 -> len v <= 255 ->
  exists t, wrap_new cls v = Ok t /\ tlv_pack t = Ok (tlv_layout cls v) /\
            tlv_packet_len t = len (tlv_layout cls v) /\ tlv_value t = v /\ tlv_type t = cls.
Proof.
  intros Hc Hl. eexists. unfold wrap_new. rewrite tlv_new_ok by assumption.
  split; [reflexivity|]. rewrite tlv_pack_ok by assumption. rewrite tlv_layout_len.
  repeat split; reflexivity.
Qed.

Lemma wrap_new_too_long cls v : 255 < len v -> wrap_new cls v = Err EValue.
Proof. apply tlv_new_too_long. Qed.

Lemma wrap_unpack_roundtrip cls v rest :
  is_tlv_type cls = true -> len v <= 255 ->
  wrap_unpack cls (tlv_layout cls v ++ rest) = Ok {| tlv_type := cls; tlv_value := v |}.
Proof.
  intros Hc Hl. unfold wrap_unpack. rewrite tlv_unpack_layout_app by assumption.
  cbn [bind tlv_type]. rewrite Z.eqb_refl. reflexivity.
Qed.

(* a TLV of any other (known) type is refused with the type-mismatch error *)
Lemma wrap_unpack_foreign cls ty v rest :
  is_tlv_type ty = true -> ty <> cls -> len v <= 255 ->
  wrap_unpack cls (tlv_layout ty v ++ rest) = Err ETlvMismatch.
Proof.
  intros Ht Hne Hl. unfold wrap_unpack. rewrite tlv_unpack_layout_app by assumption.
  cbn [bind tlv_type]. destruct (ty =? cls) eqn:E; [lia|reflexivity].
Qed.

Lemma wrap_from_tlv_same cls v :
  wrap_from_tlv cls {| tlv_type := cls; tlv_value := v |} = Ok {| tlv_type := cls; tlv_value := v |}.
Proof. unfold wrap_from_tlv. cbn [tlv_type]. rewrite Z.eqb_refl. reflexivity. Qed.

Lemma wrap_from_tlv_foreign cls t : tlv_type t <> cls -> wrap_from_tlv cls t = Err ETlvMismatch.
Proof. intros H. unfold wrap_from_tlv. destruct (tlv_type t =? cls) eqn:E; [lia|reflexivity]. Qed.

(* whatever is accepted has the class's type: never an object of the wrong kind *)
Lemma wrap_unpack_type cls d t : wrap_unpack cls d = Ok t -> tlv_type t = cls /\ tlv_unpack d = Ok t.
Proof.
  unfold wrap_unpack. destruct (tlv_unpack d) as [u|]; cbn [bind]; [|discriminate].
  destruct (tlv_type u =? cls) eqn:E; cbn [negb]; intros H; inversion H; subst. split; [lia|reflexivity].
Qed.
Lemma wrap_from_tlv_type cls u t : wrap_from_tlv cls u = Ok t -> t = u /\ tlv_type t = cls.
Proof.
  unfold wrap_from_tlv. destruct (tlv_type u =? cls) eqn:E; cbn [negb]; intros H; inversion H; subst.
  split; [reflexivity|lia].
Qed.

Lemma wrap_unpack_err cls d e :
  wrap_unpack cls d = Err e -> e = ETooShort \/ e = EValue \/ e = ETlvMismatch.
Proof.
  unfold wrap_unpack. destruct (tlv_unpack d) as [u|e'] eqn:E; cbn [bind].
  - destruct (tlv_type u =? cls); cbn [negb]; intros H; inversion H; auto.
  - intros H; inversion H; subst. destruct (tlv_unpack_err _ _ E); auto.
Qed.

Lemma wrap_unpack_total cls d : ok_or_documented (wrap_unpack cls d).
Proof.
  destruct (wrap_unpack cls d) eqn:E; [exact I|]. cbn.
  destruct (wrap_unpack_err _ _ _ E) as [-> | [-> | ->]]; reflexivity.
Qed.

Lemma wrap_prefix_rejected cls v n :
  len v <= 255 -> (n < length (tlv_layout cls v))%nat ->
  exists e, wrap_unpack cls (firstn n (tlv_layout cls v)) = Err e /\ documented e = true.
Proof.
  intros Hl Hn. destruct (tlv_prefix_rejected cls v n Hl Hn) as (e & He & Hd).
  exists e. unfold wrap_unpack. rewrite He. split; [reflexivity|assumption].
Qed.

Lemma wrap_no_overread cls d t :
  wf_bytes d -> wrap_unpack cls d = Ok t ->
  wrap_unpack cls (firstn (Z.to_nat (tlv_packet_len t)) d) = Ok t /\
  tlv_pack t = Ok (firstn (Z.to_nat (tlv_packet_len t)) d).
Proof.
  intros Hwf H. destruct (wrap_unpack_type _ _ _ H) as [Ht Hu].
  destruct (tlv_no_overread d t Hwf Hu) as [A B]. split; [|assumption].
  unfold wrap_unpack. rewrite A. cbn [bind]. rewrite Ht, Z.eqb_refl. reflexivity.
Qed.

Lemma wrap_suffix_irrelevant cls v s :
  is_tlv_type cls = true -> len v <= 255 ->
  wrap_unpack cls (tlv_layout cls v ++ s) = wrap_unpack cls (tlv_layout cls v).
Proof.
  intros. rewrite wrap_unpack_roundtrip by assumption.
  rewrite <- (app_nil_r (tlv_layout cls v)). rewrite wrap_unpack_roundtrip by assumption. reflexivity.
Qed.

(* ================= FaultHandlerOverrideTlv ================= *)

Lemma fault_new_layout cc hc :
  0 <= cc <= 15 -> 0 <= hc <= 15 ->
  exists f, fault_new cc hc = Ok f /\ fh_cc f = cc /\ fh_hc f = hc /\
            tlv_pack (fh_tlv f) = Ok (fault_layout cc hc) /\
            tlv_packet_len (fh_tlv f) = len (fault_layout cc hc) /\
            tlv_value (fh_tlv f) = [cc * 16 + hc].
Proof.
  intros Hc Hh. destruct (nibbles_of cc hc Hc Hh) as (_ & _ & _ & D & R).
  unfold fault_new. rewrite D. unfold is_byte.
  destruct ((0 <=? cc * 16 + hc) && (cc * 16 + hc <? 256)) eqn:E; [|lia].
  rewrite tlv_new_ok by (cbn; lia). cbn [bind]. eexists. split; [reflexivity|].
  cbn [fh_cc fh_hc fh_tlv]. unfold fault_layout, T_FAULT_HANDLER_OVERRIDE, TLV_FAULT_HANDLER.
  rewrite tlv_pack_ok by (cbn; lia). repeat split; reflexivity.
Qed.

Lemma fault_new_refuses cc hc :
  ~ 0 <= Z.lor (Z.shiftl cc 4) hc < 256 -> fault_new cc hc = Err EValue.
Proof.
  intros H. unfold fault_new, is_byte.
  destruct ((0 <=? Z.lor (Z.shiftl cc 4) hc) && (Z.lor (Z.shiftl cc 4) hc <? 256)) eqn:E; [lia|reflexivity].
Qed.

Lemma fault_from_tlv_layout cc hc tail :
  0 <= cc <= 15 -> 0 <= hc <= 15 ->
  fault_from_tlv {| tlv_type := TLV_FAULT_HANDLER; tlv_value := (cc * 16 + hc) :: tail |} =
  Ok {| fh_cc := cc; fh_hc := hc;
        fh_tlv := {| tlv_type := TLV_FAULT_HANDLER; tlv_value := (cc * 16 + hc) :: tail |} |}.
Proof.
  intros Hc Hh. destruct (nibbles_of cc hc Hc Hh) as (A & B & _ & _ & _).
  unfold fault_from_tlv. cbn [tlv_type tlv_value]. rewrite Z.eqb_refl. cbn [negb].
  rewrite len_cons. pose proof (len_nonneg tail).
  destruct (1 + len tail <? 1) eqn:E; [lia|]. rewrite py_get_0_cons. cbn [bind].
  rewrite A, B. reflexivity.
Qed.

Lemma fault_unpack_roundtrip cc hc rest :
  0 <= cc <= 15 -> 0 <= hc <= 15 ->
  fault_unpack (fault_layout cc hc ++ rest) =
  Ok {| fh_cc := cc; fh_hc := hc;
        fh_tlv := {| tlv_type := TLV_FAULT_HANDLER; tlv_value := [cc * 16 + hc] |} |}.
Proof.
  intros Hc Hh. destruct (nibbles_of cc hc Hc Hh) as (_ & B & C & _ & _).
  unfold fault_unpack, fault_layout, T_FAULT_HANDLER_OVERRIDE.
  rewrite tlv_unpack_layout_app by (cbn; lia || reflexivity).
  cbn [bind tlv_type tlv_value]. unfold TLV_FAULT_HANDLER. rewrite Z.eqb_refl. cbn [negb].
  change (len [cc * 16 + hc] <? 1) with false. rewrite py_get_0_cons. cbn [bind].
  rewrite B, C. reflexivity.
Qed.

Lemma fault_unpack_foreign ty v rest :
  is_tlv_type ty = true -> ty <> TLV_FAULT_HANDLER -> len v <= 255 ->
  fault_unpack (tlv_layout ty v ++ rest) = Err ETlvMismatch.
Proof.
  intros Ht Hne Hl. unfold fault_unpack. rewrite tlv_unpack_layout_app by assumption.
  cbn [bind tlv_type]. destruct (ty =? TLV_FAULT_HANDLER) eqn:E; [lia|reflexivity].
Qed.

Lemma fault_from_tlv_foreign t :
  tlv_type t <> TLV_FAULT_HANDLER -> fault_from_tlv t = Err ETlvMismatch.
Proof.
  intros H. unfold fault_from_tlv. destruct (tlv_type t =? TLV_FAULT_HANDLER) eqn:E; [lia|reflexivity].
Qed.

Lemma fault_from_tlv_err t e :
  fault_from_tlv t = Err e -> e = ETlvMismatch \/ e = ETooShort.
Proof.
  unfold fault_from_tlv. destruct (negb _); [intros H; inversion H; auto|].
  destruct (len (tlv_value t) <? 1) eqn:E; [intros H; inversion H; auto|].
  destruct (tlv_value t) as [|x r]; [cbn in E; discriminate|].
  rewrite py_get_0_cons. cbn [bind]. discriminate.
Qed.

Lemma fault_from_tlv_type t f :
  fault_from_tlv t = Ok f -> fh_tlv f = t /\ tlv_type t = TLV_FAULT_HANDLER.
Proof.
  unfold fault_from_tlv. destruct (tlv_type t =? TLV_FAULT_HANDLER) eqn:E; cbn [negb]; [|discriminate].
  destruct (len (tlv_value t) <? 1); [discriminate|].
  destruct (py_get (tlv_value t) 0); cbn [bind]; [|discriminate].
  intros H; inversion H; subst. cbn. split; [reflexivity|lia].
Qed.

Lemma fault_unpack_err d e :
  fault_unpack d = Err e -> e = ETooShort \/ e = EValue \/ e = ETlvMismatch.
Proof.
  unfold fault_unpack. destruct (tlv_unpack d) as [t|e'] eqn:E; cbn [bind].
  - destruct (negb _); [intros H; inversion H; auto|].
    destruct (len (tlv_value t) <? 1) eqn:E1; [intros H; inversion H; auto|].
    destruct (tlv_value t) as [|x r]; [cbn in E1; discriminate|].
    rewrite py_get_0_cons. cbn [bind]. discriminate.
  - intros H; inversion H; subst. destruct (tlv_unpack_err _ _ E); auto.
Qed.

Lemma fault_unpack_total d : ok_or_documented (fault_unpack d).
Proof.
  destruct (fault_unpack d) eqn:E; [exact I|]. cbn.
  destruct (fault_unpack_err _ _ E) as [-> | [-> | ->]]; reflexivity.
Qed.

Lemma fault_unpack_type d f :
  fault_unpack d = Ok f -> tlv_unpack d = Ok (fh_tlv f) /\ tlv_type (fh_tlv f) = TLV_FAULT_HANDLER.
Proof.
  unfold fault_unpack. destruct (tlv_unpack d) as [t|]; cbn [bind]; [|discriminate].
  destruct (tlv_type t =? TLV_FAULT_HANDLER) eqn:E; cbn [negb]; [|discriminate].
  destruct (len (tlv_value t) <? 1); [discriminate|].
  destruct (py_get (tlv_value t) 0); cbn [bind]; [|discriminate].
  intros H; inversion H; subst. cbn. split; [reflexivity|lia].
Qed.

Lemma fault_prefix_rejected cc hc n :
  (n < length (fault_layout cc hc))%nat ->
  exists e, fault_unpack (firstn n (fault_layout cc hc)) = Err e /\ documented e = true.
Proof.
  intros Hn. unfold fault_layout in *.
  destruct (tlv_prefix_rejected T_FAULT_HANDLER_OVERRIDE [cc * 16 + hc] n ltac:(cbn; lia) Hn)
    as (e & He & Hd).
  exists e. unfold fault_unpack. rewrite He. split; [reflexivity|assumption].
Qed.

Lemma fault_no_overread d f :
  wf_bytes d -> fault_unpack d = Ok f ->
  fault_unpack (firstn (Z.to_nat (tlv_packet_len (fh_tlv f))) d) = Ok f.
Proof.
  intros Hwf H. destruct (fault_unpack_type _ _ H) as [Hu _].
  destruct (tlv_no_overread d _ Hwf Hu) as [A _].
  unfold fault_unpack in *. rewrite A. rewrite Hu in H. exact H.
Qed.

(* ================= FileStoreRequestBase ================= *)

Lemma slice_from_cons_app x (p q : bytes) n : n = 1 + len p -> slice_from (x :: p ++ q) n = q.
Proof.
  intros ->. change (x :: p ++ q) with ((x :: p) ++ q). apply slice_from_app.
  rewrite len_cons. reflexivity.
Qed.

Lemma slice_from_1 x (p : bytes) : slice_from (x :: p) 1 = p.
Proof. reflexivity. Qed.

Lemma lv_layout_len v : len (lv_layout v) = 1 + len v.
Proof. unfold lv_layout. apply len_cons. Qed.

Lemma fs_names_len a f s :
  len (fs_names_layout a f s) = 1 + len f + (if second_name_present a then 1 + len s else 0).
Proof.
  unfold fs_names_layout. rewrite len_app, lv_layout_len.
  destruct (second_name_present a); [rewrite lv_layout_len|rewrite len_nil]; lia.
Qed.

Lemma fs_action_ok a : 0 <= a <= 8 -> fs_action_of_int a = Ok a.
Proof.
  intros H. unfold fs_action_of_int. destruct (is_fs_action a) eqn:E; [reflexivity|].
  apply is_fs_action_iff in H. congruence.
Qed.

Lemma common_packer_layout a st f s :
  0 <= a <= 8 -> 0 <= st <= 15 -> len f <= 255 ->
  (second_name_present a = true -> len s <= 255) ->
  common_packer a st f s = Ok ([a * 16 + st] ++ fs_names_layout a f s).
Proof.
  intros Ha Hs Hf Hs2. destruct (nibbles_of a st ltac:(lia) Hs) as (_ & _ & _ & D & R).
  unfold common_packer. rewrite D. rewrite ba_append_ok by lia. cbn [bind app].
  rewrite lv_new_ok by assumption. cbn [bind]. rewrite is_two_name_spec.
  unfold fs_names_layout. destruct (second_name_present a).
  - rewrite lv_new_ok by auto. cbn [bind]. rewrite !lv_pack_layout. cbn [app].
    try rewrite <- app_assoc; reflexivity.
  - rewrite lv_pack_layout, app_nil_r. reflexivity.
Qed.

Lemma common_packer_err a st f s e : common_packer a st f s = Err e -> e = EValue.
Proof.
  unfold common_packer, ba_append. destruct (is_byte _); cbn [bind]; [|intros H; inversion H; auto].
  unfold lv_new. destruct (len f >? 255); cbn [bind]; [intros H; inversion H; auto|].
  destruct (is_two_name a); [|discriminate].
  destruct (len s >? 255); cbn [bind]; [intros H; inversion H; auto|discriminate].
Qed.

(* the common decoder on a well-formed value followed by anything *)
Lemma common_unpacker_layout a st f s tail :
  0 <= a <= 8 -> 0 <= st <= 15 -> len f <= 255 -> utf8_valid f = true ->
  (second_name_present a = true -> len s <= 255 /\ utf8_valid s = true) ->
  common_unpacker ([a * 16 + st] ++ fs_names_layout a f s ++ tail) =
    Ok (a, f, st, 1 + len (fs_names_layout a f s),
        if second_name_present a then Some s else None) /\
  slice_from ([a * 16 + st] ++ fs_names_layout a f s ++ tail)
             (1 + len (fs_names_layout a f s)) = tail.
Proof.
  intros Ha Hs Hf Uf H2. destruct (nibbles_of a st ltac:(lia) Hs) as (A & B & _ & _ & _).
  split; [|cbn [app]; apply slice_from_cons_app; reflexivity].
  rewrite fs_names_len. unfold common_unpacker. cbn [app]. rewrite len_cons.
  pose proof (len_nonneg (fs_names_layout a f s ++ tail)).
  destruct (1 + len (fs_names_layout a f s ++ tail) <? 1) eqn:E; [lia|].
  rewrite py_get_0_cons. cbn [bind]. rewrite A, B. rewrite fs_action_ok by assumption.
  cbn [bind]. rewrite slice_from_1. unfold fs_names_layout. rewrite <- app_assoc.
  rewrite <- lv_pack_layout. rewrite lv_unpack_pack_app by assumption. cbn [bind].
  rewrite utf8_decode_ok by assumption. cbn [bind]. rewrite is_two_name_spec.
  destruct (second_name_present a) eqn:E2.
  - destruct (H2 eq_refl) as [Hl2 U2].
    rewrite slice_from_cons_app by (rewrite lv_pack_len; reflexivity).
    rewrite <- lv_pack_layout. rewrite lv_unpack_pack_app by assumption. cbn [bind].
    rewrite utf8_decode_ok by assumption. cbn [bind]. unfold lv_packet_len.
    match goal with |- Ok (_, _, _, ?x, _) = Ok (_, _, _, ?y, _) => replace x with y by lia end.
    reflexivity.
  - unfold lv_packet_len.
    match goal with |- Ok (_, _, _, ?x, _) = Ok (_, _, _, ?y, _) => replace x with y by lia end.
    reflexivity.
Qed.

Lemma common_unpacker_total raw : ok_or_documented (common_unpacker raw).
Proof.
  unfold common_unpacker. destruct (len raw <? 1) eqn:E; [reflexivity|].
  destruct raw as [|r0 r]; [cbn in E; discriminate|].
  rewrite py_get_0_cons. cbn [bind]. unfold fs_action_of_int.
  destruct (is_fs_action _); cbn [bind]; [|reflexivity].
  apply bind_documented; [apply lv_unpack_total|]. intros l1 _. cbv zeta.
  unfold utf8_decode. destruct (utf8_valid l1); cbn [bind]; [|reflexivity].
  destruct (is_two_name _); [|exact I].
  apply bind_documented; [apply lv_unpack_total|]. intros l2 _.
  destruct (utf8_valid l2); cbn [bind]; [exact I|reflexivity].
Qed.

(* what a successful common decode tells about its outputs *)
Lemma Ok_inj {A} (x y : A) : Ok x = Ok y -> x = y.
Proof. intros H; injection H; auto. Qed.
Ltac tuple_inv H :=
  apply Ok_inj in H;
  repeat (apply pair_equal_spec in H; let H' := fresh "T" in destruct H as [H H']).

Lemma common_unpacker_inv raw a n1 st idx n2 :
  common_unpacker raw = Ok (a, n1, st, idx, n2) ->
  idx = 1 + (len n1 + 1) + (match n2 with Some s => len s + 1 | None => 0 end) /\
  (is_two_name a = true -> exists s, n2 = Some s) /\ (is_two_name a = false -> n2 = None) /\
  0 <= a <= 8.
Proof.
  unfold common_unpacker. destruct (len raw <? 1); [discriminate|].
  destruct (py_get raw 0) as [r0|]; cbn [bind]; [|discriminate].
  unfold fs_action_of_int. destruct (is_fs_action _) eqn:EA; cbn [bind]; [|discriminate].
  apply is_fs_action_iff in EA.
  destruct (lv_unpack _) as [l1|]; cbn [bind]; [|discriminate]. cbv zeta.
  destruct (utf8_decode l1) as [m1|] eqn:U1; cbn [bind]; [|discriminate].
  apply utf8_decode_inv in U1. destruct U1 as [-> _].
  destruct (is_two_name _) eqn:E2.
  - destruct (lv_unpack _) as [l2|]; cbn [bind]; [|discriminate].
    destruct (utf8_decode l2) as [m2|] eqn:U2; cbn [bind]; [|discriminate].
    apply utf8_decode_inv in U2. destruct U2 as [-> _].
    intros H; tuple_inv H; subst. unfold lv_packet_len.
    repeat split; try lia; try congruence. eauto.
  - intros H; tuple_inv H; subst. unfold lv_packet_len.
    repeat split; try lia; try congruence.
Qed.

(* ================= FileStoreRequestTlv ================= *)

Definition fsreq_norm (a : Z) (s : bytes) : bytes := if second_name_present a then s else [].

Lemma fsreq_packet_len_layout r :
  fsreq_packet_len r = len (fsreq_layout (fq_action r) (fq_first r) (fq_second r)).
Proof.
  unfold fsreq_packet_len, common_packet_len, fsreq_layout.
  rewrite tlv_layout_len, len_app, fs_names_len, is_two_name_spec.
  change (len [fq_action r * 16]) with 1. destruct (second_name_present _); lia.
Qed.

Lemma fsreq_pack_layout a f s :
  0 <= a <= 8 -> 1 + len (fs_names_layout a f s) <= 255 ->
  let r := {| fq_action := a; fq_first := f; fq_second := s |} in
  fsreq_pack r = Ok (fsreq_layout a f s) /\
  fsreq_value r = Ok ([a * 16] ++ fs_names_layout a f s) /\
  fsreq_packet_len r = len (fsreq_layout a f s).
Proof.
  intros Ha Hl r. pose proof (fs_names_len a f s) as L.
  pose proof (len_nonneg f). pose proof (len_nonneg s).
  assert (P : common_packer a 0 f s = Ok ([a * 16 + 0] ++ fs_names_layout a f s)).
  { apply common_packer_layout; try lia.
    - destruct (second_name_present a); lia.
    - intros E. rewrite E in L. lia. }
  rewrite Z.add_0_r in P.
  split; [|split; [|apply (fsreq_packet_len_layout r)]].
  - unfold fsreq_pack, fsreq_build_tlv, r. cbn [fq_action fq_first fq_second]. rewrite P. cbn [bind].
    rewrite tlv_new_ok by (rewrite len_app; change (len [a * 16]) with 1; lia). cbn [bind].
    apply tlv_pack_ok; [cbv; split; [discriminate|reflexivity]|].
    rewrite len_app. change (len [a * 16]) with 1. lia.
  - unfold fsreq_value, fsreq_build_tlv, r. cbn [fq_action fq_first fq_second]. rewrite P. cbn [bind].
    rewrite tlv_new_ok by (rewrite len_app; change (len [a * 16]) with 1; lia). reflexivity.
Qed.

(* what does not fit a TLV is refused with ValueError *)
Lemma fsreq_pack_too_long a f s :
  0 <= a <= 8 -> 255 < 1 + len (fs_names_layout a f s) ->
  fsreq_pack {| fq_action := a; fq_first := f; fq_second := s |} = Err EValue.
Proof.
  intros Ha Hl. unfold fsreq_pack, fsreq_build_tlv. cbn [fq_action fq_first fq_second].
  destruct (common_packer a 0 f s) as [v|e] eqn:P; cbn [bind].
  - assert (v = [a * 16 + 0] ++ fs_names_layout a f s) as ->.
    { pose proof P as P'. unfold common_packer in P'.
      destruct (ba_append [] _); cbn [bind] in P'; [|discriminate].
      destruct (lv_new f) eqn:Lf; cbn [bind] in P'; [|discriminate].
      apply lv_new_inv in Lf. destruct Lf as [_ Lf].
      rewrite common_packer_layout in P; try lia; [inversion P; reflexivity|].
      intros E. rewrite is_two_name_spec, E in P'.
      destruct (lv_new s) eqn:Ls; cbn [bind] in P'; [|discriminate].
      apply lv_new_inv in Ls. lia. }
    rewrite tlv_new_too_long; [reflexivity|]. rewrite len_app.
    change (len [a * 16 + 0]) with 1. lia.
  - apply common_packer_err in P. subst. reflexivity.
Qed.

Lemma fsreq_set_fields_layout a st f s :
  0 <= a <= 8 -> 0 <= st <= 15 -> len f <= 255 -> utf8_valid f = true ->
  (second_name_present a = true -> len s <= 255 /\ utf8_valid s = true) ->
  fsreq_set_fields ([a * 16 + st] ++ fs_names_layout a f s) =
  Ok {| fq_action := a; fq_first := f; fq_second := fsreq_norm a s |}.
Proof.
  intros Ha Hs Hf Uf H2.
  destruct (common_unpacker_layout a st f s [] Ha Hs Hf Uf H2) as [C _].
  rewrite app_nil_r in C. unfold fsreq_set_fields. rewrite C. cbn [bind].
  rewrite len_app. change (len [a * 16 + st]) with 1. rewrite Z.eqb_refl. cbn [negb].
  unfold fsreq_norm. destruct (second_name_present a); reflexivity.
Qed.

(* decode (encode r ++ anything) = r (the second name only exists for rename/append/replace);
   the spare nibble of the first value octet is ignored *)
Lemma fsreq_unpack_roundtrip a st f s rest :
  0 <= a <= 8 -> 0 <= st <= 15 -> 1 + len (fs_names_layout a f s) <= 255 ->
  utf8_valid f = true -> (second_name_present a = true -> utf8_valid s = true) ->
  fsreq_unpack (tlv_layout T_FILESTORE_REQUEST ([a * 16 + st] ++ fs_names_layout a f s) ++ rest) =
  Ok {| fq_action := a; fq_first := f; fq_second := fsreq_norm a s |}.
Proof.
  intros Ha Hs Hl Uf U2. pose proof (fs_names_len a f s) as L.
  pose proof (len_nonneg f). pose proof (len_nonneg s).
  unfold fsreq_unpack. rewrite tlv_unpack_layout_app;
    [|reflexivity|rewrite len_app; change (len [a * 16 + st]) with 1; lia].
  cbn [bind]. unfold fsreq_from_tlv. cbn [tlv_type tlv_value].
  change (negb (T_FILESTORE_REQUEST =? TLV_FILESTORE_REQUEST)) with false. cbv iota.
  apply fsreq_set_fields_layout; try assumption.
  - destruct (second_name_present a); lia.
  - intros E. split; [rewrite E in L; lia|auto].
Qed.

Lemma fsreq_from_tlv_foreign t :
  tlv_type t <> TLV_FILESTORE_REQUEST -> fsreq_from_tlv t = Err ETlvMismatch.
Proof.
  intros H. unfold fsreq_from_tlv. destruct (tlv_type t =? TLV_FILESTORE_REQUEST) eqn:E; [lia|reflexivity].
Qed.

Lemma fsreq_unpack_foreign ty v rest :
  is_tlv_type ty = true -> ty <> TLV_FILESTORE_REQUEST -> len v <= 255 ->
  fsreq_unpack (tlv_layout ty v ++ rest) = Err ETlvMismatch.
Proof.
  intros Ht Hne Hl. unfold fsreq_unpack. rewrite tlv_unpack_layout_app by assumption.
  cbn [bind]. apply fsreq_from_tlv_foreign. assumption.
Qed.

Lemma fsreq_set_fields_total raw : ok_or_documented (fsreq_set_fields raw).
Proof.
  unfold fsreq_set_fields. apply bind_documented; [apply common_unpacker_total|].
  intros [[[[a n1] st] idx] n2] _. destruct (negb _); [reflexivity|exact I].
Qed.

Lemma fsreq_from_tlv_total t : ok_or_documented (fsreq_from_tlv t).
Proof. unfold fsreq_from_tlv. destruct (negb _); [reflexivity|apply fsreq_set_fields_total]. Qed.

Lemma fsreq_unpack_total d : ok_or_documented (fsreq_unpack d).
Proof.
  unfold fsreq_unpack. apply bind_documented; [apply tlv_unpack_total|].
  intros t _. apply fsreq_from_tlv_total.
Qed.

(* strictness: the reported length is the length of the TLV that was decoded *)
Lemma fsreq_from_tlv_len t r :
  fsreq_from_tlv t = Ok r -> fsreq_packet_len r = tlv_packet_len t /\ tlv_type t = TLV_FILESTORE_REQUEST.
Proof.
  unfold fsreq_from_tlv. destruct (tlv_type t =? TLV_FILESTORE_REQUEST) eqn:ET; cbn [negb]; [|discriminate].
  unfold fsreq_set_fields.
  destruct (common_unpacker (tlv_value t)) as [[[[[a n1] st] idx] n2]|] eqn:C; cbn [bind]; [|discriminate].
  destruct (idx =? len (tlv_value t)) eqn:EI; cbn [negb]; [|discriminate].
  intros H; inversion H; subst. split; [|lia].
  destruct (common_unpacker_inv _ _ _ _ _ _ C) as (I1 & I2 & I3 & _).
  unfold fsreq_packet_len, common_packet_len, tlv_packet_len. cbn [fq_action fq_first fq_second].
  destruct (is_two_name a) eqn:E2.
  - destruct (I2 eq_refl) as [s ->]. lia.
  - rewrite (I3 eq_refl) in *. lia.
Qed.

Lemma fsreq_prefix_rejected a f s n :
  1 + len (fs_names_layout a f s) <= 255 -> (n < length (fsreq_layout a f s))%nat ->
  exists e, fsreq_unpack (firstn n (fsreq_layout a f s)) = Err e /\ documented e = true.
Proof.
  intros Hl Hn. unfold fsreq_layout in *.
  destruct (tlv_prefix_rejected T_FILESTORE_REQUEST ([a * 16] ++ fs_names_layout a f s) n) as (e & He & Hd);
    [rewrite len_app; change (len [a * 16]) with 1; lia | assumption |].
  exists e. unfold fsreq_unpack. rewrite He. split; [reflexivity|assumption].
Qed.

Lemma fsreq_no_overread d r :
  wf_bytes d -> fsreq_unpack d = Ok r ->
  fsreq_unpack (firstn (Z.to_nat (fsreq_packet_len r)) d) = Ok r.
Proof.
  intros Hwf H. unfold fsreq_unpack in *.
  destruct (tlv_unpack d) as [t|] eqn:E; cbn [bind] in H; [|discriminate].
  destruct (fsreq_from_tlv_len _ _ H) as [L _]. rewrite L.
  destruct (tlv_no_overread d t Hwf E) as [A _]. rewrite A. exact H.
Qed.

(* ================= FileStoreResponseTlv ================= *)

Lemma status_int_mod sc : map_enum_status_code_to_int sc = sc mod 16.
Proof.
  unfold map_enum_status_code_to_int. change 15 with (2 ^ 4 - 1). apply land_ones_mod. lia.
Qed.

Lemma fs_status_ok x : is_fs_status x = true -> fs_status_of_int x = Ok x.
Proof. intros H. unfold fs_status_of_int. rewrite H. reflexivity. Qed.

Lemma fsresp_layout_len a x f s m :
  len (fsresp_layout a x f s m) = 2 + (1 + len (fs_names_layout a f s) + (1 + len m)).
Proof.
  unfold fsresp_layout. rewrite tlv_layout_len, !len_app, lv_layout_len.
  change (len [a * 16 + x]) with 1. lia.
Qed.

Lemma fsresp_packet_len_layout r x :
  fsresp_packet_len r = len (fsresp_layout (fp_action r) x (fp_first r) (fp_second r) (fp_msg r)).
Proof.
  unfold fsresp_packet_len, common_packet_len, lv_packet_len.
  rewrite fsresp_layout_len, fs_names_len, is_two_name_spec.
  destruct (second_name_present _); lia.
Qed.

Lemma fsresp_pack_layout a sc f s m :
  0 <= a <= 8 -> 1 + len (fs_names_layout a f s) + (1 + len m) <= 255 ->
  let r := {| fp_action := a; fp_status := sc; fp_first := f; fp_second := s; fp_msg := m |} in
  fsresp_pack r = Ok (fsresp_layout a (sc mod 16) f s m) /\
  fsresp_value r = Ok ([a * 16 + sc mod 16] ++ fs_names_layout a f s ++ lv_layout m) /\
  fsresp_packet_len r = len (fsresp_layout a (sc mod 16) f s m).
Proof.
  intros Ha Hl r. pose proof (fs_names_len a f s) as L.
  pose proof (len_nonneg f). pose proof (len_nonneg s). pose proof (len_nonneg m).
  assert (P : common_packer a (sc mod 16) f s = Ok ([a * 16 + sc mod 16] ++ fs_names_layout a f s)).
  { apply common_packer_layout; try lia.
    - destruct (second_name_present a); lia.
    - intros E. rewrite E in L. lia. }
  assert (LV : len (([a * 16 + sc mod 16] ++ fs_names_layout a f s) ++ lv_pack m) <= 255).
  { rewrite !len_app, lv_pack_len. unfold lv_packet_len. change (len [a * 16 + sc mod 16]) with 1. lia. }
  split; [|split; [|apply (fsresp_packet_len_layout r)]].
  - unfold fsresp_pack, fsresp_build_tlv, r. cbn [fp_action fp_status fp_first fp_second fp_msg].
    rewrite status_int_mod, P. cbn [bind]. rewrite tlv_new_ok by exact LV. cbn [bind].
    rewrite tlv_pack_ok; [|cbv; split; [discriminate|reflexivity]|exact LV].
    unfold fsresp_layout. rewrite <- app_assoc, lv_pack_layout. reflexivity.
  - unfold fsresp_value, fsresp_build_tlv, r. cbn [fp_action fp_status fp_first fp_second fp_msg].
    rewrite status_int_mod, P. cbn [bind]. rewrite tlv_new_ok by exact LV. cbn [bind tlv_value].
    rewrite <- app_assoc, lv_pack_layout. reflexivity.
Qed.

Lemma fsresp_pack_too_long a sc f s m :
  0 <= a <= 8 -> 255 < 1 + len (fs_names_layout a f s) + (1 + len m) ->
  fsresp_pack {| fp_action := a; fp_status := sc; fp_first := f; fp_second := s; fp_msg := m |}
  = Err EValue.
Proof.
  intros Ha Hl. unfold fsresp_pack, fsresp_build_tlv.
  cbn [fp_action fp_status fp_first fp_second fp_msg]. rewrite status_int_mod.
  destruct (common_packer a (sc mod 16) f s) as [v|e] eqn:P; cbn [bind].
  - assert (v = [a * 16 + sc mod 16] ++ fs_names_layout a f s) as ->.
    { pose proof P as P'. unfold common_packer in P'.
      destruct (ba_append [] _); cbn [bind] in P'; [|discriminate].
      destruct (lv_new f) eqn:Lf; cbn [bind] in P'; [|discriminate].
      apply lv_new_inv in Lf. destruct Lf as [_ Lf].
      rewrite common_packer_layout in P; try lia; [inversion P; reflexivity|].
      intros E. rewrite is_two_name_spec, E in P'.
      destruct (lv_new s) eqn:Ls; cbn [bind] in P'; [|discriminate].
      apply lv_new_inv in Ls. lia. }
    rewrite tlv_new_too_long; [reflexivity|]. rewrite !len_app, lv_pack_len. unfold lv_packet_len.
    change (len [a * 16 + sc mod 16]) with 1. lia.
  - apply common_packer_err in P. subst. reflexivity.
Qed.

Lemma fsresp_set_fields_layout a st f s m :
  0 <= a <= 8 -> 0 <= st <= 15 -> is_fs_status (a * 16 + st) = true ->
  len f <= 255 -> utf8_valid f = true ->
  (second_name_present a = true -> len s <= 255 /\ utf8_valid s = true) -> len m <= 255 ->
  fsresp_set_fields ([a * 16 + st] ++ fs_names_layout a f s ++ lv_layout m) =
  Ok {| fp_action := a; fp_status := a * 16 + st; fp_first := f; fp_second := fsreq_norm a s;
        fp_msg := m |}.
Proof.
  intros Ha Hs Hst Hf Uf H2 Hm.
  destruct (nibbles_of a st ltac:(lia) Hs) as (_ & _ & _ & D & _).
  rewrite <- (lv_pack_layout m).
  destruct (common_unpacker_layout a st f s (lv_pack m) Ha Hs Hf Uf H2) as [C SF].
  unfold fsresp_set_fields. rewrite C. cbn [bind]. rewrite D, fs_status_ok by assumption.
  cbn [bind]. rewrite SF. rewrite lv_unpack_pack by assumption. cbn [bind].
  rewrite !len_app, lv_pack_len. change (len [a * 16 + st]) with 1.
  match goal with |- context [negb (?x =? ?y)] => replace (x =? y) with true by lia end.
  cbn [negb]. unfold fsreq_norm.
  destruct (second_name_present a); reflexivity.
Qed.

(* decode (encode r ++ anything) = r, for every action code with a matching status code *)
Lemma fsresp_unpack_roundtrip a st f s m rest :
  0 <= a <= 8 -> 0 <= st <= 15 -> is_fs_status (a * 16 + st) = true ->
  1 + len (fs_names_layout a f s) + (1 + len m) <= 255 ->
  utf8_valid f = true -> (second_name_present a = true -> utf8_valid s = true) ->
  fsresp_unpack (fsresp_layout a st f s m ++ rest) =
  Ok {| fp_action := a; fp_status := a * 16 + st; fp_first := f; fp_second := fsreq_norm a s;
        fp_msg := m |}.
Proof.
  intros Ha Hs Hst Hl Uf U2. pose proof (fs_names_len a f s) as L.
  pose proof (len_nonneg f). pose proof (len_nonneg s). pose proof (len_nonneg m).
  unfold fsresp_unpack, fsresp_layout. rewrite tlv_unpack_layout_app;
    [|reflexivity|rewrite !len_app, lv_layout_len; change (len [a * 16 + st]) with 1; lia].
  cbn [bind]. unfold fsresp_from_tlv. cbn [tlv_type tlv_value].
  change (negb (T_FILESTORE_RESPONSE =? TLV_FILESTORE_RESPONSE)) with false. cbv iota.
  apply fsresp_set_fields_layout; try assumption.
  - destruct (second_name_present a); lia.
  - intros E. split; [rewrite E in L; lia|auto].
  - destruct (second_name_present a); lia.
Qed.

Lemma fsresp_from_tlv_foreign t :
  tlv_type t <> TLV_FILESTORE_RESPONSE -> fsresp_from_tlv t = Err ETlvMismatch.
Proof.
  intros H. unfold fsresp_from_tlv. destruct (tlv_type t =? TLV_FILESTORE_RESPONSE) eqn:E; [lia|reflexivity].
Qed.

Lemma fsresp_unpack_foreign ty v rest :
  is_tlv_type ty = true -> ty <> TLV_FILESTORE_RESPONSE -> len v <= 255 ->
  fsresp_unpack (tlv_layout ty v ++ rest) = Err ETlvMismatch.
Proof.
  intros Ht Hne Hl. unfold fsresp_unpack. rewrite tlv_unpack_layout_app by assumption.
  cbn [bind]. apply fsresp_from_tlv_foreign. assumption.
Qed.

Lemma fsresp_set_fields_total raw : ok_or_documented (fsresp_set_fields raw).
Proof.
  unfold fsresp_set_fields. apply bind_documented; [apply common_unpacker_total|].
  intros [[[[a n1] st] idx] n2] _. unfold fs_status_of_int.
  destruct (is_fs_status _); cbn [bind]; [|reflexivity].
  apply bind_documented; [apply lv_unpack_total|]. intros m _.
  destruct (negb _); [reflexivity|exact I].
Qed.

Lemma fsresp_from_tlv_total t : ok_or_documented (fsresp_from_tlv t).
Proof. unfold fsresp_from_tlv. destruct (negb _); [reflexivity|apply fsresp_set_fields_total]. Qed.

Lemma fsresp_unpack_total d : ok_or_documented (fsresp_unpack d).
Proof.
  unfold fsresp_unpack. apply bind_documented; [apply tlv_unpack_total|].
  intros t _. apply fsresp_from_tlv_total.
Qed.

Lemma fsresp_from_tlv_len t r :
  fsresp_from_tlv t = Ok r ->
  fsresp_packet_len r = tlv_packet_len t /\ tlv_type t = TLV_FILESTORE_RESPONSE.
Proof.
  unfold fsresp_from_tlv. destruct (tlv_type t =? TLV_FILESTORE_RESPONSE) eqn:ET; cbn [negb]; [|discriminate].
  unfold fsresp_set_fields.
  destruct (common_unpacker (tlv_value t)) as [[[[[a n1] st] idx] n2]|] eqn:C; cbn [bind]; [|discriminate].
  destruct (fs_status_of_int _) as [sc|]; cbn [bind]; [|discriminate].
  destruct (lv_unpack _) as [m|]; cbn [bind]; [|discriminate].
  destruct (idx + lv_packet_len m =? len (tlv_value t)) eqn:EI; cbn [negb]; [|discriminate].
  intros H; inversion H; subst. split; [|lia].
  destruct (common_unpacker_inv _ _ _ _ _ _ C) as (I1 & I2 & I3 & _).
  unfold fsresp_packet_len, common_packet_len, tlv_packet_len.
  cbn [fp_action fp_first fp_second fp_msg].
  destruct (is_two_name a) eqn:E2.
  - destruct (I2 eq_refl) as [s ->]. lia.
  - rewrite (I3 eq_refl) in *. lia.
Qed.

Lemma fsresp_prefix_rejected a x f s m n :
  1 + len (fs_names_layout a f s) + (1 + len m) <= 255 ->
  (n < length (fsresp_layout a x f s m))%nat ->
  exists e, fsresp_unpack (firstn n (fsresp_layout a x f s m)) = Err e /\ documented e = true.
Proof.
  intros Hl Hn. unfold fsresp_layout in *.
  destruct (tlv_prefix_rejected T_FILESTORE_RESPONSE
              ([a * 16 + x] ++ fs_names_layout a f s ++ lv_layout m) n) as (e & He & Hd);
    [rewrite !len_app, lv_layout_len; change (len [a * 16 + x]) with 1; lia | assumption |].
  exists e. unfold fsresp_unpack. rewrite He. split; [reflexivity|assumption].
Qed.

Lemma fsresp_no_overread d r :
  wf_bytes d -> fsresp_unpack d = Ok r ->
  fsresp_unpack (firstn (Z.to_nat (fsresp_packet_len r)) d) = Ok r.
Proof.
  intros Hwf H. unfold fsresp_unpack in *.
  destruct (tlv_unpack d) as [t|] eqn:E; cbn [bind] in H; [|discriminate].
  destruct (fsresp_from_tlv_len _ _ H) as [L _]. rewrite L.
  destruct (tlv_no_overread d t Hwf E) as [A _]. rewrite A. exact H.
Qed.

(* ================= status-code helpers ================= *)

Definition chk_status (sc : Z) : bool :=
  (sc <? 0) ||
  (match map_enum_status_code_to_action_status_code sc with
   | Ok (a, s) => (a =? sc / 16) && (s =? sc mod 16) && (map_int_status_code_to_enum a s =? sc)
   | Err _ => false
   end).
Lemma status_sweep : forallb chk_status fs_status_codes = true.
Proof. vm_compute. reflexivity. Qed.

(* every non-negative member splits into (action, 4-bit status) and maps back to itself *)
Lemma status_code_maps sc :
  is_fs_status sc = true -> 0 <= sc ->
  map_enum_status_code_to_action_status_code sc = Ok (sc / 16, sc mod 16) /\
  map_int_status_code_to_enum (sc / 16) (sc mod 16) = sc /\ 0 <= sc / 16 <= 8.
Proof.
  intros Hm Hn. unfold is_fs_status, memz in Hm. apply existsb_exists in Hm.
  destruct Hm as (y & Hy & E). apply Z.eqb_eq in E. subst y.
  pose proof status_sweep as S. rewrite forallb_forall in S. specialize (S sc Hy).
  unfold chk_status in S. destruct (sc <? 0) eqn:N; [lia|]. cbn [orb] in S.
  destruct (map_enum_status_code_to_action_status_code sc) as [[a s]|] eqn:M; [|discriminate].
  assert (a = sc / 16 /\ s = sc mod 16 /\ map_int_status_code_to_enum a s = sc) as (-> & -> & K) by lia.
  split; [reflexivity|]. split; [exact K|].
  unfold map_enum_status_code_to_action_status_code in M.
  destruct (fs_action_of_int _) as [a'|] eqn:FA; cbn [bind] in M; [|discriminate].
  unfold fs_action_of_int in FA. destruct (is_fs_action _) eqn:IA; [|discriminate].
  apply is_fs_action_iff in IA. inversion FA; subst. inversion M. lia.
Qed.

Lemma map_int_invalid a s :
  is_fs_status (Z.lor (Z.shiftl a 4) s) = false -> map_int_status_code_to_enum a s = FS_INVALID.
Proof. intros H. unfold map_int_status_code_to_enum, fs_status_of_int. rewrite H. reflexivity. Qed.

(* ================= TlvHolder: the 6 x 6 table ================= *)

Ltac unfold_tlv_consts :=
  unfold TLV_FILESTORE_REQUEST, TLV_FILESTORE_RESPONSE, TLV_MESSAGE_TO_USER, TLV_FAULT_HANDLER,
    TLV_FLOW_LABEL, TLV_ENTITY_ID in *.

Definition holder_to (cls : Z) : any_tlv -> res any_tlv :=
  if cls =? TLV_FILESTORE_REQUEST then holder_to_fs_request
  else if cls =? TLV_FILESTORE_RESPONSE then holder_to_fs_response
  else if cls =? TLV_MESSAGE_TO_USER then holder_to_msg_to_user
  else if cls =? TLV_FAULT_HANDLER then holder_to_fault_handler_override
  else if cls =? TLV_FLOW_LABEL then holder_to_flow_label
  else holder_to_entity_id.

(* a generic TLV of another type inside the holder: every conversion raises TlvTypeMissmatch *)
Lemma holder_generic_foreign cls t :
  is_tlv_type cls = true -> tlv_type t <> cls ->
  holder_to cls (HGeneric t) = Err ETlvMismatch.
Proof.
  intros Hc Hne. apply is_tlv_type_iff in Hc. unfold holder_to.
  destruct Hc as [-> | [-> | [-> | [-> | [-> | ->]]]]];
    change (0 =? TLV_FILESTORE_REQUEST) with true; change (1 =? TLV_FILESTORE_REQUEST) with false;
    change (2 =? TLV_FILESTORE_REQUEST) with false; change (4 =? TLV_FILESTORE_REQUEST) with false;
    change (5 =? TLV_FILESTORE_REQUEST) with false; change (6 =? TLV_FILESTORE_REQUEST) with false;
    change (1 =? TLV_FILESTORE_RESPONSE) with true; change (2 =? TLV_FILESTORE_RESPONSE) with false;
    change (4 =? TLV_FILESTORE_RESPONSE) with false; change (5 =? TLV_FILESTORE_RESPONSE) with false;
    change (6 =? TLV_FILESTORE_RESPONSE) with false;
    change (2 =? TLV_MESSAGE_TO_USER) with true; change (4 =? TLV_MESSAGE_TO_USER) with false;
    change (5 =? TLV_MESSAGE_TO_USER) with false; change (6 =? TLV_MESSAGE_TO_USER) with false;
    change (4 =? TLV_FAULT_HANDLER) with true; change (5 =? TLV_FAULT_HANDLER) with false;
    change (6 =? TLV_FAULT_HANDLER) with false;
    change (5 =? TLV_FLOW_LABEL) with true; change (6 =? TLV_FLOW_LABEL) with false; cbv iota;
    unfold holder_to_fs_request, holder_to_fs_response, holder_to_msg_to_user,
      holder_to_fault_handler_override, holder_to_flow_label, holder_to_entity_id,
      msg_from_tlv, flow_from_tlv, entity_from_tlv.
  - rewrite fsreq_from_tlv_foreign by exact Hne. reflexivity.
  - rewrite fsresp_from_tlv_foreign by exact Hne. reflexivity.
  - rewrite wrap_from_tlv_foreign by exact Hne. reflexivity.
  - rewrite fault_from_tlv_foreign by exact Hne. reflexivity.
  - rewrite wrap_from_tlv_foreign by exact Hne. reflexivity.
  - rewrite wrap_from_tlv_foreign by exact Hne. reflexivity.
Qed.

Definition is_concrete (h : any_tlv) : bool :=
  match h with HNone | HGeneric _ => false | _ => true end.

(* a concrete object of another class: refused (TypeError); of the same class: returned as is *)
Lemma holder_concrete cls h :
  is_tlv_type cls = true -> is_concrete h = true ->
  (any_tlv_type h <> cls -> holder_to cls h = Err EType) /\
  (any_tlv_type h = cls -> holder_to cls h = Ok h).
Proof.
  intros Hc Hh. apply is_tlv_type_iff in Hc. unfold holder_to.
  destruct Hc as [-> | [-> | [-> | [-> | [-> | ->]]]]]; cbn [Z.eqb Pos.eqb];
    destruct h; try discriminate Hh; cbn; split; intros H; try reflexivity; try (exfalso; apply H; reflexivity);
    try discriminate H.
Qed.

Lemma holder_none cls : holder_to cls HNone = Err EAssert.
Proof.
  unfold holder_to.
  destruct (cls =? _); [reflexivity|]. destruct (cls =? _); [reflexivity|].
  destruct (cls =? _); [reflexivity|]. destruct (cls =? _); [reflexivity|].
  destruct (cls =? _); reflexivity.
Qed.

(* whatever a conversion returns is an object of the requested class *)
Lemma holder_result_kind cls h h' :
  is_tlv_type cls = true -> holder_to cls h = Ok h' -> any_tlv_type h' = cls /\ is_concrete h' = true.
Proof.
  intros Hc H. apply is_tlv_type_iff in Hc. unfold holder_to in H.
  destruct Hc as [-> | [-> | [-> | [-> | [-> | ->]]]]]; cbn [Z.eqb Pos.eqb] in H;
    destruct h; cbn in H; try discriminate H;
    repeat match type of H with
           | context [bind ?r _] => destruct r eqn:?; cbn [bind] in H; try discriminate H
           end;
    inversion H; subst; cbn; split; reflexivity.
Qed.

(* ================= statements collected for Props/C08.v ================= *)

Lemma lv_consumed d v :
  wf_bytes d -> lv_unpack d = Ok v ->
  exists rest, d = lv_layout v ++ rest /\ len (lv_layout v) = len v + 1 /\ lv_packet_len v = len v + 1.
Proof.
  intros Hwf H. destruct (lv_unpack_inv d v Hwf H) as (rest & -> & _).
  exists rest. rewrite lv_pack_layout, lv_layout_len. unfold lv_packet_len. repeat split; lia.
Qed.

Lemma tlv_consumed d t :
  wf_bytes d -> tlv_unpack d = Ok t ->
  exists rest, d = tlv_layout (tlv_type t) (tlv_value t) ++ rest /\
               len (tlv_layout (tlv_type t) (tlv_value t)) = len (tlv_value t) + 2 /\
               tlv_packet_len t = len (tlv_value t) + 2.
Proof.
  intros Hwf H. destruct (tlv_unpack_inv d t Hwf H) as (rest & E & _).
  exists rest. rewrite tlv_layout_len. unfold tlv_packet_len. repeat split; [exact E|lia|lia].
Qed.

Lemma tlv_pack_layout_all ty v :
  0 <= ty < 256 -> len v <= 255 ->
  exists t, tlv_new ty v = Ok t /\ tlv_pack t = Ok (tlv_layout ty v) /\
            tlv_packet_len t = len (tlv_layout ty v) /\ tlv_packet_len t = len v + 2.
Proof.
  intros Ht Hl. eexists. rewrite tlv_new_ok by assumption. split; [reflexivity|].
  rewrite tlv_pack_ok by assumption. rewrite tlv_layout_len. unfold tlv_packet_len. cbn [tlv_value].
  repeat split; lia.
Qed.

Lemma tlv_roundtrip ty v rest :
  is_tlv_type ty = true -> len v <= 255 ->
  tlv_unpack (tlv_layout ty v ++ rest) = Ok {| tlv_type := ty; tlv_value := v |}.
Proof. apply tlv_unpack_layout_app. Qed.

(* the three plain wrappers *)
Lemma wrappers_layout v :
  len v <= 255 ->
  (exists t, entity_new v = Ok t /\ tlv_pack t = Ok (entity_layout v) /\ tlv_packet_len t = len (entity_layout v)) /\
  (exists t, flow_new v = Ok t /\ tlv_pack t = Ok (flow_layout v) /\ tlv_packet_len t = len (flow_layout v)) /\
  (exists t, msg_new v = Ok t /\ tlv_pack t = Ok (msg_layout v) /\ tlv_packet_len t = len (msg_layout v)).
Proof.
  intros Hl. repeat split.
  - destruct (wrap_new_layout TLV_ENTITY_ID v ltac:(cbv; split; [discriminate|reflexivity]) Hl)
      as (t & A & B & C & _). exists t. auto.
  - destruct (wrap_new_layout TLV_FLOW_LABEL v ltac:(cbv; split; [discriminate|reflexivity]) Hl)
      as (t & A & B & C & _). exists t. auto.
  - destruct (wrap_new_layout TLV_MESSAGE_TO_USER v ltac:(cbv; split; [discriminate|reflexivity]) Hl)
      as (t & A & B & C & _). exists t. auto.
Qed.

Lemma wrappers_too_long v :
  255 < len v -> entity_new v = Err EValue /\ flow_new v = Err EValue /\ msg_new v = Err EValue.
Proof. intros H. repeat split; apply wrap_new_too_long; assumption. Qed.

Lemma wrappers_roundtrip v rest :
  len v <= 255 ->
  entity_unpack (entity_layout v ++ rest) = Ok {| tlv_type := TLV_ENTITY_ID; tlv_value := v |} /\
  flow_unpack (flow_layout v ++ rest) = Ok {| tlv_type := TLV_FLOW_LABEL; tlv_value := v |} /\
  msg_unpack (msg_layout v ++ rest) = Ok {| tlv_type := TLV_MESSAGE_TO_USER; tlv_value := v |}.
Proof.
  intros Hl. repeat split; apply wrap_unpack_roundtrip; try assumption; reflexivity.
Qed.

(* decoding a TLV of any other type through a concrete class: TlvTypeMissmatch, 6 classes *)
Lemma unpack_foreign_refused ty v rest :
  is_tlv_type ty = true -> len v <= 255 ->
  (ty <> TLV_ENTITY_ID -> entity_unpack (tlv_layout ty v ++ rest) = Err ETlvMismatch) /\
  (ty <> TLV_FLOW_LABEL -> flow_unpack (tlv_layout ty v ++ rest) = Err ETlvMismatch) /\
  (ty <> TLV_MESSAGE_TO_USER -> msg_unpack (tlv_layout ty v ++ rest) = Err ETlvMismatch) /\
  (ty <> TLV_FAULT_HANDLER -> fault_unpack (tlv_layout ty v ++ rest) = Err ETlvMismatch) /\
  (ty <> TLV_FILESTORE_REQUEST -> fsreq_unpack (tlv_layout ty v ++ rest) = Err ETlvMismatch) /\
  (ty <> TLV_FILESTORE_RESPONSE -> fsresp_unpack (tlv_layout ty v ++ rest) = Err ETlvMismatch).
Proof.
  intros Ht Hl. repeat split; intros Hne.
  - apply wrap_unpack_foreign; assumption.
  - apply wrap_unpack_foreign; assumption.
  - apply wrap_unpack_foreign; assumption.
  - apply fault_unpack_foreign; assumption.
  - apply fsreq_unpack_foreign; assumption.
  - apply fsresp_unpack_foreign; assumption.
Qed.

Lemma from_tlv_foreign_refused t :
  (tlv_type t <> TLV_ENTITY_ID -> entity_from_tlv t = Err ETlvMismatch) /\
  (tlv_type t <> TLV_FLOW_LABEL -> flow_from_tlv t = Err ETlvMismatch) /\
  (tlv_type t <> TLV_MESSAGE_TO_USER -> msg_from_tlv t = Err ETlvMismatch) /\
  (tlv_type t <> TLV_FAULT_HANDLER -> fault_from_tlv t = Err ETlvMismatch) /\
  (tlv_type t <> TLV_FILESTORE_REQUEST -> fsreq_from_tlv t = Err ETlvMismatch) /\
  (tlv_type t <> TLV_FILESTORE_RESPONSE -> fsresp_from_tlv t = Err ETlvMismatch).
Proof.
  repeat split; intros Hne.
  - apply wrap_from_tlv_foreign; assumption.
  - apply wrap_from_tlv_foreign; assumption.
  - apply wrap_from_tlv_foreign; assumption.
  - apply fault_from_tlv_foreign; assumption.
  - apply fsreq_from_tlv_foreign; assumption.
  - apply fsresp_from_tlv_foreign; assumption.
Qed.

(* unknown type octet: ValueError from every decoder *)
Lemma unpack_unknown_type ty l r :
  is_tlv_type ty = false ->
  tlv_unpack (ty :: l :: r) = Err EValue /\ entity_unpack (ty :: l :: r) = Err EValue /\
  flow_unpack (ty :: l :: r) = Err EValue /\ msg_unpack (ty :: l :: r) = Err EValue /\
  fault_unpack (ty :: l :: r) = Err EValue /\ fsreq_unpack (ty :: l :: r) = Err EValue /\
  fsresp_unpack (ty :: l :: r) = Err EValue.
Proof.
  intros H. pose proof (tlv_unpack_unknown_type ty l r H) as E.
  unfold entity_unpack, flow_unpack, msg_unpack, wrap_unpack, fault_unpack, fsreq_unpack, fsresp_unpack.
  rewrite E. repeat split; reflexivity.
Qed.

(* whatever a concrete decoder accepts is a TLV of its own type *)
Lemma unpack_never_wrong_kind d :
  (forall t, entity_unpack d = Ok t -> tlv_type t = TLV_ENTITY_ID) /\
  (forall t, flow_unpack d = Ok t -> tlv_type t = TLV_FLOW_LABEL) /\
  (forall t, msg_unpack d = Ok t -> tlv_type t = TLV_MESSAGE_TO_USER) /\
  (forall f, fault_unpack d = Ok f -> tlv_type (fh_tlv f) = TLV_FAULT_HANDLER) /\
  (forall r, fsreq_unpack d = Ok r -> exists t, tlv_unpack d = Ok t /\ tlv_type t = TLV_FILESTORE_REQUEST) /\
  (forall r, fsresp_unpack d = Ok r -> exists t, tlv_unpack d = Ok t /\ tlv_type t = TLV_FILESTORE_RESPONSE).
Proof.
  repeat split.
  - intros t H. apply (wrap_unpack_type _ _ _ H).
  - intros t H. apply (wrap_unpack_type _ _ _ H).
  - intros t H. apply (wrap_unpack_type _ _ _ H).
  - intros f H. apply (fault_unpack_type _ _ H).
  - intros r H. unfold fsreq_unpack in H. destruct (tlv_unpack d) as [t|]; cbn [bind] in H; [|discriminate].
    exists t. split; [reflexivity|]. apply (fsreq_from_tlv_len _ _ H).
  - intros r H. unfold fsresp_unpack in H. destruct (tlv_unpack d) as [t|]; cbn [bind] in H; [|discriminate].
    exists t. split; [reflexivity|]. apply (fsresp_from_tlv_len _ _ H).
Qed.

(* filestore response with a status code that matches the action code *)
Lemma fsresp_roundtrip_status a sc f s m rest :
  is_fs_status sc = true -> 0 <= sc -> sc / 16 = a ->
  1 + len (fs_names_layout a f s) + (1 + len m) <= 255 ->
  utf8_valid f = true -> (second_name_present a = true -> utf8_valid s = true) ->
  let r := {| fp_action := a; fp_status := sc; fp_first := f; fp_second := s; fp_msg := m |} in
  fsresp_pack r = Ok (fsresp_layout a (sc mod 16) f s m) /\
  fsresp_packet_len r = len (fsresp_layout a (sc mod 16) f s m) /\
  fsresp_unpack (fsresp_layout a (sc mod 16) f s m ++ rest) =
    Ok {| fp_action := a; fp_status := sc; fp_first := f; fp_second := fsreq_norm a s; fp_msg := m |}.
Proof.
  intros Hm Hn Ha Hl Uf U2 r.
  destruct (status_code_maps sc Hm Hn) as (_ & _ & R). rewrite Ha in R.
  destruct (fsresp_pack_layout a sc f s m R Hl) as (P & _ & L).
  split; [exact P|]. split; [exact L|].
  assert (E : a * 16 + sc mod 16 = sc) by lia.
  rewrite fsresp_unpack_roundtrip; try assumption; try lia.
  - rewrite E. reflexivity.
  - rewrite E. assumption.
Qed.

Lemma fsreq_roundtrip a f s rest :
  0 <= a <= 8 -> 1 + len (fs_names_layout a f s) <= 255 ->
  utf8_valid f = true -> (second_name_present a = true -> utf8_valid s = true) ->
  let r := {| fq_action := a; fq_first := f; fq_second := s |} in
  fsreq_pack r = Ok (fsreq_layout a f s) /\
  fsreq_packet_len r = len (fsreq_layout a f s) /\
  fsreq_unpack (fsreq_layout a f s ++ rest) =
    Ok {| fq_action := a; fq_first := f; fq_second := fsreq_norm a s |}.
Proof.
  intros Ha Hl Uf U2 r. destruct (fsreq_pack_layout a f s Ha Hl) as (P & _ & L).
  split; [exact P|]. split; [exact L|].
  pose proof (fsreq_unpack_roundtrip a 0 f s rest Ha ltac:(lia) Hl Uf U2) as R.
  rewrite Z.add_0_r in R. exact R.
Qed.

Lemma fault_new_ok cc hc :
  0 <= cc <= 15 -> 0 <= hc <= 15 ->
  fault_new cc hc =
  Ok {| fh_cc := cc; fh_hc := hc;
        fh_tlv := {| tlv_type := TLV_FAULT_HANDLER; tlv_value := [cc * 16 + hc] |} |}.
Proof.
  intros Hc Hh. destruct (nibbles_of cc hc Hc Hh) as (_ & _ & _ & D & R).
  unfold fault_new. rewrite D. unfold is_byte.
  destruct ((0 <=? cc * 16 + hc) && (cc * 16 + hc <? 256)) eqn:E; [|lia].
  rewrite tlv_new_ok by (cbn; lia). reflexivity.
Qed.

Lemma fault_roundtrip cc hc rest :
  0 <= cc <= 15 -> 0 <= hc <= 15 ->
  (exists f, fault_new cc hc = Ok f /\ fh_cc f = cc /\ fh_hc f = hc /\
             tlv_pack (fh_tlv f) = Ok (fault_layout cc hc) /\
             tlv_packet_len (fh_tlv f) = len (fault_layout cc hc) /\
             fault_unpack (fault_layout cc hc ++ rest) = Ok f).
Proof.
  intros Hc Hh. eexists. rewrite fault_new_ok by assumption. split; [reflexivity|].
  cbn [fh_cc fh_hc fh_tlv]. rewrite fault_unpack_roundtrip by assumption.
  unfold fault_layout, T_FAULT_HANDLER_OVERRIDE, TLV_FAULT_HANDLER.
  destruct (nibbles_of cc hc Hc Hh) as (_ & _ & _ & _ & R).
  rewrite tlv_pack_ok by (cbn; lia). repeat split; reflexivity.
Qed.

Lemma lv_pack_layout_len v : lv_pack v = lv_layout v /\ lv_packet_len v = len (lv_pack v).
Proof. split; [apply lv_pack_layout | symmetry; apply lv_pack_len]. Qed.

Lemma lv_roundtrip_layout v rest : len v <= 255 -> lv_unpack (lv_layout v ++ rest) = Ok v.
Proof. rewrite <- lv_pack_layout. apply lv_unpack_pack_app. Qed.

Lemma fs_reported_len t :
  (forall r, fsreq_from_tlv t = Ok r -> fsreq_packet_len r = tlv_packet_len t) /\
  (forall r, fsresp_from_tlv t = Ok r -> fsresp_packet_len r = tlv_packet_len t).
Proof.
  split; intros r H;
    [exact (proj1 (fsreq_from_tlv_len t r H)) | exact (proj1 (fsresp_from_tlv_len t r H))].
Qed.

(* ================= C09 corollaries: suffix irrelevance, splitting back-to-back units ========== *)

Lemma fault_suffix_irrelevant cc hc s :
  0 <= cc <= 15 -> 0 <= hc <= 15 ->
  fault_unpack (fault_layout cc hc ++ s) = fault_unpack (fault_layout cc hc).
Proof.
  intros Hc Hh. rewrite fault_unpack_roundtrip by assumption.
  rewrite <- (app_nil_r (fault_layout cc hc)). rewrite fault_unpack_roundtrip by assumption. reflexivity.
Qed.

Lemma fsreq_suffix_irrelevant a f s sfx :
  0 <= a <= 8 -> 1 + len (fs_names_layout a f s) <= 255 ->
  utf8_valid f = true -> (second_name_present a = true -> utf8_valid s = true) ->
  fsreq_unpack (fsreq_layout a f s ++ sfx) = fsreq_unpack (fsreq_layout a f s).
Proof.
  intros Ha Hl Uf U2. destruct (fsreq_roundtrip a f s sfx Ha Hl Uf U2) as (_ & _ & R1).
  destruct (fsreq_roundtrip a f s [] Ha Hl Uf U2) as (_ & _ & R2).
  rewrite app_nil_r in R2. rewrite R1, R2. reflexivity.
Qed.

Lemma fsresp_suffix_irrelevant a st f s m sfx :
  0 <= a <= 8 -> 0 <= st <= 15 -> is_fs_status (a * 16 + st) = true ->
  1 + len (fs_names_layout a f s) + (1 + len m) <= 255 ->
  utf8_valid f = true -> (second_name_present a = true -> utf8_valid s = true) ->
  fsresp_unpack (fsresp_layout a st f s m ++ sfx) = fsresp_unpack (fsresp_layout a st f s m).
Proof.
  intros Ha Hs Hst Hl Uf U2.
  rewrite fsresp_unpack_roundtrip by assumption.
  rewrite <- (app_nil_r (fsresp_layout a st f s m)). rewrite fsresp_unpack_roundtrip by assumption.
  reflexivity.
Qed.

(* splitting a buffer of back-to-back TLVs purely by the reported lengths *)
Fixpoint tlv_split (fuel : nat) (d : bytes) : res (list tlv) :=
  match fuel with
  | O => Err EFuel
  | S k =>
    if len d =? 0 then Ok [] else
    do t <- tlv_unpack d;
    do r <- tlv_split k (slice_from d (tlv_packet_len t));
    Ok (t :: r)
  end.

Lemma tlv_split_S k d :
  tlv_split (S k) d =
  if len d =? 0 then Ok [] else
  do t <- tlv_unpack d; do r <- tlv_split k (slice_from d (tlv_packet_len t)); Ok (t :: r).
Proof. reflexivity. Qed.

Definition tlv_ok (t : tlv) : Prop := is_tlv_type (tlv_type t) = true /\ len (tlv_value t) <= 255.
Definition tlv_wire (t : tlv) : bytes := tlv_layout (tlv_type t) (tlv_value t).

Lemma tlv_split_back_to_back ts :
  Forall tlv_ok ts -> tlv_split (S (length ts)) (concat (map tlv_wire ts)) = Ok ts.
Proof.
  induction ts as [|t ts IH]; intros H; [reflexivity|].
  inversion H as [|? ? [Ht Hl] Hts]; subst.
  change (length (t :: ts)) with (S (length ts)). rewrite tlv_split_S.
  cbn [map concat]. specialize (IH Hts). set (rest := concat (map tlv_wire ts)) in *.
  unfold tlv_wire. rewrite len_app, tlv_layout_len. pose proof (len_nonneg (tlv_value t)).
  pose proof (len_nonneg rest).
  destruct (2 + len (tlv_value t) + len rest =? 0) eqn:E; [lia|].
  rewrite tlv_unpack_layout_app by assumption. cbn [bind].
  unfold tlv_packet_len. cbn [tlv_value]. rewrite tlv_rest_after.
  destruct t as [ty v]. cbn [tlv_type tlv_value] in *. rewrite IH. reflexivity.
Qed.

(* the same for LVs *)
Fixpoint lv_split (fuel : nat) (d : bytes) : res (list lv) :=
  match fuel with
  | O => Err EFuel
  | S k =>
    if len d =? 0 then Ok [] else
    do v <- lv_unpack d;
    do r <- lv_split k (slice_from d (lv_packet_len v));
    Ok (v :: r)
  end.

Lemma lv_split_S k d :
  lv_split (S k) d =
  if len d =? 0 then Ok [] else
  do v <- lv_unpack d; do r <- lv_split k (slice_from d (lv_packet_len v)); Ok (v :: r).
Proof. reflexivity. Qed.

Lemma lv_split_back_to_back vs :
  Forall (fun v => len v <= 255) vs -> lv_split (S (length vs)) (concat (map lv_pack vs)) = Ok vs.
Proof.
  induction vs as [|v vs IH]; intros H; [reflexivity|].
  inversion H as [|? ? Hl Hvs]; subst.
  change (length (v :: vs)) with (S (length vs)). rewrite lv_split_S.
  cbn [map concat]. specialize (IH Hvs). set (rest := concat (map lv_pack vs)) in *.
  rewrite len_app, lv_pack_len. unfold lv_packet_len. pose proof (len_nonneg v).
  pose proof (len_nonneg rest).
  destruct (len v + 1 + len rest =? 0) eqn:E; [lia|].
  rewrite lv_unpack_pack_app by assumption. cbn [bind].
  fold (lv_packet_len v). rewrite lv_rest_after. rewrite IH. reflexivity.
Qed.

(* EntityIdTlv.__eq__ : total, and equal exactly when the big-endian values agree *)
Lemma entity_eqb_spec a b :
  entity_eqb a b = Ok (be_decode (tlv_value a) =? be_decode (tlv_value b)) /\
  (tlv_value a = tlv_value b -> entity_eqb a b = Ok true).
Proof.
  split; [reflexivity|]. intros H. unfold entity_eqb. rewrite H, Z.eqb_refl. reflexivity.
Qed.
