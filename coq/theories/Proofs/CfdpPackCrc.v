(* C04, "every uncorrupted packed packet passes the check ... whatever fields were set or changed
   before packing", CFDP part: for EVERY object of each of the eight PDU classes (valid parameters
   or not, after any setter history), if pack() returns octets and the object's header carries the
   CRC flag, the CRC-16 over those octets is zero.  The hypothesis `wf_bytes b` says that the
   returned value is a Python bytearray (every cell 0..255); it is the model's standing convention
   for octet strings and holds for everything pack() can return in the code. *)
From Coq Require Import ZArith List Bool Lia ZifyBool.
From SP Require Import Base.Result Base.Bytes Base.BytesFacts Base.Crc16 Base.Crc16Facts
  Model.PduHeader Model.FileDirective Model.Eof Model.Ack Model.Prompt Model.KeepAlive
  Model.Finished Model.Metadata Model.Nak Model.Factory.
From SP Require Model.FileData.
Import ListNotations.
Open Scope Z_scope.
Ltac Zify.zify_post_hook ::= Z.to_euclidean_division_equations.

(* the common tail of every pack() *)
Definition crc_tail (flag : Z) (b : bytes) : res bytes :=
  if flag =? CRC_WITH_CRC then do c <- struct_pack 2 (crc16 b); Ok (b ++ c) else Ok b.

Lemma crc_tail_valid flag b out : crc_tail flag b = Ok out -> flag = 1 -> wf_bytes out ->
  crc16 out = 0.
Proof.
  intros E F W. unfold crc_tail in E. rewrite F in E. change (1 =? CRC_WITH_CRC) with true in E. cbv iota in E.
  unfold struct_pack in E. destruct (_ && _) eqn:R; cbn [bind] in E; [|discriminate].
  injection E as <-. rewrite wf_bytes_app in W. destruct W as [Wb _].
  apply crc_residue. exact Wb.
Qed.

(* peel the binds of `X_pack p = Ok out` down to the tail *)
Ltac peel E :=
  repeat match type of E with
  | bind ?x _ = Ok _ => let b := fresh "b" in destruct x as [b|] ; cbn [bind] in E; [|discriminate E]
  | (let _ := _ in _) = Ok _ => cbv zeta in E
  end.

Theorem fd_pack_crc_valid p b : FileData.fd_pack p = Ok b -> cf_crc (h_conf (FileData.fd_hdr p)) = 1 -> wf_bytes b ->
  crc16 b = 0.
Proof.
  intros E F W. unfold FileData.fd_pack in E. cbv zeta in E. peel E.
  eapply crc_tail_valid; [exact E|exact F|exact W].
Qed.

Theorem eof_pack_crc_valid p b : eof_pack p = Ok b -> cf_crc (h_conf (fd_hdr (eof_fd p))) = 1 ->
  wf_bytes b -> crc16 b = 0.
Proof.
  intros E F W. unfold eof_pack in E. peel E.
  eapply crc_tail_valid; [exact E|exact F|exact W].
Qed.

Theorem ack_pack_crc_valid p b : ack_pack p = Ok b -> cf_crc (h_conf (fd_hdr (ack_fd p))) = 1 ->
  wf_bytes b -> crc16 b = 0.
Proof.
  intros E F W. unfold ack_pack in E. peel E.
  eapply crc_tail_valid; [exact E|exact F|exact W].
Qed.

Theorem prompt_pack_crc_valid p b : prompt_pack p = Ok b -> cf_crc (h_conf (fd_hdr (pr_fd p))) = 1 ->
  wf_bytes b -> crc16 b = 0.
Proof.
  intros E F W. unfold prompt_pack in E. peel E.
  eapply crc_tail_valid; [exact E|exact F|exact W].
Qed.

Theorem ka_pack_crc_valid p b : ka_pack p = Ok b -> cf_crc (h_conf (fd_hdr (ka_fd p))) = 1 ->
  wf_bytes b -> crc16 b = 0.
Proof.
  intros E F W. unfold ka_pack in E. peel E.
  eapply crc_tail_valid; [exact E|exact F|exact W].
Qed.

Theorem fin_pack_crc_valid p b : fin_pack p = Ok b -> cf_crc (h_conf (fd_hdr (fin_fdir p))) = 1 ->
  wf_bytes b -> crc16 b = 0.
Proof.
  intros E F W. unfold fin_pack in E. cbv zeta in E. peel E.
  eapply crc_tail_valid; [exact E|exact F|exact W].
Qed.

Theorem md_pack_crc_valid p b : md_pack p = Ok b -> cf_crc (h_conf (fd_hdr (md_fdir p))) = 1 ->
  wf_bytes b -> crc16 b = 0.
Proof.
  intros E F W. unfold md_pack in E. cbv zeta in E. peel E.
  eapply crc_tail_valid; [exact E|exact F|exact W].
Qed.

Theorem nak_pack_crc_valid p b : nak_pack p = Ok b -> cf_crc (nk_conf p) = 1 ->
  wf_bytes b -> crc16 b = 0.
Proof.
  intros E F W. unfold nak_pack in E. cbv zeta in E. peel E.
  eapply crc_tail_valid; [exact E|exact F|exact W].
Qed.

(* the CRC flag of any PDU object (the flag pack() consults) *)
Definition pdu_crc_flag (p : pdu) : Z :=
  match p with
  | PFileData q => cf_crc (h_conf (FileData.fd_hdr q))
  | PEof q => cf_crc (h_conf (fd_hdr (eof_fd q)))
  | PFinished q => cf_crc (h_conf (fd_hdr (fin_fdir q)))
  | PAck q => cf_crc (h_conf (fd_hdr (ack_fd q)))
  | PMetadata q => cf_crc (h_conf (fd_hdr (md_fdir q)))
  | PNak q => cf_crc (nk_conf q)
  | PPrompt q => cf_crc (h_conf (fd_hdr (pr_fd q)))
  | PKeepAlive q => cf_crc (h_conf (fd_hdr (ka_fd q)))
  end.

(* all eight classes at once (also what PduHolder.pack returns) *)
Theorem pdu_pack_crc_valid p b : pdu_pack p = Ok b -> pdu_crc_flag p = 1 -> wf_bytes b -> crc16 b = 0.
Proof.
  destruct p; cbn [pdu_pack pdu_crc_flag].
  - apply fd_pack_crc_valid.
  - apply eof_pack_crc_valid.
  - apply fin_pack_crc_valid.
  - apply ack_pack_crc_valid.
  - apply md_pack_crc_valid.
  - apply nak_pack_crc_valid.
  - apply prompt_pack_crc_valid.
  - apply ka_pack_crc_valid.
Qed.

(* non-vacuity: a CRC-flagged File Data PDU (1-octet IDs 1/2/3, offset 0, data 07) *)
Definition ex_conf : PduConfig :=
  {| cf_src := {| ubf_val := 1; ubf_len := 1 |}; cf_dst := {| ubf_val := 2; ubf_len := 1 |};
     cf_seq := {| ubf_val := 3; ubf_len := 1 |};
     cf_mode := 0; cf_large := 0; cf_crc := 1; cf_dir := 0; cf_segctrl := 0 |}.
Example pack_crc_example : exists p b,
  FileData.fd_new ex_conf {| FileData.fp_data := [7]; FileData.fp_offset := 0; FileData.fp_meta := None |} = Ok (p, ex_conf) /\
  pdu_pack (PFileData p) = Ok b /\ pdu_crc_flag (PFileData p) = 1 /\ wf_bytes b /\ length b = 14%nat.
Proof.
  eexists. eexists. split; [vm_compute; reflexivity|]. split; [vm_compute; reflexivity|].
  split; [reflexivity|]. split; [|reflexivity]. repeat constructor; lia.
Qed.
