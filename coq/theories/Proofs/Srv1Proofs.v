(* Proofs for Model/Fields.v and Model/Srv1.v (property C15, service-1 part; C09/C10 lemmas of
   PacketFieldEnum.unpack, FailureNotice.unpack, Service1Tm.unpack / from_tm). *)
From Coq Require Import ZArith List Bool Lia ZifyBool.
From SP Require Import Base.Result Base.Bytes Base.BytesFacts Base.Crc16 Base.Crc16Facts
  Model.SpacePacket Model.Util Model.PusTc Model.PusTm Model.ReqId Model.Fields Model.Srv1
  Spec.SpacePacketSpec Spec.UtilSpec Spec.PusSpec Spec.Srv1Spec
  Proofs.SpacePacketProofs Proofs.UtilProofs Proofs.ReqIdProofs.
Import ListNotations.
Open Scope Z_scope.
Ltac Zify.zify_post_hook ::= Z.to_euclidean_division_equations.
Ltac list_eq := repeat (apply f_equal2; [lia|]); try reflexivity.

(* ================= PacketFieldEnum ================= *)

Lemma enum_width_gen w : enum_width_ok w <-> gen_width_ok w.
Proof. unfold enum_width_ok, gen_width_ok. tauto. Qed.

Lemma check_pfc_ok w : enum_width_ok w -> check_pfc (w * 8) = Ok w.
Proof. intros [-> | [-> | [-> | ->]]]; reflexivity. Qed.

Lemma check_pfc_inv pfc n : check_pfc pfc = Ok n -> enum_width_ok n /\ pfc = n * 8.
Proof.
  unfold check_pfc. destruct (negb _ || negb _) eqn:E; [discriminate|].
  intros [= <-]. unfold enum_width_ok. lia.
Qed.

Lemma check_pfc_err pfc : (forall n, enum_width_ok n -> pfc <> n * 8) -> check_pfc pfc = Err EValue.
Proof.
  intros H. destruct (check_pfc pfc) as [n|e] eqn:E.
  - apply check_pfc_inv in E. destruct E as [W ->]. exfalso. exact (H n W eq_refl).
  - unfold check_pfc in E. destruct (negb _ || negb _); congruence.
Qed.

(* only 8 / 16 / 32 / 64 bits are accepted, and the answer is the width in octets *)
Theorem check_pfc_iff pfc n : check_pfc pfc = Ok n <-> enum_width_ok n /\ pfc = n * 8.
Proof. split; [apply check_pfc_inv|]. intros [W ->]. apply check_pfc_ok, W. Qed.

Theorem check_pfc_refuses pfc : pfc <> 8 -> pfc <> 16 -> pfc <> 32 -> pfc <> 64 -> check_pfc pfc = Err EValue.
Proof. intros. apply check_pfc_err. unfold enum_width_ok. intros n W. lia. Qed.

Lemma check_pfc_cases pfc :
  (exists n, enum_width_ok n /\ pfc = n * 8 /\ check_pfc pfc = Ok n) \/ check_pfc pfc = Err EValue.
Proof.
  destruct (check_pfc pfc) as [n|e] eqn:E.
  - left. exists n. apply check_pfc_inv in E. tauto.
  - right. unfold check_pfc in E. destruct (negb _ || negb _); congruence.
Qed.

Lemma enum_width_pos w : enum_width_ok w -> 1 <= w <= 8.
Proof. unfold enum_width_ok. lia. Qed.

Lemma enum_layout_len w v : enum_width_ok w -> len (enum_layout w v) = w.
Proof. intros W. apply enum_width_pos in W. apply (layout_len w v). lia. Qed.

Lemma enum_layout_wf w v : wf_bytes (enum_layout w v).
Proof. apply be_encode_wf. Qed.

Definition mk_pfe (w v : Z) : pfe := {| pfe_pfc := w * 8; pfe_val := v |}.

Theorem pfe_new_ok w v : enum_width_ok w -> pfe_new (w * 8) v = Ok (mk_pfe w v).
Proof. intros W. unfold pfe_new. rewrite check_pfc_ok by assumption. reflexivity. Qed.

Theorem pfe_new_refuses pfc v : pfc <> 8 -> pfc <> 16 -> pfc <> 32 -> pfc <> 64 -> pfe_new pfc v = Err EValue.
Proof. intros. unfold pfe_new. rewrite check_pfc_refuses by assumption. reflexivity. Qed.

(* pack = big-endian value on exactly the declared width; len = that width *)
Theorem pfe_pack_layout w v : enum_fits w v ->
  pfe_pack (mk_pfe w v) = Ok (enum_layout w v) /\ pfe_len (mk_pfe w v) = Ok w.
Proof.
  intros [W R]. unfold pfe_pack, pfe_len, mk_pfe; cbn [pfe_pfc pfe_val].
  rewrite check_pfc_ok by assumption. cbn [bind]. split; [|reflexivity].
  rewrite to_unsigned_ok by (try apply enum_width_gen; assumption). reflexivity.
Qed.

(* a value that does not fit the declared width is never packed *)
Theorem pfe_pack_refuses w v : enum_width_ok w -> ~ (0 <= v < 256 ^ w) ->
  exists e, pfe_pack (mk_pfe w v) = Err e.
Proof.
  intros W R. unfold pfe_pack, mk_pfe; cbn [pfe_pfc pfe_val].
  rewrite check_pfc_ok by assumption. cbn [bind].
  destruct (Z_lt_dec v 0).
  - exists EStruct. apply to_unsigned_negative; [apply enum_width_gen, W|assumption].
  - exists EValue. apply to_unsigned_large; [apply enum_width_gen, W|lia].
Qed.

Lemma pfe_unpack_spec d w : enum_width_ok w -> w <= len d ->
  pfe_unpack d (w * 8) = Ok (mk_pfe w (be_decode (slice d 0 w))).
Proof.
  intros W L. pose proof (enum_width_pos w W) as P. unfold pfe_unpack.
  rewrite check_pfc_ok by assumption. cbn [bind].
  destruct (w >? len d) eqn:E; [lia|].
  rewrite uss_ok by (apply enum_width_gen, W). cbn [bind].
  rewrite struct_unpack_ok by (apply slice_0_length; lia). cbn [bind].
  apply pfe_new_ok, W.
Qed.

Lemma pfe_unpack_short d w : enum_width_ok w -> len d < w -> pfe_unpack d (w * 8) = Err ETooShort.
Proof.
  intros W L. unfold pfe_unpack. rewrite check_pfc_ok by assumption. cbn [bind].
  destruct (w >? len d) eqn:E; [reflexivity|lia].
Qed.

Lemma pfe_unpack_bad d pfc : check_pfc pfc = Err EValue -> pfe_unpack d pfc = Err EValue.
Proof. intros H. unfold pfe_unpack. rewrite H. reflexivity. Qed.

(* decode (encode ++ anything) with the declared width *)
Theorem pfe_unpack_layout w v rest : enum_fits w v ->
  pfe_unpack (enum_layout w v ++ rest) (w * 8) = Ok (mk_pfe w v).
Proof.
  intros [W R]. pose proof (enum_width_pos w W) as P.
  rewrite pfe_unpack_spec; [|assumption|rewrite len_app, enum_layout_len by assumption; pose proof (len_nonneg rest); lia].
  unfold enum_layout. change (be_encode (Z.to_nat w) v) with (ubf_layout w v).
  rewrite slice_0_app_layout by lia. unfold ubf_layout.
  rewrite be_decode_encode by (rewrite pow256_nat by lia; assumption). reflexivity.
Qed.

(* decode any octets, then encode: the first w octets come back *)
Theorem pfe_pack_unpack d w : wf_bytes d -> enum_width_ok w -> w <= len d ->
  exists f, pfe_unpack d (w * 8) = Ok f /\ pfe_pack f = Ok (slice d 0 w) /\
            enum_fits w (pfe_val f) /\ pfe_val f = be_decode (slice d 0 w).
Proof.
  intros Wf W L. pose proof (enum_width_pos w W) as P.
  exists (mk_pfe w (be_decode (slice d 0 w))). split; [apply pfe_unpack_spec; assumption|].
  assert (F : enum_fits w (be_decode (slice d 0 w))).
  { split; [assumption|]. rewrite slice_0_firstn. apply firstn_repr; [assumption|lia]. }
  destruct (pfe_pack_layout _ _ F) as [-> _]. split; [|split; [exact F|reflexivity]].
  f_equal. rewrite slice_0_firstn. apply firstn_layout; [assumption|lia].
Qed.

(* C10: every octet string, every PFC *)
Theorem pfe_unpack_total d pfc : ok_or_documented (pfe_unpack d pfc).
Proof.
  destruct (check_pfc_cases pfc) as [(n & W & -> & _)|E].
  - destruct (Z_le_dec n (len d)).
    + rewrite pfe_unpack_spec by assumption. exact I.
    + rewrite pfe_unpack_short by (assumption || lia). reflexivity.
  - rewrite pfe_unpack_bad by assumption. reflexivity.
Qed.

Theorem pfe_prefix_rejected w v n : enum_width_ok w -> (n < Z.to_nat w)%nat ->
  pfe_unpack (firstn n (enum_layout w v)) (w * 8) = Err ETooShort.
Proof.
  intros W L. apply pfe_unpack_short; [assumption|]. unfold len. rewrite firstn_length. lia.
Qed.

(* C09: only the first w octets are read *)
Theorem pfe_no_overread d w : enum_width_ok w -> w <= len d ->
  pfe_unpack d (w * 8) = pfe_unpack (slice d 0 w) (w * 8).
Proof.
  intros W L. pose proof (enum_width_pos w W) as P.
  assert (L2 : len (slice d 0 w) = w).
  { unfold len. rewrite slice_0_length by lia. lia. }
  rewrite !pfe_unpack_spec by (assumption || lia). f_equal. f_equal. f_equal.
  rewrite !slice_0_firstn. rewrite firstn_firstn. f_equal. lia.
Qed.

Lemma pfe_eqb_refl f : pfe_eqb f f = true.
Proof. unfold pfe_eqb. rewrite !Z.eqb_refl. reflexivity. Qed.

Theorem pfe_eqb_iff a b : pfe_eqb a b = true <-> a = b.
Proof.
  destruct a as [p v], b as [q u]. unfold pfe_eqb; cbn [pfe_pfc pfe_val].
  rewrite andb_true_iff, !Z.eqb_eq. split; [intros [-> ->]; reflexivity|intros [= -> ->]; auto].
Qed.

(* ================= FailureNotice ================= *)

Definition mk_fn (w c : Z) (d : bytes) : fnotice := {| fn_code := mk_pfe w c; fn_data := d |}.

Theorem fn_pack_layout w c d : enum_fits w c ->
  fn_pack (mk_fn w c d) = Ok (enum_layout w c ++ d) /\ fn_len (mk_fn w c d) = Ok (w + len d).
Proof.
  intros F. unfold fn_pack, fn_len, mk_fn; cbn [fn_code fn_data].
  destruct (pfe_pack_layout w c F) as [-> ->]. split; reflexivity.
Qed.

Lemma slice_after (a b : bytes) i j : i = len a -> j = len a + len b -> slice (a ++ b) i j = b.
Proof.
  intros Hi Hj. pose proof (slice_mid a b [] i j Hi Hj) as E. rewrite app_nil_r in E. exact E.
Qed.

Theorem fn_unpack_layout w c d : enum_fits w c ->
  fn_unpack (enum_layout w c ++ d) w (Some (len d)) = Ok (mk_fn w c d) /\
  fn_unpack (enum_layout w c ++ d) w None = Ok (mk_fn w c d).
Proof.
  intros F. pose proof F as [W _]. unfold fn_unpack.
  rewrite pfe_unpack_layout by assumption. cbn [bind].
  rewrite len_app, enum_layout_len by assumption.
  replace (w + len d - w) with (len d) by lia.
  rewrite slice_after by (rewrite ?enum_layout_len by assumption; reflexivity).
  split; reflexivity.
Qed.

(* C10: every octet string, every width argument, every length argument *)
Theorem fn_unpack_total d n k : ok_or_documented (fn_unpack d n k).
Proof.
  unfold fn_unpack. pose proof (pfe_unpack_total d (n * 8)) as T.
  destruct (pfe_unpack d (n * 8)); cbn [bind]; [exact I|exact T].
Qed.

Theorem fn_unpack_short d w k : enum_width_ok w -> len d < w -> fn_unpack d w k = Err ETooShort.
Proof. intros W L. unfold fn_unpack. rewrite pfe_unpack_short by assumption. reflexivity. Qed.

Lemma bytes_eqb_refl a : bytes_eqb a a = true.
Proof. apply bytes_eqb_eq. reflexivity. Qed.

Theorem fn_eqb_iff a b : fn_eqb a b = true <-> a = b.
Proof.
  destruct a as [c d], b as [c' d']. unfold fn_eqb; cbn [fn_code fn_data].
  rewrite andb_true_iff, pfe_eqb_iff, bytes_eqb_eq.
  split; [intros [-> ->]; reflexivity|intros [= -> ->]; auto].
Qed.

(* ================= VerificationParams ================= *)

Definition mk_vp (h : sph) (step : option (Z * Z)) (fail : option (Z * Z * bytes)) : vparams :=
  {| vp_req := reqid_from_sph h;
     vp_step := match step with None => None | Some (w, v) => Some (mk_pfe w v) end;
     vp_fn := match fail with None => None | Some (w, c, d) => Some (mk_fn w c d) end |}.


(* source data = request ID ++ step ID ++ failure code ++ failure data, each on its width *)
Theorem vp_pack_layout h step fail : sph_valid h -> step_fits step -> fail_fits fail ->
  vp_pack (mk_vp h step fail) = Ok (srv1_src_layout h step fail) /\
  vp_len (mk_vp h step fail) = Ok (len (srv1_src_layout h step fail)).
Proof.
  intros H S F. unfold vp_pack, vp_len, mk_vp, srv1_src_layout; cbn [vp_req vp_step vp_fn].
  rewrite reqid_pack_layout by assumption. cbn [bind].
  assert (L4 : len (reqid_layout h) = 4) by reflexivity.
  destruct step as [[ws v]|], fail as [[[we c] d]|]; cbn [step_fits fail_fits] in S, F.
  - destruct F as [F Wd]. destruct (pfe_pack_layout ws v S) as [-> ->]. destruct (fn_pack_layout we c d F) as [-> ->].
    cbn [bind]. rewrite !len_app, !enum_layout_len by (apply S || apply F). rewrite L4. split; [reflexivity|f_equal; ring].
  - destruct (pfe_pack_layout ws v S) as [-> ->]. cbn [bind].
    rewrite !len_app, !enum_layout_len by apply S. rewrite L4. change (len []) with 0. split; [reflexivity|f_equal; ring].
  - destruct F as [F Wd]. destruct (fn_pack_layout we c d F) as [-> ->]. cbn [bind app].
    rewrite !len_app, !enum_layout_len by apply F. rewrite L4. change (len []) with 0. split; [reflexivity|f_equal; ring].
  - cbn [bind app]. rewrite app_nil_r. split; reflexivity.
Qed.

Lemma srv1_src_layout_wf h step fail : sph_valid h -> fail_fits fail -> wf_bytes (srv1_src_layout h step fail).
Proof.
  intros H F. unfold srv1_src_layout. rewrite !wf_bytes_app. split; [apply reqid_layout_wf, H|].
  split.
  - destruct step as [[ws v]|]; [apply enum_layout_wf|constructor].
  - destruct fail as [[[we c] d]|]; [|constructor]. rewrite wf_bytes_app. split; [apply enum_layout_wf|apply F].
Qed.

Lemma k_cases k : 1 <= k <= 8 -> k = 1 \/ k = 2 \/ k = 3 \/ k = 4 \/ k = 5 \/ k = 6 \/ k = 7 \/ k = 8.
Proof. lia. Qed.

(* parameter sets are accepted exactly when they match the subservice; a mismatch raises
   InvalidVerifParams *)
Theorem vp_verify_iff v k : 1 <= k <= 8 ->
  (srv1_shape_ok k (has (vp_step v)) (has (vp_fn v)) -> vp_verify v k = Ok tt) /\
  (~ srv1_shape_ok k (has (vp_step v)) (has (vp_fn v)) -> vp_verify v k = Err EVerifParams).
Proof.
  intros K. unfold srv1_shape_ok, vp_verify.
  destruct (k_cases k K) as [->|[->|[->|[->|[->|[->|[->| ->]]]]]]];
    destruct (vp_step v), (vp_fn v); cbn; split; intros H; try reflexivity;
    try (exfalso; apply H; split; reflexivity); destruct H; discriminate.
Qed.

(* ================= the PUS TM wrapper: pack = tm_layout, decode (tm_layout) ================= *)

Definition mk_tm (service k apid seq msgcnt ref dest version : Z) (stamp src : bytes) (crc : option bytes) : tm :=
  {| tm_sph := {| ver := version; ptype := 0; shf := 1; apid := apid; sflags := 3; scount := seq;
                  dlen := 7 + len stamp + len src + 1 |};
     tm_sec := {| tms_version := 2; tms_ref := ref; tms_service := service; tms_subservice := k;
                  tms_msgcnt := msgcnt; tms_dest := dest; tms_stamp := stamp |};
     tm_src := src; tm_crc := crc |}.

Definition crc_octets (b : bytes) : bytes := [crc16 b / 256; crc16 b mod 256].

Definition chk_ref (r : Z) : bool :=
  (Z.shiftr (Z.land (32 + r) 240) 4 =? 2) && (Z.land (32 + r) 15 =? r) && (Z.lor (Z.shiftl 2 4) r =? 32 + r).
Lemma ref_sweep : forallb chk_ref (zrange 0 16) = true.
Proof. vm_compute. reflexivity. Qed.
Lemma ref_bits r : 0 <= r < 16 ->
  Z.shiftr (Z.land (32 + r) 240) 4 = 2 /\ Z.land (32 + r) 15 = r /\ Z.lor (Z.shiftl 2 4) r = 32 + r.
Proof.
  intros R. pose proof (sweep _ 0 16 ltac:(lia) ref_sweep r ltac:(lia)) as P.
  unfold chk_ref in P. lia.
Qed.

Lemma tm_hdr_valid service k apid seq msgcnt ref dest version stamp src :
  tm_args_valid service k apid seq msgcnt ref dest version stamp src ->
  sph_valid {| ver := version; ptype := 0; shf := 1; apid := apid; sflags := 3; scount := seq;
               dlen := 7 + len stamp + len src + 1 |}.
Proof.
  unfold tm_args_valid, sph_valid; cbn [SpacePacket.ver ptype shf SpacePacket.apid sflags scount dlen].
  pose proof (len_nonneg stamp). pose proof (len_nonneg src). lia.
Qed.

Lemma tmsec_pack_layout service k msgcnt ref dest stamp :
  0 <= service < 256 -> 0 <= k < 256 -> 0 <= msgcnt < 65536 -> 0 <= ref < 16 -> 0 <= dest < 65536 ->
  tmsec_pack {| tms_version := 2; tms_ref := ref; tms_service := service; tms_subservice := k;
                tms_msgcnt := msgcnt; tms_dest := dest; tms_stamp := stamp |} =
  Ok ([32 + ref; service; k; msgcnt / 256; msgcnt mod 256; dest / 256; dest mod 256] ++ stamp).
Proof.
  intros Hs Hk Hm Hr Hd. unfold tmsec_pack; cbn [tms_version tms_ref tms_service tms_subservice tms_msgcnt tms_dest tms_stamp].
  destruct (ref_bits ref Hr) as (_ & _ & ->).
  unfold ba_append, is_byte.
  destruct ((0 <=? 32 + ref) && (32 + ref <? 256)) eqn:E1; [|lia]. cbn [bind app].
  destruct ((0 <=? service) && (service <? 256)) eqn:E2; [|lia]. cbn [bind app].
  destruct ((0 <=? k) && (k <? 256)) eqn:E3; [|lia]. cbn [bind app].
  rewrite !struct_pack_ok by (cbn; lia). cbn [bind]. rewrite !be_encode_2. cbn [app].
  f_equal. list_eq.
Qed.

Lemma tm_body_wf service k apid seq msgcnt ref dest version stamp src :
  tm_args_valid service k apid seq msgcnt ref dest version stamp src ->
  wf_bytes (tm_body service k apid seq msgcnt ref dest version stamp src).
Proof.
  intros V. pose proof (tm_hdr_valid _ _ _ _ _ _ _ _ _ _ V) as HV.
  unfold tm_args_valid in V. destruct V as (Hs & Hk & Ha & Hq & Hm & Hr & Hd & Hv & Ws & Wd & L).
  unfold tm_body. rewrite !wf_bytes_app. split; [apply sph_layout_wf, HV|].
  split; [|split; assumption]. repeat (apply Forall_cons; [lia|]). apply Forall_nil.
Qed.

Lemma crc_octets_be b : wf_bytes b -> crc_octets b = be_encode 2 (crc16 b).
Proof.
  intros W. pose proof (crc16_range b W) as R. unfold in16 in R.
  rewrite be_encode_2. unfold crc_octets. list_eq.
Qed.

(* PusTm.pack of a telemetry object with in-range fields = the standard's layout *)
Lemma s1_tm_pack_layout service k apid seq msgcnt ref dest version stamp src crc :
  tm_args_valid service k apid seq msgcnt ref dest version stamp src ->
  tm_pack (mk_tm service k apid seq msgcnt ref dest version stamp src crc) =
  Ok (tm_layout service k apid seq msgcnt ref dest version stamp src,
      mk_tm service k apid seq msgcnt ref dest version stamp src
            (Some (crc_octets (tm_body service k apid seq msgcnt ref dest version stamp src)))).
Proof.
  intros V. pose proof (tm_hdr_valid _ _ _ _ _ _ _ _ _ _ V) as HV.
  pose proof (tm_body_wf _ _ _ _ _ _ _ _ _ _ V) as WB.
  unfold tm_args_valid in V. destruct V as (Hs & Hk & Ha & Hq & Hm & Hr & Hd & Hv & Ws & Wd & L).
  unfold tm_pack, mk_tm; cbn [tm_sph tm_sec tm_src].
  rewrite sph_pack_layout by exact HV. cbn [bind].
  rewrite tmsec_pack_layout by assumption. cbn [bind].
  assert (B : sph_layout {| ver := version; ptype := 0; shf := 1; apid := apid; sflags := 3; scount := seq;
                            dlen := 7 + len stamp + len src + 1 |}
              ++ ([32 + ref; service; k; msgcnt / 256; msgcnt mod 256; dest / 256; dest mod 256] ++ stamp) ++ src
              = tm_body service k apid seq msgcnt ref dest version stamp src).
  { unfold tm_body. rewrite <- !app_assoc. reflexivity. }
  rewrite B. pose proof (crc16_range _ WB) as R. unfold in16 in R.
  rewrite struct_pack_ok by (change (256 ^ Z.of_nat 2) with 65536; lia). cbn [bind].
  rewrite <- crc_octets_be by exact WB. reflexivity.
Qed.

Lemma slice_after_clamp (a b : bytes) i j : i = len a -> len a + len b <= j -> slice (a ++ b) i j = b.
Proof.
  intros -> H. unfold slice, len in *. rewrite Nat2Z.id, skipn_app_exact by reflexivity.
  apply firstn_all2. lia.
Qed.

Lemma tmsec_unpack_cells c0 c1 c2 c3 c4 c5 c6 stamp rest :
  Z.shiftr (Z.land c0 240) 4 = 2 ->
  tmsec_unpack (c0 :: c1 :: c2 :: c3 :: c4 :: c5 :: c6 :: stamp ++ rest) (len stamp) =
  Ok {| tms_version := 2; tms_ref := Z.land c0 15; tms_service := c1; tms_subservice := c2;
        tms_msgcnt := c3 * 256 + c4; tms_dest := c5 * 256 + c6; tms_stamp := stamp |}.
Proof.
  intros B1. unfold tmsec_unpack, TMSEC_MIN_LEN.
  pose proof (len_nonneg stamp) as Ls. pose proof (len_nonneg rest) as Lr.
  assert (L : len (c0 :: c1 :: c2 :: c3 :: c4 :: c5 :: c6 :: stamp ++ rest) = 7 + len stamp + len rest).
  { change (c0 :: c1 :: c2 :: c3 :: c4 :: c5 :: c6 :: stamp ++ rest) with ([c0; c1; c2; c3; c4; c5; c6] ++ stamp ++ rest).
    rewrite !len_app. change (len [c0; c1; c2; c3; c4; c5; c6]) with 7. lia. }
  rewrite L.
  destruct (7 + len stamp + len rest <? 7) eqn:E2; [lia|].
  eval_get. cbn [bind]. rewrite B1.
  change (negb (2 =? PUS_C)) with false. cbv iota.
  destruct (7 + len stamp >? 7 + len stamp + len rest) eqn:E3; [lia|].
  change (slice (c0 :: c1 :: c2 :: c3 :: c4 :: c5 :: c6 :: stamp ++ rest) 3 5) with [c3; c4].
  change (slice (c0 :: c1 :: c2 :: c3 :: c4 :: c5 :: c6 :: stamp ++ rest) 5 7) with [c5; c6].
  rewrite !struct_unpack_ok by reflexivity. cbn [bind]. rewrite !be_decode_2.
  change (c0 :: c1 :: c2 :: c3 :: c4 :: c5 :: c6 :: stamp ++ rest) with ([c0; c1; c2; c3; c4; c5; c6] ++ stamp ++ rest).
  rewrite slice_mid by reflexivity. reflexivity.
Qed.

(* PusTm.unpack of the layout, with the timestamp length of the layout *)
Lemma s1_tm_unpack_layout_app service k apid seq msgcnt ref dest version stamp src rest :
  tm_args_valid service k apid seq msgcnt ref dest version stamp src ->
  tm_unpack (tm_layout service k apid seq msgcnt ref dest version stamp src ++ rest) (len stamp) =
  Ok (mk_tm service k apid seq msgcnt ref dest version stamp src
            (Some (crc_octets (tm_body service k apid seq msgcnt ref dest version stamp src)))).
Proof.
  intros V. pose proof (tm_hdr_valid _ _ _ _ _ _ _ _ _ _ V) as HV.
  pose proof (tm_body_wf _ _ _ _ _ _ _ _ _ _ V) as WB.
  unfold tm_args_valid in V. destruct V as (Hs & Hk & Ha & Hq & Hm & Hr & Hd & Hv & Ws & Wd & L).
  pose proof (len_nonneg stamp) as Ls. pose proof (len_nonneg src) as Lr. pose proof (len_nonneg rest) as Lre.
  set (h := {| ver := version; ptype := 0; shf := 1; apid := apid; sflags := 3; scount := seq;
               dlen := 7 + len stamp + len src + 1 |}) in *.
  set (body := tm_body service k apid seq msgcnt ref dest version stamp src) in *.
  set (sec7 := [32 + ref; service; k; msgcnt / 256; msgcnt mod 256; dest / 256; dest mod 256]).
  set (crc := crc_octets body).
  assert (Lh : len (sph_layout h) = 6) by reflexivity.
  assert (L7 : len sec7 = 7) by reflexivity.
  assert (Lc : len crc = 2) by reflexivity.
  assert (D : tm_layout service k apid seq msgcnt ref dest version stamp src ++ rest
              = sph_layout h ++ (sec7 ++ stamp ++ src ++ crc ++ rest)).
  { unfold tm_layout. fold body. fold crc. unfold body, tm_body. fold h. fold sec7.
    rewrite <- !app_assoc. reflexivity. }
  assert (Ltot : len (sph_layout h ++ (sec7 ++ stamp ++ src ++ crc ++ rest)) = 15 + len stamp + len src + len rest).
  { rewrite !len_app, Lh, L7, Lc. lia. }
  unfold tm_unpack. rewrite D. rewrite sph_unpack_pack by exact HV. cbn [bind].
  unfold get_total_space_packet_len_from_len_field. change (dlen h) with (7 + len stamp + len src + 1).
  rewrite Ltot.
  destruct (7 + len stamp + len src + 1 + 6 + 1 >? 15 + len stamp + len src + len rest) eqn:E1; [lia|].
  unfold CCSDS_HEADER_LEN. rewrite slice_from_app by (rewrite Lh; reflexivity).
  (* secondary header *)
  assert (TS : tmsec_unpack (sec7 ++ stamp ++ src ++ crc ++ rest) (len stamp) =
               Ok {| tms_version := 2; tms_ref := ref; tms_service := service; tms_subservice := k;
                     tms_msgcnt := msgcnt; tms_dest := dest; tms_stamp := stamp |}).
  { destruct (ref_bits ref Hr) as (B1 & B2 & _).
    unfold sec7. cbn [app]. rewrite tmsec_unpack_cells by exact B1.
    rewrite B2. f_equal. f_equal; lia. }
  rewrite TS. cbn [bind]. unfold tmsec_header_size; cbn [tms_stamp].
  destruct (7 + len stamp + len src + 1 + 6 + 1 <? 7 + len stamp + 6 + 2) eqn:E4; [lia|].
  (* CRC over the declared packet *)
  assert (ST : slice_to (sph_layout h ++ sec7 ++ stamp ++ src ++ crc ++ rest) (7 + len stamp + len src + 1 + 6 + 1)
               = sph_layout h ++ sec7 ++ stamp ++ src ++ crc).
  { replace (sph_layout h ++ sec7 ++ stamp ++ src ++ crc ++ rest) with ((sph_layout h ++ sec7 ++ stamp ++ src ++ crc) ++ rest)
      by (rewrite <- !app_assoc; reflexivity).
    apply slice_to_app. rewrite !len_app, Lh, L7, Lc. lia. }
  rewrite ST.
  assert (BC : sph_layout h ++ sec7 ++ stamp ++ src ++ crc = body ++ be_encode 2 (crc16 body)).
  { unfold crc. rewrite crc_octets_be by exact WB. unfold body, tm_body. fold h. fold sec7.
    rewrite <- !app_assoc. reflexivity. }
  rewrite BC. rewrite crc_residue by exact WB. change (negb (0 =? 0)) with false. cbv iota.
  (* source data and CRC slices *)
  assert (S1 : slice (sph_layout h ++ sec7 ++ stamp ++ src ++ crc ++ rest) (7 + len stamp + 6) (7 + len stamp + len src + 1 + 6 + 1 - 2) = src).
  { replace (sph_layout h ++ sec7 ++ stamp ++ src ++ crc ++ rest) with ((sph_layout h ++ sec7 ++ stamp) ++ src ++ (crc ++ rest))
      by (rewrite <- !app_assoc; reflexivity).
    apply slice_mid; rewrite !len_app, Lh, L7; lia. }
  assert (S2 : slice (sph_layout h ++ sec7 ++ stamp ++ src ++ crc ++ rest) (7 + len stamp + len src + 1 + 6 + 1 - 2) (7 + len stamp + len src + 1 + 6 + 1) = crc).
  { replace (sph_layout h ++ sec7 ++ stamp ++ src ++ crc ++ rest) with ((sph_layout h ++ sec7 ++ stamp ++ src) ++ crc ++ rest)
      by (rewrite <- !app_assoc; reflexivity).
    apply slice_mid; rewrite !len_app, Lh, L7; try rewrite Lc; lia. }
  rewrite S1, S2. reflexivity.
Qed.

Lemma s1_tm_unpack_layout service k apid seq msgcnt ref dest version stamp src :
  tm_args_valid service k apid seq msgcnt ref dest version stamp src ->
  tm_unpack (tm_layout service k apid seq msgcnt ref dest version stamp src) (len stamp) =
  Ok (mk_tm service k apid seq msgcnt ref dest version stamp src
            (Some (crc_octets (tm_body service k apid seq msgcnt ref dest version stamp src)))).
Proof.
  intros V. pose proof (s1_tm_unpack_layout_app _ _ _ _ _ _ _ _ _ _ [] V) as E.
  rewrite app_nil_r in E. exact E.
Qed.

(* ================= Service1Tm: constructor, pack ================= *)

Lemma srv1_src_len_ge h step fail : 4 <= len (srv1_src_layout h step fail).
Proof.
  unfold srv1_src_layout. rewrite len_app. change (len (reqid_layout h)) with 4.
  pose proof (len_nonneg (match step with None => [] | Some (w, v) => enum_layout w v end
                          ++ match fail with None => [] | Some (w, c, d) => enum_layout w c ++ d end)). lia.
Qed.

Lemma tm_new_empty_ok k stamp apid seq ref dest version :
  0 <= k < 256 -> 0 <= apid <= 2047 -> 0 <= seq <= 16383 -> len stamp <= 65527 ->
  tm_new S1_VERIFICATION k stamp [] apid seq 0 ref dest version =
  Ok (mk_tm 1 k apid seq 0 ref dest version stamp [] None).
Proof.
  intros Hk Ha Hq L. pose proof (len_nonneg stamp). unfold tm_new, tm_data_len, TMSEC_MIN_LEN.
  change (len []) with 0.
  rewrite sph_new_ok by (assumption || lia). cbn [bind].
  unfold tmsec_new, S1_VERIFICATION.
  destruct ((1 >? 255) || (1 <? 0)) eqn:E1; [lia|].
  destruct ((k >? 255) || (k <? 0)) eqn:E2; [lia|].
  destruct ((0 >? 65535) || (0 <? 0)) eqn:E3; [lia|].
  reflexivity.
Qed.

(* Service1Tm.__init__ for matching parameters: the source data is the layout, the length
   field follows *)
Theorem srv1_new_spec apid k seq version ref dest stamp h step fail :
  1 <= k <= 8 -> srv1_args_valid apid k seq version ref dest stamp h step fail ->
  srv1_shape_ok k (has step) (has fail) ->
  srv1_new apid k stamp (Some (mk_vp h step fail)) seq version ref dest =
  Ok {| s1_tm := mk_tm 1 k apid seq 0 ref dest version stamp (srv1_src_layout h step fail) None;
        s1_vp := mk_vp h step fail |}.
Proof.
  intros K (V & HV & SF & FF) Sh. unfold tm_args_valid in V.
  destruct V as (Hs & Hk & Ha & Hq & Hm & Hr & Hd & Hv & Ws & Wd & L).
  pose proof (srv1_src_len_ge h step fail). unfold srv1_new.
  rewrite tm_new_empty_ok by (assumption || lia). cbn [bind].
  destruct (vp_verify_iff (mk_vp h step fail) k K) as [OKv _].
  rewrite OKv by (unfold mk_vp; cbn [vp_step vp_fn]; destruct step as [[? ?]|], fail as [[[? ?] ?]|]; exact Sh).
  cbn [bind]. destruct (vp_pack_layout h step fail HV SF FF) as [-> _]. cbn [bind]. reflexivity.
Qed.

(* parameter sets that do not match the subservice are refused with InvalidVerifParams *)
Theorem srv1_param_mismatch_refused apid k seq version ref dest stamp h step fail :
  1 <= k <= 8 -> 0 <= apid <= 2047 -> 0 <= seq <= 16383 -> len stamp <= 65527 ->
  ~ srv1_shape_ok k (has step) (has fail) ->
  srv1_new apid k stamp (Some (mk_vp h step fail)) seq version ref dest = Err EVerifParams.
Proof.
  intros K Ha Hq L Sh. unfold srv1_new.
  rewrite tm_new_empty_ok by (assumption || lia). cbn [bind].
  destruct (vp_verify_iff (mk_vp h step fail) k K) as [_ Bad].
  rewrite Bad; [reflexivity|].
  unfold mk_vp; cbn [vp_step vp_fn]. destruct step as [[? ?]|], fail as [[[? ?] ?]|]; exact Sh.
Qed.

(* pack = the PUS-C telemetry layout around request ID ++ step ++ code ++ data *)
Theorem srv1_pack_layout apid k seq version ref dest stamp h step fail crc :
  srv1_args_valid apid k seq version ref dest stamp h step fail ->
  let src := srv1_src_layout h step fail in
  srv1_pack {| s1_tm := mk_tm 1 k apid seq 0 ref dest version stamp src crc; s1_vp := mk_vp h step fail |} =
  Ok (srv1_layout apid k seq version ref dest stamp h step fail,
      {| s1_tm := mk_tm 1 k apid seq 0 ref dest version stamp src
                        (Some (crc_octets (tm_body 1 k apid seq 0 ref dest version stamp src)));
         s1_vp := mk_vp h step fail |}).
Proof.
  intros (V & _) src. unfold srv1_pack; cbn [s1_tm s1_vp].
  rewrite s1_tm_pack_layout by exact V. reflexivity.
Qed.

Theorem srv1_layout_length apid k seq version ref dest stamp h step fail :
  len (srv1_layout apid k seq version ref dest stamp h step fail)
  = 15 + len stamp + len (srv1_src_layout h step fail).
Proof.
  unfold srv1_layout, tm_layout, tm_body. rewrite !len_app.
  change (len (sph_layout _)) with 6. change (len [_; _; _; _; _; _; _]) with 7.
  change (len [_; _]) with 2. lia.
Qed.

(* ================= decoding the source data ================= *)

Definition cfg_matches (cfg : unpack_params) (step : option (Z * Z)) (fail : option (Z * Z * bytes)) : Prop :=
  match step with Some (w, _) => up_step cfg = w | None => True end /\
  match fail with Some (w, _, _) => up_err cfg = w | None => True end.

Lemma fn_unpack_layout_clamp w c d nd : enum_fits w c -> len d <= nd ->
  fn_unpack (enum_layout w c ++ d) w (Some nd) = Ok (mk_fn w c d).
Proof.
  intros F L. pose proof F as [W _]. unfold fn_unpack.
  rewrite pfe_unpack_layout by assumption. cbn [bind].
  rewrite slice_after_clamp by (rewrite ?enum_layout_len by assumption; lia). reflexivity.
Qed.

Lemma reqid_unpack_layout_exact h : sph_valid h -> reqid_unpack (reqid_layout h) = Ok (reqid_from_sph h).
Proof. intros H. pose proof (reqid_unpack_layout h [] H) as E. rewrite app_nil_r in E. exact E. Qed.

Lemma pfe_unpack_layout_exact w v : enum_fits w v -> pfe_unpack (enum_layout w v) (w * 8) = Ok (mk_pfe w v).
Proof. intros F. pose proof (pfe_unpack_layout w v [] F) as E. rewrite app_nil_r in E. exact E. Qed.

Ltac eval_eqb :=
  unfold SUB_STEP_FAIL, SUB_STEP_OK;
  repeat match goal with
  | |- context [Z.eqb ?a ?b] =>
      let r := eval vm_compute in (Z.eqb a b) in
      match r with
      | true => change (Z.eqb a b) with true
      | false => change (Z.eqb a b) with false
      end
  end.

(* Service1Tm._unpack_raw_tm on a telemetry object whose source data is the layout and whose
   subservice is k, with the widths the report was built with: the parameters come back *)
Theorem unpack_raw_tm_layout t vp0 k h step fail cfg :
  1 <= k <= 8 -> sph_valid h -> step_fits step -> fail_fits fail ->
  srv1_shape_ok k (has step) (has fail) -> cfg_matches cfg step fail ->
  tm_src t = srv1_src_layout h step fail -> tms_subservice (tm_sec t) = k ->
  vp_step vp0 = None -> vp_fn vp0 = None ->
  unpack_raw_tm {| s1_tm := t; s1_vp := vp0 |} cfg = Ok {| s1_tm := t; s1_vp := mk_vp h step fail |}.
Proof.
  intros K HV SF FF Sh (CS & CF) Hsrc Hk V0s V0f.
  (* acceptance / start / completion failure: no step ID *)
  Ltac fail_case :=
    cbn [app]; eval_eqb; cbn [negb orb]; cbv iota; cbn [bind];
    match goal with L4' : len (reqid_layout _) = 4, Wwe : enum_width_ok _ |- _ =>
      rewrite !len_app, L4', enum_layout_len by assumption end;
    match goal with d : bytes |- _ => pose proof (len_nonneg d) end;
    match goal with |- context [if ?c then _ else _] => destruct c eqn:?E2; [lia|] end;
    rewrite slice_from_app by reflexivity;
    rewrite fn_unpack_layout_clamp by (assumption || lia); reflexivity.
  pose proof (srv1_src_len_ge h step fail) as L4.
  unfold unpack_raw_tm; cbn [s1_tm s1_vp]. rewrite Hsrc.
  destruct (len (srv1_src_layout h step fail) <? 4) eqn:E; [lia|].
  assert (S04 : slice (srv1_src_layout h step fail) 0 4 = reqid_layout h).
  { unfold srv1_src_layout. rewrite slice_0. apply slice_to_app. reflexivity. }
  rewrite S04, reqid_unpack_layout_exact by assumption. cbn [bind].
  unfold set_req, srv1_subservice; cbn [s1_tm s1_vp]. rewrite Hk, V0s, V0f.
  unfold srv1_shape_ok in Sh. destruct Sh as [Sf Ss].
  unfold unpack_failure_verification, unpack_success_verification, srv1_is_step_reply, srv1_subservice,
    set_step, set_fn; cbn [s1_tm s1_vp vp_req vp_step vp_fn]. rewrite Hsrc, Hk.
  unfold srv1_src_layout in *.
  assert (L4' : len (reqid_layout h) = 4) by reflexivity.
  destruct (k_cases k K) as [->|[->|[->|[->|[->|[->|[->| ->]]]]]]];
    destruct step as [[ws v]|], fail as [[[we c] d]|]; cbn in Sf, Ss; try discriminate;
    cbn [step_fits fail_fits] in SF, FF; cbn [mk_vp] in *;
    try (match type of FF with _ /\ _ => destruct FF as [FF Wd] end; pose proof FF as [Wwe _]; pose proof (enum_width_pos we Wwe));
    try (pose proof SF as [Wws _]; pose proof (enum_width_pos ws Wws));
    try subst ws; try subst we;
    change (1 mod 2 =? 0) with false; change (2 mod 2 =? 0) with true; change (3 mod 2 =? 0) with false;
    change (4 mod 2 =? 0) with true; change (5 mod 2 =? 0) with false; change (6 mod 2 =? 0) with true;
    change (7 mod 2 =? 0) with false; change (8 mod 2 =? 0) with true; cbv iota.
  - (* 1 *) reflexivity.
  - (* 2 *) fail_case.
  - (* 3 *) reflexivity.
  - (* 4 *) fail_case.
  - (* 5 *) eval_eqb. cbv iota.
    rewrite app_nil_r.
    rewrite slice_after by (rewrite ?enum_layout_len by assumption; reflexivity).
    rewrite pfe_unpack_layout_exact by assumption. reflexivity.
  - (* 6 *) eval_eqb. cbn [negb orb]. cbv iota. cbn [bind].
    rewrite !len_app, L4', !enum_layout_len by assumption. pose proof (len_nonneg d).
    destruct (4 + (up_step cfg + (up_err cfg + len d)) <? up_err cfg + up_step cfg) eqn:E2; [lia|].
    rewrite slice_from_app by reflexivity.
    rewrite pfe_unpack_layout by assumption. cbn [bind].
    rewrite app_assoc. rewrite slice_from_app by (rewrite len_app, L4', enum_layout_len by assumption; reflexivity).
    rewrite fn_unpack_layout_clamp by (assumption || lia). reflexivity.
  - (* 7 *) reflexivity.
  - (* 8 *) fail_case.
Qed.

(* ================= equality ================= *)

Lemma fn_eqb_refl f : fn_eqb f f = true.
Proof. apply fn_eqb_iff. reflexivity. Qed.

Lemma vp_eq_refl v : vp_eq v v = Ok true.
Proof.
  destruct v as [r [s|] [f|]]; unfold vp_eq; cbn [vp_req vp_step vp_fn];
    rewrite reqid_eqb_refl, ?pfe_eqb_refl, ?fn_eqb_refl; reflexivity.
Qed.

(* whole-object equality of verification parameters is equality of request ID bits, step and notice *)
Theorem vp_eq_true_iff a b : reqid_valid (vp_req a) -> reqid_valid (vp_req b) ->
  (vp_eq a b = Ok true <-> a = b).
Proof.
  intros Va Vb. split; [|intros ->; apply vp_eq_refl].
  destruct a as [ra sa fa], b as [rb sb fb]; unfold vp_eq; cbn [vp_req vp_step vp_fn] in *.
  destruct (reqid_eqb ra rb) eqn:E; cbn [negb]; [|discriminate].
  apply (proj1 (reqid_eq_iff ra rb Va Vb)) in E. subst rb.
  destruct sa as [x|], sb as [y|]; cbn [bind]; try discriminate.
  - destruct (pfe_eqb x y) eqn:Ep; cbn [negb]; [|discriminate]. apply pfe_eqb_iff in Ep. subst y.
    destruct fa as [p|], fb as [q|]; try discriminate; [|reflexivity].
    intros [= Ef]. apply fn_eqb_iff in Ef. subst q. reflexivity.
  - destruct fa as [p|], fb as [q|]; try discriminate; [|reflexivity].
    intros [= Ef]. apply fn_eqb_iff in Ef. subst q. reflexivity.
Qed.

Lemma tm_eqb_mk service k apid seq msgcnt ref dest version stamp src c1 c2 :
  tm_args_valid service k apid seq msgcnt ref dest version stamp src ->
  tm_eqb (mk_tm service k apid seq msgcnt ref dest version stamp src c1)
         (mk_tm service k apid seq msgcnt ref dest version stamp src c2) = true.
Proof.
  intros V. pose proof (tm_hdr_valid _ _ _ _ _ _ _ _ _ _ V) as HV.
  unfold tm_args_valid in V. destruct V as (Hs & Hk & Ha & Hq & Hm & Hr & Hd & Hv & Ws & Wd & L).
  unfold tm_eqb, mk_tm, sph_eqb, tmsec_eqb; cbn [tm_sph tm_sec tm_src].
  rewrite sph_pack_layout by exact HV. rewrite tmsec_pack_layout by assumption.
  rewrite !bytes_eqb_refl. reflexivity.
Qed.

(* ================= the round trip ================= *)

(* Build a report for a telecommand, pack it, decode it with the widths it was built with:
   the constructor accepts; the packed octets are the layout (request ID ++ step ++ code ++ data
   inside a service-1 telemetry packet); decoding returns the same request ID, step ID, error
   code and failure data; the decoded report re-packs identically and compares equal to the
   original (both ways); trailing octets after the packet are not read. *)
Theorem srv1_unpack_pack apid k seq version ref dest stamp h step fail cfg rest :
  1 <= k <= 8 -> srv1_args_valid apid k seq version ref dest stamp h step fail ->
  srv1_shape_ok k (has step) (has fail) -> cfg_matches cfg step fail -> up_ts_len cfg = len stamp ->
  let src := srv1_src_layout h step fail in
  let octets := srv1_layout apid k seq version ref dest stamp h step fail in
  let s := {| s1_tm := mk_tm 1 k apid seq 0 ref dest version stamp src None; s1_vp := mk_vp h step fail |} in
  let u := {| s1_tm := mk_tm 1 k apid seq 0 ref dest version stamp src
                             (Some (crc_octets (tm_body 1 k apid seq 0 ref dest version stamp src)));
              s1_vp := mk_vp h step fail |} in
  srv1_new apid k stamp (Some (mk_vp h step fail)) seq version ref dest = Ok s /\
  srv1_pack s = Ok (octets, u) /\
  srv1_unpack (octets ++ rest) cfg = Ok u /\
  srv1_pack u = Ok (octets, u) /\
  srv1_eq u s = Ok true /\ srv1_eq s u = Ok true.
Proof.
  intros K A Sh CM TS src octets s u. pose proof A as (V & HV & SF & FF).
  split; [apply srv1_new_spec; assumption|].
  split; [apply (srv1_pack_layout apid k seq version ref dest stamp h step fail None A)|].
  split.
  - unfold srv1_unpack. rewrite TS. unfold octets, srv1_layout.
    rewrite s1_tm_unpack_layout_app by exact V. cbn [bind].
    apply unpack_raw_tm_layout with (k := k); try assumption; reflexivity.
  - split; [apply (srv1_pack_layout apid k seq version ref dest stamp h step fail _ A)|].
    unfold srv1_eq, s, u; cbn [s1_tm s1_vp]. rewrite !tm_eqb_mk by exact V.
    rewrite vp_eq_refl. split; reflexivity.
Qed.

(* the accessors of the decoded report *)
Theorem srv1_decoded_accessors apid k seq version ref dest stamp h step fail crc :
  srv1_shape_ok k (has step) (has fail) ->
  let u := {| s1_tm := mk_tm 1 k apid seq 0 ref dest version stamp (srv1_src_layout h step fail) crc;
              s1_vp := mk_vp h step fail |} in
  vp_req (s1_vp u) = reqid_from_sph h /\
  vp_step (s1_vp u) = match step with None => None | Some (w, v) => Some (mk_pfe w v) end /\
  srv1_error_code u = Ok (match fail with None => None | Some (w, c, _) => Some (mk_pfe w c) end) /\
  match vp_fn (s1_vp u), fail with
  | None, None => True | Some f, Some (_, _, d) => fn_data f = d | _, _ => False end.
Proof.
  intros [Sf Ss] u. split; [reflexivity|]. split; [reflexivity|].
  unfold srv1_error_code, srv1_has_failure_notice, srv1_subservice, u; cbn [s1_tm s1_vp mk_tm tm_sec tms_subservice mk_vp vp_fn].
  replace (k mod 2 =? 0) with (Z.even k) by (rewrite Zmod_even; destruct (Z.even k); reflexivity).
  destruct fail as [[[we c] d]|]; cbn [has] in Sf; rewrite <- Sf; split; reflexivity.
Qed.

(* ================= C10: total decoding ================= *)

Lemma reqid_unpack_total_any d : ok_or_documented (reqid_unpack d).
Proof.
  unfold reqid_unpack. destruct (len d <? 4) eqn:E; [reflexivity|].
  rewrite !struct_unpack_ok by (rewrite slice_length by lia; reflexivity). cbn [bind].
  rewrite pid_from_raw_spec. cbn [bind].
  destruct (psc_from_raw_spec (be_decode (slice d 2 4))) as [A B].
  destruct (Z_le_dec 0 (be_decode (slice d 2 4))), (Z_lt_dec (be_decode (slice d 2 4)) 65536);
    try (rewrite B by lia; reflexivity).
  rewrite A by lia. exact I.
Qed.

Lemma bind_total {A B} (r : res A) (f : A -> res B) :
  ok_or_documented r -> (forall a, ok_or_documented (f a)) -> ok_or_documented (bind r f).
Proof. intros Hr Hf. destruct r; cbn [bind]; [apply Hf|exact Hr]. Qed.

Lemma unpack_failure_total s cfg : ok_or_documented (unpack_failure_verification s cfg).
Proof.
  unfold unpack_failure_verification. apply bind_total.
  - destruct (srv1_subservice s =? 6); [exact I|]. destruct (negb _); [reflexivity|exact I].
  - intros e. destruct (len (tm_src (s1_tm s)) <? e); [reflexivity|].
    apply bind_total.
    + destruct (srv1_is_step_reply s); [|exact I]. apply bind_total; [apply pfe_unpack_total|]. intros; exact I.
    + intros [s1 idx]. apply bind_total; [apply fn_unpack_total|]. intros; exact I.
Qed.

Lemma unpack_success_total s cfg : ok_or_documented (unpack_success_verification s cfg).
Proof.
  unfold unpack_success_verification. destruct (srv1_subservice s =? SUB_STEP_OK).
  - apply bind_total; [apply pfe_unpack_total|]. intros; exact I.
  - destruct (negb _); [reflexivity|exact I].
Qed.

(* every telemetry object, every source data, every parameter triple: a report or a
   documented error (ValueError family), never IndexError / struct.error / ... *)
Theorem unpack_raw_tm_total s cfg : ok_or_documented (unpack_raw_tm s cfg).
Proof.
  unfold unpack_raw_tm. destruct (len (tm_src (s1_tm s)) <? 4); [reflexivity|].
  apply bind_total; [apply reqid_unpack_total_any|]. intros r.
  destruct (_ =? 0); [apply unpack_failure_total|apply unpack_success_total].
Qed.

Theorem srv1_from_tm_total t cfg : ok_or_documented (srv1_from_tm t cfg).
Proof. apply unpack_raw_tm_total. Qed.

(* Service1Tm.unpack adds nothing undocumented to PusTm.unpack *)
Theorem srv1_unpack_total d cfg :
  ok_or_documented (tm_unpack d (up_ts_len cfg)) -> ok_or_documented (srv1_unpack d cfg).
Proof. intros H. unfold srv1_unpack. apply bind_total; [exact H|]. intros; apply unpack_raw_tm_total. Qed.

(* C09 at the wrapper: nothing beyond what PusTm.unpack reads is read *)
Theorem srv1_no_overread d s cfg :
  tm_unpack (d ++ s) (up_ts_len cfg) = tm_unpack d (up_ts_len cfg) ->
  srv1_unpack (d ++ s) cfg = srv1_unpack d cfg.
Proof. intros H. unfold srv1_unpack. rewrite H. reflexivity. Qed.

(* source data shorter than the request ID is refused with the documented too-short error *)
Theorem unpack_raw_tm_short s cfg : len (tm_src (s1_tm s)) < 4 -> unpack_raw_tm s cfg = Err ETooShort.
Proof. intros H. unfold unpack_raw_tm. destruct (_ <? 4) eqn:E; [reflexivity|lia]. Qed.

Lemma len_slice_from (d : bytes) i : 0 <= i -> len (slice_from d i) = Z.max 0 (len d - i).
Proof. intros H. unfold slice_from, len. rewrite skipn_length. lia. Qed.

Lemma len_slice_le (d : bytes) i j : 0 <= i -> len (slice d i j) <= Z.max 0 (len d - i).
Proof. intros H. unfold slice, len. rewrite firstn_length, skipn_length. lia. Qed.

(* source data that holds the request ID but is too short for the step ID / failure code of the
   report's subservice is refused with the documented too-short error, for all valid widths *)
Theorem unpack_raw_tm_short_params t vp0 k cfg :
  1 <= k <= 8 -> enum_width_ok (up_step cfg) -> enum_width_ok (up_err cfg) ->
  wf_bytes (tm_src t) -> tms_subservice (tm_sec t) = k ->
  len (tm_src t) < 4 + (if (k =? 5) || (k =? 6) then up_step cfg else 0)
                     + (if Z.even k then up_err cfg else 0) ->
  unpack_raw_tm {| s1_tm := t; s1_vp := vp0 |} cfg = Err ETooShort.
Proof.
  intros K Ws We Wf Hk L.
  pose proof (enum_width_pos _ Ws) as Ps. pose proof (enum_width_pos _ We) as Pe.
  destruct (Z_lt_dec (len (tm_src t)) 4) as [L4|L4]; [apply unpack_raw_tm_short; exact L4|].
  unfold unpack_raw_tm; cbn [s1_tm s1_vp].
  destruct (len (tm_src t) <? 4) eqn:E; [lia|].
  destruct (reqid_pack_unpack (slice (tm_src t) 0 4)) as (r & -> & _).
  { apply wf_bytes_slice, Wf. } { rewrite slice_length by lia. reflexivity. }
  cbn [bind]. unfold set_req, srv1_subservice; cbn [s1_tm s1_vp]. rewrite Hk.
  unfold unpack_failure_verification, unpack_success_verification, srv1_is_step_reply, srv1_subservice,
    set_step, set_fn; cbn [s1_tm s1_vp vp_req vp_step vp_fn]. rewrite Hk.
  destruct (k_cases k K) as [->|[->|[->|[->|[->|[->|[->| ->]]]]]]]; cbn [Z.even orb Z.eqb Pos.eqb] in L; try lia;
    change (2 mod 2 =? 0) with true; change (4 mod 2 =? 0) with true; change (5 mod 2 =? 0) with false;
    change (6 mod 2 =? 0) with true; change (8 mod 2 =? 0) with true; cbv iota; eval_eqb; cbn [negb orb]; cbv iota; cbn [bind].
  - destruct (_ <? up_err cfg); [reflexivity|].
    rewrite fn_unpack_short; [reflexivity|assumption|rewrite len_slice_from by lia; lia].
  - destruct (_ <? up_err cfg); [reflexivity|].
    rewrite fn_unpack_short; [reflexivity|assumption|rewrite len_slice_from by lia; lia].
  - rewrite pfe_unpack_short; [reflexivity|assumption|].
    pose proof (len_slice_le (tm_src t) 4 (4 + up_step cfg)). lia.
  - destruct (_ <? up_err cfg + up_step cfg); [reflexivity|].
    destruct (Z_lt_dec (len (tm_src t) - 4) (up_step cfg)).
    + rewrite pfe_unpack_short; [reflexivity|assumption|rewrite len_slice_from by lia; lia].
    + rewrite pfe_unpack_spec by (assumption || rewrite len_slice_from by lia; lia). cbn [bind].
      rewrite fn_unpack_short; [reflexivity|assumption|rewrite len_slice_from by lia; lia].
  - destruct (_ <? up_err cfg); [reflexivity|].
    rewrite fn_unpack_short; [reflexivity|assumption|rewrite len_slice_from by lia; lia].
Qed.

(* non-vacuity: a step-failure report with 2-octet step ID, 4-octet code and failure data *)
Definition ex_h : sph := {| ver := 5; ptype := 1; shf := 1; apid := 2047; sflags := 3; scount := 16383; dlen := 0 |}.
Example srv1_args_valid_ex :
  srv1_args_valid 2047 6 16383 7 15 65535 [1; 2; 3] ex_h (Some (2, 65535)) (Some (4, 4294967295, [9; 8; 7])) /\
  srv1_shape_ok 6 (has (Some (2, 65535))) (has (Some (4, 4294967295, [9; 8; 7]))) /\
  cfg_matches {| up_ts_len := 3; up_step := 2; up_err := 4 |} (Some (2, 65535)) (Some (4, 4294967295, [9; 8; 7])).
Proof.
  unfold srv1_args_valid, tm_args_valid, srv1_shape_ok, cfg_matches, step_fits, fail_fits, enum_fits, enum_width_ok, sph_valid, ex_h.
  cbn [SpacePacket.ver ptype shf SpacePacket.apid sflags scount dlen has up_step up_err].
  repeat split; try lia; try reflexivity; try (cbv; intuition congruence);
    try (repeat (apply Forall_cons; [cbv; intuition congruence|]); apply Forall_nil).
Qed.

(* ================= the telecommand a report is built for ================= *)

(* A telecommand built by PusTc(...) has an in-range header; its request ID packs to the first
   four octets of the telecommand's own packed header. *)
Theorem reqid_of_tc service subservice apid app seq source_id ack t :
  tc_new service subservice apid app seq source_id ack = Ok t ->
  sph_valid (tc_sph t) /\
  sph_pack (tc_sph t) = Ok (sph_layout (tc_sph t)) /\
  reqid_pack (reqid_from_sph (tc_sph t)) = Ok (firstn 4 (sph_layout (tc_sph t))).
Proof.
  unfold tc_new. set (dl := tc_get_data_length (len app) PUS_C_SEC_HEADER_LEN).
  destruct (sph_new_accepts_iff PT_TC apid seq dl 1 SF_UNSEG 0) as [A B].
  destruct (sph_new PT_TC apid seq dl 1 SF_UNSEG 0) as [h|e] eqn:E; cbn [bind]; [|discriminate].
  intros [= <-]. cbn [tc_sph].
  assert (R : 0 <= apid <= 2047 /\ 0 <= seq <= 16383 /\ 0 <= dl <= 65535).
  { destruct (Z_le_dec 0 apid), (Z_le_dec apid 2047), (Z_le_dec 0 seq), (Z_le_dec seq 16383),
      (Z_le_dec 0 dl), (Z_le_dec dl 65535); try lia; exfalso;
      (assert (N : ~ (0 <= apid <= 2047 /\ 0 <= seq <= 16383 /\ 0 <= dl <= 65535)) by lia);
      specialize (B N); congruence. }
  specialize (A R). assert (Eh : h = {| ver := 0; ptype := PT_TC; shf := 1; apid := apid; sflags := SF_UNSEG; scount := seq; dlen := dl |}) by congruence.
  subst h.
  assert (V : sph_valid {| ver := 0; ptype := PT_TC; shf := 1; apid := apid; sflags := SF_UNSEG; scount := seq; dlen := dl |}).
  { unfold sph_valid, PT_TC, SF_UNSEG; cbn [SpacePacket.ver ptype shf SpacePacket.apid sflags scount dlen]. lia. }
  split; [exact V|]. split; [apply sph_pack_layout, V|apply reqid_pack_layout, V].
Qed.

Definition pfe_of (o : option (Z * Z)) : option pfe :=
  match o with None => None | Some (w, v) => Some (mk_pfe w v) end.
Definition fn_of (o : option (Z * Z * bytes)) : option fnotice :=
  match o with None => None | Some (w, c, d) => Some (mk_fn w c d) end.

(* create_*_tm(apid, pus_tc, ...) = Service1Tm(apid, subservice, VerificationParams(request ID of
   pus_tc's header, ...), timestamp): the report carries exactly that telecommand's request ID *)
Theorem srv1_create_for_tc service subservice tcapid app seq source_id ack t k apid stamp step fail :
  tc_new service subservice tcapid app seq source_id ack = Ok t ->
  1 <= k <= 8 -> srv1_args_valid apid k 0 0 0 0 stamp (tc_sph t) step fail ->
  srv1_shape_ok k (has step) (has fail) ->
  srv1_create k apid (tc_sph t) (pfe_of step) (fn_of fail) stamp =
  Ok {| s1_tm := mk_tm 1 k apid 0 0 0 0 0 stamp (srv1_src_layout (tc_sph t) step fail) None;
        s1_vp := mk_vp (tc_sph t) step fail |}.
Proof.
  intros T K A Sh. unfold srv1_create.
  change {| vp_req := reqid_from_sph (tc_sph t); vp_step := pfe_of step; vp_fn := fn_of fail |}
    with (mk_vp (tc_sph t) step fail).
  apply srv1_new_spec; assumption.
Qed.

(* ================= C10: every strict prefix of a packed report is rejected ================= *)

Theorem srv1_prefix_rejected apid k seq version ref dest stamp h step fail cfg n :
  srv1_args_valid apid k seq version ref dest stamp h step fail ->
  (n < length (srv1_layout apid k seq version ref dest stamp h step fail))%nat ->
  srv1_unpack (firstn n (srv1_layout apid k seq version ref dest stamp h step fail)) cfg = Err ETooShort.
Proof.
  intros (V & _) L. pose proof (tm_hdr_valid _ _ _ _ _ _ _ _ _ _ V) as HV.
  pose proof (srv1_layout_length apid k seq version ref dest stamp h step fail) as LL.
  unfold srv1_unpack, srv1_layout in *.
  set (src := srv1_src_layout h step fail) in *.
  set (hd := {| ver := version; ptype := 0; shf := 1; apid := apid; sflags := 3; scount := seq;
                dlen := 7 + len stamp + len src + 1 |}) in *.
  assert (D : exists r, tm_layout 1 k apid seq 0 ref dest version stamp src = sph_layout hd ++ r).
  { eexists. unfold tm_layout, tm_body. fold hd. rewrite <- !app_assoc. reflexivity. }
  destruct D as [r D]. rewrite D in *.
  assert (E : tm_unpack (firstn n (sph_layout hd ++ r)) (up_ts_len cfg) = Err ETooShort).
  { unfold tm_unpack. destruct (le_lt_dec 6 n) as [G|G].
    - rewrite firstn_app. change (length (sph_layout hd)) with 6%nat.
      rewrite (firstn_all2 (sph_layout hd)) by (cbn; lia).
      rewrite sph_unpack_pack by exact HV. cbn [bind].
      unfold get_total_space_packet_len_from_len_field. change (dlen hd) with (7 + len stamp + len src + 1).
      destruct (_ >? _) eqn:E1; [reflexivity|]. exfalso.
      rewrite len_app in E1, LL. change (len (sph_layout hd)) with 6 in E1, LL.
      rewrite app_length in L. change (length (sph_layout hd)) with 6%nat in L.
      unfold len in *. rewrite firstn_length in E1. lia.
    - rewrite sph_unpack_short; [reflexivity|]. rewrite firstn_length. lia. }
  rewrite E. reflexivity.
Qed.

(* ================= C10: Service1Tm.unpack on every octet string ================= *)

Lemma py_get_ok (d : bytes) i : 0 <= i < len d -> exists b, py_get d i = Ok b.
Proof. intros H. destruct (py_get_in_range d i H) as (b & E & _). eauto. Qed.

Lemma tmsec_unpack_total d tl : ok_or_documented (tmsec_unpack d tl).
Proof.
  unfold tmsec_unpack, TMSEC_MIN_LEN. destruct (len d <? 7) eqn:E; [reflexivity|].
  destruct (py_get_ok d 0 ltac:(lia)) as [b0 ->]. cbn [bind].
  destruct (negb _); [reflexivity|].
  destruct (7 + tl >? len d); [reflexivity|].
  destruct (py_get_ok d 1 ltac:(lia)) as [b1 ->]. destruct (py_get_ok d 2 ltac:(lia)) as [b2 ->]. cbn [bind].
  rewrite !struct_unpack_ok by (rewrite slice_length by lia; reflexivity). exact I.
Qed.

Theorem s1_tm_unpack_total d tl : wf_bytes d -> ok_or_documented (tm_unpack d tl).
Proof.
  intros W. unfold tm_unpack. destruct (le_lt_dec 6 (length d)) as [L|L].
  - destruct (sph_pack_unpack d W L) as (h & -> & _). cbn [bind].
    destruct (_ >? len d); [reflexivity|].
    apply bind_total; [apply tmsec_unpack_total|]. intros s.
    destruct (_ <? _); [reflexivity|]. destruct (negb _); [reflexivity|exact I].
  - rewrite sph_unpack_short by assumption. reflexivity.
Qed.

(* every octet string, every parameter triple: a report or a documented error *)
Theorem srv1_unpack_total_closed d cfg : wf_bytes d -> ok_or_documented (srv1_unpack d cfg).
Proof. intros W. apply srv1_unpack_total, s1_tm_unpack_total, W. Qed.

(* C09: octets after the declared packet are never read *)
Theorem srv1_unpack_layout_app apid k seq version ref dest stamp h step fail cfg rest :
  srv1_args_valid apid k seq version ref dest stamp h step fail -> up_ts_len cfg = len stamp ->
  srv1_unpack (srv1_layout apid k seq version ref dest stamp h step fail ++ rest) cfg =
  srv1_unpack (srv1_layout apid k seq version ref dest stamp h step fail) cfg.
Proof.
  intros (V & _) TS. unfold srv1_unpack, srv1_layout. rewrite TS.
  rewrite s1_tm_unpack_layout_app, s1_tm_unpack_layout by exact V. reflexivity.
Qed.

(* ================= operation histories (objects used again, attributes assigned) ================= *)

(* PacketFieldEnum: after any assignment of val / pfc the object packs its CURRENT value in its
   CURRENT width (nothing is cached), and equals a fresh field with the same values, whichever way
   it was built *)
Theorem pfe_assign_pack f w v : enum_fits w v ->
  pfe_pack (pfe_apply (pfe_apply f (PfPfc (w * 8))) (PfVal v)) = Ok (enum_layout w v) /\
  pfe_pack (pfe_apply (pfe_apply f (PfVal v)) (PfPfc (w * 8))) = Ok (enum_layout w v).
Proof.
  intros H. cbn [pfe_apply pfe_pfc pfe_val].
  split; apply (pfe_pack_layout w v H).
Qed.

Theorem pfe_eq_fresh_ok f w : enum_width_ok w -> pfe_pfc f = w * 8 -> pfe_eq_fresh f = Ok (true, true).
Proof.
  intros W E. unfold pfe_eq_fresh. rewrite E, (pfe_new_ok w (pfe_val f) W). cbn [bind].
  replace (mk_pfe w (pfe_val f)) with f by (destruct f; unfold mk_pfe; cbn in *; congruence).
  rewrite pfe_eqb_refl. reflexivity.
Qed.

Theorem pfe_observers_pure f :
  pfe_apply f PfPack = f /\ pfe_apply f PfLen = f /\ pfe_apply f PfObserve = f /\ pfe_apply f PfEqFresh = f.
Proof. repeat split. Qed.

(* VerificationParams: the observers do not change the object; a refused edit (no step ID / no
   failure notice to edit) is an AttributeError and nothing else *)
Theorem vp_observers_pure v k :
  vp_apply v VpPack = Ok v /\ vp_apply v VpLen = Ok v /\ vp_apply v (VpVerify k) = Ok v /\
  vp_apply v VpObserve = Ok v.
Proof. repeat split. Qed.

Theorem vp_edit_absent v x d :
  (vp_step v = None -> vp_apply v (VpStepVal x) = Err EAttribute) /\
  (vp_fn v = None -> vp_apply v (VpFnData d) = Err EAttribute /\ vp_apply v (VpFnCodeVal x) = Err EAttribute).
Proof.
  split; [intros E|intros E; split]; cbn [vp_apply]; rewrite E; reflexivity.
Qed.

(* Service1Tm.pack is repeatable: the second pack returns the same octets and leaves the object as the
   first one left it *)
Theorem srv1_pack_twice s b s' : srv1_pack s = Ok (b, s') -> srv1_pack s' = Ok (b, s').
Proof.
  unfold srv1_pack. intros H. apply bind_ok in H. destruct H as ([b0 t'] & T & E).
  cbn [fst snd] in E. injection E as <- <-. cbn [s1_tm s1_vp].
  unfold tm_pack in T |- *.
  apply bind_ok in T. destruct T as (h & Hh & T).
  apply bind_ok in T. destruct T as (sc & Hs & T).
  apply bind_ok in T. destruct T as (c & Hc & T).
  injection T as <- <-. cbn [tm_sph tm_sec tm_src tm_crc].
  rewrite Hh, Hs. cbn [bind]. rewrite Hc. cbn [bind fst snd]. reflexivity.
Qed.

(* the tc_req_id setter only stores the request ID: the packed report is unchanged (the source data
   were built by the constructor and are not rebuilt) *)
Theorem srv1_set_req_pack s r b s' : srv1_pack s = Ok (b, s') ->
  srv1_pack (set_req s r) = Ok (b, set_req s' r).
Proof.
  unfold srv1_pack, set_req. cbn [s1_tm s1_vp]. intros H.
  apply bind_ok in H. destruct H as ([b0 t'] & T & E). cbn [fst snd] in E. injection E as <- <-.
  rewrite T. cbn [bind fst snd s1_tm s1_vp]. reflexivity.
Qed.

(* assignments through pus_tm (sequence count, APID) and the request-ID setter leave the
   verification parameters, resp. the telemetry object, alone *)
Theorem srv1_apply_frame s :
  (forall r s', srv1_apply s (S1SetReq r) = Ok s' -> s1_tm s' = s1_tm s /\ vp_req (s1_vp s') = r /\
      vp_step (s1_vp s') = vp_step (s1_vp s) /\ vp_fn (s1_vp s') = vp_fn (s1_vp s)) /\
  (forall v s', srv1_apply s (S1SetSeqCount v) = Ok s' -> s1_vp s' = s1_vp s /\
      tm_src (s1_tm s') = tm_src (s1_tm s) /\ scount (tm_sph (s1_tm s')) = v) /\
  (forall v s', srv1_apply s (S1SetApid v) = Ok s' -> s1_vp s' = s1_vp s /\
      tm_src (s1_tm s') = tm_src (s1_tm s) /\ apid (tm_sph (s1_tm s')) = v).
Proof.
  repeat split; cbn [srv1_apply] in *;
    try (match goal with H : Ok _ = Ok _ |- _ => injection H as <- end; reflexivity).
  all: cbn [tm_apply bind] in H; injection H as <-; reflexivity.
Qed.
