From Coq Require Import ZArith List Bool Lia.
From SP Require Import Base.Result Base.Bytes.
