(* Proofs for Model/Fields.v and Model/Srv1.v (property C15).  Snapshot BEFORE the repairs of
   D-C15-1 / D-C15-2: the two witnesses against the unrepaired code. *)
From Coq Require Import ZArith List Bool Lia.
From SP Require Import Base.Result Base.Bytes Model.SpacePacket Model.PusTm Model.ReqId Model.Fields Model.Srv1.
Import ListNotations.
Open Scope Z_scope.

(* D-C15-2: check_pfc accepts field widths that are not 8/16/32/64 bits (round(pfc/8)) *)
Lemma check_pfc_only_octet_widths_refuted :
  exists pfc n, check_pfc pfc = Ok n /\ pfc <> 8 * n.
Proof. exists 12, 2. split; [vm_compute; reflexivity | lia]. Qed.

(* D-C15-1: a failure report decoded with matching widths has the same parameters but never
   compares equal to the original *)
Definition d_c15_1_witness : bool :=
  match srv1_new 2 2 [] (Some {| vp_req := reqid_empty; vp_step := None;
                                 vp_fn := Some {| fn_code := {| pfe_pfc := 8; pfe_val := 1 |}; fn_data := [] |} |})
                 0 0 0 0 with
  | Ok s =>
      match srv1_pack s with
      | Ok p =>
          match srv1_unpack (fst p) {| up_ts_len := 0; up_step := 1; up_err := 1 |} with
          | Ok u => match srv1_eq u (snd p), vp_pack (s1_vp u), vp_pack (s1_vp s) with
                    | Ok false, Ok x, Ok y => bytes_eqb x y
                    | _, _, _ => false
                    end
          | Err _ => false
          end
      | Err _ => false
      end
  | Err _ => false
  end.
Lemma srv1_decoded_equal_refuted : d_c15_1_witness = true.
Proof. vm_compute. reflexivity. Qed.
