From Coq Require Import ZArith List Bool Lia ZifyBool.
From SP Require Import Base.Result Base.Bytes Base.BytesFacts Base.Crc16 Base.Crc16Facts
  Model.SpacePacket Spec.SpacePacketSpec Proofs.SpacePacketProofs Model.PusTc Model.PusTm Spec.PusSpec
  Proofs.PusTcProofs.
Import ListNotations.
Open Scope Z_scope.
Ltac Zify.zify_post_hook ::= Z.to_euclidean_division_equations.
Ltac tm_cbn := cbn [ver ptype shf SpacePacket.apid sflags scount dlen tms_version tms_ref tms_service
                    tms_subservice tms_msgcnt tms_dest tms_stamp].
Ltac len_simpl := unfold sph_layout; rewrite ?len_app, ?len_cons, ?len_nil.
Ltac list_eq := repeat (apply f_equal2; [lia|]); try reflexivity.

(* ---------- secondary header ---------- *)
Definition tmsec_valid (s : tmsec) : Prop :=
  tms_version s = 2 /\ 0 <= tms_ref s < 16 /\ 0 <= tms_service s < 256 /\
  0 <= tms_subservice s < 256 /\ 0 <= tms_msgcnt s < 65536 /\ 0 <= tms_dest s < 65536 /\
  wf_bytes (tms_stamp s).

Definition tmsec_layout (s : tmsec) : bytes :=
  [32 + tms_ref s; tms_service s; tms_subservice s; tms_msgcnt s / 256; tms_msgcnt s mod 256;
   tms_dest s / 256; tms_dest s mod 256] ++ tms_stamp s.

Lemma tmsec_pack_layout s : tmsec_valid s -> tmsec_pack s = Ok (tmsec_layout s).
Proof.
  intros (H0 & H1 & H2 & H3 & H4 & H5 & W). unfold tmsec_pack. rewrite H0.
  rewrite version_or by lia. rewrite ba_append_ok by lia. cbn [bind].
  rewrite ba_append_ok by lia. cbn [bind]. rewrite ba_append_ok by lia. cbn [bind].
  rewrite !struct_pack2_ok by lia. cbn [bind]. rewrite !be_encode_2.
  unfold tmsec_layout. cbn [List.app]. f_equal.
  repeat (apply f_equal2; [lia|]). reflexivity.
Qed.

Lemma tmsec_layout_wf s : tmsec_valid s -> wf_bytes (tmsec_layout s).
Proof.
  intros (H0 & H1 & H2 & H3 & H4 & H5 & W). unfold tmsec_layout. rewrite wf_bytes_app. split; [|assumption].
  unfold wf_bytes. repeat constructor; lia.
Qed.

Lemma tmsec_new_ok service subservice stamp msgcnt dest ref :
  0 <= service < 256 -> 0 <= subservice < 256 -> 0 <= msgcnt < 65536 ->
  tmsec_new service subservice stamp msgcnt dest ref =
  Ok {| tms_version := 2; tms_ref := ref; tms_service := service; tms_subservice := subservice;
        tms_msgcnt := msgcnt; tms_dest := dest; tms_stamp := stamp |}.
Proof.
  intros H1 H2 H3. unfold tmsec_new, PUS_C.
  destruct ((service >? 255) || (service <? 0)) eqn:E1; [lia|].
  destruct ((subservice >? 255) || (subservice <? 0)) eqn:E2; [lia|].
  destruct ((msgcnt >? 65535) || (msgcnt <? 0)) eqn:E3; [lia|].
  reflexivity.
Qed.

Lemma tmsec_new_err service subservice stamp msgcnt dest ref :
  ~ (0 <= service < 256 /\ 0 <= subservice < 256 /\ 0 <= msgcnt < 65536) ->
  tmsec_new service subservice stamp msgcnt dest ref = Err EValue.
Proof.
  intros H. unfold tmsec_new.
  destruct ((service >? 255) || (service <? 0)) eqn:E1; [reflexivity|].
  destruct ((subservice >? 255) || (subservice <? 0)) eqn:E2; [reflexivity|].
  destruct ((msgcnt >? 65535) || (msgcnt <? 0)) eqn:E3; [reflexivity|]. lia.
Qed.

(* ---------- decoder = its specification, on every octet string, for every timestamp length ---------- *)
Lemma tmsec_unpack_short r ts : (length r < 7)%nat -> tmsec_unpack r ts = Err ETooShort.
Proof.
  intros H. unfold tmsec_unpack, TMSEC_MIN_LEN, len. destruct (_ <? 7) eqn:E; [reflexivity|lia].
Qed.

Lemma tmsec_unpack_cells b6 b7 b8 b9 b10 b11 b12 tl ts :
  wf_bytes [b6; b7; b8; b9; b10; b11; b12] ->
  tmsec_unpack (b6 :: b7 :: b8 :: b9 :: b10 :: b11 :: b12 :: tl) ts =
  if negb (b6 / 16 =? 2) then Err EValue else
  if 7 + ts >? 7 + len tl then Err ETooShort else
  Ok {| tms_version := b6 / 16; tms_ref := b6 mod 16; tms_service := b7; tms_subservice := b8;
        tms_msgcnt := b9 * 256 + b10; tms_dest := b11 * 256 + b12;
        tms_stamp := slice (b6 :: b7 :: b8 :: b9 :: b10 :: b11 :: b12 :: tl) 7 (7 + ts) |}.
Proof.
  intros W. rewrite !wf_cons in W. destruct W as (H6 & H7 & H8 & H9 & H10 & H11 & H12 & _).
  unfold tmsec_unpack, TMSEC_MIN_LEN, PUS_C.
  assert (L : len (b6 :: b7 :: b8 :: b9 :: b10 :: b11 :: b12 :: tl) = 7 + len tl).
  { rewrite !len_cons. lia. }
  rewrite L. pose proof (len_nonneg tl). destruct (7 + len tl <? 7) eqn:E0; [lia|].
  eval_get. cbn [bind].
  destruct (nibbles b6 H6) as [N1 N2]. rewrite N1, N2.
  destruct (negb (b6 / 16 =? 2)); [reflexivity|].
  destruct (7 + ts >? 7 + len tl); [reflexivity|].
  change (slice (b6 :: b7 :: b8 :: b9 :: b10 :: b11 :: b12 :: tl) 3 5) with [b9; b10].
  change (slice (b6 :: b7 :: b8 :: b9 :: b10 :: b11 :: b12 :: tl) 5 7) with [b11; b12].
  rewrite !struct_unpack_ok by reflexivity. cbn [bind]. rewrite !be_decode_2. reflexivity.
Qed.

Lemma slice_shift6 b0 b1 b2 b3 b4 b5 (r : bytes) i j : 0 <= i ->
  slice r i j = slice (b0 :: b1 :: b2 :: b3 :: b4 :: b5 :: r) (6 + i) (6 + j).
Proof.
  intros Hi. unfold slice. replace (6 + j - (6 + i)) with (j - i) by lia.
  replace (Z.to_nat (6 + i)) with (6 + Z.to_nat i)%nat by lia. reflexivity.
Qed.

Theorem tm_unpack_spec d ts : wf_bytes d -> 0 <= ts -> tm_unpack d ts = tm_decode_spec d ts.
Proof.
  intros W Hts. unfold tm_unpack, tm_decode_spec.
  destruct d as [|b0 [|b1 [|b2 [|b3 [|b4 [|b5 r]]]]]];
    try (rewrite sph_unpack_short by (cbn; lia); reflexivity).
  assert (W6 : wf_bytes [b0; b1; b2; b3; b4; b5]).
  { change (wf_bytes (firstn 6 (b0 :: b1 :: b2 :: b3 :: b4 :: b5 :: r))).
    apply wf_bytes_firstn. assumption. }
  rewrite sph_unpack_octets by assumption. cbn [bind]. rewrite slice_from_cons6.
  unfold get_total_space_packet_len_from_len_field. rewrite sph_of_octets_dlen.
  replace (b4 * 256 + b5 + 6 + 1) with (b4 * 256 + b5 + 7) by lia.
  destruct (b4 * 256 + b5 + 7 >? len _); [reflexivity|].
  destruct r as [|b6 [|b7 [|b8 [|b9 [|b10 [|b11 [|b12 tl]]]]]]];
    try (rewrite tmsec_unpack_short by (cbn; lia); reflexivity).
  assert (W7 : wf_bytes [b6; b7; b8; b9; b10; b11; b12]).
  { change (wf_bytes (firstn 7 (skipn 6 (b0 :: b1 :: b2 :: b3 :: b4 :: b5 :: b6 :: b7 :: b8 :: b9 :: b10 :: b11 :: b12 :: tl)))).
    apply wf_bytes_firstn, wf_bytes_skipn. assumption. }
  rewrite tmsec_unpack_cells by assumption. unfold tm_decode_cells. cbv zeta.
  destruct (negb (b6 / 16 =? 2)); [reflexivity|].
  rewrite !len_cons.
  replace (1 + (1 + (1 + (1 + (1 + (1 + (1 + (1 + (1 + (1 + (1 + (1 + (1 + len tl)))))))))))) - 6)
    with (7 + len tl) by lia.
  destruct (7 + ts >? 7 + len tl) eqn:E1; [reflexivity|]. cbn [bind].
  unfold tmsec_header_size, CCSDS_HEADER_LEN. cbn [tms_stamp].
  assert (LS : len (slice (b6 :: b7 :: b8 :: b9 :: b10 :: b11 :: b12 :: tl) 7 (7 + ts)) = ts).
  { unfold len. rewrite slice_length; rewrite ?len_cons; pose proof (len_nonneg tl); lia. }
  rewrite LS. replace (7 + ts + 6 + 2) with (15 + ts) by lia.
  destruct (b4 * 256 + b5 + 7 <? 15 + ts); [reflexivity|].
  rewrite slice_to_firstn.
  destruct (negb (crc16 _ =? 0)); [reflexivity|].
  f_equal. f_equal.
  - f_equal. rewrite (slice_shift6 b0 b1 b2 b3 b4 b5) by lia. f_equal. lia.
  - f_equal. lia.
Qed.

Theorem tm_unpack_total d ts : wf_bytes d -> 0 <= ts -> ok_or_documented (tm_unpack d ts).
Proof.
  intros W Hts. rewrite tm_unpack_spec by assumption. unfold tm_decode_spec, tm_decode_cells.
  do 6 (destruct d as [|? d]; [exact eq_refl|]).
  match goal with |- ok_or_documented (if ?c then _ else _) => destruct c; [exact eq_refl|] end.
  do 7 (destruct d as [|? d]; [exact eq_refl|]).
  cbv zeta.
  repeat match goal with |- ok_or_documented (if ?c then _ else _) => destruct c; [exact eq_refl|] end.
  exact I.
Qed.

Theorem tm_accept_inv d ts t : wf_bytes d -> 0 <= ts -> tm_unpack d ts = Ok t ->
  let n := sph_packet_len (tm_sph t) in
  15 + ts <= n <= len d /\ crc16 (firstn (Z.to_nat n) d) = 0 /\
  sph_unpack d = Ok (tm_sph t) /\ tms_stamp (tm_sec t) = slice d 13 (13 + ts) /\
  tm_src t = slice d (13 + ts) (n - 2) /\ tm_crc t = Some (slice d (n - 2) n).
Proof.
  intros W Hts. rewrite tm_unpack_spec by assumption. unfold tm_decode_spec, tm_decode_cells.
  do 6 (destruct d as [|? d]; [discriminate|]).
  match goal with |- context [?f * 256 + ?g + 7 >? _] => set (b4 := f); set (b5 := g) end.
  destruct (b4 * 256 + b5 + 7 >? len _) eqn:E0; [discriminate|].
  do 7 (destruct d as [|? d]; [discriminate|]). cbv zeta.
  destruct (negb (_ / 16 =? 2)); [discriminate|].
  destruct (7 + ts >? _) eqn:E1; [discriminate|].
  destruct (b4 * 256 + b5 + 7 <? 15 + ts) eqn:E2; [discriminate|].
  destruct (negb (crc16 _ =? 0)) eqn:E3; [discriminate|].
  intros E; inversion E; subst t; clear E. cbn [tm_sph tm_sec tm_src tm_crc tms_stamp].
  unfold sph_packet_len, CCSDS_HEADER_LEN. rewrite sph_of_octets_dlen.
  replace (6 + (b4 * 256 + b5) + 1) with (b4 * 256 + b5 + 7) by lia.
  repeat split; try lia.
  apply sph_unpack_octets.
  match goal with W : wf_bytes ?l |- _ => change (wf_bytes (firstn 6 l)) end.
  apply wf_bytes_firstn. assumption.
Qed.

Theorem tm_unpack_rejects_small_decl d ts : wf_bytes d -> 0 <= ts -> (6 <= length d)%nat ->
  (forall h, sph_unpack d = Ok h -> dlen h + 7 < 6 + 7 + ts + 2) ->
  exists e, tm_unpack d ts = Err e /\ documented e = true.
Proof.
  intros W Hts L Hsmall. pose proof (tm_unpack_total d ts W Hts) as T.
  destruct (tm_unpack d ts) as [t|e] eqn:E; [|exists e; split; [reflexivity|exact T]].
  exfalso. destruct (tm_accept_inv d ts t W Hts E) as (R & _ & S & _).
  specialize (Hsmall _ S). unfold sph_packet_len, CCSDS_HEADER_LEN in R. lia.
Qed.

Theorem tm_no_overread d ts t : wf_bytes d -> 0 <= ts -> tm_unpack d ts = Ok t ->
  tm_unpack (firstn (Z.to_nat (tm_packet_len t)) d) ts = Ok t.
Proof.
  intros W Hts E. destruct (tm_accept_inv d ts t W Hts E) as (R & C & _ & _).
  unfold tm_packet_len. set (n := sph_packet_len (tm_sph t)) in *.
  assert (W' : wf_bytes (firstn (Z.to_nat n) d)) by (apply wf_bytes_firstn; assumption).
  rewrite tm_unpack_spec in * by assumption.
  unfold tm_decode_spec in *.
  do 6 (destruct d as [|? d]; [discriminate|]).
  match type of E with context [?f * 256 + ?g + 7 >? _] => set (b4 := f) in *; set (b5 := g) in * end.
  destruct (b4 * 256 + b5 + 7 >? len _) eqn:E0 in E; [discriminate|].
  do 7 (destruct d as [|? d]; [discriminate|]).
  rewrite !firstn_cons_pos by lia. do 13 rewrite <- firstn_cons_pos by lia.
  unfold tm_decode_cells in *. cbv zeta in *.
  destruct (negb (_ / 16 =? 2)); [discriminate|].
  destruct (7 + ts >? _) eqn:E1 in E; [discriminate|].
  destruct (b4 * 256 + b5 + 7 <? 15 + ts) eqn:E2; [discriminate|].
  destruct (negb (crc16 _ =? 0)) eqn:E3 in E; [discriminate|].
  assert (N : n = b4 * 256 + b5 + 7).
  { inversion E; subst t. unfold n, sph_packet_len, CCSDS_HEADER_LEN. cbn [tm_sph].
    rewrite sph_of_octets_dlen. lia. }
  rewrite <- N in *.
  rewrite len_firstn by lia.
  destruct (n >? n) eqn:E4; [lia|].
  destruct (7 + ts >? n - 6) eqn:E5; [lia|].
  rewrite firstn_firstn_same, E3.
  rewrite !slice_firstn by lia. exact E.
Qed.

(* ---------- constructor, pack = layout ---------- *)
Lemma tm_new_ok service subservice apid seq msgcnt ref dest version stamp src :
  0 <= service < 256 -> 0 <= subservice < 256 -> 0 <= apid <= 2047 -> 0 <= seq <= 16383 ->
  0 <= msgcnt < 65536 -> len stamp + len src <= 65527 ->
  tm_new service subservice stamp src apid seq msgcnt ref dest version =
  Ok {| tm_sph := {| ver := version; ptype := 0; shf := 1; apid := apid; sflags := 3; scount := seq;
                     dlen := 7 + len stamp + len src + 1 |};
        tm_sec := {| tms_version := 2; tms_ref := ref; tms_service := service;
                     tms_subservice := subservice; tms_msgcnt := msgcnt; tms_dest := dest;
                     tms_stamp := stamp |};
        tm_src := src; tm_crc := None |}.
Proof.
  intros. unfold tm_new, tm_data_len, TMSEC_MIN_LEN, PT_TM, SF_UNSEG.
  pose proof (len_nonneg stamp). pose proof (len_nonneg src).
  rewrite sph_new_ok by lia. cbn [bind]. rewrite tmsec_new_ok by lia. reflexivity.
Qed.

Theorem tm_new_refuses service subservice apid seq msgcnt ref dest version stamp src :
  ~ (0 <= service < 256 /\ 0 <= subservice < 256 /\ 0 <= apid <= 2047 /\ 0 <= seq <= 16383 /\
     0 <= msgcnt < 65536 /\ len stamp + len src <= 65527) ->
  tm_new service subservice stamp src apid seq msgcnt ref dest version = Err EValue.
Proof.
  intros H. unfold tm_new, tm_data_len, TMSEC_MIN_LEN.
  pose proof (len_nonneg stamp). pose proof (len_nonneg src).
  destruct (sph_new_accepts_iff PT_TM apid seq (7 + len stamp + len src + 1) 1 SF_UNSEG version) as [A R].
  destruct (Z_le_dec 0 apid), (Z_le_dec apid 2047), (Z_le_dec 0 seq), (Z_le_dec seq 16383),
    (Z_le_dec (len stamp + len src) 65527); try (rewrite R by lia; reflexivity).
  rewrite A by lia. cbn [bind]. rewrite tmsec_new_err by lia. reflexivity.
Qed.

Lemma tm_body_wf service subservice apid seq msgcnt ref dest version stamp src :
  tm_args_valid service subservice apid seq msgcnt ref dest version stamp src ->
  wf_bytes (tm_body service subservice apid seq msgcnt ref dest version stamp src).
Proof.
  intros (H1 & H2 & H3 & H4 & H5 & H6 & H7 & H8 & W1 & W2 & L).
  pose proof (len_nonneg stamp). pose proof (len_nonneg src).
  unfold tm_body. rewrite !wf_bytes_app. repeat split; try assumption.
  - apply sph_layout_wf. unfold sph_valid; tm_cbn; lia.
  - unfold wf_bytes. repeat constructor; lia.
Qed.

Theorem tm_pack_layout service subservice apid seq msgcnt ref dest version stamp src :
  tm_args_valid service subservice apid seq msgcnt ref dest version stamp src ->
  exists t t', tm_new service subservice stamp src apid seq msgcnt ref dest version = Ok t /\
    tm_pack t = Ok (tm_layout service subservice apid seq msgcnt ref dest version stamp src, t') /\
    tm_sph t' = tm_sph t /\ tm_sec t' = tm_sec t /\ tm_src t' = tm_src t /\
    tm_packet_len t = len (tm_layout service subservice apid seq msgcnt ref dest version stamp src) /\
    dlen (tm_sph t) = len (tm_layout service subservice apid seq msgcnt ref dest version stamp src) - 7.
Proof.
  intros V. pose proof (tm_body_wf _ _ _ _ _ _ _ _ _ _ V) as WB.
  destruct V as (H1 & H2 & H3 & H4 & H5 & H6 & H7 & H8 & W1 & W2 & L).
  pose proof (len_nonneg stamp). pose proof (len_nonneg src).
  rewrite tm_new_ok by lia. eexists. eexists. split; [reflexivity|].
  unfold tm_pack. cbn [tm_sph tm_sec tm_src].
  rewrite sph_pack_layout by (unfold sph_valid; tm_cbn; lia). cbn [bind].
  rewrite tmsec_pack_layout by (unfold tmsec_valid; tm_cbn; repeat split; try lia; assumption). cbn [bind].
  unfold tmsec_layout; tm_cbn. rewrite <- !app_assoc.
  fold (tm_body service subservice apid seq msgcnt ref dest version stamp src).
  pose proof (crc16_range _ WB) as R. unfold in16 in R.
  rewrite struct_pack2_ok by lia. cbn [bind].
  rewrite crc_trailer by assumption. unfold tm_layout. cbv zeta.
  split; [reflexivity|]. cbn [tm_sph tm_sec tm_src]. repeat split.
  - unfold tm_packet_len, sph_packet_len, CCSDS_HEADER_LEN; cbn [tm_sph dlen].
    unfold tm_body. len_simpl. lia.
  - cbn [dlen]. unfold tm_body. len_simpl. lia.
Qed.

(* ---------- round trip ---------- *)
Lemma tm_decode_spec_cells d ts b0 b1 b2 b3 b4 b5 b6 b7 b8 b9 b10 b11 b12 tl :
  d = b0 :: b1 :: b2 :: b3 :: b4 :: b5 :: b6 :: b7 :: b8 :: b9 :: b10 :: b11 :: b12 :: tl ->
  tm_decode_spec d ts =
  if b4 * 256 + b5 + 7 >? len d then Err ETooShort else
  tm_decode_cells b0 b1 b2 b3 b4 b5 b6 b7 b8 b9 b10 b11 b12 d ts.
Proof. intros ->. reflexivity. Qed.

Theorem tm_unpack_pack service subservice apid seq msgcnt ref dest version stamp src rest :
  tm_args_valid service subservice apid seq msgcnt ref dest version stamp src -> wf_bytes rest ->
  let p := tm_layout service subservice apid seq msgcnt ref dest version stamp src in
  tm_unpack (p ++ rest) (len stamp) =
  Ok {| tm_sph := {| ver := version; ptype := 0; shf := 1; apid := apid; sflags := 3; scount := seq;
                     dlen := 7 + len stamp + len src + 1 |};
        tm_sec := {| tms_version := 2; tms_ref := ref; tms_service := service;
                     tms_subservice := subservice; tms_msgcnt := msgcnt; tms_dest := dest;
                     tms_stamp := stamp |};
        tm_src := src;
        tm_crc := Some (be_encode 2 (crc16 (tm_body service subservice apid seq msgcnt ref dest version stamp src))) |}.
Proof.
  intros V Wr p. pose proof (tm_body_wf _ _ _ _ _ _ _ _ _ _ V) as WB.
  destruct V as (H1 & H2 & H3 & H4 & H5 & H6 & H7 & H8 & W1 & W2 & L).
  pose proof (len_nonneg stamp) as Ls. pose proof (len_nonneg src) as Lr.
  set (body := tm_body service subservice apid seq msgcnt ref dest version stamp src) in *.
  set (C := be_encode 2 (crc16 body)).
  assert (LC : len C = 2) by (unfold C, len; rewrite be_encode_length; reflexivity).
  assert (Ep : p ++ rest = body ++ C ++ rest).
  { unfold p, tm_layout. cbv zeta. fold body. unfold C. rewrite crc_trailer by assumption.
    rewrite <- app_assoc. reflexivity. }
  assert (Wp : wf_bytes (body ++ C ++ rest)).
  { rewrite !wf_bytes_app. repeat split; try assumption. apply be_encode_wf. }
  rewrite Ep. rewrite tm_unpack_spec by assumption.
  set (h := {| ver := version; ptype := 0; shf := 1; apid := apid; sflags := 3; scount := seq;
               dlen := 7 + len stamp + len src + 1 |}).
  assert (Vh : sph_valid h) by (unfold sph_valid, h; tm_cbn; lia).
  set (pre := sph_layout h ++ [32 + ref; service; subservice; msgcnt / 256; msgcnt mod 256; dest / 256; dest mod 256]).
  assert (Eb : body = pre ++ stamp ++ src) by (unfold body, tm_body, pre; rewrite <- app_assoc; reflexivity).
  assert (Lpre : len pre = 13) by reflexivity.
  assert (LB : len body = 13 + len stamp + len src) by (rewrite Eb, !len_app; lia).
  pose proof (sph_of_octets_layout h Vh) as SO.
  erewrite tm_decode_spec_cells; [|rewrite Eb; unfold pre, sph_layout; cbn [List.app]; reflexivity].
  unfold tm_decode_cells. unfold sph_layout in SO.
  cbn [ver ptype shf SpacePacket.apid sflags scount dlen h] in *.
  match goal with |- context [sph_of_octets ?a ?b ?c ?e ?f ?g] =>
    set (b0 := a) in *; set (b1 := b) in *; set (b2 := c) in *; set (b3 := e) in *;
    set (b4 := f) in *; set (b5 := g) in * end.
  assert (N : b4 * 256 + b5 + 7 = 15 + len stamp + len src) by (subst b4 b5; lia).
  rewrite N. cbv zeta. pose proof (len_nonneg rest).
  rewrite !len_app, LB, LC.
  destruct (15 + len stamp + len src >? 13 + len stamp + len src + (2 + len rest)) eqn:E0; [lia|].
  replace (negb ((32 + ref) / 16 =? 2)) with false by lia.
  destruct (7 + len stamp >? 13 + len stamp + len src + (2 + len rest) - 6) eqn:E1; [lia|].
  destruct (15 + len stamp + len src <? 15 + len stamp) eqn:E2; [lia|].
  rewrite firstn_two_parts by lia.
  unfold C at 1. rewrite crc_residue by assumption. cbn [negb Z.eqb].
  f_equal. rewrite SO. f_equal.
  - f_equal; try lia.
    rewrite Eb, <- !app_assoc. apply slice_mid; lia.
  - rewrite Eb. rewrite <- !app_assoc. rewrite (app_assoc pre stamp).
    apply slice_mid; rewrite ?len_app; lia.
  - f_equal. apply slice_mid; lia.
Qed.

Lemma tmsec_eqb_refl s : tmsec_valid s -> tmsec_eqb s s = true.
Proof. intros V. unfold tmsec_eqb. rewrite tmsec_pack_layout by assumption. apply bytes_eqb_eq. reflexivity. Qed.

Theorem tm_roundtrip service subservice apid seq msgcnt ref dest version stamp src rest :
  tm_args_valid service subservice apid seq msgcnt ref dest version stamp src -> wf_bytes rest ->
  exists t p t' u,
    tm_new service subservice stamp src apid seq msgcnt ref dest version = Ok t /\
    tm_pack t = Ok (p, t') /\
    p = tm_layout service subservice apid seq msgcnt ref dest version stamp src /\
    tm_unpack (p ++ rest) (len stamp) = Ok u /\
    tm_sph u = tm_sph t /\ tm_sec u = tm_sec t /\ tm_src u = tm_src t /\
    tm_eqb u t = true /\ tm_eqb t u = true /\
    (exists u', tm_pack u = Ok (p, u')) /\
    tm_to_space_packet_pack t = Ok p /\
    check_pus_crc p = true /\
    tm_packet_len u = len p.
Proof.
  intros V Wr. pose proof (tm_body_wf _ _ _ _ _ _ _ _ _ _ V) as WB.
  destruct (tm_pack_layout _ _ _ _ _ _ _ _ _ _ V) as (t & t' & En & Ep & S1 & S2 & S3 & PL & DL).
  pose proof (tm_unpack_pack _ _ _ _ _ _ _ _ _ _ rest V Wr) as U. cbv zeta in U.
  destruct V as (H1 & H2 & H3 & H4 & H5 & H6 & H7 & H8 & W1 & W2 & L).
  pose proof (len_nonneg stamp) as Ls. pose proof (len_nonneg src) as Lr.
  rewrite tm_new_ok in En by lia. inversion En; subst t; clear En.
  cbn [tm_sph tm_sec tm_src] in *.
  assert (Vh : sph_valid {| ver := version; ptype := 0; shf := 1; apid := apid; sflags := 3; scount := seq;
               dlen := 7 + len stamp + len src + 1 |}) by (unfold sph_valid; tm_cbn; lia).
  assert (Vs : tmsec_valid {| tms_version := 2; tms_ref := ref; tms_service := service;
                     tms_subservice := subservice; tms_msgcnt := msgcnt; tms_dest := dest;
                     tms_stamp := stamp |}) by (unfold tmsec_valid; tm_cbn; repeat split; try lia; assumption).
  do 4 eexists. split; [apply tm_new_ok; lia|]. split; [exact Ep|]. split; [reflexivity|].
  split; [exact U|]. cbn [tm_sph tm_sec tm_src].
  repeat split.
  - unfold tm_eqb; cbn [tm_sph tm_sec tm_src].
    rewrite sph_eqb_refl, tmsec_eqb_refl, bytes_eqb_refl by assumption. reflexivity.
  - unfold tm_eqb; cbn [tm_sph tm_sec tm_src].
    rewrite sph_eqb_refl, tmsec_eqb_refl, bytes_eqb_refl by assumption. reflexivity.
  - unfold tm_pack. cbn [tm_sph tm_sec tm_src].
    rewrite sph_pack_layout, tmsec_pack_layout by assumption. cbn [bind].
    unfold tmsec_layout; tm_cbn. rewrite <- !app_assoc.
    fold (tm_body service subservice apid seq msgcnt ref dest version stamp src).
    pose proof (crc16_range _ WB) as R. unfold in16 in R.
    rewrite struct_pack2_ok by lia. cbn [bind]. eexists. f_equal. f_equal.
    unfold tm_layout. cbv zeta. rewrite <- crc_trailer by assumption. reflexivity.
  - unfold tm_to_space_packet_pack, tm_calc_crc. cbn [tm_sph tm_sec tm_src].
    rewrite sph_pack_layout, tmsec_pack_layout by assumption. cbn [bind].
    unfold tmsec_layout; tm_cbn. rewrite <- !app_assoc.
    fold (tm_body service subservice apid seq msgcnt ref dest version stamp src).
    pose proof (crc16_range _ WB) as R. unfold in16 in R.
    rewrite struct_pack2_ok by lia. cbn [bind tm_sec tm_crc tm_sph tm_src].
    rewrite tmsec_pack_layout by assumption. cbn [bind].
    rewrite space_packet_pack_spec by assumption. cbn [shf].
    f_equal. unfold tm_layout, tm_body. cbv zeta. rewrite <- crc_trailer by assumption.
    unfold tmsec_layout; tm_cbn. rewrite <- !app_assoc. reflexivity.
  - unfold check_pus_crc, tm_layout. cbv zeta. rewrite <- crc_trailer by assumption.
    rewrite crc_residue by assumption. reflexivity.
  - unfold tm_packet_len. cbn [tm_sph]. exact PL.
Qed.

(* Service17Tm is a thin wrapper: its pack/unpack ARE PusTm's, its constructor fixes service 17
   and message counter 0 *)
Theorem srv17_is_tm apid subservice stamp ssc src version ref dest :
  srv17_new apid subservice stamp ssc src version ref dest =
    tm_new 17 subservice stamp src apid ssc 0 ref dest version /\
  srv17_pack = tm_pack /\ srv17_unpack = tm_unpack.
Proof. repeat split. Qed.

Example tm_valid_example :
  tm_args_valid 17 2 2047 16383 65535 15 65535 7 [1; 2; 3; 4; 5; 6; 7] [9; 255].
Proof. unfold tm_args_valid, wf_bytes, len. cbn. repeat split; try lia; repeat constructor; lia. Qed.
