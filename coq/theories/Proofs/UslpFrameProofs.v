(* Proofs for C17: USLP transfer frame data field and transfer frame
   (Model/UslpFrame.v against Spec/UslpSpec.v). *)
From Coq Require Import ZArith List Bool Lia ZifyBool.
From SP Require Import Base.Result Base.Bytes Base.BytesFacts Model.UslpHeader Model.UslpFrame
  Spec.UslpSpec Proofs.UslpProofs.
Import ListNotations.
Open Scope Z_scope.
Ltac Zify.zify_post_hook ::= Z.to_euclidean_division_equations.

(* ================= small facts ================= *)

Definition chk_tf0 (r i : Z) : bool := Z.lor (Z.shiftl r 5) i =? r * 32 + i.
Lemma tf0_sweep : forallb (fun a => forallb (chk_tf0 a) (zrange 0 32)) (zrange 0 8) = true.
Proof. vm_compute. reflexivity. Qed.
Lemma tf0_facts r i : 0 <= r < 8 -> 0 <= i < 32 -> Z.lor (Z.shiftl r 5) i = r * 32 + i.
Proof.
  intros. apply Z.eqb_eq.
  exact (sweep2 chk_tf0 8 32 ltac:(lia) ltac:(lia) tf0_sweep r i ltac:(lia) ltac:(lia)).
Qed.

Ltac rule_cases r H :=
  assert (r = 0 \/ r = 1 \/ r = 2 \/ r = 3 \/ r = 4 \/ r = 5 \/ r = 6 \/ r = 7) as H by lia;
  destruct H as [H|[H|[H|[H|[H|[H|[H|H]]]]]]]; subst r.

(* the code's three-way decision = the standard's: pointer exactly for rules 000,001,010 in
   non-truncated frames, whenever the requested frame type is the rule's (or left open) *)
Lemma should_have_spec r tr ft : 0 <= r <= 7 ->
  ft = None \/ ft = Some (ftype_of_rule r) ->
  should_have_fhp r tr
    (match ft with
     | Some f => Some f
     | None => if cnstr_rules_for_fp r then Some FtFixed
               else if cnstr_rules_for_vp r then Some FtVariable else None
     end) = spec_has_pointer r tr.
Proof.
  intros Hr [->| ->]; rule_cases r H; destruct tr; reflexivity.
Qed.

Lemma should_have_unpack r tr : 0 <= r <= 7 ->
  should_have_fhp r tr (Some (ftype_of_rule r)) = spec_has_pointer r tr /\
  verify_frame_type r (ftype_of_rule r) = true.
Proof. intros Hr; rule_cases r H; destruct tr; split; reflexivity. Qed.

Lemma norm_idx_id n i : 0 <= i <= n -> norm_idx n i = i.
Proof. intros H. unfold norm_idx. destruct (i <? 0) eqn:E; lia. Qed.

Lemma py_slice_mid pre m post i j :
  i = len pre -> j = len pre + len m -> py_slice (pre ++ m ++ post) i j = m.
Proof.
  intros -> ->. unfold py_slice.
  pose proof (len_nonneg pre). pose proof (len_nonneg m). pose proof (len_nonneg post).
  rewrite !norm_idx_id by (rewrite !len_app; lia).
  apply slice_mid; reflexivity.
Qed.

Lemma py_slice_from_app pre post i : i = len pre -> py_slice_from (pre ++ post) i = post.
Proof.
  intros ->. unfold py_slice_from.
  pose proof (len_nonneg pre). pose proof (len_nonneg post).
  rewrite norm_idx_id by (rewrite len_app; lia). apply slice_from_app. reflexivity.
Qed.

Lemma py_get_1 a b (l : bytes) : py_get (a :: b :: l) 1 = Ok b.
Proof. reflexivity. Qed.
Lemma py_get_2 a b c (l : bytes) : py_get (a :: b :: c :: l) 2 = Ok c.
Proof. reflexivity. Qed.

Lemma opt_len_bytes o : opt_len o = len (opt_bytes_of o).
Proof. destruct o; reflexivity. Qed.
Lemma opt_app_bytes p o : opt_app p o = p ++ opt_bytes_of o.
Proof. destruct o; cbn [opt_app opt_bytes_of]; [reflexivity|symmetry; apply app_nil_r]. Qed.

Lemma tfdf_layout_len r i f dz : len (tfdf_layout r i f dz) = tfdf_header_len f + len dz.
Proof.
  unfold tfdf_layout. rewrite !len_app. destruct f; cbn [tfdf_header_len].
  - unfold len at 1 2. rewrite be_encode_length. cbn [length]. lia.
  - reflexivity.
Qed.

Lemma hdr_layout_len h : hdr_valid h -> len (hdr_layout h) = hdr_len h.
Proof.
  destruct h as [b|p]; cbn [hdr_valid hdr_layout hdr_len]; intros H.
  - reflexivity.
  - apply phdr_layout_length. destruct H as (_ & _ & _ & _ & _ & (? & _)). lia.
Qed.

Lemma hdr_pack_layout h : hdr_valid h -> hdr_pack h = Ok (hdr_layout h).
Proof.
  destruct h as [b|p]; cbn [hdr_valid hdr_layout hdr_pack]; intros H.
  - apply thdr_pack_layout. assumption.
  - apply phdr_pack_layout. assumption.
Qed.

(* ================= data field: pack = layout ================= *)

Theorem tfdf_pack_layout t tr ft : tfdf_consistent t tr ->
  ft = None \/ ft = Some (ftype_of_rule (rules t)) ->
  tfdf_pack t tr ft = Ok (tfdf_layout (rules t) (ident t) (fhp t) (tfdz t)).
Proof.
  destruct t as [r i f dz sz]. unfold tfdf_consistent, tfdf_pack, tfdf_layout.
  cbn [rules ident fhp tfdz tsize]. intros (Hr & Hi & Hf & Hp & Hs) Hft.
  rewrite tf0_facts by lia. rewrite ba_append_ok by lia. cbn [bind app].
  rewrite should_have_spec by assumption. rewrite <- Hp.
  destruct f as [v|]; cbn [is_some].
  - cbn [fhp_valid] in Hf. rewrite struct_pack_ok by (cbn; lia). reflexivity.
  - reflexivity.
Qed.

(* the pointer is missing although the standard has one: refused *)
Theorem tfdf_pack_pointer_missing r i dz sz tr ft : 0 <= r <= 7 -> 0 <= i <= 31 ->
  ft = None \/ ft = Some (ftype_of_rule r) -> spec_has_pointer r tr = true ->
  tfdf_pack {| rules := r; ident := i; fhp := None; tfdz := dz; tsize := sz |} tr ft = Err EFhpMissing.
Proof.
  intros Hr Hi Hft Hp. unfold tfdf_pack. cbn [rules ident fhp tfdz].
  rewrite tf0_facts by lia. rewrite ba_append_ok by lia. cbn [bind].
  rewrite should_have_spec by assumption. rewrite Hp. reflexivity.
Qed.

(* constructor: cached size, limit USLP_TFDF_MAX_SIZE *)
Theorem tfdf_new_spec r i dz f :
  (tfdf_header_len f + len dz <= 65529 - tfdf_header_len f ->
   tfdf_new r i dz f = Ok {| rules := r; ident := i; fhp := f; tfdz := dz;
                             tsize := tfdf_header_len f + len dz |}) /\
  (tfdf_header_len f + len dz > 65529 - tfdf_header_len f -> tfdf_new r i dz f = Err EValue).
Proof.
  unfold tfdf_new, tfdf_set_tfdz, tfdf_len, USLP_TFDF_MAX_SIZE. cbn [rules ident fhp tfdz tsize].
  split; intros H; destruct (_ >? _) eqn:E; try lia; reflexivity.
Qed.

(* ================= frame: pack = layout, len, frame length field ================= *)

Theorem frame_pack_layout f ft : frame_consistent f ->
  ft = None \/ ft = Some (ftype_of_rule (rules (ftfdf f))) ->
  frame_pack f (hdr_truncated (hdr f)) ft = Ok (frame_layout (hdr_layout (hdr f)) f).
Proof.
  destruct f as [h t iz oc fe]. unfold frame_consistent, frame_pack, frame_layout.
  cbn [hdr ftfdf izone ocf fecf]. intros (Hh & Ht & Ho & _) Hft.
  rewrite hdr_pack_layout by assumption. cbn [bind].
  rewrite tfdf_pack_layout by assumption. cbn [bind].
  rewrite !opt_app_bytes.
  destruct h as [b|p]; cbn [ocf_consistent hdr_truncated hdr_ocf_flag negb] in *.
  - subst oc. cbn [bind opt_bytes_of]. rewrite opt_app_bytes.
    rewrite <- !app_assoc. reflexivity.
  - destruct oc as [[|x o]|]; cbn [bind opt_bytes_of].
    + destruct Ho as (_ & Ho). discriminate Ho.
    + destruct Ho as (-> & Ho). change (1 =? 0) with false. cbv iota.
      rewrite Ho. change (negb (4 =? 4)) with false. cbv iota. cbn [bind].
      rewrite opt_app_bytes. rewrite <- !app_assoc. reflexivity.
    + rewrite Ho. change (negb (0 =? 0)) with false. cbv iota. cbn [bind].
      rewrite opt_app_bytes. rewrite <- !app_assoc. reflexivity.
Qed.

Theorem frame_len_is_layout_len f : frame_consistent f ->
  frame_len_of f = len (frame_layout (hdr_layout (hdr f)) f).
Proof.
  destruct f as [h t iz oc fe]. unfold frame_consistent, frame_len_of, frame_layout, tfdf_len.
  cbn [hdr ftfdf izone ocf fecf]. intros (Hh & (_ & _ & _ & _ & Hs) & _).
  rewrite !len_app, tfdf_layout_len, hdr_layout_len, <- !opt_len_bytes by assumption. lia.
Qed.

(* len() = size of pack() *)
Theorem frame_len_is_pack_len f ft : frame_consistent f ->
  ft = None \/ ft = Some (ftype_of_rule (rules (ftfdf f))) ->
  exists raw, frame_pack f (hdr_truncated (hdr f)) ft = Ok raw /\ len raw = frame_len_of f.
Proof.
  intros H Hft. eexists. split; [apply frame_pack_layout; assumption|].
  symmetry. apply frame_len_is_layout_len. assumption.
Qed.

(* set_frame_len_in_header: only the header's length field changes, to len() - 1 *)
Theorem set_frame_len_spec f :
  frame_len_of (set_frame_len_in_header f) = frame_len_of f /\
  frame_len_set (set_frame_len_in_header f) /\
  ftfdf (set_frame_len_in_header f) = ftfdf f /\ izone (set_frame_len_in_header f) = izone f /\
  ocf (set_frame_len_in_header f) = ocf f /\ fecf (set_frame_len_in_header f) = fecf f /\
  hdr_truncated (hdr (set_frame_len_in_header f)) = hdr_truncated (hdr f).
Proof.
  destruct f as [[b|p] t iz oc fe]; unfold set_frame_len_in_header, frame_len_set, frame_len_of;
    cbn [hdr ftfdf izone ocf fecf hdr_len phdr_len vcf_len frame_len hdr_truncated];
    repeat split; reflexivity.
Qed.

Theorem set_frame_len_consistent f : frame_consistent f -> frame_len_of f <= 65536 ->
  frame_consistent (set_frame_len_in_header f).
Proof.
  destruct f as [[b|p] t iz oc fe]; unfold set_frame_len_in_header; cbn [hdr]; [auto|].
  unfold frame_consistent. cbn [hdr ftfdf izone ocf fecf hdr_truncated hdr_valid ocf_consistent ocf_flag].
  intros (Hh & Ht & Ho & Hr) L.
  split; [|split; [assumption|split; [assumption|assumption]]].
  destruct p as [b fl by_ pr o n c]. unfold phdr_valid in *.
  cbn [pbase frame_len bypass prot ocf_flag vcf_len vcf_count] in *.
  destruct Hh as (Hb & Hf & Hy & Hp & Ho' & Hv).
  assert (R : 1 <= frame_len_of {| hdr := HPrim {| pbase := b; frame_len := fl; bypass := by_; prot := pr;
                    ocf_flag := o; vcf_len := n; vcf_count := c |}; ftfdf := t; izone := iz; ocf := oc; fecf := fe |}).
  { unfold frame_len_of, tfdf_len. cbn [hdr ftfdf izone ocf fecf hdr_len phdr_len vcf_len].
    destruct Ht as (_ & _ & _ & _ & ->). destruct Hv as (Hn & _).
    pose proof (len_nonneg (tfdz t)).
    assert (0 <= opt_len iz) by (destruct iz; cbn [opt_len]; [apply len_nonneg|lia]).
    assert (0 <= opt_len oc) by (destruct oc; cbn [opt_len]; [apply len_nonneg|lia]).
    assert (0 <= opt_len fe) by (destruct fe; cbn [opt_len]; [apply len_nonneg|lia]).
    unfold phdr_len. cbn [vcf_len]. destruct (fhp t); cbn [tfdf_header_len]; lia. }
  split; [assumption|]. split; [lia|]. split; [assumption|]. split; [assumption|]. split; assumption.
Qed.

(* after the update the packed header's frame-length field (octets 4-5) holds the packed
   size minus one *)
Theorem frame_len_field f ft p raw : hdr f = HPrim p -> frame_consistent f -> frame_len_set f ->
  ft = None \/ ft = Some (ftype_of_rule (rules (ftfdf f))) ->
  frame_pack f false ft = Ok raw ->
  len raw = frame_len_of f /\ slice raw 4 6 = be_encode 2 (len raw - 1).
Proof.
  intros Hp Hc Hs Hft Hk.
  pose proof (frame_pack_layout f ft Hc Hft) as L. rewrite Hp in L. cbn [hdr_truncated] in L.
  rewrite L in Hk. injection Hk as <-.
  pose proof (frame_len_is_layout_len f Hc) as Ll. rewrite Hp in Ll. cbn [hdr_layout] in Ll. rewrite <- Ll.
  split; [reflexivity|]. unfold frame_len_set in Hs. rewrite Hp in Hs. rewrite <- Hs.
  unfold frame_layout. cbn [hdr_layout]. unfold phdr_layout, base_layout. cbn [app].
  rewrite be_encode_2.
  destruct Hc as (Hv & _). rewrite Hp in Hv. cbn [hdr_valid] in Hv.
  destruct Hv as (_ & Hf & _).
  replace ((frame_len p / 256) mod 256) with (frame_len p / 256) by lia. reflexivity.
Qed.

(* ================= frame: unpack (pack f) under matching managed parameters ================= *)

Definition frame_unpack_body (raw : bytes) (ft : ftype) (p : fprops) (h : fhdr) : res frame :=
  let header_len := hdr_len h in
  do _ <- (match ft, h with
           | FtFixed, HPrim ph =>
               if negb (frame_len ph + 1 =? p_len p) then Err EInvalidLen else Ok tt
           | FtFixed, HTrunc _ => Err EAttribute
           | FtVariable, _ => Ok tt
           end);
  do expected_frame_len <- (match h with
                            | HTrunc _ => if p_fixed p then Err EAttribute
                                          else Ok (p_len p)
                            | HPrim ph => Ok (frame_len ph + 1)
                            end);
  if len raw <? expected_frame_len then Err EInvalidLen else
  do e <- get_tfdf_len ft h (len raw) p;
  if (e <=? 0) || (header_len + e >? len raw) then Err EInvalidLen else
  do zc <- (if iz_present p then
              if header_len + iz_size p + e >? len raw then Err EInvalidLen else
              Ok (Some (py_slice raw header_len (header_len + iz_size p)),
                  header_len + iz_size p)
            else Ok (None, header_len));
  let '(iz, cur) := zc in
  do t <- tfdf_unpack (py_slice_from raw cur) (hdr_truncated h) e (Some ft);
  let cur := cur + e in
  let '(oc, cur) := match h with
                    | HPrim ph => if negb (ocf_flag ph =? 0)
                                  then (Some (py_slice raw cur (cur + 4)), cur + 4)
                                  else (None, cur)
                    | HTrunc _ => (None, cur)
                    end in
  let fe := if fecf_present p then Some (py_slice raw cur (cur + fecf_size p)) else None in
  Ok {| hdr := h; ftfdf := t; izone := iz; ocf := oc; fecf := fe |}.

Lemma frame_unpack_unfold raw ft p :
  frame_unpack raw ft p =
  if len raw <? 4 then Err EInvalidLen else
  do _ <- (match ft with
           | FtFixed => if negb (p_fixed p) then Err EValue else
                        if len raw <? p_len p then Err EInvalidLen else Ok tt
           | FtVariable => Ok tt
           end);
  do ht <- determine_header_type raw;
  do h <- (if ht =? HT_TRUNCATED then
             match ft with
             | FtVariable => if p_fixed p then Err EValue else
                             do b <- thdr_unpack raw USLP_VERSION_NUMBER; Ok (HTrunc b)
             | FtFixed => Err ETruncatedNotAllowed
             end
           else do ph <- phdr_unpack raw USLP_VERSION_NUMBER; Ok (HPrim ph));
  frame_unpack_body raw ft p h.
Proof. reflexivity. Qed.

(* data field decoder on its own layout *)
Lemma tfdf_unpack_layout r i fh dz tail tr :
  0 <= r <= 7 -> 0 <= i <= 31 -> fhp_valid fh -> is_some fh = spec_has_pointer r tr ->
  tfdf_unpack (tfdf_layout r i fh dz ++ tail) tr (len (tfdf_layout r i fh dz))
              (Some (ftype_of_rule r)) =
  Ok {| rules := r; ident := i; fhp := fh; tfdz := dz; tsize := tfdf_header_len fh + len dz |}.
Proof.
  intros Hr Hi Hf Hp. rewrite tfdf_layout_len. unfold tfdf_unpack, tfdf_layout.
  pose proof (len_nonneg dz) as Ld. pose proof (len_nonneg tail) as Lt.
  cbn [app]. destruct (len _ <? 1) eqn:L1; [rewrite len_cons in L1; pose proof (len_nonneg ((match fh with Some v => be_encode 2 v | None => [] end ++ dz) ++ tail)); lia|].
  rewrite py_get_cons_0. cbn [bind].
  destruct (byte_facts (r * 32 + i) ltac:(lia)) as (_ & _ & _ & _ & B4 & _ & _ & _ & _ & _ & B10).
  rewrite B4, B10.
  replace ((r * 32 + i) / 32) with r by lia. replace ((r * 32 + i) mod 32) with i by lia.
  destruct (should_have_unpack r tr Hr) as (S & V). rewrite V, S, <- Hp. cbn [negb].
  destruct fh as [v|]; cbn [is_some tfdf_header_len].
  - cbn [fhp_valid] in Hf. rewrite be_encode_2. cbn [app].
    destruct (_ || _) eqn:G.
    { rewrite !len_cons in G. pose proof (len_nonneg (dz ++ tail)). lia. }
    rewrite py_get_1, py_get_2. cbn [bind].
    rewrite w16_facts by lia.
    replace ((v / 256) mod 256 * 256 + v mod 256) with v by lia.
    unfold tfdf_set_tfdz. cbn [rules ident fhp tfdz tfdf_header_len].
    change ((r * 32 + i) :: (v / 256) mod 256 :: v mod 256 :: dz ++ tail)
      with ([r * 32 + i; (v / 256) mod 256; v mod 256] ++ dz ++ tail).
    rewrite py_slice_mid by (unfold len; cbn [length]; lia). reflexivity.
  - cbn [app bind]. unfold tfdf_set_tfdz. cbn [rules ident fhp tfdz tfdf_header_len].
    change ((r * 32 + i) :: dz ++ tail) with ([r * 32 + i] ++ dz ++ tail).
    rewrite py_slice_mid by (unfold len; cbn [length]; lia). reflexivity.
Qed.

Lemma is_some_opt {A} (o : option A) : is_some o = false -> o = None.
Proof. destruct o; [discriminate|reflexivity]. Qed.

Lemma frame_unpack_body_ok H IZ T OC FE rest h r i fh dz iz oc fe p :
  len H = hdr_len h ->
  T = tfdf_layout r i fh dz -> 0 <= r <= 7 -> 0 <= i <= 31 -> fhp_valid fh ->
  is_some fh = spec_has_pointer r (hdr_truncated h) ->
  IZ = opt_bytes_of iz -> OC = opt_bytes_of oc -> FE = opt_bytes_of fe ->
  ocf_consistent h oc ->
  (match h with
   | HPrim ph => frame_len ph + 1 = len H + len IZ + len T + len OC + len FE /\ 0 <= ocf_flag ph <= 1
   | HTrunc _ => p_fixed p = false /\ p_len p = len H + len IZ + len T + len OC + len FE /\ 3 <= r
   end) ->
  (r < 3 -> p_len p = len H + len IZ + len T + len OC + len FE) ->
  iz_present p = is_some iz -> (iz_present p = true -> iz_size p = len IZ) ->
  fecf_present p = is_some fe -> (fecf_present p = true -> fecf_size p = len FE) ->
  frame_unpack_body (H ++ IZ ++ T ++ OC ++ FE ++ rest) (ftype_of_rule r) p h =
  Ok {| hdr := h;
        ftfdf := {| rules := r; ident := i; fhp := fh; tfdz := dz;
                    tsize := tfdf_header_len fh + len dz |};
        izone := iz; ocf := oc; fecf := fe |}.
Proof.
  intros LH ET Hr Hi Hf Hp EIZ EOC EFE Ho Hh Hfix Pz Sz Pf Sf.
  assert (LT : len T = tfdf_header_len fh + len dz) by (subst T; apply tfdf_layout_len).
  assert (LT1 : 1 <= len T).
  { rewrite LT. pose proof (len_nonneg dz). destruct fh; cbn [tfdf_header_len]; lia. }
  pose proof (len_nonneg H) as NH. pose proof (len_nonneg IZ) as NIZ. pose proof (len_nonneg OC) as NOC.
  pose proof (len_nonneg FE) as NFE. pose proof (len_nonneg rest) as NR.
  assert (LR : len (H ++ IZ ++ T ++ OC ++ FE ++ rest) = len H + len IZ + len T + len OC + len FE + len rest).
  { rewrite !len_app. lia. }
  assert (IZe : iz_present p = false -> len IZ = 0).
  { intros E. rewrite E in Pz. symmetry in Pz. apply is_some_opt in Pz. subst iz IZ. reflexivity. }
  assert (FEe : fecf_present p = false -> len FE = 0).
  { intros E. rewrite E in Pf. symmetry in Pf. apply is_some_opt in Pf. subst fe FE. reflexivity. }
  assert (HL0 : 0 <= hdr_len h) by (rewrite <- LH; assumption).
  unfold frame_unpack_body. rewrite LR.
  (* step: fixed length check, expected length, tfdf length *)
  assert (E1 : get_tfdf_len (ftype_of_rule r) h
                 (len H + len IZ + len T + len OC + len FE + len rest) p = Ok (len T)).
  { unfold get_tfdf_len, ftype_of_rule. destruct h as [b|ph]; cbn [hdr_len ocf_consistent] in *.
    - destruct Hh as (Pfx & Pl & R3). subst oc OC. change (len (opt_bytes_of None)) with 0 in *.
      destruct (r <? 3) eqn:R; [lia|]. rewrite Pfx. cbn [bind].
      destruct (fecf_present p) eqn:F; destruct (iz_present p) eqn:Z; f_equal;
        rewrite ?Sf, ?Sz by reflexivity; rewrite ?(FEe eq_refl), ?(IZe eq_refl) in *; lia.
    - destruct Hh as (Hfl & Hof).
      assert (OCl : len OC = if ocf_flag ph =? 0 then 0 else 4).
      { subst OC. destruct oc as [o|]; cbn [opt_bytes_of].
        - destruct Ho as (-> & ->). reflexivity.
        - rewrite Ho. reflexivity. }
      destruct (r <? 3) eqn:R.
      + destruct (_ <? frame_len ph + 1 - _) eqn:G; [lia|]. cbn [bind].
        destruct (fecf_present p) eqn:F; destruct (iz_present p) eqn:Z; destruct (ocf_flag ph =? 0) eqn:O;
          cbn [negb]; f_equal; rewrite ?Sf, ?Sz by reflexivity; rewrite ?(FEe eq_refl), ?(IZe eq_refl) in *; lia.
      + cbn [bind].
        destruct (fecf_present p) eqn:F; destruct (iz_present p) eqn:Z; destruct (ocf_flag ph =? 0) eqn:O;
          cbn [negb]; f_equal; rewrite ?Sf, ?Sz by reflexivity; rewrite ?(FEe eq_refl), ?(IZe eq_refl) in *; lia. }
  assert (E0 : (match ftype_of_rule r, h with
                | FtFixed, HPrim ph => if negb (frame_len ph + 1 =? p_len p) then Err EInvalidLen else Ok tt
                | FtFixed, HTrunc _ => Err EAttribute
                | FtVariable, _ => Ok tt
                end) = Ok tt).
  { unfold ftype_of_rule. destruct (r <? 3) eqn:R; [|reflexivity].
    destruct h as [b|ph]; [destruct Hh as (_ & _ & ?); lia|].
    destruct Hh as (Hfl & _). rewrite Hfix by lia. rewrite Hfl, Z.eqb_refl. reflexivity. }
  rewrite E0. cbn [bind].
  assert (E2 : (match h with
                | HTrunc _ => if p_fixed p then Err EAttribute else Ok (p_len p)
                | HPrim ph => Ok (frame_len ph + 1)
                end) = Ok (len H + len IZ + len T + len OC + len FE)).
  { destruct h as [b|ph]; [destruct Hh as (-> & -> & _)|destruct Hh as (-> & _)]; reflexivity. }
  rewrite E2. cbn [bind].
  destruct (_ <? _) eqn:G1; [lia|]. clear G1.
  rewrite E1. cbn [bind].
  destruct (_ || _) eqn:G2; [lia|]. clear G2.
  (* insert zone *)
  assert (E3 : (if iz_present p then
                  if hdr_len h + iz_size p + len T >? len H + len IZ + len T + len OC + len FE + len rest
                  then Err EInvalidLen else
                  Ok (Some (py_slice (H ++ IZ ++ T ++ OC ++ FE ++ rest) (hdr_len h) (hdr_len h + iz_size p)),
                      hdr_len h + iz_size p)
                else Ok (None, hdr_len h)) = Ok (iz, len H + len IZ)).
  { destruct (iz_present p) eqn:Z.
    - rewrite Sz by reflexivity. destruct (_ >? _) eqn:G; [lia|].
      rewrite py_slice_mid by lia. destruct iz as [z|]; [|discriminate Pz].
      subst IZ. cbn [opt_bytes_of]. rewrite LH. reflexivity.
    - rewrite (IZe eq_refl). symmetry in Pz. apply is_some_opt in Pz. subst iz. rewrite LH, Z.add_0_r. reflexivity. }
  rewrite E3. cbn [bind]. cbv beta iota.
  (* data field *)
  replace (H ++ IZ ++ T ++ OC ++ FE ++ rest) with ((H ++ IZ) ++ T ++ OC ++ FE ++ rest) at 1
    by (rewrite <- app_assoc; reflexivity).
  rewrite py_slice_from_app by (rewrite len_app; reflexivity).
  subst T. rewrite tfdf_unpack_layout by assumption. cbn [bind].
  (* OCF *)
  set (T := tfdf_layout r i fh dz) in *.
  assert (E4 : (match h with
                | HPrim ph => if negb (ocf_flag ph =? 0)
                              then (Some (py_slice (H ++ IZ ++ T ++ OC ++ FE ++ rest) (len H + len IZ + len T) (len H + len IZ + len T + 4)),
                                    len H + len IZ + len T + 4)
                              else (None, len H + len IZ + len T)
                | HTrunc _ => (None, len H + len IZ + len T)
                end) = (oc, len H + len IZ + len T + len OC)).
  { destruct h as [b|ph]; cbn [ocf_consistent] in Ho.
    - subst oc OC. rewrite Z.add_0_r. reflexivity.
    - destruct oc as [o|].
      + destruct Ho as (-> & L4). change (negb (1 =? 0)) with true. cbv iota.
        subst OC. cbn [opt_bytes_of]. rewrite L4.
        replace (H ++ IZ ++ T ++ o ++ FE ++ rest) with ((H ++ IZ ++ T) ++ o ++ FE ++ rest)
          by (rewrite <- !app_assoc; reflexivity).
        rewrite py_slice_mid by (rewrite !len_app; lia). reflexivity.
      + rewrite Ho. change (negb (0 =? 0)) with false. cbv iota. subst OC. rewrite Z.add_0_r. reflexivity. }
  rewrite E4. cbv beta iota.
  (* FECF *)
  assert (E5 : (if fecf_present p
                then Some (py_slice (H ++ IZ ++ T ++ OC ++ FE ++ rest) (len H + len IZ + len T + len OC)
                                    (len H + len IZ + len T + len OC + fecf_size p))
                else None) = fe).
  { destruct (fecf_present p) eqn:F.
    - rewrite Sf by reflexivity.
      replace (H ++ IZ ++ T ++ OC ++ FE ++ rest) with ((H ++ IZ ++ T ++ OC) ++ FE ++ rest)
        by (rewrite <- !app_assoc; reflexivity).
      rewrite py_slice_mid by (rewrite !len_app; lia).
      destruct fe as [z|]; [|discriminate Pf]. subst FE. reflexivity.
    - symmetry in Pf. apply is_some_opt in Pf. subst fe. reflexivity. }
  rewrite E5. reflexivity.
Qed.

Lemma determine_hdr_layout h x : hdr_valid h ->
  determine_header_type (hdr_layout h ++ x) = Ok (if hdr_truncated h then HT_TRUNCATED else HT_NON_TRUNCATED).
Proof.
  destruct h as [b|ph]; cbn [hdr_valid hdr_layout hdr_truncated]; intros Hv.
  - pose proof (base_of_octets_layout b 1 Hv ltac:(lia)) as E.
    pose proof (base_layout_wf b 1 Hv ltac:(lia)) as W. unfold thdr_layout.
    destruct (base_layout b 1) as [|o0 [|o1 [|o2 [|o3 [|]]]]]; try contradiction.
    destruct E as (_ & _ & T). cbn [app]. rewrite determine_header_type_spec.
    + rewrite T. reflexivity.
    + unfold wf_bytes in W. repeat match goal with H : Forall _ (_ :: _) |- _ => inversion H; clear H; subst end. assumption.
  - destruct (phdr_layout_octets ph Hv) as (o0 & o1 & o2 & o3 & o4 & o5 & o6 & E & W & V & T & N & P).
    rewrite E. cbn [app]. rewrite determine_header_type_spec.
    + rewrite T. reflexivity.
    + unfold wf_bytes in W. repeat match goal with H : Forall _ (_ :: _) |- _ => inversion H; clear H; subst end. assumption.
Qed.

(* unpack (pack f ++ anything) under the matching managed parameters = f *)
Theorem frame_unpack_pack f p rest : frame_consistent f -> frame_len_set f -> props_match f p ->
  frame_unpack (frame_layout (hdr_layout (hdr f)) f ++ rest) (ftype_of_rule (rules (ftfdf f))) p =
  Ok (frame_norm f).
Proof.
  destruct f as [h [r i fh dz sz] iz oc fe].
  unfold frame_consistent, frame_len_set, props_match, frame_layout, frame_norm, tfdf_consistent.
  cbn [hdr ftfdf izone ocf fecf rules ident fhp tfdz tsize].
  intros (Hv & (Hr & Hi & Hf & Hp & Hs) & Ho & Htr) Hset (Pfx & Pl & Pz & Sz & Pf & Sf).
  set (H := hdr_layout h). set (IZ := opt_bytes_of iz). set (T := tfdf_layout r i fh dz).
  set (OC := opt_bytes_of oc). set (FE := opt_bytes_of fe).
  assert (LH : len H = hdr_len h) by (apply hdr_layout_len; assumption).
  assert (LT : len T = sz) by (unfold T; rewrite tfdf_layout_len; lia).
  assert (Ltot : frame_len_of {| hdr := h; ftfdf := {| rules := r; ident := i; fhp := fh; tfdz := dz; tsize := sz |};
                                 izone := iz; ocf := oc; fecf := fe |}
                 = len H + len IZ + len T + len OC + len FE).
  { unfold frame_len_of, tfdf_len. cbn [hdr ftfdf izone ocf fecf tsize]. rewrite !opt_len_bytes. fold IZ OC FE. lia. }
  rewrite Ltot in *.
  replace ((H ++ IZ ++ T ++ OC ++ FE) ++ rest) with (H ++ IZ ++ T ++ OC ++ FE ++ rest)
    by (rewrite <- !app_assoc; reflexivity).
  pose proof (len_nonneg IZ) as NIZ. pose proof (len_nonneg OC) as NOC.
  pose proof (len_nonneg FE) as NFE. pose proof (len_nonneg rest) as NR. pose proof (len_nonneg dz) as Ndz.
  assert (LT1 : 1 <= len T) by (rewrite LT, Hs; destruct fh; cbn [tfdf_header_len]; lia).
  assert (LR : len (H ++ IZ ++ T ++ OC ++ FE ++ rest) = len H + len IZ + len T + len OC + len FE + len rest).
  { rewrite !len_app. lia. }
  assert (HL4 : 4 <= hdr_len h).
  { destruct h as [b|ph]; cbn [hdr_len]; unfold thdr_len, phdr_len; [lia|].
    cbn [hdr_valid] in Hv. destruct Hv as (_ & _ & _ & _ & _ & (? & _)). lia. }
  rewrite frame_unpack_unfold. rewrite LR.
  destruct (_ <? 4) eqn:G; [lia|]. clear G.
  assert (S1 : (match ftype_of_rule r with
                | FtFixed => if negb (p_fixed p) then Err EValue else
                             if len H + len IZ + len T + len OC + len FE + len rest <? p_len p
                             then Err EInvalidLen else Ok tt
                | FtVariable => Ok tt
                end) = Ok tt).
  { unfold ftype_of_rule in *. destruct (r <? 3) eqn:R; [|reflexivity].
    rewrite Pfx. cbn [negb]. rewrite Pl by (left; assumption).
    destruct (_ + len rest <? _) eqn:G; [lia|reflexivity]. }
  rewrite S1. cbn [bind]. unfold H at 1. rewrite determine_hdr_layout by assumption. cbn [bind]. fold H.
  assert (S2 : (if (if hdr_truncated h then HT_TRUNCATED else HT_NON_TRUNCATED) =? HT_TRUNCATED
                then match ftype_of_rule r with
                     | FtVariable => if p_fixed p then Err EValue else
                                     do b <- thdr_unpack (H ++ IZ ++ T ++ OC ++ FE ++ rest) USLP_VERSION_NUMBER; Ok (HTrunc b)
                     | FtFixed => Err ETruncatedNotAllowed
                     end
                else do ph <- phdr_unpack (H ++ IZ ++ T ++ OC ++ FE ++ rest) USLP_VERSION_NUMBER; Ok (HPrim ph))
               = Ok (hdr_norm h)).
  { destruct h as [b|ph]; cbn [hdr_truncated hdr_norm hdr_valid] in *.
    - change (HT_TRUNCATED =? HT_TRUNCATED) with true. cbv iota.
      specialize (Htr eq_refl). unfold ftype_of_rule in *. destruct (r <? 3) eqn:R; [lia|].
      rewrite Pfx. unfold H. cbn [hdr_layout]. rewrite thdr_unpack_pack by assumption. reflexivity.
    - change (HT_NON_TRUNCATED =? HT_TRUNCATED) with false. cbv iota.
      unfold H. cbn [hdr_layout]. rewrite phdr_unpack_pack by assumption. reflexivity. }
  rewrite S2. cbn [bind].
  rewrite (frame_unpack_body_ok H IZ T OC FE rest (hdr_norm h) r i fh dz iz oc fe p);
    try reflexivity; try assumption.
  - rewrite <- Hs. reflexivity.
  - rewrite LH. destruct h; reflexivity.
  - destruct h; assumption.
  - destruct h as [b|ph]; cbn [ocf_consistent hdr_norm] in *; [assumption|]. destruct oc; assumption.
  - destruct h as [b|ph]; cbn [hdr_norm hdr_truncated hdr_valid] in *.
    + specialize (Htr eq_refl). unfold ftype_of_rule in Pfx. destruct (r <? 3) eqn:R; [lia|].
      split; [assumption|]. split; [apply Pl; right; reflexivity|assumption].
    + cbn [phdr_norm frame_len ocf_flag]. destruct Hv as (_ & _ & _ & _ & Hocf & _). split; [lia|assumption].
  - intros R3. apply Pl. left. rewrite Pfx. unfold ftype_of_rule.
    destruct (r <? 3) eqn:R; [reflexivity|lia].
  - intros E. rewrite Sz by assumption. apply opt_len_bytes.
  - intros E. rewrite Sf by assumption. apply opt_len_bytes.
Qed.

(* ================= cross-cutting: C09 / C10 / C11 for the frame decoders ================= *)

Lemma ok_or_documented_bind {A B} (r : res A) (f : A -> res B) :
  ok_or_documented r -> (forall a, r = Ok a -> ok_or_documented (f a)) -> ok_or_documented (bind r f).
Proof. destruct r as [a|e]; cbn [bind]; intros H K; [apply K; reflexivity|exact H]. Qed.

Lemma py_get_ok (d : bytes) i : 0 <= i < len d -> exists b, py_get d i = Ok b.
Proof. intros H. destruct (py_get_in_range d i H) as (b & E & _). eauto. Qed.

(* TransferFrameDataField.unpack: every input, every exact_len, every frame type *)
Theorem tfdf_unpack_total raw tr e ft : ok_or_documented (tfdf_unpack raw tr e ft).
Proof.
  unfold tfdf_unpack. destruct (len raw <? 1) eqn:L1; [reflexivity|].
  destruct (py_get_ok raw 0 ltac:(lia)) as (b0 & ->). cbn [bind].
  destruct (match ft with Some f => negb (verify_frame_type _ f) | None => false end); [reflexivity|].
  destruct (should_have_fhp _ tr ft).
  - destruct (_ || _) eqn:G; [reflexivity|].
    destruct (py_get_ok raw 1 ltac:(lia)) as (b1 & ->).
    destruct (py_get_ok raw 2 ltac:(lia)) as (b2 & ->). cbn [bind]. exact I.
  - cbn [bind]. exact I.
Qed.

Lemma get_tfdf_len_total ft h n p :
  (forall b, h = HTrunc b -> ft = FtVariable /\ p_fixed p = false) ->
  ok_or_documented (get_tfdf_len ft h n p).
Proof.
  intros Hh. unfold get_tfdf_len. destruct ft; destruct h as [b|ph].
  - destruct (Hh b eq_refl) as (? & _). discriminate.
  - destruct (_ <? _); [reflexivity|exact I].
  - destruct (Hh b eq_refl) as (_ & ->). exact I.
  - exact I.
Qed.

Lemma frame_unpack_body_total raw ft p h :
  (forall b, h = HTrunc b -> ft = FtVariable /\ p_fixed p = false) ->
  ok_or_documented (frame_unpack_body raw ft p h).
Proof.
  intros Hh. unfold frame_unpack_body.
  apply ok_or_documented_bind.
  { destruct ft; destruct h as [b|ph]; try exact I.
    - destruct (Hh b eq_refl) as (? & _). discriminate.
    - destruct (negb _); [reflexivity|exact I]. }
  intros _ _. apply ok_or_documented_bind.
  { destruct h as [b|ph]; [|exact I]. destruct (Hh b eq_refl) as (_ & ->). exact I. }
  intros efl _. destruct (_ <? efl); [reflexivity|].
  apply ok_or_documented_bind; [apply get_tfdf_len_total; assumption|].
  intros e _. destruct (_ || _); [reflexivity|].
  apply ok_or_documented_bind.
  { destruct (iz_present p); [|exact I]. destruct (_ >? _); [reflexivity|exact I]. }
  intros [iz cur] _. apply ok_or_documented_bind; [apply tfdf_unpack_total|].
  intros t _. destruct h as [b|ph]; [exact I|]. destruct (negb _); exact I.
Qed.

(* TransferFrame.unpack: every octet string, both frame types, every managed-parameter
   object (either class, any integer sizes) fails only with documented errors *)
Theorem frame_unpack_total raw ft p : wf_bytes raw -> ok_or_documented (frame_unpack raw ft p).
Proof.
  intros W. rewrite frame_unpack_unfold. destruct (len raw <? 4) eqn:L4; [reflexivity|].
  apply ok_or_documented_bind.
  { destruct ft; [|exact I]. destruct (negb _); [reflexivity|]. destruct (_ <? p_len p); [reflexivity|exact I]. }
  intros _ _. apply ok_or_documented_bind; [apply determine_header_type_total; assumption|].
  intros ht _. apply ok_or_documented_bind.
  { destruct (ht =? HT_TRUNCATED).
    - destruct ft; [reflexivity|]. destruct (p_fixed p); [reflexivity|].
      apply ok_or_documented_bind; [apply thdr_unpack_total; assumption|]. intros; exact I.
    - apply ok_or_documented_bind; [apply phdr_unpack_total; assumption|]. intros; exact I. }
  intros h Eh. apply frame_unpack_body_total.
  intros b ->. destruct (ht =? HT_TRUNCATED).
  - destruct ft; [discriminate|]. destruct (p_fixed p); [discriminate|]. split; reflexivity.
  - destruct (phdr_unpack raw USLP_VERSION_NUMBER); cbn [bind] in Eh; discriminate.
Qed.

(* C09: octets behind the frame are irrelevant *)
Theorem frame_suffix_irrelevant f p s : frame_consistent f -> frame_len_set f -> props_match f p ->
  frame_unpack (frame_layout (hdr_layout (hdr f)) f ++ s) (ftype_of_rule (rules (ftfdf f))) p =
  frame_unpack (frame_layout (hdr_layout (hdr f)) f) (ftype_of_rule (rules (ftfdf f))) p.
Proof.
  intros Hc Hs Hm. rewrite frame_unpack_pack by assumption.
  rewrite <- (app_nil_r (frame_layout (hdr_layout (hdr f)) f)) at 1.
  rewrite frame_unpack_pack by assumption. reflexivity.
Qed.

(* ================= mismatching managed parameters ================= *)

(* too short for any header *)
Theorem frame_unpack_too_short raw ft p : len raw < 4 -> frame_unpack raw ft p = Err EInvalidLen.
Proof. intros H. unfold frame_unpack. destruct (len raw <? 4) eqn:E; [reflexivity|lia]. Qed.

(* FIXED with the wrong class of managed parameters *)
Theorem frame_unpack_fixed_wrong_class raw p : 4 <= len raw -> p_fixed p = false ->
  frame_unpack raw FtFixed p = Err EValue.
Proof.
  intros H F. unfold frame_unpack. destruct (len raw <? 4) eqn:E; [lia|]. rewrite F. reflexivity.
Qed.

(* fewer octets than the fixed length *)
Theorem frame_unpack_fixed_short raw p : 4 <= len raw -> p_fixed p = true -> len raw < p_len p ->
  frame_unpack raw FtFixed p = Err EInvalidLen.
Proof.
  intros H F L. unfold frame_unpack. destruct (len raw <? 4) eqn:E; [lia|]. rewrite F. cbn [negb].
  destruct (len raw <? p_len p) eqn:E2; [reflexivity|lia].
Qed.

(* truncated frame in fixed mode *)
Theorem frame_unpack_truncated_fixed b x p : base_valid b -> p_fixed p = true ->
  p_len p <= len (thdr_layout b ++ x) ->
  frame_unpack (thdr_layout b ++ x) FtFixed p = Err ETruncatedNotAllowed.
Proof.
  intros Hb F L. rewrite frame_unpack_unfold.
  destruct (len _ <? 4) eqn:E.
  { rewrite len_app in E. change (len (thdr_layout b)) with 4 in E. pose proof (len_nonneg x). lia. }
  rewrite F. cbn [negb]. destruct (_ <? p_len p) eqn:E2; [lia|]. cbn [bind].
  pose proof (determine_hdr_layout (HTrunc b) x Hb) as D. cbn [hdr_layout hdr_truncated] in D. rewrite D. reflexivity.
Qed.

(* a packed frame whose frame-length field disagrees with the fixed length *)
Theorem frame_unpack_fixed_len_mismatch ph x p : phdr_valid ph -> p_fixed p = true ->
  p_len p <= len (phdr_layout ph ++ x) -> frame_len ph + 1 <> p_len p ->
  frame_unpack (phdr_layout ph ++ x) FtFixed p = Err EInvalidLen.
Proof.
  intros Hv F L N. rewrite frame_unpack_unfold.
  assert (7 <= len (phdr_layout ph)).
  { rewrite phdr_layout_length; unfold phdr_len; destruct Hv as (_ & _ & _ & _ & _ & (? & _)); lia. }
  destruct (len _ <? 4) eqn:E.
  { rewrite len_app in E. pose proof (len_nonneg x). lia. }
  rewrite F. cbn [negb]. destruct (_ <? p_len p) eqn:E2; [lia|]. cbn [bind].
  pose proof (determine_hdr_layout (HPrim ph) x Hv) as D. cbn [hdr_layout hdr_truncated] in D. rewrite D. cbn [bind].
  change (HT_NON_TRUNCATED =? HT_TRUNCATED) with false. cbv iota.
  rewrite phdr_unpack_pack by assumption. cbn [bind]. unfold frame_unpack_body.
  cbn [phdr_norm frame_len]. destruct (_ =? _) eqn:E3; [lia|]. reflexivity.
Qed.

(* truncated frame with FixedFrameProperties in variable mode: ValueError (was AttributeError) *)
Theorem frame_unpack_truncated_fixed_props b x p : base_valid b -> p_fixed p = true ->
  frame_unpack (thdr_layout b ++ x) FtVariable p = Err EValue.
Proof.
  intros Hb F. rewrite frame_unpack_unfold.
  destruct (len _ <? 4) eqn:E.
  { rewrite len_app in E. change (len (thdr_layout b)) with 4 in E. pose proof (len_nonneg x). lia. }
  cbn [bind]. pose proof (determine_hdr_layout (HTrunc b) x Hb) as D. cbn [hdr_layout hdr_truncated] in D. rewrite D. cbn [bind].
  change (HT_TRUNCATED =? HT_TRUNCATED) with true. cbv iota. rewrite F. reflexivity.
Qed.

(* construction rule of the other family than the frame type *)
Theorem tfdf_unpack_rule_mismatch r i fh dz tail tr e ft : 0 <= r <= 7 -> 0 <= i <= 31 ->
  ft <> ftype_of_rule r ->
  tfdf_unpack (tfdf_layout r i fh dz ++ tail) tr e (Some ft) = Err EInvalidConstrRules.
Proof.
  intros Hr Hi N. unfold tfdf_unpack, tfdf_layout. cbn [app].
  destruct (len _ <? 1) eqn:L1.
  { rewrite len_cons in L1. pose proof (len_nonneg ((match fh with Some v => be_encode 2 v | None => [] end ++ dz) ++ tail)). lia. }
  rewrite py_get_cons_0. cbn [bind].
  destruct (byte_facts (r * 32 + i) ltac:(lia)) as (_ & _ & _ & _ & B4 & _).
  rewrite B4. replace ((r * 32 + i) / 32) with r by lia.
  assert (V : verify_frame_type r ft = false).
  { rule_cases r H; destruct ft; try reflexivity; exfalso; apply N; reflexivity. }
  rewrite V. reflexivity.
Qed.

(* a data field too short for the pointer the rule demands (was IndexError / over-read) *)
Theorem tfdf_unpack_pointer_cut raw e r : 1 <= len raw -> py_get raw 0 = Ok r ->
  cnstr_rules_for_fp (Z.land (Z.shiftr r 5) 7) = true -> len raw < 3 \/ e < 3 ->
  tfdf_unpack raw false e (Some FtFixed) = Err EInvalidLen.
Proof.
  intros L G F C. unfold tfdf_unpack. destruct (len raw <? 1) eqn:L1; [lia|].
  rewrite G. cbn [bind verify_frame_type should_have_fhp negb]. rewrite F. cbn [negb andb].
  destruct (_ || _) eqn:E; [reflexivity|lia].
Qed.

(* ================= C11: tfdz setter / set_frame_len_in_header histories ================= *)

Definition tsize_fresh (f : frame) : Prop :=
  tsize (ftfdf f) = tfdf_header_len (fhp (ftfdf f)) + len (tfdz (ftfdf f)).

Lemma frame_apply_fresh f o : tsize_fresh f -> tsize_fresh (frame_apply f o).
Proof.
  unfold tsize_fresh. destruct o; cbn [frame_apply]; try (intros; assumption).
  - intros _. reflexivity.
  - destruct f as [[b|ph] t iz oc fe]; intros H; exact H.
Qed.

(* after any sequence of setter calls the cached sizes are up to date, hence (for a frame the
   standard defines) len() = size of pack(); observers do not change the object *)
Theorem frame_history_len ops : forall f, tsize_fresh f ->
  let f' := fold_left frame_apply ops f in
  tsize_fresh f' /\
  (forall ft, frame_consistent f' -> ft = None \/ ft = Some (ftype_of_rule (rules (ftfdf f'))) ->
     exists raw, frame_pack f' (hdr_truncated (hdr f')) ft = Ok raw /\ len raw = frame_len_of f').
Proof.
  induction ops as [|o ops IH]; intros f Hf; cbn [fold_left].
  - split; [assumption|]. intros ft Hc Hft. apply frame_len_is_pack_len; assumption.
  - apply IH. apply frame_apply_fresh. assumption.
Qed.

Theorem frame_observers_pure f : frame_apply f OpPack = f /\ frame_apply f OpLen = f.
Proof. split; reflexivity. Qed.

(* the constructor and the decoder both establish the invariant *)
Theorem tfdf_new_fresh r i dz fh t : tfdf_new r i dz fh = Ok t ->
  tsize t = tfdf_header_len (fhp t) + len (tfdz t).
Proof.
  unfold tfdf_new, tfdf_set_tfdz. cbn [rules ident fhp tfdz tsize].
  destruct (_ >? _); [discriminate|]. intros E. injection E as <-. reflexivity.
Qed.

(* set_frame_len_in_header after a tfdz change: the field again holds the packed size - 1 *)
Theorem frame_set_tfdz_then_len f d :
  let f' := set_frame_len_in_header (frame_set_tfdz f d) in
  frame_len_set f' /\ tsize_fresh f' /\ tfdz (ftfdf f') = d.
Proof.
  cbn zeta. pose proof (set_frame_len_spec (frame_set_tfdz f d)) as (_ & S & T & _).
  split; [exact S|]. unfold tsize_fresh. rewrite T. split; reflexivity.
Qed.

(* ================= recorded finding: len() counts a pointer pack() never emits ================= *)
Definition unused_pointer_frame : frame :=
  {| hdr := HPrim {| pbase := {| scid := 1; src_dest := 0; vcid := 1; map_id := 1 |};
                     frame_len := 17; bypass := 0; prot := 0; ocf_flag := 0; vcf_len := 0;
                     vcf_count := None |};
     ftfdf := {| rules := VpNoSegmentation; ident := 0; fhp := Some 5; tfdz := [97; 98; 99; 100];
                 tsize := 7 |};
     izone := None; ocf := None; fecf := None |}.

(* outside the hypothesis "pointer supplied exactly when the standard has one" of
   frame_len_is_pack_len the statement fails: the constructor accepts the pointer, pack drops it,
   len() counts it *)
Theorem frame_len_unused_pointer_refuted :
  tfdf_new VpNoSegmentation 0 [97; 98; 99; 100] (Some 5) = Ok (ftfdf unused_pointer_frame) /\
  exists raw, frame_pack unused_pointer_frame false None = Ok raw /\
              len raw = 12 /\ frame_len_of unused_pointer_frame = 14.
Proof. split; [reflexivity|]. eexists. split; [reflexivity|]. split; reflexivity. Qed.

(* ================= C10: every strict prefix of a packed frame is refused ================= *)

Lemma firstn_app_ge {A} (l1 l2 : list A) n : (length l1 <= n)%nat ->
  firstn n (l1 ++ l2) = l1 ++ firstn (n - length l1) l2.
Proof. intros H. rewrite firstn_app, firstn_all2 by assumption. reflexivity. Qed.

Lemma firstn_app_lt {A} (l1 l2 : list A) n : (n <= length l1)%nat ->
  firstn n (l1 ++ l2) = firstn n l1.
Proof.
  intros H. rewrite firstn_app. replace (n - length l1)%nat with 0%nat by lia.
  cbn [firstn]. apply app_nil_r.
Qed.

Theorem frame_prefix_rejected f p n : frame_consistent f -> frame_len_set f -> props_match f p ->
  (n < length (frame_layout (hdr_layout (hdr f)) f))%nat ->
  frame_unpack (firstn n (frame_layout (hdr_layout (hdr f)) f)) (ftype_of_rule (rules (ftfdf f))) p =
  Err EInvalidLen.
Proof.
  intros Hc Hset Hm Hn.
  pose proof (frame_len_is_layout_len f Hc) as Ltot.
  set (L := frame_layout (hdr_layout (hdr f)) f) in *.
  assert (Ld : len (firstn n L) = Z.of_nat n) by (unfold len; rewrite firstn_length; lia).
  assert (Lt : Z.of_nat n < frame_len_of f) by (rewrite Ltot; unfold len; lia).
  destruct (Z_lt_le_dec (Z.of_nat n) 4) as [S4|G4].
  { apply frame_unpack_too_short. lia. }
  destruct Hm as (Pfx & Pl & _).
  destruct Hc as (Hv & (Hr & _) & _ & Htr).
  rewrite frame_unpack_unfold. rewrite Ld. destruct (_ <? 4) eqn:E4; [lia|]. clear E4.
  unfold ftype_of_rule in *. destruct (rules (ftfdf f) <? 3) eqn:R.
  { rewrite Pfx. cbn [negb]. rewrite Pl by (left; assumption).
    destruct (Z.of_nat n <? frame_len_of f) eqn:E; [reflexivity|lia]. }
  cbn [bind].
  unfold L, frame_layout.
  set (X := opt_bytes_of (izone f) ++ tfdf_layout (rules (ftfdf f)) (ident (ftfdf f)) (fhp (ftfdf f)) (tfdz (ftfdf f)) ++
            opt_bytes_of (ocf f) ++ opt_bytes_of (fecf f)).
  pose proof (hdr_layout_len (hdr f) Hv) as LH. unfold len in LH.
  destruct (hdr f) as [b|ph] eqn:Eh; cbn [hdr_layout hdr_truncated hdr_valid hdr_len] in *.
  - (* truncated header: 4 octets, always inside the prefix *)
    unfold thdr_len in LH.
    rewrite firstn_app_ge by lia.
    pose proof (determine_hdr_layout (HTrunc b) (firstn (n - length (thdr_layout b)) X) Hv) as D.
    cbn [hdr_layout hdr_truncated] in D. rewrite D. cbn [bind].
    change (HT_TRUNCATED =? HT_TRUNCATED) with true. cbv iota.
    rewrite Pfx. rewrite thdr_unpack_pack by assumption. cbn [bind].
    unfold frame_unpack_body. cbn [bind]. rewrite Pfx. cbn [bind].
    rewrite Pl by (right; reflexivity).
    destruct (_ <? frame_len_of f) eqn:E; [reflexivity|].
    rewrite len_app in E. unfold len in E. rewrite firstn_length in E.
    change (length (thdr_layout b)) with 4%nat in *. lia.
  - destruct (Nat.lt_ge_cases n (length (phdr_layout ph))) as [Sh|Gh].
    + (* cut inside the header *)
      rewrite firstn_app_lt by lia.
      destruct (phdr_layout_octets ph Hv) as (o0 & o1 & o2 & o3 & o4 & o5 & o6 & E & W & V & T & N & P).
      assert (D : determine_header_type (firstn n (phdr_layout ph)) = Ok HT_NON_TRUNCATED).
      { rewrite E. do 4 (destruct n as [|n]; [lia|]). cbn [firstn].
        rewrite determine_header_type_spec.
        - rewrite T. reflexivity.
        - unfold wf_bytes in W. repeat match goal with H : Forall _ (_ :: _) |- _ => inversion H; clear H; subst end. assumption. }
      rewrite D. cbn [bind]. change (HT_NON_TRUNCATED =? HT_TRUNCATED) with false. cbv iota.
      rewrite phdr_prefix_rejected by assumption. reflexivity.
    + rewrite firstn_app_ge by lia.
      pose proof (determine_hdr_layout (HPrim ph) (firstn (n - length (phdr_layout ph)) X) Hv) as D.
      cbn [hdr_layout hdr_truncated] in D. rewrite D. cbn [bind].
      change (HT_NON_TRUNCATED =? HT_TRUNCATED) with false. cbv iota.
      rewrite phdr_unpack_pack by assumption. cbn [bind].
      unfold frame_unpack_body. cbn [bind phdr_norm frame_len].
      unfold frame_len_set in Hset. rewrite Eh in Hset. rewrite Hset.
      destruct (_ <? frame_len_of f - 1 + 1) eqn:E; [reflexivity|].
      rewrite len_app in E. unfold len in E. rewrite firstn_length in E. lia.
Qed.

(* ================= C11 / C17: wide histories (every public attribute) ================= *)

(* the decoder establishes the size invariant as well *)
Lemma tfdf_unpack_fresh raw tr e ft t : tfdf_unpack raw tr e ft = Ok t ->
  tsize t = tfdf_header_len (fhp t) + len (tfdz t).
Proof.
  unfold tfdf_unpack. destruct (len raw <? 1); [discriminate|].
  destruct (py_get raw 0) as [r0|]; cbn [bind]; [|discriminate].
  destruct (match ft with Some f => negb (verify_frame_type _ f) | None => false end); [discriminate|].
  destruct (should_have_fhp _ tr ft).
  - destruct (_ || _); cbn [bind]; [discriminate|].
    destruct (py_get raw 1); cbn [bind]; [|discriminate].
    destruct (py_get raw 2); cbn [bind]; [|discriminate].
    intros E. injection E as <-. reflexivity.
  - cbn [bind]. intros E. injection E as <-. reflexivity.
Qed.

Lemma frame_unpack_fresh raw ft p f : frame_unpack raw ft p = Ok f -> tsize_fresh f.
Proof.
  rewrite frame_unpack_unfold. destruct (len raw <? 4); [discriminate|].
  intros H. apply bind_ok in H. destruct H as (_ & _ & H).
  apply bind_ok in H. destruct H as (ht & _ & H).
  apply bind_ok in H. destruct H as (h & _ & H).
  unfold frame_unpack_body in H.
  apply bind_ok in H. destruct H as (_ & _ & H).
  apply bind_ok in H. destruct H as (efl & _ & H).
  destruct (len raw <? efl); [discriminate|].
  apply bind_ok in H. destruct H as (e & _ & H).
  destruct (_ || _); [discriminate|].
  apply bind_ok in H. destruct H as ([iz cur] & _ & H).
  apply bind_ok in H. destruct H as (t & T & H).
  apply tfdf_unpack_fresh in T.
  destruct h as [b|ph].
  - injection H as <-. exact T.
  - destruct (negb (ocf_flag ph =? 0)); injection H as <-; exact T.
Qed.

(* every operation of the wide histories except the direct assignment of the pointer keeps the
   cached data field size in step with (pointer, data zone) *)
Definition fop2_keeps_size (o : fop2) : Prop :=
  match o with O2SetFhp _ => False | _ => True end.

Lemma frame_apply2_fresh f tr ft o f' : tsize_fresh f -> fop2_keeps_size o ->
  frame_apply2 f tr ft o = Ok f' -> tsize_fresh f'.
Proof.
  intros F K. destruct o; cbn [frame_apply2 fop2_keeps_size] in *;
    try (intros E; injection E as <-; exact F).
  - intros E. injection E as <-. apply frame_apply_fresh. exact F.
  - contradiction.
  - intros E. apply bind_ok in E. destruct E as (t & T & E). injection E as <-.
    unfold tsize_fresh, with_tfdf. cbn [ftfdf]. eapply tfdf_new_fresh. exact T.
  - unfold frame_roundtrip. intros E.
    apply bind_ok in E. destruct E as (raw & _ & E).
    apply bind_ok in E. destruct E as (p & _ & E).
    eapply frame_unpack_fresh. exact E.
Qed.

(* a refused operation leaves the object as it was *)
Fixpoint frame_run2 (f : frame) (tr : bool) (ft : option ftype) (ops : list fop2) : frame :=
  match ops with
  | [] => f
  | o :: r => match frame_apply2 f tr ft o with
              | Ok f' => frame_run2 f' tr ft r
              | Err _ => frame_run2 f tr ft r
              end
  end.

(* after any such history the cached sizes are up to date, hence (for a frame the standard defines)
   len() is the size of pack() *)
Theorem frame_history2_len ops tr ft0 : forall f, tsize_fresh f -> Forall fop2_keeps_size ops ->
  let f' := frame_run2 f tr ft0 ops in
  tsize_fresh f' /\
  (forall ft, frame_consistent f' -> ft = None \/ ft = Some (ftype_of_rule (rules (ftfdf f'))) ->
     exists raw, frame_pack f' (hdr_truncated (hdr f')) ft = Ok raw /\ len raw = frame_len_of f').
Proof.
  induction ops as [|o ops IH]; intros f Hf K; cbn [frame_run2].
  - split; [assumption|]. intros ft Hc Hft. apply frame_len_is_pack_len; assumption.
  - inversion K; subst. destruct (frame_apply2 f tr ft0 o) as [f1|] eqn:E.
    + apply IH; [|assumption]. eapply frame_apply2_fresh; eassumption.
    + apply IH; assumption.
Qed.

(* the direct assignment of the pointer is the one operation that leaves len() behind: nothing is
   recomputed *)
Theorem frame_set_fhp_len_unchanged f tr ft p f' :
  frame_apply2 f tr ft (O2SetFhp p) = Ok f' ->
  frame_len_of f' = frame_len_of f /\ fhp (ftfdf f') = p.
Proof. cbn [frame_apply2]. intros E. injection E as <-. split; reflexivity. Qed.

(* header attribute assignments do not touch the data field, the zones or the cached size *)
Theorem frame_hdr_assign_parts f tr ft k v f' :
  frame_apply2 f tr ft (O2Hdr k v) = Ok f' ->
  ftfdf f' = ftfdf f /\ izone f' = izone f /\ ocf f' = ocf f /\ fecf f' = fecf f /\
  hdr f' = fhdr_set (hdr f) k v.
Proof. cbn [frame_apply2]. intros E. injection E as <-. repeat split. Qed.
