(* C13: the linear-time history formulation of Model/ParserFast.v (dispatcher op 902, used
   for large backlogs) is the history semantics of Model/Parser.v (op 900). *)
From Coq Require Import ZArith List Bool Lia.
From SP Require Import Base.Result Base.Bytes Base.BytesFacts Model.SpacePacket Model.Parser
  Model.ParserFast Spec.ParserSpec Proofs.ParserProofs.
Import ListNotations.
Open Scope Z_scope.

Lemma to_queue_fast_eq r : to_queue_fast r = to_queue r.
Proof. reflexivity. Qed.

Lemma parse_fast_eq q ids : Forall wf_bytes q ->
  parse_space_packets q ids = Ok (parse_fast q ids).
Proof.
  intros W. destruct q as [|c q]; [reflexivity|].
  rewrite parse_space_packets_buf. rewrite parse_buf_spec by (apply wf_concat; assumption).
  unfold parse_fast. destruct (spec_stream (ids_raw ids) (concat (c :: q))) as [p r]. reflexivity.
Qed.

Lemma parse_fast_queue_wf q ids : Forall wf_bytes q -> Forall wf_bytes (snd (parse_fast q ids)).
Proof.
  intros W. destruct q as [|c q]; [constructor|].
  unfold parse_fast.
  pose proof (spec_stream_rem_wf (ids_raw ids) (concat (c :: q)) (wf_concat _ W)) as Wr.
  destruct (spec_stream (ids_raw ids) (concat (c :: q))) as [p r]. cbn [snd] in *.
  destruct r; constructor; [assumption|constructor].
Qed.

Definition pop_wf (o : pop) : Prop := match o with Append c => wf_bytes c | Parse _ => True end.

Lemma pop_wfb_iff o : pop_wfb o = true <-> pop_wf o.
Proof. destruct o; cbn [pop_wfb pop_wf]; [apply wf_bytesb_iff|tauto]. Qed.

Lemma run_fast_eq : forall ops q, Forall wf_bytes q -> Forall pop_wf ops ->
  run_ops q ops = Ok (run_fast q ops).
Proof.
  induction ops as [|o ops IH]; intros q Wq Wo; [reflexivity|].
  inversion Wo as [|? ? Ho Wo']; subst.
  cbn [run_ops run_fast]. destruct o as [c|ids].
  - cbn [step step_fast bind]. rewrite IH; [reflexivity| |assumption].
    apply Forall_app. split; [assumption|]. constructor; [exact Ho|constructor].
  - cbn [step step_fast]. rewrite parse_fast_eq by assumption.
    pose proof (parse_fast_queue_wf q ids Wq) as Wq'.
    destruct (parse_fast q ids) as [p q']. cbn [snd] in Wq'. cbn [bind].
    rewrite IH by assumption. reflexivity.
Qed.

(* unconditional: operation 902 of the dispatcher computes what operation 900 computes *)
Theorem run_ops_fast_eq q ops : run_ops_fast q ops = run_ops q ops.
Proof.
  unfold run_ops_fast.
  destruct (forallb wf_bytesb q && forallb pop_wfb ops) eqn:E; [|reflexivity].
  apply andb_true_iff in E. destruct E as [Eq Eo].
  symmetry. apply run_fast_eq.
  - rewrite forallb_forall in Eq. apply Forall_forall. intros x Hx. apply wf_bytesb_iff. auto.
  - rewrite forallb_forall in Eo. apply Forall_forall. intros x Hx. apply pop_wfb_iff. auto.
Qed.
