(* C11 (gap 1): the caller's objects over WHOLE histories of the directive-PDU machine
   (Run/DirHist.v).  *)
From Coq Require Import ZArith List Bool Lia.
From SP Require Import Base.Result Base.Bytes Model.PduHeader Model.FileDirective Model.Lv Model.Tlv
  Model.Eof Model.Ack Model.Prompt Model.KeepAlive Model.Finished Model.Metadata Model.Nak
  Run.Marshal Run.DirHist.
Import ListNotations.
Open Scope Z_scope.

(* the operation codes by which the CALLER edits its own PduConfig object *)
Definition caller_conf_op (o : list Z) : Prop := hd 0 o = 130 \/ hd 0 o = 131.
(* the operation codes by which the CALLER edits / re-binds its own list object (segment requests,
   options, filestore responses): append, remove last, clear, take the PDU's list *)
Definition caller_list_op (o : list Z) : Prop :=
  hd 0 o = 12 \/ hd 0 o = 13 \/ hd 0 o = 14 \/ hd 0 o = 16.

(* the part of the state that belongs to the caller *)
Definition caller_lists (s : hst) := (hs_segs s, hs_tlvs s, hs_resps s).

Ltac split_ifs :=
  repeat match goal with |- context [if ?c =? ?k then _ else _] => destruct (c =? k) eqn:? end.

Lemma gen_step_cc s code r : code <> 130 -> code <> 131 ->
  hs_cc (fst (gen_step s code r)) = hs_cc s.
Proof.
  intros N0 N1. unfold gen_step. cbv zeta.
  split_ifs; try lia.
  all: try (unfold acc; cbn [fst]; reflexivity).
  all: try (destruct (hs_p s); try (unfold acc; cbn [fst]; reflexivity)).
  all: try (match goal with |- context [upd ?s ?x] => destruct x as [s'|e] eqn:E end;
            cbn [upd fst]; [|reflexivity];
            repeat (apply bind_ok in E; destruct E as (? & ? & E));
            injection E as <-; reflexivity).
Qed.

(* solves  proj (fst <leaf>) = proj s  for the leaves of the interpreter: acc / upd / observation *)
Ltac leaf_upd :=
  let E := fresh "E" in
  match goal with |- context [upd ?s ?x] => destruct x eqn:E end;
  cbn [upd fst]; [|reflexivity];
  repeat (apply bind_ok in E; destruct E as (? & ? & E));
  injection E as <-;
  first [reflexivity | match goal with |- context [if ?b then _ else _] => destruct b end; reflexivity].
Ltac leaf :=
  first
  [ reflexivity
  | unfold acc; cbn [fst]; reflexivity
  | unfold acc; cbn [fst]; match goal with |- context [if ?b then _ else _] => destruct b end; reflexivity
  | leaf_upd ].

Lemma kind_step_cc s code r :
  hs_cc (fst (match hs_p s with
              | KEof p => eof_step s p code r | KAck p => ack_step s p code r
              | KPrompt p => prompt_step s p code r | KKa p => ka_step s p code r
              | KFin p => fin_step s p code r | KMd p => md_step s p code r
              | KNak p => nak_step s p code r end)) = hs_cc s.
Proof.
  destruct (hs_p s) as [p|p|p|p|p|p|p];
    unfold eof_step, ack_step, prompt_step, ka_step, fin_step, md_step, nak_step; cbv zeta;
    split_ifs; try leaf.
  all: try (destruct (md_options p); leaf).
  all: try (destruct (hs_rnone s); leaf).
Qed.

Lemma step_cc s o : ~ caller_conf_op o -> hs_cc (fst (step s o)) = hs_cc s.
Proof.
  unfold caller_conf_op. intros N. destruct o as [|code r]; [reflexivity|]. cbn [hd] in N.
  unfold step. destruct (code =? 122); [reflexivity|].
  destruct (code >=? 100); [apply gen_step_cc; lia|apply kind_step_cc].
Qed.

Lemma run_ops_cons s o r :
  fst (run_ops s (o :: r)) = fst (run_ops (fst (step s o)) r).
Proof.
  cbn [run_ops]. destruct (step s o) as [s1 e]. cbn [fst]. destruct (run_ops s1 r) as [s2 l]. reflexivity.
Qed.

(* C11: whatever is done to or observed on the PDU - every documented setter, the inherited header
   accessors, plain attribute assignments, pack, length and value observations, the caller's
   edits of its own lists - the PduConfig object the caller handed to the constructor is the same
   at the end of the history *)
Theorem run_ops_caller_conf ops : forall s,
  Forall (fun o => ~ caller_conf_op o) ops -> hs_cc (fst (run_ops s ops)) = hs_cc s.
Proof.
  induction ops as [|o r IH]; intros s F; [reflexivity|].
  inversion F as [|? ? Ho Fr]; subst. rewrite run_ops_cons, IH by exact Fr. apply step_cc. exact Ho.
Qed.

(* the form asked for: op codes 130 / 131 excluded *)
Corollary run_ops_caller_conf_codes ops s :
  Forall (fun o => hd 0 o <> 130 /\ hd 0 o <> 131) ops -> hs_cc (fst (run_ops s ops)) = hs_cc s.
Proof.
  intros F. apply run_ops_caller_conf. eapply Forall_impl; [|exact F].
  intros o [A B] [C|C]; contradiction.
Qed.

(* ---- the caller's list objects ---- *)
Lemma gen_step_lists s code r : caller_lists (fst (gen_step s code r)) = caller_lists s.
Proof.
  unfold gen_step. cbv zeta. split_ifs; try leaf.
  all: destruct (hs_p s); leaf.
Qed.

Lemma kind_step_lists s code r : code <> 12 -> code <> 13 -> code <> 14 -> code <> 16 ->
  caller_lists (fst (match hs_p s with
              | KEof p => eof_step s p code r | KAck p => ack_step s p code r
              | KPrompt p => prompt_step s p code r | KKa p => ka_step s p code r
              | KFin p => fin_step s p code r | KMd p => md_step s p code r
              | KNak p => nak_step s p code r end)) = caller_lists s.
Proof.
  intros N1 N2 N3 N4.
  destruct (hs_p s) as [p|p|p|p|p|p|p];
    unfold eof_step, ack_step, prompt_step, ka_step, fin_step, md_step, nak_step; cbv zeta;
    split_ifs; try lia; try leaf.
Qed.

Lemma step_lists s o : ~ caller_list_op o -> caller_lists (fst (step s o)) = caller_lists s.
Proof.
  unfold caller_list_op. intros N. destruct o as [|code r]; [reflexivity|]. cbn [hd] in N.
  unfold step. destruct (code =? 122); [reflexivity|].
  destruct (code >=? 100); [apply gen_step_lists|apply kind_step_lists; lia].
Qed.

(* C11: no operation on the PDU (constructor-side setters that take the caller's list, pack, the
   inherited accessors, the length observations) changes the list object the caller holds; only
   the caller's own edits (codes 12, 13, 14, 16) do *)
Theorem run_ops_caller_lists ops : forall s,
  Forall (fun o => ~ caller_list_op o) ops ->
  hs_segs (fst (run_ops s ops)) = hs_segs s /\ hs_tlvs (fst (run_ops s ops)) = hs_tlvs s /\
  hs_resps (fst (run_ops s ops)) = hs_resps s.
Proof.
  assert (X : forall s, Forall (fun o => ~ caller_list_op o) ops ->
              caller_lists (fst (run_ops s ops)) = caller_lists s).
  { induction ops as [|o r IH]; intros s F; [reflexivity|].
    inversion F as [|? ? Ho Fr]; subst. rewrite run_ops_cons, IH by exact Fr. apply step_lists. exact Ho. }
  intros s F. specialize (X s F). unfold caller_lists in X. inversion X. repeat split; reflexivity.
Qed.

(* observations (pack, lengths, exposed values) leave the WHOLE state as it was: the object, the
   caller's configuration, the caller's lists, the aliasing *)
Theorem step_observation_pure s o : hd 0 o = 120 \/ hd 0 o = 121 \/ hd 0 o = 122 -> fst (step s o) = s.
Proof.
  destruct o as [|code r]; [reflexivity|]. cbn [hd]. intros [-> | [-> | ->]]; reflexivity.
Qed.

(* packing twice in a row through the interpreter: identical log entries, state unchanged *)
Theorem step_pack_twice s r1 r2 :
  snd (step s (120 :: r1)) = snd (step (fst (step s (120 :: r1))) (120 :: r2)) /\
  fst (step (fst (step s (120 :: r1))) (120 :: r2)) = s.
Proof. split; reflexivity. Qed.

(* Metadata: the MetadataParams object the caller passed in is written only by the plain
   assignments to it (codes 20..24); every setter of the PDU leaves it alone (the names live in the
   PDU's own LV objects) *)
Definition md_params_of (s : hst) : option MdParams :=
  match hs_p s with KMd p => Some (md_params p) | _ => None end.

Lemma md_calc_len_params p p' : md_calc_len p = Ok p' -> md_params p' = md_params p.
Proof.
  unfold md_calc_len. cbv zeta. intros H. apply bind_ok in H. destruct H as (f & _ & H).
  injection H as <-. reflexivity.
Qed.

Definition caller_params_op (o : list Z) : Prop := 20 <= hd 0 o <= 24.

Definition md_keeps (q : MdParams) (s : hst) : Prop :=
  exists p', hs_p s = KMd p' /\ md_params p' = q.

Lemma md_keeps_st_p q s p' : md_params p' = q -> md_keeps q (st_p s (KMd p')).
Proof. intros H. exists p'. split; [reflexivity|exact H]. Qed.

Lemma md_setter_params p p' :
  (exists o, md_set_options p o = Ok p') \/ (exists o, md_set_src p o = Ok p') \/
  (exists o, md_set_dst p o = Ok p') -> md_params p' = md_params p.
Proof.
  unfold md_set_options, md_set_src, md_set_dst.
  intros [(o & H) | [(o & H) | (o & H)]].
  - apply md_calc_len_params in H. exact H.
  - apply bind_ok in H. destruct H as (x & _ & H). apply md_calc_len_params in H. exact H.
  - apply bind_ok in H. destruct H as (x & _ & H). apply md_calc_len_params in H. exact H.
Qed.

Lemma step_md_params s p o : hs_p s = KMd p -> ~ caller_params_op o ->
  md_keeps (md_params p) (fst (step s o)).
Proof.
  intros HP N. unfold caller_params_op in N.
  assert (KEEP : md_keeps (md_params p) s) by (exists p; split; [exact HP|reflexivity]).
  destruct o as [|code r]; [exact KEEP|]. cbn [hd] in N.
  unfold step. destruct (code =? 122); [exact KEEP|].
  destruct (code >=? 100) eqn:G.
  - unfold gen_step. rewrite HP. cbv zeta. split_ifs.
    all: unfold acc; cbn [fst k_with_fd k_fd]; try (apply md_keeps_st_p; reflexivity); try exact KEEP.
    all: try (exists p; split; [exact HP|reflexivity]).
    all: match goal with |- context [upd ?s ?x] => destruct x as [s'|e] eqn:E end;
         cbn [upd fst]; [|exact KEEP];
         repeat (apply bind_ok in E; destruct E as (? & ? & E)); injection E as <-;
         first [apply md_keeps_st_p; reflexivity | exists p; split; [exact HP|reflexivity]].
  - rewrite HP. unfold md_step. cbv zeta. split_ifs; try lia.
    all: unfold acc; cbn [fst]; try exact KEEP.
    all: try (match goal with |- context [upd ?s ?x] => destruct x as [s'|e] eqn:E end;
              cbn [upd fst]; [|exact KEEP];
              repeat (apply bind_ok in E; destruct E as (? & ? & E)); injection E as <-).
    all: try (match goal with |- md_keeps _ (st_alias (st_p _ (KMd ?q)) _) =>
                exists q; split; [reflexivity|] end; apply md_setter_params; eauto 6).
    all: try (apply md_keeps_st_p; apply md_setter_params; eauto 6).
    all: try (destruct (hs_alias s); [exists (md_with_options p (Some x)) + idtac|]; 
              try (eexists; split; [reflexivity|reflexivity]); try (exists p; split; [exact HP|reflexivity])).
    all: try (destruct (md_options p); unfold acc; cbn [fst]; exists p; split; [exact HP|reflexivity]).
    all: destruct (md_options p); cbn [fst]; exists p; (split; [exact HP|reflexivity]).
Qed.

(* over whole histories *)
Theorem run_ops_md_params ops : forall s p,
  hs_p s = KMd p -> Forall (fun o => ~ caller_params_op o) ops ->
  exists p', hs_p (fst (run_ops s ops)) = KMd p' /\ md_params p' = md_params p.
Proof.
  induction ops as [|o r IH]; intros s p HP F; [exists p; split; [exact HP|reflexivity]|].
  inversion F as [|? ? Ho Fr]; subst. rewrite run_ops_cons.
  destruct (step_md_params s p o HP Ho) as (p1 & HP1 & E1).
  destruct (IH _ p1 HP1 Fr) as (p2 & HP2 & E2). exists p2. split; [exact HP2|congruence].
Qed.


(* ================= constructors: unconditional ================= *)
Lemma fin_calc_len_params p p' : fin_calc_len p = Ok p' -> fin_params p' = fin_params p.
Proof.
  unfold fin_calc_len. cbv zeta. intros H. apply bind_ok in H. destruct H as (f & _ & H).
  injection H as <-. reflexivity.
Qed.

(* FinishedPdu(conf, params), whenever it returns: the caller's PduConfig and the caller's
   FinishedParams object are what they were (the two setter calls of the constructor write back
   the values the object already holds) *)
Theorem fin_new_caller_objects c q p c' q' : fin_new c q = Ok (p, c', q') -> c' = c /\ q' = q /\ fin_params p = q.
Proof.
  unfold fin_new. intros H. apply bind_ok in H. destruct H as (f & _ & H).
  apply bind_ok in H. destruct H as (p1 & H1 & H). apply bind_ok in H. destruct H as (p2 & H2 & H).
  injection H as <- <- <-.
  assert (E1 : fin_params p1 = q).
  { destruct (fn_fault q) as [t|] eqn:Ft.
    - unfold fin_set_fault in H1. apply fin_calc_len_params in H1. rewrite H1. cbn [fin_params].
      rewrite <- Ft. destruct q; reflexivity.
    - injection H1 as <-. reflexivity. }
  unfold fin_set_resps in H2. apply fin_calc_len_params in H2. cbn [fin_params] in H2.
  rewrite E1 in H2. assert (E2 : fin_params p2 = q) by (rewrite H2; destruct q; reflexivity).
  repeat split; assumption.
Qed.

Theorem md_new_caller_objects c q o p c' q' : md_new c q o = Ok (p, c', q') ->
  c' = c /\ q' = q /\ md_params p = q /\ md_options p = o.
Proof.
  unfold md_new. intros H. apply bind_ok in H. destruct H as (s & _ & H).
  apply bind_ok in H. destruct H as (d & _ & H). apply bind_ok in H. destruct H as (f & _ & H).
  apply bind_ok in H. destruct H as (p1 & H1 & H). injection H as <- <- <-.
  unfold md_calc_len in H1. cbv zeta in H1. apply bind_ok in H1. destruct H1 as (f1 & _ & H1).
  injection H1 as <-. repeat split; reflexivity.
Qed.
