(* Setter-invariant lemmas about the live-object histories of Model/TlvHist.v (C11 material for the
   TLV / LV classes): whatever was assigned before, in whatever order,
     - the octets pack() returns have the length packet_len reports           (hist_pack_len)
     - pack() / value never depend on the TLV kept from an earlier call        (fs_pack_ignores_cache, ...)
     - pack() twice gives the same octets                                      (hist_pack_twice)
     - an operation that raises leaves the object as it was                    (hist_refused_keeps)
   All statements quantify over EVERY object state, hence over every history. *)
From Coq Require Import ZArith List Bool Lia ZifyBool.
From SP Require Import Base.Result Base.Bytes Base.BytesFacts Base.Utf8 Model.Lv Model.Tlv Model.TlvHist
  Spec.TlvSpec Proofs.LvProofs Proofs.TlvProofs.
Import ListNotations.
Open Scope Z_scope.

(* packet_len as the classes compute it *)
Definition hpacket_len (o : hobj) : Z :=
  match o with
  | HoLv l => lvh_packet_len l
  | HoTlv t | HoWrap _ t | HoFault _ _ t => tlv_packet_len t
  | HoFs s => fsh_packet_len s
  end.

Lemma lvh_pack_len l b : lvh_pack l = Ok b -> len b = lvh_packet_len l.
Proof.
  unfold lvh_pack, lvh_packet_len, lh_len, lh_value, ba_append.
  destruct (is_byte (len l)); cbn [bind]; [|discriminate].
  intros H. inversion H; subst. rewrite len_cons.
  destruct (len l >? 0) eqn:E; [lia|]. rewrite len_nil. pose proof (len_nonneg l). lia.
Qed.

Lemma common_packer_len a st f s v :
  common_packer a st f s = Ok v -> len v = 1 + (1 + len f) + (if is_two_name a then 1 + len s else 0).
Proof.
  unfold common_packer, ba_append. destruct (is_byte _); cbn [bind]; [|discriminate].
  destruct (lv_new f) as [f'|] eqn:Lf; cbn [bind]; [|discriminate].
  apply lv_new_inv in Lf. destruct Lf as [-> _].
  destruct (is_two_name a).
  - destruct (lv_new s) as [s'|] eqn:Ls; cbn [bind]; [|discriminate].
    apply lv_new_inv in Ls. destruct Ls as [-> _].
    intros H. apply Ok_inj in H. subst v.
    rewrite ?len_app, ?len_cons, ?len_nil, ?lv_pack_len. unfold lv_packet_len. lia.
  - intros H. apply Ok_inj in H. subst v.
    rewrite ?len_app, ?len_cons, ?len_nil, ?lv_pack_len. unfold lv_packet_len. lia.
Qed.

Lemma fsh_build_len s t : fsh_build s = Ok t -> tlv_packet_len t = fsh_packet_len s.
Proof.
  unfold fsh_build, fsh_packet_len, common_packet_len, tlv_packet_len.
  destruct (fs_resp s).
  - destruct (common_packer _ _ _ _) as [v|] eqn:P; cbn [bind]; [|discriminate].
    destruct (lvh_pack (fs_msg s)) as [m|] eqn:M; cbn [bind]; [|discriminate].
    intros H. apply tlv_new_inv in H. destruct H as [H _]. subst t. cbn [tlv_value].
    rewrite len_app, (common_packer_len _ _ _ _ _ P), (lvh_pack_len _ _ M).
    destruct (is_two_name _); lia.
  - destruct (common_packer _ _ _ _) as [v|] eqn:P; cbn [bind]; [|discriminate].
    intros H. apply tlv_new_inv in H. destruct H as [H _]. subst t. cbn [tlv_value].
    rewrite (common_packer_len _ _ _ _ _ P). destruct (is_two_name _); lia.
Qed.

(* a TLV the filestore classes build always packs *)
Lemma fsh_build_packs s t : fsh_build s = Ok t -> exists b, tlv_pack t = Ok b.
Proof.
  unfold fsh_build. intros H.
  assert (T : (tlv_type t = TLV_FILESTORE_RESPONSE \/ tlv_type t = TLV_FILESTORE_REQUEST) /\ len (tlv_value t) <= 255).
  { destruct (fs_resp s).
    - destruct (common_packer _ _ _ _); cbn [bind] in H; [|discriminate].
      destruct (lvh_pack _); cbn [bind] in H; [|discriminate].
      apply tlv_new_inv in H. destruct H as [-> L]. cbn. auto.
    - destruct (common_packer _ _ _ _); cbn [bind] in H; [|discriminate].
      apply tlv_new_inv in H. destruct H as [-> L]. cbn. auto. }
  destruct T as [Ty L]. pose proof (len_nonneg (tlv_value t)).
  unfold tlv_pack. rewrite ba_append_ok by (destruct Ty as [-> | ->]; cbv; split; congruence).
  cbn [bind]. rewrite ba_append_ok by lia. cbn [bind]. eauto.
Qed.

(* ---- the cache is irrelevant ---- *)
Lemma fsh_build_ignores_cache s c : fsh_build (fsh_with_cache s c) = fsh_build s.
Proof. reflexivity. Qed.

Lemma fs_pack_ignores_cache s c :
  fst (hstep (HoFs (fsh_with_cache s c)) PPack) = fst (hstep (HoFs s) PPack).
Proof.
  cbn [hstep]. unfold fsh_generate. rewrite fsh_build_ignores_cache.
  destruct (fsh_build s); reflexivity.
Qed.

Lemma fs_value_ignores_cache s c :
  fst (hstep (HoFs (fsh_with_cache s c)) PValue) = fst (hstep (HoFs s) PValue).
Proof.
  cbn [hstep]. unfold fsh_generate. rewrite fsh_build_ignores_cache.
  destruct (fsh_build s); reflexivity.
Qed.

(* pack() is the pack of the TLV built from the CURRENT attributes *)
Lemma fs_pack_is_build s :
  fst (hstep (HoFs s) PPack) = (do t <- fsh_build s; tlv_pack t).
Proof.
  cbn [hstep]. unfold fsh_generate. destruct (fsh_build s) as [t|e]; reflexivity.
Qed.

(* ---- reported length = packed length, in every state ---- *)
Lemma hist_pack_len o b o' : hstep o PPack = (Ok b, o') -> len b = hpacket_len o'.
Proof.
  destruct o as [l|t|c t|cc hc t|s]; cbn [hstep]; intros H.
  - inversion H; subst. cbn. apply lvh_pack_len. assumption.
  - inversion H; subst. cbn. apply tlv_pack_len. assumption.
  - inversion H; subst. cbn. apply tlv_pack_len. assumption.
  - inversion H; subst. cbn. apply tlv_pack_len. assumption.
  - unfold fsh_generate in H. destruct (fsh_build s) as [t|e] eqn:B; cbn [bind] in H.
    + cbn [fs_cache fsh_with_cache] in H. inversion H; subst. cbn [hpacket_len].
      rewrite (tlv_pack_len _ _ H1). unfold fsh_packet_len. cbn [fs_action fs_first fs_second fs_resp fs_msg fsh_with_cache].
      apply (fsh_build_len s t B).
    + inversion H.
Qed.

(* ---- pack() is repeatable ---- *)
Lemma hist_pack_twice o b o' : hstep o PPack = (Ok b, o') -> fst (hstep o' PPack) = Ok b.
Proof.
  destruct o as [l|t|c t|cc hc t|s]; cbn [hstep]; intros H;
    try (inversion H; subst; cbn [hstep fst]; (assumption || reflexivity || congruence)).
  unfold fsh_generate in H. destruct (fsh_build s) as [t|e] eqn:B; cbn [bind] in H; [|inversion H].
  cbn [fs_cache fsh_with_cache] in H. inversion H; subst.
  rewrite fs_pack_ignores_cache, fs_pack_is_build, B. cbn [bind]. first [assumption | congruence | reflexivity].
Qed.

(* ---- a refused operation leaves the object unchanged ---- *)
Lemma hist_refused_keeps o p e o' : hstep o p = (Err e, o') -> o' = o.
Proof.
  destruct o as [l|t|c t|cc hc t|s]; destruct p; cbn [hstep]; unfold done, refused; intros H;
    try (inversion H; subst; reflexivity);
    try (destruct (tlv_new _ _); inversion H; subst; reflexivity).
  - (* filestore pack *)
    unfold fsh_generate in H. destruct (fsh_build s) as [t|e'] eqn:B; cbn [bind] in H.
    + destruct (fsh_build_packs s t B) as [b Pb]. cbn [fs_cache fsh_with_cache] in H. rewrite Pb in H. inversion H.
    + inversion H; reflexivity.
  - (* filestore value *)
    unfold fsh_generate in H. destruct (fsh_build s) as [t|e'] eqn:B; cbn [bind] in H.
    + cbn [fs_cache fsh_with_cache] in H. inversion H.
    + inversion H; reflexivity.
  - unfold fsh_generate in H. destruct (fsh_build s); cbn [bind] in H; inversion H; reflexivity.
  - destruct (fs_cache s); inversion H; reflexivity.
  - destruct (fs_resp s); inversion H; reflexivity.
  - destruct (fs_resp s); [destruct (lv_new v)|]; inversion H; reflexivity.
  - destruct (fs_resp s); inversion H; reflexivity.
Qed.

(* ---- the same over whole histories: after ANY operations, the next pack() obeys the length rule ---- *)
Fixpoint hafter (o : hobj) (ps : list hop) : hobj :=
  match ps with [] => o | p :: r => hafter (snd (hstep o p)) r end.

Theorem hist_any_pack_len o ps b o' :
  hstep (hafter o ps) PPack = (Ok b, o') -> len b = hpacket_len o' /\ fst (hstep o' PPack) = Ok b.
Proof. intros H. split; [apply (hist_pack_len _ _ _ H) | apply (hist_pack_twice _ _ _ H)]. Qed.
