(* C09 (gap 6): for ARBITRARY accepted input, Finished / Metadata / File Data decoding and the
   factory depend on the octets up to the declared packet length only. *)
From Coq Require Import ZArith List Bool Lia ZifyBool.
From SP Require Import Base.Result Base.Bytes Base.BytesFacts Base.Utf8 Base.Crc16 Base.Crc16Facts
  Model.PduHeader Spec.PduHeaderSpec Proofs.PduHeaderProofs
  Model.FileDirective Proofs.FileDirectiveProofs
  Model.Lv Model.Tlv Spec.TlvSpec Proofs.LvProofs Proofs.TlvProofs
  Model.Finished Model.Metadata Spec.PduBSpec Proofs.FinishedProofs Proofs.MetadataProofs.
Import ListNotations.
Open Scope Z_scope.
Ltac Zify.zify_post_hook ::= Z.to_euclidean_division_equations.

(* ---- reading inside a prefix ---- *)
Lemma nth_error_firstn_lt {A} (l : list A) n i : (i < n)%nat -> nth_error (firstn n l) i = nth_error l i.
Proof.
  revert n i. induction l as [|x l IH]; intros n i H; [rewrite firstn_nil; reflexivity|].
  destruct n as [|n]; [lia|]. destruct i as [|i]; [reflexivity|]. cbn [firstn nth_error]. apply IH. lia.
Qed.

Lemma py_get_firstn (d : bytes) n i : i < Z.of_nat n -> py_get (firstn n d) i = py_get d i.
Proof.
  intros H. unfold py_get. destruct (i <? 0) eqn:E; [reflexivity|].
  rewrite nth_error_firstn_lt by lia. reflexivity.
Qed.

Lemma skipn_firstn_le {A} (l : list A) a n : (a <= n)%nat -> skipn a (firstn n l) = firstn (n - a) (skipn a l).
Proof.
  revert a n. induction l as [|x l IH]; intros a n H.
  - rewrite firstn_nil, !skipn_nil, firstn_nil. reflexivity.
  - destruct a as [|a]; [cbn [skipn]; rewrite Nat.sub_0_r; reflexivity|].
    destruct n as [|n]; [lia|]. cbn [firstn skipn Nat.sub]. apply IH. lia.
Qed.

Lemma slice_firstn (d : bytes) n a b : 0 <= a -> b <= Z.of_nat n -> slice (firstn n d) a b = slice d a b.
Proof.
  intros Ha Hb. unfold slice. destruct (Z_le_gt_dec b a) as [L|G].
  - replace (Z.to_nat (b - a)) with 0%nat by lia. reflexivity.
  - rewrite skipn_firstn_le by lia. rewrite firstn_firstn. f_equal. lia.
Qed.

Lemma slice_to_firstn (d : bytes) n b : b <= Z.of_nat n -> slice_to (firstn n d) b = slice_to d b.
Proof. intros H. unfold slice_to. rewrite firstn_firstn. f_equal. lia. Qed.

Lemma len_firstn (d : bytes) n : Z.of_nat n <= len d -> len (firstn n d) = Z.of_nat n.
Proof. unfold len. rewrite firstn_length. lia. Qed.

(* the directive base and the length / checksum verification on the declared prefix *)
Lemma fdir_unpack_firstn d f n : wf_bytes d -> fdir_unpack d = Ok f ->
  fdir_header_len f <= Z.of_nat n -> fdir_unpack (firstn n d) = Ok f.
Proof.
  intros W U H. destruct (fdir_unpack_inv d f W U) as (V & _ & L & LY).
  pose proof (fdir_header_len_range f V) as R.
  assert (E : firstn n d = fdir_layout f ++ firstn (n - Z.to_nat (fdir_header_len f)) (skipn (Z.to_nat (fdir_header_len f)) d)).
  { rewrite LY, firstn_skipn_firstn. f_equal. lia. }
  rewrite E. apply fdir_unpack_layout; [exact V|]. apply wf_bytes_firstn, wf_bytes_skipn. exact W.
Qed.

Lemma hdr_verify_firstn h d : 2 <= hdr_packet_len h -> hdr_packet_len h <= len d ->
  hdr_verify_length_and_checksum h (firstn (Z.to_nat (hdr_packet_len h)) d) = hdr_verify_length_and_checksum h d.
Proof.
  intros P L. rewrite !hdr_verify_spec by exact P. rewrite len_firstn by lia.
  rewrite firstn_firstn, Nat.min_id.
  destruct (Z.of_nat (Z.to_nat (hdr_packet_len h)) <? hdr_packet_len h) eqn:A; [lia|].
  destruct (len d <? hdr_packet_len h) eqn:B; [lia|]. reflexivity.
Qed.

(* ======================= Finished ======================= *)
Theorem fin_no_fold_in_any d p h : wf_bytes d -> fin_unpack d = Ok p -> hdr_unpack d = Ok h ->
  fin_unpack (firstn (Z.to_nat (hdr_packet_len h)) d) = Ok p.
Proof.
  intros W U Uh. unfold fin_unpack in *. destruct fin_empty_ok as (e0 & Ee). rewrite Ee in *. cbn [bind] in *.
  destruct (fdir_unpack d) as [f|e] eqn:Uf; [|discriminate U]. cbn [bind] in U.
  destruct (fdir_unpack_inv d f W Uf) as (FV & Uh' & _). rewrite Uh in Uh'. injection Uh' as ->.
  destruct (hdr_valid_packet_len _ (proj1 FV)) as (_ & Hp).
  assert (P2 : 2 <= hdr_packet_len (fd_hdr f)) by lia.
  destruct (hdr_verify_length_and_checksum (fd_hdr f) d) as [pl|e] eqn:Ve; [|discriminate U].
  destruct (hdr_verify_accept _ _ _ P2 Ve) as (-> & Lpl & _). cbn [bind] in U.
  set (n := hdr_packet_len (fd_hdr f)) in *.
  unfold fdir_packet_len in *. fold n in U. fold n.
  destruct (n >? len d) eqn:G0; [discriminate U|].
  set (e := if cf_crc (h_conf (fd_hdr f)) =? CRC_WITH_CRC then n - 2 else n) in *.
  assert (Le : e <= n) by (unfold e; destruct (_ =? _); lia).
  destruct (fdir_header_len f >=? e) eqn:G1; [discriminate U|].
  (* the prefix *)
  rewrite (fdir_unpack_firstn d f (Z.to_nat n) W Uf) by lia. cbn [bind].
  unfold n at 1. rewrite hdr_verify_firstn by (try exact P2; exact Lpl). rewrite Ve. cbn [bind].
  fold n. rewrite len_firstn by lia.
  destruct (n >? Z.of_nat (Z.to_nat n)) eqn:G2; [lia|]. fold e. rewrite G1.
  pose proof (fdir_header_len_range f FV) as Rh.
  rewrite py_get_firstn by lia.
  destruct (py_get d (fdir_header_len f)) as [b|er]; [|discriminate U]. cbn [bind] in *.
  destruct (condition_code_of_int _) as [cc|er]; [|discriminate U]. cbn [bind] in *.
  destruct (delivery_code_of_int _) as [dc|er]; [|discriminate U]. cbn [bind] in *.
  destruct (file_status_of_int _) as [fs|er]; [|discriminate U]. cbn [bind] in *.
  destruct (e >? fdir_header_len f + 1); [|exact U].
  rewrite slice_firstn by lia. exact U.
Qed.

(* ======================= Metadata ======================= *)
Lemma fdir_parse_fss_firstn f d n idx : 0 <= idx -> Z.of_nat n <= len d ->
  idx + (if hdr_large_file (fd_hdr f) then 8 else 4) <= Z.of_nat n ->
  fdir_parse_fss f (firstn n d) idx = fdir_parse_fss f d idx.
Proof.
  intros Hi Hn H. unfold fdir_parse_fss. rewrite len_firstn by exact Hn.
  destruct (hdr_large_file (fd_hdr f)).
  - destruct (idx + 8 >? Z.of_nat n) eqn:A; [lia|]. destruct (idx + 8 >? len d) eqn:B; [lia|].
    rewrite slice_firstn by lia. reflexivity.
  - destruct (idx + 4 >? Z.of_nat n) eqn:A; [lia|]. destruct (idx + 4 >? len d) eqn:B; [lia|].
    rewrite slice_firstn by lia. reflexivity.
Qed.

Theorem md_no_fold_in_any d p h : wf_bytes d -> md_unpack d = Ok p -> hdr_unpack d = Ok h ->
  md_unpack (firstn (Z.to_nat (hdr_packet_len h)) d) = Ok p.
Proof.
  intros W U Uh. unfold md_unpack in *. destruct md_empty_ok as (e0 & Ee & _). rewrite Ee in *. cbn [bind] in *.
  destruct (fdir_unpack d) as [f|e] eqn:Uf; [|discriminate U]. cbn [bind] in U.
  destruct (fdir_unpack_inv d f W Uf) as (FV & Uh' & _). rewrite Uh in Uh'. injection Uh' as ->.
  destruct (hdr_valid_packet_len _ (proj1 FV)) as (_ & Hp).
  assert (P2 : 2 <= hdr_packet_len (fd_hdr f)) by lia.
  destruct (hdr_verify_length_and_checksum (fd_hdr f) d) as [pl|e] eqn:Ve; [|discriminate U].
  destruct (hdr_verify_accept _ _ _ P2 Ve) as (-> & Lpl & _). cbn [bind] in U.
  set (n := hdr_packet_len (fd_hdr f)) in *.
  unfold md_packet_len, md_with_fdir, fdir_packet_len in *. cbn [md_fdir md_options] in *. fold n in U. fold n.
  set (e := if cf_crc (h_conf (fd_hdr f)) =? CRC_WITH_CRC then n - 2 else n) in *.
  assert (Le : e <= n) by (unfold e; destruct (_ =? _); lia).
  pose proof (fdir_header_len_range f FV) as Rh.
  set (mn := if cf_large (h_conf (fd_hdr f)) =? FILE_LARGE then fdir_header_len f + 7 + 4 else fdir_header_len f + 7) in *.
  destruct (e <? mn) eqn:G1; [discriminate U|].
  assert (Lw : (if hdr_large_file (fd_hdr f) then 8 else 4) + fdir_header_len f + 3 <= mn).
  { unfold mn, hdr_large_file. destruct (cf_large (h_conf (fd_hdr f)) =? FILE_LARGE); lia. }
  assert (Lm : fdir_header_len f + 7 <= mn) by (unfold mn; destruct (_ =? FILE_LARGE); lia).
  (* the prefix *)
  rewrite (fdir_unpack_firstn d f (Z.to_nat n) W Uf) by lia. cbn [bind].
  unfold n at 1. rewrite hdr_verify_firstn by (try exact P2; exact Lpl). rewrite Ve. cbn [bind].
  fold n. fold e. fold mn. rewrite G1.
  rewrite py_get_firstn by lia.
  destruct (py_get d (fdir_header_len f)) as [b|er]; [|discriminate U]. cbn [bind] in *.
  destruct (checksum_type_of_int _) as [cs|er]; [|discriminate U]. cbn [bind] in *.
  rewrite fdir_parse_fss_firstn by lia.
  destruct (fdir_parse_fss f d (fdir_header_len f + 1)) as [[ci fsz]|er] eqn:Pf; [|discriminate U]. cbn [bind] in *.
  assert (Ci : 0 <= ci).
  { unfold fdir_parse_fss in Pf. destruct (hdr_large_file (fd_hdr f)).
    - destruct (_ >? _); [discriminate|]. apply bind_ok in Pf. destruct Pf as (v & _ & Pf). injection Pf as <- _. lia.
    - destruct (_ >? _); [discriminate|]. apply bind_ok in Pf. destruct Pf as (v & _ & Pf). injection Pf as <- _. lia. }
  rewrite !slice_firstn by lia.
  destruct (lv_unpack (slice d ci e)) as [s|er]; [|discriminate U]. cbn [bind] in *.
  pose proof (len_nonneg s) as Ls.
  rewrite slice_firstn by (unfold lv_packet_len; lia).
  destruct (lv_unpack (slice d (ci + lv_packet_len s) e)) as [dd|er]; [|discriminate U]. cbn [bind] in *.
  rewrite slice_to_firstn by lia. exact U.
Qed.

(* ======================= File Data ======================= *)
From SP Require Import Model.FileData Spec.FileDataSpec Proofs.FileDataProofs.

Lemma hdr_unpack_firstn d h n : wf_bytes d -> hdr_unpack d = Ok h ->
  hdr_header_len h <= Z.of_nat n -> hdr_unpack (firstn n d) = Ok h.
Proof.
  intros W U H. destruct (hdr_pack_unpack d h W U) as (V & L & LY & _).
  destruct (hdr_valid_packet_len _ V) as (R & _).
  assert (E : firstn n d = hdr_layout h ++ firstn (n - Z.to_nat (hdr_header_len h)) (skipn (Z.to_nat (hdr_header_len h)) d)).
  { rewrite LY, firstn_skipn_firstn. f_equal. lia. }
  rewrite E. apply hdr_unpack_pack; [exact V|]. apply wf_bytes_firstn, wf_bytes_skipn. exact W.
Qed.

Theorem fd_no_fold_in_any d p h : wf_bytes d -> fd_unpack d = Ok p -> hdr_unpack d = Ok h ->
  fd_unpack (firstn (Z.to_nat (hdr_packet_len h)) d) = Ok p.
Proof.
  intros W U Uh. unfold fd_unpack in *. destruct fd_empty_ok as (e0 & Ee & _). rewrite Ee in *. cbn [bind] in *.
  rewrite Uh in U. cbn [bind] in U.
  destruct (hdr_pack_unpack d h W Uh) as (HV & Lhl & _).
  destruct (hdr_valid_packet_len h HV) as [Rhl Rpl].
  assert (P2 : 2 <= hdr_packet_len h) by lia.
  destruct (hdr_verify_length_and_checksum h d) as [pl|e] eqn:Ve; [|discriminate U].
  destruct (hdr_verify_accept _ _ _ P2 Ve) as (-> & Lpl & _). cbn [bind] in U.
  set (n := hdr_packet_len h) in *.
  assert (Hn : hdr_header_len h <= n) by (unfold n, hdr_packet_len; pose proof (proj2 (proj2 (proj2 HV))); lia).
  rewrite (hdr_unpack_firstn d h (Z.to_nat n) W Uh) by lia. cbn [bind].
  unfold n at 1. rewrite hdr_verify_firstn by (try exact P2; exact Lpl). rewrite Ve. cbn [bind]. fold n.
  unfold fd_with_hdr in *. cbn [FileData.fd_hdr fd_params] in *.
  set (e := if cf_crc (h_conf h) =? CRC_WITH_CRC then n - 2 else n) in *.
  assert (Le : e <= n) by (unfold e; destruct (_ =? _); lia).
  destruct (negb (h_meta h =? 0)).
  - destruct (hdr_header_len h >=? e) eqn:G1; [discriminate U|].
    rewrite py_get_firstn by lia.
    destruct (py_get d (hdr_header_len h)) as [b|er]; [|discriminate U]. cbn [bind] in *.
    destruct (hdr_header_len h + 1 + Z.land b 63 >? e) eqn:G2; [discriminate U|].
    assert (0 <= Z.land b 63) by (apply Z.land_nonneg; right; lia).
    rewrite slice_firstn by lia. cbn [bind] in *. unfold fd_with_params in *. cbn [FileData.fd_hdr fd_params] in *.
    match goal with |- context [?a + ?k >? e] => destruct (a + k >? e) eqn:G3 end; [discriminate U|].
    rewrite slice_firstn by (destruct (negb (hdr_large_file h)); lia).
    destruct (struct_unpack _ _) as [off|er]; [|discriminate U]. cbn [bind] in *.
    match goal with |- context [?a <? e] => destruct (a <? e) eqn:G4 end; [|exact U].
    rewrite slice_firstn by (destruct (negb (hdr_large_file h)); lia). exact U.
  - cbn [bind] in *. unfold fd_with_params in *. cbn [FileData.fd_hdr fd_params] in *.
    match goal with |- context [?a + ?k >? e] => destruct (a + k >? e) eqn:G3 end; [discriminate U|].
    rewrite slice_firstn by (destruct (negb (hdr_large_file h)); lia).
    destruct (struct_unpack _ _) as [off|er]; [|discriminate U]. cbn [bind] in *.
    match goal with |- context [?a <? e] => destruct (a <? e) eqn:G4 end; [|exact U].
    rewrite slice_firstn by (destruct (negb (hdr_large_file h)); lia). exact U.
Qed.

(* ======================= NAK: an accepted NAK PDU has nothing behind it ======================= *)
From SP Require Import Model.Nak Spec.PduCSpec Proofs.NakProofs.

Theorem nak_no_fold_in_any d p h : wf_bytes d -> nak_unpack d = Ok p -> hdr_unpack d = Ok h ->
  hdr_packet_len h = len d /\ nak_unpack (firstn (Z.to_nat (hdr_packet_len h)) d) = Ok p.
Proof.
  intros W U Uh. assert (E : hdr_packet_len h = len d).
  { unfold nak_unpack in U. destruct nak_empty_ok as (e0 & Ee & _). rewrite Ee in U. cbn [bind] in U.
    destruct (fdir_unpack d) as [f|e] eqn:Uf; [|discriminate U]. cbn [bind] in U.
    destruct (fdir_unpack_inv d f W Uf) as (FV & Uh' & _). rewrite Uh in Uh'. injection Uh' as ->.
    destruct (hdr_valid_packet_len _ (proj1 FV)) as (_ & Hp).
    destruct (hdr_verify_length_and_checksum (FileDirective.fd_hdr f) d) as [pl|e] eqn:Ve; [|discriminate U].
    assert (P2 : 2 <= hdr_packet_len (FileDirective.fd_hdr f)) by lia.
    destruct (hdr_verify_accept _ _ _ P2 Ve) as (-> & Lpl & _). cbn [bind] in U.
    destruct (negb _); [discriminate U|]. destruct (len d >? hdr_packet_len (FileDirective.fd_hdr f)) eqn:G; [discriminate U|]. lia. }
  split; [exact E|]. rewrite E. unfold len. rewrite Nat2Z.id, firstn_all. exact U.
Qed.

(* ======================= the factory ======================= *)
From SP Require Import Spec.PduASpec Proofs.DirectiveProofs
  Model.Eof Proofs.EofProofs Model.Ack Proofs.AckProofs Model.Prompt Proofs.PromptProofs
  Model.KeepAlive Proofs.KeepAliveProofs Model.Factory Proofs.FactoryProofs.

Lemma prelude_needs_fdir {A} (body : fdir -> bytes -> res A) d x : with_prelude body d = Ok x ->
  exists f, fdir_unpack d = Ok f.
Proof. unfold with_prelude. destruct (fdir_unpack d) as [f|]; [eexists; reflexivity|discriminate]. Qed.

(* every directive decoder starts by decoding the directive base *)
Lemma kind_unpack_needs_fdir d :
  (forall p, eof_unpack d = Ok p -> exists f, fdir_unpack d = Ok f) /\
  (forall p, ack_unpack d = Ok p -> exists f, fdir_unpack d = Ok f) /\
  (forall p, prompt_unpack d = Ok p -> exists f, fdir_unpack d = Ok f) /\
  (forall p, ka_unpack d = Ok p -> exists f, fdir_unpack d = Ok f) /\
  (forall p, fin_unpack d = Ok p -> exists f, fdir_unpack d = Ok f) /\
  (forall p, md_unpack d = Ok p -> exists f, fdir_unpack d = Ok f) /\
  (forall p, nak_unpack d = Ok p -> exists f, fdir_unpack d = Ok f).
Proof.
  repeat split; intros p U.
  - rewrite eof_unpack_eq in U. exact (prelude_needs_fdir _ _ _ U).
  - rewrite ack_unpack_eq in U. exact (prelude_needs_fdir _ _ _ U).
  - rewrite prompt_unpack_eq in U. exact (prelude_needs_fdir _ _ _ U).
  - rewrite ka_unpack_eq in U. exact (prelude_needs_fdir _ _ _ U).
  - unfold fin_unpack in U. destruct fin_empty; [|discriminate]. cbn [bind] in U.
    destruct (fdir_unpack d) as [f|]; [eexists; reflexivity|discriminate].
  - unfold md_unpack in U. destruct md_empty; [|discriminate]. cbn [bind] in U.
    destruct (fdir_unpack d) as [f|]; [eexists; reflexivity|discriminate].
  - unfold nak_unpack in U. destruct nak_empty; [|discriminate]. cbn [bind] in U.
    destruct (fdir_unpack d) as [f|]; [eexists; reflexivity|discriminate].
Qed.

Definition needs_eof d := proj1 (kind_unpack_needs_fdir d).
Definition needs_ack d := proj1 (proj2 (kind_unpack_needs_fdir d)).
Definition needs_prompt d := proj1 (proj2 (proj2 (kind_unpack_needs_fdir d))).
Definition needs_ka d := proj1 (proj2 (proj2 (proj2 (kind_unpack_needs_fdir d)))).
Definition needs_fin d := proj1 (proj2 (proj2 (proj2 (proj2 (kind_unpack_needs_fdir d))))).
Definition needs_md d := proj1 (proj2 (proj2 (proj2 (proj2 (proj2 (kind_unpack_needs_fdir d)))))).
Definition needs_nak d := proj2 (proj2 (proj2 (proj2 (proj2 (proj2 (kind_unpack_needs_fdir d)))))).

(* C09, factory: whatever buffer PduFactory.from_raw accepts, the returned PDU is the one it
   returns for the first packet_len octets alone - nothing behind the declared length reaches
   the result, for any of the eight kinds *)
Theorem fac_from_raw_no_fold_in d p h : wf_bytes d -> fac_from_raw d = Ok (Some p) -> hdr_unpack d = Ok h ->
  fac_from_raw (firstn (Z.to_nat (hdr_packet_len h)) d) = Ok (Some p).
Proof.
  intros W U Uh.
  destruct (hdr_pack_unpack d h W Uh) as (HV & Lhl & _).
  destruct (hdr_valid_packet_len h HV) as [Rhl Rpl].
  assert (Hn : hdr_header_len h <= hdr_packet_len h)
    by (unfold hdr_packet_len; pose proof (proj2 (proj2 (proj2 HV))); lia).
  set (d' := firstn (Z.to_nat (hdr_packet_len h)) d).
  assert (W' : wf_bytes d') by (apply wf_bytes_firstn; exact W).
  assert (Uh' : hdr_unpack d' = Ok h) by (apply hdr_unpack_firstn; [exact W|exact Uh|lia]).
  assert (I' : fac_is_file_directive d' = fac_is_file_directive d).
  { unfold fac_is_file_directive. rewrite (fac_pdu_type_unpack d h W Uh), (fac_pdu_type_unpack d' h W' Uh'). reflexivity. }
  unfold fac_from_raw in *. rewrite I'.
  destruct (fac_is_file_directive d) as [isd|] eqn:I; [|discriminate U]. cbn [bind] in *.
  destruct isd; cbn [negb] in *.
  2:{ destruct (FileData.fd_unpack d) as [q|] eqn:Uq; [|discriminate U]. cbn [bind] in U.
      unfold d'. rewrite (fd_no_fold_in_any d q h W Uq Uh). exact U. }
  destruct (fac_pdu_directive_type d) as [[t|]|] eqn:D; [|discriminate U|discriminate U]. cbn [bind] in U.
  (* the directive code is read inside the declared length as soon as one decoder accepts *)
  assert (KEY : forall f f', fdir_unpack d = Ok f -> fdir_unpack d' = Ok f' ->
                  fac_pdu_directive_type d' = Ok (Some t)).
  { intros f f' Uf Uf'.
    destruct (fdir_unpack_inv d f W Uf) as (_ & X & _). rewrite Uh in X. injection X as X.
    destruct (fdir_unpack_inv d' f' W' Uf') as (_ & X' & L' & _). rewrite Uh' in X'. injection X' as X'.
    assert (HL : fdir_header_len f <= hdr_packet_len h).
    { unfold fdir_header_len in *. rewrite <- X. rewrite <- X' in L'. unfold d', len in L'. rewrite firstn_length in L'. lia. }
    pose proof (fdir_unpack_firstn d f (Z.to_nat (hdr_packet_len h)) W Uf ltac:(lia)) as Uf2. fold d' in Uf2.
    rewrite (fac_directive_unpack d' f W' Uf2 I').
    rewrite <- (fac_directive_unpack d f W Uf I). exact D. }
  destruct (t =? DT_EOF) eqn:E1.
  { destruct (eof_unpack d) as [q|] eqn:Uq; [|discriminate U]. cbn [bind] in U.
    pose proof (eof_no_fold_in d q h W Uq Uh) as Uq'. fold d' in Uq'.
    destruct (needs_eof d q Uq) as (f & Uf). destruct (needs_eof d' q Uq') as (f' & Uf').
    rewrite (KEY f f' Uf Uf'). cbn [bind]. rewrite ?E1, ?E2, ?E3, ?E4, ?E5, ?E6, ?E7, Uq'. exact U. }
  destruct (t =? DT_METADATA) eqn:E2.
  { destruct (md_unpack d) as [q|] eqn:Uq; [|discriminate U]. cbn [bind] in U.
    pose proof (md_no_fold_in_any d q h W Uq Uh) as Uq'. fold d' in Uq'.
    destruct (needs_md d q Uq) as (f & Uf). destruct (needs_md d' q Uq') as (f' & Uf').
    rewrite (KEY f f' Uf Uf'). cbn [bind]. rewrite ?E1, ?E2, ?E3, ?E4, ?E5, ?E6, ?E7, Uq'. exact U. }
  destruct (t =? DT_FINISHED) eqn:E3.
  { destruct (fin_unpack d) as [q|] eqn:Uq; [|discriminate U]. cbn [bind] in U.
    pose proof (fin_no_fold_in_any d q h W Uq Uh) as Uq'. fold d' in Uq'.
    destruct (needs_fin d q Uq) as (f & Uf). destruct (needs_fin d' q Uq') as (f' & Uf').
    rewrite (KEY f f' Uf Uf'). cbn [bind]. rewrite ?E1, ?E2, ?E3, ?E4, ?E5, ?E6, ?E7, Uq'. exact U. }
  destruct (t =? DT_ACK) eqn:E4.
  { destruct (ack_unpack d) as [q|] eqn:Uq; [|discriminate U]. cbn [bind] in U.
    pose proof (ack_no_fold_in d q h W Uq Uh) as Uq'. fold d' in Uq'.
    destruct (needs_ack d q Uq) as (f & Uf). destruct (needs_ack d' q Uq') as (f' & Uf').
    rewrite (KEY f f' Uf Uf'). cbn [bind]. rewrite ?E1, ?E2, ?E3, ?E4, ?E5, ?E6, ?E7, Uq'. exact U. }
  destruct (t =? DT_NAK) eqn:E5.
  { destruct (nak_unpack d) as [q|] eqn:Uq; [|discriminate U]. cbn [bind] in U.
    destruct (nak_no_fold_in_any d q h W Uq Uh) as [_ Uq']. fold d' in Uq'.
    destruct (needs_nak d q Uq) as (f & Uf). destruct (needs_nak d' q Uq') as (f' & Uf').
    rewrite (KEY f f' Uf Uf'). cbn [bind]. rewrite ?E1, ?E2, ?E3, ?E4, ?E5, ?E6, ?E7, Uq'. exact U. }
  destruct (t =? DT_KEEP_ALIVE) eqn:E6.
  { destruct (ka_unpack d) as [q|] eqn:Uq; [|discriminate U]. cbn [bind] in U.
    pose proof (ka_no_fold_in d q h W Uq Uh) as Uq'. fold d' in Uq'.
    destruct (needs_ka d q Uq) as (f & Uf). destruct (needs_ka d' q Uq') as (f' & Uf').
    rewrite (KEY f f' Uf Uf'). cbn [bind]. rewrite ?E1, ?E2, ?E3, ?E4, ?E5, ?E6, ?E7, Uq'. exact U. }
  destruct (t =? DT_PROMPT) eqn:E7; [|discriminate U].
  destruct (prompt_unpack d) as [q|] eqn:Uq; [|discriminate U]. cbn [bind] in U.
  pose proof (prompt_no_fold_in d q h W Uq Uh) as Uq'. fold d' in Uq'.
  destruct (needs_prompt d q Uq) as (f & Uf). destruct (needs_prompt d' q Uq') as (f' & Uf').
  rewrite (KEY f f' Uf Uf'). cbn [bind]. rewrite ?E1, ?E2, ?E3, ?E4, ?E5, ?E6, ?E7, Uq'. exact U.
Qed.

(* ======================= non-vacuity (C09) ======================= *)
(* a Finished PDU followed by octets that look like one more filestore-response TLV *)
Definition c09_fin_buf : bytes := fin_layout (ex_conf 0 0) ex_fin ++ [1; 3; 1; 0; 0; 6; 1; 9].
Example fin_no_fold_in_example :
  wf_bytes c09_fin_buf /\
  exists p h, fin_unpack c09_fin_buf = Ok p /\ hdr_unpack c09_fin_buf = Ok h /\
    hdr_packet_len h = 35 /\ len c09_fin_buf = 43 /\
    length (fn_resps (fin_params p)) = 2%nat /\
    fin_unpack (firstn 35 c09_fin_buf) = Ok p.
Proof.
  split; [vm_compute; repeat constructor; discriminate|].
  eexists. eexists. split; [vm_compute; reflexivity|]. split; [vm_compute; reflexivity|].
  split; [reflexivity|]. split; [reflexivity|]. split; [reflexivity|]. vm_compute. reflexivity.
Qed.

(* a Metadata PDU (CRC flag set) followed by octets that look like one more option TLV *)
Definition c09_md_buf : bytes := md_layout (ex_conf 1 1) ex_md ex_opts ++ [5; 1; 7].
Example md_no_fold_in_example :
  wf_bytes c09_md_buf /\
  exists p h, md_unpack c09_md_buf = Ok p /\ hdr_unpack c09_md_buf = Ok h /\
    hdr_packet_len h = 35 /\ len c09_md_buf = 38 /\
    md_options p = ex_opts /\
    md_unpack (firstn 35 c09_md_buf) = Ok p.
Proof.
  split; [vm_compute; repeat constructor; discriminate|].
  eexists. eexists. split; [vm_compute; reflexivity|]. split; [vm_compute; reflexivity|].
  split; [reflexivity|]. split; [reflexivity|]. split; [reflexivity|]. vm_compute. reflexivity.
Qed.

(* the factory on the same two buffers and on a File Data PDU followed by a second PDU's start *)
Definition c09_fd_buf : bytes :=
  FileDataSpec.fd_layout fd_example_conf fd_example_params ++ [53; 0; 13; 155].
Example fac_no_fold_in_example :
  (exists p h, fac_from_raw c09_fin_buf = Ok (Some (PFinished p)) /\ hdr_unpack c09_fin_buf = Ok h /\
     fac_from_raw (firstn (Z.to_nat (hdr_packet_len h)) c09_fin_buf) = Ok (Some (PFinished p))) /\
  (exists p h, fac_from_raw c09_md_buf = Ok (Some (PMetadata p)) /\ hdr_unpack c09_md_buf = Ok h /\
     fac_from_raw (firstn (Z.to_nat (hdr_packet_len h)) c09_md_buf) = Ok (Some (PMetadata p))) /\
  (exists p h, fac_from_raw c09_fd_buf = Ok (Some (PFileData p)) /\ hdr_unpack c09_fd_buf = Ok h /\
     wf_bytes c09_fd_buf /\ fp_data (fd_params p) = [104; 105] /\
     fac_from_raw (firstn (Z.to_nat (hdr_packet_len h)) c09_fd_buf) = Ok (Some (PFileData p))).
Proof.
  split; [|split].
  - eexists. eexists. split; [vm_compute; reflexivity|]. split; [vm_compute; reflexivity|]. vm_compute. reflexivity.
  - eexists. eexists. split; [vm_compute; reflexivity|]. split; [vm_compute; reflexivity|]. vm_compute. reflexivity.
  - eexists. eexists. split; [vm_compute; reflexivity|]. split; [vm_compute; reflexivity|].
    split; [vm_compute; repeat constructor; discriminate|]. split; [reflexivity|]. vm_compute. reflexivity.
Qed.

(* two telecommands back to back: the first decodes as if alone, the reported length splits them,
   and the stream parser recovers both *)
From SP Require Import Model.SpacePacket Model.PusTc Spec.PusSpec Proofs.PusTcProofs
  Model.Parser Spec.ParserSpec Proofs.ParserProofs.
Definition c09_tc1 : bytes := tc_layout 17 1 2047 16383 65535 15 [1; 2; 255].
Definition c09_tc2 : bytes := tc_layout 3 25 2047 0 0 0 [].
Example tc_back_to_back_example :
  wf_bytes (c09_tc1 ++ c09_tc2) /\
  exists t u, tc_unpack (c09_tc1 ++ c09_tc2) = Ok t /\ tc_packet_len t = len c09_tc1 /\
    tc_unpack (firstn (Z.to_nat (tc_packet_len t)) (c09_tc1 ++ c09_tc2)) = Ok t /\
    tc_unpack c09_tc1 = Ok t /\
    tc_unpack (skipn (Z.to_nat (tc_packet_len t)) (c09_tc1 ++ c09_tc2)) = Ok u /\
    tc_packet_len u = len c09_tc2 /\
    Forall (wf_packet [8191]) [c09_tc1; c09_tc2] /\
    parse_buf [8191] (concat [c09_tc1; c09_tc2]) = Ok ([c09_tc1; c09_tc2], []).
Proof.
  split; [vm_compute; repeat constructor; discriminate|].
  eexists. eexists. split; [vm_compute; reflexivity|]. split; [reflexivity|].
  split; [vm_compute; reflexivity|]. split; [vm_compute; reflexivity|].
  split; [vm_compute; reflexivity|]. split; [reflexivity|].
  assert (F : Forall (wf_packet [8191]) [c09_tc1; c09_tc2]).
  { constructor; [|constructor; [|constructor]].
    - split; [vm_compute; repeat constructor; discriminate|].
      do 7 eexists. split; [vm_compute; reflexivity|]. split; reflexivity.
    - split; [vm_compute; repeat constructor; discriminate|].
      do 7 eexists. split; [vm_compute; reflexivity|]. split; reflexivity. }
  split; [exact F|]. apply parse_stream_complete. exact F.
Qed.

Example tlv_back_to_back_example :
  Forall tlv_ok [{| tlv_type := 6; tlv_value := [1; 2] |}; {| tlv_type := 2; tlv_value := [] |};
                 {| tlv_type := 5; tlv_value := [6; 2; 1; 2] |}] /\
  tlv_split 4 [6; 2; 1; 2;  2; 0;  5; 4; 6; 2; 1; 2] =
  Ok [{| tlv_type := 6; tlv_value := [1; 2] |}; {| tlv_type := 2; tlv_value := [] |};
      {| tlv_type := 5; tlv_value := [6; 2; 1; 2] |}].
Proof.
  split; [|vm_compute; reflexivity].
  repeat constructor; cbn [tlv_type tlv_value]; try reflexivity; vm_compute; discriminate.
Qed.
