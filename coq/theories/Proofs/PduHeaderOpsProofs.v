(* Setter lemmas for the operation histories of Model/PduHeaderOps.v (C11-style invariants of the
   CFDP header: what a value assignment to a byte field leaves behind, validity is kept by every
   well-formed operation, pack after any history is the layout of the current values). *)
From Coq Require Import ZArith List Bool Lia ZifyBool.
From SP Require Import Base.Result Base.Bytes Base.BytesFacts Model.PduHeader Model.PduHeaderOps
  Spec.PduHeaderSpec Proofs.PduHeaderProofs.
Import ListNotations.
Open Scope Z_scope.
Ltac Zify.zify_post_hook ::= Z.to_euclidean_division_equations.

(* ---- the value setter of a byte field ---- *)

(* int variant: accepted exactly for 0 <= v < 256^width; value replaced, width kept *)
Lemma ubf_set_int_spec u v : width_ok (ubf_len u) ->
  ubf_set_int u v =
  if (0 <=? v) && (v <? 256 ^ ubf_len u) then Ok {| ubf_val := v; ubf_len := ubf_len u |} else Err EValue.
Proof.
  intros W. unfold ubf_set_int, to_unsigned. rewrite (width_pow _ W).
  assert (A : byte_len_allowed (ubf_len u) = true) by (unfold byte_len_allowed, width_ok in *; lia).
  assert (Z0 : (ubf_len u =? 0) = false) by (unfold width_ok in W; lia).
  rewrite A, Z0. cbn [negb].
  destruct ((v >? 256 ^ ubf_len u - 1) || (v <? 0)) eqn:E.
  - destruct ((0 <=? v) && (v <? 256 ^ ubf_len u)) eqn:E2; [lia|reflexivity].
  - destruct ((0 <=? v) && (v <? 256 ^ ubf_len u)) eqn:E2; [|lia].
    destruct (v >? 256 ^ ubf_len u - 1) eqn:E3; [lia|].
    rewrite struct_pack_ok by (rewrite width_nat by assumption; lia). reflexivity.
Qed.

(* octets variant: refused when fewer octets than the width are given; otherwise the field's octets
   are EXACTLY the first `width` octets of the buffer (never the whole buffer), the value their
   big-endian number, the width unchanged *)
Theorem ubf_set_bytes_spec u b : width_ok (ubf_len u) -> wf_bytes b ->
  (len b < ubf_len u -> ubf_set_bytes u b = Err EValue) /\
  (ubf_len u <= len b ->
   exists u', ubf_set_bytes u b = Ok u' /\ ubf_len u' = ubf_len u /\
              ubf_val u' = be_decode (firstn (Z.to_nat (ubf_len u)) b) /\
              ubf_as_bytes u' = firstn (Z.to_nat (ubf_len u)) b /\ ubf_valid u').
Proof.
  intros W WF. unfold ubf_set_bytes. split.
  - intros L. destruct (len b <? ubf_len u) eqn:E; [reflexivity|lia].
  - intros L. destruct (len b <? ubf_len u) eqn:E; [lia|].
    assert (W0 : 0 <= ubf_len u) by (unfold width_ok in W; lia).
    rewrite slice_0_firstn.
    set (s := firstn (Z.to_nat (ubf_len u)) b).
    assert (LS : length s = Z.to_nat (ubf_len u)).
    { unfold s. rewrite firstn_length. unfold len in L. lia. }
    assert (WS : wf_bytes s) by (apply wf_bytes_firstn; exact WF).
    pose proof (be_decode_range s WS) as R. rewrite LS in R. rewrite (width_nat _ W) in R.
    rewrite (width_pow _ W).
    destruct ((be_decode s >? 256 ^ ubf_len u - 1) || (be_decode s <? 0)) eqn:E2; [lia|].
    eexists. split; [reflexivity|]. cbn [ubf_len ubf_val]. split; [reflexivity|]. split; [reflexivity|].
    split.
    + unfold ubf_as_bytes. cbn [ubf_len ubf_val]. rewrite <- LS. apply be_encode_decode. exact WS.
    + unfold ubf_valid. cbn [ubf_len ubf_val]. split; [exact W|lia].
Qed.

(* ---- well-formed operations keep a header valid ---- *)

Definition ubf_args_ok (v l : Z) : Prop := width_ok l /\ 0 <= v < 256 ^ l.

Definition hop_wf (h : PduHeader) (o : hdr_op) : Prop :=
  match o with
  | HSetType v | HSetMeta v | HSetLarge v | HSetCrc v | HSetMode v | HSetDir v | HSetSegctrl v => flag v
  | HSetDlen v => 0 <= v
  | HSetIds sv sl dv dl => ubf_args_ok sv sl /\ ubf_args_ok dv dl
  | HSetSeq v l => ubf_args_ok v l
  | HFieldInt w _ => 0 <= w <= 2
  | HFieldBytes w b => 0 <= w <= 2 /\ wf_bytes b
  | HConfField w v l => ubf_args_ok v l /\ (w = 2 \/ ((w = 0 \/ w = 1) /\ l = ubf_len (cf_src (h_conf h))))
  | HReplaceConf c => conf_valid c
  | HPack | HConfLen => True
  end.

Lemma conf_valid_src c u : conf_valid c -> ubf_valid u -> ubf_len u = ubf_len (cf_src c) -> conf_valid (conf_set_src c u).
Proof. unfold conf_valid, conf_set_src. cbn. intuition congruence. Qed.
Lemma conf_valid_dst c u : conf_valid c -> ubf_valid u -> ubf_len u = ubf_len (cf_src c) -> conf_valid (conf_set_dst c u).
Proof. unfold conf_valid, conf_set_dst. cbn. intuition congruence. Qed.
Lemma conf_valid_seq c u : conf_valid c -> ubf_valid u -> conf_valid (conf_set_seq c u).
Proof. unfold conf_valid, conf_set_seq. cbn. intuition. Qed.

Lemma ubf_set_int_valid u v u' : ubf_valid u -> ubf_set_int u v = Ok u' -> ubf_valid u' /\ ubf_len u' = ubf_len u.
Proof.
  intros [W R]. rewrite (ubf_set_int_spec u v W).
  destruct ((0 <=? v) && (v <? 256 ^ ubf_len u)) eqn:E; [|discriminate].
  intros X. injection X as <-. unfold ubf_valid. cbn [ubf_len ubf_val]. split; [split; [exact W|lia]|reflexivity].
Qed.

Lemma ubf_set_bytes_valid u b u' : ubf_valid u -> wf_bytes b -> ubf_set_bytes u b = Ok u' ->
  ubf_valid u' /\ ubf_len u' = ubf_len u.
Proof.
  intros [W R] WF E. destruct (ubf_set_bytes_spec u b W WF) as [A B].
  destruct (Z_lt_le_dec (len b) (ubf_len u)) as [L|L].
  - rewrite (A L) in E. discriminate.
  - destruct (B L) as (u2 & E2 & L2 & _ & _ & V2). rewrite E2 in E. injection E as <-. split; assumption.
Qed.

Lemma conf_field_cases c w u : 0 <= w <= 2 -> conf_get_field c w = Ok u ->
  (w = 0 /\ u = cf_src c) \/ (w = 1 /\ u = cf_dst c) \/ (w = 2 /\ u = cf_seq c).
Proof.
  intros R. unfold conf_get_field.
  destruct (w =? 0) eqn:E0; [intros X; injection X as <-; left; split; [lia|reflexivity]|].
  destruct (w =? 1) eqn:E1; [intros X; injection X as <-; right; left; split; [lia|reflexivity]|].
  destruct (w =? 2) eqn:E2; [intros X; injection X as <-; right; right; split; [lia|reflexivity]|lia].
Qed.

Lemma conf_set_field_valid c w u c' : conf_valid c -> ubf_valid u ->
  (w = 2 \/ ((w = 0 \/ w = 1) /\ ubf_len u = ubf_len (cf_src c))) ->
  conf_set_field c w u = Ok c' -> conf_valid c'.
Proof.
  intros V U C. unfold conf_set_field.
  destruct C as [-> | [[-> | ->] L]]; cbn [Z.eqb Pos.eqb]; intros X; injection X as <-.
  - apply conf_valid_seq; assumption.
  - apply conf_valid_src; assumption.
  - apply conf_valid_dst; assumption.
Qed.

Theorem hdr_step_valid h o h' out : hdr_valid h -> hop_wf h o -> hdr_step h o = Ok (h', out) -> hdr_valid h'.
Proof.
  intros V WF. pose proof V as (VC & VT & VM & VD).
  pose proof VC as (Vs & Vd & Vq & Vw & F1 & F2 & F3 & F4 & F5).
  destruct o; cbn [hdr_step hop_wf] in *.
  - intros X. injection X as <- _. unfold hdr_valid, hdr_set_type. cbn. intuition.
  - intros X. injection X as <- _. unfold hdr_valid, hdr_set_meta. cbn. intuition.
  - rewrite hdr_set_dlen_spec. destruct (v <=? 65535) eqn:E; [|discriminate]. cbn [bind].
    intros X. injection X as <- _. unfold hdr_valid. cbn. intuition lia.
  - destruct WF as [[W1 R1] [W2 R2]]. rewrite (ubf_new_ok sv sl W1 R1), (ubf_new_ok dv dl W2 R2). cbn [bind].
    rewrite hdr_set_entity_ids_spec. cbn [ubf_len].
    destruct (sl =? dl) eqn:E; [|discriminate]. cbn [bind]. intros X. injection X as <- _.
    unfold hdr_valid, hdr_with_conf, conf_valid, conf_set_src, conf_set_dst, ubf_valid. cbn.
    repeat split; try assumption; try lia; try apply Vq; try apply V.
  - destruct WF as [W R]. rewrite (ubf_new_ok v l W R). cbn [bind]. intros X. injection X as <- _.
    unfold hdr_set_seq, hdr_valid, hdr_with_conf. cbn [h_conf h_type h_meta h_dlen].
    split; [apply conf_valid_seq; [exact VC|unfold ubf_valid; cbn [ubf_len ubf_val]; split; [exact W|lia]]|intuition].
  - intros X. injection X as <- _. unfold hdr_valid, hdr_with_conf, conf_valid, conf_set_large. cbn. intuition.
  - intros X. injection X as <- _. unfold hdr_valid, hdr_with_conf, conf_valid, conf_set_crc. cbn. intuition.
  - intros X. injection X as <- _. unfold hdr_valid, hdr_with_conf, conf_valid, conf_set_mode. cbn. intuition.
  - intros X. injection X as <- _. unfold hdr_valid, hdr_with_conf, conf_valid, conf_set_dir. cbn. intuition.
  - intros X. injection X as <- _. unfold hdr_valid, hdr_with_conf, conf_valid, conf_set_segctrl. cbn. intuition.
  - destruct (conf_get_field (h_conf h) which) as [u|e] eqn:G; [|discriminate]. cbn [bind].
    destruct (ubf_set_int u v) as [u'|e] eqn:S; [|discriminate]. cbn [bind].
    destruct (conf_set_field (h_conf h) which u') as [c'|e] eqn:C; [|discriminate]. cbn [bind].
    intros X. injection X as <- _.
    assert (VU : ubf_valid u /\ (which = 2 \/ ((which = 0 \/ which = 1) /\ ubf_len u = ubf_len (cf_src (h_conf h))))).
    { destruct (conf_field_cases _ _ _ WF G) as [[-> ->] | [[-> ->] | [-> ->]]]; split; try assumption; intuition lia. }
    destruct VU as [VU CW]. destruct (ubf_set_int_valid u v u' VU S) as [VU' LU'].
    unfold hdr_valid, hdr_with_conf. cbn [h_conf h_type h_meta h_dlen].
    split; [|intuition]. eapply conf_set_field_valid; [exact VC|exact VU'| |exact C]. rewrite LU'. exact CW.
  - destruct WF as [WW WB].
    destruct (conf_get_field (h_conf h) which) as [u|e] eqn:G; [|discriminate]. cbn [bind].
    destruct (ubf_set_bytes u b) as [u'|e] eqn:S; [|discriminate]. cbn [bind].
    destruct (conf_set_field (h_conf h) which u') as [c'|e] eqn:C; [|discriminate]. cbn [bind].
    intros X. injection X as <- _.
    assert (VU : ubf_valid u /\ (which = 2 \/ ((which = 0 \/ which = 1) /\ ubf_len u = ubf_len (cf_src (h_conf h))))).
    { destruct (conf_field_cases _ _ _ WW G) as [[-> ->] | [[-> ->] | [-> ->]]]; split; try assumption; intuition lia. }
    destruct VU as [VU CW]. destruct (ubf_set_bytes_valid u b u' VU WB S) as [VU' LU'].
    unfold hdr_valid, hdr_with_conf. cbn [h_conf h_type h_meta h_dlen].
    split; [|intuition]. eapply conf_set_field_valid; [exact VC|exact VU'| |exact C]. rewrite LU'. exact CW.
  - destruct WF as [[W R] CW]. rewrite (ubf_new_ok v l W R). cbn [bind].
    destruct (conf_set_field (h_conf h) which _) as [c'|e] eqn:C; [|discriminate]. cbn [bind].
    intros X. injection X as <- _. unfold hdr_valid, hdr_with_conf. cbn [h_conf h_type h_meta h_dlen].
    split; [|intuition].
    assert (VU : ubf_valid {| ubf_val := v; ubf_len := l |}) by (unfold ubf_valid; cbn [ubf_len ubf_val]; split; [exact W|lia]).
    eapply conf_set_field_valid; [exact VC|exact VU| |exact C]. exact CW.
  - intros X. injection X as <- _. unfold hdr_valid, hdr_with_conf. cbn. intuition.
  - destruct (hdr_pack h) as [b|e]; [|discriminate]. cbn [bind]. intros X. injection X as <- _. exact V.
  - intros X. injection X as <- _. exact V.
Qed.

(* pack() inside a history: the standard's layout of the current values, header_len octets long,
   the header itself untouched *)
Theorem hdr_step_pack h : hdr_valid h ->
  hdr_step h HPack = Ok (h, hdr_layout h) /\ len (hdr_layout h) = hdr_header_len h.
Proof.
  intros V. split; [unfold hdr_step; rewrite (hdr_pack_layout h V); reflexivity|].
  apply (hdr_layout_length h V).
Qed.

(* a whole history of well-formed operations (refused ones leave the header as it was) *)
Fixpoint hdr_run (h : PduHeader) (ops : list hdr_op) : PduHeader :=
  match ops with
  | [] => h
  | o :: r => match hdr_step h o with Ok (h', _) => hdr_run h' r | Err _ => hdr_run h r end
  end.

Fixpoint hops_wf (h : PduHeader) (ops : list hdr_op) : Prop :=
  match ops with
  | [] => True
  | o :: r => hop_wf h o /\ match hdr_step h o with Ok (h', _) => hops_wf h' r | Err _ => hops_wf h r end
  end.

Theorem hdr_history_pack h ops : hdr_valid h -> hops_wf h ops ->
  let h' := hdr_run h ops in
  hdr_valid h' /\ hdr_pack h' = Ok (hdr_layout h') /\ len (hdr_layout h') = hdr_header_len h'.
Proof.
  revert h. induction ops as [|o r IH]; intros h V W; cbn [hdr_run hops_wf] in *.
  - split; [exact V|]. split; [apply hdr_pack_layout; exact V|]. apply (hdr_step_pack h V).
  - destruct W as [W1 W2]. destruct (hdr_step h o) as [[h1 out]|e] eqn:S.
    + apply IH; [eapply hdr_step_valid; eassumption|exact W2].
    + apply IH; assumption.
Qed.
