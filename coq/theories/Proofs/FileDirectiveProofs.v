(* Lemmas about Model/FileDirective.v (FileDirectivePduBase) that every directive PDU kind
   needs: constructor / setter, pack = header layout ++ [directive code], lengths,
   unpack of a layout followed by anything, the converse for every accepted octet string,
   totality (C10), prefix rejection, parse_fss_field, _verify_file_len and the two ways
   PduHeader.verify_length_and_checksum answers on a packed PDU (with / without CRC). *)
From Coq Require Import ZArith List Bool Lia ZifyBool.
From SP Require Import Base.Result Base.Bytes Base.BytesFacts Base.Crc16 Base.Crc16Facts
  Model.PduHeader Spec.PduHeaderSpec Proofs.PduHeaderProofs Model.FileDirective.
Import ListNotations.
Open Scope Z_scope.
Ltac Zify.zify_post_hook ::= Z.to_euclidean_division_equations.
Ltac list_eq := repeat (apply f_equal2; [lia|]); try reflexivity.

(* ================= the layout of the common part ================= *)

(* a file-directive base object whose header is a valid header and whose directive code is an octet *)
Definition fdir_valid (f : fdir) : Prop := hdr_valid (fd_hdr f) /\ 0 <= fd_type f < 256.

(* CCSDS 727.0-B-5 5.2: fixed PDU header, then the directive code octet *)
Definition fdir_layout (f : fdir) : bytes := hdr_layout (fd_hdr f) ++ [fd_type f].

(* the header a directive PDU with configuration c and n octets behind the directive code carries *)
Definition fdir_of (c : PduConfig) (code n : Z) : fdir :=
  {| fd_hdr := {| h_type := 0; h_meta := 0; h_dlen := n + 1; h_conf := c |}; fd_type := code |}.

(* number of octets of a file-size-sensitive field *)
Definition fss_n (c : PduConfig) : nat := if cf_large c =? 1 then 8%nat else 4%nat.

Lemma len_be_encode n v : len (be_encode n v) = Z.of_nat n.
Proof. unfold len. rewrite be_encode_length. reflexivity. Qed.

Lemma fss_n_cases c : flag (cf_large c) ->
  (cf_large c = 0 /\ fss_n c = 4%nat) \/ (cf_large c = 1 /\ fss_n c = 8%nat).
Proof. intros [L | L]; unfold fss_n; rewrite L; [left|right]; split; reflexivity. Qed.

(* ================= constructor, setter ================= *)

Lemma fdir_new_ok c code n : n + 1 <= 65535 -> ubf_len (cf_src c) = ubf_len (cf_dst c) ->
  fdir_new c code n = Ok (fdir_of c code n).
Proof.
  intros H1 H2. unfold fdir_new, PDU_FILE_DIRECTIVE, SEGMETA_NOT_PRESENT.
  rewrite hdr_new_ok by assumption. reflexivity.
Qed.

Lemma fdir_new_err c code n : ~ (n + 1 <= 65535 /\ ubf_len (cf_src c) = ubf_len (cf_dst c)) ->
  fdir_new c code n = Err EValue.
Proof.
  intros H. unfold fdir_new. destruct (hdr_new_spec PDU_FILE_DIRECTIVE SEGMETA_NOT_PRESENT (n + 1) c) as [_ E].
  rewrite E by assumption. reflexivity.
Qed.

Lemma fdir_set_param_len_spec f n :
  fdir_set_param_len f n =
  if n + 1 <=? 65535
  then Ok {| fd_hdr := {| h_type := h_type (fd_hdr f); h_meta := h_meta (fd_hdr f); h_dlen := n + 1;
                          h_conf := h_conf (fd_hdr f) |};
             fd_type := fd_type f |}
  else Err EValue.
Proof.
  unfold fdir_set_param_len. rewrite hdr_set_dlen_spec. destruct (n + 1 <=? 65535); reflexivity.
Qed.

Lemma fdir_set_param_len_of c code n m : m + 1 <= 65535 ->
  fdir_set_param_len (fdir_of c code n) m = Ok (fdir_of c code m).
Proof.
  intros H. rewrite fdir_set_param_len_spec. destruct (m + 1 <=? 65535) eqn:E; [reflexivity|lia].
Qed.

Lemma fdir_header_len_eq f : fdir_header_len f = hdr_header_len (fd_hdr f) + 1.
Proof. reflexivity. Qed.

Lemma fdir_of_valid c code n : conf_valid c -> 0 <= code < 256 -> 0 <= n + 1 <= 65535 ->
  fdir_valid (fdir_of c code n).
Proof.
  intros C R N. split; [|exact R]. unfold fdir_of, hdr_valid. cbn [fd_hdr h_type h_meta h_dlen h_conf].
  split; [exact C|]. unfold flag. lia.
Qed.

(* ================= pack = layout ================= *)

Theorem fdir_pack_layout f : fdir_valid f -> fdir_pack f = Ok (fdir_layout f).
Proof.
  intros [V R]. unfold fdir_pack. rewrite hdr_pack_layout by assumption. cbn [bind].
  rewrite ba_append_ok by assumption. reflexivity.
Qed.

Lemma fdir_layout_len f : fdir_valid f -> len (fdir_layout f) = fdir_header_len f.
Proof.
  intros [V _]. unfold fdir_layout. rewrite len_app. destruct (hdr_layout_length _ V) as [-> _].
  reflexivity.
Qed.

Lemma fdir_layout_wf f : fdir_valid f -> wf_bytes (fdir_layout f).
Proof.
  intros [V R]. unfold fdir_layout. apply wf_bytes_app. split; [apply hdr_layout_wf; exact V|].
  constructor; [exact R|constructor].
Qed.

Lemma fdir_header_len_range f : fdir_valid f -> 8 <= fdir_header_len f <= 29.
Proof. intros [V _]. pose proof (hdr_valid_packet_len _ V). unfold fdir_header_len. lia. Qed.

(* ================= unpack (layout ++ rest) ================= *)

Lemma fdir_eta f : {| fd_hdr := fd_hdr f; fd_type := fd_type f |} = f.
Proof. destruct f; reflexivity. Qed.

Theorem fdir_unpack_layout f rest : fdir_valid f -> wf_bytes rest ->
  fdir_unpack (fdir_layout f ++ rest) = Ok f.
Proof.
  intros [V R] W. unfold fdir_unpack, fdir_layout. rewrite <- app_assoc.
  rewrite hdr_unpack_pack; [|exact V|apply wf_bytes_app; split; [constructor; [exact R|constructor]|exact W]].
  cbn [bind]. destruct (hdr_layout_length _ V) as [L _].
  pose proof (len_nonneg rest) as Lr.
  rewrite len_app, L, len_app. change (len [fd_type f]) with 1.
  destruct (hdr_header_len (fd_hdr f) + 1 >? hdr_header_len (fd_hdr f) + (1 + len rest)) eqn:E; [lia|].
  rewrite py_get_app_r by lia.
  replace (hdr_header_len (fd_hdr f) + 1 - 1 - len (hdr_layout (fd_hdr f))) with 0 by lia.
  cbn [app]. rewrite py_get_cons_0. cbn [bind]. rewrite fdir_eta. reflexivity.
Qed.

(* ================= every accepted octet string ================= *)

Lemma wf_in (d : bytes) b : wf_bytes d -> In b d -> 0 <= b < 256.
Proof. intros W I. unfold wf_bytes in W. rewrite Forall_forall in W. apply W. exact I. Qed.

Lemma firstn_succ_get (d : bytes) n b : py_get d (Z.of_nat n) = Ok b ->
  firstn (S n) d = firstn n d ++ [b].
Proof.
  unfold py_get. destruct (Z.of_nat n <? 0) eqn:E; [lia|]. rewrite Nat2Z.id. clear E.
  revert d. induction n as [|n IH]; intros d H.
  - destruct d; [discriminate|]. cbn in H. injection H as ->. reflexivity.
  - destruct d as [|x d]; [discriminate|]. cbn [nth_error] in H.
    change (firstn (S (S n)) (x :: d)) with (x :: firstn (S n) d). rewrite (IH d H). reflexivity.
Qed.

Theorem fdir_unpack_inv d f : wf_bytes d -> fdir_unpack d = Ok f ->
  fdir_valid f /\ hdr_unpack d = Ok (fd_hdr f) /\ fdir_header_len f <= len d /\
  fdir_layout f = firstn (Z.to_nat (fdir_header_len f)) d.
Proof.
  intros W U. unfold fdir_unpack in U. apply bind_ok in U. destruct U as (h & Uh & U).
  destruct (hdr_header_len h + 1 >? len d) eqn:E; [discriminate|].
  apply bind_ok in U. destruct U as (t & Ut & U). injection U as <-. cbn [fd_hdr fd_type].
  destruct (hdr_pack_unpack d h W Uh) as (V & L & LY & _).
  pose proof (hdr_valid_packet_len _ V) as [HL _].
  replace (hdr_header_len h + 1 - 1) with (hdr_header_len h) in Ut by lia.
  destruct (py_get_in_range d (hdr_header_len h) ltac:(lia)) as (b & Gb & Ib). rewrite Gb in Ut.
  injection Ut as <-.
  split; [split; [exact V|apply (wf_in d); assumption]|]. split; [exact Uh|]. split; [unfold fdir_header_len; cbn [fd_hdr]; lia|].
  unfold fdir_layout, fdir_header_len. cbn [fd_hdr fd_type].
  replace (Z.to_nat (hdr_header_len h + 1)) with (S (Z.to_nat (hdr_header_len h))) by lia.
  rewrite (firstn_succ_get d _ b) by (rewrite Z2Nat.id by lia; exact Gb).
  rewrite LY. reflexivity.
Qed.

(* the error classes of the header decoder *)
Lemma hdr_unpack_err d e : wf_bytes d -> hdr_unpack d = Err e ->
  e = ETooShort \/ e = EValue \/ e = EVersion.
Proof.
  intros W. rewrite hdr_unpack_spec by assumption. unfold hdr_decode_spec.
  destruct d as [|b0 [|b1 [|b2 [|b3 tl]]]]; try (intros H; injection H as <-; auto).
  repeat match goal with |- context [if ?c then _ else _] => destruct c end;
    intros H; try discriminate; injection H as <-; auto.
Qed.

Lemma fdir_unpack_err d e : wf_bytes d -> fdir_unpack d = Err e ->
  e = ETooShort \/ e = EValue \/ e = EVersion.
Proof.
  intros W U. unfold fdir_unpack in U.
  destruct (hdr_unpack d) as [h|e'] eqn:Uh; [|cbn [bind] in U; injection U as <-; apply (hdr_unpack_err d); assumption].
  cbn [bind] in U. destruct (hdr_header_len h + 1 >? len d) eqn:E; [injection U as <-; auto|].
  destruct (hdr_pack_unpack d h W Uh) as (V & L & _).
  pose proof (hdr_valid_packet_len _ V) as [HL _].
  destruct (py_get_in_range d (hdr_header_len h + 1 - 1) ltac:(lia)) as (b & Gb & _).
  rewrite Gb in U. discriminate.
Qed.

(* C10: FileDirectivePduBase.unpack on every octet string *)
Theorem fdir_unpack_total d : wf_bytes d -> ok_or_documented (fdir_unpack d).
Proof.
  intros W. destruct (fdir_unpack d) as [f|e] eqn:U; [exact I|].
  destruct (fdir_unpack_err d e W U) as [-> | [-> | ->]]; reflexivity.
Qed.

(* C09 *)
Theorem fdir_no_overread d f : wf_bytes d -> fdir_unpack d = Ok f ->
  fdir_unpack (firstn (Z.to_nat (fdir_header_len f)) d) = Ok f.
Proof.
  intros W U. destruct (fdir_unpack_inv d f W U) as (V & _ & _ & LY).
  rewrite <- LY. rewrite <- (app_nil_r (fdir_layout f)). apply fdir_unpack_layout; [exact V|constructor].
Qed.

Theorem fdir_suffix_irrelevant f s : fdir_valid f -> wf_bytes s ->
  fdir_unpack (fdir_layout f ++ s) = fdir_unpack (fdir_layout f).
Proof.
  intros V W. rewrite fdir_unpack_layout by assumption.
  symmetry. rewrite <- (app_nil_r (fdir_layout f)). apply fdir_unpack_layout; [exact V|constructor].
Qed.

(* every strict prefix of a packed base is refused with a documented error *)
Theorem fdir_prefix_rejected f n : fdir_valid f -> (n < length (fdir_layout f))%nat ->
  exists e, fdir_unpack (firstn n (fdir_layout f)) = Err e /\ documented e = true.
Proof.
  intros V L. pose proof (fdir_layout_wf f V) as W.
  assert (Wp : wf_bytes (firstn n (fdir_layout f))) by (apply wf_bytes_firstn; exact W).
  pose proof (fdir_unpack_total _ Wp) as T.
  destruct (fdir_unpack (firstn n (fdir_layout f))) as [f'|e] eqn:U; [|exists e; split; [reflexivity|exact T]].
  exfalso. destruct (fdir_unpack_inv _ _ Wp U) as (V' & _ & L' & LY').
  assert (E : fdir_layout f = fdir_layout f' ++ skipn (Z.to_nat (fdir_header_len f')) (fdir_layout f)).
  { rewrite LY'. rewrite firstn_firstn.
    replace (Nat.min (Z.to_nat (fdir_header_len f')) n) with (Z.to_nat (fdir_header_len f')).
    - symmetry. apply firstn_skipn.
    - unfold len in L'. rewrite firstn_length in L'. lia. }
  assert (U2 : fdir_unpack (fdir_layout f) = Ok f').
  { rewrite E. apply fdir_unpack_layout; [exact V'|]. apply wf_bytes_skipn. exact W. }
  rewrite <- (app_nil_r (fdir_layout f)) in U2.
  rewrite fdir_unpack_layout in U2 by (try assumption; constructor).
  injection U2 as <-.
  pose proof (fdir_layout_len f V) as LL. unfold len in LL, L'. rewrite firstn_length in L'. lia.
Qed.

(* a prefix that does not even hold the common part: refused whatever follows in the PDU *)
Lemma fdir_unpack_short_prefix f n (tail : bytes) : fdir_valid f -> wf_bytes tail ->
  (n < length (fdir_layout f))%nat ->
  exists e, fdir_unpack (firstn n (fdir_layout f ++ tail)) = Err e /\ documented e = true.
Proof.
  intros V W L. rewrite firstn_app_le by lia. apply fdir_prefix_rejected; assumption.
Qed.

(* ================= parse_fss_field, _verify_file_len ================= *)

Lemma fdir_parse_fss_spec f raw idx : 0 <= idx -> flag (cf_large (h_conf (fd_hdr f))) ->
  let n := Z.of_nat (fss_n (h_conf (fd_hdr f))) in
  fdir_parse_fss f raw idx =
  if idx + n >? len raw then Err ETooShort
  else Ok (idx + n, be_decode (slice raw idx (idx + n))).
Proof.
  intros I F. cbv zeta. unfold fdir_parse_fss, hdr_large_file, FILE_LARGE.
  destruct (fss_n_cases _ F) as [[L N] | [L N]]; rewrite L, N; cbn [Z.eqb Pos.eqb].
  - change (Z.of_nat 4) with 4. destruct (idx + 4 >? len raw) eqn:E; [reflexivity|].
    rewrite struct_unpack_ok; [reflexivity|]. rewrite slice_length by lia. lia.
  - change (Z.of_nat 8) with 8. destruct (idx + 8 >? len raw) eqn:E; [reflexivity|].
    rewrite struct_unpack_ok; [reflexivity|]. rewrite slice_length by lia. lia.
Qed.

(* on pre ++ be n v ++ rest, at index |pre| *)
Lemma fdir_parse_fss_layout f (pre rest : bytes) v : flag (cf_large (h_conf (fd_hdr f))) ->
  let n := fss_n (h_conf (fd_hdr f)) in
  0 <= v < 256 ^ Z.of_nat n ->
  fdir_parse_fss f (pre ++ be_encode n v ++ rest) (len pre) = Ok (len pre + Z.of_nat n, v).
Proof.
  intros F n R. pose proof (len_nonneg pre) as Lp. pose proof (len_nonneg rest) as Lr.
  rewrite fdir_parse_fss_spec by assumption. fold n.
  rewrite !len_app, len_be_encode.
  destruct (len pre + Z.of_nat n >? len pre + (Z.of_nat n + len rest)) eqn:E; [lia|].
  rewrite (slice_mid pre (be_encode n v) rest) by (rewrite ?len_be_encode; lia).
  rewrite be_decode_encode by exact R. reflexivity.
Qed.

Lemma fdir_verify_file_len_spec f v : flag (cf_large (h_conf (fd_hdr f))) ->
  fdir_verify_file_len f v =
  if (if cf_large (h_conf (fd_hdr f)) =? 1 then v >? 2 ^ 64 - 1 else v >? 2 ^ 32 - 1) then Err EValue else Ok tt.
Proof.
  intros [L | L]; unfold fdir_verify_file_len, hdr_large_file, FILE_LARGE; rewrite L; cbn [Z.eqb Pos.eqb andb negb];
    match goal with |- context [?a >? ?b] => destruct (a >? b) end; reflexivity.
Qed.

(* ================= verify_length_and_checksum on a packed PDU ================= *)

(* what acceptance means *)
Lemma hdr_verify_accept h d pl : 2 <= hdr_packet_len h ->
  hdr_verify_length_and_checksum h d = Ok pl ->
  pl = hdr_packet_len h /\ pl <= len d /\
  (cf_crc (h_conf h) = 1 -> crc16 (firstn (Z.to_nat pl) d) = 0).
Proof.
  intros P. rewrite hdr_verify_spec by assumption.
  destruct (len d <? hdr_packet_len h) eqn:L; [discriminate|].
  destruct (cf_crc (h_conf h) =? 1) eqn:C; cbn [andb].
  - destruct (crc16 (firstn (Z.to_nat (hdr_packet_len h)) d) =? 0) eqn:Z0; cbn [negb]; [|discriminate].
    intros H. injection H as <-. repeat split; lia.
  - intros H. injection H as <-. repeat split; lia.
Qed.

Lemma hdr_verify_err h d e : 2 <= hdr_packet_len h ->
  hdr_verify_length_and_checksum h d = Err e -> e = ETooShort \/ e = ECrc.
Proof.
  intros P. rewrite hdr_verify_spec by assumption.
  repeat match goal with |- context [if ?c then _ else _] => destruct c end;
    intros H; try discriminate; injection H as <-; auto.
Qed.

(* a PDU without CRC flag whose declared length fits in the buffer *)
Lemma hdr_verify_nocrc h d : 2 <= hdr_packet_len h -> cf_crc (h_conf h) = 0 ->
  hdr_packet_len h <= len d ->
  hdr_verify_length_and_checksum h d = Ok (hdr_packet_len h).
Proof.
  intros P C L. rewrite hdr_verify_spec by assumption. rewrite C. cbn [Z.eqb andb].
  destruct (len d <? hdr_packet_len h) eqn:E; [lia|reflexivity].
Qed.

(* a PDU with CRC flag: pre ++ crc16 pre ++ anything, declared length |pre| + 2 *)
Lemma hdr_verify_crc h (pre rest : bytes) : wf_bytes pre -> cf_crc (h_conf h) = 1 ->
  hdr_packet_len h = len pre + 2 ->
  hdr_verify_length_and_checksum h ((pre ++ be_encode 2 (crc16 pre)) ++ rest) = Ok (hdr_packet_len h).
Proof.
  intros W C L. pose proof (len_nonneg pre) as Lp. pose proof (len_nonneg rest) as Lr.
  rewrite hdr_verify_spec by lia. rewrite C. cbn [Z.eqb Pos.eqb andb].
  rewrite !len_app, len_be_encode.
  destruct (len pre + Z.of_nat 2 + len rest <? hdr_packet_len h) eqn:E; [lia|].
  rewrite firstn_app_exact by (rewrite app_length, be_encode_length; unfold len in L; lia).
  rewrite crc_residue by exact W. reflexivity.
Qed.

(* too short for its declared length *)
Lemma hdr_verify_short h d : len d < hdr_packet_len h ->
  hdr_verify_length_and_checksum h d = Err ETooShort.
Proof.
  intros L. unfold hdr_verify_length_and_checksum.
  destruct (len d <? hdr_packet_len h) eqn:E; [reflexivity|lia].
Qed.

(* struct.pack("!H", crc16 m) never fails on octets *)
Lemma struct_pack_crc m : wf_bytes m -> struct_pack 2 (crc16 m) = Ok (be_encode 2 (crc16 m)).
Proof.
  intros W. pose proof (crc16_range m W) as R. unfold in16 in R.
  apply struct_pack_ok. change (256 ^ Z.of_nat 2) with 65536. lia.
Qed.

(* non-vacuity *)
Example fdir_example :
  let f := fdir_of {| cf_src := {| ubf_val := 258; ubf_len := 2 |}; cf_dst := {| ubf_val := 772; ubf_len := 2 |};
                     cf_seq := {| ubf_val := 5; ubf_len := 1 |};
                     cf_mode := 1; cf_large := 1; cf_crc := 0; cf_dir := 0; cf_segctrl := 0 |} 4 9 in
  fdir_layout f = [37; 0; 10; 16; 1; 2; 5; 3; 4; 4] /\ fdir_unpack (fdir_layout f ++ [7; 7]) = Ok f.
Proof. vm_compute. split; reflexivity. Qed.
