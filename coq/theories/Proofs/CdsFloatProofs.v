(* Proofs about the float views of CDS short timestamps (C14): on the integer binary64
   arithmetic of Model/CdsSoftFloat.v, as_unix_seconds is within 2^-21 s of the exact instant
   and as_datetime is the exact instant at microsecond resolution, for every valid timestamp. *)
From Coq Require Import ZArith List Bool Lia ZifyBool.
From SP Require Import Base.Result Base.Bytes Model.Cds Model.CdsSoftFloat Model.CdsFloat Spec.CdsSpec Proofs.CdsProofs.
Import ListNotations.
Open Scope Z_scope.

(* ================= powers of two ================= *)
Lemma pow2_pos k : 0 <= k -> 0 < 2 ^ k.
Proof. intros. apply Z.pow_pos_nonneg; lia. Qed.
Lemma pow2_add a b : 0 <= a -> 0 <= b -> 2 ^ (a + b) = 2 ^ a * 2 ^ b.
Proof. intros. apply Z.pow_add_r; assumption. Qed.
Lemma pow2_le a b : 0 <= a <= b -> 2 ^ a <= 2 ^ b.
Proof. intros. apply Z.pow_le_mono_r; lia. Qed.
Lemma pow2_lt_inv a b : 0 <= b -> 2 ^ a < 2 ^ b -> a < b.
Proof. intros Hb H. apply (Z.pow_lt_mono_r_iff 2); [lia|assumption|assumption]. Qed.
Lemma log2_bounds a : 0 < a -> 0 <= Z.log2 a /\ 2 ^ Z.log2 a <= a < 2 * 2 ^ Z.log2 a.
Proof.
  intros H. pose proof (Z.log2_spec a H) as S. pose proof (Z.log2_nonneg a).
  rewrite Z.pow_succ_r in S by assumption. lia.
Qed.

(* ================= rounding: error at most half a unit in the last place ================= *)

(* n/d with |n/d| < 2^k, 0 <= k <= 52: the result is sgn(n) * m * 2^e with e <= k - 53 and
   |m - |n/d| * 2^-e| <= 1/2 (m = 2^53 is renormalised to 2^52 * 2^(e+1)) *)
Lemma rne_neg n d k :
  0 < d -> n <> 0 -> Z.abs n < d * 2 ^ k -> 0 <= k <= 52 ->
  exists e m, e < 0 /\ e <= k - 53 /\ 2 ^ 52 <= m <= 2 ^ 53 /\
    Z.abs (2 * (m * d - Z.abs n * 2 ^ (- e))) <= d /\
    ((m < 2 ^ 53 /\ rne n d = {| fm := Z.sgn n * m; fe := e |}) \/
     (m = 2 ^ 53 /\ rne n d = {| fm := Z.sgn n * 2 ^ 52; fe := e + 1 |})).
Proof.
  intros Hd Hn Hk Hkr. unfold rne.
  destruct (n =? 0) eqn:En; [lia|].
  set (a := Z.abs n) in *. assert (Ha : 0 < a) by lia.
  destruct (log2_bounds a Ha) as [Hla La]. destruct (log2_bounds d Hd) as [Hld Ld].
  set (la := Z.log2 a) in *. set (ld := Z.log2 d) in *.
  pose proof (pow2_pos k ltac:(lia)) as Pk.
  assert (Hlk : la - ld <= k).
  { assert (2 ^ la < 2 ^ (ld + 1 + k)).
    { rewrite !pow2_add by lia. change (2 ^ 1) with 2. nia. }
    apply pow2_lt_inv in H; lia. }
  set (e0 := la - ld - 53).
  assert (He0 : e0 < 0) by lia.
  assert (S0 : scale2 a d e0 = (a * 2 ^ (- e0), d)).
  { unfold scale2. destruct (0 <=? e0) eqn:E; [lia|reflexivity]. }
  rewrite S0. cbv iota beta.
  set (P := 2 ^ (- e0)).
  assert (PA : P * 2 ^ la = 2 ^ 53 * 2 ^ ld).
  { unfold P. rewrite <- !pow2_add by lia. f_equal. lia. }
  assert (PP : 0 < P) by (apply pow2_pos; lia).
  pose proof (pow2_pos la Hla) as PLa. pose proof (pow2_pos ld Hld) as PLd.
  assert (Lo : 2 ^ 52 * d < a * P) by nia.
  assert (Hi : a * P < 2 ^ 54 * d).
  { change (2 ^ 54) with (2 * 2 ^ 53). nia. }
  destruct (a * P / d <? 2 ^ 53) eqn:C.
  - (* exponent e0 *)
    rewrite S0. cbv iota beta. fold P.
    set (p := a * P) in *.
    assert (M1 : 2 ^ 52 <= p / d) by (apply Z.div_le_lower_bound; lia).
    assert (M2 : p / d < 2 ^ 53) by lia.
    pose proof (Z.div_mod p d ltac:(lia)) as DM. pose proof (Z.mod_pos_bound p d Hd) as MB.
    set (m := p / d) in *. set (r := p mod d) in *.
    exists e0.
    destruct (2 * r <? d) eqn:C1; [|destruct (d <? 2 * r) eqn:C2; [|destruct (Z.even m) eqn:C3]].
    + exists m. destruct (m =? 2 ^ 53) eqn:C4; [lia|].
      repeat split; try lia. left. split; [lia|reflexivity].
    + exists (m + 1). destruct (m + 1 =? 2 ^ 53) eqn:C4.
      * repeat split; try lia. right. split; [lia|reflexivity].
      * repeat split; try lia. left. split; [lia|reflexivity].
    + exists m. destruct (m =? 2 ^ 53) eqn:C4; [lia|].
      repeat split; try lia. left. split; [lia|reflexivity].
    + exists (m + 1). destruct (m + 1 =? 2 ^ 53) eqn:C4.
      * repeat split; try lia. right. split; [lia|reflexivity].
      * repeat split; try lia. left. split; [lia|reflexivity].
  - (* exponent e0 + 1 *)
    assert (C' : 2 ^ 53 <= a * P / d) by lia.
    assert (Hp0 : 2 ^ 53 * d <= a * P).
    { pose proof (Z.mul_div_le (a * P) d Hd). nia. }
    assert (He1 : e0 <= k - 54).
    { destruct (Z_le_dec e0 (k - 54)) as [L|L]; [exact L|exfalso].
      assert (E : - e0 = 53 - k) by lia.
      assert (P * 2 ^ k = 2 ^ 53).
      { unfold P. rewrite E, <- pow2_add by lia. f_equal. lia. }
      nia. }
    assert (S1 : scale2 a d (e0 + 1) = (a * 2 ^ (- (e0 + 1)), d)).
    { unfold scale2. destruct (0 <=? e0 + 1) eqn:E; [lia|reflexivity]. }
    rewrite S1. cbv iota beta.
    set (P' := 2 ^ (- (e0 + 1))).
    assert (PP' : P = 2 * P').
    { unfold P, P'. replace (- e0) with (Z.succ (- (e0 + 1))) by lia.
      rewrite Z.pow_succ_r by lia. reflexivity. }
    set (p := a * P') in *.
    assert (M1 : 2 ^ 52 <= p / d).
    { apply Z.div_le_lower_bound; [lia|]. change (2 ^ 53) with (2 * 2 ^ 52) in Hp0. nia. }
    assert (M2 : p / d < 2 ^ 53).
    { apply Z.div_lt_upper_bound; [lia|]. change (2 ^ 54) with (2 * 2 ^ 53) in Hi. nia. }
    pose proof (Z.div_mod p d ltac:(lia)) as DM. pose proof (Z.mod_pos_bound p d Hd) as MB.
    set (m := p / d) in *. set (r := p mod d) in *.
    exists (e0 + 1).
    destruct (2 * r <? d) eqn:C1; [|destruct (d <? 2 * r) eqn:C2; [|destruct (Z.even m) eqn:C3]].
    + exists m. destruct (m =? 2 ^ 53) eqn:C4; [lia|].
      repeat split; try lia. left. split; [lia|reflexivity].
    + exists (m + 1). destruct (m + 1 =? 2 ^ 53) eqn:C4.
      * repeat split; try lia. right. split; [lia|reflexivity].
      * repeat split; try lia. left. split; [lia|reflexivity].
    + exists m. destruct (m =? 2 ^ 53) eqn:C4; [lia|].
      repeat split; try lia. left. split; [lia|reflexivity].
    + exists (m + 1). destruct (m + 1 =? 2 ^ 53) eqn:C4.
      * repeat split; try lia. right. split; [lia|reflexivity].
      * repeat split; try lia. left. split; [lia|reflexivity].
Qed.

(* ================= rounding is exact on representable values ================= *)

Lemma rne_exact n j : n <> 0 -> Z.abs n < 2 ^ 53 -> 0 <= j ->
  rne n (2 ^ j) = {| fm := n * 2 ^ (52 - Z.log2 (Z.abs n)); fe := Z.log2 (Z.abs n) - 52 - j |}.
Proof.
  intros Hn Hb Hj. unfold rne.
  destruct (n =? 0) eqn:En; [lia|].
  set (a := Z.abs n) in *. assert (Ha : 0 < a) by lia.
  destruct (log2_bounds a Ha) as [Hla La].
  rewrite Z.log2_pow2 by assumption.
  set (la := Z.log2 a) in *.
  assert (Hla2 : la <= 52).
  { assert (2 ^ la < 2 ^ 53) by lia. apply pow2_lt_inv in H; lia. }
  pose proof (pow2_pos j Hj) as Pj. pose proof (pow2_pos la Hla) as PLa.
  set (e0 := la - j - 53).
  assert (S0 : scale2 a (2 ^ j) e0 = (a * 2 ^ (53 - la) * 2 ^ j, 2 ^ j)).
  { unfold scale2. destruct (0 <=? e0) eqn:E; [lia|].
    f_equal. rewrite <- Z.mul_assoc, <- pow2_add by lia. f_equal. f_equal. lia. }
  rewrite S0. cbv iota beta. rewrite Z.div_mul by lia.
  assert (Q53 : 2 ^ (53 - la) * 2 ^ la = 2 ^ 53) by (rewrite <- pow2_add by lia; f_equal; lia).
  assert (Q52 : 2 ^ (52 - la) * 2 ^ la = 2 ^ 52) by (rewrite <- pow2_add by lia; f_equal; lia).
  pose proof (pow2_pos (53 - la) ltac:(lia)). pose proof (pow2_pos (52 - la) ltac:(lia)).
  destruct (a * 2 ^ (53 - la) <? 2 ^ 53) eqn:C; [nia|].
  set (m' := a * 2 ^ (52 - la)).
  assert (S1 : exists q, 0 < q /\ scale2 a (2 ^ j) (e0 + 1) = (m' * q, q)).
  { unfold scale2. destruct (0 <=? e0 + 1) eqn:E.
    - assert (la = 52) by lia. assert (j = 0) by lia. subst j. exists 1. split; [lia|].
      replace (e0 + 1) with 0 by lia. unfold m'. replace (52 - la) with 0 by lia.
      change (2 ^ 0) with 1. f_equal; lia.
    - exists (2 ^ j). split; [lia|]. f_equal. unfold m'.
      rewrite <- Z.mul_assoc, <- pow2_add by lia. f_equal. f_equal. lia. }
  destruct S1 as (q & Hq & S1). rewrite S1. cbv iota beta.
  rewrite Z.div_mul, Z.mod_mul by lia.
  destruct (2 * 0 <? q) eqn:C1; [|lia].
  assert (Hm' : m' < 2 ^ 53) by (unfold m'; change (2 ^ 53) with (2 * 2 ^ 52); nia).
  destruct (m' =? 2 ^ 53) eqn:C2; [lia|].
  f_equal; [|lia]. unfold m'. rewrite Z.mul_assoc. f_equal. unfold a. destruct n; cbn; lia.
Qed.

Lemma rne_exact_val n j : n <> 0 -> Z.abs n < 2 ^ 53 -> 0 <= j ->
  let r := rne n (2 ^ j) in
  fe r <= - j /\ fm r * 2 ^ j = n * 2 ^ (- fe r) /\ 2 ^ 52 <= Z.abs (fm r) < 2 ^ 53 /\
  (0 < n -> 0 < fm r) /\ (n < 0 -> fm r < 0).
Proof.
  intros Hn Hb Hj. cbv zeta. rewrite rne_exact by assumption. cbn [fm fe].
  set (a := Z.abs n) in *. assert (Ha : 0 < a) by lia.
  destruct (log2_bounds a Ha) as [Hla La]. set (la := Z.log2 a) in *.
  assert (Hla2 : la <= 52).
  { assert (2 ^ la < 2 ^ 53) by lia. apply pow2_lt_inv in H; lia. }
  pose proof (pow2_pos (52 - la) ltac:(lia)) as PQ. pose proof (pow2_pos la Hla).
  assert (Q52 : 2 ^ (52 - la) * 2 ^ la = 2 ^ 52) by (rewrite <- pow2_add by lia; f_equal; lia).
  split; [lia|]. split.
  - replace (- (la - 52 - j)) with ((52 - la) + j) by lia. rewrite pow2_add by lia. ring.
  - rewrite Z.abs_mul. fold a. rewrite (Z.abs_eq (2 ^ (52 - la))) by lia.
    change (2 ^ 53) with (2 * 2 ^ 52). split; [nia|]. split; intros; nia.
Qed.

(* the same for a fraction n/d equal to N/D *)
Lemma rne_ratio n d N D k :
  0 < d -> 0 < D -> n * D = N * d -> N <> 0 -> Z.abs N < D * 2 ^ k -> 0 <= k <= 52 ->
  exists e m, e < 0 /\ e <= k - 53 /\ 2 ^ 52 <= m <= 2 ^ 53 /\
    Z.abs (2 * (m * D - Z.abs N * 2 ^ (- e))) <= D /\
    ((m < 2 ^ 53 /\ rne n d = {| fm := Z.sgn N * m; fe := e |}) \/
     (m = 2 ^ 53 /\ rne n d = {| fm := Z.sgn N * 2 ^ 52; fe := e + 1 |})).
Proof.
  intros Hd HD E HN Hb Hk.
  assert (Hn : n <> 0) by nia.
  assert (Hs : Z.sgn n = Z.sgn N) by nia.
  assert (Ea : Z.abs n * D = Z.abs N * d) by nia.
  pose proof (pow2_pos k ltac:(lia)) as Pk.
  assert (Hb' : Z.abs n < d * 2 ^ k) by nia.
  destruct (rne_neg n d k Hd Hn Hb' Hk) as (e & m & He & Hek & Hm & Herr & Hr).
  exists e, m. rewrite Hs in Hr. repeat split; try lia; [|exact Hr].
  set (W := 2 ^ (- e)) in *.
  apply (Z.mul_le_mono_pos_l _ _ d Hd).
  replace (d * Z.abs (2 * (m * D - Z.abs N * W))) with (D * Z.abs (2 * (m * d - Z.abs n * W))).
  - nia.
  - rewrite <- (Z.abs_eq D) at 1 by lia. rewrite <- (Z.abs_eq d) at 2 by lia.
    rewrite <- !Z.abs_mul. f_equal. nia.
Qed.

(* ================= as_unix_seconds ================= *)

(* |u - num/den| <= 2^-b, for a double u = fm * 2^fe with fe < 0, without fractions *)
Definition fl_close (u : fl) (num den b : Z) : Prop :=
  fe u < 0 /\ 2 ^ b * Z.abs (den * fm u - num * 2 ^ (- fe u)) <= den * 2 ^ (- fe u).

Definition fl_normal (u : fl) : Prop := 2 ^ 52 <= Z.abs (fm u) < 2 ^ 53.

Lemma of_Z_1000 : of_Z 1000 = {| fm := 8796093022208000; fe := -43 |}.
Proof. vm_compute. reflexivity. Qed.
Lemma of_Z_1000000 : of_Z 1000000 = {| fm := 8589934592000000; fe := -33 |}.
Proof. vm_compute. reflexivity. Qed.

(* a rounded quotient, described once for both representations rne may return *)
Lemma rne_result_close n d N D k :
  0 < d -> 0 < D -> n * D = N * d -> N <> 0 -> Z.abs N < D * 2 ^ k -> 0 <= k <= 51 ->
  let u := rne n d in
  fl_close u N D (54 - k) /\ fl_normal u /\ (0 < N -> 0 < fm u) /\ (N < 0 -> fm u < 0).
Proof.
  intros Hd HD E HN Hb Hk.
  destruct (rne_ratio n d N D k Hd HD E HN Hb ltac:(lia)) as (e & m & He & Hek & Hm & Herr & Hr).
  cbv zeta. unfold fl_close, fl_normal.
  set (W := 2 ^ (- e)) in *.
  assert (HW : 2 ^ (53 - k) <= W) by (apply pow2_le; lia).
  assert (P2 : 2 ^ (54 - k) = 2 * 2 ^ (53 - k)).
  { replace (54 - k) with (Z.succ (53 - k)) by lia. rewrite Z.pow_succ_r by lia. reflexivity. }
  pose proof (pow2_pos (53 - k) ltac:(lia)) as PB.
  destruct Hr as [[Hm' ->]|[Hm' ->]]; cbn [fm fe].
  - fold W. split; [split; [lia|]|split; [|split; intros; nia]].
    + assert (Z.abs (D * (Z.sgn N * m) - N * W) = Z.abs (m * D - Z.abs N * W)) as ->.
      { destruct (Z.sgn_spec N) as [[? ->]|[[? ->]|[? ->]]]; [|lia|].
        - rewrite (Z.abs_eq N) by lia. f_equal. ring.
        - rewrite (Z.abs_neq N) by lia. rewrite <- Z.abs_opp. f_equal. ring. }
      rewrite Z.abs_mul in Herr. change (Z.abs 2) with 2 in Herr.
      pose proof (Z.abs_nonneg (m * D - Z.abs N * W)) as XP.
      set (X := Z.abs (m * D - Z.abs N * W)) in *. rewrite P2.
      assert (2 ^ (53 - k) * (2 * X) <= W * D) by (apply Z.mul_le_mono_nonneg; lia).
      lia.
    + rewrite Z.abs_mul. destruct (Z.sgn_spec N) as [[? ->]|[[? ->]|[? ->]]]; [|lia|];
        cbn [Z.abs Pos.mul]; rewrite ?Z.mul_1_l, (Z.abs_eq m) by lia; lia.
  - assert (WW : W = 2 * 2 ^ (- (e + 1))).
    { unfold W. replace (- e) with (Z.succ (- (e + 1))) by lia. rewrite Z.pow_succ_r by lia. reflexivity. }
    set (W' := 2 ^ (- (e + 1))) in *. subst m.
    split; [split; [lia|]|split; [|split; intros; nia]].
    + assert (2 * Z.abs (D * (Z.sgn N * 2 ^ 52) - N * W') = Z.abs (2 ^ 53 * D - Z.abs N * W)) as EE.
      { change (2 ^ 53) with (2 * 2 ^ 52). rewrite WW.
        destruct (Z.sgn_spec N) as [[? ->]|[[? ->]|[? ->]]]; [|lia|].
        - rewrite (Z.abs_eq N) by lia.
          replace (2 * 2 ^ 52 * D - N * (2 * W')) with (2 * (D * (1 * 2 ^ 52) - N * W')) by ring.
          rewrite Z.abs_mul. reflexivity.
        - rewrite (Z.abs_neq N) by lia.
          replace (2 * 2 ^ 52 * D - - N * (2 * W')) with ((-2) * (D * (-1 * 2 ^ 52) - N * W')) by ring.
          rewrite Z.abs_mul. reflexivity. }
      rewrite Z.abs_mul in Herr. change (Z.abs 2) with 2 in Herr. rewrite <- EE in Herr.
      pose proof (Z.abs_nonneg (D * (Z.sgn N * 2 ^ 52) - N * W')) as XP.
      set (X := Z.abs (D * (Z.sgn N * 2 ^ 52) - N * W')) in *. rewrite P2.
      assert (2 ^ (53 - k) * (2 * (2 * X)) <= (2 * W') * D) by (apply Z.mul_le_mono_nonneg; lia).
      lia.
    + rewrite Z.abs_mul. destruct (Z.sgn_spec N) as [[? ->]|[[? ->]|[? ->]]]; [|lia|];
        cbn [Z.abs Pos.mul]; rewrite ?Z.mul_1_l; cbn; lia.
Qed.

Lemma of_Z_exact N : N <> 0 -> Z.abs N < 2 ^ 53 ->
  fe (of_Z N) <= 0 /\ fm (of_Z N) = N * 2 ^ (- fe (of_Z N)) /\ fl_normal (of_Z N).
Proof.
  intros H1 H2. unfold of_Z. change 1 with (2 ^ 0).
  destruct (rne_exact_val N 0 H1 H2 ltac:(lia)) as (A & B & C & _).
  change (2 ^ 0) with 1 in *. rewrite Z.mul_1_r in B. split; [lia|]. split; assumption.
Qed.

(* fl(N / 1000.0) for an integer N: within 2^-21 of N/1000 *)
Lemma div1000_close N : N <> 0 -> Z.abs N < 1000 * 2 ^ 33 ->
  let u := fdiv (of_Z N) (of_Z 1000) in
  fl_close u N 1000 21 /\ fl_normal u /\ (0 < N -> 0 < fm u) /\ (N < 0 -> fm u < 0).
Proof.
  intros HN Hb. cbv zeta.
  destruct (of_Z_exact N HN ltac:(lia)) as (Xe & Xm & _).
  rewrite of_Z_1000. unfold fdiv. cbn [fm fe].
  change (Z.sgn 8796093022208000) with 1. change (Z.abs 8796093022208000) with (1000 * 2 ^ 43).
  set (x := of_Z N) in *. rewrite Z.mul_1_r.
  pose proof (pow2_pos (- fe x) ltac:(lia)) as PX.
  destruct (0 <=? fe x - -43) eqn:C.
  - pose proof (pow2_pos (fe x - -43) ltac:(lia)) as PE.
    apply (rne_result_close _ _ N 1000 33); try lia.
    rewrite Xm.
    assert (2 ^ (- fe x) * 2 ^ (fe x - -43) = 2 ^ 43) by (rewrite <- pow2_add by lia; f_equal; lia).
    nia.
  - pose proof (pow2_pos (- (fe x - -43)) ltac:(lia)) as PE.
    apply (rne_result_close _ _ N 1000 33); try lia.
    rewrite Xm.
    assert (2 ^ 43 * 2 ^ (- (fe x - -43)) = 2 ^ (- fe x)) by (rewrite <- pow2_add by lia; f_equal; lia).
    nia.
Qed.

Lemma cds_unix_seconds_is t :
  cds_unix_seconds t = fdiv (of_Z (cds_instant_ms t)) (of_Z 1000).
Proof.
  unfold cds_unix_seconds, cds_instant_ms, convert_ccsds_days_to_unix_days, DAYS_CCSDS_TO_UNIX, MS_PER_DAY.
  reflexivity.
Qed.

Lemma cds_valid_instant_range t : cds_valid t -> Z.abs (cds_instant_ms t) < 1000 * 2 ^ 33.
Proof. unfold cds_valid, cds_instant_ms. intros. change (2 ^ 33) with 8589934592. lia. Qed.

(* as_unix_seconds: 0.0 at the Unix epoch, otherwise within 2^-21 s of the exact instant,
   with the sign of the instant *)
Lemma cds_unix_seconds_close t : cds_valid t ->
  let u := cds_unix_seconds t in let i := cds_instant_ms t in
  (i = 0 -> u = fzero) /\
  (i <> 0 -> fl_close u i 1000 21 /\ fl_normal u /\ (0 < i -> 0 < fm u) /\ (i < 0 -> fm u < 0)).
Proof.
  intros V. cbv zeta. rewrite cds_unix_seconds_is. split.
  - intros ->. vm_compute. reflexivity.
  - intros H. apply div1000_close; [exact H|apply cds_valid_instant_range, V].
Qed.

(* ================= as_datetime ================= *)

Lemma fround_near y T : fe y < 0 -> 2 * Z.abs (fm y - T * 2 ^ (- fe y)) < 2 ^ (- fe y) ->
  fround_away y = T /\ fround_even y = T.
Proof.
  intros He H. set (Q := 2 ^ (- fe y)) in *.
  assert (HQ : 0 < Q) by (apply pow2_pos; lia).
  assert (RA : fround_away y = T).
  { unfold fround_away. destruct (0 <=? fe y) eqn:C; [lia|]. fold Q.
    set (A := fm y) in *.
    destruct (Z.sgn_spec A) as [[HA ->]|[[HA ->]|[HA ->]]].
    - rewrite Z.mul_1_l, (Z.abs_eq A) by lia. symmetry.
      apply (Z.div_unique (2 * A + Q) (2 * Q) T (2 * A + Q - 2 * Q * T)); [left|]; lia.
    - rewrite Z.mul_0_l. rewrite <- HA in H. nia.
    - rewrite (Z.abs_neq A) by lia.
      assert ((2 * - A + Q) / (2 * Q) = - T); [|lia].
      symmetry. apply (Z.div_unique (2 * - A + Q) (2 * Q) (- T) (2 * - A + Q + 2 * Q * T)); [left|]; lia. }
  split; [exact RA|].
  unfold fround_even. destruct (0 <=? fe y) eqn:C; [lia|]. fold Q. rewrite RA.
  destruct (Z.abs (2 * (fm y - T * Q)) =? Q) eqn:C2; [lia|reflexivity].
Qed.

Lemma fmul_comm x y : fmul x y = fmul y x.
Proof. unfold fmul. f_equal; lia. Qed.

Lemma ffrac_neg u : fe u < 0 -> ffrac u = rne (Z.rem (fm u) (2 ^ (- fe u))) (2 ^ (- fe u)).
Proof.
  intros H. unfold ffrac, rne2. destruct (0 <=? fe u) eqn:C; [lia|reflexivity].
Qed.

Lemma rne_zero d : rne 0 d = fzero.
Proof. reflexivity. Qed.

Lemma rem_abs_le a b : 0 < b -> Z.abs (Z.rem a b) <= Z.abs a /\ Z.abs (Z.rem a b) < b.
Proof.
  intros Hb. split.
  - rewrite <- (Z.abs_eq b) at 1 by lia. rewrite <- Z.rem_abs by lia.
    apply Z.rem_le; lia.
  - pose proof (Z.rem_bound_abs a b ltac:(lia)). lia.
Qed.

(* The double u is within 2^-21 of N/1000 (N an integer number of milliseconds).  Split
   u = ip + fr/q; then fl(fraction * 1e6) is closer than 1/2 to the integer
   T = 1000 N - 10^6 ip, the microsecond count that remains. *)
Lemma frac_us_close u N :
  fl_close u N 1000 21 -> Z.abs (fm u) < 2 ^ 53 ->
  let q := 2 ^ (- fe u) in
  let ip := Z.quot (fm u) q in
  let fr := Z.rem (fm u) q in
  let T := 1000 * N - 1000000 * ip in
  (fr = 0 -> T = 0 /\ ffrac u = fzero) /\
  (fr <> 0 ->
     let y := fmul (ffrac u) (of_Z 1000000) in
     fm (ffrac u) <> 0 /\ fe y < 0 /\ fl_normal y /\
     2 * Z.abs (fm y - T * 2 ^ (- fe y)) < 2 ^ (- fe y)).
Proof.
  intros [He Hu] Hn. cbv zeta.
  set (q := 2 ^ (- fe u)) in *. assert (Hq : 0 < q) by (apply pow2_pos; lia).
  pose proof (Z.quot_rem' (fm u) q) as QR.
  destruct (rem_abs_le (fm u) q Hq) as [R1 R2].
  set (ip := Z.quot (fm u) q) in *. set (fr := Z.rem (fm u) q) in *.
  set (mu := fm u) in *.
  split.
  - intros F. split.
    + rewrite F, Z.add_0_r in QR. rewrite QR in Hu.
      replace (1000 * (q * ip) - N * q) with (q * (1000 * ip - N)) in Hu by ring.
      rewrite Z.abs_mul, (Z.abs_eq q) in Hu by lia.
      change (2 ^ 21) with 2097152 in Hu.
      assert (Z.abs (1000 * ip - N) = 0) by nia. lia.
    + rewrite ffrac_neg by assumption. fold q. fold mu. fold fr. rewrite F. reflexivity.
  - intros F.
    rewrite ffrac_neg by assumption. fold q. fold mu. fold fr.
    destruct (rne_exact_val fr (- fe u) F ltac:(lia) ltac:(lia)) as (Fe & Fm & Fn & _).
    fold q in Fe, Fm, Fn. set (f := rne fr q) in *.
    split; [lia|].
    rewrite of_Z_1000000. unfold fmul. cbn [fm fe]. unfold rne2.
    destruct (0 <=? fe f + -33) eqn:C; [lia|].
    set (F2 := 2 ^ (- fe f)) in *. assert (HF2 : 0 < F2) by (apply pow2_pos; lia).
    assert (PE : 2 ^ (- (fe f + -33)) = F2 * 2 ^ 33).
    { unfold F2. rewrite <- pow2_add by lia. f_equal. lia. }
    assert (G1 : 0 < 2 ^ (- (fe f + -33))) by (rewrite PE; lia).
    assert (G2 : fm f * 8589934592000000 * q = fr * 1000000 * 2 ^ (- (fe f + -33))).
    { rewrite PE. change 8589934592000000 with (1000000 * 2 ^ 33).
      replace (fm f * (1000000 * 2 ^ 33) * q) with (fm f * q * (1000000 * 2 ^ 33)) by ring.
      rewrite Fm. ring. }
    assert (G3 : Z.abs (fr * 1000000) < q * 2 ^ 20).
    { rewrite Z.abs_mul. change (Z.abs 1000000) with 1000000. change (2 ^ 20) with 1048576. lia. }
    destruct (rne_result_close (fm f * 8589934592000000) (2 ^ (- (fe f + -33))) (fr * 1000000) q 20
                G1 Hq G2 ltac:(lia) G3 ltac:(lia)) as ([Ye Yc] & Yn & _).
    set (y := rne (fm f * 8589934592000000) (2 ^ (- (fe f + -33)))) in *.
      split; [exact Ye|]. split; [exact Yn|].
      change (54 - 20) with 34 in Yc.
      set (Q := 2 ^ (- fe y)) in *. assert (HQ : 0 < Q) by (apply pow2_pos; lia).
      set (A := fm y) in *. set (T := 1000 * N - 1000000 * ip).
      assert (ID : q * (A - T * Q) = (q * A - fr * 1000000 * Q) + 1000 * Q * (1000 * mu - N * q)).
      { unfold T. rewrite QR. ring. }
      pose proof (Z.abs_nonneg (q * A - fr * 1000000 * Q)) as P1.
      pose proof (Z.abs_nonneg (1000 * mu - N * q)) as P2.
      pose proof (Z.abs_nonneg (A - T * Q)) as P3.
      assert (TR : q * Z.abs (A - T * Q) <=
                   Z.abs (q * A - fr * 1000000 * Q) + 1000 * (Q * Z.abs (1000 * mu - N * q))).
      { rewrite <- (Z.abs_eq q) at 1 by lia. rewrite <- Z.abs_mul, ID.
        eapply Z.le_trans; [apply Z.abs_triangle|].
        apply Z.add_le_mono_l. rewrite !Z.abs_mul. rewrite (Z.abs_eq Q) by lia.
        change (Z.abs 1000) with 1000. lia. }
      set (E1 := Z.abs (q * A - fr * 1000000 * Q)) in *.
      set (E2 := Z.abs (1000 * mu - N * q)) in *.
      set (Zz := Z.abs (A - T * Q)) in *.
      assert (B2 : 2 ^ 21 * (Q * E2) <= 1000 * (q * Q)).
      { replace (2 ^ 21 * (Q * E2)) with (Q * (2 ^ 21 * E2)) by ring.
        replace (1000 * (q * Q)) with (Q * (1000 * q)) by ring.
        apply Z.mul_le_mono_nonneg_l; lia. }
      change (2 ^ 34) with 17179869184 in Yc. change (2 ^ 21) with 2097152 in B2.
      assert (HqQ : 0 < q * Q) by nia.
      set (a1 := q * Zz) in *. set (a3 := Q * E2) in *. set (a4 := q * Q) in *.
      assert (FIN : 2 * a1 < a4) by (clear - TR Yc B2 HqQ; lia).
      unfold a1, a4 in FIN.
      apply (Z.mul_lt_mono_pos_l q _ _ Hq).
      replace (q * (2 * Zz)) with (2 * (q * Zz)) by ring. exact FIN.
Qed.

Lemma ftrunc_neg u : fe u < 0 -> ftrunc u = Z.quot (fm u) (2 ^ (- fe u)).
Proof. intros H. unfold ftrunc. destruct (0 <=? fe u) eqn:C; [lia|reflexivity]. Qed.

(* datetime.fromtimestamp: the exact microsecond *)
Lemma us_fromtimestamp_exact u N :
  fl_close u N 1000 21 -> Z.abs (fm u) < 2 ^ 53 -> us_fromtimestamp u = 1000 * N.
Proof.
  intros C Hn. pose proof (frac_us_close u N C Hn) as H. cbv zeta in H. destruct C as [He _].
  unfold us_fromtimestamp. rewrite ftrunc_neg by assumption.
  set (q := 2 ^ (- fe u)) in *. set (ip := Z.quot (fm u) q) in *. set (fr := Z.rem (fm u) q) in *.
  destruct H as [H0 H1]. destruct (Z.eq_dec fr 0) as [F|F].
  - destruct (H0 F) as [T0 ->].
    change (fround_even (fmul fzero (of_Z 1000000))) with 0.
    change (0 >=? 1000000) with false. change (0 <? 0) with false. cbv iota. lia.
  - destruct (H1 F) as (_ & Ye & Yn & Yc). set (y := fmul (ffrac u) (of_Z 1000000)) in *.
    destruct (fround_near y _ Ye Yc) as [_ ->].
    set (T := 1000 * N - 1000000 * ip).
    destruct (T >=? 1000000); [lia|]. destruct (T <? 0); lia.
Qed.

(* the tail of timedelta(seconds=float): integer part of dnum plus its fraction rounded *)
Lemma td_tail_exact y T : fe y < 0 -> Z.abs (fm y) < 2 ^ 53 ->
  2 * Z.abs (fm y - T * 2 ^ (- fe y)) < 2 ^ (- fe y) ->
  forall lo, lo = ffrac y ->
  (fm lo = 0 -> ftrunc y = T) /\
  (fm lo <> 0 -> fe lo < 0 /\ 2 * Z.abs (fm lo - (T - ftrunc y) * 2 ^ (- fe lo)) < 2 ^ (- fe lo)).
Proof.
  intros Ye Yn Yc lo ->.
  rewrite ftrunc_neg by assumption. rewrite ffrac_neg by assumption.
  set (Q := 2 ^ (- fe y)) in *. assert (HQ : 0 < Q) by (apply pow2_pos; lia).
  set (A := fm y) in *.
  pose proof (Z.quot_rem' A Q) as QR.
  destruct (rem_abs_le A Q HQ) as [R1 R2].
  set (ty := Z.quot A Q) in *. set (ry := Z.rem A Q) in *.
  destruct (Z.eq_dec ry 0) as [G|G].
  - rewrite G, rne_zero. split; [intros _|intros H; exfalso; apply H; reflexivity].
    rewrite G, Z.add_0_r in QR. rewrite QR in Yc.
    replace (Q * ty - T * Q) with (Q * (ty - T)) in Yc by ring.
    rewrite Z.abs_mul, (Z.abs_eq Q) in Yc by lia.
    destruct (Z.eq_dec ty T) as [EQ|NE]; [exact EQ|exfalso].
    assert (Q * 1 <= Q * Z.abs (ty - T)) by (apply Z.mul_le_mono_nonneg_l; lia).
    lia.
  - assert (Hry : Z.abs ry < 2 ^ 53) by lia.
    assert (Hj : 0 <= - fe y) by lia.
    destruct (rne_exact_val ry (- fe y) G Hry Hj) as (Le & Lm & Ln & _).
    fold Q in Le, Lm, Ln. set (lo := rne ry Q) in *.
    split; [intros H; exfalso; lia|intros _].
    assert (Le' : fe lo < 0) by lia. split; [exact Le'|].
    set (QL := 2 ^ (- fe lo)) in *.
    assert (HQL : 0 < QL) by (apply pow2_pos; clear - Le'; lia).
    apply (Z.mul_lt_mono_pos_l Q _ _ HQ).
    replace (Q * (2 * Z.abs (fm lo - (T - ty) * QL))) with (2 * (Z.abs Q * Z.abs (fm lo - (T - ty) * QL)))
      by (rewrite (Z.abs_eq Q) by (clear - HQ; lia); ring).
    rewrite <- Z.abs_mul.
    replace (Q * (fm lo - (T - ty) * QL)) with (QL * (A - T * Q))
      by (rewrite QR; replace (Q * (fm lo - (T - ty) * QL)) with (fm lo * Q - (T - ty) * QL * Q) by ring;
          rewrite Lm; ring).
    rewrite Z.abs_mul, (Z.abs_eq QL) by (clear - HQL; lia).
    replace (Q * QL) with (QL * Q) by ring.
    replace (2 * (QL * Z.abs (A - T * Q))) with (QL * (2 * Z.abs (A - T * Q))) by ring.
    apply Z.mul_lt_mono_pos_l; assumption.
Qed.

(* epoch + timedelta(seconds=u): the exact microsecond *)
Lemma us_timedelta_exact u N :
  fl_close u N 1000 21 -> Z.abs (fm u) < 2 ^ 53 -> us_timedelta_seconds u = 1000 * N.
Proof.
  intros C Hn. pose proof (frac_us_close u N C Hn) as H. cbv zeta in H. destruct C as [He _].
  unfold us_timedelta_seconds. rewrite ftrunc_neg by assumption.
  set (q := 2 ^ (- fe u)) in *. set (ip := Z.quot (fm u) q) in *. set (fr := Z.rem (fm u) q) in *.
  destruct H as [H0 H1]. destruct (Z.eq_dec fr 0) as [F|F].
  - destruct (H0 F) as [T0 ->]. change (fm fzero =? 0) with true. cbv iota. clear - T0. lia.
  - destruct (H1 F) as (Fnz & Ye & Yn & Yc). clear H0 H1.
    destruct (fm (ffrac u) =? 0) eqn:C0; [clear - C0 Fnz; lia|].
    rewrite (fmul_comm (of_Z 1000000) (ffrac u)).
    set (y := fmul (ffrac u) (of_Z 1000000)) in *.
    set (T := 1000 * N - 1000000 * ip) in *.
    unfold fl_normal in Yn.
    destruct (td_tail_exact y T Ye ltac:(clear - Yn; lia) Yc (ffrac y) eq_refl) as [L0 L1].
    set (lo := ffrac y) in *. set (ty := ftrunc y) in *.
    destruct (fm lo =? 0) eqn:C1.
    + assert (ty = T) by (apply L0; clear - C1; lia). unfold T in *. clear - H. lia.
    + destruct (L1 ltac:(clear - C1; lia)) as [Le NEAR].
      destruct (fround_near lo (T - ty) Le NEAR) as [-> _].
      destruct (Z.abs (2 * (fm lo - (T - ty) * 2 ^ (- fe lo))) =? 2 ^ (- fe lo)) eqn:C2.
      * exfalso. clear - C2 NEAR. lia.
      * unfold T. clear. lia.
Qed.

(* as_datetime: exactly the instant, at microsecond resolution, for every valid timestamp *)
Lemma cds_datetime_exact t : cds_valid t -> cds_datetime_us t = cds_instant_ms t * 1000.
Proof.
  intros V. unfold cds_datetime_us.
  destruct (cds_unix_seconds_close t V) as [Z0 NZ]. cbv zeta in Z0, NZ.
  destruct (Z.eq_dec (cds_instant_ms t) 0) as [E|E].
  - rewrite (Z0 E), E. reflexivity.
  - destruct (NZ E) as (C & Nn & _). unfold fl_normal in Nn.
    destruct (fneg (cds_unix_seconds t)).
    + rewrite (us_timedelta_exact _ _ C) by lia. lia.
    + rewrite (us_fromtimestamp_exact _ _ C) by lia. lia.
Qed.

(* later timestamps map to later datetimes, and to Unix seconds that are not smaller *)
Lemma cds_datetime_monotone a b : cds_valid a -> cds_valid b ->
  (cds_lt a b <-> cds_datetime_us a < cds_datetime_us b).
Proof.
  intros Va Vb. rewrite !cds_datetime_exact by assumption.
  rewrite (cds_monotone a b) by (unfold cds_valid in *; lia). lia.
Qed.

(* non-vacuity / concrete values: one second after the last midnight before 1970 *)
Lemma cds_views_example :
  cds_unix_seconds {| cdays := 4382; cms := 1000 |} = {| fm := -5937294070513664; fe := -36 |} /\
  -5937294070513664 = -86399 * 2 ^ 36 /\
  cds_datetime_us {| cdays := 4382; cms := 1000 |} = -86399000000.
Proof. vm_compute. repeat split; reflexivity. Qed.

(* ms_of_today: always a millisecond of a day, for every double (also negative ones) *)
Lemma cds_ms_of_today_range s : 0 <= cds_ms_of_today s < 86400000.
Proof. unfold cds_ms_of_today, MS_PER_DAY. apply Z.mod_pos_bound. lia. Qed.

Lemma cds_ms_of_today_example :
  cds_ms_of_today (rne 863999995 10000) = 86399999 /\ cds_ms_of_today (rne 1009995 10000) = 100999 /\
  cds_ms_of_today (rne (-1) 2) = 86399500.
Proof. vm_compute. repeat split; reflexivity. Qed.

(* the _unix_seconds cached by from_datetime: dt.timestamp() is within 2^-21 s of the datetime *)
Lemma dt_timestamp_close ud sod us :
  dt_instant_us ud sod us <> 0 -> Z.abs (dt_instant_us ud sod us) < 1000000 * 2 ^ 33 ->
  fl_close (dt_timestamp ud sod us) (dt_instant_us ud sod us) 1000000 21 /\
  fl_normal (dt_timestamp ud sod us).
Proof.
  intros H1 H2. unfold dt_timestamp. fold (dt_instant_us ud sod us).
  destruct (rne_result_close (dt_instant_us ud sod us) 1000000 (dt_instant_us ud sod us) 1000000 33
              ltac:(lia) ltac:(lia) eq_refl H1 H2 ltac:(lia)) as (A & B & _).
  split; assumption.
Qed.

(* ================= ms_of_today ================= *)

(* fl(s * 1000) for a double s = m * 2^e, e < 0, |s * 1000| < 2^44: within 2^-10 of the exact product *)
Lemma fmul1000_close s : fm s <> 0 -> fe s < 0 -> Z.abs (fm s) * 1000 < 2 ^ (- fe s) * 2 ^ 44 ->
  fl_close (fmul s (of_Z 1000)) (fm s * 1000) (2 ^ (- fe s)) 10.
Proof.
  intros Hm He Hb. rewrite of_Z_1000. unfold fmul, rne2. cbn [fm fe].
  destruct (0 <=? fe s + -43) eqn:C; [lia|].
  pose proof (pow2_pos (- fe s) ltac:(lia)) as PD.
  assert (PE : 2 ^ (- (fe s + -43)) = 2 ^ 43 * 2 ^ (- fe s)).
  { rewrite <- pow2_add by lia. f_equal. lia. }
  assert (G1 : 0 < 2 ^ (- (fe s + -43))) by (rewrite PE; lia).
  assert (G2 : fm s * 8796093022208000 * 2 ^ (- fe s) = fm s * 1000 * 2 ^ (- (fe s + -43))).
  { rewrite PE. change 8796093022208000 with (1000 * 2 ^ 43). ring. }
  assert (G3 : Z.abs (fm s * 1000) < 2 ^ (- fe s) * 2 ^ 44).
  { rewrite Z.abs_mul. change (Z.abs 1000) with 1000. exact Hb. }
  destruct (rne_result_close _ _ (fm s * 1000) (2 ^ (- fe s)) 44 G1 PD G2 ltac:(lia) G3 ltac:(lia))
    as (A & _).
  exact A.
Qed.

(* floor of a double P within 2^-10 of the rational N/D: the floor of N/D, or its neighbour
   when N/D is within 2^-10 of that neighbour's boundary *)
Lemma floor_close P N D : 0 < D -> fl_close P N D 10 ->
  let fx := N / D in let rx := N mod D in
  ffloor P = fx \/ (ffloor P = fx + 1 /\ 2 ^ 10 * (D - rx) <= D) \/ (ffloor P = fx - 1 /\ 2 ^ 10 * rx <= D).
Proof.
  intros HD [He Hc]. cbv zeta. unfold ffloor. destruct (0 <=? fe P) eqn:C; [lia|].
  set (Q := 2 ^ (- fe P)) in *. assert (HQ : 0 < Q) by (apply pow2_pos; lia).
  set (A := fm P) in *. change (2 ^ 10) with 1024 in *.
  pose proof (Z.div_mod A Q ltac:(lia)) as EA. pose proof (Z.mod_pos_bound A Q HQ) as BA.
  pose proof (Z.div_mod N D ltac:(lia)) as EN. pose proof (Z.mod_pos_bound N D HD) as BN.
  set (fP := A / Q) in *. set (rP := A mod Q) in *. set (fx := N / D) in *. set (rx := N mod D) in *.
  assert (ID : D * A - N * Q = D * Q * (fP - fx) + (D * rP - Q * rx)) by (rewrite EA, EN; ring).
  rewrite ID in Hc. clear ID EA EN.
  assert (U1 : 0 < D * Q) by nia.
  assert (U2 : 0 <= D * rP < D * Q) by nia.
  assert (U3 : 0 <= Q * rx < D * Q) by nia.
  set (u1 := D * Q) in *. set (u2 := D * rP) in *. set (u3 := Q * rx) in *.
  set (k := fP - fx) in *.
  assert (Hk : -1 <= k <= 1).
  { destruct (Z_le_dec 2 k) as [K|K].
    - assert (2 * u1 <= u1 * k) by nia. lia.
    - destruct (Z_le_dec k (-2)) as [K'|K']; [|lia].
      assert (u1 * k <= -2 * u1) by nia. lia. }
  assert (k = 0 \/ k = 1 \/ k = -1) as [K|[K|K]] by lia.
  - left. unfold k in K. lia.
  - right. left. split; [unfold k in K; lia|].
    rewrite K, Z.mul_1_r in Hc.
    assert (1024 * (u1 - u3) <= u1) by lia.
    assert (Q * (1024 * (D - rx)) <= Q * D).
    { replace (Q * (1024 * (D - rx))) with (1024 * (u1 - u3)) by (unfold u1, u3; ring).
      replace (Q * D) with u1 by (unfold u1; ring). assumption. }
    apply Z.mul_le_mono_pos_l in H0; assumption.
  - right. right. split; [unfold k in K; lia|].
    rewrite K in Hc.
    assert (1024 * u3 <= u1) by lia.
    assert (Q * (1024 * rx) <= Q * D).
    { replace (Q * (1024 * rx)) with (1024 * u3) by (unfold u3; ring).
      replace (Q * D) with u1 by (unfold u1; ring). assumption. }
    apply Z.mul_le_mono_pos_l in H0; assumption.
Qed.

(* ms_of_today(s) for a double 0 < |s| < 2^44 / 1000 seconds (s = m * 2^e, so that s * 1000 =
   N / D with N = 1000 m, D = 2^-e): the millisecond of the day of floor(s * 1000), or of its
   neighbour when s * 1000 is within 2^-10 ms of that neighbour *)
Lemma cds_ms_of_today_close s : fm s <> 0 -> fe s < 0 -> Z.abs (fm s) * 1000 < 2 ^ (- fe s) * 2 ^ 44 ->
  let N := fm s * 1000 in let D := 2 ^ (- fe s) in
  cds_ms_of_today s = (N / D) mod 86400000 \/
  (cds_ms_of_today s = (N / D + 1) mod 86400000 /\ 2 ^ 10 * (D - N mod D) <= D) \/
  (cds_ms_of_today s = (N / D - 1) mod 86400000 /\ 2 ^ 10 * (N mod D) <= D).
Proof.
  intros Hm He Hb. cbv zeta. unfold cds_ms_of_today, MS_PER_DAY.
  pose proof (pow2_pos (- fe s) ltac:(lia)) as PD.
  destruct (floor_close _ _ _ PD (fmul1000_close s Hm He Hb)) as [-> | [[-> H] | [-> H]]].
  - left. reflexivity.
  - right. left. split; [reflexivity|exact H].
  - right. right. split; [reflexivity|exact H].
Qed.
