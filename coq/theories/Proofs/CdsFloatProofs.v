(* Proofs about the float views of CDS short timestamps (C14): on the integer binary64
   arithmetic of Model/CdsSoftFloat.v, as_unix_seconds is within 2^-21 s of the exact instant
   and as_datetime is the exact instant at microsecond resolution, for every valid timestamp. *)
From Coq Require Import ZArith List Bool Lia ZifyBool.
From SP Require Import Base.Result Base.Bytes Model.Cds Model.CdsSoftFloat Model.CdsFloat Spec.CdsSpec Proofs.CdsProofs.
Import ListNotations.
Open Scope Z_scope.

(* ================= powers of two ================= *)
Lemma pow2_pos k : 0 <= k -> 0 < 2 ^ k.
Proof. intros. apply Z.pow_pos_nonneg; lia. Qed.
Lemma pow2_add a b : 0 <= a -> 0 <= b -> 2 ^ (a + b) = 2 ^ a * 2 ^ b.
Proof. intros. apply Z.pow_add_r; assumption. Qed.
Lemma pow2_le a b : 0 <= a <= b -> 2 ^ a <= 2 ^ b.
Proof. intros. apply Z.pow_le_mono_r; lia. Qed.
Lemma pow2_lt_inv a b : 0 <= b -> 2 ^ a < 2 ^ b -> a < b.
Proof. intros Hb H. apply (Z.pow_lt_mono_r_iff 2); [lia|assumption|assumption]. Qed.
Lemma log2_bounds a : 0 < a -> 0 <= Z.log2 a /\ 2 ^ Z.log2 a <= a < 2 * 2 ^ Z.log2 a.
Proof.
  intros H. pose proof (Z.log2_spec a H) as S. pose proof (Z.log2_nonneg a).
  rewrite Z.pow_succ_r in S by assumption. lia.
Qed.

(* ================= rounding: error at most half a unit in the last place ================= *)

(* n/d with |n/d| < 2^k, 0 <= k <= 52: the result is sgn(n) * m * 2^e with e <= k - 53 and
   |m - |n/d| * 2^-e| <= 1/2 (m = 2^53 is renormalised to 2^52 * 2^(e+1)) *)
Lemma rne_neg n d k :
  0 < d -> n <> 0 -> Z.abs n < d * 2 ^ k -> 0 <= k <= 52 ->
  exists e m, e < 0 /\ e <= k - 53 /\ 2 ^ 52 <= m <= 2 ^ 53 /\
    Z.abs (2 * (m * d - Z.abs n * 2 ^ (- e))) <= d /\
    ((m < 2 ^ 53 /\ rne n d = {| fm := Z.sgn n * m; fe := e |}) \/
     (m = 2 ^ 53 /\ rne n d = {| fm := Z.sgn n * 2 ^ 52; fe := e + 1 |})).
Proof.
  intros Hd Hn Hk Hkr. unfold rne.
  destruct (n =? 0) eqn:En; [lia|].
  set (a := Z.abs n) in *. assert (Ha : 0 < a) by lia.
  destruct (log2_bounds a Ha) as [Hla La]. destruct (log2_bounds d Hd) as [Hld Ld].
  set (la := Z.log2 a) in *. set (ld := Z.log2 d) in *.
  pose proof (pow2_pos k ltac:(lia)) as Pk.
  assert (Hlk : la - ld <= k).
  { assert (2 ^ la < 2 ^ (ld + 1 + k)).
    { rewrite !pow2_add by lia. change (2 ^ 1) with 2. nia. }
    apply pow2_lt_inv in H; lia. }
  set (e0 := la - ld - 53).
  assert (He0 : e0 < 0) by lia.
  assert (S0 : scale2 a d e0 = (a * 2 ^ (- e0), d)).
  { unfold scale2. destruct (0 <=? e0) eqn:E; [lia|reflexivity]. }
  rewrite S0. cbv iota beta.
  set (P := 2 ^ (- e0)).
  assert (PA : P * 2 ^ la = 2 ^ 53 * 2 ^ ld).
  { unfold P. rewrite <- !pow2_add by lia. f_equal. lia. }
  assert (PP : 0 < P) by (apply pow2_pos; lia).
  pose proof (pow2_pos la Hla) as PLa. pose proof (pow2_pos ld Hld) as PLd.
  assert (Lo : 2 ^ 52 * d < a * P) by nia.
  assert (Hi : a * P < 2 ^ 54 * d).
  { change (2 ^ 54) with (2 * 2 ^ 53). nia. }
  destruct (a * P / d <? 2 ^ 53) eqn:C.
  - (* exponent e0 *)
    rewrite S0. cbv iota beta. fold P.
    set (p := a * P) in *.
    assert (M1 : 2 ^ 52 <= p / d) by (apply Z.div_le_lower_bound; lia).
    assert (M2 : p / d < 2 ^ 53) by lia.
    pose proof (Z.div_mod p d ltac:(lia)) as DM. pose proof (Z.mod_pos_bound p d Hd) as MB.
    set (m := p / d) in *. set (r := p mod d) in *.
    exists e0.
    destruct (2 * r <? d) eqn:C1; [|destruct (d <? 2 * r) eqn:C2; [|destruct (Z.even m) eqn:C3]].
    + exists m. destruct (m =? 2 ^ 53) eqn:C4; [lia|].
      repeat split; try lia. left. split; [lia|reflexivity].
    + exists (m + 1). destruct (m + 1 =? 2 ^ 53) eqn:C4.
      * repeat split; try lia. right. split; [lia|reflexivity].
      * repeat split; try lia. left. split; [lia|reflexivity].
    + exists m. destruct (m =? 2 ^ 53) eqn:C4; [lia|].
      repeat split; try lia. left. split; [lia|reflexivity].
    + exists (m + 1). destruct (m + 1 =? 2 ^ 53) eqn:C4.
      * repeat split; try lia. right. split; [lia|reflexivity].
      * repeat split; try lia. left. split; [lia|reflexivity].
  - (* exponent e0 + 1 *)
    assert (C' : 2 ^ 53 <= a * P / d) by lia.
    assert (Hp0 : 2 ^ 53 * d <= a * P).
    { pose proof (Z.mul_div_le (a * P) d Hd). nia. }
    assert (He1 : e0 <= k - 54).
    { destruct (Z_le_dec e0 (k - 54)) as [L|L]; [exact L|exfalso].
      assert (E : - e0 = 53 - k) by lia.
      assert (P * 2 ^ k = 2 ^ 53).
      { unfold P. rewrite E, <- pow2_add by lia. f_equal. lia. }
      nia. }
    assert (S1 : scale2 a d (e0 + 1) = (a * 2 ^ (- (e0 + 1)), d)).
    { unfold scale2. destruct (0 <=? e0 + 1) eqn:E; [lia|reflexivity]. }
    rewrite S1. cbv iota beta.
    set (P' := 2 ^ (- (e0 + 1))).
    assert (PP' : P = 2 * P').
    { unfold P, P'. replace (- e0) with (Z.succ (- (e0 + 1))) by lia.
      rewrite Z.pow_succ_r by lia. reflexivity. }
    set (p := a * P') in *.
    assert (M1 : 2 ^ 52 <= p / d).
    { apply Z.div_le_lower_bound; [lia|]. change (2 ^ 53) with (2 * 2 ^ 52) in Hp0. nia. }
    assert (M2 : p / d < 2 ^ 53).
    { apply Z.div_lt_upper_bound; [lia|]. change (2 ^ 54) with (2 * 2 ^ 53) in Hi. nia. }
    pose proof (Z.div_mod p d ltac:(lia)) as DM. pose proof (Z.mod_pos_bound p d Hd) as MB.
    set (m := p / d) in *. set (r := p mod d) in *.
    exists (e0 + 1).
    destruct (2 * r <? d) eqn:C1; [|destruct (d <? 2 * r) eqn:C2; [|destruct (Z.even m) eqn:C3]].
    + exists m. destruct (m =? 2 ^ 53) eqn:C4; [lia|].
      repeat split; try lia. left. split; [lia|reflexivity].
    + exists (m + 1). destruct (m + 1 =? 2 ^ 53) eqn:C4.
      * repeat split; try lia. right. split; [lia|reflexivity].
      * repeat split; try lia. left. split; [lia|reflexivity].
    + exists m. destruct (m =? 2 ^ 53) eqn:C4; [lia|].
      repeat split; try lia. left. split; [lia|reflexivity].
    + exists (m + 1). destruct (m + 1 =? 2 ^ 53) eqn:C4.
      * repeat split; try lia. right. split; [lia|reflexivity].
      * repeat split; try lia. left. split; [lia|reflexivity].
Qed.

(* ================= rounding is exact on representable values ================= *)

Lemma rne_exact n j : n <> 0 -> Z.abs n < 2 ^ 53 -> 0 <= j ->
  rne n (2 ^ j) = {| fm := n * 2 ^ (52 - Z.log2 (Z.abs n)); fe := Z.log2 (Z.abs n) - 52 - j |}.
Proof.
  intros Hn Hb Hj. unfold rne.
  destruct (n =? 0) eqn:En; [lia|].
  set (a := Z.abs n) in *. assert (Ha : 0 < a) by lia.
  destruct (log2_bounds a Ha) as [Hla La].
  rewrite Z.log2_pow2 by assumption.
  set (la := Z.log2 a) in *.
  assert (Hla2 : la <= 52).
  { assert (2 ^ la < 2 ^ 53) by lia. apply pow2_lt_inv in H; lia. }
  pose proof (pow2_pos j Hj) as Pj. pose proof (pow2_pos la Hla) as PLa.
  set (e0 := la - j - 53).
  assert (S0 : scale2 a (2 ^ j) e0 = (a * 2 ^ (53 - la) * 2 ^ j, 2 ^ j)).
  { unfold scale2. destruct (0 <=? e0) eqn:E; [lia|].
    f_equal. rewrite <- Z.mul_assoc, <- pow2_add by lia. f_equal. f_equal. lia. }
  rewrite S0. cbv iota beta. rewrite Z.div_mul by lia.
  assert (Q53 : 2 ^ (53 - la) * 2 ^ la = 2 ^ 53) by (rewrite <- pow2_add by lia; f_equal; lia).
  assert (Q52 : 2 ^ (52 - la) * 2 ^ la = 2 ^ 52) by (rewrite <- pow2_add by lia; f_equal; lia).
  pose proof (pow2_pos (53 - la) ltac:(lia)). pose proof (pow2_pos (52 - la) ltac:(lia)).
  destruct (a * 2 ^ (53 - la) <? 2 ^ 53) eqn:C; [nia|].
  set (m' := a * 2 ^ (52 - la)).
  assert (S1 : exists q, 0 < q /\ scale2 a (2 ^ j) (e0 + 1) = (m' * q, q)).
  { unfold scale2. destruct (0 <=? e0 + 1) eqn:E.
    - assert (la = 52) by lia. assert (j = 0) by lia. subst j. exists 1. split; [lia|].
      replace (e0 + 1) with 0 by lia. unfold m'. replace (52 - la) with 0 by lia.
      change (2 ^ 0) with 1. f_equal; lia.
    - exists (2 ^ j). split; [lia|]. f_equal. unfold m'.
      rewrite <- Z.mul_assoc, <- pow2_add by lia. f_equal. f_equal. lia. }
  destruct S1 as (q & Hq & S1). rewrite S1. cbv iota beta.
  rewrite Z.div_mul, Z.mod_mul by lia.
  destruct (2 * 0 <? q) eqn:C1; [|lia].
  assert (Hm' : m' < 2 ^ 53) by (unfold m'; change (2 ^ 53) with (2 * 2 ^ 52); nia).
  destruct (m' =? 2 ^ 53) eqn:C2; [lia|].
  f_equal; [|lia]. unfold m'. rewrite Z.mul_assoc. f_equal. unfold a. destruct n; cbn; lia.
Qed.

Lemma rne_exact_val n j : n <> 0 -> Z.abs n < 2 ^ 53 -> 0 <= j ->
  let r := rne n (2 ^ j) in
  fe r <= - j /\ fm r * 2 ^ j = n * 2 ^ (- fe r) /\ 2 ^ 52 <= Z.abs (fm r) < 2 ^ 53 /\
  (0 < n -> 0 < fm r) /\ (n < 0 -> fm r < 0).
Proof.
  intros Hn Hb Hj. cbv zeta. rewrite rne_exact by assumption. cbn [fm fe].
  set (a := Z.abs n) in *. assert (Ha : 0 < a) by lia.
  destruct (log2_bounds a Ha) as [Hla La]. set (la := Z.log2 a) in *.
  assert (Hla2 : la <= 52).
  { assert (2 ^ la < 2 ^ 53) by lia. apply pow2_lt_inv in H; lia. }
  pose proof (pow2_pos (52 - la) ltac:(lia)) as PQ. pose proof (pow2_pos la Hla).
  assert (Q52 : 2 ^ (52 - la) * 2 ^ la = 2 ^ 52) by (rewrite <- pow2_add by lia; f_equal; lia).
  split; [lia|]. split.
  - replace (- (la - 52 - j)) with ((52 - la) + j) by lia. rewrite pow2_add by lia. ring.
  - rewrite Z.abs_mul. fold a. rewrite (Z.abs_eq (2 ^ (52 - la))) by lia.
    change (2 ^ 53) with (2 * 2 ^ 52). split; [nia|]. split; intros; nia.
Qed.

(* the same for a fraction n/d equal to N/D *)
Lemma rne_ratio n d N D k :
  0 < d -> 0 < D -> n * D = N * d -> N <> 0 -> Z.abs N < D * 2 ^ k -> 0 <= k <= 52 ->
  exists e m, e < 0 /\ e <= k - 53 /\ 2 ^ 52 <= m <= 2 ^ 53 /\
    Z.abs (2 * (m * D - Z.abs N * 2 ^ (- e))) <= D /\
    ((m < 2 ^ 53 /\ rne n d = {| fm := Z.sgn N * m; fe := e |}) \/
     (m = 2 ^ 53 /\ rne n d = {| fm := Z.sgn N * 2 ^ 52; fe := e + 1 |})).
Proof.
  intros Hd HD E HN Hb Hk.
  assert (Hn : n <> 0) by nia.
  assert (Hs : Z.sgn n = Z.sgn N) by nia.
  assert (Ea : Z.abs n * D = Z.abs N * d) by nia.
  pose proof (pow2_pos k ltac:(lia)) as Pk.
  assert (Hb' : Z.abs n < d * 2 ^ k) by nia.
  destruct (rne_neg n d k Hd Hn Hb' Hk) as (e & m & He & Hek & Hm & Herr & Hr).
  exists e, m. rewrite Hs in Hr. repeat split; try lia; [|exact Hr].
  set (W := 2 ^ (- e)) in *.
  apply (Z.mul_le_mono_pos_l _ _ d Hd).
  replace (d * Z.abs (2 * (m * D - Z.abs N * W))) with (D * Z.abs (2 * (m * d - Z.abs n * W))).
  - nia.
  - rewrite <- (Z.abs_eq D) at 1 by lia. rewrite <- (Z.abs_eq d) at 2 by lia.
    rewrite <- !Z.abs_mul. f_equal. nia.
Qed.

(* ================= as_unix_seconds ================= *)

(* |u - num/den| <= 2^-b, for a double u = fm * 2^fe with fe < 0, without fractions *)
Definition fl_close (u : fl) (num den b : Z) : Prop :=
  fe u < 0 /\ 2 ^ b * Z.abs (den * fm u - num * 2 ^ (- fe u)) <= den * 2 ^ (- fe u).

Definition fl_normal (u : fl) : Prop := 2 ^ 52 <= Z.abs (fm u) < 2 ^ 53.

Lemma of_Z_1000 : of_Z 1000 = {| fm := 8796093022208000; fe := -43 |}.
Proof. vm_compute. reflexivity. Qed.
Lemma of_Z_1000000 : of_Z 1000000 = {| fm := 8589934592000000; fe := -33 |}.
Proof. vm_compute. reflexivity. Qed.

(* a rounded quotient, described once for both representations rne may return *)
Lemma rne_result_close n d N D k :
  0 < d -> 0 < D -> n * D = N * d -> N <> 0 -> Z.abs N < D * 2 ^ k -> 0 <= k <= 51 ->
  let u := rne n d in
  fl_close u N D (54 - k) /\ fl_normal u /\ (0 < N -> 0 < fm u) /\ (N < 0 -> fm u < 0).
Proof.
  intros Hd HD E HN Hb Hk.
  destruct (rne_ratio n d N D k Hd HD E HN Hb ltac:(lia)) as (e & m & He & Hek & Hm & Herr & Hr).
  cbv zeta. unfold fl_close, fl_normal.
  set (W := 2 ^ (- e)) in *.
  assert (HW : 2 ^ (53 - k) <= W) by (apply pow2_le; lia).
  assert (P2 : 2 ^ (54 - k) = 2 * 2 ^ (53 - k)).
  { replace (54 - k) with (Z.succ (53 - k)) by lia. rewrite Z.pow_succ_r by lia. reflexivity. }
  pose proof (pow2_pos (53 - k) ltac:(lia)) as PB.
  destruct Hr as [[Hm' ->]|[Hm' ->]]; cbn [fm fe].
  - fold W. split; [split; [lia|]|split; [|split; intros; nia]].
    + assert (Z.abs (D * (Z.sgn N * m) - N * W) = Z.abs (m * D - Z.abs N * W)) as ->.
      { destruct (Z.sgn_spec N) as [[? ->]|[[? ->]|[? ->]]]; [|lia|].
        - rewrite (Z.abs_eq N) by lia. f_equal. ring.
        - rewrite (Z.abs_neq N) by lia. rewrite <- Z.abs_opp. f_equal. ring. }
      rewrite Z.abs_mul in Herr. change (Z.abs 2) with 2 in Herr.
      pose proof (Z.abs_nonneg (m * D - Z.abs N * W)) as XP.
      set (X := Z.abs (m * D - Z.abs N * W)) in *. rewrite P2.
      assert (2 ^ (53 - k) * (2 * X) <= W * D) by (apply Z.mul_le_mono_nonneg; lia).
      lia.
    + rewrite Z.abs_mul. destruct (Z.sgn_spec N) as [[? ->]|[[? ->]|[? ->]]]; [|lia|];
        cbn [Z.abs Pos.mul]; rewrite ?Z.mul_1_l, (Z.abs_eq m) by lia; lia.
  - assert (WW : W = 2 * 2 ^ (- (e + 1))).
    { unfold W. replace (- e) with (Z.succ (- (e + 1))) by lia. rewrite Z.pow_succ_r by lia. reflexivity. }
    set (W' := 2 ^ (- (e + 1))) in *. subst m.
    split; [split; [lia|]|split; [|split; intros; nia]].
    + assert (2 * Z.abs (D * (Z.sgn N * 2 ^ 52) - N * W') = Z.abs (2 ^ 53 * D - Z.abs N * W)) as EE.
      { change (2 ^ 53) with (2 * 2 ^ 52). rewrite WW.
        destruct (Z.sgn_spec N) as [[? ->]|[[? ->]|[? ->]]]; [|lia|].
        - rewrite (Z.abs_eq N) by lia.
          replace (2 * 2 ^ 52 * D - N * (2 * W')) with (2 * (D * (1 * 2 ^ 52) - N * W')) by ring.
          rewrite Z.abs_mul. reflexivity.
        - rewrite (Z.abs_neq N) by lia.
          replace (2 * 2 ^ 52 * D - - N * (2 * W')) with ((-2) * (D * (-1 * 2 ^ 52) - N * W')) by ring.
          rewrite Z.abs_mul. reflexivity. }
      rewrite Z.abs_mul in Herr. change (Z.abs 2) with 2 in Herr. rewrite <- EE in Herr.
      pose proof (Z.abs_nonneg (D * (Z.sgn N * 2 ^ 52) - N * W')) as XP.
      set (X := Z.abs (D * (Z.sgn N * 2 ^ 52) - N * W')) in *. rewrite P2.
      assert (2 ^ (53 - k) * (2 * (2 * X)) <= (2 * W') * D) by (apply Z.mul_le_mono_nonneg; lia).
      lia.
    + rewrite Z.abs_mul. destruct (Z.sgn_spec N) as [[? ->]|[[? ->]|[? ->]]]; [|lia|];
        cbn [Z.abs Pos.mul]; rewrite ?Z.mul_1_l; cbn; lia.
Qed.

Lemma of_Z_exact N : N <> 0 -> Z.abs N < 2 ^ 53 ->
  fe (of_Z N) <= 0 /\ fm (of_Z N) = N * 2 ^ (- fe (of_Z N)) /\ fl_normal (of_Z N).
Proof.
  intros H1 H2. unfold of_Z. change 1 with (2 ^ 0).
  destruct (rne_exact_val N 0 H1 H2 ltac:(lia)) as (A & B & C & _).
  change (2 ^ 0) with 1 in *. rewrite Z.mul_1_r in B. split; [lia|]. split; assumption.
Qed.

(* fl(N / 1000.0) for an integer N: within 2^-21 of N/1000 *)
Lemma div1000_close N : N <> 0 -> Z.abs N < 1000 * 2 ^ 33 ->
  let u := fdiv (of_Z N) (of_Z 1000) in
  fl_close u N 1000 21 /\ fl_normal u /\ (0 < N -> 0 < fm u) /\ (N < 0 -> fm u < 0).
Proof.
  intros HN Hb. cbv zeta.
  destruct (of_Z_exact N HN ltac:(lia)) as (Xe & Xm & _).
  rewrite of_Z_1000. unfold fdiv. cbn [fm fe].
  change (Z.sgn 8796093022208000) with 1. change (Z.abs 8796093022208000) with (1000 * 2 ^ 43).
  set (x := of_Z N) in *. rewrite Z.mul_1_r.
  pose proof (pow2_pos (- fe x) ltac:(lia)) as PX.
  destruct (0 <=? fe x - -43) eqn:C.
  - pose proof (pow2_pos (fe x - -43) ltac:(lia)) as PE.
    apply (rne_result_close _ _ N 1000 33); try lia.
    rewrite Xm.
    assert (2 ^ (- fe x) * 2 ^ (fe x - -43) = 2 ^ 43) by (rewrite <- pow2_add by lia; f_equal; lia).
    nia.
  - pose proof (pow2_pos (- (fe x - -43)) ltac:(lia)) as PE.
    apply (rne_result_close _ _ N 1000 33); try lia.
    rewrite Xm.
    assert (2 ^ 43 * 2 ^ (- (fe x - -43)) = 2 ^ (- fe x)) by (rewrite <- pow2_add by lia; f_equal; lia).
    nia.
Qed.

Lemma cds_unix_seconds_is t :
  cds_unix_seconds t = fdiv (of_Z (cds_instant_ms t)) (of_Z 1000).
Proof.
  unfold cds_unix_seconds, cds_instant_ms, convert_ccsds_days_to_unix_days, DAYS_CCSDS_TO_UNIX, MS_PER_DAY.
  reflexivity.
Qed.

Lemma cds_valid_instant_range t : cds_valid t -> Z.abs (cds_instant_ms t) < 1000 * 2 ^ 33.
Proof. unfold cds_valid, cds_instant_ms. intros. change (2 ^ 33) with 8589934592. lia. Qed.

(* as_unix_seconds: 0.0 at the Unix epoch, otherwise within 2^-21 s of the exact instant,
   with the sign of the instant *)
Lemma cds_unix_seconds_close t : cds_valid t ->
  let u := cds_unix_seconds t in let i := cds_instant_ms t in
  (i = 0 -> u = fzero) /\
  (i <> 0 -> fl_close u i 1000 21 /\ fl_normal u /\ (0 < i -> 0 < fm u) /\ (i < 0 -> fm u < 0)).
Proof.
  intros V. cbv zeta. rewrite cds_unix_seconds_is. split.
  - intros ->. vm_compute. reflexivity.
  - intros H. apply div1000_close; [exact H|apply cds_valid_instant_range, V].
Qed.
