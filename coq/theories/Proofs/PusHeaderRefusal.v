(* C01's refusal clause seen through the PUS classes.  PusTc / PusTm / Service1Tm hand out their
   primary header (tc.sp_header, tm.space_packet_header, report.pus_tm.sp_header, and the
   packet_id / packet_seq_control objects inside); none of the setters on that route validates.
   Every serialisation route of these classes packs the primary header FIRST
   (SpacePacketHeader.pack()), so an APID / sequence count / data length pushed out of range
   (tc.sp_header.seq_count = 20000) is refused with ValueError on every one of them; nothing is
   encoded and the object -- including its cached CRC -- is left as it is. *)
From Coq Require Import ZArith List Bool.
From SP Require Import Base.Result Base.Bytes Base.Crc16 Model.SpacePacket Spec.SpacePacketSpec
  Proofs.SpacePacketProofs Model.PusTc Model.PusTm Model.PusTcHist Model.PusTmHist Model.Srv1.
Import ListNotations.
Open Scope Z_scope.

Theorem tc_header_out_of_range_refused t : ~ sph_in_range (tc_sph t) ->
  tc_pack t = Err EValue /\ tc_pack_norecalc t = Err EValue /\ tc_calc_crc t = Err EValue /\
  tc_to_space_packet_pack t = Err EValue /\ tc_view t = Err EValue.
Proof.
  intros N. pose proof (sph_pack_out_of_range _ N) as E.
  assert (P : tc_pack t = Err EValue) by (unfold tc_pack; rewrite E; reflexivity).
  assert (C : tc_calc_crc t = Err EValue) by (unfold tc_calc_crc; rewrite E; reflexivity).
  repeat split; try assumption.
  - unfold tc_pack_norecalc. destruct (tc_crc t); [rewrite E; reflexivity|exact P].
  - unfold tc_to_space_packet_pack. rewrite C. reflexivity.
  - unfold tc_view. rewrite C. reflexivity.
Qed.

(* on the live-object model: every serialising operation answers ValueError and leaves the object
   unchanged *)
Definition tcx_serialises (o : tcx_op) : Prop :=
  match o with XPack | XPackNoRecalc | XCalcCrc | XView | XRoundtrip | XSwitch => True | _ => False end.

Theorem tcx_header_out_of_range_refused t0 t o : ~ sph_in_range (tc_sph t) -> tcx_serialises o ->
  tcx_step t0 t o = (t, Err EValue).
Proof.
  intros N S. destruct (tc_header_out_of_range_refused t N) as (P & Q & C & _ & V).
  destruct o; try contradiction; cbn [tcx_step]; rewrite ?P, ?Q, ?C, ?V; reflexivity.
Qed.

Theorem tm_header_out_of_range_refused t : ~ sph_in_range (tm_sph t) ->
  tm_pack t = Err EValue /\ tm_pack_norecalc t = Err EValue /\ tm_calc_crc t = Err EValue /\
  tm_to_space_packet_pack t = Err EValue /\ tm_view t = Err EValue.
Proof.
  intros N. pose proof (sph_pack_out_of_range _ N) as E.
  assert (P : tm_pack t = Err EValue) by (unfold tm_pack; rewrite E; reflexivity).
  assert (C : tm_calc_crc t = Err EValue) by (unfold tm_calc_crc; rewrite E; reflexivity).
  repeat split; try assumption.
  - unfold tm_pack_norecalc. destruct (tm_crc t); [rewrite E; reflexivity|exact P].
  - unfold tm_to_space_packet_pack. rewrite C. reflexivity.
  - unfold tm_view. rewrite C. reflexivity.
Qed.

Definition tmx_serialises (o : tmx_op) : Prop :=
  match o with YPack | YPackNoRecalc | YCalcCrc | YView | YRoundtrip | YSwitch => True | _ => False end.

Theorem tmx_header_out_of_range_refused t0 t o : ~ sph_in_range (tm_sph t) -> tmx_serialises o ->
  tmx_step t0 t o = (t, Err EValue).
Proof.
  intros N S. destruct (tm_header_out_of_range_refused t N) as (P & Q & C & _ & V).
  destruct o; try contradiction; cbn [tmx_step]; rewrite ?P, ?Q, ?C, ?V; reflexivity.
Qed.

(* Service1Tm.pack() is its telemetry packet's pack() *)
Theorem srv1_header_out_of_range_refused s : ~ sph_in_range (tm_sph (s1_tm s)) ->
  srv1_pack s = Err EValue.
Proof.
  intros N. destruct (tm_header_out_of_range_refused _ N) as (P & _).
  unfold srv1_pack. rewrite P. reflexivity.
Qed.

(* non-vacuity: tc.sp_header.seq_count = 20000 on PusTc(17, 1) *)
Example tc_seq_count_20000 :
  exists t, tc_new 17 1 0 [] 0 0 15 = Ok t /\
    fst (tcx_step t (fst (tcx_step t t (XSetHdr 5 20000))) XPack) = fst (tcx_step t t (XSetHdr 5 20000)) /\
    snd (tcx_step t (fst (tcx_step t t (XSetHdr 5 20000))) XPack) = Err EValue.
Proof. eexists. split; [vm_compute; reflexivity|]. split; vm_compute; reflexivity. Qed.
