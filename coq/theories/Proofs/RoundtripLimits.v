(* C06 (gap 5): the limits of the Finished round trip stated explicitly; Metadata equality both
   ways; instances of the refusal theorems. *)
From Coq Require Import ZArith List Bool Lia.
From SP Require Import Base.Result Base.Bytes Base.BytesFacts Base.Utf8
  Model.PduHeader Spec.PduHeaderSpec Model.FileDirective Proofs.FileDirectiveProofs Model.Lv Model.Tlv Spec.TlvSpec
  Model.Finished Model.Metadata Model.Nak Spec.PduBSpec Spec.PduCSpec
  Proofs.FinishedProofs Proofs.MetadataProofs Proofs.NakProofs.
Import ListNotations.
Open Scope Z_scope.

(* ======================= Finished ======================= *)
(* The complement of fin_eq_roundtrip.  A parameter set that carries a fault location together
   with condition code NO_ERROR / UNSUPPORTED_CHECKSUM_TYPE is accepted by the constructor, but the
   standard has no place for that fault location in the PDU: it is not transmitted, the decoded
   object has none, and == between the decoded and the original object is False (both ways). *)
Theorem fin_eq_roundtrip_nonstd c q : fin_valid c q -> ~ fin_params_std q ->
  fin_eq (fin_pdu_of c (fin_norm q)) (fin_pdu_of c q) = Ok false /\
  fin_eq (fin_pdu_of c q) (fin_pdu_of c (fin_norm q)) = Ok false /\
  fn_fault (fin_norm q) = None /\ fn_fault q <> None.
Proof.
  intros V S. pose proof V as (C & Vc & Vd & Vf & Vr & Vl & D).
  unfold fin_params_std, fin_fault_emitted in S.
  assert (A : fault_allowed (fn_cc q) = false) by (destruct (fault_allowed (fn_cc q)); [contradiction S; reflexivity|reflexivity]).
  rewrite A in S. destruct (fn_fault q) as [t|] eqn:Ft; [|contradiction S; reflexivity].
  assert (RS : resps_eq (fn_resps q) (map resp_norm (fn_resps q)) = Ok true).
  { unfold resps_eq. rewrite map_length, Nat.eqb_refl. cbn [negb].
    clear -Vr. induction Vr as [|r l Hr _ IH]; cbn [map resps_eq_elems]; [reflexivity|].
    destruct (resp_valid_value r Hr) as (v & E1 & E2). unfold fsresp_eq. rewrite E2, E1. cbn [bind].
    rewrite bytes_eqb_refl. exact IH. }
  unfold fin_eq, fin_pdu_of. cbn [fin_params fin_fdir].
  unfold fn_eq, fin_norm, fin_fault_emitted. cbn [fn_cc fn_dc fn_fs fn_resps fn_fault]. rewrite !Z.eqb_refl, A, Ft. cbn [negb].
  rewrite resps_eq_norm by exact Vr. rewrite RS. cbn [bind negb fault_eq].
  repeat split. discriminate.
Qed.

Definition ex_fin_nonstd : FinParams :=
  {| fn_cc := 0; fn_dc := 0; fn_fs := 2; fn_resps := []; fn_fault := Some {| tlv_type := 6; tlv_value := [1; 2] |} |}.
Example fin_eq_roundtrip_nonstd_example :
  fin_valid (ex_conf 0 0) ex_fin_nonstd /\ ~ fin_params_std ex_fin_nonstd /\
  fin_layout (ex_conf 0 0) ex_fin_nonstd = [44; 0; 2; 147; 1; 2; 255; 255; 255; 255; 255; 255; 5; 2] /\
  exists p p', fin_new (ex_conf 0 0) ex_fin_nonstd = Ok (p, ex_conf 0 0, ex_fin_nonstd) /\
    fin_unpack (fin_layout (ex_conf 0 0) ex_fin_nonstd) = Ok p' /\
    fin_eq p' p = Ok false /\ fin_eq p p' = Ok false /\ fin_pack p' = fin_pack p.
Proof.
  assert (V : fin_valid (ex_conf 0 0) ex_fin_nonstd).
  { unfold fin_valid. split; [apply ex_conf_valid; left; reflexivity|].
    split; [unfold cc_valid, ex_fin_nonstd; cbn [fn_cc]; lia|]. split; [left; reflexivity|].
    split; [unfold ex_fin_nonstd; cbn [fn_fs]; lia|]. split; [constructor|].
    split; [unfold fault_valid, ex_fin_nonstd, wf_bytes; cbn [fn_fault tlv_type tlv_value]; repeat split; try reflexivity;
            try (vm_compute; congruence); repeat constructor; lia|].
    vm_compute. congruence. }
  assert (S : ~ fin_params_std ex_fin_nonstd) by (intros H; vm_compute in H; discriminate H).
  split; [exact V|]. split; [exact S|]. split; [vm_compute; reflexivity|].
  exists (fin_pdu_of (ex_conf 0 0) ex_fin_nonstd), (fin_pdu_of (ex_conf 0 0) (fin_norm ex_fin_nonstd)).
  split; [apply fin_new_ok; exact V|].
  split; [pose proof (fin_unpack_pack _ _ [] V ltac:(constructor)) as U; rewrite app_nil_r in U; exact U|].
  destruct (fin_eq_roundtrip_nonstd _ _ V S) as (E1 & E2 & _).
  split; [exact E1|]. split; [exact E2|]. rewrite fin_repack, fin_pack_layout by exact V. reflexivity.
Qed.

(* ======================= Metadata: equality both ways ======================= *)
Theorem md_eq_roundtrip_sym c q o :
  md_eqb (md_decoded c q o) (md_pdu_of c q o) = true /\ md_eqb (md_pdu_of c q o) (md_decoded c q o) = true.
Proof.
  split; [apply md_eq_roundtrip|].
  unfold md_eqb, md_decoded, md_pdu_of, mp_decoded, opts_decoded.
  cbn [md_fdir md_params md_src_lv md_dst_lv md_options mp_closure mp_cstype mp_fsize].
  rewrite fdir_eqb_refl, !Z.eqb_refl. unfold lv_eqb. rewrite !bytes_eqb_refl. cbn [andb].
  unfold options_eqb. destruct o as [[|t l]|]; cbn [opts_of]; apply opts_eqb_refl.
Qed.

(* ======================= instances of the refusal theorems ======================= *)
(* 260 filestore responses of 257 octets each: the data field would need 66 822 octets *)
Definition big_resp : fsresp :=
  {| fp_action := 0; fp_status := 0; fp_first := repeat 97 252; fp_second := []; fp_msg := [] |}.
Definition fin_too_long_q : FinParams :=
  {| fn_cc := 4; fn_dc := 0; fn_fs := 0; fn_resps := repeat big_resp 260; fn_fault := None |}.
Example fin_too_long_refused_example :
  conf_valid (ex_conf 1 0) /\ resp_valid big_resp /\ 65535 < fin_dlen (ex_conf 1 0) fin_too_long_q /\
  fin_new (ex_conf 1 0) fin_too_long_q = Err EValue.
Proof.
  split; [apply ex_conf_valid; [right|left]; reflexivity|]. split.
  { assert (Wf : wf_bytes (repeat 97 252)).
    { apply Forall_forall. intros x Hx. apply repeat_spec in Hx. subst x. lia. }
    unfold resp_valid, big_resp. cbn [fp_action fp_status fp_first fp_second fp_msg].
    split; [lia|]. split; [reflexivity|]. split; [lia|]. split; [reflexivity|].
    split; [vm_compute; discriminate|]. split; [vm_compute; reflexivity|]. split; [intros _; reflexivity|].
    split; [exact Wf|]. split; constructor. }
  split; [vm_compute; reflexivity|]. vm_compute. reflexivity.
Qed.

(* file size 2^32 with 32-bit fields *)
Definition md_too_large_p : MetadataPdu :=
  md_pdu_of (ex_conf 0 0) {| mp_closure := 0; mp_cstype := 0; mp_fsize := 4294967296; mp_src := Some [97]; mp_dst := Some [98] |} None.
Example md_file_size_refused_example :
  flag (cf_large (h_conf (fd_hdr (md_fdir md_too_large_p)))) /\
  ~ (0 <= mp_fsize (md_params md_too_large_p) < 256 ^ Z.of_nat (fss_width (h_conf (fd_hdr (md_fdir md_too_large_p))))) /\
  md_pack md_too_large_p = Err EValue.
Proof.
  split; [left; reflexivity|]. split; [vm_compute; intros [_ H]; discriminate H|]. vm_compute. reflexivity.
Qed.

(* end of scope 2^64 with 64-bit fields; an offset 2^32 with 32-bit fields *)
Definition nak_too_large_p64 : NakPdu :=
  nak_pdu_of (ex_conf 1 1) {| np_start := 0; np_end := 18446744073709551616; np_segs := [] |}.
Definition nak_too_large_p32 : NakPdu :=
  nak_pdu_of (ex_conf 0 0) {| np_start := 0; np_end := 100; np_segs := [(1, 2); (3, 4294967296)] |}.
Example nak_too_large_fails_example :
  flag (cf_large (nk_conf nak_too_large_p64)) /\
  ~ pair_ok (nak_w (nk_conf nak_too_large_p64)) (nk_start nak_too_large_p64, nk_end nak_too_large_p64) /\
  nak_pack nak_too_large_p64 = Err EStruct.
Proof.
  split; [right; reflexivity|]. split; [|vm_compute; reflexivity].
  unfold pair_ok, in_width. cbn [fst snd]. intros [_ [_ H]]. vm_compute in H. discriminate H.
Qed.
Example nak_too_large_32_example :
  cf_large (nk_conf nak_too_large_p32) = 0 /\
  Exists (fun se => fst se >= 2 ^ 32 \/ snd se >= 2 ^ 32) (nk_segs nak_too_large_p32) /\
  nak_pack nak_too_large_p32 = Err EValue.
Proof.
  split; [reflexivity|]. split; [|vm_compute; reflexivity].
  apply Exists_cons_tl. apply Exists_cons_hd. right. cbn [snd]. vm_compute. discriminate.
Qed.
