(* Non-vacuity of the hypotheses that occur in the generated C09 / C10 theorems (Props/C09.v,
   Props/C10.v cannot hold Examples: they are generated).  Each Example instantiates the
   hypotheses of one family of theorems with a concrete value and computes the conclusion. *)
From Coq Require Import ZArith List Bool Lia.
From SP Require Import Base.Result Base.Bytes Model.SpacePacket Spec.SpacePacketSpec
  Model.UslpHeader Model.UslpFrame Spec.UslpSpec Proofs.UslpProofs Proofs.UslpFrameProofs
  Model.Cds Spec.CdsSpec Proofs.CdsProofs Model.PusTm Model.ReqId Model.Fields Model.Srv1 Spec.Srv1Spec Proofs.Srv1Proofs.
Import ListNotations.
Open Scope Z_scope.

(* USLP: frame_consistent /\ frame_len_set /\ props_match (frame_prefix_rejected,
   frame_suffix_irrelevant) -- a fixed frame of 24 octets with insert zone, OCF and FECF *)
Definition x_frame : frame :=
  {| hdr := HPrim {| pbase := {| scid := 16; src_dest := 0; vcid := 55; map_id := 3 |};
                     frame_len := 23; bypass := 0; prot := 0; ocf_flag := 1; vcf_len := 0;
                     vcf_count := None |};
     ftfdf := {| rules := 0; ident := 0; fhp := Some 0; tfdz := [1; 2; 3; 4]; tsize := 7 |};
     izone := Some [0; 0; 0; 0]; ocf := Some [1; 2; 3; 4]; fecf := Some [3; 4] |}.
Definition x_props : fprops :=
  {| p_fixed := true; p_len := 24; iz_present := true; iz_size := 4; fecf_present := true; fecf_size := 2 |}.
Example frame_hyps_example :
  frame_consistent x_frame /\ frame_len_set x_frame /\ props_match x_frame x_props /\
  length (frame_layout (hdr_layout (hdr x_frame)) x_frame) = 24%nat /\
  frame_unpack (firstn 23 (frame_layout (hdr_layout (hdr x_frame)) x_frame))
               (ftype_of_rule (rules (ftfdf x_frame))) x_props = Err EInvalidLen.
Proof.
  split; [|split; [|split; [|split]]].
  - unfold frame_consistent, tfdf_consistent, phdr_valid, base_valid, vcf_valid; cbn.
    repeat split; try discriminate; try reflexivity.
  - unfold frame_len_set; cbn. reflexivity.
  - unfold props_match; cbn. repeat split; reflexivity.
  - reflexivity.
  - vm_compute. reflexivity.
Qed.

(* USLP headers: phdr_valid, base_valid (phdr_/thdr_prefix_rejected, *_no_overread) *)
Definition x_base : hbase := {| scid := 65535; src_dest := 1; vcid := 63; map_id := 15 |}.
Definition x_phdr : phdr :=
  {| pbase := x_base; frame_len := 65535; bypass := 1; prot := 1; ocf_flag := 1; vcf_len := 7;
     vcf_count := Some (256 ^ 7 - 1) |}.
Example uslp_hdr_hyps_example :
  base_valid x_base /\ phdr_valid x_phdr /\
  thdr_unpack (firstn 3 (thdr_layout x_base)) USLP_VERSION_NUMBER = Err EInvalidLen /\
  phdr_unpack (firstn 13 (phdr_layout x_phdr)) USLP_VERSION_NUMBER = Err EInvalidLen.
Proof.
  split; [|split; [|split]].
  - unfold base_valid; cbn. repeat split; discriminate.
  - unfold phdr_valid, base_valid, vcf_valid; cbn. repeat split; discriminate.
  - vm_compute. reflexivity.
  - vm_compute. reflexivity.
Qed.

(* CDS short time code: cds_packable (cds_suffix_irrelevant, cds_prefix_rejected) *)
Example cds_packable_example :
  cds_packable {| cdays := 65535; cms := 86399999 |} /\
  cds_unpack (cds_layout {| cdays := 65535; cms := 86399999 |} ++ [9]) =
  cds_unpack (cds_layout {| cdays := 65535; cms := 86399999 |}).
Proof. split; [unfold cds_packable; cbn; lia|vm_compute; reflexivity]. Qed.

(* PUS service 1: srv1_args_valid with its companions (srv1_prefix_rejected, srv1_unpack_layout_app):
   the step-failure report of Proofs/Srv1Proofs.v *)
Example srv1_hyps_example :
  srv1_args_valid 2047 6 16383 7 15 65535 [1; 2; 3] ex_h (Some (2, 65535)) (Some (4, 4294967295, [9; 8; 7])) /\
  srv1_shape_ok 6 (has (Some (2, 65535))) (has (Some (4, 4294967295, [9; 8; 7]))) /\
  cfg_matches {| up_ts_len := 3; up_step := 2; up_err := 4 |} (Some (2, 65535)) (Some (4, 4294967295, [9; 8; 7])).
Proof. exact srv1_args_valid_ex. Qed.
