(* Setter-invariant lemmas about the live-object histories of Model/MsgHist.v (MessageToUserTlv and the
   reserved CFDP messages), for EVERY object state, hence after every history:
     - observing (pack, classification, parameter parsers, conversions) never changes the object
     - an operation that raises leaves the object as it was
     - pack() has the length packet_len reports and is repeatable *)
From Coq Require Import ZArith List Bool Lia ZifyBool.
From SP Require Import Base.Result Base.Bytes Base.BytesFacts Model.Lv Model.Tlv Model.TlvHist Model.MsgToUser
  Model.MsgHist Proofs.LvProofs Proofs.TlvProofs.
Import ListNotations.
Open Scope Z_scope.

Definition is_observation (p : mop) : bool :=
  match p with MPack | MClassify | MParser _ | MToGeneric | MIsReserved | MToReserved => true | _ => false end.

Lemma msg_observation_pure o p : is_observation p = true -> snd (mstep o p) = o.
Proof.
  destruct p; cbn [is_observation]; try discriminate; intros _; cbn [mstep];
    try reflexivity; destruct (mo_reserved o); reflexivity.
Qed.

Lemma msg_refused_keeps o p e o' : mstep o p = (Err e, o') -> o' = o.
Proof.
  destruct p; cbn [mstep]; intros H;
    try (inversion H; subst; reflexivity);
    try (destruct (mo_reserved o); inversion H; subst; reflexivity).
  destruct (tlv_new ty v); inversion H; subst; reflexivity.
Qed.

Lemma msg_pack_len o b o' : mstep o MPack = (Ok b, o') -> len b = tlv_packet_len (mo_tlv o') /\ o' = o.
Proof.
  cbn [mstep]. intros H. inversion H; subst. split; [apply tlv_pack_len; first [assumption | congruence]|reflexivity].
Qed.

Lemma msg_pack_twice o b o' : mstep o MPack = (Ok b, o') -> fst (mstep o' MPack) = Ok b.
Proof. cbn [mstep]. intros H. inversion H; subst. cbn [fst]. first [assumption | congruence | reflexivity]. Qed.

(* the parsers read the CURRENT wrapped TLV: after o.tlv = CfdpTlv(ty, v) they answer as a message
   freshly made of (ty, v) would *)
Lemma msg_parser_follows_tlv o ty v t k :
  tlv_new ty v = Ok t ->
  fst (mstep (snd (mstep o (MSetTlv ty v))) (MParser k)) =
  fst (mstep {| mo_reserved := mo_reserved o; mo_tlv := t |} (MParser k)).
Proof. intros H. cbn [mstep]. rewrite H. cbn [snd]. reflexivity. Qed.
