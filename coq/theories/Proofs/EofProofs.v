(* EOF PDU (Model/Eof.v) against Spec/PduASpec.v. *)
From Coq Require Import ZArith List Bool Lia ZifyBool.
From SP Require Import Base.Result Base.Bytes Base.BytesFacts Base.Crc16 Base.Crc16Facts
  Model.PduHeader Spec.PduHeaderSpec Proofs.PduHeaderProofs Model.FileDirective
  Proofs.FileDirectiveProofs Spec.TlvSpec Model.Lv Model.Tlv Proofs.TlvProofs
  Spec.PduASpec Proofs.DirectiveProofs Proofs.AckProofs Model.Eof.
Import ListNotations.
Open Scope Z_scope.
Ltac Zify.zify_post_hook ::= Z.to_euclidean_division_equations.

(* ================= the object the constructor builds ================= *)

Definition fault_tlv (o : option bytes) : option tlv :=
  match o with None => None | Some v => Some {| tlv_type := 6; tlv_value := v |} end.

Definition eof_pdu_of (c : PduConfig) (q : EofParams) : EofPdu :=
  {| eof_fd := directive_fdir c 0 4 (eof_params_layout c q); eof_cc := ep_cc q;
     eof_checksum := ep_checksum q; eof_size := ep_size q; eof_fault := fault_tlv (ep_fault q) |}.

(* everything of eof_valid except the range of the file size *)
Definition eof_wf (c : PduConfig) (q : EofParams) : Prop :=
  conf_valid c /\ 0 <= ep_cc q <= 15 /\ wf_bytes (ep_checksum q) /\ len (ep_checksum q) = 4 /\
  match ep_fault q with None => True | Some v => wf_bytes v /\ len v <= 255 end.

Lemma eof_valid_wf c q : eof_valid c q -> eof_wf c q.
Proof. intros (C & Rc & Wc & Lc & _ & F). unfold eof_wf. tauto. Qed.

Definition fault_len (o : option bytes) : Z := match o with None => 0 | Some v => 2 + len v end.

Lemma fss_octets_cases c : flag (cf_large c) ->
  (cf_large c = 0 /\ fss_octets c = 4%nat) \/ (cf_large c = 1 /\ fss_octets c = 8%nat).
Proof. intros [L | L]; unfold fss_octets; rewrite L; [left|right]; split; reflexivity. Qed.

Lemma eof_params_len c q : len (ep_checksum q) = 4 ->
  len (eof_params_layout c q) = 5 + Z.of_nat (fss_octets c) + fault_len (ep_fault q).
Proof.
  intros L4. unfold eof_params_layout. rewrite !len_app, L4, len_be_encode. change (len [ep_cc q * 16]) with 1.
  unfold fault_len. destruct (ep_fault q) as [v|]; [unfold entity_layout; rewrite tlv_layout_len|change (len []) with 0]; lia.
Qed.

Lemma eof_ok c q : eof_wf c q -> directive_ok c 0 4 (eof_params_layout c q).
Proof.
  intros (C & Rc & Wc & Lc & F). unfold directive_ok. split; [exact C|]. split; [left; reflexivity|].
  split; [lia|]. split.
  - unfold eof_params_layout. rewrite !wf_bytes_app. split; [constructor; [lia|constructor]|].
    split; [exact Wc|]. split; [apply be_encode_wf|].
    destruct (ep_fault q) as [v|]; [|constructor]. destruct F as [Wv Lv]. pose proof (len_nonneg v).
    unfold entity_layout, tlv_layout, T_ENTITY_ID. constructor; [lia|]. constructor; [lia|exact Wv].
  - rewrite eof_params_len by exact Lc.
    assert (FL : 0 <= fault_len (ep_fault q) <= 257).
    { unfold fault_len. destruct (ep_fault q) as [v|]; [|lia]. pose proof (len_nonneg v). destruct F. lia. }
    destruct (fss_octets_cases c (conf_large_flag c C)) as [[_ E] | [_ E]]; rewrite E;
      destruct (crc_octets_cases c (conf_crc_flag c C)) as [[_ E'] | [_ E']]; lia.
Qed.

(* ================= _calculate_directive_param_field_len ================= *)

Definition eof_plen (c : PduConfig) (fault : option tlv) : Z :=
  (if cf_large c =? 1 then 13 else 9) + (match fault with Some t => tlv_packet_len t | None => 0 end)
  + (if cf_crc c =? 1 then 2 else 0).

Lemma eof_calc_len_spec p :
  eof_calc_len p =
  do f <- fdir_set_param_len (eof_fd p) (eof_plen (h_conf (fd_hdr (eof_fd p))) (eof_fault p));
  Ok (eof_with_fd p f).
Proof.
  unfold eof_calc_len, eof_plen, hdr_large_file, FILE_LARGE, CRC_WITH_CRC. cbv zeta.
  destruct (cf_large (h_conf (fd_hdr (eof_fd p))) =? 1), (eof_fault p),
    (cf_crc (h_conf (fd_hdr (eof_fd p))) =? 1); rewrite ?Z.add_0_r; reflexivity.
Qed.

Lemma eof_plen_params c q : conf_valid c -> len (ep_checksum q) = 4 ->
  eof_plen (conf_set_dir c 0) (fault_tlv (ep_fault q)) = len (eof_params_layout c q) + crc_octets c.
Proof.
  intros C L4. rewrite eof_params_len by exact L4. unfold eof_plen, fault_len, crc_octets.
  cbn [conf_set_dir cf_large cf_crc].
  destruct (fss_octets_cases c (conf_large_flag c C)) as [[L0 L1] | [L0 L1]]; rewrite L0, L1; cbn [Z.eqb Pos.eqb];
    destruct (ep_fault q) as [v|]; cbn [fault_tlv]; unfold tlv_packet_len; cbn [tlv_value]; lia.
Qed.

(* ================= constructor, setter, pack ================= *)

Theorem eof_new_ok c q : eof_wf c q ->
  eof_new c (ep_checksum q) (ep_size q) (fault_tlv (ep_fault q)) (ep_cc q) = Ok (eof_pdu_of c q, c).
Proof.
  intros V. pose proof V as (C & Rc & Wc & Lc & F). pose proof (eof_ok c q V) as O.
  unfold eof_new, DIR_TOWARDS_RECEIVER, DT_EOF. rewrite Lc. cbn [Z.eqb Pos.eqb negb].
  rewrite fdir_new_ok; [|lia|cbn [conf_set_dir cf_src cf_dst]; apply conf_widths_eq; exact C]. cbn [bind].
  rewrite eof_calc_len_spec. cbn [eof_fd eof_fault fdir_of fd_hdr h_conf].
  rewrite eof_plen_params by assumption.
  rewrite fdir_set_param_len_of by (destruct O as (_ & _ & _ & _ & L); lia). reflexivity.
Qed.

(* fault_location setter on the object of (c, q): the object of (c, q with the new fault location) *)
Definition eof_with_q_fault (q : EofParams) (o : option bytes) : EofParams :=
  {| ep_cc := ep_cc q; ep_checksum := ep_checksum q; ep_size := ep_size q; ep_fault := o |}.

Lemma eof_with_q_fault_id q : eof_with_q_fault q (ep_fault q) = q.
Proof. destruct q; reflexivity. Qed.

Lemma eof_wf_with_fault c q o : eof_wf c q ->
  match o with None => True | Some v => wf_bytes v /\ len v <= 255 end -> eof_wf c (eof_with_q_fault q o).
Proof. intros (C & Rc & Wc & Lc & _) F. unfold eof_wf, eof_with_q_fault. cbn [ep_cc ep_checksum ep_size ep_fault]. tauto. Qed.

Lemma eof_set_fault_any c q n x o : eof_wf c q ->
  match o with None => True | Some v => wf_bytes v /\ len v <= 255 end ->
  eof_set_fault {| eof_fd := fdir_of (conf_set_dir c 0) 4 n; eof_cc := ep_cc q; eof_checksum := ep_checksum q;
                   eof_size := ep_size q; eof_fault := x |} (fault_tlv o)
  = Ok (eof_pdu_of c (eof_with_q_fault q o)).
Proof.
  intros V F. pose proof (eof_wf_with_fault c q o V F) as V'. pose proof V as (C & Rc & Wc & Lc & _).
  pose proof (eof_ok c _ V') as O'.
  unfold eof_set_fault. rewrite eof_calc_len_spec.
  unfold eof_with_fault. cbn [eof_fd eof_fault eof_cc eof_checksum eof_size fdir_of fd_hdr h_conf].
  change (fault_tlv o) with (fault_tlv (ep_fault (eof_with_q_fault q o))) at 1.
  rewrite (eof_plen_params c (eof_with_q_fault q o)) by assumption.
  change {| fd_hdr := {| h_type := 0; h_meta := 0; h_dlen := n + 1; h_conf := conf_set_dir c 0 |}; fd_type := 4 |}
    with (fdir_of (conf_set_dir c 0) 4 n).
  rewrite fdir_set_param_len_of by (destruct O' as (_ & _ & _ & _ & L); lia). reflexivity.
Qed.

Lemma eof_set_fault_spec c q o : eof_wf c q ->
  match o with None => True | Some v => wf_bytes v /\ len v <= 255 end ->
  eof_set_fault (eof_pdu_of c q) (fault_tlv o) = Ok (eof_pdu_of c (eof_with_q_fault q o)).
Proof. intros V F. apply (eof_set_fault_any c q _ _ o V F). Qed.

Lemma cc_octet cc : 0 <= cc <= 15 ->
  Z.shiftl cc 4 = cc * 16 /\ 0 <= cc * 16 < 256 /\ Z.shiftr (Z.land (cc * 16) 240) 4 = cc.
Proof.
  intros R. destruct (ackoct_of cc 0 R ltac:(lia)) as (_ & A2 & A3 & _). rewrite Z.add_0_r in A2, A3.
  rewrite shiftl_mul by lia. change (2 ^ 4) with 16. repeat split; try lia; exact A3.
Qed.

Lemma eof_pack_prefix c q : eof_wf c q ->
  let p := eof_pdu_of c q in
  (do b <- fdir_pack (eof_fd p); do b <- ba_append b (Z.shiftl (eof_cc p) 4); Ok (b ++ eof_checksum p))
  = Ok (fdir_layout (eof_fd p) ++ [ep_cc q * 16] ++ ep_checksum q).
Proof.
  intros V p. pose proof V as (C & Rc & _). pose proof (eof_ok c q V) as O.
  unfold p, eof_pdu_of. cbn [eof_fd eof_cc eof_checksum].
  rewrite fdir_pack_layout by (apply directive_fdir_valid; exact O). cbn [bind].
  destruct (cc_octet _ Rc) as (S1 & S2 & _). rewrite S1, ba_append_ok by exact S2. cbn [bind].
  rewrite <- app_assoc. reflexivity.
Qed.

Theorem eof_pack_layout c q : eof_valid c q -> eof_pack (eof_pdu_of c q) = Ok (eof_layout c q).
Proof.
  intros V. pose proof (eof_valid_wf c q V) as Vw. pose proof V as (C & Rc & Wc & Lc & Rs & F).
  pose proof (eof_ok c q Vw) as O.
  unfold eof_pack. pose proof (eof_pack_prefix c q Vw) as P. cbv zeta in P.
  destruct (fdir_pack (eof_fd (eof_pdu_of c q))) as [b0|] eqn:E0; [|discriminate]. cbn [bind] in P |- *.
  destruct (ba_append b0 (Z.shiftl (eof_cc (eof_pdu_of c q)) 4)) as [b1|] eqn:E1; [|discriminate]. cbn [bind] in P |- *.
  change (eof_checksum (eof_pdu_of c q)) with (ep_checksum q) in P |- *.
  apply Ok_inj in P. rewrite P.
  assert (S : (if hdr_large_file (fd_hdr (eof_fd (eof_pdu_of c q))) then struct_pack 8 (eof_size (eof_pdu_of c q))
               else struct_pack 4 (eof_size (eof_pdu_of c q))) = Ok (be_encode (fss_octets c) (ep_size q))).
  { unfold hdr_large_file, FILE_LARGE, eof_pdu_of. cbn [eof_fd eof_size directive_fdir fdir_of fd_hdr h_conf conf_set_dir cf_large].
    destruct (fss_octets_cases c (conf_large_flag c C)) as [[L0 L1] | [L0 L1]]; rewrite L0, L1 in *; cbn [Z.eqb Pos.eqb];
      apply struct_pack_ok; exact Rs. }
  rewrite S. cbn [bind].
  assert (T : (match eof_fault (eof_pdu_of c q) with
               | Some t => do tb <- tlv_pack t; Ok (((fdir_layout (eof_fd (eof_pdu_of c q)) ++ [ep_cc q * 16] ++ ep_checksum q) ++
                                                     be_encode (fss_octets c) (ep_size q)) ++ tb)
               | None => Ok ((fdir_layout (eof_fd (eof_pdu_of c q)) ++ [ep_cc q * 16] ++ ep_checksum q) ++
                             be_encode (fss_octets c) (ep_size q))
               end) = Ok (directive_pre c 0 4 (eof_params_layout c q))).
  { rewrite directive_pre_eq.
    change (eof_fd (eof_pdu_of c q)) with (directive_fdir c 0 4 (eof_params_layout c q)).
    remember (directive_fdir c 0 4 (eof_params_layout c q)) as fd eqn:Hfd. clear Hfd.
    change (eof_fault (eof_pdu_of c q)) with (fault_tlv (ep_fault q)). unfold eof_params_layout.
    destruct (ep_fault q) as [v|]; cbn [fault_tlv].
    - destruct F as [Wv Lv]. rewrite tlv_pack_ok by lia. cbn [bind]. unfold entity_layout, T_ENTITY_ID.
      rewrite <- !app_assoc. reflexivity.
    - rewrite <- !app_assoc. rewrite app_nil_r. reflexivity. }
  rewrite T. cbn [bind].
  exact (pack_trailer c 0 4 (eof_params_layout c q) O).
Qed.

(* a file size that does not fit the 4-octet (8-octet with the large file flag) field makes packing
   fail (struct.error); no octets are produced, nothing is truncated *)
Theorem eof_too_large_fails c q : eof_wf c q -> ~ (0 <= ep_size q < 256 ^ Z.of_nat (fss_octets c)) ->
  eof_pack (eof_pdu_of c q) = Err EStruct.
Proof.
  intros Vw Rs. pose proof Vw as (C & _).
  unfold eof_pack. pose proof (eof_pack_prefix c q Vw) as P. cbv zeta in P.
  destruct (fdir_pack (eof_fd (eof_pdu_of c q))) as [b0|] eqn:E0; [|discriminate]. cbn [bind] in P |- *.
  destruct (ba_append b0 (Z.shiftl (eof_cc (eof_pdu_of c q)) 4)) as [b1|] eqn:E1; [|discriminate]. cbn [bind] in P |- *.
  unfold hdr_large_file, FILE_LARGE, eof_pdu_of. cbn [eof_fd eof_size directive_fdir fdir_of fd_hdr h_conf conf_set_dir cf_large].
  destruct (fss_octets_cases c (conf_large_flag c C)) as [[L0 L1] | [L0 L1]]; rewrite L0, L1 in *; cbn [Z.eqb Pos.eqb];
    rewrite struct_pack_err by exact Rs; reflexivity.
Qed.

Theorem eof_data_field_len c q : eof_wf c q ->
  let p := eof_pdu_of c q in
  h_dlen (fd_hdr (eof_fd p)) = len (eof_layout c q) - hdr_header_len (fd_hdr (eof_fd p)) /\
  eof_packet_len p = len (eof_layout c q) /\
  h_dlen (fd_hdr (eof_fd p)) = 6 + Z.of_nat (fss_octets c) + fault_len (ep_fault q) + crc_octets c.
Proof.
  intros V. cbv zeta. destruct (directive_layout_len c 0 4 _ (eof_ok c q V)) as (L1 & _ & L3).
  unfold eof_layout, eof_packet_len, fdir_packet_len, eof_pdu_of. cbn [eof_fd].
  split; [exact L3|]. split; [symmetry; exact L1|].
  unfold directive_fdir, fdir_of. cbn [fd_hdr h_dlen]. rewrite eof_params_len by apply V. lia.
Qed.

(* ================= decoder ================= *)

Definition eof_body (f : fdir) (data : bytes) : res EofPdu :=
  let expected_min_len := fdir_header_len f + 9 in
  if expected_min_len >? len data then Err ETooShort else
  let current_idx := fdir_header_len f in
  do b <- py_get data current_idx;
  let cc := Z.shiftr (Z.land b 240) 4 in
  let current_idx := current_idx + 1 in
  let checksum := slice data current_idx (current_idx + 4) in
  let current_idx := current_idx + 4 in
  do r <- fdir_parse_fss f data current_idx;
  let '(current_idx, size) := r in
  let p := {| eof_fd := f; eof_cc := cc; eof_checksum := checksum; eof_size := size; eof_fault := None |} in
  if len data >? current_idx then
    do t <- entity_unpack (slice_from data current_idx);
    eof_set_fault p (Some t)
  else Ok p.

Lemma eof_unpack_eq d : eof_unpack d = with_prelude eof_body d.
Proof. reflexivity. Qed.

Lemma eof_body_layout c q : eof_valid c q ->
  let f := directive_fdir c 0 4 (eof_params_layout c q) in
  eof_body f (fdir_layout f ++ eof_params_layout c q) = Ok (eof_pdu_of c q).
Proof.
  intros V f. pose proof (eof_valid_wf c q V) as Vw. pose proof V as (C & Rc & Wc & Lc & Rs & F).
  pose proof (directive_fdir_valid _ _ _ _ (eof_ok c q Vw)) as FV. fold f in FV.
  pose proof (fdir_layout_len f FV) as HL. pose proof (fdir_header_len_range f FV) as HR.
  assert (LF : flag (cf_large (h_conf (fd_hdr f)))) by exact (conf_large_flag _ (proj1 (proj1 FV))).
  assert (NF : fss_n (h_conf (fd_hdr f)) = fss_octets c) by reflexivity.
  unfold eof_body. rewrite len_app, HL, eof_params_len by exact Lc.
  assert (N4 : 4 <= Z.of_nat (fss_octets c) <= 8)
    by (destruct (fss_octets_cases c (conf_large_flag c C)) as [[_ E] | [_ E]]; rewrite E; lia).
  assert (FL0 : 0 <= fault_len (ep_fault q))
    by (unfold fault_len; destruct (ep_fault q) as [v|]; [pose proof (len_nonneg v)|]; lia).
  match goal with |- context [?a >? ?b] => destruct (a >? b) eqn:E end; [lia|]. clear E.
  unfold eof_params_layout at 1. cbn [app]. rewrite get_first_param by exact FV. cbn [bind].
  destruct (cc_octet _ Rc) as (_ & _ & S3). rewrite S3.
  (* checksum *)
  assert (CK : slice (fdir_layout f ++ eof_params_layout c q) (fdir_header_len f + 1) (fdir_header_len f + 1 + 4)
               = ep_checksum q).
  { unfold eof_params_layout. apply slice_after_fdir; [exact FV|reflexivity|rewrite Lc; reflexivity]. }
  rewrite CK.
  (* file size *)
  set (pre := fdir_layout f ++ [ep_cc q * 16] ++ ep_checksum q).
  set (fl := match ep_fault q with None => [] | Some v => entity_layout v end).
  assert (LP : len pre = fdir_header_len f + 1 + 4).
  { unfold pre. rewrite !len_app, HL, Lc. change (len [ep_cc q * 16]) with 1. lia. }
  assert (D : fdir_layout f ++ eof_params_layout c q
              = pre ++ be_encode (fss_n (h_conf (fd_hdr f))) (ep_size q) ++ fl).
  { unfold pre, fl, eof_params_layout. rewrite NF. rewrite <- !app_assoc. reflexivity. }
  rewrite D. rewrite <- LP.
  rewrite fdir_parse_fss_layout by (try exact LF; rewrite NF; exact Rs). cbn [bind]. rewrite NF.
  unfold fl, fault_len in *. destruct (ep_fault q) as [v|] eqn:EF.
  - destruct F as [Wv Lv]. pose proof (len_nonneg v).
    match goal with |- context [?a >? ?b] => destruct (a >? b) eqn:E end; [|lia]. clear E.
    rewrite app_assoc. rewrite slice_from_app by (rewrite len_app, len_be_encode; lia).
    unfold entity_unpack, entity_layout, T_ENTITY_ID, TLV_ENTITY_ID.
    rewrite <- (app_nil_r (tlv_layout 6 v)). rewrite wrap_unpack_roundtrip by (try reflexivity; exact Lv). cbn [bind].
    change (Some {| tlv_type := 6; tlv_value := v |}) with (fault_tlv (Some v)).
    unfold f, directive_fdir.
    rewrite (eof_set_fault_any c q _ None (Some v) Vw (conj Wv Lv)).
    rewrite <- EF, eof_with_q_fault_id. reflexivity.
  - match goal with |- context [?a >? ?b] => destruct (a >? b) eqn:E end; [lia|]. clear E.
    unfold eof_pdu_of. rewrite EF. reflexivity.
Qed.

(* decode (encode ++ anything): every parameter back, with or without CRC trailer
   (before the repairs e819193 / 599296e: condition code 6 -> 96; CRC-flagged output refused) *)
Theorem eof_unpack_pack c q rest : eof_valid c q -> wf_bytes rest ->
  eof_unpack (eof_layout c q ++ rest) = Ok (eof_pdu_of c q).
Proof.
  intros V W. pose proof (eof_ok c q (eof_valid_wf c q V)) as O.
  rewrite eof_unpack_eq. unfold eof_layout. rewrite with_prelude_layout by assumption.
  apply (eof_body_layout c q V).
Qed.

Lemma eof_body_total f data : fdir_valid f -> wf_bytes data -> ok_or_documented (eof_body f data).
Proof.
  intros FV W. unfold eof_body. pose proof (fdir_header_len_range f FV) as R.
  destruct (fdir_header_len f + 9 >? len data) eqn:E; [reflexivity|].
  destruct (py_get_in_range data (fdir_header_len f) ltac:(lia)) as (b & G & _). rewrite G. cbn [bind].
  assert (LF : flag (cf_large (h_conf (fd_hdr f)))) by exact (conf_large_flag _ (proj1 (proj1 FV))).
  rewrite fdir_parse_fss_spec by (try exact LF; lia).
  match goal with |- context [if ?a >? ?b then Err ETooShort else _] => destruct (a >? b) end; [reflexivity|].
  cbn [bind].
  match goal with |- context [if ?a >? ?b then _ else Ok _] => destruct (a >? b) end; [|exact I].
  match goal with |- context [entity_unpack ?x] =>
    pose proof (wrap_unpack_total TLV_ENTITY_ID x) as T; fold entity_unpack in T; destruct (entity_unpack x) as [t|e] end;
    [|exact T].
  cbn [bind]. unfold eof_set_fault. rewrite eof_calc_len_spec, fdir_set_param_len_spec.
  match goal with |- context [if ?a <=? ?b then _ else _] => destruct (a <=? b) end; reflexivity.
Qed.

Lemma eof_body_needs f data x : eof_body f data = Ok x -> fdir_header_len f <= len data.
Proof. unfold eof_body. destruct (fdir_header_len f + 9 >? len data) eqn:E; [discriminate|lia]. Qed.

(* C10 *)
Theorem eof_unpack_total d : wf_bytes d -> ok_or_documented (eof_unpack d).
Proof. intros W. rewrite eof_unpack_eq. apply with_prelude_total; [exact W|apply eof_body_total]. Qed.

Theorem eof_prefix_rejected c q n : eof_wf c q -> (n < length (eof_layout c q))%nat ->
  exists e, eof_unpack (firstn n (eof_layout c q)) = Err e /\ documented e = true.
Proof.
  intros V L. rewrite eof_unpack_eq. apply with_prelude_prefix_rejected; [apply eof_ok; exact V|exact L].
Qed.

(* C09 (before the repair 599296e trailing octets 06 01 09 were decoded as fault location) *)
Theorem eof_suffix c q s : eof_wf c q -> wf_bytes s ->
  eof_unpack (eof_layout c q ++ s) = eof_unpack (eof_layout c q).
Proof. intros V W. rewrite !eof_unpack_eq. apply with_prelude_suffix; [apply eof_ok; exact V|exact W]. Qed.

Theorem eof_no_fold_in d p h : wf_bytes d -> eof_unpack d = Ok p -> hdr_unpack d = Ok h ->
  eof_unpack (firstn (Z.to_nat (hdr_packet_len h)) d) = Ok p.
Proof.
  intros W U Uh. rewrite eof_unpack_eq in *.
  apply (with_prelude_no_fold_in eof_body d p W U); [|exact Uh].
  intros f data. apply eof_body_needs.
Qed.

(* C04 *)
Theorem eof_accept_needs_crc0 d p h : wf_bytes d -> eof_unpack d = Ok p -> hdr_unpack d = Ok h ->
  cf_crc (h_conf h) = 1 ->
  hdr_packet_len h <= len d /\ crc16 (firstn (Z.to_nat (hdr_packet_len h)) d) = 0.
Proof. intros W U. rewrite eof_unpack_eq in U. apply (with_prelude_accept_needs_crc0 eof_body d p h W U). Qed.

Lemma eof_eqb_refl p : eof_eqb p p = Ok true.
Proof.
  unfold eof_eqb. rewrite fdir_eqb_refl, !Z.eqb_refl. rewrite (proj2 (bytes_eqb_eq _ _) eq_refl). cbn [andb].
  destruct (eof_fault p); [|reflexivity]. unfold entity_eqb. rewrite Z.eqb_refl. reflexivity.
Qed.

(* the whole property as one chain *)
Theorem eof_roundtrip c q rest : eof_valid c q -> wf_bytes rest ->
  exists p b p',
    eof_new c (ep_checksum q) (ep_size q) (fault_tlv (ep_fault q)) (ep_cc q) = Ok (p, c) /\
    eof_pack p = Ok b /\ b = eof_layout c q /\
    eof_unpack (b ++ rest) = Ok p' /\
    eof_cc p' = ep_cc q /\ eof_checksum p' = ep_checksum q /\ eof_size p' = ep_size q /\
    eof_fault p' = fault_tlv (ep_fault q) /\ p' = p /\
    eof_eqb p' p = Ok true /\ eof_pack p' = Ok b /\ eof_packet_len p' = len b.
Proof.
  intros V W. pose proof (eof_valid_wf c q V) as Vw.
  exists (eof_pdu_of c q), (eof_layout c q), (eof_pdu_of c q).
  split; [apply eof_new_ok; exact Vw|]. split; [apply eof_pack_layout; exact V|]. split; [reflexivity|].
  split; [apply eof_unpack_pack; assumption|]. do 5 (split; [reflexivity|]).
  split; [apply eof_eqb_refl|]. split; [apply eof_pack_layout; exact V|apply (eof_data_field_len c q Vw)].
Qed.

(* ================= C11: the fault_location setter ================= *)

Fixpoint eof_apply_ops (p : EofPdu) (ops : list (option bytes)) : res EofPdu :=
  match ops with
  | [] => Ok p
  | o :: r => do p' <- eof_set_fault p (fault_tlv o); eof_apply_ops p' r
  end.

Definition fault_ok (o : option bytes) : Prop :=
  match o with None => True | Some v => wf_bytes v /\ len v <= 255 end.

(* after any sequence of fault_location setter calls the object is the one a fresh constructor
   call with the last fault location builds *)
Theorem eof_setters_inv c q ops : eof_wf c q -> Forall fault_ok ops ->
  eof_apply_ops (eof_pdu_of c q) ops = Ok (eof_pdu_of c (eof_with_q_fault q (last ops (ep_fault q)))).
Proof.
  intros V F. revert q V. induction F as [|o r Fo Fr IH]; intros q V.
  - cbn [eof_apply_ops last]. rewrite eof_with_q_fault_id. reflexivity.
  - cbn [eof_apply_ops]. rewrite eof_set_fault_spec by assumption. cbn [bind].
    rewrite IH by (apply eof_wf_with_fault; assumption).
    f_equal. f_equal. unfold eof_with_q_fault at 1 2. cbn [ep_cc ep_checksum ep_size ep_fault].
    unfold eof_with_q_fault. f_equal.
    destruct r as [|x r']; [reflexivity|].
    change (last (o :: x :: r') (ep_fault q)) with (last (x :: r') (ep_fault q)). apply last_cons_default.
Qed.

(* hence: reported length = number of packed octets = what the data field length says, and the
   octets are those of a fresh PDU with the final values, for every history *)
Theorem eof_len_inv c q ops o b : eof_valid c q -> Forall fault_ok ops ->
  eof_apply_ops (eof_pdu_of c q) ops = Ok o -> eof_pack o = Ok b ->
  let q' := eof_with_q_fault q (last ops (ep_fault q)) in
  b = eof_layout c q' /\ eof_packet_len o = len b /\
  h_dlen (fd_hdr (eof_fd o)) = len b - hdr_header_len (fd_hdr (eof_fd o)).
Proof.
  intros V F A P q'. pose proof (eof_valid_wf c q V) as Vw.
  rewrite eof_setters_inv in A by assumption. injection A as <-. fold q' in P |- *.
  assert (F' : fault_ok (last ops (ep_fault q))).
  { clear P. induction F as [|x r Fx Fr IH]; [apply V|]. destruct r as [|y r']; [exact Fx|].
    change (last (x :: y :: r') (ep_fault q)) with (last (y :: r') (ep_fault q)). exact IH. }
  assert (V' : eof_valid c q').
  { destruct V as (C & Rc & Wc & Lc & Rs & _). unfold eof_valid, q', eof_with_q_fault.
    cbn [ep_cc ep_checksum ep_size ep_fault]. unfold fault_ok in F'. tauto. }
  rewrite eof_pack_layout in P by exact V'. injection P as <-.
  destruct (eof_data_field_len c q' (eof_valid_wf c q' V')) as (D1 & D2 & _). split; [reflexivity|]. split; assumption.
Qed.

(* non-vacuity *)
Definition eof_example_conf : PduConfig :=
  {| cf_src := {| ubf_val := 258; ubf_len := 2 |}; cf_dst := {| ubf_val := 772; ubf_len := 2 |};
     cf_seq := {| ubf_val := 5; ubf_len := 1 |};
     cf_mode := 1; cf_large := 1; cf_crc := 1; cf_dir := 1; cf_segctrl := 0 |}.
Definition eof_example_params : EofParams :=
  {| ep_cc := 6; ep_checksum := [222; 173; 190; 239]; ep_size := 72623859790382856; ep_fault := Some [1; 2; 3] |}.
Example eof_valid_example : eof_valid eof_example_conf eof_example_params.
Proof.
  unfold eof_valid, conf_valid, ubf_valid, width_ok, flag, eof_example_conf, eof_example_params, fss_octets.
  cbn [cf_src cf_dst cf_seq cf_mode cf_large cf_crc cf_dir cf_segctrl ubf_val ubf_len Z.eqb Pos.eqb
       ep_cc ep_checksum ep_size ep_fault].
  change (256 ^ 2) with 65536. change (256 ^ 1) with 256. change (256 ^ Z.of_nat 8) with 18446744073709551616.
  repeat split; try lia; try (apply wf_bytesb_iff; reflexivity); try reflexivity;
    vm_compute; intro X; discriminate X.
Qed.
Example eof_layout_example :
  eof_layout eof_example_conf eof_example_params =
  [39; 0; 21; 16; 1; 2; 5; 3; 4; 4; 96; 222; 173; 190; 239; 1; 2; 3; 4; 5; 6; 7; 8; 6; 3; 1; 2; 3; 67; 195].
Proof. vm_compute. reflexivity. Qed.
