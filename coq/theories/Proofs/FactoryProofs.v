(* Lemmas about Model/Factory.v (PduFactory, PduHolder): the raw-buffer inspectors on packed PDUs,
   from_raw on the packed PDU of each of the eight kinds (kind, equality, identical re-pack), the
   8 x 8 accessor table, totality of every entry point (C10). *)
From Coq Require Import ZArith List Bool Lia ZifyBool.
From SP Require Import Base.Result Base.Bytes Base.BytesFacts Base.Crc16 Base.Crc16Facts
  Model.PduHeader Spec.PduHeaderSpec Proofs.PduHeaderProofs Model.FileDirective Proofs.FileDirectiveProofs
  Spec.PduASpec Proofs.DirectiveProofs
  Model.Eof Proofs.EofProofs Model.Ack Proofs.AckProofs Model.Prompt Proofs.PromptProofs
  Model.KeepAlive Proofs.KeepAliveProofs.
From SP Require Import Model.Finished Model.Metadata Spec.PduBSpec Proofs.FinishedProofs Proofs.MetadataProofs.
From SP Require Import Model.Nak Spec.PduCSpec Proofs.NakProofs.
From SP Require Model.FileData Spec.FileDataSpec Proofs.FileDataProofs Proofs.FileDataCrc.
From SP Require Import Model.Factory.
Import ListNotations.
Open Scope Z_scope.
Ltac Zify.zify_post_hook ::= Z.to_euclidean_division_equations.

(* ================= the inspectors on a packed header ================= *)

(* PduFactory.pdu_type reads the PDU type bit of the first octet *)
Lemma fac_pdu_type_cons x (l : bytes) : fac_pdu_type (x :: l) = Ok (Z.land (Z.shiftr x 4) 1).
Proof.
  unfold fac_pdu_type. rewrite len_cons. pose proof (len_nonneg l).
  destruct (1 + len l <? 1) eqn:E; [lia|]. rewrite py_get_cons_0. reflexivity.
Qed.

Lemma fac_pdu_type_layout h rest : hdr_valid h -> fac_pdu_type (hdr_layout h ++ rest) = Ok (h_type h).
Proof.
  intros (C & Ft & _ & _). destruct C as (_ & _ & _ & _ & Fm & Fl & Fc & Fd & _).
  unfold hdr_layout, hdr_fixed_layout. cbn [app]. rewrite fac_pdu_type_cons. f_equal.
  destruct Ft as [-> | ->], Fm as [-> | ->], Fl as [-> | ->], Fc as [-> | ->], Fd as [-> | ->]; reflexivity.
Qed.

Lemma fac_is_file_directive_layout h rest : hdr_valid h ->
  fac_is_file_directive (hdr_layout h ++ rest) = Ok (h_type h =? 0).
Proof. intros V. unfold fac_is_file_directive. rewrite fac_pdu_type_layout by exact V. reflexivity. Qed.

(* PduFactory.pdu_directive_type finds the directive octet behind a header of any widths *)
Lemma fac_directive_layout f tl : fdir_valid f -> h_type (fd_hdr f) = 0 ->
  fac_pdu_directive_type (fdir_layout f ++ tl) = (do t <- directive_type_of (fd_type f); Ok (Some t)).
Proof.
  intros (V & R) T. unfold fac_pdu_directive_type, fdir_layout. rewrite <- app_assoc.
  rewrite fac_is_file_directive_layout by exact V. rewrite T. cbn [bind Z.eqb negb].
  rewrite header_len_from_raw_pack by exact V. cbn [bind].
  destruct (hdr_layout_length _ V) as [LH _]. pose proof (len_nonneg tl).
  rewrite len_app, LH, len_app. change (len [fd_type f]) with 1.
  destruct (hdr_header_len (fd_hdr f) + (1 + len tl) <? hdr_header_len (fd_hdr f) + 1) eqn:E; [lia|].
  rewrite py_get_app_r by lia. rewrite LH, Z.sub_diag. cbn [app]. rewrite py_get_cons_0. reflexivity.
Qed.

(* a packed file-directive PDU: base object f, then parameter octets *)
Definition directive_head (L : bytes) (f : fdir) : Prop :=
  fdir_valid f /\ h_type (fd_hdr f) = 0 /\ exists tl, L = fdir_layout f ++ tl.

Lemma head_inspectors L f : directive_head L f ->
  fac_pdu_type L = Ok 0 /\ fac_is_file_directive L = Ok true /\
  fac_pdu_directive_type L = (do t <- directive_type_of (fd_type f); Ok (Some t)).
Proof.
  intros (V & T & tl & ->). split; [|split].
  - unfold fdir_layout. rewrite <- app_assoc, fac_pdu_type_layout by apply V. rewrite T. reflexivity.
  - unfold fdir_layout. rewrite <- app_assoc, fac_is_file_directive_layout by apply V. rewrite T. reflexivity.
  - apply fac_directive_layout; assumption.
Qed.

(* from_raw dispatches a packed directive PDU to the decoder of its directive code *)
Lemma head_from_raw L f : directive_head L f ->
  fac_from_raw L =
  (do t <- directive_type_of (fd_type f);
   if t =? DT_EOF then do p <- eof_unpack L; Ok (Some (PEof p))
   else if t =? DT_METADATA then do p <- md_unpack L; Ok (Some (PMetadata p))
   else if t =? DT_FINISHED then do p <- fin_unpack L; Ok (Some (PFinished p))
   else if t =? DT_ACK then do p <- ack_unpack L; Ok (Some (PAck p))
   else if t =? DT_NAK then do p <- nak_unpack L; Ok (Some (PNak p))
   else if t =? DT_KEEP_ALIVE then do p <- ka_unpack L; Ok (Some (PKeepAlive p))
   else if t =? DT_PROMPT then do p <- prompt_unpack L; Ok (Some (PPrompt p))
   else Ok None).
Proof.
  intros H. destruct (head_inspectors L f H) as (_ & I & D). unfold fac_from_raw. rewrite I. cbn [bind negb].
  rewrite D. destruct (directive_type_of (fd_type f)); reflexivity.
Qed.

(* ---- the head of each kind's layout ---- *)

Lemma directive_layout_head c dir code params : directive_ok c dir code params ->
  directive_head (directive_layout c dir code params) (directive_fdir c dir code params).
Proof.
  intros O. split; [apply directive_fdir_valid; exact O|]. split; [reflexivity|].
  rewrite directive_layout_eq, directive_pre_eq, <- app_assoc. eexists. reflexivity.
Qed.

Lemma eof_head c q : eof_valid c q -> directive_head (eof_layout c q) (directive_fdir c 0 4 (eof_params_layout c q)).
Proof. intros V. apply directive_layout_head, eof_ok, eof_valid_wf, V. Qed.
Lemma ack_head c q : ack_valid c q ->
  directive_head (ack_layout c q) (directive_fdir c (ack_direction_of (ap_code q)) 6 (ack_params_layout q)).
Proof. intros V. apply directive_layout_head, ack_ok, V. Qed.
Lemma prompt_head c rr : prompt_valid c rr ->
  directive_head (prompt_layout c rr) (directive_fdir c 0 9 (prompt_params_layout rr)).
Proof. intros V. apply directive_layout_head, prompt_ok, V. Qed.
Lemma ka_head c v : ka_valid c v -> directive_head (ka_layout c v) (directive_fdir c 1 12 (ka_params_layout c v)).
Proof. intros V. apply directive_layout_head, ka_ok, V. Qed.

Lemma fin_head c q : fin_valid c q ->
  directive_head (fin_layout c q) (fdir_of (conf_set_dir c 1) DT_FINISHED (fin_dlen c q - 1)).
Proof.
  intros V. split; [apply fin_fdir_valid; exact V|]. split; [reflexivity|].
  assert (E : hdr_layout (fin_header c q) ++ [D_FINISHED] ++ fin_body q =
              fdir_layout (fdir_of (conf_set_dir c 1) DT_FINISHED (fin_dlen c q - 1)) ++ fin_body q).
  { unfold fdir_layout, fdir_of, fin_header. cbn [fd_hdr fd_type].
    replace (fin_dlen c q - 1 + 1) with (fin_dlen c q) by lia. rewrite <- app_assoc. reflexivity. }
  unfold fin_layout, with_crc. rewrite E. destruct (cf_crc c =? 1); rewrite <- ?app_assoc; eexists; reflexivity.
Qed.

Lemma md_head c q o : md_valid c q o ->
  directive_head (md_layout c q o) (fdir_of (conf_set_dir c 0) DT_METADATA (md_dlen c q o - 1)).
Proof.
  intros V. split; [apply md_fdir_valid; exact V|]. split; [reflexivity|].
  unfold md_layout, with_crc. rewrite md_pre_eq. destruct (cf_crc c =? 1); rewrite <- ?app_assoc; eexists; reflexivity.
Qed.

Lemma nak_head c q : nak_valid c q -> directive_head (nak_layout c q) (nk_fd (nak_pdu_of c q)).
Proof.
  intros V. pose proof (nak_pdu_of_valid c q V) as OV. split; [apply OV|]. split; [reflexivity|].
  rewrite nak_layout_obj. destruct (nak_obj_layout_head (nak_pdu_of c q)) as (tl & E & _). exists tl. exact E.
Qed.

(* ================= from_raw on the packed PDU of each kind ================= *)

(* an object as the factory returns it for a packed PDU / as a constructor builds it *)
Definition pdu_wf (p : pdu) : Prop :=
  match p with
  | PFileData q => h_type (FileData.fd_hdr q) = 1
  | PEof q => fd_type (eof_fd q) = 4
  | PPrompt q => fd_type (pr_fd q) = 9
  | _ => True
  end.

(* The C12 statement for one packed PDU L, built from an object p of class k (directive code
   `code`, None for file data): the factory returns an instance p' of exactly that class, equal
   to p (when E holds), re-packing to L, reporting |L| as its length; the raw-buffer inspectors
   report the PDU type and directive code the octets carry. *)
Definition factory_ok (L : bytes) (k : Z) (p : pdu) (code : option Z) (E : Prop) : Prop :=
  exists p', fac_from_raw L = Ok (Some p') /\ pdu_kind p' = k /\ pdu_kind p = k /\ pdu_wf p' /\
    (E -> pdu_eqb p' p = Ok true) /\ pdu_pack p' = Ok L /\ pdu_packet_len p' = len L /\
    fac_from_raw_to_holder L = Ok (Some p') /\
    fac_pdu_type L = Ok (if k =? 0 then 1 else 0) /\
    fac_is_file_directive L = Ok (negb (k =? 0)) /\
    fac_pdu_directive_type L = Ok code.

Ltac head_dispatch H :=
  let HF := fresh in let I1 := fresh in let I2 := fresh in let I3 := fresh in
  pose proof (head_from_raw _ _ H) as HF; destruct (head_inspectors _ _ H) as (I1 & I2 & I3);
  cbn [directive_fdir fdir_of fd_type nak_pdu_of nak_mk nk_fd] in HF, I3;
  unfold directive_type_of, DT_EOF, DT_METADATA, DT_FINISHED, DT_ACK, DT_NAK, DT_KEEP_ALIVE, DT_PROMPT in HF, I3;
  cbn [Z.eqb Pos.eqb orb bind] in HF, I3.

Theorem factory_from_raw_eof c q : eof_valid c q ->
  factory_ok (eof_layout c q) 1 (PEof (eof_pdu_of c q)) (Some 4) True.
Proof.
  intros V. pose proof (eof_head c q V) as H. head_dispatch H.
  pose proof (eof_unpack_pack c q [] V ltac:(constructor)) as U. rewrite app_nil_r in U.
  exists (PEof (eof_pdu_of c q)). rewrite H0, U. cbn [bind].
  split; [reflexivity|]. split; [reflexivity|]. split; [reflexivity|]. split; [reflexivity|].
  split; [intros _; apply eof_eqb_refl|]. split; [apply eof_pack_layout; exact V|].
  split; [apply (eof_data_field_len c q (eof_valid_wf c q V))|].
  split; [unfold fac_from_raw_to_holder; rewrite H0, U; reflexivity|].
  split; [exact H1|]. split; [exact H2|exact H3].
Qed.

Theorem factory_from_raw_ack c q : ack_valid c q ->
  factory_ok (ack_layout c q) 3 (PAck (ack_pdu_of c q)) (Some 6) True.
Proof.
  intros V. pose proof (ack_head c q V) as H. head_dispatch H.
  pose proof (ack_unpack_pack c q [] V ltac:(constructor)) as U. rewrite app_nil_r in U.
  exists (PAck (ack_pdu_of c q)). rewrite H0, U. cbn [bind].
  split; [reflexivity|]. split; [reflexivity|]. split; [reflexivity|]. split; [exact I|].
  split; [intros _; cbn [pdu_eqb]; unfold ack_eqb; rewrite fdir_eqb_refl, !Z.eqb_refl; reflexivity|].
  split; [apply ack_pack_layout; exact V|]. split; [apply (ack_data_field_len c q V)|].
  split; [unfold fac_from_raw_to_holder; rewrite H0, U; reflexivity|].
  split; [exact H1|]. split; [exact H2|exact H3].
Qed.

Theorem factory_from_raw_prompt c rr : prompt_valid c rr ->
  factory_ok (prompt_layout c rr) 6 (PPrompt (prompt_pdu_of c rr)) (Some 9) True.
Proof.
  intros V. pose proof (prompt_head c rr V) as H. head_dispatch H.
  pose proof (prompt_unpack_pack c rr [] V ltac:(constructor)) as U. rewrite app_nil_r in U.
  exists (PPrompt (prompt_pdu_of c rr)). rewrite H0, U. cbn [bind].
  split; [reflexivity|]. split; [reflexivity|]. split; [reflexivity|]. split; [reflexivity|].
  split; [intros _; cbn [pdu_eqb]; unfold prompt_eqb; rewrite fdir_eqb_refl, Z.eqb_refl; reflexivity|].
  split; [apply prompt_pack_layout; exact V|]. split; [apply (prompt_data_field_len c rr V)|].
  split; [unfold fac_from_raw_to_holder; rewrite H0, U; reflexivity|].
  split; [exact H1|]. split; [exact H2|exact H3].
Qed.

Theorem factory_from_raw_ka c v : ka_valid c v ->
  factory_ok (ka_layout c v) 7 (PKeepAlive (ka_pdu_of c v)) (Some 12) True.
Proof.
  intros V. pose proof (ka_head c v V) as H. head_dispatch H.
  pose proof (ka_unpack_pack c v [] V ltac:(constructor)) as U. rewrite app_nil_r in U.
  exists (PKeepAlive (ka_pdu_of c v)). rewrite H0, U. cbn [bind].
  split; [reflexivity|]. split; [reflexivity|]. split; [reflexivity|]. split; [exact I|].
  split; [intros _; cbn [pdu_eqb]; unfold ka_eqb; rewrite fdir_eqb_refl, Z.eqb_refl; reflexivity|].
  split; [apply ka_pack_layout; exact V|]. split; [apply (ka_data_field_len c v (proj1 V))|].
  split; [unfold fac_from_raw_to_holder; rewrite H0, U; reflexivity|].
  split; [exact H1|]. split; [exact H2|exact H3].
Qed.

Theorem factory_from_raw_nak c q : nak_valid c q ->
  factory_ok (nak_layout c q) 5 (PNak (nak_pdu_of c q)) (Some 8) True.
Proof.
  intros V. pose proof (nak_head c q V) as H. head_dispatch H.
  pose proof (nak_unpack_pack c q V) as U.
  exists (PNak (nak_pdu_of c q)). rewrite H0, U. cbn [bind].
  split; [reflexivity|]. split; [reflexivity|]. split; [reflexivity|]. split; [exact I|].
  split; [intros _; cbn [pdu_eqb]; rewrite nak_eqb_refl; reflexivity|].
  split; [apply nak_pack_layout; exact V|]. split; [apply (nak_data_field_len c q V)|].
  split; [unfold fac_from_raw_to_holder; rewrite H0, U; reflexivity|].
  split; [exact H1|]. split; [exact H2|exact H3].
Qed.

(* Finished: the decoded object carries the transmitted parameters (fin_norm q); it equals the
   original for every parameter set of the standard (fin_params_std: no fault location together
   with a condition code that does not carry one) *)
Theorem factory_from_raw_finished c q : fin_valid c q ->
  factory_ok (fin_layout c q) 2 (PFinished (fin_pdu_of c q)) (Some 5) (fin_params_std q).
Proof.
  intros V. pose proof (fin_head c q V) as H. head_dispatch H.
  destruct (fin_roundtrip c q [] V ltac:(constructor)) as (p & b & p' & N & P & -> & PL & U & NQ & EQ & RP & PL').
  rewrite app_nil_r in U. rewrite (fin_new_ok c q V) in N. injection N as <-.
  exists (PFinished p'). rewrite H0, U. cbn [bind].
  split; [reflexivity|]. split; [reflexivity|]. split; [reflexivity|]. split; [exact I|].
  split; [exact EQ|]. split; [exact RP|]. split; [exact PL'|].
  split; [unfold fac_from_raw_to_holder; rewrite H0, U; reflexivity|].
  split; [exact H1|]. split; [exact H2|exact H3].
Qed.

Theorem factory_from_raw_metadata c q o : md_valid c q o ->
  factory_ok (md_layout c q o) 4 (PMetadata (md_pdu_of c q o)) (Some 7) True.
Proof.
  intros V. pose proof (md_head c q o V) as H. head_dispatch H.
  destruct (md_roundtrip c q o [] V ltac:(constructor))
    as (p & b & p' & N & P & -> & PL & U & _ & _ & _ & _ & _ & _ & EQ & RP & PL').
  rewrite app_nil_r in U. rewrite (md_new_ok c q o V) in N. injection N as <-.
  exists (PMetadata p'). rewrite H0, U. cbn [bind].
  split; [reflexivity|]. split; [reflexivity|]. split; [reflexivity|]. split; [exact I|].
  split; [intros _; cbn [pdu_eqb]; rewrite EQ; reflexivity|]. split; [exact RP|]. split; [exact PL'|].
  split; [unfold fac_from_raw_to_holder; rewrite H0, U; reflexivity|].
  split; [exact H1|]. split; [exact H2|exact H3].
Qed.

Theorem factory_from_raw_file_data c q : FileDataSpec.fd_valid c q ->
  factory_ok (FileDataSpec.fd_layout c q) 0 (PFileData (FileDataSpec.fd_pdu_of c q)) None True.
Proof.
  intros V. pose proof (FileDataProofs.fd_header_valid c q V) as HV.
  assert (HD : exists tl, FileDataSpec.fd_layout c q = hdr_layout (FileDataSpec.fd_header c q) ++ tl).
  { unfold FileDataSpec.fd_layout. cbv zeta. destruct (cf_crc c =? 1); rewrite <- ?app_assoc; eexists; reflexivity. }
  destruct HD as (tl & HD).
  assert (T : fac_pdu_type (FileDataSpec.fd_layout c q) = Ok 1) by (rewrite HD; apply (fac_pdu_type_layout _ tl HV)).
  assert (I1 : fac_is_file_directive (FileDataSpec.fd_layout c q) = Ok false)
    by (unfold fac_is_file_directive; rewrite T; reflexivity).
  pose proof (FileDataCrc.fd_unpack_pack_full c q [] V ltac:(constructor)) as U. rewrite app_nil_r in U.
  assert (FR : fac_from_raw (FileDataSpec.fd_layout c q) = Ok (Some (PFileData (FileDataSpec.fd_pdu_of c q))))
    by (unfold fac_from_raw; rewrite I1; cbn [bind negb]; rewrite U; reflexivity).
  exists (PFileData (FileDataSpec.fd_pdu_of c q)).
  split; [exact FR|]. split; [reflexivity|]. split; [reflexivity|]. split; [reflexivity|].
  split; [intros _; cbn [pdu_eqb]; rewrite FileDataProofs.fd_eqb_refl; reflexivity|].
  split; [apply FileDataCrc.fd_pack_layout_full; exact V|].
  split; [apply (FileDataProofs.fd_data_field_len c q V)|].
  split; [exact FR|]. split; [exact T|]. split; [exact I1|].
  unfold fac_pdu_directive_type. rewrite I1. reflexivity.
Qed.

(* ================= the holder ================= *)

Definition kind_code (k : Z) : option Z :=
  if k =? 1 then Some 4 else if k =? 2 then Some 5 else if k =? 3 then Some 6 else if k =? 4 then Some 7
  else if k =? 5 then Some 8 else if k =? 6 then Some 9 else if k =? 7 then Some 12 else None.

Lemma pdu_kind_range p : 0 <= pdu_kind p <= 7.
Proof. destruct p; cbn [pdu_kind]; lia. Qed.

(* 8 x 8: the accessor of the held object's class returns the object, every other one raises
   TypeError; all of them raise TypeError on an empty holder *)
Theorem holder_accessor_table p k : pdu_wf p -> 0 <= k <= 7 ->
  holder_to k (Some p) = if k =? pdu_kind p then Ok p else Err EType.
Proof.
  intros W R.
  assert (K : k = 0 \/ k = 1 \/ k = 2 \/ k = 3 \/ k = 4 \/ k = 5 \/ k = 6 \/ k = 7) by lia.
  destruct p; cbn [pdu_wf] in W;
    destruct K as [-> | [-> | [-> | [-> | [-> | [-> | [-> | ->]]]]]]];
    unfold holder_to, holder_to_file_data, holder_cast, DT_EOF, DT_FINISHED, DT_ACK, DT_METADATA, DT_NAK, DT_PROMPT,
      DT_KEEP_ALIVE, PDU_FILE_DATA, PDU_FILE_DIRECTIVE;
    cbn [Z.eqb Pos.eqb pdu_kind pdu_pdu_type pdu_directive is_directive_instance andb];
    rewrite ?W; reflexivity.
Qed.

Theorem holder_empty k : 0 <= k <= 7 -> holder_to k None = Err EType.
Proof.
  intros R. assert (K : k = 0 \/ k = 1 \/ k = 2 \/ k = 3 \/ k = 4 \/ k = 5 \/ k = 6 \/ k = 7) by lia.
  destruct K as [-> | [-> | [-> | [-> | [-> | [-> | [-> | ->]]]]]]]; reflexivity.
Qed.

(* the holder's own inspectors agree with the held object's class *)
Theorem holder_inspectors p : pdu_wf p ->
  holder_pdu_type (Some p) = Ok (if pdu_kind p =? 0 then 1 else 0) /\
  holder_is_file_directive (Some p) = Ok (negb (pdu_kind p =? 0)) /\
  holder_pdu_directive_type (Some p) = Ok (kind_code (pdu_kind p)) /\
  holder_pack (Some p) = pdu_pack p /\ holder_packet_len (Some p) = pdu_packet_len p.
Proof.
  intros W. destruct p; cbn [pdu_wf] in W;
    unfold holder_pdu_directive_type, holder_is_file_directive, holder_pdu_type, PDU_FILE_DIRECTIVE,
      DT_FINISHED, DT_ACK, DT_METADATA, DT_NAK, DT_KEEP_ALIVE;
    cbn [pdu_pdu_type pdu_kind pdu_directive bind Z.eqb Pos.eqb negb kind_code holder_pack holder_packet_len];
    rewrite ?W; cbn [Z.eqb Pos.eqb negb bind]; repeat split; reflexivity.
Qed.

(* the chain of the property: packed PDU -> factory -> holder -> accessor *)
Corollary factory_holder_table L k p code E kk : factory_ok L k p code E -> 0 <= kk <= 7 ->
  exists p', fac_from_raw_to_holder L = Ok (Some p') /\ pdu_kind p' = k /\
    holder_to kk (Some p') = if kk =? k then Ok p' else Err EType.
Proof.
  intros (p' & _ & K & _ & W & _ & _ & _ & H & _) R. exists p'. split; [exact H|]. split; [exact K|].
  rewrite <- K. apply holder_accessor_table; assumption.
Qed.

(* ================= C10: totality of every entry point ================= *)

Theorem fac_pdu_type_total d : ok_or_documented (fac_pdu_type d).
Proof.
  unfold fac_pdu_type. destruct (len d <? 1) eqn:E; [reflexivity|].
  assert (R : 0 <= 0 < len d) by lia.
  destruct (BytesFacts.py_get_in_range d 0 R) as [b [G _]]. rewrite G. exact I.
Qed.

Theorem fac_is_file_directive_total d : ok_or_documented (fac_is_file_directive d).
Proof.
  unfold fac_is_file_directive. pose proof (fac_pdu_type_total d) as T.
  destruct (fac_pdu_type d); [exact I|exact T].
Qed.

Theorem fac_pdu_directive_type_total d : wf_bytes d -> ok_or_documented (fac_pdu_directive_type d).
Proof.
  intros W. unfold fac_pdu_directive_type. pose proof (fac_is_file_directive_total d) as T.
  destruct (fac_is_file_directive d) as [b|e]; [|exact T]. cbn [bind]. destruct b; cbn [negb]; [|exact I].
  pose proof (header_len_from_raw_total d W) as TH.
  destruct (header_len_from_raw d) as [hl|e] eqn:HL; [|exact TH]. cbn [bind].
  destruct (len d <? hl + 1) eqn:E; [reflexivity|].
  assert (0 <= hl).
  { unfold header_len_from_raw in HL. destruct (len d <? FIXED_LENGTH); [discriminate|].
    destruct (py_get d 3) as [d3|]; [|discriminate]. cbn [bind] in HL. cbv zeta in HL.
    assert (0 <= Z.land (Z.shiftr d3 4) 7) by (apply Z.land_nonneg; right; lia).
    assert (0 <= Z.land d3 7) by (apply Z.land_nonneg; right; lia).
    assert (HLE : hl = FIXED_LENGTH + 2 * (Z.land (Z.shiftr d3 4) 7 + 1) + (Z.land d3 7 + 1)) by congruence.
    unfold FIXED_LENGTH in HLE. lia. }
  assert (R : 0 <= hl < len d) by lia.
  destruct (BytesFacts.py_get_in_range d hl R) as [b [G _]]. rewrite G. cbn [bind].
  unfold directive_type_of. destruct (_ || _); [exact I|reflexivity].
Qed.

Theorem fac_from_raw_total d : wf_bytes d -> ok_or_documented (fac_from_raw d).
Proof.
  intros W. unfold fac_from_raw. pose proof (fac_is_file_directive_total d) as T.
  destruct (fac_is_file_directive d) as [b|e]; [|exact T]. cbn [bind]. destruct b; cbn [negb].
  - pose proof (fac_pdu_directive_type_total d W) as TD.
    destruct (fac_pdu_directive_type d) as [[t|]|e]; [|exact I|exact TD]. cbn [bind].
    repeat match goal with |- context [if ?c then _ else _] => destruct c end; try exact I.
    + pose proof (eof_unpack_total d W) as X. destruct (eof_unpack d); [exact I|exact X].
    + pose proof (md_unpack_total d W) as X. destruct (md_unpack d); [exact I|exact X].
    + pose proof (fin_unpack_total d W) as X. destruct (fin_unpack d); [exact I|exact X].
    + pose proof (ack_unpack_total d W) as X. destruct (ack_unpack d); [exact I|exact X].
    + pose proof (nak_unpack_total d W) as X. destruct (nak_unpack d); [exact I|exact X].
    + pose proof (ka_unpack_total d W) as X. destruct (ka_unpack d); [exact I|exact X].
    + pose proof (prompt_unpack_total d W) as X. destruct (prompt_unpack d); [exact I|exact X].
  - pose proof (FileDataProofs.fd_unpack_total d W) as X. destruct (FileData.fd_unpack d); [exact I|exact X].
Qed.

Corollary fac_from_raw_to_holder_total d : wf_bytes d -> ok_or_documented (fac_from_raw_to_holder d).
Proof. exact (fac_from_raw_total d). Qed.

(* ================= every buffer the factory accepts ================= *)

(* the inspectors agree with the header / base object the decoders see *)
Lemma fac_pdu_type_unpack d h : wf_bytes d -> hdr_unpack d = Ok h -> fac_pdu_type d = Ok (h_type h).
Proof.
  intros W U. destruct (hdr_pack_unpack d h W U) as (V & _ & LY & _).
  rewrite <- (firstn_skipn (Z.to_nat (hdr_header_len h)) d), <- LY. apply fac_pdu_type_layout, V.
Qed.

Lemma fac_directive_unpack d f : wf_bytes d -> fdir_unpack d = Ok f -> fac_is_file_directive d = Ok true ->
  fac_pdu_directive_type d = (do t <- directive_type_of (fd_type f); Ok (Some t)).
Proof.
  intros W U I. destruct (fdir_unpack_inv d f W U) as (V & UH & _ & LY).
  assert (T : h_type (fd_hdr f) = 0).
  { unfold fac_is_file_directive in I. rewrite (fac_pdu_type_unpack d _ W UH) in I. cbn [bind] in I.
    unfold PDU_FILE_DIRECTIVE in I. injection I as I. lia. }
  rewrite <- (firstn_skipn (Z.to_nat (fdir_header_len f)) d), <- LY. apply fac_directive_layout; assumption.
Qed.

Lemma eof_unpack_fd_type d p : wf_bytes d -> eof_unpack d = Ok p ->
  exists f, fdir_unpack d = Ok f /\ fd_type (eof_fd p) = fd_type f.
Proof.
  intros W U. rewrite eof_unpack_eq in U.
  destruct (with_prelude_inv eof_body d p W U) as (f & UF & _ & _ & _ & B & _). exists f. split; [exact UF|].
  revert B. generalize (slice_to d (end_of_params f)) as data. intros data. unfold eof_body.
  destruct (_ >? len data); [discriminate|]. destruct (py_get data _); [|discriminate]. cbn [bind].
  destruct (fdir_parse_fss f data _) as [[idx size]|]; [|discriminate]. cbn [bind].
  destruct (len data >? idx).
  - match goal with |- (do t <- ?x; _) = _ -> _ => destruct x as [t|] end; [|discriminate]. cbn [bind].
    unfold eof_set_fault, eof_calc_len, eof_with_fault, eof_with_fd, fdir_set_param_len. cbn [eof_fd eof_fault].
    destruct (hdr_set_dlen _ _); [|discriminate]. cbn [bind]. intros H. injection H as <-. reflexivity.
  - intros H. injection H as <-. reflexivity.
Qed.

Lemma prompt_unpack_fd_type d p : wf_bytes d -> prompt_unpack d = Ok p ->
  exists f, fdir_unpack d = Ok f /\ fd_type (pr_fd p) = fd_type f.
Proof.
  intros W U. rewrite prompt_unpack_eq in U.
  destruct (with_prelude_inv prompt_body d p W U) as (f & UF & _ & _ & _ & B & _). exists f. split; [exact UF|].
  revert B. generalize (slice_to d (end_of_params f)) as data. intros data. unfold prompt_body.
  destruct (_ >=? len data); [discriminate|]. destruct (py_get data _); [|discriminate]. cbn [bind].
  destruct (response_required_of _); [|discriminate]. cbn [bind]. intros H. injection H as <-. reflexivity.
Qed.

(* whatever buffer the factory accepts, the returned object is a well-formed instance of its
   class: the accessor table applies to every holder the factory fills *)
Theorem factory_output_wf d p : wf_bytes d -> fac_from_raw d = Ok (Some p) -> pdu_wf p.
Proof.
  intros W. unfold fac_from_raw.
  destruct (fac_is_file_directive d) as [isd|] eqn:I; [|discriminate]. cbn [bind]. destruct isd; cbn [negb].
  - destruct (fac_pdu_directive_type d) as [[t|]|] eqn:D; [|discriminate|discriminate]. cbn [bind].
    destruct (t =? DT_EOF) eqn:E1.
    { destruct (eof_unpack d) as [q|] eqn:U; [|discriminate]. cbn [bind]. intros H. injection H as <-. cbn [pdu_wf].
      destruct (eof_unpack_fd_type d q W U) as (f & UF & ->).
      rewrite (fac_directive_unpack d f W UF I) in D. unfold directive_type_of in D.
      destruct (_ || _); [|discriminate]. cbn [bind] in D. unfold DT_EOF in E1. injection D as D. lia. }
    destruct (t =? DT_METADATA). { destruct (md_unpack d); [|discriminate]. cbn [bind]. intros H; injection H as <-; exact Logic.I. }
    destruct (t =? DT_FINISHED). { destruct (fin_unpack d); [|discriminate]. cbn [bind]. intros H; injection H as <-; exact Logic.I. }
    destruct (t =? DT_ACK). { destruct (ack_unpack d); [|discriminate]. cbn [bind]. intros H; injection H as <-; exact Logic.I. }
    destruct (t =? DT_NAK). { destruct (nak_unpack d); [|discriminate]. cbn [bind]. intros H; injection H as <-; exact Logic.I. }
    destruct (t =? DT_KEEP_ALIVE). { destruct (ka_unpack d); [|discriminate]. cbn [bind]. intros H; injection H as <-; exact Logic.I. }
    destruct (t =? DT_PROMPT) eqn:E7; [|discriminate].
    destruct (prompt_unpack d) as [q|] eqn:U; [|discriminate]. cbn [bind]. intros H. injection H as <-. cbn [pdu_wf].
    destruct (prompt_unpack_fd_type d q W U) as (f & UF & ->).
    rewrite (fac_directive_unpack d f W UF I) in D. unfold directive_type_of in D.
    destruct (_ || _); [|discriminate]. cbn [bind] in D. unfold DT_PROMPT in E7. injection D as D. lia.
  - destruct (FileData.fd_unpack d) as [q|] eqn:U; [|discriminate]. cbn [bind]. intros H. injection H as <-. cbn [pdu_wf].
    destruct (FileDataProofs.fd_unpack_inv d q W U) as (UH & HV & _).
    unfold fac_is_file_directive in I. rewrite (fac_pdu_type_unpack d _ W UH) in I. cbn [bind] in I.
    unfold PDU_FILE_DIRECTIVE in I. destruct HV as (_ & [T | T] & _); [rewrite T in I; discriminate|exact T].
Qed.

(* ... hence: for EVERY buffer the factory accepts, the holder's typed accessors succeed for the
   class of the returned object and raise TypeError for the seven others *)
Corollary factory_holder_table_any d p k : wf_bytes d -> fac_from_raw_to_holder d = Ok (Some p) -> 0 <= k <= 7 ->
  holder_to k (Some p) = if k =? pdu_kind p then Ok p else Err EType.
Proof. intros W H R. apply holder_accessor_table; [apply (factory_output_wf d p W H)|exact R]. Qed.

(* the class of the returned object is the one the octets denote: type bit / directive octet *)
Theorem factory_kind_matches d p : wf_bytes d -> fac_from_raw d = Ok (Some p) ->
  fac_is_file_directive d = Ok (negb (pdu_kind p =? 0)) /\
  fac_pdu_directive_type d = Ok (kind_code (pdu_kind p)).
Proof.
  intros W. unfold fac_from_raw.
  destruct (fac_is_file_directive d) as [isd|] eqn:I; [|discriminate]. cbn [bind]. destruct isd; cbn [negb].
  - destruct (fac_pdu_directive_type d) as [[t|]|] eqn:D; [|discriminate|discriminate]. cbn [bind].
    unfold DT_EOF, DT_METADATA, DT_FINISHED, DT_ACK, DT_NAK, DT_KEEP_ALIVE, DT_PROMPT.
    destruct (t =? 4) eqn:E1. { destruct (eof_unpack d); [|discriminate]. cbn [bind]. intros H; injection H as <-. cbn. split; [reflexivity|f_equal; f_equal; lia]. }
    destruct (t =? 7) eqn:E2. { destruct (md_unpack d); [|discriminate]. cbn [bind]. intros H; injection H as <-. cbn. split; [reflexivity|f_equal; f_equal; lia]. }
    destruct (t =? 5) eqn:E3. { destruct (fin_unpack d); [|discriminate]. cbn [bind]. intros H; injection H as <-. cbn. split; [reflexivity|f_equal; f_equal; lia]. }
    destruct (t =? 6) eqn:E4. { destruct (ack_unpack d); [|discriminate]. cbn [bind]. intros H; injection H as <-. cbn. split; [reflexivity|f_equal; f_equal; lia]. }
    destruct (t =? 8) eqn:E5. { destruct (nak_unpack d); [|discriminate]. cbn [bind]. intros H; injection H as <-. cbn. split; [reflexivity|f_equal; f_equal; lia]. }
    destruct (t =? 12) eqn:E6. { destruct (ka_unpack d); [|discriminate]. cbn [bind]. intros H; injection H as <-. cbn. split; [reflexivity|f_equal; f_equal; lia]. }
    destruct (t =? 9) eqn:E7; [|discriminate].
    destruct (prompt_unpack d); [|discriminate]. cbn [bind]. intros H; injection H as <-. cbn. split; [reflexivity|f_equal; f_equal; lia].
  - destruct (FileData.fd_unpack d); [|discriminate]. cbn [bind]. intros H. injection H as <-. cbn.
    split; [reflexivity|]. unfold fac_pdu_directive_type. rewrite I. reflexivity.
Qed.

(* ================= C09: a packed PDU followed by further octets ================= *)

Lemma head_app L f s : directive_head L f -> directive_head (L ++ s) f.
Proof. intros (V & T & tl & ->). split; [exact V|]. split; [exact T|]. exists (tl ++ s). rewrite app_assoc. reflexivity. Qed.

(* the factory decodes L ++ s exactly as L (seven kinds), or refuses it with ValueError (NAK, whose
   number of segment requests follows from the PDU length alone) *)
Definition factory_suffix_ok (L : bytes) : Prop := forall s, wf_bytes s ->
  fac_from_raw (L ++ s) = fac_from_raw L \/ exists e, fac_from_raw (L ++ s) = Err e /\ documented e = true.

Ltac suffix_via H U1 U2 :=
  let HA := fresh in let HF1 := fresh in let HF2 := fresh in
  pose proof (head_from_raw _ _ H) as HF1;
  match goal with s : bytes |- _ => pose proof (head_from_raw _ _ (head_app _ _ s H)) as HF2 end;
  cbn [directive_fdir fdir_of fd_type nak_pdu_of nak_mk nk_fd] in HF1, HF2;
  unfold directive_type_of, DT_EOF, DT_METADATA, DT_FINISHED, DT_ACK, DT_NAK, DT_KEEP_ALIVE, DT_PROMPT in HF1, HF2;
  cbn [Z.eqb Pos.eqb orb bind] in HF1, HF2; rewrite HF1, HF2, U1, U2.

Theorem factory_suffix_eof c q : eof_valid c q -> factory_suffix_ok (eof_layout c q).
Proof.
  intros V s W. left. pose proof (eof_head c q V) as H.
  pose proof (eof_unpack_pack c q s V W) as U1. pose proof (eof_unpack_pack c q [] V ltac:(constructor)) as U2.
  rewrite app_nil_r in U2. suffix_via H U1 U2. reflexivity.
Qed.
Theorem factory_suffix_ack c q : ack_valid c q -> factory_suffix_ok (ack_layout c q).
Proof.
  intros V s W. left. pose proof (ack_head c q V) as H.
  pose proof (ack_unpack_pack c q s V W) as U1. pose proof (ack_unpack_pack c q [] V ltac:(constructor)) as U2.
  rewrite app_nil_r in U2. suffix_via H U1 U2. reflexivity.
Qed.
Theorem factory_suffix_prompt c rr : prompt_valid c rr -> factory_suffix_ok (prompt_layout c rr).
Proof.
  intros V s W. left. pose proof (prompt_head c rr V) as H.
  pose proof (prompt_unpack_pack c rr s V W) as U1. pose proof (prompt_unpack_pack c rr [] V ltac:(constructor)) as U2.
  rewrite app_nil_r in U2. suffix_via H U1 U2. reflexivity.
Qed.
Theorem factory_suffix_ka c v : ka_valid c v -> factory_suffix_ok (ka_layout c v).
Proof.
  intros V s W. left. pose proof (ka_head c v V) as H.
  pose proof (ka_unpack_pack c v s V W) as U1. pose proof (ka_unpack_pack c v [] V ltac:(constructor)) as U2.
  rewrite app_nil_r in U2. suffix_via H U1 U2. reflexivity.
Qed.
Theorem factory_suffix_finished c q : fin_valid c q -> factory_suffix_ok (fin_layout c q).
Proof.
  intros V s W. left. pose proof (fin_head c q V) as H.
  pose proof (fin_unpack_pack c q s V W) as U1. pose proof (fin_unpack_pack c q [] V ltac:(constructor)) as U2.
  rewrite app_nil_r in U2. suffix_via H U1 U2. reflexivity.
Qed.
Theorem factory_suffix_metadata c q o : md_valid c q o -> factory_suffix_ok (md_layout c q o).
Proof.
  intros V s W. left. pose proof (md_head c q o V) as H.
  pose proof (md_unpack_pack c q o s V W) as U1. pose proof (md_unpack_pack c q o [] V ltac:(constructor)) as U2.
  rewrite app_nil_r in U2. suffix_via H U1 U2. reflexivity.
Qed.
Theorem factory_suffix_nak c q : nak_valid c q -> factory_suffix_ok (nak_layout c q).
Proof.
  intros V s W. destruct s as [|x s]; [left; rewrite app_nil_r; reflexivity|right].
  pose proof (nak_head c q V) as H.
  pose proof (nak_unpack_pack_surplus c q (x :: s) V W ltac:(discriminate)) as U1.
  pose proof (nak_unpack_pack c q V) as U2.
  exists EValue. split; [|reflexivity].
  pose proof (head_from_raw _ _ (head_app _ _ (x :: s) H)) as HF.
  cbn [nak_pdu_of nak_mk nk_fd fdir_of fd_type] in HF.
  unfold directive_type_of, DT_EOF, DT_METADATA, DT_FINISHED, DT_ACK, DT_NAK, DT_KEEP_ALIVE, DT_PROMPT in HF.
  cbn [Z.eqb Pos.eqb orb bind] in HF. rewrite HF, U1. reflexivity.
Qed.
Theorem factory_suffix_file_data c q : FileDataSpec.fd_valid c q -> factory_suffix_ok (FileDataSpec.fd_layout c q).
Proof.
  intros V s W. left. pose proof (FileDataProofs.fd_header_valid c q V) as HV.
  assert (HD : exists tl, FileDataSpec.fd_layout c q = hdr_layout (FileDataSpec.fd_header c q) ++ tl).
  { unfold FileDataSpec.fd_layout. cbv zeta. destruct (cf_crc c =? 1); rewrite <- ?app_assoc; eexists; reflexivity. }
  destruct HD as (tl & HD).
  assert (I1 : forall r, fac_is_file_directive (FileDataSpec.fd_layout c q ++ r) = Ok false).
  { intros r. rewrite HD, <- app_assoc. rewrite fac_is_file_directive_layout by exact HV. reflexivity. }
  pose proof (I1 []) as I0. rewrite app_nil_r in I0.
  unfold fac_from_raw. rewrite I1, I0. cbn [bind negb].
  rewrite FileDataCrc.fd_unpack_pack_full by assumption.
  pose proof (FileDataCrc.fd_unpack_pack_full c q [] V ltac:(constructor)) as U. rewrite app_nil_r in U. rewrite U.
  reflexivity.
Qed.

(* ================= C10: every strict prefix of a packed PDU is refused ================= *)

Lemma firstn_cons_S {A} n (x : A) l : firstn (S n) (x :: l) = x :: firstn n l.
Proof. reflexivity. Qed.

(* a prefix that ends inside header + directive octet: BytesTooShortError from the inspectors *)
Lemma head_prefix_short L f n : directive_head L f -> (n < length (fdir_layout f))%nat ->
  fac_from_raw (firstn n L) = Err ETooShort.
Proof.
  intros ((V & R) & T & tl & ->) Ln. rewrite firstn_app_le by lia.
  assert (LH : length (fdir_layout f) = S (length (hdr_layout (fd_hdr f))))
    by (unfold fdir_layout; rewrite app_length; cbn [length]; lia).
  unfold fdir_layout. rewrite firstn_app_le by lia.
  pose proof (hdr_layout_wf _ V) as WH. destruct (hdr_layout_length _ V) as [LL _].
  pose proof (header_len_from_raw_pack (fd_hdr f) [] V) as HP. rewrite app_nil_r in HP.
  pose proof (fac_pdu_type_layout (fd_hdr f) [] V) as TP. rewrite app_nil_r in TP.
  destruct (hdr_valid_packet_len _ V) as [RHL _].
  revert WH LL HP TP. unfold hdr_layout, hdr_fixed_layout. cbn [app].
  set (o0 := 32 + _ + _ + _ + _ + _). set (o1 := _ / 256). set (o2 := _ mod 256).
  set (o3 := _ * 128 + _ + _ + _). set (R4 := be_encode _ _ ++ _).
  intros WH LL HP TP.
  destruct n as [|n].
  { reflexivity. }
  rewrite firstn_cons_S. unfold fac_from_raw, fac_is_file_directive. rewrite fac_pdu_type_cons.
  rewrite fac_pdu_type_cons in TP. injection TP as TP. rewrite TP, T. unfold PDU_FILE_DIRECTIVE. cbn [bind Z.eqb negb].
  unfold fac_pdu_directive_type, fac_is_file_directive. rewrite fac_pdu_type_cons, TP, T. unfold PDU_FILE_DIRECTIVE. cbn [bind Z.eqb negb].
  destruct (header_len_from_raw_spec (o0 :: firstn n (o1 :: o2 :: o3 :: R4))) as [S1 S2].
  destruct n as [|[|[|n]]]; try (rewrite S2 by (unfold len; cbn [firstn length]; lia); reflexivity).
  rewrite !firstn_cons_S in *.
  assert (R3 : 0 <= o3 < 256).
  { unfold wf_bytes in WH. inversion WH as [|? ? _ W1]; subst. inversion W1 as [|? ? _ W2]; subst.
    inversion W2 as [|? ? _ W3]; subst. inversion W3; subst. assumption. }
  rewrite (S1 _ _ _ _ _ eq_refl R3). cbn [bind].
  destruct (header_len_from_raw_spec (o0 :: o1 :: o2 :: o3 :: R4)) as [S1' _].
  rewrite (S1' _ _ _ _ _ eq_refl R3) in HP.
  match type of HP with Ok ?X = Ok ?Y => assert (HPE : X = Y) by congruence end. rewrite HPE.
  rewrite !len_cons. unfold len. rewrite firstn_length.
  unfold len in LL. cbn [length] in LL, Ln, LH.
  match goal with |- context [if ?c then Err ETooShort else _] => destruct c eqn:E; [reflexivity|exfalso] end. lia.
Qed.

(* a longer prefix still starts with the complete base object *)
Lemma head_prefix_long L f n : directive_head L f -> (length (fdir_layout f) <= n)%nat ->
  directive_head (firstn n L) f.
Proof.
  intros (V & T & tl & ->) Ln. split; [exact V|]. split; [exact T|].
  exists (firstn (n - length (fdir_layout f)) tl). rewrite firstn_app.
  rewrite firstn_all2 by lia. reflexivity.
Qed.

Definition prefix_rejected (L : bytes) : Prop := forall n, (n < length L)%nat ->
  exists e, fac_from_raw (firstn n L) = Err e /\ documented e = true.

Ltac prefix_via H PR :=
  let n := fresh "n" in let Ln := fresh "Ln" in intros n Ln;
  match type of H with directive_head ?L ?f =>
    destruct (Nat.lt_ge_cases n (length (fdir_layout f))) as [S|S];
    [exists ETooShort; split; [apply (head_prefix_short L f n H S)|reflexivity]|
     let HF := fresh in
     pose proof (head_from_raw _ _ (head_prefix_long L f n H S)) as HF;
     cbn [directive_fdir fdir_of fd_type nak_pdu_of nak_mk nk_fd] in HF;
     unfold directive_type_of, DT_EOF, DT_METADATA, DT_FINISHED, DT_ACK, DT_NAK, DT_KEEP_ALIVE, DT_PROMPT in HF;
     cbn [Z.eqb Pos.eqb orb bind] in HF; rewrite HF;
     let e := fresh "e" in let U := fresh "U" in let D := fresh "D" in
     destruct (PR n Ln) as (e & U & D); rewrite U; exists e; split; [reflexivity|exact D]]
  end.

Theorem factory_prefix_rejected_eof c q : eof_valid c q -> prefix_rejected (eof_layout c q).
Proof. intros V. pose proof (eof_head c q V) as H. prefix_via H (fun n => eof_prefix_rejected c q n (eof_valid_wf c q V)). Qed.
Theorem factory_prefix_rejected_ack c q : ack_valid c q -> prefix_rejected (ack_layout c q).
Proof. intros V. pose proof (ack_head c q V) as H. prefix_via H (fun n => ack_prefix_rejected c q n V). Qed.
Theorem factory_prefix_rejected_prompt c rr : prompt_valid c rr -> prefix_rejected (prompt_layout c rr).
Proof. intros V. pose proof (prompt_head c rr V) as H. prefix_via H (fun n => prompt_prefix_rejected c rr n V). Qed.
Theorem factory_prefix_rejected_ka c v : ka_valid c v -> prefix_rejected (ka_layout c v).
Proof. intros V. pose proof (ka_head c v V) as H. prefix_via H (fun n => ka_prefix_rejected c v n (proj1 V)). Qed.
Theorem factory_prefix_rejected_finished c q : fin_valid c q -> prefix_rejected (fin_layout c q).
Proof. intros V. pose proof (fin_head c q V) as H. prefix_via H (fun n => fin_prefix_rejected c q n V). Qed.
Theorem factory_prefix_rejected_metadata c q o : md_valid c q o -> prefix_rejected (md_layout c q o).
Proof. intros V. pose proof (md_head c q o V) as H. prefix_via H (fun n => md_prefix_rejected c q o n V). Qed.
Theorem factory_prefix_rejected_nak c q : nak_valid c q -> prefix_rejected (nak_layout c q).
Proof. intros V. pose proof (nak_head c q V) as H. prefix_via H (fun n => nak_prefix_rejected c q n V). Qed.

Theorem factory_prefix_rejected_file_data c q : FileDataSpec.fd_valid c q -> prefix_rejected (FileDataSpec.fd_layout c q).
Proof.
  intros V n Ln. pose proof (FileDataProofs.fd_header_valid c q V) as HV.
  destruct n as [|n]; [exists ETooShort; split; reflexivity|].
  assert (HD : exists tl, FileDataSpec.fd_layout c q = hdr_layout (FileDataSpec.fd_header c q) ++ tl).
  { unfold FileDataSpec.fd_layout. cbv zeta. destruct (cf_crc c =? 1); rewrite <- ?app_assoc; eexists; reflexivity. }
  destruct HD as (tl & HD).
  pose proof (fac_pdu_type_layout _ tl HV) as TP. rewrite <- HD in TP.
  destruct (FileDataProofs.fd_prefix_rejected c q (S n) V Ln) as (e & U & D).
  revert TP U. generalize (FileDataSpec.fd_layout c q) as L. intros [|x L] TP U; [discriminate|].
  rewrite firstn_cons_S in *. rewrite fac_pdu_type_cons in TP.
  unfold fac_from_raw, fac_is_file_directive. rewrite fac_pdu_type_cons. injection TP as ->.
  cbn [bind Z.eqb negb FileDataSpec.fd_header h_type]. rewrite U. exists e. split; [reflexivity|exact D].
Qed.
