(* Setter-invariant lemmas for histories on one live UnsignedByteField through EVERY public
   setter (Model/UtilHist.v): value by int / by octets, byte_len, same-value re-assignment.
   (C20 "assigning a new value ... keeps all views in step", C11-style setter invariants.) *)
From Coq Require Import ZArith List Bool Lia ZifyBool.
From SP Require Import Base.Result Base.Bytes Base.BytesFacts Model.Util Model.UtilHist Spec.UtilSpec
  Proofs.UtilProofs.
Import ListNotations.
Open Scope Z_scope.
Ltac Zify.zify_post_hook ::= Z.to_euclidean_division_equations.

(* what every object satisfies at every point of a history, also between a byte_len change and
   the next assignment: a supported width and well-formed octets (of whatever width) *)
Definition ubf_inv (f : ubf) : Prop := width_ok (ubf_len f) /\ wf_bytes (ubf_bytes f).

Definition hop_wf (o : ubf_hop) : Prop := match o with HSetBytes b => wf_bytes b | _ => True end.
Definition is_assign (o : ubf_hop) : bool := match o with HSetLen _ => false | _ => true end.

Lemma ubf_wf_inv f : ubf_wf f -> ubf_inv f.
Proof. intros (Hw & _ & Hb). split; [exact Hw|]. rewrite Hb. apply be_encode_wf. Qed.

(* the assignments look at the width only, never at the stored value / octets: after a resize
   they behave exactly as on a fresh field of the new width *)
Lemma ubf_set_int_any f v : width_ok (ubf_len f) -> ubf_set_int f v = ubf_new v (ubf_len f).
Proof.
  intros Hw. pose proof (width_ok_nonneg _ Hw) as Hn. unfold ubf_set_int.
  assert (D : representable (ubf_len f) v \/ ~ representable (ubf_len f) v) by (unfold representable; lia).
  destruct D as [D|D].
  - rewrite verify_int_value_ok by assumption. cbn [bind].
    rewrite to_unsigned_repr by assumption. cbn [bind]. rewrite ubf_new_ok by assumption. reflexivity.
  - rewrite verify_int_value_err by assumption. cbn [bind]. rewrite ubf_new_err by tauto. reflexivity.
Qed.

Lemma ubf_set_bytes_any f b : width_ok (ubf_len f) -> wf_bytes b ->
  ubf_set_bytes f b = sized_from_bytes (ubf_len f) b.
Proof.
  intros Hw Hb. pose proof (width_ok_nonneg _ Hw) as Hn.
  unfold ubf_set_bytes, verify_bytes_value, sized_from_bytes, int_from_bytes.
  destruct (len b <? ubf_len f) eqn:E; [reflexivity|]. cbn [negb].
  rewrite slice_0_firstn.
  rewrite verify_int_value_ok by (first [assumption | apply firstn_repr; [assumption|lia]]).
  reflexivity.
Qed.

(* byte_len setter: accepted exactly for a supported width; changes the width and nothing else *)
Lemma ubf_set_len_ok f w : width_ok w ->
  ubf_set_len f w = Ok {| ubf_len := w; ubf_val := ubf_val f; ubf_bytes := ubf_bytes f |}.
Proof.
  intros Hw. unfold ubf_set_len, verify_byte_len.
  assert (byte_num_allowed w = true) as -> by (apply byte_num_allowed_iff, Hw). reflexivity.
Qed.
Lemma ubf_set_len_refuses f w : ~ width_ok w -> ubf_set_len f w = Err EValue.
Proof.
  intros Hw. unfold ubf_set_len, verify_byte_len. rewrite byte_num_allowed_false by assumption. reflexivity.
Qed.
Lemma ubf_set_len_inv f w f' : ubf_set_len f w = Ok f' ->
  width_ok w /\ ubf_len f' = w /\ ubf_val f' = ubf_val f /\ ubf_bytes f' = ubf_bytes f.
Proof.
  intros H. assert (D : width_ok w \/ ~ width_ok w) by (unfold width_ok; lia). destruct D as [D|D].
  - rewrite ubf_set_len_ok in H by assumption. inversion H. cbn. auto.
  - rewrite ubf_set_len_refuses in H by assumption. discriminate.
Qed.

(* a refused operation leaves the object exactly as it was *)
Lemma ubf_refused_unchanged f o e : ubf_hstep f o = Err e -> ubf_happly f o = f.
Proof. intros H. unfold ubf_happly. rewrite H. reflexivity. Qed.

(* K1: an ACCEPTED assignment to `value` -- by integer, by octets, or of what the object already
   holds -- makes all views coherent in the CURRENT width, whatever byte_len changes came before *)
Lemma ubf_assign_coherent f o f' : ubf_inv f -> hop_wf o -> is_assign o = true ->
  ubf_hstep f o = Ok f' -> ubf_wf f' /\ ubf_len f' = ubf_len f.
Proof.
  intros [Hw Hb] Ho Ha. destruct o as [v|b|w| |]; cbn [ubf_hstep is_assign hop_wf] in *; try discriminate.
  - rewrite ubf_set_int_any by assumption. intros H. split; [eapply ubf_new_wf; eassumption|].
    apply ubf_new_inv in H. destruct H as (_ & _ & ->). reflexivity.
  - rewrite ubf_set_bytes_any by assumption. intros H. split.
    + eapply sized_from_bytes_wf; eassumption.
    + unfold sized_from_bytes in H. destruct (len b <? ubf_len f); [discriminate|]. inversion H. reflexivity.
  - rewrite ubf_set_int_any by assumption. intros H. split; [eapply ubf_new_wf; eassumption|].
    apply ubf_new_inv in H. destruct H as (_ & _ & ->). reflexivity.
  - rewrite ubf_set_bytes_any by assumption. intros H. split.
    + eapply sized_from_bytes_wf; eassumption.
    + unfold sized_from_bytes in H. destruct (len (ubf_bytes f) <? ubf_len f); [discriminate|]. inversion H. reflexivity.
Qed.

(* K2: the invariant survives every operation, accepted or refused *)
Lemma ubf_happly_inv f o : ubf_inv f -> hop_wf o -> ubf_inv (ubf_happly f o).
Proof.
  intros Hf Ho. unfold ubf_happly. destruct (ubf_hstep f o) as [f'|e] eqn:E; [|exact Hf].
  destruct (is_assign o) eqn:A.
  - apply ubf_wf_inv. eapply ubf_assign_coherent; eassumption.
  - destruct o; try discriminate. cbn [ubf_hstep] in E. apply ubf_set_len_inv in E.
    destruct E as (Hw & El & _ & Eb). unfold ubf_inv. rewrite El, Eb. split; [exact Hw|apply Hf].
Qed.

Lemma ubf_hrun_inv ops : forall f, ubf_inv f -> Forall hop_wf ops -> ubf_inv (ubf_hrun f ops).
Proof.
  induction ops as [|o ops IH]; intros f Hf Hops; cbn [ubf_hrun]; [exact Hf|].
  inversion Hops; subst. apply IH; [apply ubf_happly_inv|]; assumption.
Qed.

(* K3: after ANY history (resizes, refused operations, ...) an accepted assignment brings every
   view in step: the result is the field a fresh construction with that value and the current
   width gives *)
Lemma ubf_history_then_assign f ops o f' : ubf_wf f -> Forall hop_wf ops -> hop_wf o -> is_assign o = true ->
  ubf_hstep (ubf_hrun f ops) o = Ok f' ->
  ubf_new (ubf_val f') (ubf_len f') = Ok f' /\ ubf_len f' = ubf_len (ubf_hrun f ops).
Proof.
  intros Hf Hops Ho Ha H.
  destruct (ubf_assign_coherent _ o f' (ubf_hrun_inv ops f (ubf_wf_inv f Hf) Hops) Ho Ha H) as [W L].
  split; [apply ubf_wf_iff; exact W|exact L].
Qed.

(* K4: resize, then re-assign the number the field already holds: exactly the field of the new
   width with the old value (refused when the value does not fit the new width) *)
Lemma ubf_resize_then_same f w f1 : ubf_wf f -> ubf_set_len f w = Ok f1 ->
  ubf_hstep f1 HSameInt = ubf_new (ubf_val f) w.
Proof.
  intros Hf H. apply ubf_set_len_inv in H. destruct H as (Hw & El & Ev & _).
  cbn [ubf_hstep]. rewrite ubf_set_int_any by (rewrite El; exact Hw). rewrite El, Ev. reflexivity.
Qed.

(* K5: while no byte_len change happens, the coherent state is kept by every operation *)
Lemma ubf_happly_wf f o : ubf_wf f -> hop_wf o -> is_assign o = true -> ubf_wf (ubf_happly f o).
Proof.
  intros Hf Ho Ha. unfold ubf_happly. destruct (ubf_hstep f o) as [f'|e] eqn:E; [|exact Hf].
  eapply ubf_assign_coherent; try eassumption. apply ubf_wf_inv. exact Hf.
Qed.

(* K6: the coherence test of the model is the invariant ubf_wf *)
Lemma ubf_coherent_iff f : wf_bytes (ubf_bytes f) -> (ubf_coherent f = true <-> ubf_wf f).
Proof.
  intros Hb. unfold ubf_coherent, ubf_wf, representable, ubf_layout.
  rewrite !andb_true_iff, byte_num_allowed_iff, bytes_eqb_eq, Z.leb_le, Z.ltb_lt. tauto.
Qed.
