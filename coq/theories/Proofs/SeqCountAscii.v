(* C19 gap: the rejection clause with the alphabet explicit. *)
From Coq Require Import ZArith List Bool Lia.
From SP Require Import Base.Result Base.Bytes Model.SeqCount Spec.SeqCountSpec Proofs.SeqCountProofs.
Import ListNotations.
Open Scope Z_scope.

(* the alphabet of the model: ASCII character codes *)
Definition ascii_text (c : list Z) : Prop := Forall (fun x => 0 <= x <= 127) c.

(* EVERY file content over the ASCII alphabet either holds a count (first line a decimal
   numeral of a value in range, trailing blanks allowed) or is refused with ValueError by both
   get_and_increment and current, the file left exactly as it was.
   (The dichotomy itself does not use the bound on the codes: the bound states for which contents
   the model speaks.  Content outside ASCII -- where Python's str.isdigit / int / rstrip and the
   text decoding of the file know more digits, more blanks and undecodable octets -- is outside
   the model; it is explored on the implementation only, harness/props/c19.py EXPLORED_ONLY.) *)
Theorem file_content_dichotomy w c : ascii_text c -> 0 <= w ->
  (exists n, holds_count w c n) \/
  (file_next w (Some c) = (Err EValue, Some c) /\ file_current w (Some c) = Err EValue).
Proof.
  intros _ Hw. unfold file_next, file_current.
  destruct (check_count_cases w (readline c)) as [[n E]|E].
  - left. exists n. apply file_valid_iff. exact E.
  - right. rewrite E. split; reflexivity.
Qed.

(* the two cases exclude each other: a file that holds a count is never refused *)
Theorem file_content_exclusive w c n : 0 <= w -> holds_count w c n ->
  fst (file_next w (Some c)) = Ok n /\ file_current w (Some c) = Ok n.
Proof.
  intros Hw H. pose proof (file_next_spec w (Some c) Hw) as [S _].
  destruct (S n H) as (c' & E & _ & Cu). rewrite E. split; [reflexivity|exact Cu].
Qed.

(* non-vacuity: both sides occur over ASCII *)
Example dichotomy_examples :
  ascii_text [52; 50; 32; 13; 10; 120] /\ holds_count 14 [52; 50; 32; 13; 10; 120] 42 /\
  ascii_text [52; 50; 120; 10] /\ file_next 14 (Some [52; 50; 120; 10]) = (Err EValue, Some [52; 50; 120; 10]) /\
  ascii_text [] /\ file_next 14 (Some []) = (Err EValue, Some []) /\
  ascii_text [49; 54; 51; 56; 52; 10] /\ file_next 14 (Some [49; 54; 51; 56; 52; 10]) = (Err EValue, Some [49; 54; 51; 56; 52; 10]).
Proof.
  assert (A : forall l, forallb (fun x => (0 <=? x) && (x <=? 127)) l = true -> ascii_text l).
  { intros l H. unfold ascii_text. rewrite Forall_forall. rewrite forallb_forall in H.
    intros x Hx. specialize (H x Hx). lia. }
  repeat split; try (apply A; reflexivity); try (vm_compute; reflexivity).
  apply file_valid_iff. vm_compute. reflexivity.
Qed.
