From Coq Require Import ZArith List Bool Lia ZifyBool.
From SP Require Import Base.Result Base.Bytes Base.BytesFacts Model.SpacePacket Spec.SpacePacketSpec.
Import ListNotations.
Open Scope Z_scope.
Ltac Zify.zify_post_hook ::= Z.to_euclidean_division_equations.
Ltac list_eq := repeat (apply f_equal2; [lia|]); try reflexivity.

(* ================= finite sweeps over 16-bit words ================= *)

Definition chk_word0_pack (w : Z) : bool :=
  Z.lor (Z.shiftl (w / 8192) 13)
        (Z.lor (Z.lor (Z.shiftl ((w / 4096) mod 2) 12) (Z.shiftl ((w / 2048) mod 2) 11))
               (w mod 2048)) =? w.

Lemma word0_pack_sweep : forallb chk_word0_pack (zrange 0 65536) = true.
Proof. vm_compute. reflexivity. Qed.

Definition chk_word0_unpack (w : Z) : bool :=
  let d0 := w / 256 in let d1 := w mod 256 in
  (Z.land (Z.shiftr d0 5) 7 =? w / 8192) &&
  (Z.land (Z.shiftr d0 4) 1 =? (w / 4096) mod 2) &&
  (Z.land (Z.shiftr d0 3) 1 =? (w / 2048) mod 2) &&
  (Z.lor (Z.shiftl (Z.land d0 7) 8) d1 =? w mod 2048).

Lemma word0_unpack_sweep : forallb chk_word0_unpack (zrange 0 65536) = true.
Proof. vm_compute. reflexivity. Qed.

Definition chk_word1 (w : Z) : bool :=
  (Z.shiftr (Z.land w SEQ_FLAG_MASK) 14 =? w / 16384) &&
  (Z.land w (Z.lnot SEQ_FLAG_MASK) =? w mod 16384) &&
  (Z.lor (Z.shiftl (w / 16384) 14) (w mod 16384) =? w) &&
  (Z.land w 49152 =? (w / 16384) * 16384).

Lemma word1_sweep : forallb chk_word1 (zrange 0 65536) = true.
Proof. vm_compute. reflexivity. Qed.

(* helper-encoder sweep: get_space_packet_id_bytes on in-range arguments *)
Definition chk_id_bytes (w : Z) : bool :=
  let v := w / 8192 in let t := (w / 4096) mod 2 in let s := (w / 2048) mod 2 in
  let a := w mod 2048 in
  let '(b1, b2) := get_space_packet_id_bytes t s a v in
  (b1 =? w / 256) && (b2 =? w mod 256).
Lemma id_bytes_sweep : forallb chk_id_bytes (zrange 0 65536) = true.
Proof. vm_compute. reflexivity. Qed.

Lemma word0_pack w : 0 <= w < 65536 -> chk_word0_pack w = true.
Proof. intros. apply (sweep _ 0 65536); [lia|exact word0_pack_sweep|lia]. Qed.
Lemma word0_unpack w : 0 <= w < 65536 -> chk_word0_unpack w = true.
Proof. intros. apply (sweep _ 0 65536); [lia|exact word0_unpack_sweep|lia]. Qed.
Lemma word1 w : 0 <= w < 65536 -> chk_word1 w = true.
Proof. intros. apply (sweep _ 0 65536); [lia|exact word1_sweep|lia]. Qed.
Lemma id_bytes_w w : 0 <= w < 65536 -> chk_id_bytes w = true.
Proof. intros. apply (sweep _ 0 65536); [lia|exact id_bytes_sweep|lia]. Qed.

(* ================= constructor range checks ================= *)

Lemma psc_new_ok f c : 0 <= c <= 16383 -> psc_new f c = Ok {| psc_flags := f; psc_count := c |}.
Proof. intros H. unfold psc_new, MAX_SEQ_COUNT. destruct (_ || _) eqn:E; [lia|reflexivity]. Qed.
Lemma psc_new_err f c : ~ (0 <= c <= 16383) -> psc_new f c = Err EValue.
Proof. intros H. unfold psc_new, MAX_SEQ_COUNT. destruct (_ || _) eqn:E; [reflexivity|lia]. Qed.
Lemma pid_new_ok t s a : 0 <= a <= 2047 -> pid_new t s a = Ok {| pid_ptype := t; pid_shf := s; pid_apid := a |}.
Proof. intros H. unfold pid_new. destruct (_ || _) eqn:E; [lia|reflexivity]. Qed.
Lemma pid_new_err t s a : ~ (0 <= a <= 2047) -> pid_new t s a = Err EValue.
Proof. intros H. unfold pid_new. destruct (_ || _) eqn:E; [reflexivity|lia]. Qed.

Lemma sph_new_ok t a c d s f v :
  0 <= a <= 2047 -> 0 <= c <= 16383 -> 0 <= d <= 65535 ->
  sph_new t a c d s f v =
  Ok {| ver := v; ptype := t; shf := s; apid := a; sflags := f; scount := c; dlen := d |}.
Proof.
  intros Ha Hc Hd. unfold sph_new. destruct (_ || _) eqn:E; [lia|].
  rewrite pid_new_ok, psc_new_ok by assumption. reflexivity.
Qed.

(* accepted exactly on the three ranges; every other integer -> ValueError *)
Lemma sph_new_accepts_iff t a c d s f v :
  (0 <= a <= 2047 /\ 0 <= c <= 16383 /\ 0 <= d <= 65535 ->
     sph_new t a c d s f v =
     Ok {| ver := v; ptype := t; shf := s; apid := a; sflags := f; scount := c; dlen := d |}) /\
  (~ (0 <= a <= 2047 /\ 0 <= c <= 16383 /\ 0 <= d <= 65535) ->
     sph_new t a c d s f v = Err EValue).
Proof.
  split.
  - intros (Ha & Hc & Hd). apply sph_new_ok; assumption.
  - intros H. unfold sph_new. destruct (_ || _) eqn:E; [reflexivity|].
    destruct (Z_le_dec 0 a), (Z_le_dec a 2047);
      try (rewrite pid_new_err by lia; reflexivity).
    rewrite pid_new_ok by lia. cbn [bind].
    rewrite psc_new_err by lia. reflexivity.
Qed.

(* ================= pack = layout ================= *)

Lemma word0_fields h :
  sph_valid h ->
  let w := sph_word0 h in
  0 <= w < 65536 /\ w / 8192 = ver h /\ (w / 4096) mod 2 = ptype h /\
  (w / 2048) mod 2 = shf h /\ w mod 2048 = apid h.
Proof. unfold sph_valid, sph_word0. intros H. cbv zeta. lia. Qed.

Lemma word1_fields h :
  sph_valid h ->
  let w := sph_word1 h in
  0 <= w < 65536 /\ w / 16384 = sflags h /\ w mod 16384 = scount h.
Proof. unfold sph_valid, sph_word1. intros H. cbv zeta. lia. Qed.

Lemma pid_raw_word0 h : sph_valid h ->
  Z.lor (Z.shiftl (ver h) 13) (pid_raw (sph_pid h)) = sph_word0 h.
Proof.
  intros H. destruct (word0_fields h H) as (R & E1 & E2 & E3 & E4).
  pose proof (word0_pack _ R) as P. unfold chk_word0_pack in P.
  rewrite E1, E2, E3, E4 in P. unfold pid_raw, sph_pid; cbn [pid_ptype pid_shf pid_apid]. lia.
Qed.

Lemma psc_raw_word1 h : sph_valid h -> psc_raw (sph_psc h) = sph_word1 h.
Proof.
  intros H. destruct (word1_fields h H) as (R & E1 & E2).
  pose proof (word1 _ R) as P. unfold chk_word1 in P.
  rewrite E1, E2 in P. unfold psc_raw, sph_psc; cbn [psc_flags psc_count]. lia.
Qed.

Lemma sph_layout_words h : sph_valid h ->
  sph_layout h = be_encode 2 (sph_word0 h) ++ be_encode 2 (sph_word1 h) ++ be_encode 2 (dlen h).
Proof.
  intros H. rewrite !be_encode_2. unfold sph_layout, sph_word0, sph_word1, sph_valid in *.
  cbn [app]. list_eq.
Qed.

(* pack()'s own range checks: passed exactly when APID, count and data length are in range *)
Lemma sph_valid_split h : sph_valid h <-> sph_rest_valid h /\ sph_in_range h.
Proof. unfold sph_valid, sph_rest_valid, sph_in_range. tauto. Qed.

Lemma sph_pack_in_range h : sph_in_range h ->
  sph_pack h =
  (do w0 <- struct_pack 2 (Z.lor (Z.shiftl (ver h) 13) (pid_raw (sph_pid h)));
   do w1 <- struct_pack 2 (psc_raw (sph_psc h));
   do w2 <- struct_pack 2 (dlen h);
   Ok (w0 ++ w1 ++ w2)).
Proof.
  intros (Ha & Hc & Hd). unfold sph_pack, MAX_APID, MAX_SEQ_COUNT.
  destruct ((apid h >? 2047) || (apid h <? 0)) eqn:E1; [lia|].
  destruct ((scount h >? 16383) || (scount h <? 0)) eqn:E2; [lia|].
  destruct ((dlen h >? 65535) || (dlen h <? 0)) eqn:E3; [lia|]. reflexivity.
Qed.

(* ... and an APID, sequence count or data length outside its range is refused with ValueError
   before anything is encoded -- for EVERY header state (also undefined version / flags) *)
Theorem sph_pack_out_of_range h : ~ sph_in_range h -> sph_pack h = Err EValue.
Proof.
  intros N. unfold sph_in_range in N. unfold sph_pack, MAX_APID, MAX_SEQ_COUNT.
  destruct ((apid h >? 2047) || (apid h <? 0)) eqn:E1; [reflexivity|].
  destruct ((scount h >? 16383) || (scount h <? 0)) eqn:E2; [reflexivity|].
  destruct ((dlen h >? 65535) || (dlen h <? 0)) eqn:E3; [reflexivity|]. lia.
Qed.

(* whatever pack() returns, it returns it for in-range values only: nothing out of range is encoded *)
Theorem sph_pack_ok_in_range h b : sph_pack h = Ok b -> sph_in_range h.
Proof.
  intros E.
  destruct (Z_le_dec 0 (apid h)), (Z_le_dec (apid h) 2047), (Z_le_dec 0 (scount h)),
    (Z_le_dec (scount h) 16383), (Z_le_dec 0 (dlen h)), (Z_le_dec (dlen h) 65535);
    try (unfold sph_in_range; lia);
    rewrite sph_pack_out_of_range in E by (unfold sph_in_range; lia); discriminate.
Qed.

(* whatever pack() returns (also for undefined version / flags) is six well-formed octets *)
Lemma sph_pack_ok_shape h b : sph_pack h = Ok b -> wf_bytes b /\ length b = 6%nat.
Proof.
  intros E. pose proof (sph_pack_ok_in_range _ _ E) as R. rewrite sph_pack_in_range in E by assumption.
  unfold struct_pack in E.
  repeat match type of E with context [if ?c then _ else _] => destruct c; [|discriminate] end.
  cbn [bind] in E. assert (B : b = be_encode 2 (Z.lor (Z.shiftl (ver h) 13) (pid_raw (sph_pid h))) ++
    be_encode 2 (psc_raw (sph_psc h)) ++ be_encode 2 (dlen h)) by congruence.
  subst b. split.
  - rewrite !wf_bytes_app. repeat split; apply be_encode_wf.
  - rewrite !app_length, !be_encode_length. reflexivity.
Qed.

Theorem sph_pack_layout h : sph_valid h -> sph_pack h = Ok (sph_layout h).
Proof.
  intros H. rewrite sph_pack_in_range by (apply sph_valid_split in H; apply H).
  rewrite pid_raw_word0, psc_raw_word1 by assumption.
  destruct (word0_fields h H) as (R0 & _). destruct (word1_fields h H) as (R1 & _).
  rewrite !struct_pack_ok by (cbn; unfold sph_valid in H; lia).
  cbn [bind]. rewrite sph_layout_words by assumption. reflexivity.
Qed.

Lemma sph_layout_length h : length (sph_layout h) = 6%nat.
Proof. reflexivity. Qed.

Lemma sph_layout_wf h : sph_valid h -> wf_bytes (sph_layout h).
Proof.
  intros H. rewrite sph_layout_words by assumption.
  rewrite !wf_bytes_app. repeat split; apply be_encode_wf.
Qed.

(* ================= unpack ================= *)

(* the decoder on six explicit octets followed by anything *)
Lemma sph_unpack_octets b0 b1 b2 b3 b4 b5 rest :
  wf_bytes [b0; b1; b2; b3; b4; b5] ->
  sph_unpack (b0 :: b1 :: b2 :: b3 :: b4 :: b5 :: rest) = Ok (sph_of_octets b0 b1 b2 b3 b4 b5).
Proof.
  intros W. unfold wf_bytes in W.
  repeat match goal with H : Forall _ (_ :: _) |- _ => inversion H; clear H; subst end.
  unfold sph_unpack.
  assert (L : len (b0 :: b1 :: b2 :: b3 :: b4 :: b5 :: rest) <? 6 = false).
  { unfold len. cbn [length]. lia. }
  rewrite L. eval_get. cbn [bind].
  change (slice (b0 :: b1 :: b2 :: b3 :: b4 :: b5 :: rest) 2 4) with [b2; b3].
  change (slice (b0 :: b1 :: b2 :: b3 :: b4 :: b5 :: rest) 4 6) with [b4; b5].
  rewrite !struct_unpack_ok by reflexivity. cbn [bind]. rewrite !be_decode_2.
  assert (R0 : 0 <= b0 * 256 + b1 < 65536) by lia.
  assert (R1 : 0 <= b2 * 256 + b3 < 65536) by lia.
  pose proof (word0_unpack _ R0) as P0. pose proof (word1 _ R1) as P1.
  unfold chk_word0_unpack in P0. unfold chk_word1 in P1.
  replace ((b0 * 256 + b1) / 256) with b0 in P0 by lia.
  replace ((b0 * 256 + b1) mod 256) with b1 in P0 by lia.
  apply andb_prop in P0. destruct P0 as [P0 Pd]. apply andb_prop in P0. destruct P0 as [P0 Pc].
  apply andb_prop in P0. destruct P0 as [Pa Pb].
  apply andb_prop in P1. destruct P1 as [P1 _]. apply andb_prop in P1. destruct P1 as [P1 _].
  apply andb_prop in P1. destruct P1 as [Q1 Q2].
  apply Z.eqb_eq in Pa, Pb, Pc, Pd, Q1, Q2.
  rewrite Pa, Pb, Pc, Pd, Q1, Q2.
  rewrite sph_new_ok by lia.
  unfold sph_of_octets. f_equal. f_equal; lia.
Qed.

Lemma six_octets (b : bytes) : (6 <= length b)%nat ->
  exists b0 b1 b2 b3 b4 b5 rest, b = b0 :: b1 :: b2 :: b3 :: b4 :: b5 :: rest.
Proof.
  intros H. do 6 (destruct b as [|? b]; [cbn in H; lia|]). repeat eexists.
Qed.

Lemma sph_of_octets_valid b0 b1 b2 b3 b4 b5 :
  wf_bytes [b0; b1; b2; b3; b4; b5] -> sph_valid (sph_of_octets b0 b1 b2 b3 b4 b5).
Proof.
  intros W. unfold wf_bytes in W.
  repeat match goal with H : Forall _ (_ :: _) |- _ => inversion H; clear H; subst end.
  unfold sph_valid, sph_of_octets; cbn [ver ptype shf apid sflags scount dlen]. lia.
Qed.

Lemma sph_layout_of_octets b0 b1 b2 b3 b4 b5 :
  wf_bytes [b0; b1; b2; b3; b4; b5] ->
  sph_layout (sph_of_octets b0 b1 b2 b3 b4 b5) = [b0; b1; b2; b3; b4; b5].
Proof.
  intros W. unfold wf_bytes in W.
  repeat match goal with H : Forall _ (_ :: _) |- _ => inversion H; clear H; subst end.
  unfold sph_layout, sph_of_octets; cbn [ver ptype shf apid sflags scount dlen].
  list_eq.
Qed.

Lemma sph_of_octets_layout h : sph_valid h ->
  match sph_layout h with
  | [b0; b1; b2; b3; b4; b5] => sph_of_octets b0 b1 b2 b3 b4 b5 = h
  | _ => False
  end.
Proof.
  intros H. unfold sph_layout, sph_of_octets, sph_valid in *. destruct h; cbn in *.
  f_equal; lia.
Qed.

(* decode (encode h ++ rest) = h *)
Theorem sph_unpack_pack h rest : sph_valid h -> sph_unpack (sph_layout h ++ rest) = Ok h.
Proof.
  intros H. pose proof (sph_of_octets_layout h H) as E. pose proof (sph_layout_wf h H) as W.
  destruct (sph_layout h) as [|b0 [|b1 [|b2 [|b3 [|b4 [|b5 [|]]]]]]]; try contradiction.
  cbn [app]. rewrite sph_unpack_octets by assumption. congruence.
Qed.

(* any >= 6 octets: decodes to the header its first six octets denote, and
   re-encoding gives exactly those six octets *)
Theorem sph_pack_unpack b : wf_bytes b -> (6 <= length b)%nat ->
  exists h, sph_unpack b = Ok h /\ sph_valid h /\ sph_pack h = Ok (firstn 6 b) /\
            sph_layout h = firstn 6 b.
Proof.
  intros W L. destruct (six_octets b L) as (b0 & b1 & b2 & b3 & b4 & b5 & rest & ->).
  assert (W6 : wf_bytes [b0; b1; b2; b3; b4; b5]).
  { change (wf_bytes (firstn 6 (b0 :: b1 :: b2 :: b3 :: b4 :: b5 :: rest))).
    apply wf_bytes_firstn. assumption. }
  exists (sph_of_octets b0 b1 b2 b3 b4 b5).
  split; [apply sph_unpack_octets; assumption|].
  split; [apply sph_of_octets_valid; assumption|].
  rewrite sph_pack_layout by (apply sph_of_octets_valid; assumption).
  rewrite sph_layout_of_octets by assumption. split; reflexivity.
Qed.

Theorem sph_unpack_short b : (length b < 6)%nat -> sph_unpack b = Err ETooShort.
Proof. intros H. unfold sph_unpack, len. destruct (_ <? 6) eqn:E; [reflexivity|lia]. Qed.

Theorem sph_packet_len_spec h :
  sph_packet_len h = dlen h + 7 /\
  get_total_space_packet_len_from_len_field (dlen h) = dlen h + 7.
Proof. unfold sph_packet_len, get_total_space_packet_len_from_len_field, CCSDS_HEADER_LEN. lia. Qed.

(* ================= packet id / sequence control words ================= *)

Theorem pid_raw_is_word0_low h : sph_valid h -> pid_raw (sph_pid h) = sph_word0 h mod 8192.
Proof.
  intros H.
  set (h0 := {| ver := 0; ptype := ptype h; shf := shf h; apid := apid h;
                sflags := sflags h; scount := scount h; dlen := dlen h |}).
  assert (V0 : sph_valid h0) by (unfold sph_valid in *; cbn; lia).
  pose proof (pid_raw_word0 h0 V0) as E. cbn [ver h0] in E.
  change (sph_pid h0) with (sph_pid h) in E. rewrite Z.shiftl_0_l, Z.lor_0_l in E.
  rewrite E. unfold sph_word0, sph_valid in *. cbn. lia.
Qed.

Theorem pid_from_raw_spec raw :
  pid_from_raw raw =
  Ok {| pid_ptype := (raw / 4096) mod 2; pid_shf := (raw / 2048) mod 2; pid_apid := raw mod 2048 |}.
Proof.
  unfold pid_from_raw, APID_MASK.
  rewrite !shiftr_div by lia.
  change 1 with (2 ^ 1 - 1). change 2047 with (2 ^ 11 - 1).
  rewrite !land_ones_mod by lia.
  rewrite pid_new_ok; [reflexivity|]. change (2 ^ 11) with 2048. lia.
Qed.

Theorem pid_raw_from_raw raw : 0 <= raw < 8192 ->
  exists p, pid_from_raw raw = Ok p /\ pid_raw p = raw.
Proof.
  intros R. eexists. split; [apply pid_from_raw_spec|].
  assert (R' : 0 <= raw < 65536) by lia.
  pose proof (word0_pack _ R') as P. unfold chk_word0_pack in P.
  replace (raw / 8192) with 0 in P by lia. rewrite Z.shiftl_0_l, Z.lor_0_l in P.
  unfold pid_raw; cbn [pid_ptype pid_shf pid_apid]. change (2 ^ 1) with 2. change (2 ^ 11) with 2048.
  lia.
Qed.

Theorem pid_from_raw_raw t s a : 0 <= t < 2 -> 0 <= s < 2 -> 0 <= a <= 2047 ->
  pid_from_raw (pid_raw {| pid_ptype := t; pid_shf := s; pid_apid := a |}) =
  Ok {| pid_ptype := t; pid_shf := s; pid_apid := a |}.
Proof.
  intros Ht Hs Ha.
  set (h := {| ver := 0; ptype := t; shf := s; apid := a; sflags := 0; scount := 0; dlen := 0 |}).
  assert (V : sph_valid h) by (unfold sph_valid; cbn; lia).
  pose proof (pid_raw_is_word0_low h V) as E. change (sph_pid h) with {| pid_ptype := t; pid_shf := s; pid_apid := a |} in E.
  rewrite E, pid_from_raw_spec. unfold sph_word0; cbn [ver ptype shf apid h].
  f_equal. f_equal; lia.
Qed.

Lemma land_lnot_c000 a : Z.land a (Z.lnot 49152) = a - ((a mod 65536) / 16384) * 16384.
Proof.
  rewrite <- Z.ldiff_land.
  assert (D : Z.land (Z.ldiff a 49152) (Z.land a 49152) = 0).
  { apply Z.bits_inj'. intros n Hn.
    rewrite Z.land_spec, Z.ldiff_spec, Z.land_spec, Z.bits_0.
    destruct (Z.testbit a n), (Z.testbit 49152 n); reflexivity. }
  pose proof (Z.lor_ldiff_and a 49152) as L.
  rewrite <- Z.lxor_lor in L by exact D.
  rewrite <- Z.add_nocarry_lxor in L by exact D.
  assert (M : Z.land a 49152 = Z.land (a mod 65536) 49152).
  { change 65536 with (2 ^ 16). rewrite <- land_ones_mod by lia.
    rewrite <- Z.land_assoc. reflexivity. }
  assert (R : 0 <= a mod 65536 < 65536) by lia.
  pose proof (word1 _ R) as P. unfold chk_word1 in P.
  apply andb_prop in P. destruct P as [_ P]. apply Z.eqb_eq in P.
  rewrite M, P in L. lia.
Qed.

Theorem psc_from_raw_spec raw :
  (0 <= raw < 65536 ->
     psc_from_raw raw = Ok {| psc_flags := raw / 16384; psc_count := raw mod 16384 |}) /\
  (~ 0 <= raw < 65536 -> psc_from_raw raw = Err EValue).
Proof.
  unfold psc_from_raw, SEQ_FLAG_MASK. rewrite land_lnot_c000.
  rewrite shiftr_div by lia. change 3 with (2 ^ 2 - 1). rewrite land_ones_mod by lia.
  change (2 ^ 14) with 16384. change (2 ^ 2) with 4.
  split; intros R.
  - rewrite psc_new_ok by lia. f_equal. f_equal; lia.
  - apply psc_new_err. lia.
Qed.

Theorem psc_raw_from_raw raw : 0 <= raw < 65536 ->
  exists p, psc_from_raw raw = Ok p /\ psc_raw p = raw.
Proof.
  intros R. eexists. split; [apply psc_from_raw_spec; assumption|].
  pose proof (word1 _ R) as P. unfold chk_word1 in P.
  unfold psc_raw; cbn [psc_flags psc_count]. lia.
Qed.

Theorem psc_from_raw_raw f c : 0 <= f < 4 -> 0 <= c <= 16383 ->
  psc_raw {| psc_flags := f; psc_count := c |} = f * 16384 + c /\
  psc_from_raw (psc_raw {| psc_flags := f; psc_count := c |}) =
  Ok {| psc_flags := f; psc_count := c |}.
Proof.
  intros Hf Hc.
  set (h := {| ver := 0; ptype := 0; shf := 0; apid := 0; sflags := f; scount := c; dlen := 0 |}).
  assert (V : sph_valid h) by (unfold sph_valid; cbn; lia).
  pose proof (psc_raw_word1 h V) as E.
  change (sph_psc h) with {| psc_flags := f; psc_count := c |} in E.
  unfold sph_word1 in E; cbn [sflags scount h] in E. split; [exact E|].
  rewrite E. destruct (psc_from_raw_spec (f * 16384 + c)) as [S _].
  rewrite S by lia. f_equal. f_equal; lia.
Qed.

(* helper encoders *)
Theorem id_bytes_layout h : sph_valid h ->
  get_space_packet_id_bytes (ptype h) (shf h) (apid h) (ver h) =
  (nth 0 (sph_layout h) 0, nth 1 (sph_layout h) 0).
Proof.
  intros H. destruct (word0_fields h H) as (R & E1 & E2 & E3 & E4).
  pose proof (id_bytes_w _ R) as P. unfold chk_id_bytes in P.
  rewrite E1, E2, E3, E4 in P.
  destruct (get_space_packet_id_bytes _ _ _ _) as [b1 b2].
  unfold sph_layout; cbn [nth]. unfold sph_word0, sph_valid in *.
  f_equal; lia.
Qed.

Theorem get_sp_packet_id_raw_spec h : sph_valid h ->
  get_sp_packet_id_raw (ptype h) (shf h) (apid h) = Ok (sph_word0 h mod 8192).
Proof.
  intros H. unfold get_sp_packet_id_raw. rewrite pid_new_ok by (unfold sph_valid in H; lia).
  cbn [bind]. f_equal. apply (pid_raw_is_word0_low h H).
Qed.

Theorem get_sp_psc_raw_spec h : sph_valid h ->
  get_sp_psc_raw (sflags h) (scount h) = Ok (sph_word1 h).
Proof.
  intros H. unfold get_sp_psc_raw. rewrite psc_new_ok by (unfold sph_valid in H; lia).
  cbn [bind]. f_equal. apply (psc_raw_word1 h H).
Qed.

Theorem apid_from_raw_spec b : wf_bytes b -> (6 <= length b)%nat ->
  exists h, sph_unpack b = Ok h /\ get_apid_from_raw_space_packet b = Ok (apid h).
Proof.
  intros W L. destruct (six_octets b L) as (b0 & b1 & b2 & b3 & b4 & b5 & rest & ->).
  assert (W6 : wf_bytes [b0; b1; b2; b3; b4; b5]).
  { change (wf_bytes (firstn 6 (b0 :: b1 :: b2 :: b3 :: b4 :: b5 :: rest))).
    apply wf_bytes_firstn. assumption. }
  eexists. split; [apply sph_unpack_octets; assumption|].
  unfold get_apid_from_raw_space_packet.
  assert (Ln : len (b0 :: b1 :: b2 :: b3 :: b4 :: b5 :: rest) <? 6 = false).
  { unfold len. cbn [length]. lia. }
  rewrite Ln. eval_get. cbn [bind].
  unfold wf_bytes in W6.
  repeat match goal with H : Forall _ (_ :: _) |- _ => inversion H; clear H; subst end.
  assert (R0 : 0 <= b0 * 256 + b1 < 65536) by lia.
  pose proof (word0_unpack _ R0) as P0. unfold chk_word0_unpack in P0.
  replace ((b0 * 256 + b1) / 256) with b0 in P0 by lia.
  replace ((b0 * 256 + b1) mod 256) with b1 in P0 by lia.
  apply andb_prop in P0. destruct P0 as [_ Pd]. apply Z.eqb_eq in Pd.
  rewrite Pd. unfold sph_of_octets; cbn [apid]. f_equal. lia.
Qed.

(* SpacePacket.pack *)
Theorem space_packet_pack_spec h sec ud : sph_valid h ->
  space_packet_pack h sec ud =
  match shf h, sec, ud with
  | 1, None, _ => Err EValue
  | 1, Some s, None => Ok (sph_layout h ++ s)
  | 1, Some s, Some u => Ok ((sph_layout h ++ s) ++ u)
  | _, _, None => Err EValue
  | _, _, Some u => Ok (sph_layout h ++ u)
  end.
Proof.
  intros H. unfold space_packet_pack. rewrite sph_pack_layout by assumption. cbn [bind].
  assert (S : shf h = 0 \/ shf h = 1) by (unfold sph_valid in H; lia).
  destruct S as [-> | ->]; cbn; destruct sec, ud; reflexivity.
Qed.

(* non-vacuity *)
Example sph_valid_example :
  sph_valid {| ver := 5; ptype := 1; shf := 1; apid := 2047; sflags := 2; scount := 16383; dlen := 65535 |}.
Proof. unfold sph_valid; cbn; lia. Qed.

(* ================= operation histories over a header object (setters) ================= *)

(* the argument of a setter lies in the range of its field *)
Definition sph_op_in_range (o : sph_op) : Prop :=
  match o with
  | SoApid v => 0 <= v <= 2047
  | SoCount v => 0 <= v <= 16383
  | SoFlags v => 0 <= v < 4
  | SoPtype v => 0 <= v < 2
  | SoShf v => 0 <= v < 2
  | SoDlen v => 0 <= v <= 65535
  | SoPack | SoObserve | SoEqFresh => True
  end.

Lemma sph_apply_valid h o : sph_valid h -> sph_op_in_range o -> sph_valid (sph_apply h o).
Proof.
  unfold sph_valid. destruct o; cbn [sph_apply sph_op_in_range ver ptype shf apid sflags scount dlen];
    intros; lia.
Qed.

(* pack / observe / compare do not change the object *)
Lemma sph_observers_pure h :
  sph_apply h SoPack = h /\ sph_apply h SoObserve = h /\ sph_apply h SoEqFresh = h.
Proof. repeat split. Qed.

(* each setter changes exactly its own field *)
Lemma sph_apply_frame h o :
  let h' := sph_apply h o in
  ver h' = ver h /\
  (match o with SoPtype _ => True | _ => ptype h' = ptype h end) /\
  (match o with SoShf _ => True | _ => shf h' = shf h end) /\
  (match o with SoApid _ => True | _ => apid h' = apid h end) /\
  (match o with SoFlags _ => True | _ => sflags h' = sflags h end) /\
  (match o with SoCount _ => True | _ => scount h' = scount h end) /\
  (match o with SoDlen _ => True | _ => dlen h' = dlen h end).
Proof. destruct o; cbn; repeat split. Qed.

Lemma sph_history_valid ops : forall h, sph_valid h -> Forall sph_op_in_range ops ->
  sph_valid (fold_left sph_apply ops h).
Proof.
  induction ops as [|o ops IH]; intros h H F; cbn [fold_left]; [assumption|].
  inversion F; subst. apply IH; [apply sph_apply_valid|]; assumption.
Qed.

(* after ANY sequence of setter calls with in-range arguments the object packs to the six octets the
   standard prescribes for its current field values, reports data length + 7, and decodes back *)
Theorem sph_history_pack_layout ops h : sph_valid h -> Forall sph_op_in_range ops ->
  let h' := fold_left sph_apply ops h in
  sph_pack h' = Ok (sph_layout h') /\ sph_packet_len h' = dlen h' + 7 /\
  (forall rest, sph_unpack (sph_layout h' ++ rest) = Ok h').
Proof.
  intros H F h'. pose proof (sph_history_valid ops h H F) as V. fold h' in V.
  split; [apply sph_pack_layout; assumption|].
  split; [apply sph_packet_len_spec|].
  intros rest. apply sph_unpack_pack. assumption.
Qed.

Lemma sph_bytes_eqb_refl (b : bytes) : bytes_eqb b b = true.
Proof. induction b as [|x b IH]; cbn; [reflexivity|]. rewrite Z.eqb_refl. exact IH. Qed.

(* a valid object equals (both ways) a freshly constructed header with its own field values *)
Theorem sph_eq_fresh_valid h : sph_valid h -> sph_eq_fresh h = Ok (true, true).
Proof.
  intros H. unfold sph_eq_fresh.
  assert (R : 0 <= apid h <= 2047 /\ 0 <= scount h <= 16383 /\ 0 <= dlen h <= 65535)
    by (unfold sph_valid in H; lia).
  destruct R as (Ra & Rc & Rd).
  rewrite (sph_new_ok (ptype h) (apid h) (scount h) (dlen h) (shf h) (sflags h) (ver h)) by assumption.
  cbn [bind].
  replace {| ver := ver h; ptype := ptype h; shf := shf h; apid := apid h; sflags := sflags h;
             scount := scount h; dlen := dlen h |} with h by (destruct h; reflexivity).
  unfold sph_eq_res. rewrite sph_pack_layout by assumption. cbn [bind].
  rewrite sph_bytes_eqb_refl. reflexivity.
Qed.

Corollary sph_history_eq_fresh ops h : sph_valid h -> Forall sph_op_in_range ops ->
  sph_eq_fresh (fold_left sph_apply ops h) = Ok (true, true).
Proof. intros H F. apply sph_eq_fresh_valid. apply sph_history_valid; assumption. Qed.

(* from_composite_fields builds exactly what the constructor builds from the same values *)
Theorem sph_from_composite_is_new t a c d s f v :
  sph_from_composite t a c d s f v = sph_new t a c d s f v.
Proof.
  unfold sph_from_composite.
  destruct (Z_le_dec 0 a), (Z_le_dec a 2047);
    try (rewrite pid_new_err by lia; cbn [bind];
         destruct (sph_new_accepts_iff t a c d s f v) as [_ E]; rewrite E by lia; reflexivity).
  rewrite pid_new_ok by lia. cbn [bind].
  destruct (Z_le_dec 0 c), (Z_le_dec c 16383);
    try (rewrite psc_new_err by lia; cbn [bind];
         destruct (sph_new_accepts_iff t a c d s f v) as [_ E]; rewrite E by lia; reflexivity).
  rewrite psc_new_ok by lia. cbn [bind pid_ptype pid_shf pid_apid psc_flags psc_count]. reflexivity.
Qed.

(* SpacePacket objects: after header setters with in-range arguments and any replacement of the parts,
   pack() is the standard header of the current values followed by the current parts *)
Definition spkt_op_in_range (o : spkt_op) : Prop :=
  match o with SpHdr so => sph_op_in_range so | _ => True end.

Lemma spkt_history_valid ops : forall p, sph_valid (sp_h p) -> Forall spkt_op_in_range ops ->
  sph_valid (sp_h (fold_left spkt_apply ops p)).
Proof.
  induction ops as [|o ops IH]; intros p H F; cbn [fold_left]; [assumption|].
  inversion F; subst. apply IH; [|assumption].
  destruct o; cbn [spkt_apply sp_h]; try assumption. apply sph_apply_valid; assumption.
Qed.

Theorem spkt_history_pack ops p : sph_valid (sp_h p) -> Forall spkt_op_in_range ops ->
  let p' := fold_left spkt_apply ops p in
  spkt_pack p' =
  match shf (sp_h p'), sp_sec p', sp_ud p' with
  | 1, None, _ => Err EValue
  | 1, Some s, None => Ok (sph_layout (sp_h p') ++ s)
  | 1, Some s, Some u => Ok ((sph_layout (sp_h p') ++ s) ++ u)
  | _, _, None => Err EValue
  | _, _, Some u => Ok (sph_layout (sp_h p') ++ u)
  end.
Proof.
  intros H F p'. unfold spkt_pack. apply space_packet_pack_spec.
  apply spkt_history_valid; assumption.
Qed.
