(* Keep Alive PDU (Model/KeepAlive.v) against Spec/PduASpec.v. *)
From Coq Require Import ZArith List Bool Lia ZifyBool.
From SP Require Import Base.Result Base.Bytes Base.BytesFacts Base.Crc16 Base.Crc16Facts
  Model.PduHeader Spec.PduHeaderSpec Proofs.PduHeaderProofs Model.FileDirective
  Proofs.FileDirectiveProofs Spec.PduASpec Proofs.DirectiveProofs Model.KeepAlive.
Import ListNotations.
Open Scope Z_scope.
Ltac Zify.zify_post_hook ::= Z.to_euclidean_division_equations.

Definition ka_pdu_of (c : PduConfig) (v : Z) : KeepAlivePdu :=
  {| ka_fd := directive_fdir c 1 12 (ka_params_layout c v); ka_progress := v |}.

Lemma fss_octets_cases c : flag (cf_large c) ->
  (cf_large c = 0 /\ fss_octets c = 4%nat) \/ (cf_large c = 1 /\ fss_octets c = 8%nat).
Proof. intros [L | L]; unfold fss_octets; rewrite L; [left|right]; split; reflexivity. Qed.

Lemma ka_params_len c v : len (ka_params_layout c v) = Z.of_nat (fss_octets c).
Proof. apply len_be_encode. Qed.

Lemma ka_ok c v : conf_valid c -> directive_ok c 1 12 (ka_params_layout c v).
Proof.
  intros C. unfold directive_ok. split; [exact C|]. split; [right; reflexivity|]. split; [lia|].
  split; [apply be_encode_wf|]. rewrite ka_params_len.
  destruct (fss_octets_cases c (conf_large_flag c C)) as [[_ E] | [_ E]]; rewrite E;
    destruct (crc_octets_cases c (conf_crc_flag c C)) as [[_ E'] | [_ E']]; lia.
Qed.

(* the constructor accepts every progress value (it is only checked by pack) *)
Theorem ka_new_ok c v : conf_valid c -> ka_new c v = Ok (ka_pdu_of c v, c).
Proof.
  intros C. unfold ka_pdu_of, directive_fdir. rewrite ka_params_len.
  unfold ka_new, FILE_LARGE, CRC_WITH_CRC, DIR_TOWARDS_SENDER, DT_KEEP_ALIVE.
  destruct (fss_octets_cases c (conf_large_flag c C)) as [[L0 L1] | [L0 L1]]; rewrite L0, L1;
    destruct (crc_octets_cases c (conf_crc_flag c C)) as [[E0 E1] | [E0 E1]]; rewrite E0, E1; cbn [Z.eqb Pos.eqb];
    (rewrite fdir_new_ok; [reflexivity|lia|cbn [conf_set_dir cf_src cf_dst]; apply conf_widths_eq; exact C]).
Qed.

Theorem ka_pack_layout c v : ka_valid c v -> ka_pack (ka_pdu_of c v) = Ok (ka_layout c v).
Proof.
  intros (C & R). pose proof (ka_ok c v C) as O.
  unfold ka_pack, ka_pdu_of. cbn [ka_fd ka_progress].
  rewrite fdir_pack_layout by (apply directive_fdir_valid; exact O). cbn [bind].
  assert (S : (if negb (hdr_large_file (fd_hdr (directive_fdir c 1 12 (ka_params_layout c v))))
               then if v >? 2 ^ 32 - 1 then Err EValue else struct_pack 4 v
               else struct_pack 8 v) = Ok (ka_params_layout c v)).
  { unfold hdr_large_file, FILE_LARGE, ka_params_layout. cbn [directive_fdir fdir_of fd_hdr h_conf conf_set_dir cf_large].
    destruct (fss_octets_cases c (conf_large_flag c C)) as [[L0 L1] | [L0 L1]]; rewrite L0, L1 in *; cbn [Z.eqb Pos.eqb negb].
    - change (256 ^ Z.of_nat 4) with 4294967296 in R. change (2 ^ 32 - 1) with 4294967295.
      destruct (v >? 4294967295) eqn:E; [lia|]. apply struct_pack_ok. change (256 ^ Z.of_nat 4) with 4294967296. lia.
    - apply struct_pack_ok. exact R. }
  rewrite S. cbn [bind]. rewrite <- directive_pre_eq.
  exact (pack_trailer c 1 12 (ka_params_layout c v) O).
Qed.

(* a progress value that does not fit the 4-octet (8-octet with the large file flag) field makes
   packing fail; no octets are produced *)
Theorem ka_too_large_fails c v : conf_valid c -> ~ (0 <= v < 256 ^ Z.of_nat (fss_octets c)) ->
  exists e, ka_pack (ka_pdu_of c v) = Err e.
Proof.
  intros C R. pose proof (ka_ok c v C) as O.
  unfold ka_pack, ka_pdu_of. cbn [ka_fd ka_progress].
  rewrite fdir_pack_layout by (apply directive_fdir_valid; exact O). cbn [bind].
  unfold hdr_large_file, FILE_LARGE. cbn [directive_fdir fdir_of fd_hdr h_conf conf_set_dir cf_large].
  destruct (fss_octets_cases c (conf_large_flag c C)) as [[L0 L1] | [L0 L1]]; rewrite L0, L1 in *; cbn [Z.eqb Pos.eqb negb].
  - change (2 ^ 32 - 1) with 4294967295. destruct (v >? 4294967295) eqn:E; [eexists; reflexivity|].
    rewrite struct_pack_err by exact R. eexists; reflexivity.
  - rewrite struct_pack_err by exact R. eexists; reflexivity.
Qed.

Theorem ka_data_field_len c v : conf_valid c ->
  let p := ka_pdu_of c v in
  h_dlen (fd_hdr (ka_fd p)) = len (ka_layout c v) - hdr_header_len (fd_hdr (ka_fd p)) /\
  ka_packet_len p = len (ka_layout c v) /\
  h_dlen (fd_hdr (ka_fd p)) = 1 + Z.of_nat (fss_octets c) + crc_octets c.
Proof.
  intros C. cbv zeta. destruct (directive_layout_len c 1 12 _ (ka_ok c v C)) as (L1 & _ & L3).
  unfold ka_layout, ka_packet_len, fdir_packet_len, ka_pdu_of. cbn [ka_fd].
  split; [exact L3|]. split; [symmetry; exact L1|].
  unfold directive_fdir, fdir_of. cbn [fd_hdr h_dlen]. rewrite ka_params_len. lia.
Qed.

(* ================= decoder ================= *)

Definition ka_body (f : fdir) (data : bytes) : res KeepAlivePdu :=
  let current_idx := fdir_header_len f in
  let n := if negb (hdr_large_file (fd_hdr f)) then 4 else 8 in
  if len data - current_idx <? n then Err EValue else
  do v <- struct_unpack (Z.to_nat n) (slice data current_idx (current_idx + n));
  Ok {| ka_fd := f; ka_progress := v |}.

Lemma ka_unpack_eq d : ka_unpack d = with_prelude ka_body d.
Proof. reflexivity. Qed.

Lemma ka_body_layout c v : ka_valid c v ->
  let f := directive_fdir c 1 12 (ka_params_layout c v) in
  ka_body f (fdir_layout f ++ ka_params_layout c v) = Ok {| ka_fd := f; ka_progress := v |}.
Proof.
  intros (C & R) f. pose proof (directive_fdir_valid _ _ _ _ (ka_ok c v C)) as FV. fold f in FV.
  unfold ka_body. rewrite len_app, fdir_layout_len, ka_params_len by exact FV.
  assert (N : (if negb (hdr_large_file (fd_hdr f)) then 4 else 8) = Z.of_nat (fss_octets c)).
  { unfold hdr_large_file, FILE_LARGE, f. cbn [directive_fdir fdir_of fd_hdr h_conf conf_set_dir cf_large].
    destruct (fss_octets_cases c (conf_large_flag c C)) as [[L0 L1] | [L0 L1]]; rewrite L0, L1; reflexivity. }
  rewrite N.
  destruct (fdir_header_len f + Z.of_nat (fss_octets c) - fdir_header_len f <? Z.of_nat (fss_octets c)) eqn:E; [lia|].
  rewrite <- (app_nil_r (ka_params_layout c v)) at 1.
  rewrite (slice_mid (fdir_layout f) (ka_params_layout c v) [])
    by (rewrite ?fdir_layout_len, ?ka_params_len by exact FV; lia).
  rewrite Nat2Z.id. unfold ka_params_layout. rewrite struct_unpack_encode by exact R. reflexivity.
Qed.

Theorem ka_unpack_pack c v rest : ka_valid c v -> wf_bytes rest ->
  ka_unpack (ka_layout c v ++ rest) = Ok (ka_pdu_of c v).
Proof.
  intros V W. pose proof (ka_ok c v (proj1 V)) as O.
  rewrite ka_unpack_eq. unfold ka_layout. rewrite with_prelude_layout by assumption.
  apply (ka_body_layout c v V).
Qed.

Lemma ka_body_total f data : fdir_valid f -> wf_bytes data -> ok_or_documented (ka_body f data).
Proof.
  intros FV W. unfold ka_body. pose proof (fdir_header_len_range f FV) as R.
  destruct (negb (hdr_large_file (fd_hdr f)));
    match goal with |- context [?a <? ?b] => destruct (a <? b) eqn:E end; try reflexivity;
    (rewrite struct_unpack_ok; [exact I|rewrite slice_length by lia; lia]).
Qed.

Lemma ka_body_needs f data x : ka_body f data = Ok x -> fdir_header_len f <= len data.
Proof.
  unfold ka_body. destruct (negb (hdr_large_file (fd_hdr f)));
    match goal with |- context [?a <? ?b] => destruct (a <? b) eqn:E end; try discriminate; lia.
Qed.

(* C10 *)
Theorem ka_unpack_total d : wf_bytes d -> ok_or_documented (ka_unpack d).
Proof. intros W. rewrite ka_unpack_eq. apply with_prelude_total; [exact W|apply ka_body_total]. Qed.

Theorem ka_prefix_rejected c v n : conf_valid c -> (n < length (ka_layout c v))%nat ->
  exists e, ka_unpack (firstn n (ka_layout c v)) = Err e /\ documented e = true.
Proof.
  intros C L. rewrite ka_unpack_eq. apply with_prelude_prefix_rejected; [apply ka_ok; exact C|exact L].
Qed.

(* C09 *)
Theorem ka_suffix c v s : conf_valid c -> wf_bytes s ->
  ka_unpack (ka_layout c v ++ s) = ka_unpack (ka_layout c v).
Proof. intros C W. rewrite !ka_unpack_eq. apply with_prelude_suffix; [apply ka_ok; exact C|exact W]. Qed.

Theorem ka_no_fold_in d p h : wf_bytes d -> ka_unpack d = Ok p -> hdr_unpack d = Ok h ->
  ka_unpack (firstn (Z.to_nat (hdr_packet_len h)) d) = Ok p.
Proof.
  intros W U Uh. rewrite ka_unpack_eq in *.
  apply (with_prelude_no_fold_in ka_body d p W U); [|exact Uh].
  intros f data. apply ka_body_needs.
Qed.

(* C04 *)
Theorem ka_accept_needs_crc0 d p h : wf_bytes d -> ka_unpack d = Ok p -> hdr_unpack d = Ok h ->
  cf_crc (h_conf h) = 1 ->
  hdr_packet_len h <= len d /\ crc16 (firstn (Z.to_nat (hdr_packet_len h)) d) = 0.
Proof. intros W U. rewrite ka_unpack_eq in U. apply (with_prelude_accept_needs_crc0 ka_body d p h W U). Qed.

Theorem ka_roundtrip c v rest : ka_valid c v -> wf_bytes rest ->
  exists p b p',
    ka_new c v = Ok (p, c) /\ ka_pack p = Ok b /\ b = ka_layout c v /\
    ka_unpack (b ++ rest) = Ok p' /\ ka_progress p' = v /\ p' = p /\
    ka_eqb p' p = true /\ ka_pack p' = Ok b /\ ka_packet_len p' = len b.
Proof.
  intros V W. exists (ka_pdu_of c v), (ka_layout c v), (ka_pdu_of c v).
  split; [apply ka_new_ok; apply V|]. split; [apply ka_pack_layout; exact V|]. split; [reflexivity|].
  split; [apply ka_unpack_pack; assumption|]. split; [reflexivity|]. split; [reflexivity|].
  split; [|split; [apply ka_pack_layout; exact V|apply (ka_data_field_len c v (proj1 V))]].
  unfold ka_eqb. rewrite fdir_eqb_refl, Z.eqb_refl. reflexivity.
Qed.

(* ================= C11: the file_flag setter ================= *)

Fixpoint ka_apply_ops (p : KeepAlivePdu) (ops : list Z) : res KeepAlivePdu :=
  match ops with
  | [] => Ok p
  | fl :: r => do p' <- ka_set_file_flag p fl; ka_apply_ops p' r
  end.

Lemma conf_set_large_valid c fl : conf_valid c -> flag fl -> conf_valid (conf_set_large c fl).
Proof.
  intros (Vs & Vd & Vq & Heq & Hm & Hl & Hc & Hd & Hs) F. unfold conf_valid, conf_set_large.
  cbn [cf_src cf_dst cf_seq cf_mode cf_large cf_crc cf_dir cf_segctrl]. tauto.
Qed.

(* one setter call = the object a fresh constructor call with the new flag builds
   (before the repair ba265c7 the CRC's two octets were dropped from the length) *)
Lemma ka_set_file_flag_spec c v fl : conf_valid c -> flag fl ->
  ka_set_file_flag (ka_pdu_of c v) fl = Ok (ka_pdu_of (conf_set_large c fl) v).
Proof.
  intros C F. pose proof (conf_set_large_valid c fl C F) as C'.
  unfold ka_set_file_flag, ka_pdu_of, directive_fdir, FILE_LARGE, CRC_WITH_CRC. rewrite !ka_params_len.
  cbn [ka_fd ka_progress fdir_of fd_hdr fd_type h_conf conf_set_dir cf_crc].
  rewrite fdir_set_param_len_spec. cbn [fd_hdr fd_type hdr_with_conf h_type h_meta h_conf].
  assert (CE : crc_octets (conf_set_large c fl) = crc_octets c) by reflexivity. rewrite CE.
  assert (LE : Z.of_nat (fss_octets (conf_set_large c fl)) = if fl =? 1 then 8 else 4).
  { unfold fss_octets. cbn [conf_set_large cf_large]. destruct (fl =? 1); reflexivity. }
  rewrite LE.
  destruct (crc_octets_cases c (conf_crc_flag c C)) as [[E0 E1] | [E0 E1]]; rewrite E0, E1; cbn [Z.eqb Pos.eqb];
    destruct F as [-> | ->]; cbn [Z.eqb Pos.eqb Z.add Z.leb Z.compare Pos.compare Pos.compare_cont Pos.add Pos.succ]; reflexivity.
Qed.

Lemma conf_set_large_id c : conf_set_large c (cf_large c) = c.
Proof. destruct c; reflexivity. Qed.
Lemma conf_set_large_twice c a b : conf_set_large (conf_set_large c a) b = conf_set_large c b.
Proof. reflexivity. Qed.

(* after any sequence of file_flag setter calls the object is the one a fresh constructor call
   with the last flag builds *)
Theorem ka_setters_inv c v ops : conf_valid c -> Forall flag ops ->
  ka_apply_ops (ka_pdu_of c v) ops = Ok (ka_pdu_of (conf_set_large c (last ops (cf_large c))) v).
Proof.
  intros C F. revert c C. induction F as [|fl r Ffl Fr IH]; intros c C.
  - cbn [ka_apply_ops last]. rewrite conf_set_large_id. reflexivity.
  - cbn [ka_apply_ops]. rewrite ka_set_file_flag_spec by assumption. cbn [bind].
    rewrite IH by (apply conf_set_large_valid; assumption).
    rewrite conf_set_large_twice. f_equal. f_equal. f_equal.
    destruct r as [|x r']; [reflexivity|]. cbn [conf_set_large cf_large].
    change (last (fl :: x :: r') (cf_large c)) with (last (x :: r') (cf_large c)). apply last_cons_default.
Qed.

(* hence: reported length = number of packed octets, octets = those of a fresh PDU with the final
   values, for every history; pack is a function of the object (no cache), so packing twice gives
   the same octets *)
Theorem ka_len_inv c v ops o b : conf_valid c -> Forall flag ops ->
  ka_apply_ops (ka_pdu_of c v) ops = Ok o -> ka_pack o = Ok b ->
  let c' := conf_set_large c (last ops (cf_large c)) in
  b = ka_layout c' v /\ ka_packet_len o = len b /\
  h_dlen (fd_hdr (ka_fd o)) = len b - hdr_header_len (fd_hdr (ka_fd o)).
Proof.
  intros C F A P c'. rewrite ka_setters_inv in A by assumption. injection A as <-. fold c' in P |- *.
  assert (F' : flag (last ops (cf_large c))).
  { clear P. induction F as [|x r Fx Fr IH]; [apply conf_large_flag; exact C|].
    destruct r as [|y r']; [exact Fx|].
    change (last (x :: y :: r') (cf_large c)) with (last (y :: r') (cf_large c)). exact IH. }
  assert (C' : conf_valid c') by (apply conf_set_large_valid; assumption).
  assert (R : 0 <= v < 256 ^ Z.of_nat (fss_octets c')).
  { destruct (Z_le_dec 0 v) as [H0|H0]; [destruct (Z_lt_dec v (256 ^ Z.of_nat (fss_octets c'))) as [H1|H1]; [lia|]|];
      (destruct (ka_too_large_fails c' v C' ltac:(lia)) as (e & Pe); rewrite Pe in P; discriminate). }
  rewrite ka_pack_layout in P by (split; assumption). injection P as <-.
  destruct (ka_data_field_len c' v C') as (D1 & D2 & _). split; [reflexivity|]. split; assumption.
Qed.

(* non-vacuity *)
Definition ka_example_conf : PduConfig :=
  {| cf_src := {| ubf_val := 258; ubf_len := 2 |}; cf_dst := {| ubf_val := 772; ubf_len := 2 |};
     cf_seq := {| ubf_val := 5; ubf_len := 1 |};
     cf_mode := 1; cf_large := 1; cf_crc := 1; cf_dir := 0; cf_segctrl := 0 |}.
Example ka_valid_example : ka_valid ka_example_conf 72623859790382856.
Proof.
  unfold ka_valid, conf_valid, ubf_valid, width_ok, flag, ka_example_conf, fss_octets.
  cbn [cf_src cf_dst cf_seq cf_mode cf_large cf_crc cf_dir cf_segctrl ubf_val ubf_len Z.eqb Pos.eqb].
  change (256 ^ 2) with 65536. change (256 ^ 1) with 256. change (256 ^ Z.of_nat 8) with 18446744073709551616. lia.
Qed.
Example ka_layout_example :
  ka_layout ka_example_conf 72623859790382856 =
  [47; 0; 11; 16; 1; 2; 5; 3; 4; 12; 1; 2; 3; 4; 5; 6; 7; 8; 239; 249].
Proof. vm_compute. reflexivity. Qed.
