(* C08: converting a generic TLV of the MATCHING type through a concrete class (from_tlv) and
   through TlvHolder.to_<cls> succeeds and yields the object with the original parameters. *)
From Coq Require Import ZArith List Bool Lia ZifyBool.
From SP Require Import Base.Result Base.Bytes Base.BytesFacts Base.Utf8 Model.Lv Model.Tlv Spec.TlvSpec
  Proofs.LvProofs Proofs.TlvProofs.
Import ListNotations.
Open Scope Z_scope.
Ltac Zify.zify_post_hook ::= Z.to_euclidean_division_equations.

(* the value part of each concrete TLV's layout (Spec/TlvSpec.v: X_layout = tlv_layout T value) *)
Definition fsreq_value_layout (a : Z) (f s : bytes) : bytes := [a * 16] ++ fs_names_layout a f s.
Definition fsresp_value_layout (a st : Z) (f s m : bytes) : bytes :=
  [a * 16 + st] ++ fs_names_layout a f s ++ lv_layout m.
Lemma value_layouts a st f s m cc hc v :
  fsreq_layout a f s = tlv_layout T_FILESTORE_REQUEST (fsreq_value_layout a f s) /\
  fsresp_layout a st f s m = tlv_layout T_FILESTORE_RESPONSE (fsresp_value_layout a st f s m) /\
  fault_layout cc hc = tlv_layout T_FAULT_HANDLER_OVERRIDE [cc * 16 + hc] /\
  entity_layout v = tlv_layout T_ENTITY_ID v /\ flow_layout v = tlv_layout T_FLOW_LABEL v /\
  msg_layout v = tlv_layout T_MESSAGE_TO_USER v.
Proof. repeat split. Qed.

Theorem fsreq_from_tlv_matching a f s :
  0 <= a <= 8 -> 1 + len (fs_names_layout a f s) <= 255 ->
  utf8_valid f = true -> (second_name_present a = true -> utf8_valid s = true) ->
  fsreq_from_tlv {| tlv_type := TLV_FILESTORE_REQUEST; tlv_value := fsreq_value_layout a f s |} =
  Ok {| fq_action := a; fq_first := f; fq_second := if second_name_present a then s else [] |}.
Proof.
  intros Ha Hl Uf U2. pose proof (fs_names_len a f s) as L.
  pose proof (len_nonneg f). pose proof (len_nonneg s).
  unfold fsreq_from_tlv. cbn [tlv_type tlv_value]. rewrite Z.eqb_refl. cbn [negb].
  unfold fsreq_value_layout. replace (a * 16) with (a * 16 + 0) by lia.
  rewrite fsreq_set_fields_layout; try assumption; try lia.
  - reflexivity.
  - destruct (second_name_present a); lia.
  - intros E. split; [rewrite E in L; lia|auto].
Qed.

Theorem fsresp_from_tlv_matching a sc f s m :
  is_fs_status sc = true -> 0 <= sc -> sc / 16 = a ->
  1 + len (fs_names_layout a f s) + (1 + len m) <= 255 ->
  utf8_valid f = true -> (second_name_present a = true -> utf8_valid s = true) ->
  fsresp_from_tlv {| tlv_type := TLV_FILESTORE_RESPONSE;
                     tlv_value := fsresp_value_layout a (sc mod 16) f s m |} =
  Ok {| fp_action := a; fp_status := sc; fp_first := f;
        fp_second := if second_name_present a then s else []; fp_msg := m |}.
Proof.
  intros Hm Hn Ha Hl Uf U2. pose proof (fs_names_len a f s) as L.
  pose proof (len_nonneg f). pose proof (len_nonneg s). pose proof (len_nonneg m).
  destruct (status_code_maps sc Hm Hn) as (_ & _ & R). rewrite Ha in R.
  assert (E : a * 16 + sc mod 16 = sc) by lia.
  unfold fsresp_from_tlv. cbn [tlv_type tlv_value]. rewrite Z.eqb_refl. cbn [negb].
  unfold fsresp_value_layout.
  rewrite fsresp_set_fields_layout; try assumption; try lia.
  - rewrite E. reflexivity.
  - rewrite E. assumption.
  - destruct (second_name_present a); lia.
  - intros E2. split; [rewrite E2 in L; lia|auto].
  - destruct (second_name_present a); lia.
Qed.

Theorem fault_from_tlv_matching cc hc : 0 <= cc <= 15 -> 0 <= hc <= 15 ->
  fault_from_tlv {| tlv_type := TLV_FAULT_HANDLER; tlv_value := [cc * 16 + hc] |} =
  Ok {| fh_cc := cc; fh_hc := hc;
        fh_tlv := {| tlv_type := TLV_FAULT_HANDLER; tlv_value := [cc * 16 + hc] |} |}.
Proof. intros. apply fault_from_tlv_layout; assumption. Qed.

(* the object fault_new builds for the same parameters *)
Theorem fault_from_tlv_is_new cc hc : 0 <= cc <= 15 -> 0 <= hc <= 15 ->
  fault_from_tlv {| tlv_type := TLV_FAULT_HANDLER; tlv_value := [cc * 16 + hc] |} = fault_new cc hc.
Proof. intros. rewrite fault_from_tlv_matching, fault_new_ok by assumption. reflexivity. Qed.

Theorem wrappers_from_tlv_matching v :
  entity_from_tlv {| tlv_type := TLV_ENTITY_ID; tlv_value := v |} =
    Ok {| tlv_type := TLV_ENTITY_ID; tlv_value := v |} /\
  flow_from_tlv {| tlv_type := TLV_FLOW_LABEL; tlv_value := v |} =
    Ok {| tlv_type := TLV_FLOW_LABEL; tlv_value := v |} /\
  msg_from_tlv {| tlv_type := TLV_MESSAGE_TO_USER; tlv_value := v |} =
    Ok {| tlv_type := TLV_MESSAGE_TO_USER; tlv_value := v |}.
Proof. repeat split; apply wrap_from_tlv_same. Qed.

(* ---- through the holder ---- *)
(* TlvHolder.to_<cls> on a generic TLV is <Cls>.from_tlv, whatever its type *)
Theorem holder_generic_is_from_tlv t :
  holder_to TLV_FILESTORE_REQUEST (HGeneric t) = (do r <- fsreq_from_tlv t; Ok (HFsReq r)) /\
  holder_to TLV_FILESTORE_RESPONSE (HGeneric t) = (do r <- fsresp_from_tlv t; Ok (HFsResp r)) /\
  holder_to TLV_MESSAGE_TO_USER (HGeneric t) = (do r <- msg_from_tlv t; Ok (HMsg r)) /\
  holder_to TLV_FAULT_HANDLER (HGeneric t) = (do r <- fault_from_tlv t; Ok (HFault r)) /\
  holder_to TLV_FLOW_LABEL (HGeneric t) = (do r <- flow_from_tlv t; Ok (HFlow r)) /\
  holder_to TLV_ENTITY_ID (HGeneric t) = (do r <- entity_from_tlv t; Ok (HEntity r)).
Proof. repeat split. Qed.

Theorem holder_generic_matching_fsreq a f s :
  0 <= a <= 8 -> 1 + len (fs_names_layout a f s) <= 255 ->
  utf8_valid f = true -> (second_name_present a = true -> utf8_valid s = true) ->
  holder_to TLV_FILESTORE_REQUEST
    (HGeneric {| tlv_type := TLV_FILESTORE_REQUEST; tlv_value := fsreq_value_layout a f s |}) =
  Ok (HFsReq {| fq_action := a; fq_first := f; fq_second := if second_name_present a then s else [] |}).
Proof.
  intros. destruct (holder_generic_is_from_tlv
    {| tlv_type := TLV_FILESTORE_REQUEST; tlv_value := fsreq_value_layout a f s |}) as (-> & _).
  rewrite fsreq_from_tlv_matching by assumption. reflexivity.
Qed.

Theorem holder_generic_matching_fsresp a sc f s m :
  is_fs_status sc = true -> 0 <= sc -> sc / 16 = a ->
  1 + len (fs_names_layout a f s) + (1 + len m) <= 255 ->
  utf8_valid f = true -> (second_name_present a = true -> utf8_valid s = true) ->
  holder_to TLV_FILESTORE_RESPONSE
    (HGeneric {| tlv_type := TLV_FILESTORE_RESPONSE;
                 tlv_value := fsresp_value_layout a (sc mod 16) f s m |}) =
  Ok (HFsResp {| fp_action := a; fp_status := sc; fp_first := f;
                 fp_second := if second_name_present a then s else []; fp_msg := m |}).
Proof.
  intros. destruct (holder_generic_is_from_tlv
    {| tlv_type := TLV_FILESTORE_RESPONSE; tlv_value := fsresp_value_layout a (sc mod 16) f s m |})
    as (_ & -> & _).
  rewrite fsresp_from_tlv_matching by assumption. reflexivity.
Qed.

Theorem holder_generic_matching_simple cc hc v : 0 <= cc <= 15 -> 0 <= hc <= 15 ->
  holder_to TLV_FAULT_HANDLER (HGeneric {| tlv_type := TLV_FAULT_HANDLER; tlv_value := [cc * 16 + hc] |}) =
    Ok (HFault {| fh_cc := cc; fh_hc := hc;
                  fh_tlv := {| tlv_type := TLV_FAULT_HANDLER; tlv_value := [cc * 16 + hc] |} |}) /\
  holder_to TLV_ENTITY_ID (HGeneric {| tlv_type := TLV_ENTITY_ID; tlv_value := v |}) =
    Ok (HEntity {| tlv_type := TLV_ENTITY_ID; tlv_value := v |}) /\
  holder_to TLV_FLOW_LABEL (HGeneric {| tlv_type := TLV_FLOW_LABEL; tlv_value := v |}) =
    Ok (HFlow {| tlv_type := TLV_FLOW_LABEL; tlv_value := v |}) /\
  holder_to TLV_MESSAGE_TO_USER (HGeneric {| tlv_type := TLV_MESSAGE_TO_USER; tlv_value := v |}) =
    Ok (HMsg {| tlv_type := TLV_MESSAGE_TO_USER; tlv_value := v |}).
Proof.
  intros Hc Hh. split.
  - destruct (holder_generic_is_from_tlv {| tlv_type := TLV_FAULT_HANDLER; tlv_value := [cc * 16 + hc] |})
      as (_ & _ & _ & -> & _).
    rewrite fault_from_tlv_matching by assumption. reflexivity.
  - repeat split.
Qed.

(* totality of the wrapper from_tlv conversions (C10): they never raise an undocumented error *)
Theorem wrap_from_tlv_total cls t : ok_or_documented (wrap_from_tlv cls t).
Proof. unfold wrap_from_tlv. destruct (negb _); [reflexivity|exact I]. Qed.
Theorem entity_from_tlv_total t : ok_or_documented (entity_from_tlv t).
Proof. apply wrap_from_tlv_total. Qed.
Theorem flow_from_tlv_total t : ok_or_documented (flow_from_tlv t).
Proof. apply wrap_from_tlv_total. Qed.
Theorem msg_from_tlv_total t : ok_or_documented (msg_from_tlv t).
Proof. apply wrap_from_tlv_total. Qed.
Theorem fault_from_tlv_total t : ok_or_documented (fault_from_tlv t).
Proof.
  unfold fault_from_tlv. destruct (negb _); [reflexivity|].
  destruct (len (tlv_value t) <? 1) eqn:E; [reflexivity|].
  destruct (py_get_in_range (tlv_value t) 0 ltac:(lia)) as (b & G & _). rewrite G. exact I.
Qed.
(* the holder conversions on a generic TLV are total as well *)
Theorem holder_generic_total cls t : is_tlv_type cls = true -> ok_or_documented (holder_to cls (HGeneric t)).
Proof.
  intros Hc. apply is_tlv_type_iff in Hc.
  destruct (holder_generic_is_from_tlv t) as (E0 & E1 & E2 & E4 & E5 & E6).
  destruct Hc as [-> | [-> | [-> | [-> | [-> | ->]]]]].
  - change 0 with TLV_FILESTORE_REQUEST. rewrite E0. pose proof (fsreq_from_tlv_total t) as T.
    destruct (fsreq_from_tlv t); [exact I|exact T].
  - change 1 with TLV_FILESTORE_RESPONSE. rewrite E1. pose proof (fsresp_from_tlv_total t) as T.
    destruct (fsresp_from_tlv t); [exact I|exact T].
  - change 2 with TLV_MESSAGE_TO_USER. rewrite E2. pose proof (msg_from_tlv_total t) as T.
    destruct (msg_from_tlv t); [exact I|exact T].
  - change 4 with TLV_FAULT_HANDLER. rewrite E4. pose proof (fault_from_tlv_total t) as T.
    destruct (fault_from_tlv t); [exact I|exact T].
  - change 5 with TLV_FLOW_LABEL. rewrite E5. pose proof (flow_from_tlv_total t) as T.
    destruct (flow_from_tlv t); [exact I|exact T].
  - change 6 with TLV_ENTITY_ID. rewrite E6. pose proof (entity_from_tlv_total t) as T.
    destruct (entity_from_tlv t); [exact I|exact T].
Qed.
