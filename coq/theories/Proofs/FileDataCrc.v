(* Discharges the premise `crc_ok c` of the file-data theorems of Proofs/FileDataProofs.v with the two
   CRC-16 facts proved in Base/Crc16Facts.v (crc16_range, crc_residue): the statements hold for every
   configuration, CRC flag included. *)
From Coq Require Import ZArith List Bool.
From SP Require Import Base.Result Base.Bytes Base.Crc16 Base.Crc16Facts
  Model.PduHeader Spec.PduHeaderSpec Model.FileData Spec.FileDataSpec Proofs.FileDataProofs.
Open Scope Z_scope.

Lemma crc_facts_hold : crc_facts.
Proof. split; [exact crc16_range | exact crc_residue]. Qed.
Lemma crc_ok_all c : crc_ok c.
Proof. right. exact crc_facts_hold. Qed.

Theorem fd_pack_layout_full c q : fd_valid c q -> fd_pack (fd_pdu_of c q) = Ok (fd_layout c q).
Proof. apply fd_pack_layout, crc_ok_all. Qed.
Theorem fd_unpack_pack_full c q rest : fd_valid c q -> wf_bytes rest ->
  fd_unpack (fd_layout c q ++ rest) = Ok (fd_pdu_of c q).
Proof. apply fd_unpack_pack, crc_ok_all. Qed.
Theorem fd_roundtrip_full c q rest : fd_valid c q -> wf_bytes rest ->
  exists p b p',
    fd_new c q = Ok (p, c) /\ fd_pack p = Ok b /\ b = fd_layout c q /\
    fd_unpack (b ++ rest) = Ok p' /\
    fp_offset (fd_params p') = fp_offset q /\ fp_meta (fd_params p') = fp_meta q /\
    fp_data (fd_params p') = fp_data q /\
    fd_eqb p' p = true /\ fd_pack p' = Ok b /\ fd_packet_len p' = len b.
Proof. apply fd_roundtrip, crc_ok_all. Qed.

Theorem max_seg_len_exact_full c q mx r : fd_valid c q ->
  get_max_file_seg_len c mx (fp_meta q) = Ok r -> len (fp_data q) = r ->
  r + fd_overhead c (fp_meta q) = mx /\
  exists b, fd_pack (fd_pdu_of c q) = Ok b /\ len b = mx.
Proof. apply max_seg_len_exact, crc_ok_all. Qed.

Theorem fd_len_inv_full c q ops p0 c' p : flag (cf_large c) ->
  fd_new c q = Ok (p0, c') -> fd_apply_ops p0 ops = Ok p -> fd_valid c (fd_params p) ->
  fd_pack p = Ok (fd_layout c (fd_params p)) /\
  fd_packet_len p = len (fd_layout c (fd_params p)) /\
  fd_new c (fd_params p) = Ok (p, c) /\
  h_dlen (fd_hdr p) = len (fd_layout c (fd_params p)) - hdr_header_len (fd_hdr p).
Proof. apply fd_len_inv, crc_ok_all. Qed.

Theorem fd_suffix_irrelevant_full c q s : fd_valid c q -> wf_bytes s ->
  fd_unpack (fd_layout c q ++ s) = fd_unpack (fd_layout c q).
Proof. apply fd_suffix_irrelevant, crc_ok_all. Qed.
