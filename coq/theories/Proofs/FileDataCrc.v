(* NOT in the build (extension .pending): rename to FileDataCrc.v once Base/Crc16Facts.v
   (crc16_range, crc_residue) is on main.  It discharges the premise `crc_ok c` of the
   `_partial` theorems of Props/C07.v for every configuration, CRC flag included. *)
From Coq Require Import ZArith List Bool.
From SP Require Import Base.Result Base.Bytes Base.Crc16 Base.Crc16Facts
  Model.PduHeader Spec.PduHeaderSpec Model.FileData Spec.FileDataSpec Proofs.FileDataProofs.
Open Scope Z_scope.

Lemma crc_facts_hold : crc_facts.
Proof. split; [exact crc16_range | exact crc_residue]. Qed.
Lemma crc_ok_all c : crc_ok c.
Proof. right. exact crc_facts_hold. Qed.

Theorem fd_pack_layout_full c q : fd_valid c q -> fd_pack (fd_pdu_of c q) = Ok (fd_layout c q).
Proof. apply fd_pack_layout, crc_ok_all. Qed.
Theorem fd_unpack_pack_full c q rest : fd_valid c q -> wf_bytes rest ->
  fd_unpack (fd_layout c q ++ rest) = Ok (fd_pdu_of c q).
Proof. apply fd_unpack_pack, crc_ok_all. Qed.
Theorem fd_roundtrip_full c q rest : fd_valid c q -> wf_bytes rest ->
  exists p b p',
    fd_new c q = Ok (p, c) /\ fd_pack p = Ok b /\ b = fd_layout c q /\
    fd_unpack (b ++ rest) = Ok p' /\
    fp_offset (fd_params p') = fp_offset q /\ fp_meta (fd_params p') = fp_meta q /\
    fp_data (fd_params p') = fp_data q /\
    fd_eqb p' p = true /\ fd_pack p' = Ok b /\ fd_packet_len p' = len b.
Proof. apply fd_roundtrip, crc_ok_all. Qed.
