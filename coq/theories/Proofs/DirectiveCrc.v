(* C04 for the directive PDU decoders built on the common prelude (EOF, ACK, Prompt, Keep Alive):
   a CRC-flagged packed PDU altered by any burst that fits 16 consecutive bit positions (hence
   any single bit flip) outside the octets that determine its length -- octets 1..3 (data field
   length, width codes) and the CRC flag bit of octet 0 -- is refused with a documented error. *)
From Coq Require Import ZArith List Bool Lia ZifyBool.
From SP Require Import Base.Result Base.Bytes Base.BytesFacts Base.Crc16 Base.Crc16Facts Base.Crc16Burst
  Model.PduHeader Spec.PduHeaderSpec Proofs.PduHeaderProofs Model.FileDirective
  Proofs.FileDirectiveProofs Spec.PduASpec Proofs.DirectiveProofs.
Import ListNotations.
Open Scope Z_scope.
Ltac Zify.zify_post_hook ::= Z.to_euclidean_division_equations.

Lemma xor_bytes_wf m : forall e, wf_bytes m -> wf_bytes e -> wf_bytes (xor_bytes m e).
Proof.
  induction m as [|x m IH]; intros e Wm We; [constructor|].
  destruct e as [|y e]; [exact Wm|]. cbn [xor_bytes].
  inversion Wm as [|? ? Rx Wm']; subst. inversion We as [|? ? Ry We']; subst.
  constructor; [|apply IH; assumption].
  pose proof (lxor_lt_pow2 x y 8 ltac:(lia)) as H. change (2 ^ 8) with 256 in H. apply H; assumption.
Qed.

Lemma xor_bytes_length m : forall e, length (xor_bytes m e) = length m.
Proof.
  induction m as [|x m IH]; intros e; [reflexivity|]. destruct e as [|y e]; [reflexivity|].
  cbn [xor_bytes length]. rewrite IH. reflexivity.
Qed.

(* flipping bits of octet 0 other than the CRC flag bit leaves the CRC flag as it is: all 2^16 pairs *)
Definition chk_crcbit (k : Z) : bool :=
  let a := k / 256 in let b := k mod 256 in
  negb ((b / 2) mod 2 =? 0) || ((Z.lxor a b / 2) mod 2 =? (a / 2) mod 2).
Lemma crcbit_sweep : forallb chk_crcbit (zrange 0 65536) = true.
Proof. vm_compute. reflexivity. Qed.
Lemma crcbit a b : 0 <= a < 256 -> 0 <= b < 256 -> (b / 2) mod 2 = 0 ->
  (Z.lxor a b / 2) mod 2 = (a / 2) mod 2.
Proof.
  intros Ha Hb H0. pose proof (sweep chk_crcbit 0 65536 ltac:(lia) crcbit_sweep (a * 256 + b) ltac:(lia)) as S.
  unfold chk_crcbit in S. cbv zeta in S.
  replace ((a * 256 + b) / 256) with a in S by lia. replace ((a * 256 + b) mod 256) with b in S by lia.
  rewrite H0 in S. cbn [Z.eqb negb orb] in S. lia.
Qed.

(* what the header decoder reads from the four fixed octets *)
Lemma hdr_unpack_fixed b0 b1 b2 b3 tl h : wf_bytes (b0 :: b1 :: b2 :: b3 :: tl) ->
  hdr_unpack (b0 :: b1 :: b2 :: b3 :: tl) = Ok h ->
  h_dlen h = b1 * 256 + b2 /\ ubf_len (cf_src (h_conf h)) = (b3 / 16) mod 8 + 1 /\
  ubf_len (cf_seq (h_conf h)) = b3 mod 8 + 1 /\ cf_crc (h_conf h) = (b0 / 2) mod 2.
Proof.
  intros W U. rewrite hdr_unpack_spec in U by exact W. unfold hdr_decode_spec in U.
  repeat match type of U with (if ?c then _ else _) = _ => destruct c; try discriminate end.
  injection U as <-. unfold hdr_of_octets. cbn [h_dlen h_conf cf_src cf_seq cf_crc ubf_len]. repeat split.
Qed.

Lemma hdr_packet_len_fixed b0 b1 b2 b3 tl h : wf_bytes (b0 :: b1 :: b2 :: b3 :: tl) ->
  hdr_unpack (b0 :: b1 :: b2 :: b3 :: tl) = Ok h ->
  hdr_packet_len h = b1 * 256 + b2 + (4 + 2 * ((b3 / 16) mod 8 + 1) + (b3 mod 8 + 1)).
Proof.
  intros W U. destruct (hdr_unpack_fixed _ _ _ _ _ _ W U) as (D & S & Q & _).
  unfold hdr_packet_len, hdr_header_len, FIXED_LENGTH. rewrite D, S, Q. reflexivity.
Qed.

(* the error patterns C04 quantifies over for a CFDP PDU: octets 1..3 untouched, CRC flag bit
   (value 2 of octet 0) not flipped *)
Definition length_fields_untouched (e : bytes) : Prop :=
  exists e0 te, e = e0 :: 0 :: 0 :: 0 :: te /\ (e0 / 2) mod 2 = 0.

Theorem with_prelude_corrupt_rejected {A} (body : fdir -> bytes -> res A) c dir code params e :
  directive_ok c dir code params -> cf_crc c = 1 ->
  (forall f data, fdir_valid f -> wf_bytes data -> ok_or_documented (body f data)) ->
  burst16 e -> length e = length (directive_layout c dir code params) -> length_fields_untouched e ->
  exists x, with_prelude body (xor_bytes (directive_layout c dir code params) e) = Err x /\ documented x = true.
Proof.
  intros O C1 B Be Le (e0 & te & Ee & E0).
  set (L := directive_layout c dir code params) in *.
  pose proof (directive_layout_wf _ _ _ _ O) as WL. fold L in WL.
  pose proof (burst16_wf e Be) as We.
  set (d' := xor_bytes L e).
  assert (Wd : wf_bytes d') by (apply xor_bytes_wf; assumption).
  pose proof (with_prelude_total body d' Wd B) as T.
  destruct (with_prelude body d') as [x|err] eqn:R; [exfalso|exists err; split; [reflexivity|exact T]].
  (* the uncorrupted PDU: header, length, CRC 0 *)
  set (f := directive_fdir c dir code params).
  destruct (prelude_layout c dir code params [] O ltac:(constructor)) as (U0 & _ & _).
  rewrite app_nil_r in U0. fold L f in U0.
  destruct (fdir_unpack_inv L f WL U0) as (FV & Uh & _).
  destruct (directive_layout_len _ _ _ _ O) as (LL & _). fold L f in LL.
  assert (C0 : crc16 L = 0).
  { unfold L. rewrite directive_layout_eq, C1. cbn [Z.eqb Pos.eqb]. apply crc_residue, directive_pre_wf; exact O. }
  (* shape of L and of the corrupted octets *)
  pose proof (hdr_valid_packet_len _ (proj1 FV)) as [_ P7].
  destruct L as [|b0 [|b1 [|b2 [|b3 tl]]]] eqn:EL; try (unfold len in LL; cbn [length] in LL; lia).
  assert (RB : 0 <= b0 < 256 /\ 0 <= b1 < 256 /\ 0 <= b2 < 256 /\ 0 <= b3 < 256).
  { unfold wf_bytes in WL. inversion WL as [|? ? R0 W1]; subst. inversion W1 as [|? ? R1 W2]; subst.
    inversion W2 as [|? ? R2 W3]; subst. inversion W3 as [|? ? R3 _]; subst. repeat split; lia. }
  destruct RB as (R0 & R1 & R2 & R3).
  assert (RE : 0 <= e0 < 256).
  { rewrite Ee in We. inversion We; subst. assumption. }
  assert (Ed : d' = Z.lxor b0 e0 :: b1 :: b2 :: b3 :: xor_bytes tl te).
  { unfold d'. rewrite Ee. cbn [xor_bytes]. rewrite !Z.lxor_0_r. reflexivity. }
  (* the corrupted octets were accepted: header decoded, CRC over the declared length is 0 *)
  destruct (with_prelude_inv body d' x Wd R) as (f' & U' & FV' & Lp & Crc' & _).
  destruct (fdir_unpack_inv d' f' Wd U') as (_ & Uh' & _).
  rewrite Ed in Uh', Wd.
  pose proof (hdr_packet_len_fixed _ _ _ _ _ _ Wd Uh') as PL'.
  destruct (hdr_unpack_fixed _ _ _ _ _ _ Wd Uh') as (_ & _ & _ & CF').
  pose proof (hdr_packet_len_fixed _ _ _ _ _ _ WL Uh) as PL.
  destruct (hdr_unpack_fixed _ _ _ _ _ _ WL Uh) as (_ & _ & _ & CF).
  assert (CF1 : cf_crc (h_conf (fd_hdr f)) = 1) by (unfold f; cbn; exact C1).
  rewrite crcbit in CF' by assumption. rewrite <- CF, CF1 in CF'.
  assert (PLeq : hdr_packet_len (fd_hdr f') = len d').
  { rewrite PL', <- PL, <- LL. unfold len, d'. rewrite xor_bytes_length. reflexivity. }
  specialize (Crc' CF'). rewrite PLeq in Crc'.
  unfold len in Crc'. rewrite Nat2Z.id, firstn_all in Crc'.
  apply (crc_detects_burst16 (b0 :: b1 :: b2 :: b3 :: tl) e WL Be Le).
  fold d'. rewrite Crc', C0. reflexivity.
Qed.

(* an uncorrupted packed PDU passes the check: this is K_unpack_pack (Props/C06_a.v) *)
