(* Setter / history invariants of the live-object models (Model/PusTcHist.v, Model/PusTmHist.v):
   - operations that only LOOK at a telecommand / telemetry object (pack, pack(recalc_crc=False),
     calc_crc, to_space_packet, getters, ==, re-decoding) never change its header, secondary header
     or data (only the cached CRC);
   - the length invariant "data length field = secondary header + data + CRC - 1" is restored by
     every data assignment whatever happened before, and is preserved by every operation except a
     direct assignment of the length field / replacement of the header (and, for telemetry, a
     change of the timestamp behind the object's back);
   - under that invariant the reported packet_len is the length of pack()'s result, after any
     history;
   - the generic space-packet view equals pack() after any history (valid header, flag set). *)
From Coq Require Import ZArith List Bool Lia ZifyBool.
From SP Require Import Base.Result Base.Bytes Base.BytesFacts Base.Crc16 Base.Crc16Facts
  Model.SpacePacket Spec.SpacePacketSpec Proofs.SpacePacketProofs Model.PusTc Model.PusTm Spec.PusSpec
  Proofs.PusTcProofs Proofs.PusTmProofs Proofs.CorruptProofs Proofs.XcutProofs Model.PusTcHist Model.PusTmHist.
Import ListNotations.
Open Scope Z_scope.

(* ---------- lengths of the pieces, for ANY field values that pack at all ---------- *)
Lemma struct_pack_len n v b : struct_pack n v = Ok b -> length b = n.
Proof.
  unfold struct_pack. destruct (_ && _); [|discriminate]. intros E. apply Ok_inj in E. subst b.
  apply be_encode_length.
Qed.

Lemma ba_append_len l x r : ba_append l x = Ok r -> length r = S (length l).
Proof.
  unfold ba_append. destruct (is_byte x); [|discriminate]. intros E. apply Ok_inj in E. subst r.
  rewrite app_length. cbn. lia.
Qed.

Lemma sph_pack_len h b : sph_pack h = Ok b -> len b = 6.
Proof. intros E. unfold len. destruct (sph_pack_ok_shape _ _ E) as [_ ->]. reflexivity. Qed.

Lemma tcsec_pack_len s b : tcsec_pack s = Ok b -> len b = 5.
Proof.
  unfold tcsec_pack. intros E.
  destruct (ba_append [] _) as [r0|] eqn:E0; [|discriminate]. cbn [bind] in E.
  destruct (ba_append r0 _) as [r1|] eqn:E1; [|discriminate]. cbn [bind] in E.
  destruct (ba_append r1 _) as [r2|] eqn:E2; [|discriminate]. cbn [bind] in E.
  destruct (struct_pack 2 _) as [sid|] eqn:E3; [|discriminate]. cbn [bind] in E.
  apply Ok_inj in E. subst b. apply ba_append_len in E0, E1, E2. apply struct_pack_len in E3.
  unfold len. rewrite app_length, E2, E1, E0, E3. reflexivity.
Qed.

Lemma tmsec_pack_len s b : tmsec_pack s = Ok b -> len b = 7 + len (tms_stamp s).
Proof.
  unfold tmsec_pack. intros E.
  destruct (ba_append [] _) as [r0|] eqn:E0; [|discriminate]. cbn [bind] in E.
  destruct (ba_append r0 _) as [r1|] eqn:E1; [|discriminate]. cbn [bind] in E.
  destruct (ba_append r1 _) as [r2|] eqn:E2; [|discriminate]. cbn [bind] in E.
  destruct (struct_pack 2 (tms_msgcnt s)) as [mc|] eqn:E3; [|discriminate]. cbn [bind] in E.
  destruct (struct_pack 2 (tms_dest s)) as [di|] eqn:E4; [|discriminate]. cbn [bind] in E.
  apply Ok_inj in E. subst b. apply ba_append_len in E0, E1, E2. apply struct_pack_len in E3, E4.
  unfold len. rewrite !app_length, E2, E1, E0, E3, E4. cbn [length]. lia.
Qed.

(* ================= telecommand ================= *)
Definition tc_same_fields (a b : tc) : Prop :=
  tc_sph a = tc_sph b /\ tc_sec a = tc_sec b /\ tc_app a = tc_app b.

Lemma tc_same_refl t : tc_same_fields t t.
Proof. repeat split. Qed.

Lemma tc_pack_facts t p t' : tc_pack t = Ok (p, t') ->
  tc_same_fields t' t /\ len p = 6 + 5 + len (tc_app t) + 2.
Proof.
  unfold tc_pack. intros E.
  destruct (sph_pack (tc_sph t)) as [hb|] eqn:Eh; [|discriminate]. cbn [bind] in E.
  destruct (tcsec_pack (tc_sec t)) as [sb|] eqn:Es; [|discriminate]. cbn [bind] in E.
  destruct (struct_pack 2 _) as [cb|] eqn:Ec; [|discriminate]. cbn [bind] in E.
  apply Ok_inj in E. apply pair_equal_spec in E. destruct E as [<- <-].
  split; [repeat split|].
  apply sph_pack_len in Eh. apply tcsec_pack_len in Es. apply struct_pack_len in Ec.
  rewrite !len_app, Eh, Es. unfold len at 2. rewrite Ec. lia.
Qed.

Lemma tc_calc_crc_same t t' : tc_calc_crc t = Ok t' -> tc_same_fields t' t.
Proof.
  unfold tc_calc_crc. intros E.
  destruct (sph_pack (tc_sph t)) as [hb|]; [|discriminate]. cbn [bind] in E.
  destruct (tcsec_pack (tc_sec t)) as [sb|]; [|discriminate]. cbn [bind] in E.
  destruct (struct_pack 2 _) as [cb|]; [|discriminate]. cbn [bind] in E.
  apply Ok_inj in E. subst t'. repeat split.
Qed.

Lemma tc_pack_norecalc_same t p t' : tc_pack_norecalc t = Ok (p, t') -> tc_same_fields t' t.
Proof.
  unfold tc_pack_norecalc. destruct (tc_crc t) as [c|].
  - intros E.
    destruct (sph_pack (tc_sph t)) as [hb|]; [|discriminate]. cbn [bind] in E.
    destruct (tcsec_pack (tc_sec t)) as [sb|]; [|discriminate]. cbn [bind] in E.
    apply Ok_inj in E. apply pair_equal_spec in E. destruct E as [_ <-]. apply tc_same_refl.
  - intros E. apply (tc_pack_facts _ _ _ E).
Qed.

Lemma tc_view_same t p t' : tc_view t = Ok (p, t') -> tc_same_fields t' t.
Proof.
  unfold tc_view. intros E.
  destruct (tc_calc_crc t) as [u|] eqn:Ec; [|discriminate]. cbn [bind] in E.
  destruct (tc_to_space_packet_pack t) as [b|]; [|discriminate]. cbn [bind] in E.
  apply Ok_inj in E. apply pair_equal_spec in E. destruct E as [_ <-].
  exact (tc_calc_crc_same _ _ Ec).
Qed.

(* operations that only look at the object *)
Definition tcx_observer (o : tcx_op) : bool :=
  match o with
  | XPack | XPackNoRecalc | XCalcCrc | XView | XInspect | XEq | XRoundtrip => true
  | _ => false
  end.

(* C02-a2 class: taking a view / packing / comparing / re-decoding never changes header, secondary
   header or application data of the object, whether the operation succeeds or raises *)
Theorem tcx_observer_keeps_fields t0 t o :
  tcx_observer o = true -> tc_same_fields (fst (tcx_step t0 t o)) t.
Proof.
  destruct o; cbn [tcx_observer]; try discriminate; intros _; cbn [tcx_step].
  - destruct (tc_pack t) as [[b t']|] eqn:E; cbn [fst]; [apply (tc_pack_facts _ _ _ E)|apply tc_same_refl].
  - destruct (tc_pack_norecalc t) as [[b t']|] eqn:E; cbn [fst];
      [apply (tc_pack_norecalc_same _ _ _ E)|apply tc_same_refl].
  - destruct (tc_calc_crc t) as [t'|] eqn:E; cbn [fst]; [apply (tc_calc_crc_same _ _ E)|apply tc_same_refl].
  - destruct (tc_view t) as [[b t']|] eqn:E; cbn [fst]; [apply (tc_view_same _ _ _ E)|apply tc_same_refl].
  - apply tc_same_refl.
  - apply tc_same_refl.
  - destruct (tc_pack t) as [[b t']|] eqn:E; cbn [fst]; [apply (tc_pack_facts _ _ _ E)|apply tc_same_refl].
Qed.

(* the length invariant *)
Definition tc_len_ok (t : tc) : Prop :=
  dlen (tc_sph t) = tc_get_data_length (len (tc_app t)) PUS_C_SEC_HEADER_LEN.

Lemma tc_len_ok_same a b : tc_same_fields a b -> tc_len_ok b -> tc_len_ok a.
Proof. unfold tc_len_ok. intros (-> & _ & ->). exact (fun H => H). Qed.

(* a data assignment restores the invariant whatever the state was (D-C11-1 stays repaired) *)
Theorem tc_set_app_data_len_ok t d : tc_len_ok (tc_set_app_data t d).
Proof. reflexivity. Qed.

Theorem tc_new_len_ok service subservice apid app seq source_id ack t :
  tc_new service subservice apid app seq source_id ack = Ok t -> tc_len_ok t.
Proof.
  unfold tc_new. intros E.
  destruct (sph_new _ _ _ _ _ _ _) as [h|] eqn:Eh; [|discriminate]. cbn [bind] in E.
  apply Ok_inj in E. subst t. unfold tc_len_ok. cbn [tc_sph tc_app].
  unfold sph_new in Eh. destruct (_ || _); [discriminate|].
  destruct (pid_new _ _ _); [|discriminate]. cbn [bind] in Eh.
  destruct (psc_new _ _); [|discriminate]. cbn [bind] in Eh.
  apply Ok_inj in Eh. subst h. reflexivity.
Qed.

Theorem tc_from_sp_header_len_ok h service subservice app source_id ack :
  tc_len_ok (tc_from_sp_header h service subservice app source_id ack).
Proof. reflexivity. Qed.

(* every operation except a direct assignment of the length field, a replacement of the header and
   the switch to a re-decoded object keeps it *)
Definition tcx_len_safe (o : tcx_op) : bool :=
  match o with
  | XSetHdr f _ => negb (f =? 6)
  | XNewHdr _ | XSwitch => false
  | _ => true
  end.

Theorem tcx_step_len_ok t0 t o :
  tcx_len_safe o = true -> tc_len_ok t -> tc_len_ok (fst (tcx_step t0 t o)).
Proof.
  intros S L.
  destruct (tcx_observer o) eqn:Ob.
  { exact (tc_len_ok_same _ _ (tcx_observer_keeps_fields t0 t o Ob) L). }
  destruct o; try discriminate; cbn [tcx_step fst].
  - apply tc_set_app_data_len_ok.
  - apply tc_set_app_data_len_ok.
  - cbn [tcx_len_safe] in S. unfold tc_len_ok, tc_with_sph, sph_set in *. cbn [tc_sph tc_app dlen].
    destruct (f =? 6); [discriminate|exact L].
  - exact L.
  - exact L.
Qed.

Fixpoint tcx_final (t0 t : tc) (ops : list tcx_op) : tc :=
  match ops with [] => t | o :: r => tcx_final t0 (fst (tcx_step t0 t o)) r end.

Lemma tcx_run_final t0 ops : forall t, fst (tcx_run t0 t ops) = tcx_final t0 t ops.
Proof.
  induction ops as [|o r IH]; intros t; [reflexivity|]. cbn [tcx_run tcx_final].
  destruct (tcx_step t0 t o) as [t' out] eqn:E. specialize (IH t').
  destruct (tcx_run t0 t' r) as [t'' outs]. cbn [fst] in *. exact IH.
Qed.

Theorem tcx_history_len_ok t0 ops : forall t,
  forallb tcx_len_safe ops = true -> tc_len_ok t -> tc_len_ok (fst (tcx_run t0 t ops)).
Proof.
  intros t. rewrite tcx_run_final. revert t.
  induction ops as [|o r IH]; intros t S L; [exact L|]. cbn [forallb] in S.
  apply andb_prop in S. destruct S as [S1 S2]. cbn [tcx_final].
  apply IH; [exact S2|]. apply tcx_step_len_ok; assumption.
Qed.

(* C11 on a live telecommand: after ANY history of length-safe operations the reported packet_len
   is the number of octets pack() yields *)
Theorem tcx_history_reported_len t0 ops t p u :
  forallb tcx_len_safe ops = true -> tc_len_ok t ->
  tc_pack (fst (tcx_run t0 t ops)) = Ok (p, u) ->
  tc_packet_len (fst (tcx_run t0 t ops)) = len p.
Proof.
  intros S L E. pose proof (tcx_history_len_ok t0 ops t S L) as K.
  destruct (tc_pack_facts _ _ _ E) as [_ Lp]. rewrite Lp.
  unfold tc_packet_len, sph_packet_len, CCSDS_HEADER_LEN. rewrite K.
  unfold tc_get_data_length, PUS_C_SEC_HEADER_LEN. lia.
Qed.

(* the generic view after ANY history: same octets as pack(), and the fields are untouched *)
Theorem tcx_history_view_eq_pack t0 ops t p u :
  let t' := fst (tcx_run t0 t ops) in
  sph_valid (tc_sph t') -> shf (tc_sph t') = 1 -> tc_pack t' = Ok (p, u) ->
  exists v, tc_view t' = Ok (p, v) /\ tc_same_fields v t'.
Proof.
  intros t' V S E. pose proof (tc_space_packet_view_any _ _ _ V S E) as A.
  unfold tc_view. rewrite A.
  destruct (tc_calc_crc t') as [v|] eqn:Ec.
  - exists v. split; [reflexivity|]. exact (tc_calc_crc_same _ _ Ec).
  - exfalso. unfold tc_to_space_packet_pack in A. rewrite Ec in A. discriminate.
Qed.

(* ================= telemetry ================= *)
Definition tm_same_fields (a b : tm) : Prop :=
  tm_sph a = tm_sph b /\ tm_sec a = tm_sec b /\ tm_src a = tm_src b.

Lemma tm_same_refl t : tm_same_fields t t.
Proof. repeat split. Qed.

Lemma tm_pack_facts t p t' : tm_pack t = Ok (p, t') ->
  tm_same_fields t' t /\ len p = 6 + (7 + len (tms_stamp (tm_sec t))) + len (tm_src t) + 2.
Proof.
  unfold tm_pack. intros E.
  destruct (sph_pack (tm_sph t)) as [hb|] eqn:Eh; [|discriminate]. cbn [bind] in E.
  destruct (tmsec_pack (tm_sec t)) as [sb|] eqn:Es; [|discriminate]. cbn [bind] in E.
  destruct (struct_pack 2 _) as [cb|] eqn:Ec; [|discriminate]. cbn [bind] in E.
  apply Ok_inj in E. apply pair_equal_spec in E. destruct E as [<- <-].
  split; [repeat split|].
  apply sph_pack_len in Eh. apply tmsec_pack_len in Es. apply struct_pack_len in Ec.
  rewrite !len_app, Eh, Es. unfold len at 3. rewrite Ec. lia.
Qed.

Lemma tm_calc_crc_same t t' : tm_calc_crc t = Ok t' -> tm_same_fields t' t.
Proof.
  unfold tm_calc_crc. intros E.
  destruct (sph_pack (tm_sph t)) as [hb|]; [|discriminate]. cbn [bind] in E.
  destruct (tmsec_pack (tm_sec t)) as [sb|]; [|discriminate]. cbn [bind] in E.
  destruct (struct_pack 2 _) as [cb|]; [|discriminate]. cbn [bind] in E.
  apply Ok_inj in E. subst t'. repeat split.
Qed.

Lemma tm_pack_norecalc_same t p t' : tm_pack_norecalc t = Ok (p, t') -> tm_same_fields t' t.
Proof.
  unfold tm_pack_norecalc. destruct (tm_crc t) as [c|].
  - intros E.
    destruct (sph_pack (tm_sph t)) as [hb|]; [|discriminate]. cbn [bind] in E.
    destruct (tmsec_pack (tm_sec t)) as [sb|]; [|discriminate]. cbn [bind] in E.
    apply Ok_inj in E. apply pair_equal_spec in E. destruct E as [_ <-]. apply tm_same_refl.
  - intros E. apply (tm_pack_facts _ _ _ E).
Qed.

Lemma tm_view_same t p t' : tm_view t = Ok (p, t') -> tm_same_fields t' t.
Proof.
  unfold tm_view. intros E.
  destruct (tm_calc_crc t) as [u|] eqn:Ec; [|discriminate]. cbn [bind] in E.
  destruct (tm_to_space_packet_pack t) as [b|]; [|discriminate]. cbn [bind] in E.
  apply Ok_inj in E. apply pair_equal_spec in E. destruct E as [_ <-].
  exact (tm_calc_crc_same _ _ Ec).
Qed.

Definition tmx_observer (o : tmx_op) : bool :=
  match o with
  | YPack | YPackNoRecalc | YCalcCrc | YView | YInspect | YEq | YRoundtrip => true
  | _ => false
  end.

Theorem tmx_observer_keeps_fields t0 t o :
  tmx_observer o = true -> tm_same_fields (fst (tmx_step t0 t o)) t.
Proof.
  destruct o; cbn [tmx_observer]; try discriminate; intros _; cbn [tmx_step].
  - destruct (tm_pack t) as [[b t']|] eqn:E; cbn [fst]; [apply (tm_pack_facts _ _ _ E)|apply tm_same_refl].
  - destruct (tm_pack_norecalc t) as [[b t']|] eqn:E; cbn [fst];
      [apply (tm_pack_norecalc_same _ _ _ E)|apply tm_same_refl].
  - destruct (tm_calc_crc t) as [t'|] eqn:E; cbn [fst]; [apply (tm_calc_crc_same _ _ E)|apply tm_same_refl].
  - destruct (tm_view t) as [[b t']|] eqn:E; cbn [fst]; [apply (tm_view_same _ _ _ E)|apply tm_same_refl].
  - apply tm_same_refl.
  - apply tm_same_refl.
  - destruct (tm_pack t) as [[b t']|] eqn:E; cbn [fst]; [apply (tm_pack_facts _ _ _ E)|apply tm_same_refl].
Qed.

Definition tm_len_ok (t : tm) : Prop :=
  dlen (tm_sph t) = tm_data_len (len (tms_stamp (tm_sec t))) (len (tm_src t)).

Lemma tm_len_ok_same a b : tm_same_fields a b -> tm_len_ok b -> tm_len_ok a.
Proof. unfold tm_len_ok. intros (-> & -> & ->). exact (fun H => H). Qed.

Theorem tm_set_tm_data_len_ok t d : tm_len_ok (tm_set_tm_data t d).
Proof. reflexivity. Qed.

Theorem tm_new_len_ok service subservice stamp src apid seq msgcnt ref dest version t :
  tm_new service subservice stamp src apid seq msgcnt ref dest version = Ok t -> tm_len_ok t.
Proof.
  unfold tm_new. intros E.
  destruct (sph_new _ _ _ _ _ _ _) as [h|] eqn:Eh; [|discriminate]. cbn [bind] in E.
  destruct (tmsec_new _ _ _ _ _ _) as [s|] eqn:Es; [|discriminate]. cbn [bind] in E.
  apply Ok_inj in E. subst t. unfold tm_len_ok. cbn [tm_sph tm_sec tm_src].
  unfold tmsec_new in Es.
  repeat (destruct (_ || _) in Es; [discriminate|]). apply Ok_inj in Es. subst s. cbn [tms_stamp].
  unfold sph_new in Eh. destruct (_ || _); [discriminate|].
  destruct (pid_new _ _ _); [|discriminate]. cbn [bind] in Eh.
  destruct (psc_new _ _); [|discriminate]. cbn [bind] in Eh.
  apply Ok_inj in Eh. subst h. reflexivity.
Qed.

(* the secondary-header attribute assignments other than the timestamp keep the timestamp *)
Lemma tmsec_set_stamp_same s f v : tms_stamp (tmsec_set s f v) = tms_stamp s.
Proof. reflexivity. Qed.

Definition tmx_len_safe (o : tmx_op) : bool :=
  match o with
  | YSetHdr f _ => negb (f =? 6)
  | YNewHdr _ | YSwitch | YSetStamp _ | YNewSec _ _ => false
  | _ => true
  end.

Theorem tmx_step_len_ok t0 t o :
  tmx_len_safe o = true -> tm_len_ok t -> tm_len_ok (fst (tmx_step t0 t o)).
Proof.
  intros S L.
  destruct (tmx_observer o) eqn:Ob.
  { exact (tm_len_ok_same _ _ (tmx_observer_keeps_fields t0 t o Ob) L). }
  destruct o; try discriminate; cbn [tmx_step fst].
  - apply tm_set_tm_data_len_ok.
  - apply tm_set_tm_data_len_ok.
  - cbn [tmx_len_safe] in S. unfold tm_len_ok, tm_with_sph, sph_set in *. cbn [tm_sph tm_sec tm_src dlen].
    destruct (f =? 6); [discriminate|exact L].
  - exact L.
Qed.

Fixpoint tmx_final (t0 t : tm) (ops : list tmx_op) : tm :=
  match ops with [] => t | o :: r => tmx_final t0 (fst (tmx_step t0 t o)) r end.

Lemma tmx_run_final t0 ops : forall t, fst (tmx_run t0 t ops) = tmx_final t0 t ops.
Proof.
  induction ops as [|o r IH]; intros t; [reflexivity|]. cbn [tmx_run tmx_final].
  destruct (tmx_step t0 t o) as [t' out] eqn:E. specialize (IH t').
  destruct (tmx_run t0 t' r) as [t'' outs]. cbn [fst] in *. exact IH.
Qed.

Theorem tmx_history_len_ok t0 ops : forall t,
  forallb tmx_len_safe ops = true -> tm_len_ok t -> tm_len_ok (fst (tmx_run t0 t ops)).
Proof.
  intros t. rewrite tmx_run_final. revert t.
  induction ops as [|o r IH]; intros t S L; [exact L|]. cbn [forallb] in S.
  apply andb_prop in S. destruct S as [S1 S2]. cbn [tmx_final].
  apply IH; [exact S2|]. apply tmx_step_len_ok; assumption.
Qed.

Theorem tmx_history_reported_len t0 ops t p u :
  forallb tmx_len_safe ops = true -> tm_len_ok t ->
  tm_pack (fst (tmx_run t0 t ops)) = Ok (p, u) ->
  tm_packet_len (fst (tmx_run t0 t ops)) = len p.
Proof.
  intros S L E. pose proof (tmx_history_len_ok t0 ops t S L) as K.
  destruct (tm_pack_facts _ _ _ E) as [_ Lp]. rewrite Lp.
  unfold tm_packet_len, sph_packet_len, CCSDS_HEADER_LEN. rewrite K.
  unfold tm_data_len, TMSEC_MIN_LEN. lia.
Qed.

(* C03-a2 class: whatever was cached and whatever was assigned through the sub-objects, the
   generic view yields pack()'s octets *)
Theorem tmx_history_view_eq_pack t0 ops t p u :
  let t' := fst (tmx_run t0 t ops) in
  sph_valid (tm_sph t') -> shf (tm_sph t') = 1 -> tm_pack t' = Ok (p, u) ->
  exists v, tm_view t' = Ok (p, v) /\ tm_same_fields v t'.
Proof.
  intros t' V S E. pose proof (tm_space_packet_view_any _ _ _ V S E) as A.
  unfold tm_view. rewrite A.
  destruct (tm_calc_crc t') as [v|] eqn:Ec.
  - exists v. split; [reflexivity|]. exact (tm_calc_crc_same _ _ Ec).
  - exfalso. unfold tm_to_space_packet_pack in A. rewrite Ec in A. discriminate.
Qed.

(* non-vacuity: a concrete history with sub-object edits between cache-filling calls satisfies the
   hypotheses of the history theorems and packs *)
Example tmx_history_example :
  let ops := [YPack; YSetHdr 5 101; YSetSec 4 101; YView; YSetData [1; 2; 3]; YPackNoRecalc] in
  match tm_new 3 25 [64; 1; 2; 3; 4; 5; 6] [222; 173] 119 100 100 0 5 0 with
  | Ok t => forallb tmx_len_safe ops = true /\ tm_len_ok t /\
            sph_valid (tm_sph (fst (tmx_run t t ops))) /\ shf (tm_sph (fst (tmx_run t t ops))) = 1 /\
            match tm_pack (fst (tmx_run t t ops)) with
            | Ok (p, _) => len p = 25 /\ tm_packet_len (fst (tmx_run t t ops)) = 25
            | Err _ => False
            end
  | Err _ => False
  end.
Proof. vm_compute. repeat split; discriminate. Qed.

Example tcx_history_example :
  let ops := [XView; XSetApp [1; 2; 3]; XSetHdr 3 77; XSetSec 2 513; XView; XExtendApp [4]; XPackNoRecalc; XEq] in
  match tc_new 17 1 66 [9] 7 3 15 with
  | Ok t => forallb tcx_len_safe ops = true /\ tc_len_ok t /\
            sph_valid (tc_sph (fst (tcx_run t t ops))) /\ shf (tc_sph (fst (tcx_run t t ops))) = 1 /\
            match tc_pack (fst (tcx_run t t ops)) with
            | Ok (p, _) => len p = 17 /\ tc_packet_len (fst (tcx_run t t ops)) = 17
            | Err _ => False
            end
  | Err _ => False
  end.
Proof. vm_compute. repeat split; discriminate. Qed.
