(* C16: results kept by the caller and caller-side edits (Model.Verificator.hrun).
   The history layer adds nothing to the tracker: its observations are those of vrun; a result
   that was handed out keeps its completed flag for ever; its status reads as the dictionary's
   entry for as long as it is the dictionary's object. *)
From Coq Require Import ZArith List Bool Lia.
From SP Require Import Base.Result Base.Bytes Model.SpacePacket Model.Verificator Proofs.VerificatorBase.
Import ListNotations.
Open Scope Z_scope.

Lemma refresh_completed d r : k_completed (refresh d r) = k_completed r.
Proof. unfold refresh. destruct (k_live r); [destruct (lookup (k_key r) d)|]; reflexivity. Qed.

Lemma refresh_key d r : k_key (refresh d r) = k_key r.
Proof. unfold refresh. destruct (k_live r); [destruct (lookup (k_key r) d)|]; reflexivity. Qed.

Lemma refresh_live_reads d r : k_live (refresh d r) = true -> lookup (k_key (refresh d r)) d = Some (k_status (refresh d r)).
Proof.
  unfold refresh. destruct (k_live r) eqn:L; [|intros H; rewrite L in H; discriminate].
  destruct (lookup (k_key r) d) eqn:E; cbn [k_live k_key k_status]; [intros _; exact E|discriminate].
Qed.

(* a detached result never becomes the dictionary's object again *)
Lemma refresh_dead d r : k_live r = false -> refresh d r = r.
Proof. unfold refresh. intros ->. reflexivity. Qed.

Lemma hrun_cons d ks o r :
  hrun d ks (o :: r) =
  (let d' := fst (hstep d o) in let x := snd (hstep d o) in
   let h := hrun d' (keep o x (map (refresh d') ks)) r in
   ((x, d') :: fst (fst h), snd (fst h), snd h)).
Proof.
  cbn [hrun]. destruct (hstep d o) as [d' x]. cbn [fst snd].
  destruct (hrun d' (keep o x (map (refresh d') ks)) r) as [[obs df] kf]. reflexivity.
Qed.

(* the observations and the final dictionary are those of the tracker model proper *)
Theorem hrun_obs_vrun : forall ops d ks, fst (fst (hrun d ks (map HOp ops))) = vrun d ops.
Proof.
  induction ops as [|o ops IH]; intros d ks; [reflexivity|].
  cbn [map]. rewrite hrun_cons. cbn [fst snd hstep vrun].
  destruct (vstep d o) as [d' x]. cbn [fst snd]. rewrite IH. reflexivity.
Qed.

Theorem hrun_final_dict : forall ops d ks, snd (fst (hrun d ks (map HOp ops))) = vfinal d ops.
Proof.
  induction ops as [|o ops IH]; intros d ks; [reflexivity|].
  cbn [map]. rewrite hrun_cons. cbn [fst snd hstep]. rewrite IH.
  unfold vfinal. cbn [fold_left]. reflexivity.
Qed.

(* a caller-side edit of a telecommand object is invisible to the tracker *)
Theorem hrun_caller_edit d ks r :
  fst (fst (hrun d ks (HCallerEdit :: r))) = (ONone, d) :: fst (fst (hrun d (map (refresh d) ks) r)) /\
  snd (fst (hrun d ks (HCallerEdit :: r))) = snd (fst (hrun d (map (refresh d) ks) r)).
Proof. rewrite hrun_cons. cbn [fst snd hstep keep]. split; reflexivity. Qed.

Lemma keep_completed o x ks : exists n, map k_completed (keep o x ks) = map k_completed ks ++ n.
Proof.
  destruct o as [[h|r|q|]|]; cbn [keep]; try (exists []; rewrite app_nil_r; reflexivity).
  destruct x; try (exists []; rewrite app_nil_r; reflexivity).
  eexists. rewrite map_app. reflexivity.
Qed.

(* the completed flag of every result handed out is never rewritten by a later call: the flags
   read at the end of the history are the flags of the results that existed, in order, followed
   by those of the results handed out since *)
Theorem kept_completed_stable : forall ops d ks,
  exists n, map k_completed (snd (hrun d ks ops)) = map k_completed ks ++ n.
Proof.
  induction ops as [|o ops IH]; intros d ks; [exists []; cbn; rewrite app_nil_r; reflexivity|].
  rewrite hrun_cons. cbn [snd].
  destruct (IH (fst (hstep d o)) (keep o (snd (hstep d o)) (map (refresh (fst (hstep d o))) ks))) as [n Hn].
  rewrite Hn.
  destruct (keep_completed o (snd (hstep d o)) (map (refresh (fst (hstep d o))) ks)) as [n1 Hn1].
  rewrite Hn1. exists (n1 ++ n). rewrite map_map, <- app_assoc. f_equal.
  apply map_ext. intros a. apply refresh_completed.
Qed.

Definition reads (d : vdict) (r : kept) : Prop :=
  k_live r = true -> lookup (k_key r) d = Some (k_status r).

Lemma add_tm_result_reads d r s c :
  add_tm d r = (fst (add_tm d r), Ok (Some (s, c))) -> lookup (reqid_as_u32 (rep_id r)) (fst (add_tm d r)) = Some s.
Proof.
  unfold add_tm. destruct (lookup (reqid_as_u32 (rep_id r)) d) eqn:L; cbn [fst]; [|discriminate].
  destruct ((rep_sub r <=? 0) || (rep_sub r >? 8)); cbn [fst]; [discriminate|].
  destruct (check_subservice r v) as [s' cc]. cbn [fst]. intros E.
  rewrite lookup_replace, Z.eqb_refl, L.
  destruct cc; inversion E; subst. reflexivity.
Qed.

(* every result that is still the dictionary's object reads the dictionary's current status *)
Theorem kept_live_reads_dictionary : forall ops d ks, Forall (reads d) ks ->
  Forall (reads (snd (fst (hrun d ks ops)))) (snd (hrun d ks ops)).
Proof.
  induction ops as [|o ops IH]; intros d ks H; [exact H|].
  rewrite hrun_cons. cbn [fst snd]. apply IH.
  set (d' := fst (hstep d o)). set (x := snd (hstep d o)).
  assert (R : Forall (reads d') (map (refresh d') ks)).
  { apply Forall_forall. intros r Hr. apply in_map_iff in Hr. destruct Hr as (r0 & <- & _).
    unfold reads. apply refresh_live_reads. }
  destruct o as [[h|r|q|]|]; cbn [keep]; try exact R.
  destruct x as [b| |s c|e] eqn:Ex; try exact R.
  apply Forall_app. split; [exact R|]. constructor; [|constructor].
  unfold reads. cbn [k_live k_key k_status]. intros _.
  subst d' x. cbn [hstep vstep] in *.
  destruct (add_tm d r) as [d1 y] eqn:Ea. cbn [fst snd] in *.
  destruct y as [[[s0 c0]|]|e0]; inversion Ex; subst.
  pose proof (add_tm_result_reads d r s c) as P. rewrite Ea in P. cbn [fst] in P. apply P. reflexivity.
Qed.

(* non-vacuity: two telecommands; the answer to A's acceptance failure keeps completed = true and
   follows A's later start report; the answer to B's start report is detached by remove_entry and
   keeps the status B had, although B is registered again and accepted afterwards *)
Example kept_example :
  let ha := {| ver := 0; ptype := 1; shf := 1; apid := 5; sflags := 3; scount := 7; dlen := 0 |} in
  let hb := {| ver := 1; ptype := 1; shf := 1; apid := 5; sflags := 3; scount := 7; dlen := 0 |} in
  let rp h sub := HOp (AddTm {| rep_id := reqid_from_sp_header h; rep_sub := sub; rep_step := None |}) in
  map (fun r => (k_completed r, k_live r, k_status r))
      (snd (hrun [] [] [HOp (AddTc ha); HOp (AddTc hb); rp ha 2; rp hb 3; HCallerEdit; rp ha 3;
                        HOp (RemoveEntry (reqid_from_sp_header hb)); HOp (AddTc hb); rp hb 1])) =
  [(true, true, {| recvd := 1; acc := 0; sta := 1; step := -1; steps := []; comp := -1 |});
   (false, false, {| recvd := 0; acc := -1; sta := 1; step := -1; steps := []; comp := -1 |});
   (false, true, {| recvd := 1; acc := 0; sta := 1; step := -1; steps := []; comp := -1 |});
   (false, true, {| recvd := 0; acc := 1; sta := -1; step := -1; steps := []; comp := -1 |})].
Proof. vm_compute. reflexivity. Qed.
