From Coq Require Import ZArith List Bool Lia ZifyBool.
From SP Require Import Base.Result Base.Bytes Base.BytesFacts Base.Crc16
  Model.PduHeader Spec.PduHeaderSpec Proofs.PduHeaderProofs Model.FileData Spec.FileDataSpec.
Import ListNotations.
Open Scope Z_scope.
Ltac Zify.zify_post_hook ::= Z.to_euclidean_division_equations.
Ltac list_eq := repeat (apply f_equal2; [lia|]); try reflexivity.

(* ---- witnesses against the code as it is in /repo (before the repairs) ---- *)

Definition wconf (crc : Z) : PduConfig :=
  {| cf_src := {| ubf_val := 1; ubf_len := 1 |}; cf_dst := {| ubf_val := 2; ubf_len := 1 |};
     cf_seq := {| ubf_val := 3; ubf_len := 1 |};
     cf_mode := 0; cf_large := 0; cf_crc := crc; cf_dir := 0; cf_segctrl := 0 |}.

Ltac witness_valid :=
  unfold fd_valid, conf_valid, ubf_valid, meta_valid, width_ok, flag, wf_bytes;
  cbn [cf_src cf_dst cf_seq cf_mode cf_large cf_crc cf_dir cf_segctrl ubf_val ubf_len wconf
       fp_data fp_offset fp_meta sm_state sm_data];
  repeat split; try (repeat constructor; lia); try (vm_compute; intuition congruence).

(* D-C07-1: a PDU with empty file data and no CRC is refused by the decoder of the same class *)
Theorem fd_unpack_pack_empty_refuted :
  exists c q, fd_valid c q /\ fd_pack (fd_pdu_of c q) = Ok (fd_layout c q) /\
              fd_unpack (fd_layout c q) = Err EValue.
Proof.
  exists (wconf 0), {| fp_data := []; fp_offset := 0; fp_meta := None |}.
  split; [witness_valid|]. split; vm_compute; reflexivity.
Qed.

(* D-C07-2: with the CRC flag the decoded file data contains the two CRC octets *)
Theorem fd_unpack_crc_in_data_refuted :
  exists c q p, fd_valid c q /\ fd_unpack (fd_layout c q) = Ok p /\
                fp_data q = [7] /\ fp_data (fd_params p) = [7; 163; 239].
Proof.
  exists (wconf 1), {| fp_data := [7]; fp_offset := 0; fp_meta := None |}.
  eexists. split; [witness_valid|]. split; [vm_compute; reflexivity|]. split; reflexivity.
Qed.

(* D-C07-2 (C09): octets after the PDU are folded into the file data *)
Theorem fd_unpack_suffix_in_data_refuted :
  exists c q p, fd_valid c q /\ fd_unpack (fd_layout c q ++ [65]) = Ok p /\
                fp_data q = [7] /\ fp_data (fd_params p) = [7; 65].
Proof.
  exists (wconf 0), {| fp_data := [7]; fp_offset := 0; fp_meta := None |}.
  eexists. split; [witness_valid|]. split; [vm_compute; reflexivity|]. split; reflexivity.
Qed.

(* D-C07-3: after decoding segment metadata the data-field length is that of a PDU without file data *)
Theorem fd_unpack_meta_len_refuted :
  exists c q p, fd_valid c q /\ fd_unpack (fd_layout c q) = Ok p /\
                fd_dlen c q = 11 /\ h_dlen (fd_hdr p) = 6 /\
                fd_pack p <> Ok (fd_layout c q).
Proof.
  exists (wconf 0),
    {| fp_data := [1; 2; 3; 4; 5]; fp_offset := 0; fp_meta := Some {| sm_state := 1; sm_data := [9] |} |}.
  eexists. split; [witness_valid|]. split; [vm_compute; reflexivity|].
  split; [reflexivity|]. split; [reflexivity|]. vm_compute. discriminate.
Qed.

(* C10: metadata flag set and empty data field -> IndexError *)
Theorem fd_unpack_total_refuted :
  exists d, wf_bytes d /\ fd_unpack d = Err EIndex /\ documented EIndex = false.
Proof.
  exists [48; 0; 0; 8; 1; 3; 2]. split; [repeat constructor; lia|]. split; vm_compute; reflexivity.
Qed.
