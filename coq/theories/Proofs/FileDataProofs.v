From Coq Require Import ZArith List Bool Lia ZifyBool.
From SP Require Import Base.Result Base.Bytes Base.BytesFacts Base.Crc16
  Model.PduHeader Spec.PduHeaderSpec Proofs.PduHeaderProofs Model.FileData Spec.FileDataSpec.
Import ListNotations.
Open Scope Z_scope.
Ltac Zify.zify_post_hook ::= Z.to_euclidean_division_equations.
Ltac list_eq := repeat (apply f_equal2; [lia|]); try reflexivity.

