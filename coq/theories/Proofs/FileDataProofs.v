From Coq Require Import ZArith List Bool Lia ZifyBool.
From SP Require Import Base.Result Base.Bytes Base.BytesFacts Base.Crc16
  Model.PduHeader Spec.PduHeaderSpec Proofs.PduHeaderProofs Model.FileData Spec.FileDataSpec.
Import ListNotations.
Open Scope Z_scope.
Ltac Zify.zify_post_hook ::= Z.to_euclidean_division_equations.
Ltac list_eq := repeat (apply f_equal2; [lia|]); try reflexivity.


(* The two facts about CRC-16 this file uses (proved in Base/Crc16Facts.v: crc16_range,
   crc_residue); taken as an explicit premise until that file is merged. *)
Definition crc_facts : Prop :=
  (forall m, wf_bytes m -> 0 <= crc16 m < 65536) /\
  (forall m, wf_bytes m -> crc16 (m ++ be_encode 2 (crc16 m)) = 0).

(* what the theorems about configuration c need: no CRC trailer, or the two CRC facts *)
Definition crc_ok (c : PduConfig) : Prop := cf_crc c = 0 \/ crc_facts.

(* ================= arithmetic of the segment-metadata octet ================= *)

Definition chk_metaoct (b : Z) : bool :=
  (Z.shiftr (Z.land b 192) 6 =? b / 64) && (Z.land b 63 =? b mod 64).
Lemma metaoct_sweep : forallb chk_metaoct (zrange 0 256) = true.
Proof. vm_compute. reflexivity. Qed.
Lemma metaoct_unpack b : 0 <= b < 256 ->
  Z.shiftr (Z.land b 192) 6 = b / 64 /\ Z.land b 63 = b mod 64.
Proof.
  intros H. pose proof (sweep _ 0 256 ltac:(lia) metaoct_sweep b ltac:(lia)) as P.
  unfold chk_metaoct in P. rewrite andb_true_iff, !Z.eqb_eq in P. exact P.
Qed.
Lemma metaoct_pack st l : 0 <= st < 4 -> 0 <= l <= 63 ->
  Z.lor (Z.shiftl st 6) l = st * 64 + l.
Proof.
  intros Hs Hl. rewrite shiftl_mul by lia. change (2 ^ 6) with 64.
  apply (lor_disjoint _ _ 6); [lia| |]; change (2 ^ 6) with 64; lia.
Qed.

(* ================= lengths ================= *)

Lemma fss_cases c : conf_valid c ->
  (cf_large c = 0 /\ fss_octets c = 4%nat) \/ (cf_large c = 1 /\ fss_octets c = 8%nat).
Proof.
  intros (_ & _ & _ & _ & _ & [L | L] & _); unfold fss_octets; rewrite L; [left|right]; split; reflexivity.
Qed.

Lemma fd_meta_layout_len m :
  len (fd_meta_layout m) = match m with Some s => 1 + len (sm_data s) | None => 0 end.
Proof. destruct m; [|reflexivity]. unfold fd_meta_layout. rewrite len_app. reflexivity. Qed.

Lemma fd_body_len c q :
  len (fd_body c q) =
  match fp_meta q with Some s => 1 + len (sm_data s) | None => 0 end
  + Z.of_nat (fss_octets c) + len (fp_data q).
Proof.
  unfold fd_body. rewrite !len_app, fd_meta_layout_len. unfold len at 2. rewrite be_encode_length. lia.
Qed.

Lemma fd_dlen_nonneg c q : 0 <= fd_dlen c q.
Proof.
  unfold fd_dlen. pose proof (len_nonneg (fd_body c q)). destruct (cf_crc c =? 1); lia.
Qed.

Lemma fd_header_valid c q : fd_valid c q -> hdr_valid (fd_header c q).
Proof.
  intros (C & _ & _ & _ & D). pose proof (fd_dlen_nonneg c q).
  destruct C as (Vs & Vd & Vq & Heq & Hm & Hl & Hc & Hd & Hs).
  unfold hdr_valid, fd_header. cbn [h_type h_meta h_dlen h_conf]. split.
  - unfold conf_valid, conf_set_dir.
    cbn [cf_src cf_dst cf_seq cf_mode cf_large cf_crc cf_dir cf_segctrl].
    repeat (split; [assumption|]). split; [unfold flag; lia|assumption].
  - split; [unfold flag; lia|]. split; [unfold flag; destruct (fp_meta q); lia|lia].
Qed.

(* ================= constructor ================= *)

Theorem fd_new_ok c q : fd_valid c q -> fd_new c q = Ok (fd_pdu_of c q, c).
Proof.
  intros V. pose proof V as (C & Wd & Mv & Ro & D).
  unfold fd_new.
  rewrite hdr_new_ok; [|lia|unfold conf_set_dir; cbn [cf_src cf_dst]; apply C].
  cbn [bind]. unfold fd_calc_len, hdr_large_file, fd_with_hdr, FILE_LARGE, CRC_WITH_CRC.
  cbn [fd_hdr fd_params h_conf h_type h_meta h_dlen conf_set_dir cf_large cf_crc].
  rewrite hdr_set_dlen_spec.
  assert (E : (let l0 := match fp_meta q with Some m => 1 + len (sm_data m) | None => 0 end in
               let l1 := if cf_large c =? 1 then l0 + 8 else l0 + 4 in
               let l2 := l1 + len (fp_data q) in
               if cf_crc c =? 1 then l2 + 2 else l2) = fd_dlen c q).
  { unfold fd_dlen. rewrite fd_body_len. cbv zeta.
    destruct (fss_cases c C) as [[L F] | [L F]]; rewrite L, F; cbn [Z.eqb Pos.eqb];
      destruct (cf_crc c =? 1); lia. }
  cbv zeta in E. rewrite E.
  destruct (fd_dlen c q <=? 65535) eqn:E2; [|lia]. cbn [bind].
  unfold fd_pdu_of, fd_header, SEGMETA_PRESENT, SEGMETA_NOT_PRESENT, PDU_FILE_DATA, DIR_TOWARDS_RECEIVER.
  cbn [h_type h_meta h_conf]. destruct (fp_meta q); reflexivity.
Qed.

Lemma len_be_encode n v : len (be_encode n v) = Z.of_nat n.
Proof. unfold len. rewrite be_encode_length. reflexivity. Qed.

Lemma fd_layout_len c q : fd_valid c q ->
  len (fd_layout c q) = hdr_header_len (fd_header c q) + fd_dlen c q.
Proof.
  intros V. pose proof (fd_header_valid c q V) as HV.
  destruct (hdr_layout_length _ HV) as [LL _].
  unfold fd_layout, fd_dlen. cbv zeta.
  destruct (cf_crc c =? 1); rewrite ?len_app, ?len_be_encode, LL; lia.
Qed.

(* the reported lengths: data field = everything after the header; packet_len = packed length *)
Theorem fd_data_field_len c q : fd_valid c q ->
  let p := fd_pdu_of c q in
  h_dlen (fd_hdr p) = len (fd_layout c q) - hdr_header_len (fd_hdr p) /\
  fd_packet_len p = len (fd_layout c q) /\
  h_dlen (fd_hdr p) = len (fd_body c q) + (if cf_crc c =? 1 then 2 else 0).
Proof.
  intros V. cbv zeta. rewrite (fd_layout_len c q V).
  unfold fd_packet_len, hdr_packet_len, fd_pdu_of. cbn [fd_hdr].
  assert (E : h_dlen (fd_header c q) = fd_dlen c q) by reflexivity. rewrite E.
  split; [lia|]. split; [lia|reflexivity].
Qed.

(* ================= pack = layout ================= *)

Lemma fd_body_wf c q : fd_valid c q -> wf_bytes (fd_body c q).
Proof.
  intros (_ & Wd & Mv & _ & _). unfold fd_body. rewrite !wf_bytes_app.
  split; [|split; [apply be_encode_wf|exact Wd]].
  unfold fd_meta_layout. destruct (fp_meta q) as [s|]; [|constructor].
  destruct Mv as (Rs & Ls & Ws). pose proof (len_nonneg (sm_data s)).
  apply wf_bytes_app. split; [|exact Ws]. constructor; [lia|constructor].
Qed.

Lemma fd_pre_wf c q : fd_valid c q -> wf_bytes (hdr_layout (fd_header c q) ++ fd_body c q).
Proof.
  intros V. apply wf_bytes_app. split; [apply hdr_layout_wf, fd_header_valid; exact V|apply fd_body_wf; exact V].
Qed.

Theorem fd_pack_layout c q : crc_ok c -> fd_valid c q ->
  fd_pack (fd_pdu_of c q) = Ok (fd_layout c q).
Proof.
  intros CK V. pose proof V as (C & Wd & Mv & Ro & D).
  unfold fd_pack, fd_pdu_of. cbn [fd_hdr fd_params].
  rewrite hdr_pack_layout by (apply fd_header_valid; exact V). cbn [bind].
  unfold hdr_large_file, FILE_LARGE, CRC_WITH_CRC.
  change (h_conf (fd_header c q)) with (conf_set_dir c 0). cbn [conf_set_dir cf_large cf_crc].
  assert (M : (match fp_meta q with
               | Some m =>
                   if len (sm_data m) >? 63 then Err EValue else
                   do b <- ba_append (hdr_layout (fd_header c q))
                             (Z.lor (Z.shiftl (sm_state m) 6) (len (sm_data m)));
                   Ok (if len (sm_data m) >? 0 then b ++ sm_data m else b)
               | None => Ok (hdr_layout (fd_header c q))
               end) = Ok (hdr_layout (fd_header c q) ++ fd_meta_layout (fp_meta q))).
  { destruct (fp_meta q) as [s|]; [|cbn [fd_meta_layout]; rewrite app_nil_r; reflexivity].
    destruct Mv as (Rs & Ls & Ws). pose proof (len_nonneg (sm_data s)) as Ln.
    destruct (len (sm_data s) >? 63) eqn:E; [lia|].
    rewrite metaoct_pack by lia. rewrite ba_append_ok by lia. cbn [bind fd_meta_layout].
    rewrite <- app_assoc.
    destruct (len (sm_data s) >? 0) eqn:E2; [reflexivity|].
    assert (sm_data s = []) as -> by (destruct (sm_data s); [reflexivity|unfold len in *; cbn [length] in *; lia]).
    rewrite app_nil_r. reflexivity. }
  rewrite M. cbn [bind].
  assert (O : (if negb (cf_large c =? 1) then struct_pack 4 (fp_offset q) else struct_pack 8 (fp_offset q))
              = Ok (be_encode (fss_octets c) (fp_offset q))).
  { destruct (fss_cases c C) as [[L F] | [L F]]; rewrite F in *; rewrite L; cbn [Z.eqb Pos.eqb negb];
      apply struct_pack_ok; exact Ro. }
  rewrite O. cbn [bind].
  assert (P : ((hdr_layout (fd_header c q) ++ fd_meta_layout (fp_meta q)) ++
               be_encode (fss_octets c) (fp_offset q)) ++ fp_data q
              = hdr_layout (fd_header c q) ++ fd_body c q).
  { unfold fd_body. rewrite <- !app_assoc. reflexivity. }
  rewrite P. unfold fd_layout. cbv zeta.
  destruct (cf_crc c =? 1) eqn:E; [|reflexivity].
  destruct CK as [Z0 | [CR _]]; [lia|].
  rewrite struct_pack_ok by (apply CR, fd_pre_wf; exact V). reflexivity.
Qed.

(* metadata longer than 63 octets is refused, whatever else the PDU holds *)
Theorem fd_meta_gt63_refused p s : fp_meta (fd_params p) = Some s -> len (sm_data s) > 63 ->
  fd_pack p = Err EValue \/ exists e, hdr_pack (fd_hdr p) = Err e /\ fd_pack p = Err e.
Proof.
  intros M L. unfold fd_pack. destruct (hdr_pack (fd_hdr p)) as [b|e] eqn:H.
  - left. cbn [bind]. rewrite M. destruct (len (sm_data s) >? 63) eqn:E; [reflexivity|lia].
  - right. exists e. split; reflexivity.
Qed.

Theorem fd_meta_gt63_refused_valid c q s : conf_valid c -> fp_meta q = Some s -> len (sm_data s) > 63 ->
  fd_dlen c q <= 65535 ->
  exists p, fd_new c q = Ok (p, c) /\ fd_pack p = Err EValue.
Proof.
  intros C M L D. exists (fd_pdu_of c q). split.
  - (* the constructor does not look at the metadata length *)
    unfold fd_new.
    rewrite hdr_new_ok; [|lia|unfold conf_set_dir; cbn [cf_src cf_dst]; apply C].
    cbn [bind]. unfold fd_calc_len, hdr_large_file, fd_with_hdr, FILE_LARGE, CRC_WITH_CRC.
    cbn [fd_hdr fd_params h_conf h_type h_meta h_dlen conf_set_dir cf_large cf_crc].
    rewrite hdr_set_dlen_spec.
    assert (E : (let l0 := match fp_meta q with Some m => 1 + len (sm_data m) | None => 0 end in
                 let l1 := if cf_large c =? 1 then l0 + 8 else l0 + 4 in
                 let l2 := l1 + len (fp_data q) in
                 if cf_crc c =? 1 then l2 + 2 else l2) = fd_dlen c q).
    { unfold fd_dlen. rewrite fd_body_len. cbv zeta.
      destruct (fss_cases c C) as [[L' F] | [L' F]]; rewrite L', F; cbn [Z.eqb Pos.eqb];
        destruct (cf_crc c =? 1); lia. }
    cbv zeta in E. rewrite E.
    destruct (fd_dlen c q <=? 65535) eqn:E2; [|lia]. cbn [bind].
    unfold fd_pdu_of, fd_header, SEGMETA_PRESENT, SEGMETA_NOT_PRESENT, PDU_FILE_DATA, DIR_TOWARDS_RECEIVER.
    cbn [h_type h_meta h_conf]. destruct (fp_meta q); reflexivity.
  - assert (HV : hdr_valid (fd_header c q)).
    { pose proof (fd_dlen_nonneg c q).
      destruct C as (Vs & Vd & Vq & Heq & Hm & Hl & Hc & Hd & Hs).
      unfold hdr_valid, fd_header. cbn [h_type h_meta h_dlen h_conf]. split.
      - unfold conf_valid, conf_set_dir.
        cbn [cf_src cf_dst cf_seq cf_mode cf_large cf_crc cf_dir cf_segctrl].
        repeat (split; [assumption|]). split; [unfold flag; lia|assumption].
      - split; [unfold flag; lia|]. split; [unfold flag; destruct (fp_meta q); lia|lia]. }
    unfold fd_pack, fd_pdu_of. cbn [fd_hdr fd_params]. rewrite hdr_pack_layout by exact HV.
    cbn [bind]. rewrite M. destruct (len (sm_data s) >? 63) eqn:E; [reflexivity|lia].
Qed.

(* ================= decode (encode p ++ rest) = p ================= *)

Lemma fd_empty_ok : exists e0, fd_empty = Ok e0 /\ fd_params e0 = fp_empty.
Proof. eexists. split; [vm_compute; reflexivity|reflexivity]. Qed.

Lemma py_get_at (A : bytes) b X i : i = len A -> py_get (A ++ b :: X) i = Ok b.
Proof.
  intros ->. rewrite py_get_app_r by lia. rewrite Z.sub_diag. reflexivity.
Qed.

Lemma slice_at (A M C : bytes) i j : i = len A -> j = len A + len M -> slice (A ++ M ++ C) i j = M.
Proof. apply slice_mid. Qed.

Lemma firstn_len_app (a b : bytes) n : n = len a -> firstn (Z.to_nat n) (a ++ b) = a.
Proof. intros ->. apply firstn_app_exact. unfold len. lia. Qed.

Theorem fd_unpack_pack c q rest : crc_ok c -> fd_valid c q -> wf_bytes rest ->
  fd_unpack (fd_layout c q ++ rest) = Ok (fd_pdu_of c q).
Proof.
  intros CK V Wr. pose proof V as (C & Wd & Mv & Ro & D).
  pose proof (fd_header_valid c q V) as HV.
  pose proof (fd_pre_wf c q V) as Wpre.
  pose proof (fd_layout_len c q V) as LL.
  destruct (hdr_layout_length _ HV) as [LH _].
  destruct (hdr_valid_packet_len _ HV) as [Rhl Rpl].
  pose proof (fd_body_len c q) as LB.
  pose proof (fd_body_wf c q V) as WB.
  (* the octets, as five blocks *)
  remember (hdr_layout (fd_header c q)) as H eqn:EH.
  remember (fd_meta_layout (fp_meta q)) as ML eqn:EML.
  remember (be_encode (fss_octets c) (fp_offset q)) as OFF eqn:EOFF.
  remember (fp_data q) as DT eqn:EDT.
  remember ((if cf_crc c =? 1 then be_encode 2 (crc16 (H ++ fd_body c q)) else []) ++ rest) as TAIL eqn:ET.
  assert (EB : fd_body c q = ML ++ OFF ++ DT) by (unfold fd_body; subst; reflexivity).
  assert (EL : fd_layout c q ++ rest = H ++ ML ++ OFF ++ DT ++ TAIL).
  { unfold fd_layout. cbv zeta. rewrite <- EH, ET, EB.
    destruct (cf_crc c =? 1); rewrite <- ?app_assoc; reflexivity. }
  assert (LOFF : len OFF = Z.of_nat (fss_octets c)) by (subst OFF; apply len_be_encode).
  assert (LML : len ML = match fp_meta q with Some s => 1 + len (sm_data s) | None => 0 end)
    by (subst ML; apply fd_meta_layout_len).
  assert (WT : wf_bytes TAIL).
  { subst TAIL. apply wf_bytes_app. split; [|exact Wr]. destruct (cf_crc c =? 1); [apply be_encode_wf|constructor]. }
  assert (Wall : wf_bytes (ML ++ OFF ++ DT ++ TAIL)).
  { rewrite EB in WB. apply wf_bytes_app in WB. destruct WB as [W1 W2]. apply wf_bytes_app in W2.
    destruct W2 as [W2 W3]. rewrite !wf_bytes_app. repeat split; assumption. }
  assert (LT : len (fd_layout c q ++ rest) = len (fd_layout c q) + len rest) by apply len_app.
  pose proof (len_nonneg rest) as Lr. pose proof (len_nonneg DT) as LDT. pose proof (len_nonneg ML) as LML0.
  assert (Hcrc : cf_crc (h_conf (fd_header c q)) = cf_crc c) by reflexivity.
  assert (Hlarge : cf_large (h_conf (fd_header c q)) = cf_large c) by reflexivity.
  assert (Hpl : hdr_packet_len (fd_header c q) = len (fd_layout c q)).
  { rewrite LL. unfold hdr_packet_len. change (h_dlen (fd_header c q)) with (fd_dlen c q). lia. }
  unfold fd_unpack.
  destruct fd_empty_ok as (e0 & -> & Pe0). cbn [bind].
  (* header *)
  rewrite EL at 1. rewrite EH at 1. rewrite hdr_unpack_pack by assumption. cbn [bind].
  (* length and checksum *)
  rewrite hdr_verify_spec by lia. rewrite Hpl, Hcrc.
  destruct (len (fd_layout c q ++ rest) <? len (fd_layout c q)) eqn:E1; [lia|]. clear E1.
  rewrite firstn_len_app by reflexivity.
  assert (CRC0 : (cf_crc c =? 1) && negb (crc16 (fd_layout c q) =? 0) = false).
  { destruct (cf_crc c =? 1) eqn:E; [|reflexivity]. destruct CK as [Z0 | [_ RES]]; [lia|].
    unfold fd_layout. cbv zeta. rewrite E.
    rewrite <- EH. rewrite RES by exact Wpre. reflexivity. }
  rewrite CRC0. cbn [bind]. unfold fd_with_hdr. cbn [fd_hdr fd_params].
  unfold CRC_WITH_CRC, hdr_large_file, FILE_LARGE. rewrite Hcrc.
  (* end of file data = header + body *)
  assert (EE : (if cf_crc c =? 1 then len (fd_layout c q) - 2 else len (fd_layout c q))
               = len H + len ML + len OFF + len DT).
  { rewrite LL. unfold fd_dlen. rewrite EB, !len_app, <- LH. destruct (cf_crc c =? 1); lia. }
  rewrite EE. rewrite <- LH. rewrite EL.
  change (h_meta (fd_header c q)) with (match fp_meta q with None => 0 | Some _ => 1 end).
  rewrite Pe0. cbn [fp_empty fp_data fp_offset fp_meta].
  match goal with |- bind ?X _ = _ =>
    assert (ST : X = Ok ({| fd_hdr := fd_header c q;
                            fd_params := {| fp_data := []; fp_offset := 0; fp_meta := fp_meta q |} |},
                         len H + len ML)) end.
  { destruct (fp_meta q) as [s|] eqn:MQ; cbn [Z.eqb negb].
    - destruct Mv as (Rs & Ls & Ws). pose proof (len_nonneg (sm_data s)) as Lmd.
      assert (EML' : ML = (sm_state s * 64 + len (sm_data s)) :: sm_data s) by (subst ML; reflexivity).
      pose proof (len_nonneg OFF) as LOFF0.
      match goal with |- context [?a >=? ?b] => destruct (a >=? b) eqn:E2; [lia|]; clear E2 end.
      clear EML. subst ML. cbn [app].
      rewrite py_get_at by reflexivity. cbn [bind].
      destruct (metaoct_unpack (sm_state s * 64 + len (sm_data s)) ltac:(lia)) as [MO1 MO2].
      rewrite MO1, MO2.
      replace ((sm_state s * 64 + len (sm_data s)) / 64) with (sm_state s) by lia.
      replace ((sm_state s * 64 + len (sm_data s)) mod 64) with (len (sm_data s)) by lia.
      match goal with |- context [?a >? ?b] => destruct (a >? b) eqn:E2; [lia|]; clear E2 end.
      replace (H ++ (sm_state s * 64 + len (sm_data s)) :: sm_data s ++ OFF ++ DT ++ TAIL)
        with ((H ++ [sm_state s * 64 + len (sm_data s)]) ++ sm_data s ++ OFF ++ DT ++ TAIL)
        by (rewrite <- app_assoc; reflexivity).
      rewrite (slice_at (H ++ [sm_state s * 64 + len (sm_data s)]) (sm_data s) (OFF ++ DT ++ TAIL))
        by (rewrite len_app, len_cons, len_nil; lia).
      unfold fd_with_params. cbn [fd_hdr]. destruct s as [st md]. cbn [sm_state sm_data] in *.
      f_equal. f_equal. lia.
    - f_equal. f_equal. lia. }
  rewrite ST. cbn [bind fd_hdr fd_params]. rewrite Hlarge.
  assert (N : (if negb (cf_large c =? 1) then 4 else 8) = len OFF).
  { rewrite LOFF. destruct (fss_cases c C) as [[L F] | [L F]]; rewrite L, F; reflexivity. }
  rewrite N.
  pose proof (len_nonneg OFF) as LOFF0.
  match goal with |- context [?a >? ?b] => destruct (a >? b) eqn:E2; [lia|]; clear E2 end.
  replace (H ++ ML ++ OFF ++ DT ++ TAIL) with ((H ++ ML) ++ OFF ++ DT ++ TAIL) at 1
    by (rewrite <- app_assoc; reflexivity).
  rewrite (slice_at (H ++ ML) OFF (DT ++ TAIL)) by (rewrite len_app; lia).
  rewrite LOFF, Nat2Z.id. rewrite EOFF at 1. rewrite struct_unpack_encode by exact Ro. cbn [bind].
  unfold fd_with_params. cbn [fd_hdr fd_params fp_data fp_offset fp_meta].
  assert (Q : q = {| fp_data := DT; fp_offset := fp_offset q; fp_meta := fp_meta q |})
    by (subst DT; destruct q; reflexivity).
  match goal with |- context [?a <? ?b] => destruct (a <? b) eqn:E2 end.
  - replace (H ++ ML ++ OFF ++ DT ++ TAIL) with ((H ++ ML ++ OFF) ++ DT ++ TAIL)
      by (rewrite <- !app_assoc; reflexivity).
    rewrite (slice_at (H ++ ML ++ OFF) DT TAIL) by (rewrite !len_app; lia).
    unfold fd_pdu_of. f_equal. f_equal. destruct q as [d o m]. cbn [fp_data fp_offset fp_meta] in *. congruence.
  - assert (DT = []) as E0 by (destruct DT; [reflexivity|unfold len in *; cbn [length] in *; lia]).
    unfold fd_pdu_of. f_equal. f_equal. destruct q as [d o m]. cbn [fp_data fp_offset fp_meta] in *. congruence.
Qed.

(* the decoded PDU equals the original, re-packs to the same octets *)
Lemma ubf_eqb_refl u : ubf_eqb u u = true.
Proof. unfold ubf_eqb. rewrite !Z.eqb_refl. reflexivity. Qed.
Lemma hdr_eqb_refl h : hdr_eqb h h = true.
Proof. unfold hdr_eqb. rewrite !Z.eqb_refl, !ubf_eqb_refl. reflexivity. Qed.
Lemma bytes_eqb_refl b : bytes_eqb b b = true.
Proof. apply bytes_eqb_eq. reflexivity. Qed.
Lemma fd_eqb_refl p : fd_eqb p p = true.
Proof.
  unfold fd_eqb, fp_eqb, sm_eqb. rewrite hdr_eqb_refl, bytes_eqb_refl, Z.eqb_refl.
  destruct (fp_meta (fd_params p)); [rewrite Z.eqb_refl, bytes_eqb_refl|]; reflexivity.
Qed.

Theorem fd_roundtrip c q rest : crc_ok c -> fd_valid c q -> wf_bytes rest ->
  exists p b p',
    fd_new c q = Ok (p, c) /\ fd_pack p = Ok b /\ b = fd_layout c q /\
    fd_unpack (b ++ rest) = Ok p' /\
    fp_offset (fd_params p') = fp_offset q /\ fp_meta (fd_params p') = fp_meta q /\
    fp_data (fd_params p') = fp_data q /\
    fd_eqb p' p = true /\ fd_pack p' = Ok b /\ fd_packet_len p' = len b.
Proof.
  intros CF V Wr. exists (fd_pdu_of c q), (fd_layout c q), (fd_pdu_of c q).
  split; [apply fd_new_ok; exact V|]. split; [apply fd_pack_layout; assumption|].
  split; [reflexivity|]. split; [apply fd_unpack_pack; assumption|].
  split; [reflexivity|]. split; [reflexivity|]. split; [reflexivity|].
  split; [apply fd_eqb_refl|]. split; [apply fd_pack_layout; assumption|].
  apply (fd_data_field_len c q V).
Qed.

(* ================= get_max_file_seg_len_for_max_packet_len_and_pdu_cfg ================= *)

Definition fd_overhead (c : PduConfig) (m : option SegMeta) : Z :=
  conf_header_len c + match m with Some s => 1 + len (sm_data s) | None => 0 end
  + Z.of_nat (fss_octets c) + (if cf_crc c =? 1 then 2 else 0).

Theorem max_seg_len_spec c mx m : flag (cf_large c) ->
  get_max_file_seg_len c mx m =
  if mx <? fd_overhead c m then Err EValue else Ok (mx - fd_overhead c m).
Proof.
  intros L. unfold get_max_file_seg_len, fd_overhead, fss_octets, FILE_LARGE, CRC_WITH_CRC.
  assert (E : (let subtract := conf_header_len c in
               let subtract := match m with Some s => subtract + (1 + len (sm_data s)) | None => subtract end in
               let subtract := if cf_large c =? 1 then subtract + 8 else subtract + 4 in
               if cf_crc c =? 1 then subtract + 2 else subtract)
              = conf_header_len c + match m with Some s => 1 + len (sm_data s) | None => 0 end
                + Z.of_nat (if cf_large c =? 1 then 8%nat else 4%nat) + (if cf_crc c =? 1 then 2 else 0)).
  { cbv zeta. destruct m, (cf_large c =? 1), (cf_crc c =? 1); lia. }
  cbv zeta in E. cbv zeta. rewrite E. reflexivity.
Qed.

(* a segment of exactly the returned size packs to exactly max_packet_len octets *)
Theorem max_seg_len_exact c q mx r : crc_ok c -> fd_valid c q ->
  get_max_file_seg_len c mx (fp_meta q) = Ok r -> len (fp_data q) = r ->
  r + fd_overhead c (fp_meta q) = mx /\
  exists b, fd_pack (fd_pdu_of c q) = Ok b /\ len b = mx.
Proof.
  intros CF V G LD. pose proof V as (C & _).
  rewrite max_seg_len_spec in G by apply C.
  destruct (mx <? fd_overhead c (fp_meta q)) eqn:E; [discriminate|]. injection G as G.
  split; [lia|]. exists (fd_layout c q). split; [apply fd_pack_layout; assumption|].
  rewrite (fd_layout_len c q V). unfold fd_dlen. rewrite fd_body_len.
  assert (HL : hdr_header_len (fd_header c q) = conf_header_len c).
  { unfold hdr_header_len, conf_header_len, fd_header, FIXED_LENGTH, conf_set_dir.
    cbn [h_conf cf_src cf_seq cf_dst]. destruct C as (_ & _ & _ & Heq & _). lia. }
  rewrite HL. unfold fd_overhead in *. lia.
Qed.

(* ================= C10: every octet string decodes or fails with a documented error ================= *)

Lemma wf_bytes_In d b : wf_bytes d -> In b d -> 0 <= b < 256.
Proof. unfold wf_bytes. rewrite Forall_forall. intros H I. apply H. exact I. Qed.

Theorem fd_unpack_total d : wf_bytes d -> ok_or_documented (fd_unpack d).
Proof.
  intros W. unfold fd_unpack.
  destruct fd_empty_ok as (e0 & -> & Pe0). cbn [bind].
  pose proof (hdr_unpack_total d W) as T.
  destruct (hdr_unpack d) as [h|e] eqn:U; [|exact T]. clear T. cbn [bind].
  destruct (hdr_pack_unpack d h W U) as (HV & Lhl & _).
  destruct (hdr_valid_packet_len h HV) as [Rhl Rpl].
  rewrite hdr_verify_spec by lia.
  destruct (len d <? hdr_packet_len h) eqn:E1; [reflexivity|].
  destruct ((cf_crc (h_conf h) =? 1) && _); [reflexivity|]. cbn [bind].
  unfold fd_with_hdr. cbn [fd_hdr fd_params].
  set (e := if cf_crc (h_conf h) =? CRC_WITH_CRC then hdr_packet_len h - 2 else hdr_packet_len h).
  assert (Re : e <= len d) by (unfold e; destruct (cf_crc (h_conf h) =? CRC_WITH_CRC); lia).
  set (n := if negb (hdr_large_file h) then 4 else 8).
  assert (Rn : n = 4 \/ n = 8) by (unfold n; destruct (negb (hdr_large_file h)); lia).
  (* second half, for any p with header h and any index between header end and e *)
  assert (TAIL : forall (p : FileDataPdu) idx, fd_hdr p = h -> 0 <= idx ->
            ok_or_documented
              (let n := if negb (hdr_large_file (fd_hdr p)) then 4 else 8 in
               if idx + n >? e then Err EValue else
               do off <- struct_unpack (Z.to_nat n) (slice d idx (idx + n));
               let q := fd_params p in
               let p := fd_with_params p {| fp_data := fp_data q; fp_offset := off; fp_meta := fp_meta q |} in
               let current_idx := idx + n in
               if current_idx <? e then
                 let q := fd_params p in
                 Ok (fd_with_params p {| fp_data := slice d current_idx e;
                                         fp_offset := fp_offset q; fp_meta := fp_meta q |})
               else Ok p)).
  { intros p idx Hp Hi. rewrite Hp. fold n. cbv zeta.
    destruct (idx + n >? e) eqn:E2; [reflexivity|].
    rewrite struct_unpack_ok by (rewrite slice_length by lia; lia). cbn [bind].
    destruct (idx + n <? e); exact I. }
  destruct (negb (h_meta h =? 0)).
  - destruct (hdr_header_len h >=? e) eqn:E3; [reflexivity|].
    destruct (py_get_in_range d (hdr_header_len h) ltac:(lia)) as (b & -> & Ib). cbn [bind].
    pose proof (wf_bytes_In d b W Ib) as Rb.
    destruct (metaoct_unpack b Rb) as [_ MO2]. rewrite MO2.
    destruct (hdr_header_len h + 1 + b mod 64 >? e) eqn:E4; [reflexivity|]. cbn [bind].
    apply TAIL; [reflexivity|lia].
  - cbn [bind]. apply TAIL; [reflexivity|lia].
Qed.

(* every strict prefix of a packed File Data PDU is refused with a documented error *)
Theorem fd_prefix_rejected c q n : fd_valid c q -> (n < length (fd_layout c q))%nat ->
  exists e, fd_unpack (firstn n (fd_layout c q)) = Err e /\ documented e = true.
Proof.
  intros V L.
  pose proof (fd_header_valid c q V) as HV.
  assert (WL : wf_bytes (fd_layout c q)).
  { unfold fd_layout. cbv zeta. destruct (cf_crc c =? 1); [apply wf_bytes_app; split; [|apply be_encode_wf]|];
      apply fd_pre_wf; exact V. }
  assert (Wp : wf_bytes (firstn n (fd_layout c q))) by (apply wf_bytes_firstn; exact WL).
  pose proof (fd_unpack_total _ Wp) as T.
  destruct (fd_unpack (firstn n (fd_layout c q))) as [p|e] eqn:U; [|exists e; split; [reflexivity|exact T]].
  exfalso. clear T. revert U. unfold fd_unpack.
  destruct fd_empty_ok as (e0 & -> & Pe0). cbn [bind].
  destruct (hdr_unpack (firstn n (fd_layout c q))) as [h|e] eqn:UH; [|discriminate]. cbn [bind].
  (* the header decoded from the prefix is the header of the PDU *)
  destruct (hdr_pack_unpack _ _ Wp UH) as (HV' & Lhl & LY & _).
  assert (E : fd_layout c q = hdr_layout h ++ skipn (Z.to_nat (hdr_header_len h)) (fd_layout c q)).
  { rewrite LY. rewrite firstn_firstn.
    replace (Nat.min (Z.to_nat (hdr_header_len h)) n) with (Z.to_nat (hdr_header_len h)).
    - symmetry. apply firstn_skipn.
    - unfold len in Lhl. rewrite firstn_length in Lhl. lia. }
  assert (U2 : hdr_unpack (fd_layout c q) = Ok h).
  { rewrite E. apply hdr_unpack_pack; [assumption|]. apply wf_bytes_skipn. exact WL. }
  assert (U3 : hdr_unpack (fd_layout c q) = Ok (fd_header c q)).
  { unfold fd_layout. cbv zeta. destruct (cf_crc c =? 1); rewrite <- ?app_assoc;
      apply hdr_unpack_pack; try assumption.
    - apply wf_bytes_app. split; [apply fd_body_wf; exact V|apply be_encode_wf].
    - apply fd_body_wf; exact V. }
  rewrite U2 in U3. injection U3 as ->.
  destruct (hdr_valid_packet_len _ HV) as [Rhl Rpl].
  rewrite hdr_verify_spec by lia.
  assert (Hpl : hdr_packet_len (fd_header c q) = len (fd_layout c q)).
  { rewrite (fd_layout_len c q V). unfold hdr_packet_len. change (h_dlen (fd_header c q)) with (fd_dlen c q). lia. }
  rewrite Hpl.
  destruct (len (firstn n (fd_layout c q)) <? len (fd_layout c q)) eqn:E1; [discriminate|].
  unfold len in E1. rewrite firstn_length in E1. lia.
Qed.

(* ================= C11: lengths track the setters ================= *)

Inductive fd_op := SetFileData (d : bytes) | SetSegMeta (m : option SegMeta).
Definition fd_apply_op (p : FileDataPdu) (o : fd_op) : res FileDataPdu :=
  match o with SetFileData d => fd_set_data p d | SetSegMeta m => fd_set_meta p m end.
Fixpoint fd_apply_ops (p : FileDataPdu) (ops : list fd_op) : res FileDataPdu :=
  match ops with [] => Ok p | o :: r => do p' <- fd_apply_op p o; fd_apply_ops p' r end.

Lemma fd_calc_len_spec c p : flag (cf_large c) -> h_conf (fd_hdr p) = conf_set_dir c 0 ->
  fd_calc_len p =
  if fd_dlen c (fd_params p) <=? 65535
  then Ok {| fd_hdr := {| h_type := h_type (fd_hdr p); h_meta := h_meta (fd_hdr p);
                          h_dlen := fd_dlen c (fd_params p); h_conf := h_conf (fd_hdr p) |};
             fd_params := fd_params p |}
  else Err EValue.
Proof.
  intros L HC. unfold fd_calc_len, hdr_large_file, FILE_LARGE, CRC_WITH_CRC. rewrite HC.
  cbn [conf_set_dir cf_large cf_crc]. rewrite hdr_set_dlen_spec.
  assert (E : (let l0 := match fp_meta (fd_params p) with Some m => 1 + len (sm_data m) | None => 0 end in
               let l1 := if cf_large c =? 1 then l0 + 8 else l0 + 4 in
               let l2 := l1 + len (fp_data (fd_params p)) in
               if cf_crc c =? 1 then l2 + 2 else l2) = fd_dlen c (fd_params p)).
  { unfold fd_dlen. rewrite fd_body_len. unfold fss_octets. cbv zeta.
    destruct L as [-> | ->]; cbn [Z.eqb Pos.eqb]; destruct (cf_crc c =? 1); lia. }
  cbv zeta in E. rewrite E.
  destruct (fd_dlen c (fd_params p) <=? 65535); [|reflexivity]. cbn [bind].
  unfold fd_with_hdr. rewrite HC. reflexivity.
Qed.

(* the invariant: the PDU is the one a fresh constructor call builds for its current values *)
Definition fd_inv (c : PduConfig) (p : FileDataPdu) : Prop := p = fd_pdu_of c (fd_params p).

Lemma fd_new_inv c q p c' : flag (cf_large c) -> fd_new c q = Ok (p, c') ->
  fd_inv c p /\ c' = c /\ fd_params p = q.
Proof.
  intros L. unfold fd_new. destruct (hdr_new _ _ _ _) as [h|e] eqn:N; [|discriminate]. cbn [bind].
  destruct (hdr_new_spec PDU_FILE_DATA
              (match fp_meta q with Some _ => SEGMETA_PRESENT | None => SEGMETA_NOT_PRESENT end)
              0 (conf_set_dir c DIR_TOWARDS_RECEIVER)) as [A B].
  destruct (Z.eq_dec (ubf_len (cf_src (conf_set_dir c DIR_TOWARDS_RECEIVER)))
                     (ubf_len (cf_dst (conf_set_dir c DIR_TOWARDS_RECEIVER)))) as [Eq|Ne].
  2:{ rewrite B in N by (intros [_ X]; contradiction). discriminate. }
  rewrite A in N by (split; [lia|exact Eq]). injection N as <-.
  rewrite (fd_calc_len_spec c) by (try assumption; reflexivity).
  cbn [fd_hdr fd_params h_type h_meta h_conf].
  destruct (fd_dlen c q <=? 65535); [|discriminate]. cbn [bind]. intros X. injection X as <- <-.
  split; [|split; reflexivity].
  unfold fd_inv, fd_pdu_of, fd_header. cbn [fd_params].
  unfold PDU_FILE_DATA, SEGMETA_PRESENT, SEGMETA_NOT_PRESENT, DIR_TOWARDS_RECEIVER.
  destruct (fp_meta q); reflexivity.
Qed.

Lemma fd_apply_op_inv c p o p' : flag (cf_large c) -> fd_inv c p -> fd_apply_op p o = Ok p' -> fd_inv c p'.
Proof.
  intros L I. unfold fd_inv in I. destruct o as [d|m]; unfold fd_apply_op, fd_set_data, fd_set_meta.
  - rewrite (fd_calc_len_spec c); [|assumption|rewrite I; reflexivity].
    unfold fd_with_params. cbn [fd_hdr fd_params].
    destruct (fd_dlen c _ <=? 65535); [|discriminate]. intros X. injection X as <-.
    unfold fd_inv, fd_pdu_of, fd_header. cbn [fd_params fp_meta]. rewrite I.
    unfold fd_pdu_of, fd_header. cbn [fd_hdr fd_params h_type h_meta h_conf]. reflexivity.
  - rewrite (fd_calc_len_spec c); [|assumption|rewrite I; reflexivity].
    unfold fd_with_params, fd_with_hdr, hdr_set_meta. cbn [fd_hdr fd_params h_type h_meta h_conf h_dlen].
    destruct (fd_dlen c _ <=? 65535); [|discriminate]. intros X. injection X as <-.
    unfold fd_inv, fd_pdu_of, fd_header. cbn [fd_params fp_meta]. rewrite I.
    unfold fd_pdu_of, fd_header. cbn [fd_hdr fd_params h_type h_meta h_conf].
    unfold SEGMETA_PRESENT, SEGMETA_NOT_PRESENT. destruct m; reflexivity.
Qed.

Theorem fd_setters_inv c q ops p0 c' p : flag (cf_large c) ->
  fd_new c q = Ok (p0, c') -> fd_apply_ops p0 ops = Ok p ->
  c' = c /\ p = fd_pdu_of c (fd_params p).
Proof.
  intros L N A. destruct (fd_new_inv c q p0 c' L N) as (I & -> & _). split; [reflexivity|].
  clear N. revert p0 I A. induction ops as [|o r IH]; intros p0 I A; cbn [fd_apply_ops] in A.
  - injection A as <-. exact I.
  - destruct (fd_apply_op p0 o) as [p1|e] eqn:E; [|discriminate]. cbn [bind] in A.
    apply (IH p1); [eapply fd_apply_op_inv; eassumption|exact A].
Qed.

(* after any setter history: reported length = packed length, octets = those of a fresh PDU with
   the final values, the length field inside = what the format requires *)
Theorem fd_len_inv c q ops p0 c' p : crc_ok c -> flag (cf_large c) ->
  fd_new c q = Ok (p0, c') -> fd_apply_ops p0 ops = Ok p -> fd_valid c (fd_params p) ->
  fd_pack p = Ok (fd_layout c (fd_params p)) /\
  fd_packet_len p = len (fd_layout c (fd_params p)) /\
  fd_new c (fd_params p) = Ok (p, c) /\
  h_dlen (fd_hdr p) = len (fd_layout c (fd_params p)) - hdr_header_len (fd_hdr p).
Proof.
  intros CF L N A V. destruct (fd_setters_inv c q ops p0 c' p L N A) as [_ I].
  pose proof (fd_pack_layout c (fd_params p) CF V) as P.
  pose proof (fd_new_ok c (fd_params p) V) as NW.
  destruct (fd_data_field_len c (fd_params p) V) as (D1 & D2 & _). cbv zeta in D1, D2.
  rewrite <- I in P, NW, D1, D2.
  split; [exact P|]. split; [exact D2|]. split; [exact NW|exact D1].
Qed.

(* ================= C09: octets after the PDU never reach the decoded values ================= *)

Theorem fd_suffix_irrelevant c q s : crc_ok c -> fd_valid c q -> wf_bytes s ->
  fd_unpack (fd_layout c q ++ s) = fd_unpack (fd_layout c q).
Proof.
  intros CK V W. rewrite fd_unpack_pack by assumption.
  pose proof (fd_unpack_pack c q [] CK V ltac:(constructor)) as E.
  rewrite app_nil_r in E. symmetry. exact E.
Qed.

(* ================= non-vacuity ================= *)

Definition fd_example_conf : PduConfig :=
  {| cf_src := {| ubf_val := 258; ubf_len := 2 |}; cf_dst := {| ubf_val := 65535; ubf_len := 2 |};
     cf_seq := {| ubf_val := 4294967295; ubf_len := 4 |};
     cf_mode := 1; cf_large := 1; cf_crc := 0; cf_dir := 1; cf_segctrl := 1 |}.
Definition fd_example_params : FdParams :=
  {| fp_data := [104; 105]; fp_offset := 18446744073709551615;
     fp_meta := Some {| sm_state := 3; sm_data := [170; 187] |} |}.
Example fd_valid_example : fd_valid fd_example_conf fd_example_params /\ crc_ok fd_example_conf.
Proof.
  split; [|left; reflexivity].
  unfold fd_valid, conf_valid, ubf_valid, meta_valid, width_ok, flag, wf_bytes, fd_example_conf, fd_example_params.
  cbn [cf_src cf_dst cf_seq cf_mode cf_large cf_crc cf_dir cf_segctrl ubf_val ubf_len
       fp_data fp_offset fp_meta sm_state sm_data].
  repeat split; try (repeat constructor; lia); try (vm_compute; intuition congruence).
Qed.
Example fd_layout_example :
  fd_layout fd_example_conf fd_example_params =
  [53; 0; 13; 155; 1; 2; 255; 255; 255; 255; 255; 255;
   194; 170; 187; 255; 255; 255; 255; 255; 255; 255; 255; 104; 105].
Proof. vm_compute. reflexivity. Qed.

(* ================= every accepted octet string: what was decoded is what the octets say ================= *)

(* end of the file data inside an accepted PDU *)
Definition fd_end (h : PduHeader) : Z :=
  if cf_crc (h_conf h) =? 1 then hdr_packet_len h - 2 else hdr_packet_len h.

Lemma slice_split_first (d : bytes) i j b : 0 <= i -> i < j -> j <= len d -> py_get d i = Ok b ->
  slice d i j = b :: slice d (i + 1) j.
Proof.
  intros Hi Hj Hl G. unfold slice, py_get in *. destruct (i <? 0) eqn:E; [lia|].
  destruct (nth_error d (Z.to_nat i)) as [x|] eqn:N; [|discriminate]. injection G as ->.
  replace (Z.to_nat (i + 1)) with (S (Z.to_nat i)) by lia.
  replace (Z.to_nat (j - i)) with (S (Z.to_nat (j - (i + 1)))) by lia.
  clear E Hj Hl Hi. revert N. generalize (Z.to_nat i) as k. generalize (Z.to_nat (j - (i + 1))) as m.
  intros m k. revert d. induction k as [|k IH]; intros d N.
  - destruct d as [|y d]; [discriminate|]. cbn in N. injection N as ->. reflexivity.
  - destruct d as [|y d]; [discriminate|]. cbn [nth_error] in N. cbn [skipn]. apply IH. exact N.
Qed.

Theorem fd_unpack_inv d p : wf_bytes d -> fd_unpack d = Ok p ->
  let h := fd_hdr p in
  hdr_unpack d = Ok h /\ hdr_valid h /\
  hdr_packet_len h <= len d /\
  (cf_crc (h_conf h) = 1 -> crc16 (firstn (Z.to_nat (hdr_packet_len h)) d) = 0) /\
  hdr_header_len h <= fd_end h /\
  hdr_layout h ++ fd_body (h_conf h) (fd_params p) = firstn (Z.to_nat (fd_end h)) d /\
  meta_valid (fp_meta (fd_params p)) /\
  (h_meta h = match fp_meta (fd_params p) with None => 0 | Some _ => 1 end).
Proof.
  intros W. unfold fd_unpack.
  destruct fd_empty_ok as (e0 & -> & Pe0). cbn [bind].
  destruct (hdr_unpack d) as [h|e] eqn:U; [|discriminate]. cbn [bind].
  destruct (hdr_pack_unpack d h W U) as (HV & Lhl & LY & _).
  destruct (hdr_valid_packet_len h HV) as [Rhl Rpl].
  rewrite hdr_verify_spec by lia.
  destruct (len d <? hdr_packet_len h) eqn:E1; [discriminate|].
  destruct ((cf_crc (h_conf h) =? 1) && negb (crc16 (firstn (Z.to_nat (hdr_packet_len h)) d) =? 0)) eqn:EC;
    [discriminate|]. cbn [bind].
  unfold fd_with_hdr. cbn [fd_hdr fd_params]. rewrite Pe0.
  change (if cf_crc (h_conf h) =? CRC_WITH_CRC then hdr_packet_len h - 2 else hdr_packet_len h) with (fd_end h).
  assert (Re : fd_end h <= len d) by (unfold fd_end; destruct (cf_crc (h_conf h) =? 1); lia).
  assert (HF : flag (cf_large (h_conf h))) by apply HV.
  assert (HM : flag (h_meta h)) by apply HV.
  assert (NN : (if negb (hdr_large_file h) then 4 else 8) = Z.of_nat (fss_octets (h_conf h))).
  { unfold hdr_large_file, fss_octets, FILE_LARGE. destruct HF as [-> | ->]; reflexivity. }
  assert (CRC : cf_crc (h_conf h) = 1 -> crc16 (firstn (Z.to_nat (hdr_packet_len h)) d) = 0).
  { intros C1. rewrite C1 in EC. cbn [Z.eqb Pos.eqb andb] in EC.
    destruct (crc16 _ =? 0) eqn:Z0; [lia|discriminate]. }
  (* second half *)
  assert (TAIL : forall (m : option SegMeta) idx,
            hdr_header_len h <= idx -> idx <= fd_end h ->
            hdr_layout h ++ fd_meta_layout m = firstn (Z.to_nat idx) d ->
            meta_valid m -> h_meta h = match m with None => 0 | Some _ => 1 end ->
            (let p0 := {| fd_hdr := h; fd_params := {| fp_data := []; fp_offset := 0; fp_meta := m |} |} in
             let n := if negb (hdr_large_file (fd_hdr p0)) then 4 else 8 in
             if idx + n >? fd_end h then Err EValue else
             do off <- struct_unpack (Z.to_nat n) (slice d idx (idx + n));
             let q := fd_params p0 in
             let p1 := fd_with_params p0 {| fp_data := fp_data q; fp_offset := off; fp_meta := fp_meta q |} in
             let current_idx := idx + n in
             if current_idx <? fd_end h then
               let q := fd_params p1 in
               Ok (fd_with_params p1 {| fp_data := slice d current_idx (fd_end h);
                                        fp_offset := fp_offset q; fp_meta := fp_meta q |})
             else Ok p1) = Ok p ->
            fd_hdr p = h /\ hdr_header_len h <= fd_end h /\
            hdr_layout h ++ fd_body (h_conf h) (fd_params p) = firstn (Z.to_nat (fd_end h)) d /\
            meta_valid (fp_meta (fd_params p)) /\
            h_meta h = match fp_meta (fd_params p) with None => 0 | Some _ => 1 end).
  { intros m idx Hi1 Hi2 PRE MV MF. cbv zeta. cbn [fd_hdr fd_params fp_data fp_offset fp_meta].
    rewrite NN. set (n := Z.of_nat (fss_octets (h_conf h))).
    assert (Rn : 0 < n) by (unfold n, fss_octets; destruct (cf_large (h_conf h) =? 1); lia).
    destruct (idx + n >? fd_end h) eqn:E2; [discriminate|].
    rewrite struct_unpack_ok by (rewrite slice_length by lia; lia). cbn [bind].
    unfold fd_with_params. cbn [fd_hdr fd_params fp_data fp_offset fp_meta].
    assert (OFFE : be_encode (fss_octets (h_conf h)) (be_decode (slice d idx (idx + n))) = slice d idx (idx + n)).
    { replace (fss_octets (h_conf h)) with (length (slice d idx (idx + n)))
        by (rewrite slice_length by lia; unfold n; lia).
      apply be_encode_decode. apply wf_bytes_slice. exact W. }
    assert (J : forall dt, dt = slice d (idx + n) (fd_end h) ->
              hdr_layout h ++ fd_meta_layout m ++ be_encode (fss_octets (h_conf h)) (be_decode (slice d idx (idx + n))) ++ dt
              = firstn (Z.to_nat (fd_end h)) d).
    { intros dt ->. rewrite app_assoc, PRE, OFFE. rewrite <- slice_0_firstn.
      rewrite !slice_adjacent by lia. apply slice_0_firstn. }
    destruct (idx + n <? fd_end h) eqn:E3; intros X; injection X as <-; cbn [fd_hdr fd_params fp_data fp_meta fp_offset];
      (split; [reflexivity|]); (split; [lia|]); (split; [|split; assumption]); unfold fd_body;
      cbn [fp_data fp_meta fp_offset]; apply J.
    - reflexivity.
    - unfold slice. replace (Z.to_nat (fd_end h - (idx + n))) with 0%nat by lia. reflexivity. }
  assert (PRE0 : hdr_layout h ++ fd_meta_layout None = firstn (Z.to_nat (hdr_header_len h)) d).
  { cbn [fd_meta_layout]. rewrite app_nil_r. exact LY. }
  destruct (h_meta h =? 0) eqn:EM; cbn [negb].
  - cbn [bind]. intros X.
    destruct (TAIL None (hdr_header_len h)) as (A1 & A2 & A3 & A4 & A5); try assumption; try lia.
    { (* fd_end >= header_len is only known when the offset fits: take it from the guard *)
      revert X. cbn [fd_hdr]. rewrite NN. destruct (_ >? fd_end h) eqn:G; [discriminate|]. intros _.
      pose proof (Nat2Z.is_nonneg (fss_octets (h_conf h))). lia. }
    { constructor. }
    cbv zeta. rewrite A1. split; [reflexivity|]. split; [exact HV|]. split; [lia|]. split; [exact CRC|].
    split; [exact A2|]. split; [exact A3|]. split; [exact A4|exact A5].
  - destruct (hdr_header_len h >=? fd_end h) eqn:E3; [discriminate|].
    destruct (py_get_in_range d (hdr_header_len h) ltac:(lia)) as (b & G & Ib). rewrite G. cbn [bind].
    pose proof (wf_bytes_In d b W Ib) as Rb.
    destruct (metaoct_unpack b Rb) as [MO1 MO2]. rewrite MO1, MO2.
    destruct (hdr_header_len h + 1 + b mod 64 >? fd_end h) eqn:E4; [discriminate|]. cbn [bind].
    unfold fd_with_params. cbn [fd_hdr fd_params fp_data fp_offset fp_meta fp_empty].
    intros X.
    destruct (TAIL (Some {| sm_state := b / 64;
                            sm_data := slice d (hdr_header_len h + 1) (hdr_header_len h + 1 + b mod 64) |})
                   (hdr_header_len h + 1 + b mod 64)) as (A1 & A2 & A3 & A4 & A5); try assumption; try lia.
    { cbn [fd_meta_layout sm_state sm_data]. rewrite slice_len by lia.
      replace (b / 64 * 64 + (hdr_header_len h + 1 + b mod 64 - (hdr_header_len h + 1))) with b by lia.
      rewrite LY. rewrite <- slice_0_firstn.
      change ([b] ++ slice d (hdr_header_len h + 1) (hdr_header_len h + 1 + b mod 64))
        with (b :: slice d (hdr_header_len h + 1) (hdr_header_len h + 1 + b mod 64)).
      rewrite <- (slice_split_first d (hdr_header_len h) (hdr_header_len h + 1 + b mod 64) b) by (try assumption; lia).
      rewrite slice_adjacent by lia. apply slice_0_firstn. }
    { cbn [meta_valid sm_state sm_data]. rewrite slice_len by lia.
      split; [lia|]. split; [lia|apply wf_bytes_slice; exact W]. }
    { unfold flag in HM. lia. }
    cbv zeta. rewrite A1. split; [reflexivity|]. split; [exact HV|]. split; [lia|]. split; [exact CRC|].
    split; [exact A2|]. split; [exact A3|]. split; [exact A4|exact A5].
Qed.
