(* C16: the verification tracker.  Association-list facts, one-step refinement of the
   documented table, and the history theorems by induction over operation lists. *)
From Coq Require Import ZArith List Bool Lia ZifyBool.
From SP Require Import Base.Result Base.Bytes Model.SpacePacket Model.Verificator Spec.VerificatorSpec.
Import ListNotations.
Open Scope Z_scope.

(* ================= association lists ================= *)

(* keys are unique: what a Python dict guarantees *)
Fixpoint uniq (d : vdict) : Prop :=
  match d with
  | [] => True
  | (k, _) :: r => lookup k r = None /\ uniq r
  end.

Lemma lookup_None_keys k d : lookup k d = None <-> ~ In k (map fst d).
Proof.
  induction d as [|[k' s] r IH]; cbn [lookup map fst In]; [tauto|].
  destruct (Z.eqb_spec k' k); [split; [discriminate|tauto]|]. rewrite IH. tauto.
Qed.

Lemma uniq_NoDup d : uniq d <-> NoDup (map fst d).
Proof.
  induction d as [|[k s] r IH]; cbn [uniq map fst]; [split; [constructor|trivial]|].
  rewrite IH, lookup_None_keys. split.
  - intros [? ?]. constructor; assumption.
  - intros H. inversion H. split; assumption.
Qed.

Lemma lookup_app k d k' s :
  lookup k (d ++ [(k', s)]) =
  match lookup k d with Some x => Some x | None => if k' =? k then Some s else None end.
Proof.
  induction d as [|[k0 s0] r IH]; cbn [app lookup]; [reflexivity|].
  destruct (k0 =? k); [reflexivity|exact IH].
Qed.

Lemma lookup_replace k s d k' :
  lookup k' (replace k s d) =
  if k' =? k then match lookup k d with Some _ => Some s | None => None end else lookup k' d.
Proof.
  induction d as [|[k0 s0] r IH]; cbn [replace lookup]; [destruct (k' =? k); reflexivity|].
  destruct (Z.eqb_spec k0 k) as [E0|Hne]; [subst k0|]; cbn [lookup].
  - destruct (Z.eqb_spec k' k) as [E1|Hne']; [subst k'; rewrite Z.eqb_refl; reflexivity|].
    destruct (Z.eqb_spec k k'); [congruence|reflexivity].
  - destruct (Z.eqb_spec k0 k') as [E1|Hne'].
    + destruct (Z.eqb_spec k' k); [congruence|reflexivity].
    + exact IH.
Qed.

Lemma keys_replace k s d : map fst (replace k s d) = map fst d.
Proof.
  induction d as [|[k0 s0] r IH]; [reflexivity|]. cbn [replace].
  destruct (k0 =? k); cbn [map fst]; [reflexivity|rewrite IH; reflexivity].
Qed.

Lemma uniq_replace k s d : uniq d -> uniq (replace k s d).
Proof. rewrite !uniq_NoDup, keys_replace. trivial. Qed.

Lemma lookup_delete k d k' : uniq d ->
  lookup k' (delete k d) = if k' =? k then None else lookup k' d.
Proof.
  induction d as [|[k0 s0] r IH]; intros U; cbn [delete lookup]; [destruct (k' =? k); reflexivity|].
  destruct U as [U0 U]. destruct (Z.eqb_spec k0 k) as [E0|Hne]; [subst k0|].
  - destruct (Z.eqb_spec k' k) as [E1|Hne']; [subst k'; exact U0|].
    destruct (Z.eqb_spec k k'); [congruence|reflexivity].
  - cbn [lookup]. destruct (Z.eqb_spec k0 k') as [E1|Hne'].
    + destruct (Z.eqb_spec k' k); [congruence|reflexivity].
    + apply IH. assumption.
Qed.

Lemma uniq_delete k d : uniq d -> uniq (delete k d).
Proof.
  induction d as [|[k0 s0] r IH]; intros U; cbn [delete]; [exact I|].
  destruct U as [U0 U]. destruct (Z.eqb_spec k0 k) as [E0|Hne]; [assumption|].
  cbn [uniq]. split; [|apply IH; assumption].
  rewrite lookup_delete by assumption. destruct (k0 =? k); [reflexivity|assumption].
Qed.

Lemma lookup_filter_None f k d : lookup k d = None -> lookup k (filter f d) = None.
Proof.
  induction d as [|[k0 s0] r IH]; cbn [filter lookup]; [trivial|].
  destruct (Z.eqb_spec k0 k) as [E0|Hne]; [discriminate|]. intros H.
  destruct (f (k0, s0)); cbn [lookup]; [destruct (Z.eqb_spec k0 k); [congruence|]|]; apply IH; assumption.
Qed.

Lemma lookup_filter (f : vstatus -> bool) k d : uniq d ->
  lookup k (filter (fun e => f (snd e)) d) =
  match lookup k d with Some s => if f s then Some s else None | None => None end.
Proof.
  induction d as [|[k0 s0] r IH]; intros U; cbn [filter lookup snd]; [reflexivity|].
  destruct U as [U0 U]. destruct (Z.eqb_spec k0 k) as [E0|Hne]; [subst k0|].
  - destruct (f s0); cbn [lookup]; [rewrite Z.eqb_refl; reflexivity|].
    apply lookup_filter_None. assumption.
  - destruct (f s0); cbn [lookup]; [destruct (Z.eqb_spec k0 k); [congruence|]|]; apply IH; assumption.
Qed.

Lemma uniq_filter f d : uniq d -> uniq (filter f d).
Proof.
  induction d as [|[k0 s0] r IH]; intros U; cbn [filter]; [exact I|].
  destruct U as [U0 U]. destruct (f (k0, s0)); [|apply IH; assumption].
  cbn [uniq]. split; [apply lookup_filter_None; assumption|apply IH; assumption].
Qed.

Lemma uniq_app k s d : uniq d -> lookup k d = None -> uniq (d ++ [(k, s)]).
Proof.
  induction d as [|[k0 s0] r IH]; intros U L; cbn [app uniq]; [split; [reflexivity|exact I]|].
  destruct U as [U0 U]. cbn [lookup] in L. destruct (Z.eqb_spec k0 k) as [E0|Hne]; [discriminate|].
  split; [|apply IH; assumption].
  rewrite lookup_app, U0. destruct (Z.eqb_spec k k0); [congruence|reflexivity].
Qed.

(* ================= abstraction to the documented state machine ================= *)

Definition sf_abs (z : Z) : sf := if z =? UNSET then U else if z =? FAILURE then F else S.

Definition abs_st (s : vstatus) : sstatus :=
  {| s_recvd := negb (recvd s =? 0); s_acc := sf_abs (acc s); s_sta := sf_abs (sta s);
     s_step := sf_abs (step s); s_steps := steps s; s_comp := sf_abs (comp s) |}.

Definition abs_dict (d : vdict) : tracker := fun k => option_map abs_st (lookup k d).

Definition key_of_hdr (h : sph) : Z := reqid_as_u32 (reqid_from_sp_header h).

Definition abs_op (o : vop) : sop :=
  match o with
  | AddTc h => SAddTc (key_of_hdr h)
  | AddTm r => SAddTm (reqid_as_u32 (rep_id r)) (rep_sub r) (match rep_step r with Some v => v | None => 0 end)
  | RemoveEntry r => SRemoveEntry (reqid_as_u32 r)
  | RemoveCompleted => SRemoveCompleted
  end.

Definition abs_out (x : vout) : sout :=
  match x with
  | OBool b => SBool b
  | ONone => SNone
  | OResult s c => SResult (abs_st s) c
  | ORaise _ => SValueError
  end.

(* the documented machine speaks about step reports that carry a step id *)
Definition op_in_spec (o : vop) : Prop :=
  match o with
  | AddTm r => (rep_sub r = 5 \/ rep_sub r = 6) -> rep_step r <> None
  | _ => True
  end.

Lemma sf_set_abs z : sf_set (sf_abs z) = negb (z =? UNSET).
Proof. unfold sf_abs, UNSET, FAILURE. destruct (z =? -1); [reflexivity|]. destruct (z =? 0); reflexivity. Qed.

Lemma table_None sub k t : ~ (1 <= sub <= 8) -> table sub k t = None.
Proof.
  intros H. destruct sub as [|p|p]; [reflexivity| |reflexivity].
  do 4 (destruct p as [p|p|]; try reflexivity; try lia).
Qed.

Ltac split_fields s :=
  unfold sf_abs, UNSET, FAILURE, SUCCESS in *;
  repeat match goal with
  | |- context [?a =? ?b] => destruct (Z.eqb_spec a b); try lia; cbn [negb andb orb]
  end.

(* one report on one status: the model's statements compute the documented table *)
Ltac eval_closed :=
  repeat match goal with
  | |- context [Z.pos ?p mod 2 =? 0] =>
      let b := eval vm_compute in (Z.pos p mod 2 =? 0) in change (Z.pos p mod 2 =? 0) with b
  | |- context [Z.pos ?p =? Z.pos ?q] =>
      let b := eval vm_compute in (Z.pos p =? Z.pos q) in change (Z.pos p =? Z.pos q) with b
  end.

Lemma check_subservice_table r s :
  1 <= rep_sub r <= 8 -> (rep_sub r = 5 \/ rep_sub r = 6 -> rep_step r <> None) ->
  exists s' c, check_subservice r s = (s', Ok c) /\
               table (rep_sub r) (match rep_step r with Some v => v | None => 0 end) (abs_st s) = Some (abs_st s', c).
Proof.
  intros Hs Hv. destruct r as [rid sub stp]. cbn [rep_sub rep_step] in *.
  assert (C : sub = 1 \/ sub = 2 \/ sub = 3 \/ sub = 4 \/ sub = 5 \/ sub = 6 \/ sub = 7 \/ sub = 8) by lia.
  destruct s as [rc ac st sp sl co].
  unfold check_subservice, step_val, check_all_replies_recvd_after_step, set_recvd, set_acc, set_sta,
    set_step, set_comp, append_step, TM_ACCEPTANCE_SUCCESS, TM_ACCEPTANCE_FAILURE, TM_START_SUCCESS,
    TM_START_FAILURE, TM_STEP_SUCCESS, TM_STEP_FAILURE, TM_COMPLETION_SUCCESS, TM_COMPLETION_FAILURE,
    abs_st, sf_abs, UNSET, FAILURE, SUCCESS.
  cbn [rep_sub rep_step recvd acc sta step steps comp].
  destruct (Z.eqb_spec ac (-1)); destruct (Z.eqb_spec st (-1)); destruct (Z.eqb_spec sp (-1));
    cbn [negb andb]; cbv iota; cbn [recvd acc sta step steps comp].
  all: destruct stp as [v|];
  (destruct C as [E|[E|[E|[E|[E|[E|[E|E]]]]]]]; subst sub; eval_closed; cbv iota).
  all: try (exfalso; apply Hv; [lia|reflexivity]).
  all: eexists; eexists; (split; [reflexivity|]).
  all: unfold table; cbn [recvd acc sta step steps comp s_recvd s_acc s_sta s_step s_steps s_comp sf_set negb andb orb Z.eqb Pos.eqb].
  all: repeat match goal with |- context [?a =? ?b] => is_var a; destruct (Z.eqb_spec a b); try lia end.
  all: cbn [negb andb orb sf_set Z.eqb Pos.eqb]; try reflexivity; try lia.
Qed.
