(* C11 (gap 2b): Metadata after any accepted setter history is the freshly constructed PDU. *)
From Coq Require Import ZArith List Bool Lia.
From SP Require Import Base.Result Base.Bytes Base.BytesFacts
  Model.PduHeader Spec.PduHeaderSpec Model.FileDirective Proofs.FileDirectiveProofs Model.Lv Model.Tlv
  Model.Finished Model.Metadata Spec.PduBSpec Proofs.FinishedProofs Proofs.MetadataProofs Proofs.HistTotal.
Import ListNotations.
Open Scope Z_scope.

Lemma md_eqb_reparam p q' :
  mp_closure q' = mp_closure (md_params p) -> mp_cstype q' = mp_cstype (md_params p) ->
  mp_fsize q' = mp_fsize (md_params p) ->
  md_eqb p (md_reparam p q') = true /\ md_eqb (md_reparam p q') p = true.
Proof.
  intros E1 E2 E3. unfold md_eqb, md_reparam. cbn [md_fdir md_params md_src_lv md_dst_lv md_options].
  rewrite E1, E2, E3, fdir_eqb_refl, !Z.eqb_refl. unfold lv_eqb. rewrite !bytes_eqb_refl. cbn [andb].
  unfold options_eqb. split; apply opts_eqb_refl.
Qed.

(* C11, Metadata: after ANY accepted history of the options / source name / destination name
   setters, a fresh MetadataPdu(conf, current values, current options) is accepted and is the same
   object except that it refers to a parameter object holding the CURRENT names (the PDU itself
   keeps the caller's original MetadataParams, whose name attributes the setters do not write);
   the two compare equal both ways and pack to the same octets *)
Theorem md_history_eq_fresh c q o ops p : md_valid c q o ->
  md_apply_ops (md_pdu_of c q o) ops = Ok p -> md_valid c (md_current p) (md_options p) ->
  let u := md_reparam p (md_current p) in
  md_new c (md_current p) (md_options p) = Ok (u, c, md_current p) /\
  md_eqb p u = true /\ md_eqb u p = true /\ md_pack u = md_pack p /\
  md_pack p = Ok (md_layout c (md_current p) (md_options p)) /\ md_packet_len u = md_packet_len p.
Proof.
  intros V A Vp u. pose proof (md_setters_inv c q o ops p V A) as I.
  assert (E : md_pdu_of c (md_current p) (md_options p) = u).
  { assert (Fd : md_fdir p = fdir_of (conf_set_dir c 0) DT_METADATA
                                 (md_len_of c (md_src_lv p) (md_dst_lv p) (md_options p) - 1))
      by (rewrite I at 1; reflexivity).
    unfold u, md_reparam, md_pdu_of. rewrite Fd. unfold md_len_of. rewrite md_dlen_eq. reflexivity. }
  split; [rewrite <- E; apply md_new_ok; exact Vp|].
  destruct (md_eqb_reparam p (md_current p) eq_refl eq_refl eq_refl) as [Q1 Q2].
  split; [exact Q1|]. split; [exact Q2|].
  split; [unfold u, md_reparam; apply md_pack_names; reflexivity|].
  split; [apply (md_len_inv c q o ops p V A Vp)|reflexivity].
Qed.
