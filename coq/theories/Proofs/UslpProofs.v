(* Proofs for C17: USLP primary / truncated header (Model/UslpHeader.v against
   Spec/UslpSpec.v).  Frame proofs are in Proofs/UslpFrameProofs.v. *)
From Coq Require Import ZArith List Bool Lia ZifyBool.
From SP Require Import Base.Result Base.Bytes Base.BytesFacts Model.UslpHeader Model.UslpFrame Spec.UslpSpec.
Import ListNotations.
Open Scope Z_scope.
Ltac Zify.zify_post_hook ::= Z.to_euclidean_division_equations.
Ltac list_eq := repeat (apply f_equal2; [lia|]); try reflexivity.

(* ================= sweeps over several small domains ================= *)

Lemma sweep2 (P : Z -> Z -> bool) n1 n2 :
  0 <= n1 -> 0 <= n2 ->
  forallb (fun a => forallb (P a) (zrange 0 n2)) (zrange 0 n1) = true ->
  forall a b, 0 <= a < n1 -> 0 <= b < n2 -> P a b = true.
Proof.
  intros H1 H2 H a b Ha Hb.
  pose proof (sweep (fun a => forallb (P a) (zrange 0 n2)) 0 n1 H1 H a ltac:(lia)) as Q.
  cbv beta in Q. exact (sweep (P a) 0 n2 H2 Q b ltac:(lia)).
Qed.

Lemma sweep3 (P : Z -> Z -> Z -> bool) n1 n2 n3 :
  0 <= n1 -> 0 <= n2 -> 0 <= n3 ->
  forallb (fun a => forallb (fun b => forallb (P a b) (zrange 0 n3)) (zrange 0 n2)) (zrange 0 n1) = true ->
  forall a b c, 0 <= a < n1 -> 0 <= b < n2 -> 0 <= c < n3 -> P a b c = true.
Proof.
  intros H1 H2 H3 H a b c Ha Hb Hc.
  pose proof (sweep2 (fun a b => forallb (P a b) (zrange 0 n3)) n1 n2 H1 H2 H a b Ha Hb) as Q.
  cbv beta in Q. exact (sweep (P a b) 0 n3 H3 Q c ltac:(lia)).
Qed.

Ltac split_andb H :=
  repeat match type of H with
  | (_ && _) = true => let H' := fresh H in apply andb_prop in H; destruct H as [H H']
  end.

(* ---- pack side, field space ---- *)
Definition chk_scid (s : Z) : bool :=
  (Z.lor (Z.shiftl USLP_VERSION_NUMBER 4) (Z.land (Z.shiftr s 12) 15) =? 12 * 16 + s / 4096) &&
  (Z.land (Z.shiftr s 4) 255 =? (s / 16) mod 256) &&
  (Z.land s 15 =? s mod 16).
Lemma scid_sweep : forallb chk_scid (zrange 0 65536) = true.
Proof. vm_compute. reflexivity. Qed.
Lemma scid_facts s : 0 <= s < 65536 ->
  Z.lor (Z.shiftl USLP_VERSION_NUMBER 4) (Z.land (Z.shiftr s 12) 15) = 12 * 16 + s / 4096 /\
  Z.land (Z.shiftr s 4) 255 = (s / 16) mod 256 /\ Z.land s 15 = s mod 16.
Proof.
  intros H. pose proof (sweep _ 0 65536 ltac:(lia) scid_sweep s ltac:(lia)) as P.
  unfold chk_scid in P. split_andb P. apply Z.eqb_eq in P, P0, P1. auto.
Qed.

Definition chk_oct2 (n4 sd v : Z) : bool :=
  Z.lor (Z.lor (Z.shiftl n4 4) (Z.shiftl sd 3)) (Z.land (Z.shiftr v 3) 7) =? n4 * 16 + sd * 8 + v / 8.
Lemma oct2_sweep :
  forallb (fun a => forallb (fun b => forallb (chk_oct2 a b) (zrange 0 64)) (zrange 0 2)) (zrange 0 16) = true.
Proof. vm_compute. reflexivity. Qed.
Lemma oct2_facts n4 sd v : 0 <= n4 < 16 -> 0 <= sd < 2 -> 0 <= v < 64 ->
  Z.lor (Z.lor (Z.shiftl n4 4) (Z.shiftl sd 3)) (Z.land (Z.shiftr v 3) 7) = n4 * 16 + sd * 8 + v / 8.
Proof.
  intros. apply Z.eqb_eq.
  exact (sweep3 chk_oct2 16 2 64 ltac:(lia) ltac:(lia) ltac:(lia) oct2_sweep n4 sd v ltac:(lia) ltac:(lia) ltac:(lia)).
Qed.

Definition chk_oct3 (v m e : Z) : bool :=
  Z.lor (Z.lor (Z.shiftl (Z.land v 7) 5) (Z.shiftl m 1)) e =? (v mod 8) * 32 + m * 2 + e.
Lemma oct3_sweep :
  forallb (fun a => forallb (fun b => forallb (chk_oct3 a b) (zrange 0 2)) (zrange 0 16)) (zrange 0 64) = true.
Proof. vm_compute. reflexivity. Qed.
Lemma oct3_facts v m e : 0 <= v < 64 -> 0 <= m < 16 -> 0 <= e < 2 ->
  Z.lor (Z.lor (Z.shiftl (Z.land v 7) 5) (Z.shiftl m 1)) e = (v mod 8) * 32 + m * 2 + e.
Proof.
  intros. apply Z.eqb_eq.
  exact (sweep3 chk_oct3 64 16 2 ltac:(lia) ltac:(lia) ltac:(lia) oct3_sweep v m e ltac:(lia) ltac:(lia) ltac:(lia)).
Qed.

Definition chk_flen (f : Z) : bool :=
  (Z.land (Z.shiftr f 8) 255 =? f / 256) && (Z.land f 255 =? f mod 256).
Lemma flen_sweep : forallb chk_flen (zrange 0 65536) = true.
Proof. vm_compute. reflexivity. Qed.
Lemma flen_facts f : 0 <= f < 65536 ->
  Z.land (Z.shiftr f 8) 255 = f / 256 /\ Z.land f 255 = f mod 256.
Proof.
  intros H. pose proof (sweep _ 0 65536 ltac:(lia) flen_sweep f ltac:(lia)) as P.
  unfold chk_flen in P. split_andb P. apply Z.eqb_eq in P, P0. auto.
Qed.

(* octet 6: the 2^8 values, as (bypass, command, ocf, count length) with the spare bits 0 *)
Definition chk_oct6 (w : Z) : bool :=
  let b := w / 32 in let p := (w / 16) mod 2 in let o := (w / 8) mod 2 in let n := w mod 8 in
  Z.lor (Z.lor (Z.lor (Z.shiftl b 7) (Z.shiftl p 6)) (Z.shiftl o 3)) n =? b * 128 + p * 64 + o * 8 + n.
Lemma oct6_sweep : forallb chk_oct6 (zrange 0 64) = true.
Proof. vm_compute. reflexivity. Qed.
Lemma oct6_facts b p o n : 0 <= b < 2 -> 0 <= p < 2 -> 0 <= o < 2 -> 0 <= n < 8 ->
  Z.lor (Z.lor (Z.lor (Z.shiftl b 7) (Z.shiftl p 6)) (Z.shiftl o 3)) n = b * 128 + p * 64 + o * 8 + n.
Proof.
  intros Hb Hp Ho Hn.
  pose proof (sweep _ 0 64 ltac:(lia) oct6_sweep (b * 32 + p * 16 + o * 8 + n) ltac:(lia)) as P.
  unfold chk_oct6 in P. apply Z.eqb_eq in P.
  replace ((b * 32 + p * 16 + o * 8 + n) / 32) with b in P by lia.
  replace (((b * 32 + p * 16 + o * 8 + n) / 16) mod 2) with p in P by lia.
  replace (((b * 32 + p * 16 + o * 8 + n) / 8) mod 2) with o in P by lia.
  replace ((b * 32 + p * 16 + o * 8 + n) mod 8) with n in P by lia.
  exact P.
Qed.

(* ---- unpack side, octet space ---- *)
Definition chk_byte (b : Z) : bool :=
  (Z.shiftr (Z.land b 240) 4 =? b / 16) && (Z.land b 15 =? b mod 16) &&
  (Z.shiftr (Z.land b 8) 3 =? (b / 8) mod 2) && (Z.land b 7 =? b mod 8) &&
  (Z.land (Z.shiftr b 5) 7 =? b / 32) && (Z.land (Z.shiftr b 1) 15 =? (b / 2) mod 16) &&
  (Z.land b 1 =? b mod 2) && (Z.land (Z.shiftr b 7) 1 =? b / 128) &&
  (Z.land (Z.shiftr b 6) 1 =? (b / 64) mod 2) && (Z.land (Z.shiftr b 3) 1 =? (b / 8) mod 2) &&
  (Z.land (Z.shiftr b 5) 7 =? b / 32) && (Z.land b 31 =? b mod 32).
Lemma byte_sweep : forallb chk_byte (zrange 0 256) = true.
Proof. vm_compute. reflexivity. Qed.
Lemma byte_facts b : 0 <= b < 256 ->
  Z.shiftr (Z.land b 240) 4 = b / 16 /\ Z.land b 15 = b mod 16 /\
  Z.shiftr (Z.land b 8) 3 = (b / 8) mod 2 /\ Z.land b 7 = b mod 8 /\
  Z.land (Z.shiftr b 5) 7 = b / 32 /\ Z.land (Z.shiftr b 1) 15 = (b / 2) mod 16 /\
  Z.land b 1 = b mod 2 /\ Z.land (Z.shiftr b 7) 1 = b / 128 /\
  Z.land (Z.shiftr b 6) 1 = (b / 64) mod 2 /\ Z.land (Z.shiftr b 3) 1 = (b / 8) mod 2 /\
  Z.land b 31 = b mod 32.
Proof.
  intros H. pose proof (sweep _ 0 256 ltac:(lia) byte_sweep b ltac:(lia)) as P.
  unfold chk_byte in P. split_andb P.
  repeat match goal with H : (_ =? _) = true |- _ => apply Z.eqb_eq in H end.
  repeat split; assumption.
Qed.

Definition chk_pair01 (n0 b1 : Z) : bool :=
  Z.lor (Z.shiftl n0 12) (Z.shiftl b1 4) =? n0 * 4096 + b1 * 16.
Lemma pair01_sweep : forallb (fun a => forallb (chk_pair01 a) (zrange 0 256)) (zrange 0 16) = true.
Proof. vm_compute. reflexivity. Qed.
Lemma pair01_facts n0 b1 : 0 <= n0 < 16 -> 0 <= b1 < 256 ->
  Z.lor (Z.shiftl n0 12) (Z.shiftl b1 4) = n0 * 4096 + b1 * 16.
Proof.
  intros. apply Z.eqb_eq.
  exact (sweep2 chk_pair01 16 256 ltac:(lia) ltac:(lia) pair01_sweep n0 b1 ltac:(lia) ltac:(lia)).
Qed.

Definition chk_vc (a b : Z) : bool := Z.lor (Z.shiftl a 3) b =? a * 8 + b.
Lemma vc_sweep : forallb (fun a => forallb (chk_vc a) (zrange 0 8)) (zrange 0 8) = true.
Proof. vm_compute. reflexivity. Qed.
Lemma vc_facts a b : 0 <= a < 8 -> 0 <= b < 8 -> Z.lor (Z.shiftl a 3) b = a * 8 + b.
Proof.
  intros. apply Z.eqb_eq.
  exact (sweep2 chk_vc 8 8 ltac:(lia) ltac:(lia) vc_sweep a b ltac:(lia) ltac:(lia)).
Qed.

Definition chk_w16 (a b : Z) : bool := Z.lor (Z.shiftl a 8) b =? a * 256 + b.
Lemma w16_sweep : forallb (fun a => forallb (chk_w16 a) (zrange 0 256)) (zrange 0 256) = true.
Proof. vm_compute. reflexivity. Qed.
Lemma w16_facts a b : 0 <= a < 256 -> 0 <= b < 256 -> Z.lor (Z.shiftl a 8) b = a * 256 + b.
Proof.
  intros. apply Z.eqb_eq.
  exact (sweep2 chk_w16 256 256 ltac:(lia) ltac:(lia) w16_sweep a b ltac:(lia) ltac:(lia)).
Qed.

(* ================= generic helpers ================= *)

Lemma ba_append_ok p x : 0 <= x < 256 -> ba_append p x = Ok (p ++ [x]).
Proof. intros H. unfold ba_append, is_byte. destruct (_ && _) eqn:E; [reflexivity|lia]. Qed.
Lemma ba_append_err p x : ~ (0 <= x < 256) -> ba_append p x = Err EValue.
Proof. intros H. unfold ba_append, is_byte. destruct (_ && _) eqn:E; [lia|reflexivity]. Qed.

Lemma pow256_pow2 k : 256 ^ Z.of_nat k = 2 ^ (Z.of_nat k * 8).
Proof. rewrite Z.mul_comm, Z.pow_mul_r by lia. reflexivity. Qed.

(* the code's shift loop is the big-endian encoder, for every width and every integer *)
Lemma vcf_loop_be n v : vcf_loop n v = be_encode n v.
Proof.
  induction n as [|k IH]; [reflexivity|].
  cbn [vcf_loop be_encode]. rewrite IH. f_equal.
  rewrite shiftr_div by lia. change 255 with (2 ^ 8 - 1). rewrite land_ones_mod by lia.
  rewrite pow256_pow2. reflexivity.
Qed.

(* the decode loop accumulates the big-endian value of the next n octets *)
Lemma vcf_unloop_spec l : forall pre rest acc idx,
  wf_bytes l -> len pre = 7 + idx -> 0 <= acc -> acc mod 256 ^ Z.of_nat (length l) = 0 ->
  vcf_unloop (pre ++ l ++ rest) (length l) idx acc = Ok (acc + be_decode l).
Proof.
  induction l as [|b r IH]; intros pre rest acc idx W L A M.
  - cbn [length vcf_unloop be_decode]. f_equal. lia.
  - inversion W as [|? ? Hb Wr]; subst.
    cbn [length vcf_unloop be_decode].
    rewrite py_get_app_r by lia. replace (7 + idx - len pre) with 0 by lia.
    cbn [app]. rewrite py_get_cons_0. cbn [bind].
    replace (pre ++ b :: r ++ rest) with ((pre ++ [b]) ++ r ++ rest)
      by (rewrite <- app_assoc; reflexivity).
    pose proof (pow256_pos (length r)) as Pp. cbn [length] in M. rewrite pow256_S in M.
    assert (E : Z.lor acc (Z.shiftl b (Z.of_nat (length r) * 8)) = acc + b * 256 ^ Z.of_nat (length r)).
    { rewrite shiftl_mul by lia. rewrite <- pow256_pow2.
      apply (lor_disjoint _ _ (Z.of_nat (S (length r)) * 8)); [lia| |].
      - rewrite <- pow256_pow2, pow256_S. exact M.
      - rewrite <- pow256_pow2, pow256_S. nia. }
    rewrite E. rewrite IH.
    + f_equal. lia.
    + assumption.
    + rewrite len_app. unfold len at 2. cbn [length]. lia.
    + nia.
    + rewrite Z_mod_plus_full.
      rewrite Z.rem_mul_r in M by lia.
      pose proof (Z.mod_pos_bound acc (256 ^ Z.of_nat (length r)) Pp).
      pose proof (Z.mod_pos_bound (acc / 256 ^ Z.of_nat (length r)) 256 ltac:(lia)). nia.
Qed.

(* ================= header pack = layout ================= *)

Lemma pack_common_layout b e : base_valid b -> 0 <= e <= 1 ->
  pack_common b e = Ok (base_layout b e).
Proof.
  destruct b as [s sd v m]. unfold base_valid, pack_common, base_layout.
  cbn [scid src_dest vcid map_id]. intros (Hs & Hd & Hv & Hm) He.
  destruct (_ || _) eqn:G; [lia|]. clear G.
  destruct (scid_facts s ltac:(lia)) as (F0 & F1 & F2).
  rewrite F0, F1, F2.
  rewrite (oct2_facts (s mod 16) sd v) by lia.
  rewrite (oct3_facts v m e) by lia.
  rewrite ba_append_ok by lia. cbn [bind].
  rewrite ba_append_ok by lia. cbn [bind].
  rewrite ba_append_ok by lia. cbn [bind].
  rewrite ba_append_ok by lia. cbn [bind app]. reflexivity.
Qed.

Theorem thdr_pack_layout b : base_valid b -> thdr_pack b = Ok (thdr_layout b).
Proof. intros H. apply pack_common_layout; [assumption|lia]. Qed.

Lemma base_layout_length b e : length (base_layout b e) = 4%nat.
Proof. reflexivity. Qed.

Lemma vcf_bytes_ok p n c : vcf_valid n (Some c) ->
  (if n =? 1 then ba_append p c
   else if n =? 2 then do w <- struct_pack 2 c; Ok (p ++ w)
   else if n =? 4 then do w <- struct_pack 4 c; Ok (p ++ w)
   else Ok (p ++ vcf_loop (Z.to_nat n) c)) = Ok (p ++ be_encode (Z.to_nat n) c).
Proof.
  intros (Hn & Hc).
  destruct (n =? 1) eqn:E1.
  { assert (n = 1) by lia. subst n. rewrite ba_append_ok by lia.
    change (Z.to_nat 1) with 1%nat. rewrite be_encode_1. do 3 f_equal. symmetry. apply Z.mod_small. lia. }
  destruct (n =? 2) eqn:E2.
  { assert (n = 2) by lia. subst n. rewrite struct_pack_ok by (cbn; lia). reflexivity. }
  destruct (n =? 4) eqn:E4.
  { assert (n = 4) by lia. subst n. rewrite struct_pack_ok by (cbn; lia). reflexivity. }
  rewrite vcf_loop_be. reflexivity.
Qed.

Theorem phdr_pack_layout h : phdr_valid h -> phdr_pack h = Ok (phdr_layout h).
Proof.
  destruct h as [b fl by_ pr oc n c]. unfold phdr_valid, phdr_pack, phdr_layout.
  cbn [pbase frame_len bypass prot ocf_flag vcf_len vcf_count].
  intros (Hb & Hf & Hy & Hp & Ho & Hv).
  rewrite pack_common_layout by (assumption || lia). cbn [bind].
  destruct (flen_facts fl ltac:(lia)) as (G0 & G1). rewrite G0, G1.
  assert (Hn : 0 <= n <= 7) by (destruct Hv; assumption).
  rewrite (oct6_facts by_ pr oc n) by lia.
  rewrite ba_append_ok by lia. cbn [bind].
  rewrite ba_append_ok by lia. cbn [bind].
  rewrite ba_append_ok by lia. cbn [bind].
  unfold base_layout. cbn [app].
  destruct c as [c|].
  - rewrite vcf_bytes_ok by assumption. cbn [count_of app]. reflexivity.
  - destruct Hv as (_ & ->). reflexivity.
Qed.

Lemma phdr_layout_length h : 0 <= vcf_len h ->
  len (phdr_layout h) = phdr_len h.
Proof.
  intros H. unfold phdr_layout, phdr_len, len.
  rewrite !app_length, be_encode_length. cbn [length base_layout]. lia.
Qed.

Theorem phdr_len_is_pack_length h : phdr_valid h ->
  exists p, phdr_pack h = Ok p /\ len p = phdr_len h.
Proof.
  intros H. exists (phdr_layout h). split; [apply phdr_pack_layout; assumption|].
  apply phdr_layout_length. destruct H as (_ & _ & _ & _ & _ & (? & _)). lia.
Qed.

Theorem thdr_len_is_pack_length b : base_valid b ->
  exists p, thdr_pack b = Ok p /\ len p = thdr_len b.
Proof. intros H. exists (thdr_layout b). split; [apply thdr_pack_layout; assumption|reflexivity]. Qed.

(* ================= out-of-range identifiers are refused ================= *)

Lemma pack_common_ids_refused b e : ~ ids_in_range b -> pack_common b e = Err EValue.
Proof.
  destruct b as [s sd v m]. unfold ids_in_range, pack_common. cbn [scid src_dest vcid map_id].
  intros H. destruct (_ || _) eqn:G; [reflexivity|lia].
Qed.

Theorem uslp_ids_refused b fl by_ pr oc n c : ~ ids_in_range b ->
  thdr_pack b = Err EValue /\
  phdr_pack {| pbase := b; frame_len := fl; bypass := by_; prot := pr; ocf_flag := oc;
               vcf_len := n; vcf_count := c |} = Err EValue.
Proof.
  intros H. split; [apply pack_common_ids_refused; assumption|].
  unfold phdr_pack. cbn [pbase]. rewrite pack_common_ids_refused by assumption. reflexivity.
Qed.

(* pack succeeds only on identifiers in range (for every integer) *)
Theorem uslp_pack_ok_ids b e p : pack_common b e = Ok p -> ids_in_range b.
Proof.
  intros H. destruct b as [s sd v m]. unfold ids_in_range, pack_common in *.
  cbn [scid src_dest vcid map_id] in *. destruct (_ || _) eqn:G; [discriminate|lia].
Qed.

(* ================= header unpack, octet space ================= *)

Definition base_of_octets (o0 o1 o2 o3 : Z) : hbase :=
  {| scid := (o0 mod 16) * 4096 + o1 * 16 + o2 / 16; src_dest := (o2 / 8) mod 2;
     vcid := (o2 mod 8) * 8 + o3 / 32; map_id := (o3 / 2) mod 16 |}.

Ltac inv_wf :=
  repeat match goal with
  | H : wf_bytes (_ :: _) |- _ => unfold wf_bytes in H
  | H : Forall _ (_ :: _) |- _ => inversion H; clear H; subst
  end.

Lemma unpack_base_octets o0 o1 o2 o3 rest t uv : wf_bytes [o0; o1; o2; o3] ->
  unpack_base (o0 :: o1 :: o2 :: o3 :: rest) t uv =
  if negb (o0 / 16 =? uv) then Err EVersionMissmatch
  else if negb (o3 mod 2 =? t) then Err ETypeMissmatch
  else Ok (base_of_octets o0 o1 o2 o3).
Proof.
  intros W. inv_wf. unfold unpack_base.
  assert (L : len (o0 :: o1 :: o2 :: o3 :: rest) <? 4 = false).
  { unfold len. cbn [length]. lia. }
  rewrite L. eval_get. cbn [bind].
  destruct (byte_facts o0 ltac:(lia)) as (A0 & A1 & _).
  destruct (byte_facts o2 ltac:(lia)) as (C0 & _ & C2 & C3 & _).
  destruct (byte_facts o3 ltac:(lia)) as (_ & _ & _ & _ & D4 & D5 & D6 & _).
  rewrite A0, A1, C0, C2, C3, D4, D5, D6.
  destruct (negb (o0 / 16 =? uv)); [reflexivity|].
  destruct (negb (o3 mod 2 =? t)); [reflexivity|].
  rewrite (pair01_facts (o0 mod 16) o1) by lia.
  rewrite (lor_disjoint _ (o2 / 16) 4) by lia.
  rewrite (vc_facts (o2 mod 8) (o3 / 32)) by lia.
  reflexivity.
Qed.

Lemma unpack_base_short raw t uv : len raw < 4 -> unpack_base raw t uv = Err EInvalidLen.
Proof. intros H. unfold unpack_base. destruct (len raw <? 4) eqn:E; [reflexivity|lia]. Qed.

Lemma base_of_octets_valid o0 o1 o2 o3 : wf_bytes [o0; o1; o2; o3] ->
  base_valid (base_of_octets o0 o1 o2 o3).
Proof.
  intros W. inv_wf. unfold base_valid, base_of_octets. cbn [scid src_dest vcid map_id]. lia.
Qed.

Lemma base_layout_of_octets o0 o1 o2 o3 : wf_bytes [o0; o1; o2; o3] -> o0 / 16 = 12 ->
  base_layout (base_of_octets o0 o1 o2 o3) (o3 mod 2) = [o0; o1; o2; o3].
Proof.
  intros W V. inv_wf. unfold base_layout, base_of_octets. cbn [scid src_dest vcid map_id].
  list_eq.
Qed.

Lemma base_of_octets_layout b e : base_valid b -> 0 <= e <= 1 ->
  match base_layout b e with
  | [o0; o1; o2; o3] => base_of_octets o0 o1 o2 o3 = b /\ o0 / 16 = 12 /\ o3 mod 2 = e
  | _ => False
  end.
Proof.
  destruct b as [s sd v m]. unfold base_valid, base_layout, base_of_octets.
  cbn [scid src_dest vcid map_id]. intros H He. split; [f_equal; lia|lia].
Qed.

Lemma base_layout_wf b e : base_valid b -> 0 <= e <= 1 -> wf_bytes (base_layout b e).
Proof.
  destruct b as [s sd v m]. unfold base_valid, base_layout. cbn [scid src_dest vcid map_id].
  intros H He. repeat constructor; lia.
Qed.

(* decode (encode b ++ rest) = b, truncated header *)
Theorem thdr_unpack_pack b rest : base_valid b ->
  thdr_unpack (thdr_layout b ++ rest) USLP_VERSION_NUMBER = Ok b.
Proof.
  intros H. pose proof (base_of_octets_layout b 1 H ltac:(lia)) as E.
  pose proof (base_layout_wf b 1 H ltac:(lia)) as W.
  unfold thdr_unpack, thdr_layout.
  destruct (base_layout b 1) as [|o0 [|o1 [|o2 [|o3 [|]]]]]; try contradiction.
  destruct E as (E & V & T). cbn [app]. rewrite unpack_base_octets by assumption.
  rewrite V, T. cbn. congruence.
Qed.

(* any >= 4 octets with version 1100 and the end-of-header flag set: decodes, and the
   decoded identifiers encode to exactly the first four octets *)
Theorem thdr_pack_unpack d : wf_bytes d -> (4 <= length d)%nat ->
  match thdr_unpack d USLP_VERSION_NUMBER with
  | Ok b => base_valid b /\ thdr_pack b = Ok (firstn 4 d)
  | Err e => e = EVersionMissmatch \/ e = ETypeMissmatch
  end.
Proof.
  intros W L. do 4 (destruct d as [|? d]; [cbn in L; lia|]).
  assert (W4 : wf_bytes [z; z0; z1; z2]).
  { change (wf_bytes (firstn 4 (z :: z0 :: z1 :: z2 :: d))). apply wf_bytes_firstn. assumption. }
  unfold thdr_unpack. rewrite unpack_base_octets by assumption.
  destruct (z / 16 =? USLP_VERSION_NUMBER) eqn:V; cbn [negb]; [|left; reflexivity].
  destruct (z2 mod 2 =? 1) eqn:T; cbn [negb]; [|right; reflexivity].
  split; [apply base_of_octets_valid; assumption|].
  rewrite thdr_pack_layout by (apply base_of_octets_valid; assumption).
  unfold thdr_layout. replace 1 with (z2 mod 2) by lia.
  rewrite base_layout_of_octets; [reflexivity|assumption|unfold USLP_VERSION_NUMBER in V; lia].
Qed.

Definition phdr_of_octets (o0 o1 o2 o3 o4 o5 o6 : Z) (cnt : bytes) : phdr :=
  {| pbase := base_of_octets o0 o1 o2 o3; frame_len := o4 * 256 + o5; bypass := o6 / 128;
     prot := (o6 / 64) mod 2; ocf_flag := (o6 / 8) mod 2; vcf_len := o6 mod 8;
     vcf_count := Some (be_decode cnt) |}.

Lemma phdr_unpack_octets o0 o1 o2 o3 o4 o5 o6 cnt rest uv :
  wf_bytes [o0; o1; o2; o3; o4; o5; o6] -> wf_bytes cnt -> len cnt = o6 mod 8 ->
  phdr_unpack (o0 :: o1 :: o2 :: o3 :: o4 :: o5 :: o6 :: cnt ++ rest) uv =
  if negb (o0 / 16 =? uv) then Err EVersionMissmatch
  else if negb (o3 mod 2 =? 0) then Err ETypeMissmatch
  else Ok (phdr_of_octets o0 o1 o2 o3 o4 o5 o6 cnt).
Proof.
  intros W Wc Lc.
  inv_wf.
  assert (W4 : wf_bytes [o0; o1; o2; o3]) by (repeat constructor; lia).
  unfold phdr_unpack.
  assert (L : len (o0 :: o1 :: o2 :: o3 :: o4 :: o5 :: o6 :: cnt ++ rest) = 7 + len cnt + len rest).
  { unfold len. cbn [length]. rewrite app_length. lia. }
  destruct (len _ <? 7) eqn:L7; [pose proof (len_nonneg cnt); pose proof (len_nonneg rest); lia|].
  rewrite unpack_base_octets by assumption.
  destruct (negb (o0 / 16 =? uv)); [reflexivity|].
  destruct (negb (o3 mod 2 =? 0)); [reflexivity|]. cbn [bind].
  change (py_get (o0 :: o1 :: o2 :: o3 :: o4 :: o5 :: o6 :: cnt ++ rest) 4) with (Ok o4).
  change (py_get (o0 :: o1 :: o2 :: o3 :: o4 :: o5 :: o6 :: cnt ++ rest) 5) with (Ok o5).
  change (py_get (o0 :: o1 :: o2 :: o3 :: o4 :: o5 :: o6 :: cnt ++ rest) 6) with (Ok o6).
  cbn [bind].
  destruct (byte_facts o6 ltac:(lia)) as (_ & _ & _ & B3 & _ & _ & _ & B7 & B8 & B9 & _).
  rewrite B3, B7, B8, B9. rewrite (w16_facts o4 o5) by lia.
  rewrite L. destruct (o6 mod 8 >? 7 + len cnt + len rest - 7) eqn:G;
    [pose proof (len_nonneg rest); lia|]. clear G L7.
  assert (C : (if o6 mod 8 =? 1 then py_get (o0 :: o1 :: o2 :: o3 :: o4 :: o5 :: o6 :: cnt ++ rest) 7
               else if o6 mod 8 =? 2 then struct_unpack 2 (slice (o0 :: o1 :: o2 :: o3 :: o4 :: o5 :: o6 :: cnt ++ rest) 7 9)
               else if o6 mod 8 =? 4 then struct_unpack 4 (slice (o0 :: o1 :: o2 :: o3 :: o4 :: o5 :: o6 :: cnt ++ rest) 7 11)
               else vcf_unloop (o0 :: o1 :: o2 :: o3 :: o4 :: o5 :: o6 :: cnt ++ rest) (Z.to_nat (o6 mod 8)) 0 0)
              = Ok (be_decode cnt)).
  { rewrite <- Lc. clear Lc.
    destruct (len cnt =? 1) eqn:E1.
    { destruct cnt as [|c0 [|]]; unfold len in E1; cbn [length] in E1; try lia.
      cbn [app]. eval_get. cbn. f_equal. lia. }
    destruct (len cnt =? 2) eqn:E2.
    { destruct cnt as [|c0 [|c1 [|]]]; unfold len in E2; cbn [length] in E2; try lia.
      cbn [app].
      change (slice (o0 :: o1 :: o2 :: o3 :: o4 :: o5 :: o6 :: c0 :: c1 :: rest) 7 9) with [c0; c1].
      rewrite struct_unpack_ok by reflexivity. reflexivity. }
    destruct (len cnt =? 4) eqn:E4.
    { destruct cnt as [|c0 [|c1 [|c2 [|c3 [|]]]]]; unfold len in E4; cbn [length] in E4; try lia.
      cbn [app].
      change (slice (o0 :: o1 :: o2 :: o3 :: o4 :: o5 :: o6 :: c0 :: c1 :: c2 :: c3 :: rest) 7 11)
        with [c0; c1; c2; c3].
      rewrite struct_unpack_ok by reflexivity. reflexivity. }
    unfold len. rewrite Nat2Z.id.
    change (o0 :: o1 :: o2 :: o3 :: o4 :: o5 :: o6 :: cnt ++ rest)
      with ([o0; o1; o2; o3; o4; o5; o6] ++ cnt ++ rest).
    rewrite vcf_unloop_spec; [reflexivity|assumption|reflexivity|lia|apply Z.mod_0_l].
    pose proof (pow256_pos (length cnt)). lia. }
  rewrite C. cbn [bind]. reflexivity.
Qed.

Lemma phdr_unpack_short raw uv : len raw < 7 -> phdr_unpack raw uv = Err EInvalidLen.
Proof. intros H. unfold phdr_unpack. destruct (len raw <? 7) eqn:E; [reflexivity|lia]. Qed.

(* the count is cut: refused (after the version / type checks) *)
Lemma phdr_unpack_count_cut o0 o1 o2 o3 o4 o5 o6 tail uv :
  wf_bytes [o0; o1; o2; o3; o4; o5; o6] -> len tail < o6 mod 8 ->
  phdr_unpack (o0 :: o1 :: o2 :: o3 :: o4 :: o5 :: o6 :: tail) uv =
  if negb (o0 / 16 =? uv) then Err EVersionMissmatch
  else if negb (o3 mod 2 =? 0) then Err ETypeMissmatch
  else Err EInvalidLen.
Proof.
  intros W Lt.
  inv_wf.
  assert (W4 : wf_bytes [o0; o1; o2; o3]) by (repeat constructor; lia).
  unfold phdr_unpack.
  assert (L : len (o0 :: o1 :: o2 :: o3 :: o4 :: o5 :: o6 :: tail) = 7 + len tail).
  { unfold len. cbn [length]. lia. }
  destruct (len _ <? 7) eqn:L7; [pose proof (len_nonneg tail); lia|].
  rewrite unpack_base_octets by assumption.
  destruct (negb (o0 / 16 =? uv)); [reflexivity|].
  destruct (negb (o3 mod 2 =? 0)); [reflexivity|]. cbn [bind].
  eval_get. cbn [bind].
  destruct (byte_facts o6 ltac:(lia)) as (_ & _ & _ & B3 & _).
  rewrite B3, L. destruct (o6 mod 8 >? 7 + len tail - 7) eqn:G; [reflexivity|lia].
Qed.

Lemma firstn_skipn_len (l : bytes) n : 0 <= n <= len l -> len (firstn (Z.to_nat n) l) = n.
Proof. unfold len. intros H. rewrite firstn_length. lia. Qed.

(* every case of PrimaryHeader.unpack on >= 7 octets *)
Lemma phdr_unpack_cases o0 o1 o2 o3 o4 o5 o6 tail uv :
  wf_bytes (o0 :: o1 :: o2 :: o3 :: o4 :: o5 :: o6 :: tail) ->
  phdr_unpack (o0 :: o1 :: o2 :: o3 :: o4 :: o5 :: o6 :: tail) uv =
  if negb (o0 / 16 =? uv) then Err EVersionMissmatch
  else if negb (o3 mod 2 =? 0) then Err ETypeMissmatch
  else if len tail <? o6 mod 8 then Err EInvalidLen
  else Ok (phdr_of_octets o0 o1 o2 o3 o4 o5 o6 (firstn (Z.to_nat (o6 mod 8)) tail)).
Proof.
  intros W.
  assert (W7 : wf_bytes [o0; o1; o2; o3; o4; o5; o6]).
  { change (wf_bytes (firstn 7 (o0 :: o1 :: o2 :: o3 :: o4 :: o5 :: o6 :: tail))).
    apply wf_bytes_firstn. assumption. }
  assert (Wt : wf_bytes tail).
  { change (wf_bytes (skipn 7 (o0 :: o1 :: o2 :: o3 :: o4 :: o5 :: o6 :: tail))).
    apply wf_bytes_skipn. assumption. }
  destruct (len tail <? o6 mod 8) eqn:E.
  - rewrite phdr_unpack_count_cut by (assumption || lia).
    destruct (negb _); [reflexivity|]. destruct (negb _); reflexivity.
  - assert (B : 0 <= o6 mod 8) by (apply Z.mod_pos_bound; lia).
    rewrite <- (firstn_skipn (Z.to_nat (o6 mod 8)) tail) at 1.
    apply phdr_unpack_octets; [assumption|apply wf_bytes_firstn; assumption|].
    apply firstn_skipn_len. lia.
Qed.

Lemma seven_octets (d : bytes) : 7 <= len d ->
  exists o0 o1 o2 o3 o4 o5 o6 tail, d = o0 :: o1 :: o2 :: o3 :: o4 :: o5 :: o6 :: tail.
Proof.
  unfold len. intros H. do 7 (destruct d as [|? d]; [cbn [length] in H; lia|]). repeat eexists.
Qed.
Lemma four_octets (d : bytes) : 4 <= len d ->
  exists o0 o1 o2 o3 tail, d = o0 :: o1 :: o2 :: o3 :: tail.
Proof.
  unfold len. intros H. do 4 (destruct d as [|? d]; [cbn [length] in H; lia|]). repeat eexists.
Qed.

(* ================= round trips ================= *)

Lemma phdr_layout_octets h : phdr_valid h ->
  exists o0 o1 o2 o3 o4 o5 o6,
    phdr_layout h = o0 :: o1 :: o2 :: o3 :: o4 :: o5 :: o6 ::
                    be_encode (Z.to_nat (vcf_len h)) (count_of (vcf_count h)) /\
    wf_bytes [o0; o1; o2; o3; o4; o5; o6] /\ o0 / 16 = 12 /\ o3 mod 2 = 0 /\
    o6 mod 8 = vcf_len h /\
    phdr_of_octets o0 o1 o2 o3 o4 o5 o6
      (be_encode (Z.to_nat (vcf_len h)) (count_of (vcf_count h))) = phdr_norm h.
Proof.
  destruct h as [[s sd v m] fl by_ pr oc n c]. unfold phdr_valid, base_valid, phdr_layout, base_layout.
  cbn [pbase frame_len bypass prot ocf_flag vcf_len vcf_count scid src_dest vcid map_id].
  intros ((Hs & Hd & Hv & Hm) & Hf & Hy & Hp & Ho & (Hn & Hc)).
  do 7 eexists. cbn [app]. split; [reflexivity|].
  split; [repeat constructor; lia|]. split; [lia|]. split; [lia|]. split; [lia|].
  unfold phdr_of_octets, phdr_norm, base_of_octets.
  cbn [pbase frame_len bypass prot ocf_flag vcf_len vcf_count scid src_dest vcid map_id].
  f_equal; try lia.
  - f_equal; lia.
  - f_equal. apply be_decode_encode. rewrite Z2Nat.id by lia.
    destruct c as [c|]; cbn [count_of]; [lia|]. subst n. cbn. lia.
Qed.

(* decode (encode h ++ rest) = h (the count of a zero-length field decodes as 0) *)
Theorem phdr_unpack_pack h rest : phdr_valid h ->
  phdr_unpack (phdr_layout h ++ rest) USLP_VERSION_NUMBER = Ok (phdr_norm h).
Proof.
  intros H. destruct (phdr_layout_octets h H) as (o0 & o1 & o2 & o3 & o4 & o5 & o6 & E & W & V & T & N & P).
  rewrite E. cbn [app].
  rewrite phdr_unpack_octets; [|assumption|apply be_encode_wf|].
  - rewrite V, T. cbn. rewrite P. reflexivity.
  - unfold len. rewrite be_encode_length, N. apply Z2Nat.id.
    destruct H as (_ & _ & _ & _ & _ & (? & _)). lia.
Qed.

Lemma phdr_norm_valid h : phdr_valid h -> phdr_valid (phdr_norm h).
Proof.
  unfold phdr_valid, phdr_norm, vcf_valid. destruct h as [b fl by_ pr oc n c].
  cbn [pbase frame_len bypass prot ocf_flag vcf_len vcf_count].
  intros (Hb & Hf & Hy & Hp & Ho & (Hn & Hc)). repeat split; try assumption; try lia.
  all: destruct c as [c|]; cbn [count_of]; try lia.
  all: try (unfold base_valid in Hb; lia).
  all: pose proof (Z.pow_pos_nonneg 256 n ltac:(lia) ltac:(lia)); lia.
Qed.

Lemma phdr_norm_layout h : phdr_layout (phdr_norm h) = phdr_layout h.
Proof. reflexivity. Qed.

(* encode (decode (encode h)) = encode h *)
Theorem phdr_pack_unpack_pack h : phdr_valid h ->
  exists h', phdr_unpack (phdr_layout h) USLP_VERSION_NUMBER = Ok h' /\ phdr_pack h' = phdr_pack h.
Proof.
  intros H. exists (phdr_norm h). split.
  - rewrite <- (app_nil_r (phdr_layout h)) at 1. apply phdr_unpack_pack. assumption.
  - rewrite !phdr_pack_layout by (try apply phdr_norm_valid; assumption). reflexivity.
Qed.

(* any octets: what decodes is valid, and re-encoding reproduces the octets read, with
   the two reserved spare bits of octet 6 (which no field carries) cleared *)
Theorem phdr_pack_unpack o0 o1 o2 o3 o4 o5 o6 tail h :
  wf_bytes (o0 :: o1 :: o2 :: o3 :: o4 :: o5 :: o6 :: tail) ->
  phdr_unpack (o0 :: o1 :: o2 :: o3 :: o4 :: o5 :: o6 :: tail) USLP_VERSION_NUMBER = Ok h ->
  phdr_valid h /\
  phdr_pack h = Ok (o0 :: o1 :: o2 :: o3 :: o4 :: o5 :: (o6 - ((o6 / 16) mod 4) * 16) ::
                    firstn (Z.to_nat (vcf_len h)) tail).
Proof.
  intros W U. rewrite phdr_unpack_cases in U by assumption.
  destruct (o0 / 16 =? USLP_VERSION_NUMBER) eqn:V; cbn [negb] in U; [|discriminate].
  destruct (o3 mod 2 =? 0) eqn:T; cbn [negb] in U; [|discriminate].
  destruct (len tail <? o6 mod 8) eqn:Lt; [discriminate|].
  injection U as <-.
  assert (Wt : wf_bytes (firstn (Z.to_nat (o6 mod 8)) tail)).
  { apply wf_bytes_firstn.
    change (wf_bytes (skipn 7 (o0 :: o1 :: o2 :: o3 :: o4 :: o5 :: o6 :: tail))).
    apply wf_bytes_skipn. assumption. }
  assert (Ln : length (firstn (Z.to_nat (o6 mod 8)) tail) = Z.to_nat (o6 mod 8)).
  { rewrite firstn_length. unfold len in Lt. lia. }
  pose proof (be_decode_range _ Wt) as R. rewrite Ln in R.
  unfold wf_bytes in W.
  repeat match goal with H : Forall _ (_ :: _) |- _ => inversion H; clear H; subst end.
  unfold USLP_VERSION_NUMBER in V.
  assert (Hv : phdr_valid (phdr_of_octets o0 o1 o2 o3 o4 o5 o6 (firstn (Z.to_nat (o6 mod 8)) tail))).
  { unfold phdr_valid, phdr_of_octets, base_valid, base_of_octets, vcf_valid.
    cbn [pbase frame_len bypass prot ocf_flag vcf_len vcf_count scid src_dest vcid map_id].
    rewrite Z2Nat.id in R by lia. repeat split; lia. }
  split; [exact Hv|]. rewrite phdr_pack_layout by exact Hv.
  unfold phdr_layout, phdr_of_octets, base_layout, base_of_octets.
  cbn [pbase frame_len bypass prot ocf_flag vcf_len vcf_count scid src_dest vcid map_id count_of app].
  rewrite <- Ln at 1. rewrite be_encode_decode by assumption.
  f_equal. list_eq.
Qed.

(* ================= determine_header_type ================= *)

Theorem determine_header_type_spec o0 o1 o2 o3 rest : 0 <= o3 < 256 ->
  determine_header_type (o0 :: o1 :: o2 :: o3 :: rest) = Ok (o3 mod 2).
Proof.
  intros H. unfold determine_header_type.
  assert (L : len (o0 :: o1 :: o2 :: o3 :: rest) <? 4 = false) by (unfold len; cbn [length]; lia).
  rewrite L. eval_get. cbn [bind].
  destruct (byte_facts o3 H) as (_ & _ & _ & _ & _ & _ & D6 & _). rewrite D6.
  unfold HT_TRUNCATED, HT_NON_TRUNCATED.
  assert (o3 mod 2 = 0 \/ o3 mod 2 = 1) as [E|E] by lia; rewrite E; reflexivity.
Qed.

Theorem determine_header_type_short d : len d < 4 -> determine_header_type d = Err EValue.
Proof. intros H. unfold determine_header_type. destruct (len d <? 4) eqn:E; [reflexivity|lia]. Qed.

(* ================= cross-cutting: C10 (total), C09 (no over-read) ================= *)

Theorem determine_header_type_total d : wf_bytes d -> ok_or_documented (determine_header_type d).
Proof.
  intros W. destruct (Z_lt_le_dec (len d) 4) as [S|L].
  - rewrite determine_header_type_short by assumption. reflexivity.
  - destruct (four_octets d L) as (o0 & o1 & o2 & o3 & t & ->).
    rewrite determine_header_type_spec; [exact I|].
    unfold wf_bytes in W. repeat match goal with H : Forall _ (_ :: _) |- _ => inversion H; clear H; subst end.
    assumption.
Qed.

Lemma wf4 o0 o1 o2 o3 t : wf_bytes (o0 :: o1 :: o2 :: o3 :: t) -> wf_bytes [o0; o1; o2; o3].
Proof.
  intros W. change (wf_bytes (firstn 4 (o0 :: o1 :: o2 :: o3 :: t))). apply wf_bytes_firstn. assumption.
Qed.

Theorem thdr_unpack_total d uv : wf_bytes d -> ok_or_documented (thdr_unpack d uv).
Proof.
  intros W. unfold thdr_unpack. destruct (Z_lt_le_dec (len d) 4) as [S|L].
  - rewrite unpack_base_short by assumption. reflexivity.
  - destruct (four_octets d L) as (o0 & o1 & o2 & o3 & t & ->).
    rewrite unpack_base_octets by (eapply wf4; eassumption).
    destruct (negb _); [reflexivity|]. destruct (negb _); [reflexivity|exact I].
Qed.

Theorem phdr_unpack_total d uv : wf_bytes d -> ok_or_documented (phdr_unpack d uv).
Proof.
  intros W. destruct (Z_lt_le_dec (len d) 7) as [S|L].
  - rewrite phdr_unpack_short by assumption. reflexivity.
  - destruct (seven_octets d L) as (o0 & o1 & o2 & o3 & o4 & o5 & o6 & t & ->).
    rewrite phdr_unpack_cases by assumption.
    destruct (negb _); [reflexivity|]. destruct (negb _); [reflexivity|].
    destruct (_ <? _); [reflexivity|exact I].
Qed.

(* every strict prefix of a packed header is refused with UslpInvalidRawPacketOrFrameLen *)
Theorem thdr_prefix_rejected b n : base_valid b -> (n < 4)%nat ->
  thdr_unpack (firstn n (thdr_layout b)) USLP_VERSION_NUMBER = Err EInvalidLen.
Proof.
  intros H Hn. apply unpack_base_short. unfold len. rewrite firstn_length. cbn [thdr_layout base_layout length]. lia.
Qed.

Theorem phdr_prefix_rejected h n : phdr_valid h -> (n < length (phdr_layout h))%nat ->
  phdr_unpack (firstn n (phdr_layout h)) USLP_VERSION_NUMBER = Err EInvalidLen.
Proof.
  intros H Hn.
  destruct (phdr_layout_octets h H) as (o0 & o1 & o2 & o3 & o4 & o5 & o6 & E & W & V & T & N & P).
  rewrite E in *. clear E.
  destruct (Nat.lt_ge_cases n 7) as [S|L].
  - apply phdr_unpack_short. unfold len. rewrite firstn_length. lia.
  - do 7 (destruct n as [|n]; [lia|]). cbn [firstn].
    rewrite phdr_unpack_count_cut.
    + rewrite V, T. reflexivity.
    + assumption.
    + cbn [length] in Hn. rewrite be_encode_length in Hn.
      unfold len. rewrite firstn_length, be_encode_length. rewrite N.
      destruct H as (_ & _ & _ & _ & _ & (? & _)). lia.
Qed.

(* no over-read: only the first 7+n octets matter *)
Theorem phdr_no_overread d uv h : wf_bytes d -> phdr_unpack d uv = Ok h ->
  phdr_unpack (firstn (Z.to_nat (phdr_len h)) d) uv = Ok h /\ phdr_len h <= len d.
Proof.
  intros W U. destruct (Z_lt_le_dec (len d) 7) as [S|L].
  { rewrite phdr_unpack_short in U by assumption. discriminate. }
  destruct (seven_octets d L) as (o0 & o1 & o2 & o3 & o4 & o5 & o6 & t & ->).
  pose proof U as U0. rewrite phdr_unpack_cases in U by assumption.
  destruct (negb (o0 / 16 =? uv)) eqn:V; [discriminate|].
  destruct (negb (o3 mod 2 =? 0)) eqn:T; [discriminate|].
  destruct (len t <? o6 mod 8) eqn:Lt; [discriminate|].
  injection U as <-. unfold phdr_len, phdr_of_octets. cbn [vcf_len].
  assert (B : 0 <= o6 mod 8 < 8) by (apply Z.mod_pos_bound; lia).
  split.
  - replace (Z.to_nat (7 + o6 mod 8)) with (7 + Z.to_nat (o6 mod 8))%nat by lia.
    cbn [firstn Nat.add].
    rewrite phdr_unpack_cases.
    + rewrite V, T.
      assert (len (firstn (Z.to_nat (o6 mod 8)) t) <? o6 mod 8 = false) as ->.
      { rewrite firstn_skipn_len by lia. lia. }
      rewrite firstn_firstn, Nat.min_id. reflexivity.
    + change (wf_bytes (firstn (7 + Z.to_nat (o6 mod 8)) (o0 :: o1 :: o2 :: o3 :: o4 :: o5 :: o6 :: t))).
      apply wf_bytes_firstn. assumption.
  - unfold len in *. cbn [length]. lia.
Qed.

Theorem thdr_no_overread d uv b : wf_bytes d -> thdr_unpack d uv = Ok b ->
  thdr_unpack (firstn 4 d) uv = Ok b /\ thdr_len b <= len d.
Proof.
  intros W U. unfold thdr_unpack in *. destruct (Z_lt_le_dec (len d) 4) as [S|L].
  { rewrite unpack_base_short in U by assumption. discriminate. }
  destruct (four_octets d L) as (o0 & o1 & o2 & o3 & t & ->).
  cbn [firstn]. rewrite unpack_base_octets in * by (eapply wf4; eassumption).
  split; [exact U|]. unfold thdr_len, len. cbn [length]. lia.
Qed.

Theorem phdr_suffix_irrelevant h s : phdr_valid h ->
  phdr_unpack (phdr_layout h ++ s) USLP_VERSION_NUMBER = phdr_unpack (phdr_layout h) USLP_VERSION_NUMBER.
Proof.
  intros H. rewrite phdr_unpack_pack by assumption.
  rewrite <- (app_nil_r (phdr_layout h)) at 1. rewrite phdr_unpack_pack by assumption. reflexivity.
Qed.

Theorem thdr_suffix_irrelevant b s : base_valid b ->
  thdr_unpack (thdr_layout b ++ s) USLP_VERSION_NUMBER = thdr_unpack (thdr_layout b) USLP_VERSION_NUMBER.
Proof.
  intros H. rewrite thdr_unpack_pack by assumption.
  rewrite <- (app_nil_r (thdr_layout b)) at 1. rewrite thdr_unpack_pack by assumption. reflexivity.
Qed.

(* a truncated header is never accepted as a primary header and vice versa *)
Theorem hdr_type_mismatch b h rest : base_valid b -> phdr_valid h ->
  phdr_unpack (thdr_layout b ++ rest) USLP_VERSION_NUMBER = Err ETypeMissmatch \/
  phdr_unpack (thdr_layout b ++ rest) USLP_VERSION_NUMBER = Err EInvalidLen.
Proof.
  intros Hb _. destruct (Z_lt_le_dec (len (thdr_layout b ++ rest)) 7) as [S|L].
  - right. apply phdr_unpack_short. assumption.
  - left. pose proof (base_of_octets_layout b 1 Hb ltac:(lia)) as E.
    pose proof (base_layout_wf b 1 Hb ltac:(lia)) as W.
    unfold thdr_layout in *.
    destruct (base_layout b 1) as [|o0 [|o1 [|o2 [|o3 [|]]]]]; try contradiction.
    destruct E as (E & V & T). cbn [app] in *.
    unfold phdr_unpack. destruct (len _ <? 7) eqn:L7; [lia|].
    rewrite unpack_base_octets by assumption. rewrite V, T. reflexivity.
Qed.
