(* C10, second (structural) totality argument: no decoder ever returns one of the three
   constructor-side error classes OverflowError / InvalidVerifParams / FileNotFoundError.
   `nce r` (Proofs/StrictDoc.v) is proved by walking every syntactic path of the model function
   (no path condition is needed).  Together with the `*_total` theorems this gives
   `ok_or_strict`: every error of a decoder lies in the positive list decoder_documented. *)
From Coq Require Import ZArith List Bool Lia.
From SP Require Import Base.Result Base.Bytes Base.Utf8 Proofs.StrictDoc
  Model.SpacePacket Model.PusTc Model.PusTm Model.Util Model.PduHeader Model.FileDirective Model.Lv Model.Tlv
  Model.MsgToUser Model.UslpHeader Model.UslpFrame Model.Cds Model.ReqId Model.Fields Model.Srv1
  Model.Eof Model.Ack Model.Prompt Model.KeepAlive Model.Finished Model.Metadata Model.Nak Model.Factory
  Model.Parser.
From SP Require Model.FileData.
Import ListNotations.
Open Scope Z_scope.

Ltac nce_t := intros; nce_auto.
Lemma nce_sph_unpack d : nce (sph_unpack d). Proof. nce_t. Qed.
Global Hint Resolve nce_sph_unpack : nce.
Lemma nce_apid_from_raw d : nce (get_apid_from_raw_space_packet d). Proof. nce_t. Qed.
Global Hint Resolve nce_apid_from_raw : nce.
Lemma nce_tcsec_unpack d : nce (tcsec_unpack d). Proof. nce_t. Qed.
Global Hint Resolve nce_tcsec_unpack : nce.
Lemma nce_tc_unpack d : nce (tc_unpack d). Proof. nce_t. Qed.
Global Hint Resolve nce_tc_unpack : nce.
Lemma nce_tmsec_unpack d ts : nce (tmsec_unpack d ts). Proof. nce_t. Qed.
Global Hint Resolve nce_tmsec_unpack : nce.
Lemma nce_tm_unpack d ts : nce (tm_unpack d ts). Proof. nce_t. Qed.
Global Hint Resolve nce_tm_unpack : nce.
Lemma nce_tm_service_from_bytes d : nce (tm_service_from_bytes d). Proof. nce_t. Qed.
Global Hint Resolve nce_tm_service_from_bytes : nce.
Lemma nce_ubf_from_bytes d : nce (ubf_from_bytes d). Proof. nce_t. Qed.
Global Hint Resolve nce_ubf_from_bytes : nce.
Lemma nce_u8_from_bytes d : nce (Util.u8_from_bytes d). Proof. nce_t. Qed.
Global Hint Resolve nce_u8_from_bytes : nce.
Lemma nce_u16_from_bytes d : nce (u16_from_bytes d). Proof. nce_t. Qed.
Global Hint Resolve nce_u16_from_bytes : nce.
Lemma nce_u32_from_bytes d : nce (u32_from_bytes d). Proof. nce_t. Qed.
Global Hint Resolve nce_u32_from_bytes : nce.
Lemma nce_u64_from_bytes d : nce (u64_from_bytes d). Proof. nce_t. Qed.
Global Hint Resolve nce_u64_from_bytes : nce.
Lemma nce_gen_from_bytes w d : nce (gen_from_bytes w d). Proof. nce_t. Qed.
Global Hint Resolve nce_gen_from_bytes : nce.
Lemma nce_hdr_unpack d : nce (hdr_unpack d). Proof. nce_t. Qed.
Global Hint Resolve nce_hdr_unpack : nce.
Lemma nce_header_len_from_raw d : nce (header_len_from_raw d). Proof. nce_t. Qed.
Global Hint Resolve nce_header_len_from_raw : nce.
Lemma nce_hdr_verify h d : nce (hdr_verify_length_and_checksum h d). Proof. nce_t. Qed.
Global Hint Resolve nce_hdr_verify : nce.
Lemma nce_fdir_unpack d : nce (fdir_unpack d). Proof. nce_t. Qed.
Global Hint Resolve nce_fdir_unpack : nce.
Lemma nce_fd_unpack d : nce (FileData.fd_unpack d). Proof. nce_t. Qed.
Global Hint Resolve nce_fd_unpack : nce.
Lemma nce_lv_unpack d : nce (lv_unpack d). Proof. nce_t. Qed.
Global Hint Resolve nce_lv_unpack : nce.
Lemma nce_tlv_unpack d : nce (tlv_unpack d). Proof. nce_t. Qed.
Global Hint Resolve nce_tlv_unpack : nce.
Lemma nce_wrap_unpack c d : nce (wrap_unpack c d). Proof. nce_t. Qed.
Global Hint Resolve nce_wrap_unpack : nce.
Lemma nce_wrap_from_tlv c x : nce (wrap_from_tlv c x). Proof. nce_t. Qed.
Global Hint Resolve nce_wrap_from_tlv : nce.
Lemma nce_fault_unpack d : nce (fault_unpack d). Proof. nce_t. Qed.
Global Hint Resolve nce_fault_unpack : nce.
Lemma nce_fault_from_tlv x : nce (fault_from_tlv x). Proof. nce_t. Qed.
Global Hint Resolve nce_fault_from_tlv : nce.
Lemma nce_common_unpacker d : nce (common_unpacker d). Proof. nce_t. Qed.
Global Hint Resolve nce_common_unpacker : nce.
Lemma nce_fsreq_from_tlv x : nce (fsreq_from_tlv x). Proof. nce_t. Qed.
Global Hint Resolve nce_fsreq_from_tlv : nce.
Lemma nce_fsreq_unpack d : nce (fsreq_unpack d). Proof. nce_t. Qed.
Global Hint Resolve nce_fsreq_unpack : nce.
Lemma nce_fsresp_from_tlv x : nce (fsresp_from_tlv x). Proof. nce_t. Qed.
Global Hint Resolve nce_fsresp_from_tlv : nce.
Lemma nce_fsresp_unpack d : nce (fsresp_unpack d). Proof. nce_t. Qed.
Global Hint Resolve nce_fsresp_unpack : nce.
Lemma nce_eof_unpack d : nce (eof_unpack d). Proof. nce_t. Qed.
Global Hint Resolve nce_eof_unpack : nce.
Lemma nce_ack_unpack d : nce (ack_unpack d). Proof. nce_t. Qed.
Global Hint Resolve nce_ack_unpack : nce.
Lemma nce_prompt_unpack d : nce (prompt_unpack d). Proof. nce_t. Qed.
Global Hint Resolve nce_prompt_unpack : nce.
Lemma nce_ka_unpack d : nce (ka_unpack d). Proof. nce_t. Qed.
Global Hint Resolve nce_ka_unpack : nce.
Lemma nce_fin_tlv_loop fuel might rest : forall idx acc fl, nce (fin_tlv_loop fuel might rest idx acc fl).
Proof. induction fuel as [|k IH]; intros; cbn [fin_tlv_loop]; [exact I|]. repeat first [apply IH | nce_step]. Qed.
Global Hint Resolve nce_fin_tlv_loop : nce.
Lemma nce_fin_unpack d : nce (fin_unpack d). Proof. nce_t. Qed.
Global Hint Resolve nce_fin_unpack : nce.
Lemma nce_md_opt_loop fuel raw : forall idx acc, nce (md_opt_loop fuel raw idx acc).
Proof. induction fuel as [|k IH]; intros; cbn [md_opt_loop]; [exact I|]. repeat first [apply IH | nce_step]. Qed.
Global Hint Resolve nce_md_opt_loop : nce.
Lemma nce_md_unpack d : nce (md_unpack d). Proof. nce_t. Qed.
Global Hint Resolve nce_md_unpack : nce.
Lemma nce_nak_unpack_segs fuel data : forall idx stop n acc, nce (nak_unpack_segs fuel data idx stop n acc).
Proof. induction fuel as [|k IH]; intros; cbn [nak_unpack_segs]; [exact I|]. repeat first [apply IH | nce_step]. Qed.
Global Hint Resolve nce_nak_unpack_segs : nce.
Lemma nce_nak_unpack d : nce (nak_unpack d). Proof. nce_t. Qed.
Global Hint Resolve nce_nak_unpack : nce.
Lemma nce_fac_pdu_type d : nce (fac_pdu_type d). Proof. nce_t. Qed.
Global Hint Resolve nce_fac_pdu_type : nce.
Lemma nce_fac_is_file_directive d : nce (fac_is_file_directive d). Proof. nce_t. Qed.
Global Hint Resolve nce_fac_is_file_directive : nce.
Lemma nce_fac_pdu_directive_type d : nce (fac_pdu_directive_type d). Proof. nce_t. Qed.
Global Hint Resolve nce_fac_pdu_directive_type : nce.
Lemma nce_fac_from_raw d : nce (fac_from_raw d). Proof. nce_t. Qed.
Global Hint Resolve nce_fac_from_raw : nce.
Lemma nce_fac_from_raw_to_holder d : nce (fac_from_raw_to_holder d). Proof. nce_t. Qed.
Global Hint Resolve nce_fac_from_raw_to_holder : nce.
Lemma nce_reqid_unpack d : nce (reqid_unpack d). Proof. nce_t. Qed.
Global Hint Resolve nce_reqid_unpack : nce.
Lemma nce_pfe_unpack d pfc : nce (pfe_unpack d pfc). Proof. nce_t. Qed.
Global Hint Resolve nce_pfe_unpack : nce.
Lemma nce_fn_unpack d n k : nce (fn_unpack d n k). Proof. nce_t. Qed.
Global Hint Resolve nce_fn_unpack : nce.
Lemma nce_cds_unpack d : nce (cds_unpack d). Proof. nce_t. Qed.
Global Hint Resolve nce_cds_unpack : nce.
Lemma nce_cds_unpack_from_raw d : nce (cds_unpack_from_raw d). Proof. nce_t. Qed.
Global Hint Resolve nce_cds_unpack_from_raw : nce.
Lemma nce_determine_header_type d : nce (determine_header_type d). Proof. nce_t. Qed.
Global Hint Resolve nce_determine_header_type : nce.
Lemma nce_thdr_unpack d uv : nce (thdr_unpack d uv). Proof. nce_t. Qed.
Global Hint Resolve nce_thdr_unpack : nce.
Lemma nce_vcf_unloop raw n : forall idx acc, nce (vcf_unloop raw n idx acc).
Proof. induction n as [|k IH]; intros; cbn [vcf_unloop]; [exact I|]. repeat first [apply IH | nce_step]. Qed.
Global Hint Resolve nce_vcf_unloop : nce.
Lemma nce_phdr_unpack d uv : nce (phdr_unpack d uv). Proof. nce_t. Qed.
Global Hint Resolve nce_phdr_unpack : nce.
Lemma nce_tfdf_unpack raw tr e ft : nce (tfdf_unpack raw tr e ft). Proof. nce_t. Qed.
Global Hint Resolve nce_tfdf_unpack : nce.
Lemma nce_frame_unpack raw ft p : nce (frame_unpack raw ft p). Proof. nce_t. Qed.
Global Hint Resolve nce_frame_unpack : nce.
Lemma nce_decode_reserved d : nce (decode_reserved d). Proof. nce_t. Qed.
Global Hint Resolve nce_decode_reserved : nce.
Lemma nce_get_originating_transaction_id r : nce (get_originating_transaction_id r). Proof. nce_t. Qed.
Global Hint Resolve nce_get_originating_transaction_id : nce.
Lemma nce_get_proxy_put_request_params r : nce (get_proxy_put_request_params r). Proof. nce_t. Qed.
Global Hint Resolve nce_get_proxy_put_request_params : nce.
Lemma nce_get_proxy_put_response_params r : nce (get_proxy_put_response_params r). Proof. nce_t. Qed.
Global Hint Resolve nce_get_proxy_put_response_params : nce.
Lemma nce_get_proxy_closure_requested r : nce (get_proxy_closure_requested r). Proof. nce_t. Qed.
Global Hint Resolve nce_get_proxy_closure_requested : nce.
Lemma nce_get_proxy_transmission_mode r : nce (get_proxy_transmission_mode r). Proof. nce_t. Qed.
Global Hint Resolve nce_get_proxy_transmission_mode : nce.
Lemma nce_get_dir_listing_request_params r : nce (get_dir_listing_request_params r). Proof. nce_t. Qed.
Global Hint Resolve nce_get_dir_listing_request_params : nce.
Lemma nce_get_dir_listing_response_params r : nce (get_dir_listing_response_params r). Proof. nce_t. Qed.
Global Hint Resolve nce_get_dir_listing_response_params : nce.
Lemma nce_get_dir_listing_options r : nce (get_dir_listing_options r). Proof. nce_t. Qed.
Global Hint Resolve nce_get_dir_listing_options : nce.
Lemma nce_unpack_raw_tm s cfg : nce (unpack_raw_tm s cfg). Proof. nce_t. Qed.
Lemma nce_srv1_from_tm x cfg : nce (srv1_from_tm x cfg). Proof. nce_t. Qed.
Lemma nce_srv1_unpack d cfg : nce (srv1_unpack d cfg). Proof. nce_t. Qed.

(* ================= strict totality: combine with the *_total theorems ================= *)
From SP Require Import Base.BytesFacts Proofs.SpacePacketProofs Proofs.PusTcProofs Proofs.PusTmProofs
  Proofs.UtilProofs Proofs.PduHeaderProofs Proofs.FileDirectiveProofs Proofs.FileDataProofs
  Proofs.LvProofs Proofs.TlvProofs Proofs.TlvConv Proofs.MsgProofs Proofs.UslpProofs Proofs.UslpFrameProofs
  Proofs.CdsProofs Proofs.ReqIdProofs Proofs.Srv1Proofs Proofs.EofProofs Proofs.AckProofs
  Proofs.PromptProofs Proofs.KeepAliveProofs Proofs.FinishedProofs Proofs.MetadataProofs
  Proofs.NakProofs Proofs.FactoryProofs Proofs.XcutProofs.
Theorem eof_unpack_total_strict d : wf_bytes d -> ok_or_strict (eof_unpack d).
Proof. intros W. exact (strict_of _ (eof_unpack_total d W) (nce_eof_unpack d)). Qed.
Theorem ack_unpack_total_strict d : wf_bytes d -> ok_or_strict (ack_unpack d).
Proof. intros W. exact (strict_of _ (ack_unpack_total d W) (nce_ack_unpack d)). Qed.
Theorem prompt_unpack_total_strict d : wf_bytes d -> ok_or_strict (prompt_unpack d).
Proof. intros W. exact (strict_of _ (prompt_unpack_total d W) (nce_prompt_unpack d)). Qed.
Theorem ka_unpack_total_strict d : wf_bytes d -> ok_or_strict (ka_unpack d).
Proof. intros W. exact (strict_of _ (ka_unpack_total d W) (nce_ka_unpack d)). Qed.
Theorem fdir_unpack_total_strict d : wf_bytes d -> ok_or_strict (fdir_unpack d).
Proof. intros W. exact (strict_of _ (fdir_unpack_total d W) (nce_fdir_unpack d)). Qed.
Theorem fin_unpack_total_strict d : wf_bytes d -> ok_or_strict (fin_unpack d).
Proof. intros W. exact (strict_of _ (fin_unpack_total d W) (nce_fin_unpack d)). Qed.
Theorem md_unpack_total_strict d : wf_bytes d -> ok_or_strict (md_unpack d).
Proof. intros W. exact (strict_of _ (md_unpack_total d W) (nce_md_unpack d)). Qed.
Theorem nak_unpack_total_strict d : wf_bytes d -> ok_or_strict (nak_unpack d).
Proof. intros W. exact (strict_of _ (nak_unpack_total d W) (nce_nak_unpack d)). Qed.
Theorem fd_unpack_total_strict d : wf_bytes d -> ok_or_strict (FileData.fd_unpack d).
Proof. intros W. exact (strict_of _ (FileDataProofs.fd_unpack_total d W) (nce_fd_unpack d)). Qed.
Theorem hdr_unpack_total_strict d : wf_bytes d -> ok_or_strict (hdr_unpack d).
Proof. intros W. exact (strict_of _ (hdr_unpack_total d W) (nce_hdr_unpack d)). Qed.
Theorem header_len_from_raw_total_strict d : wf_bytes d -> ok_or_strict (header_len_from_raw d).
Proof. intros W. exact (strict_of _ (header_len_from_raw_total d W) (nce_header_len_from_raw d)). Qed.
Theorem fac_pdu_type_total_strict d : ok_or_strict (fac_pdu_type d).
Proof. exact (strict_of _ (fac_pdu_type_total d) (nce_fac_pdu_type d)). Qed.
Theorem fac_is_file_directive_total_strict d : ok_or_strict (fac_is_file_directive d).
Proof. exact (strict_of _ (fac_is_file_directive_total d) (nce_fac_is_file_directive d)). Qed.
Theorem fac_pdu_directive_type_total_strict d : wf_bytes d -> ok_or_strict (fac_pdu_directive_type d).
Proof. intros W. exact (strict_of _ (fac_pdu_directive_type_total d W) (nce_fac_pdu_directive_type d)). Qed.
Theorem fac_from_raw_total_strict d : wf_bytes d -> ok_or_strict (fac_from_raw d).
Proof. intros W. exact (strict_of _ (fac_from_raw_total d W) (nce_fac_from_raw d)). Qed.
Theorem fac_from_raw_to_holder_total_strict d : wf_bytes d -> ok_or_strict (fac_from_raw_to_holder d).
Proof. intros W. exact (strict_of _ (fac_from_raw_to_holder_total d W) (nce_fac_from_raw_to_holder d)). Qed.
Theorem reqid_unpack_total_strict d : wf_bytes d -> ok_or_strict (reqid_unpack d).
Proof. intros W. exact (strict_of _ (reqid_unpack_total d W) (nce_reqid_unpack d)). Qed.
Theorem pfe_unpack_total_strict d pfc : ok_or_strict (pfe_unpack d pfc).
Proof. exact (strict_of _ (pfe_unpack_total d pfc) (nce_pfe_unpack d pfc)). Qed.
Theorem fn_unpack_total_strict d n k : ok_or_strict (fn_unpack d n k).
Proof. exact (strict_of _ (fn_unpack_total d n k) (nce_fn_unpack d n k)). Qed.
Theorem unpack_raw_tm_total_strict s cfg : ok_or_strict (unpack_raw_tm s cfg).
Proof. exact (strict_of _ (unpack_raw_tm_total s cfg) (nce_unpack_raw_tm s cfg)). Qed.
Theorem srv1_from_tm_total_strict x cfg : ok_or_strict (srv1_from_tm x cfg).
Proof. exact (strict_of _ (srv1_from_tm_total x cfg) (nce_srv1_from_tm x cfg)). Qed.
Theorem srv1_unpack_total_strict d cfg : wf_bytes d -> ok_or_strict (srv1_unpack d cfg).
Proof. intros W. exact (strict_of _ (srv1_unpack_total_closed d cfg W) (nce_srv1_unpack d cfg)). Qed.
Theorem cds_unpack_total_strict d : wf_bytes d -> ok_or_strict (cds_unpack d).
Proof. intros W. exact (strict_of _ (cds_total d W) (nce_cds_unpack d)). Qed.
Theorem cds_unpack_from_raw_total_strict d : wf_bytes d -> ok_or_strict (cds_unpack_from_raw d).
Proof. intros W. exact (strict_of _ (cds_unpack_from_raw_total d W) (nce_cds_unpack_from_raw d)). Qed.
Theorem sph_unpack_total_strict d : wf_bytes d -> ok_or_strict (sph_unpack d).
Proof. intros W. exact (strict_of _ (sph_unpack_total d W) (nce_sph_unpack d)). Qed.
Theorem apid_from_raw_total_strict d : wf_bytes d -> ok_or_strict (get_apid_from_raw_space_packet d).
Proof. intros W. exact (strict_of _ (apid_from_raw_total d W) (nce_apid_from_raw d)). Qed.
Theorem tc_unpack_total_strict d : wf_bytes d -> ok_or_strict (tc_unpack d).
Proof. intros W. exact (strict_of _ (tc_unpack_total d W) (nce_tc_unpack d)). Qed.
Theorem tcsec_unpack_total_strict d : wf_bytes d -> ok_or_strict (tcsec_unpack d).
Proof. intros W. exact (strict_of _ (tcsec_unpack_total d W) (nce_tcsec_unpack d)). Qed.
Theorem tm_unpack_total_strict d ts : wf_bytes d -> 0 <= ts -> ok_or_strict (tm_unpack d ts).
Proof. intros W W0. exact (strict_of _ (tm_unpack_total d ts W W0) (nce_tm_unpack d ts)). Qed.
Theorem tmsec_unpack_total_strict d ts : wf_bytes d -> 0 <= ts -> ok_or_strict (tmsec_unpack d ts).
Proof. intros W W0. exact (strict_of _ (tmsec_unpack_total d ts W W0) (nce_tmsec_unpack d ts)). Qed.
Theorem tm_service_from_bytes_total_strict d : ok_or_strict (tm_service_from_bytes d).
Proof. exact (strict_of _ (tm_service_from_bytes_total d) (nce_tm_service_from_bytes d)). Qed.
Theorem ubf_from_bytes_total_strict d : ok_or_strict (ubf_from_bytes d).
Proof. exact (strict_of _ (ubf_from_bytes_total d) (nce_ubf_from_bytes d)). Qed.
Theorem u8_from_bytes_total_strict d : wf_bytes d -> ok_or_strict (Util.u8_from_bytes d).
Proof. intros W. exact (strict_of _ (u8_from_bytes_total d W) (nce_u8_from_bytes d)). Qed.
Theorem u16_from_bytes_total_strict d : wf_bytes d -> ok_or_strict (u16_from_bytes d).
Proof. intros W. exact (strict_of _ (u16_from_bytes_total d W) (nce_u16_from_bytes d)). Qed.
Theorem u32_from_bytes_total_strict d : wf_bytes d -> ok_or_strict (u32_from_bytes d).
Proof. intros W. exact (strict_of _ (u32_from_bytes_total d W) (nce_u32_from_bytes d)). Qed.
Theorem u64_from_bytes_total_strict d : wf_bytes d -> ok_or_strict (u64_from_bytes d).
Proof. intros W. exact (strict_of _ (u64_from_bytes_total d W) (nce_u64_from_bytes d)). Qed.
Theorem gen_from_bytes_total_strict w d : wf_bytes d -> ok_or_strict (gen_from_bytes w d).
Proof. intros W. exact (strict_of _ (gen_from_bytes_total w d W) (nce_gen_from_bytes w d)). Qed.
Theorem lv_unpack_total_strict d : ok_or_strict (lv_unpack d).
Proof. exact (strict_of _ (lv_unpack_total d) (nce_lv_unpack d)). Qed.
Theorem tlv_unpack_total_strict d : ok_or_strict (tlv_unpack d).
Proof. exact (strict_of _ (tlv_unpack_total d) (nce_tlv_unpack d)). Qed.
Theorem wrap_unpack_total_strict cls d : ok_or_strict (wrap_unpack cls d).
Proof. exact (strict_of _ (wrap_unpack_total cls d) (nce_wrap_unpack cls d)). Qed.
Theorem wrap_from_tlv_total_strict cls x : ok_or_strict (wrap_from_tlv cls x).
Proof. exact (strict_of _ (wrap_from_tlv_total cls x) (nce_wrap_from_tlv cls x)). Qed.
Theorem fault_unpack_total_strict d : ok_or_strict (fault_unpack d).
Proof. exact (strict_of _ (fault_unpack_total d) (nce_fault_unpack d)). Qed.
Theorem fault_from_tlv_total_strict x : ok_or_strict (fault_from_tlv x).
Proof. exact (strict_of _ (fault_from_tlv_total x) (nce_fault_from_tlv x)). Qed.
Theorem fsreq_unpack_total_strict d : ok_or_strict (fsreq_unpack d).
Proof. exact (strict_of _ (fsreq_unpack_total d) (nce_fsreq_unpack d)). Qed.
Theorem fsreq_from_tlv_total_strict x : ok_or_strict (fsreq_from_tlv x).
Proof. exact (strict_of _ (fsreq_from_tlv_total x) (nce_fsreq_from_tlv x)). Qed.
Theorem fsresp_unpack_total_strict d : ok_or_strict (fsresp_unpack d).
Proof. exact (strict_of _ (fsresp_unpack_total d) (nce_fsresp_unpack d)). Qed.
Theorem fsresp_from_tlv_total_strict x : ok_or_strict (fsresp_from_tlv x).
Proof. exact (strict_of _ (fsresp_from_tlv_total x) (nce_fsresp_from_tlv x)). Qed.
Theorem common_unpacker_total_strict d : ok_or_strict (common_unpacker d).
Proof. exact (strict_of _ (common_unpacker_total d) (nce_common_unpacker d)). Qed.
Theorem decode_reserved_total_strict d : wf_bytes d -> ok_or_strict (decode_reserved d).
Proof. intros W. exact (strict_of _ (decode_reserved_total d W) (nce_decode_reserved d)). Qed.
Theorem determine_header_type_total_strict d : wf_bytes d -> ok_or_strict (determine_header_type d).
Proof. intros W. exact (strict_of _ (determine_header_type_total d W) (nce_determine_header_type d)). Qed.
Theorem thdr_unpack_total_strict d uv : wf_bytes d -> ok_or_strict (thdr_unpack d uv).
Proof. intros W. exact (strict_of _ (thdr_unpack_total d uv W) (nce_thdr_unpack d uv)). Qed.
Theorem phdr_unpack_total_strict d uv : wf_bytes d -> ok_or_strict (phdr_unpack d uv).
Proof. intros W. exact (strict_of _ (phdr_unpack_total d uv W) (nce_phdr_unpack d uv)). Qed.
Theorem tfdf_unpack_total_strict raw tr e ft : ok_or_strict (tfdf_unpack raw tr e ft).
Proof. exact (strict_of _ (tfdf_unpack_total raw tr e ft) (nce_tfdf_unpack raw tr e ft)). Qed.
Theorem frame_unpack_total_strict raw ft p : wf_bytes raw -> ok_or_strict (frame_unpack raw ft p).
Proof. intros W. exact (strict_of _ (frame_unpack_total raw ft p W) (nce_frame_unpack raw ft p)). Qed.

(* TlvHolder.to_<cls> on a generic TLV *)
Lemma nce_holder_generic cls x : nce (holder_to cls (HGeneric x)).
Proof. unfold holder_to. repeat match goal with |- context [if ?c then _ else _] => destruct c end; nce_auto. Qed.
Theorem holder_generic_total_strict cls x : is_tlv_type cls = true -> ok_or_strict (holder_to cls (HGeneric x)).
Proof. intros H. exact (strict_of _ (holder_generic_total cls x H) (nce_holder_generic cls x)). Qed.

(* the reserved-message parsers on any reserved message *)
Theorem parsers_total_strict mt f :
  ok_or_strict (get_originating_transaction_id (rmsg mt f)) /\
  ok_or_strict (get_proxy_put_request_params (rmsg mt f)) /\
  ok_or_strict (get_proxy_put_response_params (rmsg mt f)) /\
  ok_or_strict (get_proxy_closure_requested (rmsg mt f)) /\
  ok_or_strict (get_proxy_transmission_mode (rmsg mt f)) /\
  ok_or_strict (get_dir_listing_request_params (rmsg mt f)) /\
  ok_or_strict (get_dir_listing_response_params (rmsg mt f)) /\
  ok_or_strict (get_dir_listing_options (rmsg mt f)).
Proof.
  destruct (parsers_total mt f) as (H1 & H2 & H3 & H4 & H5 & H6 & H7 & H8).
  repeat split; apply strict_of; auto with nce.
Qed.
