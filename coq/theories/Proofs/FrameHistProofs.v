(* C11 (gap 2c): USLP frame histories - consistency DERIVED from a consistent start. *)
From Coq Require Import ZArith List Bool Lia.
From SP Require Import Base.Result Base.Bytes Base.BytesFacts Model.UslpHeader Model.UslpFrame
  Spec.UslpSpec Proofs.UslpProofs Proofs.UslpFrameProofs.
Import ListNotations.
Open Scope Z_scope.

(* every set_frame_len_in_header call of the history happens while the frame fits the 16-bit
   length field (total length <= 65536); nothing is asked of the data zones assigned in between *)
Fixpoint frame_lens_ok (f : frame) (ops : list fop) : Prop :=
  match ops with
  | [] => True
  | o :: r => (o = OpSetFrameLen -> frame_len_of f <= 65536) /\ frame_lens_ok (frame_apply f o) r
  end.

Lemma frame_set_tfdz_consistent f d : frame_consistent f -> frame_consistent (frame_set_tfdz f d).
Proof.
  unfold frame_consistent, frame_set_tfdz, tfdf_consistent, tfdf_set_tfdz.
  cbn [hdr ftfdf izone ocf fecf rules ident fhp tfdz tsize].
  intros (Hh & (R & I & F & S & _) & Ho & Ht). repeat split; try assumption; try apply R; try apply I.
Qed.

Lemma frame_apply_consistent f o : frame_consistent f -> (o = OpSetFrameLen -> frame_len_of f <= 65536) ->
  frame_consistent (frame_apply f o).
Proof.
  intros C L. destruct o; cbn [frame_apply]; try exact C.
  - apply frame_set_tfdz_consistent. exact C.
  - apply set_frame_len_consistent; [exact C|apply L; reflexivity].
Qed.

(* C11, frame: from a frame the standard defines, ANY history of tfdz assignments, frame-length
   updates, pack and len calls ends in a frame the standard defines, whose pack() is the prescribed
   layout of its current values and whose len() is the number of octets packed *)
Theorem frame_history_consistent ops : forall f, frame_consistent f -> frame_lens_ok f ops ->
  let f' := fold_left frame_apply ops f in
  frame_consistent f' /\
  (forall ft, ft = None \/ ft = Some (ftype_of_rule (rules (ftfdf f'))) ->
     frame_pack f' (hdr_truncated (hdr f')) ft = Ok (frame_layout (hdr_layout (hdr f')) f')) /\
  frame_len_of f' = len (frame_layout (hdr_layout (hdr f')) f').
Proof.
  induction ops as [|o r IH]; intros f C L; cbn [fold_left].
  - split; [exact C|]. split; [intros ft Hft; apply frame_pack_layout; assumption|].
    apply frame_len_is_layout_len. exact C.
  - destruct L as [L1 L2]. apply IH; [apply frame_apply_consistent; assumption|exact L2].
Qed.

(* ---- a condition on the arguments alone ---- *)
(* octets of the frame that no operation of the history changes *)
Definition frame_overhead (f : frame) : Z :=
  hdr_len (hdr f) + tfdf_header_len (fhp (ftfdf f)) + opt_len (izone f) + opt_len (ocf f) + opt_len (fecf f).
Definition fop_fits (k : Z) (o : fop) : Prop :=
  match o with OpSetTfdz d => k + len d <= 65536 | _ => True end.

Lemma frame_overhead_apply f o : frame_overhead (frame_apply f o) = frame_overhead f.
Proof.
  destruct o; cbn [frame_apply]; try reflexivity.
  destruct f as [[b|p] t iz oc fe]; reflexivity.
Qed.

Lemma frame_len_overhead f : tsize_fresh f -> frame_len_of f = frame_overhead f + len (tfdz (ftfdf f)).
Proof. unfold tsize_fresh, frame_len_of, frame_overhead, tfdf_len. intros ->. lia. Qed.

Lemma frame_args_fit_lens_ok ops : forall f, tsize_fresh f -> frame_len_of f <= 65536 ->
  Forall (fop_fits (frame_overhead f)) ops -> frame_lens_ok f ops.
Proof.
  induction ops as [|o r IH]; intros f T L F; cbn [frame_lens_ok]; [exact I|].
  inversion F as [|? ? Fo Fr]; subst. split; [intros _; exact L|].
  apply IH.
  - apply frame_apply_fresh. exact T.
  - destruct o; cbn [frame_apply]; try exact L.
    + rewrite frame_len_overhead by reflexivity. exact Fo.
    + rewrite (proj1 (set_frame_len_spec f)). exact L.
  - rewrite frame_overhead_apply. exact Fr.
Qed.

Corollary frame_history_consistent_args ops f : frame_consistent f -> frame_len_of f <= 65536 ->
  Forall (fop_fits (frame_overhead f)) ops ->
  let f' := fold_left frame_apply ops f in
  frame_consistent f' /\
  (forall ft, ft = None \/ ft = Some (ftype_of_rule (rules (ftfdf f'))) ->
     frame_pack f' (hdr_truncated (hdr f')) ft = Ok (frame_layout (hdr_layout (hdr f')) f')) /\
  frame_len_of f' = len (frame_layout (hdr_layout (hdr f')) f').
Proof.
  intros C L F. apply frame_history_consistent; [exact C|].
  apply frame_args_fit_lens_ok; [apply C|exact L|exact F].
Qed.

(* ---- non-vacuity, and the limit of the statement ---- *)
Definition hist_frame : frame :=
  {| hdr := HPrim {| pbase := {| scid := 16; src_dest := 0; vcid := 55; map_id := 3 |};
                     frame_len := 23; bypass := 0; prot := 0; ocf_flag := 1; vcf_len := 0;
                     vcf_count := None |};
     ftfdf := {| rules := 0; ident := 0; fhp := Some 0; tfdz := [1; 2; 3; 4]; tsize := 7 |};
     izone := Some [0; 0; 0; 0]; ocf := Some [1; 2; 3; 4]; fecf := Some [3; 4] |}.
Definition hist_ops : list fop := [OpSetTfdz [9; 8; 7]; OpPack; OpSetFrameLen; OpSetTfdz []; OpLen; OpSetFrameLen].

Example frame_history_example :
  frame_consistent hist_frame /\ frame_len_of hist_frame <= 65536 /\
  Forall (fop_fits (frame_overhead hist_frame)) hist_ops /\ frame_lens_ok hist_frame hist_ops /\
  frame_pack (fold_left frame_apply hist_ops hist_frame) false None =
    Ok [192; 1; 6; 230; 0; 19; 8; 0; 0; 0; 0; 0; 0; 0; 1; 2; 3; 4; 3; 4].
Proof.
  split. { unfold frame_consistent, tfdf_consistent, phdr_valid, base_valid, vcf_valid; cbn.
           repeat split; try discriminate; try reflexivity. }
  split; [vm_compute; discriminate|].
  split. { unfold hist_ops, fop_fits. repeat constructor; vm_compute; discriminate. }
  split. { cbn [frame_lens_ok hist_ops]. repeat split; try discriminate; intros _; vm_compute; discriminate. }
  vm_compute. reflexivity.
Qed.

(* The bound on the FINAL length alone does not suffice: a frame-length update made while the frame
   is too long stores a value the 16-bit field cannot hold, and shortening the data zone afterwards
   does not repair the header.  (Statement proposed by the audit:
     frame_consistent f -> let f' := fold_left frame_apply ops f in
     frame_len_of f' <= 65536 -> frame_consistent f' /\ frame_pack f' .. = Ok (frame_layout ..).) *)
Definition big_ops : list fop := [OpSetTfdz (repeat 0 (Z.to_nat 65530)); OpSetFrameLen; OpSetTfdz [1]].
Theorem frame_history_final_bound_refuted :
  exists f ops, frame_consistent f /\
    let f' := fold_left frame_apply ops f in
    frame_len_of f' <= 65536 /\ ~ frame_consistent f' /\
    frame_pack f' (hdr_truncated (hdr f')) None <> Ok (frame_layout (hdr_layout (hdr f')) f') /\
    (* what pack() yields: the frame-length field wrapped to 16 bits (65549 -> 13), 21 octets *)
    frame_pack f' (hdr_truncated (hdr f')) None =
      Ok [192; 1; 6; 230; 0; 13; 8; 0; 0; 0; 0; 0; 0; 0; 1; 1; 2; 3; 4; 3; 4].
Proof.
  exists hist_frame, big_ops. split; [apply frame_history_example|]. cbv zeta.
  split; [vm_compute; discriminate|]. split.
  - intros (Hh & _). unfold hdr_valid in Hh.
    assert (E : exists p, hdr (fold_left frame_apply big_ops hist_frame) = HPrim p /\ frame_len p = 65549).
    { eexists. split; [vm_compute; reflexivity|reflexivity]. }
    destruct E as (p & E & FL). rewrite E in Hh. destruct Hh as (_ & (_ & Hf) & _). rewrite FL in Hf. lia.
  - split; [|vm_compute; reflexivity]. intros H. vm_compute in H. discriminate H.
Qed.
