(* What every directive PDU decoder of the form

     f = FileDirectivePduBase.unpack(data); f.verify_length_and_checksum(data)
     data = data[:end_of_params]          (declared packet length, minus the CRC trailer)
     <read the parameters from data starting at f.header_len>

   has in common: the "prelude" on a laid-out PDU followed by anything, the converse for every
   accepted octet string (C04: CRC over the declared length is 0), totality (C10), rejection of
   every strict prefix, independence from octets behind the declared length (C09). *)
From Coq Require Import ZArith List Bool Lia ZifyBool.
From SP Require Import Base.Result Base.Bytes Base.BytesFacts Base.Crc16 Base.Crc16Facts
  Model.PduHeader Spec.PduHeaderSpec Proofs.PduHeaderProofs Model.FileDirective
  Proofs.FileDirectiveProofs Spec.PduASpec.
Import ListNotations.
Open Scope Z_scope.
Ltac Zify.zify_post_hook ::= Z.to_euclidean_division_equations.

(* ================= the spec-side directive PDU and the model-side base object ================= *)

Definition directive_ok (c : PduConfig) (dir code : Z) (params : bytes) : Prop :=
  conf_valid c /\ flag dir /\ 0 <= code < 256 /\ wf_bytes params /\ 1 + len params + crc_octets c <= 65535.

(* the FileDirectivePduBase inside a PDU with these parameters *)
Definition directive_fdir (c : PduConfig) (dir code : Z) (params : bytes) : fdir :=
  fdir_of (conf_set_dir c dir) code (len params + crc_octets c).

Lemma crc_octets_cases c : flag (cf_crc c) ->
  (cf_crc c = 0 /\ crc_octets c = 0) \/ (cf_crc c = 1 /\ crc_octets c = 2).
Proof. intros [E | E]; unfold crc_octets; rewrite E; [left|right]; split; reflexivity. Qed.

Lemma conf_set_dir_valid c dir : conf_valid c -> flag dir -> conf_valid (conf_set_dir c dir).
Proof.
  intros (Vs & Vd & Vq & Heq & Hm & Hl & Hc & Hd & Hs) F. unfold conf_valid, conf_set_dir.
  cbn [cf_src cf_dst cf_seq cf_mode cf_large cf_crc cf_dir cf_segctrl]. tauto.
Qed.

Lemma conf_crc_flag c : conf_valid c -> flag (cf_crc c).
Proof. intros (_ & _ & _ & _ & _ & _ & Hc & _). exact Hc. Qed.
Lemma conf_large_flag c : conf_valid c -> flag (cf_large c).
Proof. intros (_ & _ & _ & _ & _ & Hl & _). exact Hl. Qed.
Lemma conf_widths_eq c : conf_valid c -> ubf_len (cf_src c) = ubf_len (cf_dst c).
Proof. intros (_ & _ & _ & H & _). exact H. Qed.

Lemma directive_fdir_valid c dir code params : directive_ok c dir code params ->
  fdir_valid (directive_fdir c dir code params).
Proof.
  intros (C & D & R & W & L). pose proof (len_nonneg params).
  destruct (crc_octets_cases c (conf_crc_flag c C)) as [[_ E] | [_ E]];
    (apply fdir_of_valid; [apply conf_set_dir_valid; assumption|assumption|lia]).
Qed.

Lemma directive_header_eq c dir code params :
  directive_header c dir (len params) = fd_hdr (directive_fdir c dir code params).
Proof.
  unfold directive_header, directive_fdir, fdir_of. cbn [fd_hdr]. f_equal. lia.
Qed.

Lemma directive_pre_eq c dir code params :
  directive_pre c dir code params = fdir_layout (directive_fdir c dir code params) ++ params.
Proof.
  unfold directive_pre, fdir_layout. rewrite (directive_header_eq c dir code params).
  rewrite <- app_assoc. reflexivity.
Qed.

Lemma directive_pre_wf c dir code params : directive_ok c dir code params ->
  wf_bytes (directive_pre c dir code params).
Proof.
  intros O. rewrite directive_pre_eq. apply wf_bytes_app. split.
  - apply fdir_layout_wf, directive_fdir_valid; exact O.
  - apply O.
Qed.

Lemma directive_pre_len c dir code params : directive_ok c dir code params ->
  len (directive_pre c dir code params) = fdir_header_len (directive_fdir c dir code params) + len params.
Proof.
  intros O. rewrite directive_pre_eq, len_app, fdir_layout_len by (apply directive_fdir_valid; exact O).
  reflexivity.
Qed.

Lemma directive_layout_eq c dir code params :
  directive_layout c dir code params =
  directive_pre c dir code params ++
  (if cf_crc c =? 1 then be_encode 2 (crc16 (directive_pre c dir code params)) else []).
Proof. unfold directive_layout. cbv zeta. destruct (cf_crc c =? 1); [reflexivity|rewrite app_nil_r; reflexivity]. Qed.

(* packet_len of the object = number of octets of the layout *)
Lemma directive_layout_len c dir code params : directive_ok c dir code params ->
  let f := directive_fdir c dir code params in
  len (directive_layout c dir code params) = hdr_packet_len (fd_hdr f) /\
  len (directive_layout c dir code params) = fdir_header_len f + len params + crc_octets c /\
  h_dlen (fd_hdr f) = len (directive_layout c dir code params) - hdr_header_len (fd_hdr f).
Proof.
  intros O f. pose proof O as (C & _).
  rewrite directive_layout_eq, len_app, (directive_pre_len _ _ _ _ O). fold f.
  unfold crc_octets, hdr_packet_len, fdir_header_len, f, directive_fdir, fdir_of. cbn [fd_hdr h_dlen].
  unfold crc_octets. destruct (cf_crc c =? 1); rewrite ?len_be_encode; change (len []) with 0; lia.
Qed.

Lemma directive_layout_wf c dir code params : directive_ok c dir code params ->
  wf_bytes (directive_layout c dir code params).
Proof.
  intros O. rewrite directive_layout_eq. apply wf_bytes_app. split; [apply directive_pre_wf; exact O|].
  destruct (cf_crc c =? 1); [apply be_encode_wf|constructor].
Qed.

(* the pack side: the CRC trailer every pack() appends *)
Lemma pack_trailer c dir code params : directive_ok c dir code params ->
  (if cf_crc (conf_set_dir c dir) =? CRC_WITH_CRC
   then do x <- struct_pack 2 (crc16 (directive_pre c dir code params));
        Ok (directive_pre c dir code params ++ x)
   else Ok (directive_pre c dir code params))
  = Ok (directive_layout c dir code params).
Proof.
  intros O. unfold directive_layout, CRC_WITH_CRC. cbv zeta. cbn [conf_set_dir cf_crc].
  destruct (cf_crc c =? 1); [|reflexivity].
  rewrite struct_pack_crc by (apply directive_pre_wf; exact O). reflexivity.
Qed.

(* ================= the decoder prelude ================= *)

Definition end_of_params (f : fdir) : Z :=
  if cf_crc (h_conf (fd_hdr f)) =? CRC_WITH_CRC then fdir_packet_len f - 2 else fdir_packet_len f.

Definition with_prelude {A} (body : fdir -> bytes -> res A) (d : bytes) : res A :=
  do f <- fdir_unpack d;
  do _ <- hdr_verify_length_and_checksum (fd_hdr f) d;
  body f (slice_to d (end_of_params f)).

(* on a laid-out PDU followed by anything: base object, verification passes, the parameters
   are read from exactly header ++ code ++ params *)
Lemma prelude_layout c dir code params rest : directive_ok c dir code params -> wf_bytes rest ->
  let f := directive_fdir c dir code params in
  let d := directive_layout c dir code params ++ rest in
  fdir_unpack d = Ok f /\
  hdr_verify_length_and_checksum (fd_hdr f) d = Ok (hdr_packet_len (fd_hdr f)) /\
  slice_to d (end_of_params f) = fdir_layout f ++ params.
Proof.
  intros O Wr f d. pose proof O as (C & Dr & R & Wp & L).
  pose proof (directive_fdir_valid _ _ _ _ O) as FV. fold f in FV.
  pose proof (directive_layout_len _ _ _ _ O) as (L1 & L2 & _). fold f in L1, L2.
  pose proof (directive_pre_len _ _ _ _ O) as PL. fold f in PL.
  pose proof (directive_pre_wf _ _ _ _ O) as PW.
  pose proof (hdr_valid_packet_len _ (proj1 FV)) as [_ P7].
  pose proof (len_nonneg rest) as Lr. pose proof (len_nonneg params) as Lp.
  assert (CF : cf_crc (h_conf (fd_hdr f)) = cf_crc c) by reflexivity.
  unfold d. rewrite directive_layout_eq.
  destruct (crc_octets_cases c (conf_crc_flag c C)) as [[E0 E1] | [E0 E1]]; rewrite E0; cbn [Z.eqb Pos.eqb].
  - (* no CRC *)
    rewrite app_nil_r. rewrite directive_layout_eq, E0 in L1, L2. cbn [Z.eqb] in L1, L2. rewrite app_nil_r in L1, L2.
    split; [|split].
    + rewrite directive_pre_eq. fold f. rewrite <- app_assoc. apply fdir_unpack_layout; [exact FV|].
      apply wf_bytes_app. split; assumption.
    + apply hdr_verify_nocrc; [lia|rewrite CF; exact E0|rewrite len_app; lia].
    + unfold end_of_params, CRC_WITH_CRC. rewrite CF, E0. cbn [Z.eqb]. unfold fdir_packet_len. rewrite <- L1.
      rewrite slice_to_app by reflexivity. apply directive_pre_eq.
  - (* CRC *)
    rewrite directive_layout_eq, E0 in L1, L2. cbn [Z.eqb Pos.eqb] in L1, L2.
    rewrite len_app, len_be_encode in L1, L2.
    split; [|split].
    + rewrite directive_pre_eq. fold f. rewrite <- !app_assoc. apply fdir_unpack_layout; [exact FV|].
      apply wf_bytes_app. split; [assumption|]. apply wf_bytes_app. split; [apply be_encode_wf|assumption].
    + apply hdr_verify_crc; [exact PW|rewrite CF; exact E0|lia].
    + unfold end_of_params, CRC_WITH_CRC. rewrite CF, E0. cbn [Z.eqb Pos.eqb]. unfold fdir_packet_len.
      rewrite <- app_assoc. rewrite slice_to_app by lia. apply directive_pre_eq.
Qed.

(* decode (layout ++ rest) = the body on header ++ code ++ params: nothing of the CRC trailer
   or of `rest` reaches the parameter decoder *)
Theorem with_prelude_layout {A} (body : fdir -> bytes -> res A) c dir code params rest :
  directive_ok c dir code params -> wf_bytes rest ->
  with_prelude body (directive_layout c dir code params ++ rest) =
  body (directive_fdir c dir code params) (fdir_layout (directive_fdir c dir code params) ++ params).
Proof.
  intros O W. destruct (prelude_layout c dir code params rest O W) as (U & V & S).
  unfold with_prelude. rewrite U. cbn [bind]. rewrite V. cbn [bind]. rewrite S. reflexivity.
Qed.

(* C09: whatever follows a packed PDU is irrelevant *)
Theorem with_prelude_suffix {A} (body : fdir -> bytes -> res A) c dir code params s :
  directive_ok c dir code params -> wf_bytes s ->
  with_prelude body (directive_layout c dir code params ++ s) =
  with_prelude body (directive_layout c dir code params).
Proof.
  intros O W. rewrite with_prelude_layout by assumption.
  rewrite <- (app_nil_r (directive_layout c dir code params)) at 1.
  rewrite with_prelude_layout by (try assumption; constructor). reflexivity.
Qed.

(* ================= every accepted octet string ================= *)

Lemma slice_to_len (d : bytes) n : 0 <= n <= len d -> len (slice_to d n) = n.
Proof. intros H. unfold slice_to, len in *. rewrite firstn_length. lia. Qed.

Theorem with_prelude_inv {A} (body : fdir -> bytes -> res A) d (x : A) :
  wf_bytes d -> with_prelude body d = Ok x ->
  exists f, fdir_unpack d = Ok f /\ fdir_valid f /\ hdr_packet_len (fd_hdr f) <= len d /\
    (cf_crc (h_conf (fd_hdr f)) = 1 ->
       crc16 (firstn (Z.to_nat (hdr_packet_len (fd_hdr f))) d) = 0) /\
    body f (slice_to d (end_of_params f)) = Ok x /\
    0 <= end_of_params f <= hdr_packet_len (fd_hdr f) /\
    len (slice_to d (end_of_params f)) = end_of_params f.
Proof.
  intros W H. unfold with_prelude in H.
  destruct (fdir_unpack d) as [f|] eqn:U; [|discriminate]. cbn [bind] in H.
  destruct (hdr_verify_length_and_checksum (fd_hdr f) d) as [pl|] eqn:V; [|discriminate]. cbn [bind] in H.
  destruct (fdir_unpack_inv d f W U) as (FV & _ & _ & _).
  pose proof (hdr_valid_packet_len _ (proj1 FV)) as [H7 P7].
  destruct (hdr_verify_accept (fd_hdr f) d pl ltac:(lia) V) as (-> & Lpl & Crc).
  assert (E : 0 <= end_of_params f <= hdr_packet_len (fd_hdr f)).
  { unfold end_of_params, fdir_packet_len. destruct (cf_crc (h_conf (fd_hdr f)) =? CRC_WITH_CRC); lia. }
  exists f. split; [reflexivity|]. split; [exact FV|]. split; [lia|]. split; [exact Crc|].
  split; [exact H|]. split; [exact E|]. apply slice_to_len. lia.
Qed.

(* C04: an accepted CRC-flagged PDU has CRC 0 over its declared length *)
Theorem with_prelude_accept_needs_crc0 {A} (body : fdir -> bytes -> res A) d (x : A) h :
  wf_bytes d -> with_prelude body d = Ok x -> hdr_unpack d = Ok h -> cf_crc (h_conf h) = 1 ->
  hdr_packet_len h <= len d /\ crc16 (firstn (Z.to_nat (hdr_packet_len h)) d) = 0.
Proof.
  intros W H Uh C. destruct (with_prelude_inv body d x W H) as (f & U & FV & L & Crc & _).
  destruct (fdir_unpack_inv d f W U) as (_ & Uh' & _). rewrite Uh in Uh'. injection Uh' as ->.
  split; [exact L|apply Crc; exact C].
Qed.

(* C10 *)
Theorem with_prelude_total {A} (body : fdir -> bytes -> res A) d : wf_bytes d ->
  (forall f data, fdir_valid f -> wf_bytes data -> ok_or_documented (body f data)) ->
  ok_or_documented (with_prelude body d).
Proof.
  intros W B. unfold with_prelude.
  destruct (fdir_unpack d) as [f|e] eqn:U.
  - cbn [bind]. destruct (fdir_unpack_inv d f W U) as (FV & _).
    pose proof (hdr_valid_packet_len _ (proj1 FV)) as [_ P7].
    destruct (hdr_verify_length_and_checksum (fd_hdr f) d) as [pl|e] eqn:V.
    + cbn [bind]. apply B; [exact FV|]. unfold slice_to. apply wf_bytes_firstn. exact W.
    + cbn [bind]. destruct (hdr_verify_err (fd_hdr f) d e ltac:(lia) V) as [-> | ->]; reflexivity.
  - cbn [bind]. destruct (fdir_unpack_err d e W U) as [-> | [-> | ->]]; reflexivity.
Qed.

(* C10: every strict prefix of a packed PDU is refused with a documented error *)
Theorem with_prelude_prefix_rejected {A} (body : fdir -> bytes -> res A) c dir code params n :
  directive_ok c dir code params -> (n < length (directive_layout c dir code params))%nat ->
  exists e, with_prelude body (firstn n (directive_layout c dir code params)) = Err e /\ documented e = true.
Proof.
  intros O L. set (f := directive_fdir c dir code params).
  pose proof (directive_fdir_valid _ _ _ _ O) as FV. fold f in FV.
  pose proof (directive_layout_len _ _ _ _ O) as (L1 & _). fold f in L1.
  pose proof (directive_layout_wf _ _ _ _ O) as LW.
  assert (E : exists tail, directive_layout c dir code params = fdir_layout f ++ tail /\ wf_bytes tail).
  { rewrite directive_layout_eq, directive_pre_eq. fold f. rewrite <- app_assoc. eexists. split; [reflexivity|].
    rewrite directive_layout_eq, directive_pre_eq in LW. fold f in LW. rewrite <- app_assoc in LW.
    apply wf_bytes_app in LW. apply LW. }
  destruct E as (tail & E & Wt). rewrite E in *.
  destruct (Nat.ltb n (length (fdir_layout f))) eqn:C.
  - apply Nat.ltb_lt in C.
    destruct (fdir_unpack_short_prefix f n tail FV Wt C) as (e & He & De).
    exists e. unfold with_prelude. rewrite He. split; [reflexivity|exact De].
  - apply Nat.ltb_ge in C. exists ETooShort. split; [|reflexivity].
    unfold with_prelude. rewrite firstn_app.
    rewrite firstn_all2 by exact C.
    rewrite fdir_unpack_layout by (try assumption; apply wf_bytes_firstn; assumption). cbn [bind].
    rewrite hdr_verify_short; [reflexivity|].
    rewrite <- L1. unfold len. rewrite !app_length, firstn_length. rewrite app_length in L. lia.
Qed.

(* C09: the decoded value depends only on the octets inside the declared packet length *)
Theorem with_prelude_no_fold_in {A} (body : fdir -> bytes -> res A) d (x : A) :
  wf_bytes d -> with_prelude body d = Ok x ->
  (forall f data, body f data = Ok x -> fdir_header_len f <= len data) ->
  forall h, hdr_unpack d = Ok h ->
  with_prelude body (firstn (Z.to_nat (hdr_packet_len h)) d) = Ok x.
Proof.
  intros W H B h Uh.
  destruct (with_prelude_inv body d x W H) as (f & U & FV & L & Crc & Bx & E & Ls).
  destruct (fdir_unpack_inv d f W U) as (_ & Uh' & HL & LY). rewrite Uh in Uh'. injection Uh' as ->.
  pose proof (B _ _ Bx) as Need. rewrite Ls in Need.
  pose proof (hdr_valid_packet_len _ (proj1 FV)) as [H7 P7].
  set (pl := hdr_packet_len (fd_hdr f)) in *.
  set (d1 := firstn (Z.to_nat pl) d).
  assert (L1 : len d1 = pl) by (unfold d1, len in *; rewrite firstn_length; lia).
  assert (W1 : wf_bytes d1) by (apply wf_bytes_firstn; exact W).
  assert (U1 : fdir_unpack d1 = Ok f).
  { assert (S : d1 = fdir_layout f ++ skipn (Z.to_nat (fdir_header_len f)) d1).
    { rewrite LY. unfold d1 at 1. rewrite <- (firstn_skipn (Z.to_nat (fdir_header_len f)) (firstn (Z.to_nat pl) d)).
      fold d1. f_equal. unfold d1. rewrite firstn_firstn. f_equal. lia. }
    rewrite S. apply fdir_unpack_layout; [exact FV|apply wf_bytes_skipn; exact W1]. }
  assert (F1 : firstn (Z.to_nat pl) d1 = d1).
  { unfold d1. rewrite firstn_firstn. f_equal. lia. }
  assert (V1 : hdr_verify_length_and_checksum (fd_hdr f) d1 = Ok pl).
  { rewrite hdr_verify_spec by (fold pl; lia). fold pl. rewrite L1.
    destruct (pl <? pl) eqn:X; [lia|]. rewrite F1.
    destruct (cf_crc (h_conf (fd_hdr f)) =? 1) eqn:C; [|reflexivity]. cbn [andb].
    fold d1 in Crc. rewrite Crc by lia. reflexivity. }
  assert (S1 : slice_to d1 (end_of_params f) = slice_to d (end_of_params f)).
  { unfold slice_to, d1. rewrite firstn_firstn. f_equal. lia. }
  unfold with_prelude. rewrite U1. cbn [bind]. rewrite V1. cbn [bind]. rewrite S1. exact Bx.
Qed.

(* indexing behind header ++ code *)
Lemma get_after_fdir f (params : bytes) i b : fdir_valid f -> 0 <= i ->
  py_get params i = Ok b -> py_get (fdir_layout f ++ params) (fdir_header_len f + i) = Ok b.
Proof.
  intros FV I G. rewrite py_get_app_r by (rewrite fdir_layout_len by exact FV; lia).
  rewrite fdir_layout_len by exact FV. replace (fdir_header_len f + i - fdir_header_len f) with i by lia.
  exact G.
Qed.

Lemma slice_after_fdir f (a m r : bytes) i j : fdir_valid f ->
  i = fdir_header_len f + len a -> j = i + len m ->
  slice (fdir_layout f ++ a ++ m ++ r) i j = m.
Proof.
  intros FV -> ->. rewrite app_assoc.
  apply slice_mid; rewrite len_app, fdir_layout_len by exact FV; lia.
Qed.

(* __eq__ of the common part is reflexive *)
Lemma ubf_eqb_refl u : ubf_eqb u u = true.
Proof. unfold ubf_eqb. rewrite !Z.eqb_refl. reflexivity. Qed.
Lemma hdr_eqb_refl h : hdr_eqb h h = true.
Proof. unfold hdr_eqb. rewrite !Z.eqb_refl, !ubf_eqb_refl. reflexivity. Qed.
Lemma fdir_eqb_refl f : fdir_eqb f f = true.
Proof. unfold fdir_eqb. rewrite hdr_eqb_refl, Z.eqb_refl. reflexivity. Qed.

Lemma get_first_param f x (r : bytes) : fdir_valid f ->
  py_get (fdir_layout f ++ x :: r) (fdir_header_len f) = Ok x.
Proof.
  intros FV. rewrite py_get_app_r by (rewrite fdir_layout_len by exact FV; lia).
  rewrite fdir_layout_len by exact FV. rewrite Z.sub_diag. apply py_get_cons_0.
Qed.
Lemma get_second_param f x y (r : bytes) : fdir_valid f ->
  py_get (fdir_layout f ++ x :: y :: r) (fdir_header_len f + 1) = Ok y.
Proof.
  intros FV. rewrite py_get_app_r by (rewrite fdir_layout_len by exact FV; lia).
  rewrite fdir_layout_len by exact FV. replace (fdir_header_len f + 1 - fdir_header_len f) with 1 by lia.
  reflexivity.
Qed.

(* the default of `last` is irrelevant for a non-empty list *)
Lemma last_cons_default {A} (r : list A) : forall x d1 d2, last (x :: r) d1 = last (x :: r) d2.
Proof.
  induction r as [|y r IH]; intros x d1 d2; [reflexivity|].
  change (last (x :: y :: r) d1) with (last (y :: r) d1). change (last (x :: y :: r) d2) with (last (y :: r) d2).
  apply IH.
Qed.

