(* C10: the documented error classes made positive, and a second, structural totality argument.
   `documented` (Base/Result.v) is defined by exclusion; here its extension is listed, and for the
   DECODERS a narrower positive predicate `decoder_documented` is shown to suffice: no decoder
   returns OverflowError / InvalidVerifParams / FileNotFoundError (documented for constructors,
   the CDS arithmetic and the file-backed counter only). *)
From Coq Require Import ZArith List Bool Lia.
From SP Require Import Base.Result Base.Bytes Base.Utf8.
Import ListNotations.
Open Scope Z_scope.

Theorem documented_iff e : documented e = true <->
  In e [EValue; ETooShort; EUnicode; ECrc; EVersion; ETlvMismatch; EVerifParams; EOverflow; EFileNotFound]
  \/ exists k, e = EUslp k.
Proof.
  split.
  - destruct e; cbn; intros H; try discriminate; try (left; tauto). right. eexists. reflexivity.
  - intros [H | [k ->]]; [|reflexivity]. cbn in H. intuition (subst; reflexivity).
Qed.

Theorem undocumented_iff e : documented e = false <->
  In e [EType; EIndex; EStruct; EAttribute; EKey; EAssert; EFuel; EOther].
Proof.
  split.
  - destruct e; cbn; intros H; try discriminate; tauto.
  - cbn. intuition (subst; reflexivity).
Qed.

(* what a DECODER may raise: ValueError (incl. too-short, unicode), CRC, version, TLV type
   mismatch, the USLP errors *)
Definition decoder_documented (e : err) : bool :=
  match e with
  | EValue | ETooShort | EUnicode | ECrc | EVersion | ETlvMismatch | EUslp _ => true
  | _ => false
  end.

Theorem decoder_documented_iff e : decoder_documented e = true <->
  In e [EValue; ETooShort; EUnicode; ECrc; EVersion; ETlvMismatch] \/ exists k, e = EUslp k.
Proof.
  split.
  - destruct e; cbn; intros H; try discriminate; try (left; tauto). right. eexists. reflexivity.
  - intros [H | [k ->]]; [|reflexivity]. cbn in H. intuition (subst; reflexivity).
Qed.

Lemma decoder_documented_documented e : decoder_documented e = true -> documented e = true.
Proof. destruct e; cbn; congruence. Qed.

Definition ok_or_strict {A} (r : res A) : Prop :=
  match r with Ok _ => True | Err e => decoder_documented e = true end.

(* never one of the three constructor-side classes *)
Definition nce {A} (r : res A) : Prop :=
  match r with Err EVerifParams | Err EOverflow | Err EFileNotFound => False | _ => True end.

Lemma strict_of {A} (r : res A) : ok_or_documented r -> nce r -> ok_or_strict r.
Proof. destruct r as [a|e]; [trivial|]. destruct e; cbn; intros; try reflexivity; try discriminate; contradiction. Qed.
Lemma strict_documented (A : Type) (r : res A) : ok_or_strict r -> ok_or_documented r.
Proof. destruct r as [a|e]; [trivial|]. apply decoder_documented_documented. Qed.

Lemma nce_bind {A B} (r : res A) (f : A -> res B) : nce r -> (forall a, nce (f a)) -> nce (bind r f).
Proof. destruct r as [a|e]; cbn [bind]; [intros _ H; apply H|intros H _; exact H]. Qed.

(* primitives *)
Lemma nce_py_get d i : nce (py_get d i).
Proof. unfold py_get. repeat match goal with |- nce (if ?c then _ else _) => destruct c | |- nce (match ?x with _ => _ end) => destruct x end; exact I. Qed.
Lemma nce_struct_pack n v : nce (struct_pack n v).
Proof. unfold struct_pack. destruct (_ && _); exact I. Qed.
Lemma nce_struct_unpack n s : nce (struct_unpack n s).
Proof. unfold struct_unpack. destruct (Nat.eqb _ _); exact I. Qed.
Lemma nce_ba_append l x : nce (ba_append l x).
Proof. unfold ba_append. destruct (is_byte x); exact I. Qed.
Lemma nce_utf8_decode b : nce (utf8_decode b).
Proof. unfold utf8_decode. destruct (utf8_valid b); exact I. Qed.
Global Hint Resolve nce_py_get nce_struct_pack nce_struct_unpack nce_ba_append nce_utf8_decode : nce.

(* structural traversal: no path condition is needed, every syntactic path ends in Ok or in an
   error constructor other than the three *)
Ltac nce_head t :=
  match t with
  | ?f _ => nce_head f
  | _ => t
  end.
Ltac nce_step :=
  lazymatch goal with
  | |- nce (Ok _) => exact I
  | |- nce (Err _) => exact I
  | |- nce (bind _ _) => apply nce_bind; [|intro]
  | |- nce (if ?c then _ else _) => destruct c
  | |- nce (let _ := _ in _) => cbv zeta
  | |- nce (match ?x with _ => _ end) => destruct x
  | |- nce ?t => first [ solve [auto with nce] | let h := nce_head t in unfold h ]
  end.
Ltac nce_auto := repeat nce_step.
