(* Proofs for Model/SeqCount.v (property C19). *)
From Coq Require Import ZArith List Bool Lia ZifyBool Decimal DecimalZ DecimalPos.
From SP Require Import Base.Result Base.Bytes Base.BytesFacts Model.SeqCount Spec.SeqCountSpec.
Import ListNotations.
Open Scope Z_scope.
Ltac Zify.zify_post_hook ::= Z.to_euclidean_division_equations.

(* D-C19-1 on the unrepaired code: the in-memory provider never wraps *)
Lemma mem_seq_refuted :
  exists w n i, nth i (mem_run w n mem_init) 0 <> spec_counter w (Z.of_nat i) /\
                ~ in_range w (nth i (mem_run w n mem_init) 0).
Proof. exists 2, 6%nat, 4%nat. vm_compute. split; [discriminate|]. intros [_ H]. apply H. reflexivity. Qed.
