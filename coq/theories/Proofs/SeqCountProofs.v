(* Proofs for Model/SeqCount.v (property C19). *)
From Coq Require Import ZArith List Bool Lia ZifyBool Decimal DecimalZ DecimalPos.
From SP Require Import Base.Result Base.Bytes Base.BytesFacts Model.SeqCount Spec.SeqCountSpec.
Import ListNotations.
Open Scope Z_scope.

(* ================= the abstract counter ================= *)

Lemma pow2_pos w : 0 <= w -> 0 < 2 ^ w.
Proof. intros. apply Z.pow_pos_nonneg; lia. Qed.

Lemma incr_spec w n : 0 <= w -> in_range w n ->
  increment_with_rollover w n = spec_succ w n /\ in_range w (spec_succ w n).
Proof.
  intros Hw [H0 H1]. pose proof (pow2_pos w Hw) as Hp.
  unfold increment_with_rollover, spec_succ, in_range.
  destruct (n >=? 2 ^ w - 1) eqn:E.
  - assert (n = 2 ^ w - 1) as -> by lia. replace (2 ^ w - 1 + 1) with (2 ^ w) by lia.
    rewrite Z_mod_same_full. lia.
  - rewrite Z.mod_small by lia. lia.
Qed.

Lemma count_from_mod w k : forall a, count_from w (a mod 2 ^ w) k = count_from w a k.
Proof.
  induction k as [|k IH]; intros a; cbn [count_from]; [reflexivity|].
  f_equal.
  - destruct (Z.eq_dec (2 ^ w) 0) as [E|E]; [rewrite E, !Zmod_0_r; reflexivity|apply Z.mod_mod; assumption].
  - rewrite <- (IH (a mod 2 ^ w + 1)), <- (IH (a + 1)). f_equal.
    destruct (Z.eq_dec (2 ^ w) 0) as [E|E]; [rewrite E, !Zmod_0_r; reflexivity|].
    rewrite Z.add_mod_idemp_l by assumption. reflexivity.
Qed.

Lemma count_from_nth w k : forall n i, (i < k)%nat ->
  nth i (count_from w n k) 0 = spec_counter w (n + Z.of_nat i).
Proof.
  induction k as [|k IH]; intros n i Hi; [lia|].
  cbn [count_from]. destruct i as [|i]; cbn [nth].
  - unfold spec_counter. f_equal. lia.
  - rewrite IH by lia. unfold spec_counter. f_equal. lia.
Qed.

Lemma count_from_length w k : forall n, length (count_from w n k) = k.
Proof. induction k; intros; cbn [count_from length]; [reflexivity|rewrite IHk; reflexivity]. Qed.

Lemma spec_counter_in_range w i : 0 <= w -> in_range w (spec_counter w i).
Proof.
  intros Hw. pose proof (pow2_pos w Hw). unfold in_range, spec_counter.
  pose proof (Z.mod_pos_bound i (2 ^ w)). lia.
Qed.

(* ================= SeqCountProvider (in memory) ================= *)

Lemma mem_run_spec w : 0 <= w -> forall k c, in_range w c -> mem_run w k c = count_from w c k.
Proof.
  intros Hw. induction k as [|k IH]; intros c Hc; cbn [mem_run count_from mem_next]; [reflexivity|].
  destruct (incr_spec w c Hw Hc) as [E R]. unfold increment_with_rollover in E.
  f_equal.
  - destruct Hc. pose proof (pow2_pos w Hw). rewrite Z.mod_small by lia. reflexivity.
  - rewrite E, IH by assumption. unfold spec_succ. apply count_from_mod.
Qed.

(* the i-th call (from 0) of a fresh provider returns i mod 2^w, for every number of calls *)
Lemma mem_seq w n i : 0 <= w -> (i < n)%nat ->
  nth i (mem_run w n mem_init) 0 = spec_counter w (Z.of_nat i) /\
  in_range w (nth i (mem_run w n mem_init) 0).
Proof.
  intros Hw Hi. assert (R0 : in_range w mem_init).
  { unfold in_range, mem_init. pose proof (pow2_pos w Hw). lia. }
  rewrite mem_run_spec by assumption. rewrite count_from_nth by assumption.
  unfold mem_init. rewrite Z.add_0_l. split; [reflexivity|apply spec_counter_in_range; assumption].
Qed.

Lemma mem_run_length w n c : length (mem_run w n c) = n.
Proof. revert c. induction n; intros; cbn [mem_run mem_next length]; [reflexivity|rewrite IHn; reflexivity]. Qed.

(* ================= decimal numerals ================= *)

Lemma uint_of_digit_codes u : uint_of_codes (digit_codes u) = Some u.
Proof. induction u; cbn [digit_codes uint_of_codes]; try rewrite IHu; reflexivity. Qed.

Lemma digit_codes_digits u : forallb is_digit (digit_codes u) = true.
Proof. induction u; cbn [digit_codes forallb]; try rewrite IHu; reflexivity. Qed.

Lemma isdigit_digit_codes u : u <> Nil -> isdigit (digit_codes u) = true.
Proof.
  intros H. pose proof (digit_codes_digits u) as D. unfold isdigit.
  destruct u; try congruence; cbn [digit_codes] in *; exact D.
Qed.

Lemma str_of_Z_nonneg n : 0 <= n ->
  exists u, str_of_Z n = digit_codes u /\ u <> Nil /\ Z.of_uint u = n.
Proof.
  intros H. unfold str_of_Z. destruct n as [|p|p]; [| |lia]; cbn [Z.to_int].
  - exists (D0 Nil). split; [reflexivity|]. split; [discriminate|reflexivity].
  - exists (Pos.to_uint p). split; [reflexivity|]. split.
    + apply Unsigned.to_uint_nonnil.
    + unfold Z.of_uint. rewrite Unsigned.of_to. reflexivity.
Qed.

Lemma is_digit_plain c : is_digit c = true -> is_newline c = false /\ is_space c = false.
Proof. unfold is_digit, is_newline, is_space. lia. Qed.

Lemma readline_app_nl ds rest nl : forallb (fun c => negb (is_newline c)) ds = true ->
  is_newline nl = true -> readline (ds ++ nl :: rest) = ds ++ [10].
Proof.
  intros H Hn. induction ds as [|c r IH]; cbn [List.app readline].
  - rewrite Hn. reflexivity.
  - cbn [forallb] in H. apply andb_true_iff in H. destruct H as [Hc Hr].
    destruct (is_newline c); [discriminate|]. rewrite IH by assumption. reflexivity.
Qed.

Lemma readline_no_nl ds : forallb (fun c => negb (is_newline c)) ds = true -> readline ds = ds.
Proof.
  intros H. induction ds as [|c r IH]; cbn [readline]; [reflexivity|].
  cbn [forallb] in H. apply andb_true_iff in H. destruct H as [Hc Hr].
  destruct (is_newline c); [discriminate|]. rewrite IH by assumption. reflexivity.
Qed.

Lemma rstrip_spaces ws : forallb is_space ws = true -> rstrip ws = [].
Proof.
  induction ws as [|c r IH]; intros H; cbn [rstrip]; [reflexivity|].
  cbn [forallb] in H. apply andb_true_iff in H. destruct H as [Hc Hr].
  rewrite IH by assumption. rewrite Hc. reflexivity.
Qed.

Lemma rstrip_app_spaces s ws : forallb is_space ws = true -> rstrip (s ++ ws) = rstrip s.
Proof.
  intros H. induction s as [|c r IH]; cbn [List.app rstrip].
  - apply rstrip_spaces. assumption.
  - rewrite IH. reflexivity.
Qed.

Lemma rstrip_digits ds : forallb is_digit ds = true -> rstrip ds = ds.
Proof.
  induction ds as [|c r IH]; intros H; cbn [rstrip]; [reflexivity|].
  cbn [forallb] in H. apply andb_true_iff in H. destruct H as [Hc Hr].
  rewrite IH by assumption. destruct r; [|reflexivity].
  destruct (is_digit_plain c Hc) as [_ ->]. reflexivity.
Qed.

Lemma digits_no_nl ds : forallb is_digit ds = true -> forallb (fun c => negb (is_newline c)) ds = true.
Proof.
  intros H. rewrite forallb_forall in *. intros c Hc. specialize (H c Hc).
  destruct (is_digit_plain c H) as [-> _]. reflexivity.
Qed.

(* ================= FileSeqCountProvider ================= *)

(* the content c holds the valid count n, as the provider reads it *)
Definition file_valid (w : Z) (c : text) (n : Z) : Prop := check_count w (readline c) = Ok n.

Lemma check_count_range w l n : check_count w l = Ok n -> in_range w n.
Proof.
  unfold check_count, in_range. destruct (isdigit (rstrip l)); [|discriminate].
  destruct (py_int (rstrip l)) as [m|e]; cbn [bind]; [|discriminate].
  destruct (negb ((m <? 0) || (m >? 2 ^ w - 1))) eqn:E; [|discriminate].
  intros H. inversion H. subst. lia.
Qed.

Lemma isdigit_int_ok s : isdigit s = true -> exists n, py_int s = Ok n /\ 0 <= n.
Proof.
  intros H. assert (D : forallb is_digit s = true) by (destruct s; [discriminate|exact H]).
  clear H. unfold py_int.
  assert (E : exists u, uint_of_codes s = Some u).
  { induction s as [|c r IH]; [eexists; reflexivity|].
    cbn [forallb] in D. apply andb_true_iff in D. destruct D as [Hc Hr].
    destruct (IH Hr) as [u Hu]. cbn [uint_of_codes]. rewrite Hu.
    unfold is_digit in Hc.
    assert (C : c = 48 \/ c = 49 \/ c = 50 \/ c = 51 \/ c = 52 \/ c = 53 \/ c = 54 \/ c = 55 \/ c = 56 \/ c = 57) by lia.
    destruct C as [->|[->|[->|[->|[->|[->|[->|[->|[->| ->]]]]]]]]]; eexists; reflexivity. }
  destruct E as [u ->]. eexists. split; [reflexivity|]. unfold Z.of_uint. lia.
Qed.

(* check_count answers a count or ValueError, nothing else *)
Lemma check_count_cases w l : (exists n, check_count w l = Ok n) \/ check_count w l = Err EValue.
Proof.
  unfold check_count. destruct (isdigit (rstrip l)) eqn:D; [|right; reflexivity].
  destruct (isdigit_int_ok _ D) as [m [-> _]]. cbn [bind].
  destruct (negb ((m <? 0) || (m >? 2 ^ w - 1))); [left; eexists; reflexivity|right; reflexivity].
Qed.

Lemma check_count_numeral w m tail : in_range w m ->
  check_count w (readline ((str_of_Z m ++ [10]) ++ tail)) = Ok m.
Proof.
  intros [H0 H1]. destruct (str_of_Z_nonneg m H0) as (u & -> & Hu & Hv).
  pose proof (digit_codes_digits u) as D.
  rewrite <- app_assoc. cbn [List.app].
  rewrite readline_app_nl by (try reflexivity; apply digits_no_nl; assumption).
  unfold check_count. rewrite rstrip_app_spaces by reflexivity. rewrite rstrip_digits by assumption.
  rewrite isdigit_digit_codes by assumption.
  unfold py_int. rewrite uint_of_digit_codes. cbn [bind]. rewrite Hv.
  destruct (negb ((m <? 0) || (m >? 2 ^ w - 1))) eqn:E; [reflexivity|lia].
Qed.

(* one call on a valid file: returns the count held, leaves the successor in the file *)
Lemma file_next_valid w c n : 0 <= w -> file_valid w c n ->
  exists c', file_next w (Some c) = (Ok n, Some c') /\ file_valid w c' (spec_succ w n) /\
             c' = write_at_0 c (str_of_Z (spec_succ w n) ++ [10]).
Proof.
  intros Hw Hv. unfold file_valid in Hv. pose proof (check_count_range _ _ _ Hv) as R.
  destruct (incr_spec w n Hw R) as [E R']. unfold file_next. rewrite Hv, E.
  eexists. split; [reflexivity|]. split; [|reflexivity].
  unfold file_valid, write_at_0. apply check_count_numeral. assumption.
Qed.

Lemma file_current_valid w c n : file_valid w c n -> file_current w (Some c) = Ok n.
Proof. intros H. exact H. Qed.

(* the provider refines the abstract counter under every history, with a new provider
   object allowed at every inter-call point; the file is valid again after every operation *)
Lemma file_refines w : 0 <= w -> forall ops c n, file_valid w c n ->
  exists c', file_run w (Some c) ops = (fst (spec_run w n ops), Some c') /\
             file_valid w c' (snd (spec_run w n ops)).
Proof.
  intros Hw. induction ops as [|o ops IH]; intros c n Hv.
  - exists c. split; [reflexivity|exact Hv].
  - destruct o; cbn [file_run file_step spec_run].
    + destruct (file_next_valid w c n Hw Hv) as (c1 & E1 & V1 & _). rewrite E1.
      destruct (IH c1 _ V1) as (c2 & E2 & V2). rewrite E2.
      destruct (spec_run w (spec_succ w n) ops) as [rs n'] eqn:S. cbn [fst snd] in *.
      exists c2. split; [reflexivity|exact V2].
    + rewrite (file_current_valid w c n Hv).
      destruct (IH c n Hv) as (c2 & E2 & V2). rewrite E2.
      destruct (spec_run w n ops) as [rs n'] eqn:S. cbn [fst snd] in *.
      exists c2. split; [reflexivity|exact V2].
    + cbn [file_new]. destruct (IH c n Hv) as (c2 & E2 & V2). rewrite E2.
      destruct (spec_run w n ops) as [rs n'] eqn:S. cbn [fst snd] in *.
      exists c2. split; [reflexivity|exact V2].
Qed.

(* what the abstract counter returns to the Next calls: n, n+1, ... modulo 2^w, whatever
   Current calls and restarts are interleaved *)
Lemma spec_run_nexts w : 0 <= w -> forall ops n, in_range w n ->
  next_values ops (fst (spec_run w n ops)) = map Ok (count_from w n (count_nexts ops)) /\
  in_range w (snd (spec_run w n ops)).
Proof.
  intros Hw. pose proof (pow2_pos w Hw) as Hp.
  induction ops as [|o ops IH]; intros n Hn; [split; [reflexivity|exact Hn]|].
  destruct o; cbn [spec_run count_nexts].
  - assert (R : in_range w (spec_succ w n)).
    { unfold spec_succ. apply (spec_counter_in_range w (n + 1) Hw). }
    destruct (IH _ R) as [E1 E2].
    destruct (spec_run w (spec_succ w n) ops) as [rs n'] eqn:S. cbn [fst snd next_values] in *.
    split; [|exact E2]. cbn [count_from map]. f_equal.
    + destruct Hn. rewrite Z.mod_small by lia. reflexivity.
    + rewrite E1. unfold spec_succ. rewrite count_from_mod. reflexivity.
  - destruct (IH _ Hn) as [E1 E2].
    destruct (spec_run w n ops) as [rs n'] eqn:S. cbn [fst snd next_values] in *. split; assumption.
  - destruct (IH _ Hn) as [E1 E2].
    destruct (spec_run w n ops) as [rs n'] eqn:S. cbn [fst snd next_values] in *. split; assumption.
Qed.

(* the sequence: on a file holding n, the Next calls of ANY history (restarts and current()
   anywhere) return n, n+1, ... modulo 2^w *)
Lemma file_seq w ops c n : 0 <= w -> file_valid w c n ->
  next_values ops (fst (file_run w (Some c) ops)) = map Ok (count_from w n (count_nexts ops)) /\
  exists c' n', snd (file_run w (Some c) ops) = Some c' /\ file_valid w c' n'.
Proof.
  intros Hw Hv. destruct (file_refines w Hw ops c n Hv) as (c' & E & V).
  rewrite E. cbn [fst snd]. split.
  - apply spec_run_nexts; [assumption|]. eapply check_count_range. exact Hv.
  - eauto.
Qed.

(* first use: a provider created where no file exists starts at 0 *)
Lemma file_first_use w : 0 <= w -> file_new None = Some [48; 10] /\ file_valid w [48; 10] 0.
Proof.
  intros Hw. split; [reflexivity|]. unfold file_valid.
  change [48; 10] with ((str_of_Z 0 ++ [10]) ++ []). apply check_count_numeral.
  unfold in_range. pose proof (pow2_pos w Hw). lia.
Qed.

Lemma file_seq_fresh w ops : 0 <= w ->
  next_values ops (fst (file_run w (file_new None) ops)) = map Ok (count_from w 0 (count_nexts ops)).
Proof.
  intros Hw. destruct (file_first_use w Hw) as [-> V]. apply file_seq; assumption.
Qed.

(* a new provider object on an existing file does not touch it and carries no state *)
Lemma file_restart w c : file_step w (Some c) FRestart = (None, Some c).
Proof. reflexivity. Qed.

(* rejection clauses *)
Lemma file_missing w :
  file_next w None = (Err EFileNotFound, None) /\ file_current w None = Err EFileNotFound.
Proof. split; reflexivity. Qed.

Lemma file_bad_content w c : (forall n, ~ file_valid w c n) ->
  file_next w (Some c) = (Err EValue, Some c) /\ file_current w (Some c) = Err EValue.
Proof.
  intros H. unfold file_next, file_current.
  destruct (check_count_cases w (readline c)) as [[n E]|E].
  - exfalso. apply (H n). exact E.
  - rewrite E. split; reflexivity.
Qed.

(* every outcome of one call: count in range / ValueError / FileNotFoundError *)
Lemma file_next_total w fs :
  match fst (file_next w fs) with
  | Ok n => in_range w n
  | Err e => e = EValue \/ (e = EFileNotFound /\ fs = None)
  end.
Proof.
  destruct fs as [c|]; [|right; split; reflexivity]. unfold file_next.
  destruct (check_count_cases w (readline c)) as [[n E]|E]; rewrite E; cbn [fst].
  - eapply check_count_range. exact E.
  - left. reflexivity.
Qed.

(* PUS provider: width 14, every value is a packet sequence count *)
Lemma pus_range n : in_range PUS_SEQ_WIDTH n <-> 0 <= n <= MAX_SEQ_COUNT.
Proof. unfold in_range, PUS_SEQ_WIDTH, MAX_SEQ_COUNT. change (2 ^ 14) with 16384. lia. Qed.

(* ================= non-vacuity ================= *)
Example file_valid_example : file_valid 14 [49; 54; 51; 56; 51; 10] 16383.
Proof. vm_compute. reflexivity. Qed.
Example file_rollover_example :
  file_next 14 (Some [49; 54; 51; 56; 51; 10]) = (Ok 16383, Some [48; 10; 51; 56; 51; 10]).
Proof. vm_compute. reflexivity. Qed.
Example mem_wrap_example : mem_run 2 6 mem_init = [0; 1; 2; 3; 0; 1].
Proof. vm_compute. reflexivity. Qed.

(* ================= the reading of the file against the independent notion `holds_count` ================= *)

Fixpoint horner (u : uint) (acc : Z) : Z :=
  match u with
  | Nil => acc
  | D0 l => horner l (acc * 10 + 0) | D1 l => horner l (acc * 10 + 1) | D2 l => horner l (acc * 10 + 2)
  | D3 l => horner l (acc * 10 + 3) | D4 l => horner l (acc * 10 + 4) | D5 l => horner l (acc * 10 + 5)
  | D6 l => horner l (acc * 10 + 6) | D7 l => horner l (acc * 10 + 7) | D8 l => horner l (acc * 10 + 8)
  | D9 l => horner l (acc * 10 + 9)
  end.

Lemma of_uint_acc_horner d : forall acc, Z.pos (Pos.of_uint_acc d acc) = horner d (Z.pos acc).
Proof.
  induction d; intros acc; cbn [Pos.of_uint_acc horner]; try reflexivity; rewrite IHd; f_equal; lia.
Qed.

Lemma of_uint_horner d : Z.of_uint d = horner d 0.
Proof.
  unfold Z.of_uint. induction d; cbn [Pos.of_uint horner Z.of_N]; try reflexivity;
    try (rewrite of_uint_acc_horner; reflexivity).
  exact IHd.
Qed.

Lemma uint_of_codes_horner s : forall u acc, uint_of_codes s = Some u ->
  fold_left (fun a c => a * 10 + (c - 48)) s acc = horner u acc.
Proof.
  induction s as [|c r IH]; intros u acc H; cbn [uint_of_codes] in H.
  - inversion H. reflexivity.
  - destruct (uint_of_codes r) as [u'|] eqn:E; [|discriminate].
    cbn [fold_left].
    repeat match type of H with
    | (if ?c =? ?k then _ else _) = _ => destruct (c =? k) eqn:?
    end; try discriminate; inversion H; subst u; cbn [horner];
    rewrite (IH u' _ eq_refl); f_equal; lia.
Qed.

Lemma py_int_dec_value s n : py_int s = Ok n -> n = dec_value s.
Proof.
  unfold py_int, dec_value. destruct (uint_of_codes s) as [u|] eqn:E; [|discriminate].
  intros H. inversion H. rewrite (uint_of_codes_horner s u 0 E). apply of_uint_horner.
Qed.

Lemma py_int_digits s : s <> [] -> forallb is_digit s = true -> py_int s = Ok (dec_value s).
Proof.
  intros Hn Hd. assert (D : isdigit s = true) by (destruct s; [congruence|exact Hd]).
  destruct (isdigit_int_ok s D) as [n [E _]]. rewrite E. f_equal. apply py_int_dec_value. exact E.
Qed.

Lemma readline_decomp c :
  (forallb (fun x => negb (is_newline x)) c = true /\ readline c = c) \/
  (exists pre nl r, c = pre ++ nl :: r /\ forallb (fun x => negb (is_newline x)) pre = true /\
                    is_newline nl = true /\ readline c = pre ++ [10]).
Proof.
  induction c as [|x r IH].
  - left. split; reflexivity.
  - cbn [readline forallb]. destruct (is_newline x) eqn:E.
    + right. exists [], x, r. repeat split. exact E.
    + destruct IH as [[H1 H2]|(pre & nl & r' & H1 & H2 & H3 & H4)].
      * left. rewrite H1, H2. split; reflexivity.
      * right. exists (x :: pre), nl, r'. cbn [forallb List.app]. rewrite E, H2, H4, H1.
        repeat split. exact H3.
Qed.

Lemma rstrip_decomp s : exists ws, s = rstrip s ++ ws /\ forallb is_space ws = true.
Proof.
  induction s as [|c r IH].
  - exists []. split; reflexivity.
  - destruct IH as (ws & E & Hs). cbn [rstrip]. destruct (rstrip r) as [|y r'] eqn:R.
    + destruct (is_space c) eqn:Ec.
      * exists (c :: r). split; [reflexivity|]. cbn [List.app] in E. rewrite E at 1. cbn [forallb]. rewrite Ec, Hs. reflexivity.
      * exists ws. split; [|exact Hs]. cbn [List.app] in *. congruence.
    + exists ws. split; [|exact Hs]. cbn [List.app] in *. congruence.
Qed.

Lemma forallb_Forall_digits s : forallb is_digit s = true <-> Forall (fun c => 48 <= c <= 57) s.
Proof.
  rewrite forallb_forall, Forall_forall. unfold is_digit. split; intros H x Hx; specialize (H x Hx); lia.
Qed.
Lemma forallb_Forall_spaces s : forallb is_space s = true <-> spaces s.
Proof.
  unfold spaces. rewrite forallb_forall, Forall_forall. unfold is_space.
  split; intros H x Hx; specialize (H x Hx); lia.
Qed.
Lemma forallb_Forall_nonl s : forallb (fun x => negb (is_newline x)) s = true <-> no_newline s.
Proof.
  unfold no_newline. rewrite forallb_forall, Forall_forall. unfold is_newline.
  split; intros H x Hx; specialize (H x Hx); lia.
Qed.

(* a content the independent reading accepts is accepted by the provider, with that count *)
Lemma holds_count_valid w c n : holds_count w c n -> file_valid w c n.
Proof.
  intros (ds & ws & rest & [Hne Hd] & Hs & Hnl & Hrest & -> & Hv & Hr).
  apply forallb_Forall_digits in Hd. apply forallb_Forall_spaces in Hs. apply forallb_Forall_nonl in Hnl.
  assert (L : exists tl, readline (ds ++ ws ++ rest) = ds ++ ws ++ tl /\ forallb is_space tl = true).
  { destruct Hrest as [->|(nl & r & -> & Hn)].
    - exists []. split; [|reflexivity]. rewrite app_nil_r. apply readline_no_nl.
      rewrite forallb_app, Hnl, (digits_no_nl ds Hd). reflexivity.
    - exists [10]. split; [|reflexivity]. rewrite app_assoc. rewrite readline_app_nl.
      + rewrite <- app_assoc. reflexivity.
      + rewrite forallb_app, Hnl, (digits_no_nl ds Hd). reflexivity.
      + unfold is_newline. lia. }
  unfold file_valid, check_count. destruct L as (tl & -> & Htl).
  rewrite app_assoc, rstrip_app_spaces by assumption.
  rewrite rstrip_app_spaces by assumption. rewrite rstrip_digits by assumption.
  assert (D : isdigit ds = true) by (destruct ds; [congruence|exact Hd]). rewrite D.
  rewrite py_int_digits by assumption. cbn [bind]. rewrite Hv.
  destruct Hr. destruct (negb ((n <? 0) || (n >? 2 ^ w - 1))) eqn:E; [reflexivity|lia].
Qed.

(* ... and conversely: whatever the provider accepts has that shape *)
Lemma valid_holds_count w c n : file_valid w c n -> holds_count w c n.
Proof.
  unfold file_valid. intros H. pose proof (check_count_range _ _ _ H) as Hr.
  unfold check_count in H. destruct (isdigit (rstrip (readline c))) eqn:D; [|discriminate].
  destruct (py_int (rstrip (readline c))) as [m|e] eqn:P; cbn [bind] in H; [|discriminate].
  destruct (negb ((m <? 0) || (m >? 2 ^ w - 1))); [|discriminate]. inversion H. subst m.
  apply py_int_dec_value in P.
  destruct (rstrip_decomp (readline c)) as (ws' & E & Hs').
  set (ds := rstrip (readline c)) in *.
  assert (Hne : ds <> []) by (destruct ds; [discriminate|congruence]).
  assert (Hd : forallb is_digit ds = true) by (destruct ds; [discriminate|exact D]).
  destruct (readline_decomp c) as [[N L]|(pre & nl & r & Ec & N & Hn & L)].
  - rewrite L in E. exists ds, ws', []. rewrite app_nil_r.
    rewrite E, forallb_app in N. apply andb_true_iff in N. destruct N as [_ N].
    repeat split; try assumption; try (apply forallb_Forall_digits; assumption);
      try (apply forallb_Forall_spaces; assumption); try (apply forallb_Forall_nonl; assumption);
      try (left; reflexivity); try (symmetry; assumption); apply Hr.
  - rewrite L in E.
    destruct (exists_last (l := ws')) as (ws & x & Ew).
    { intros ->. rewrite app_nil_r in E. rewrite <- E, forallb_app in Hd.
      apply andb_true_iff in Hd. destruct Hd as [_ Hd]. discriminate. }
    subst ws'. rewrite app_assoc in E. apply app_inj_tail in E. destruct E as [Ep Ex]. subst x.
    rewrite forallb_app in Hs'. apply andb_true_iff in Hs'. destruct Hs' as [Hs _].
    rewrite Ep, forallb_app in N. apply andb_true_iff in N. destruct N as [_ N].
    exists ds, ws, (nl :: r). rewrite Ec, Ep, <- app_assoc.
    repeat split; try assumption; try (apply forallb_Forall_digits; assumption);
      try (apply forallb_Forall_spaces; assumption); try (apply forallb_Forall_nonl; assumption);
      try (symmetry; assumption); try apply Hr.
    right. exists nl, r. split; [reflexivity|]. unfold is_newline in Hn. lia.
Qed.

Lemma file_valid_iff w c n : file_valid w c n <-> holds_count w c n.
Proof. split; [apply valid_holds_count|apply holds_count_valid]. Qed.

(* one call on ANY file state, against the independent notions only *)
Lemma file_next_spec w fs : 0 <= w ->
  match fs with
  | None => file_next w fs = (Err EFileNotFound, None) /\ file_current w fs = Err EFileNotFound
  | Some c =>
      (forall n, holds_count w c n ->
         exists c', file_next w fs = (Ok n, Some c') /\ holds_count w c' (spec_succ w n) /\
                    file_current w fs = Ok n) /\
      ((forall n, ~ holds_count w c n) ->
         file_next w fs = (Err EValue, Some c) /\ file_current w fs = Err EValue)
  end.
Proof.
  intros Hw. destruct fs as [c|]; [|apply file_missing]. split.
  - intros n H. apply file_valid_iff in H.
    destruct (file_next_valid w c n Hw H) as (c' & E & V & _).
    exists c'. split; [exact E|]. split; [apply file_valid_iff; exact V|exact H].
  - intros H. apply file_bad_content. intros n V. apply (H n). apply file_valid_iff. exact V.
Qed.

(* ================= live provider objects and their public setters ================= *)

(* in-memory provider: a call obeys the width configured AT THAT MOMENT -- the provider keeps
   no limit of its own, so re-configuring through the max_bit_width setter is exactly as good
   as having constructed it with that width *)
Lemma memprov_next_spec p : 0 <= m_width p -> in_range (m_width p) (m_count p) ->
  memprov_step p MNext =
    (Some (m_count p), {| m_count := spec_succ (m_width p) (m_count p); m_width := m_width p |}) /\
  in_range (m_width p) (spec_succ (m_width p) (m_count p)).
Proof.
  intros Hw R. destruct (incr_spec _ _ Hw R) as [E R']. split; [|exact R'].
  unfold memprov_step, mem_next. unfold increment_with_rollover in E. rewrite E. reflexivity.
Qed.

Lemma memprov_set_width_next p w :
  memprov_step (snd (memprov_step p (MSetWidth w))) MNext =
  memprov_step {| m_count := m_count p; m_width := w |} MNext.
Proof. reflexivity. Qed.

(* the setters change exactly what they name *)
Lemma memprov_set_width_spec p w :
  memprov_step p (MSetWidth w) = (None, {| m_count := m_count p; m_width := w |}).
Proof. reflexivity. Qed.
Lemma memprov_set_count_spec p c :
  memprov_step p (MSetCount c) = (None, {| m_count := c; m_width := m_width p |}).
Proof. reflexivity. Qed.

(* any number of calls after a re-configuration: the abstract counter of the NEW width *)
Fixpoint memprov_run (p : memprov) (k : nat) : list Z :=
  match k with
  | O => []
  | S k' => match memprov_step p MNext with
            | (Some v, p') => v :: memprov_run p' k'
            | (None, _) => []
            end
  end.
Lemma memprov_run_mem_run p k : memprov_run p k = mem_run (m_width p) k (m_count p).
Proof.
  revert p. induction k as [|k IH]; intros p; [reflexivity|].
  cbn [memprov_run mem_run memprov_step]. unfold mem_next at 1 2. cbn [fst snd].
  rewrite IH. reflexivity.
Qed.
Lemma memprov_reconfigured_seq p w c k i : 0 <= w -> in_range w c -> (i < k)%nat ->
  let p' := snd (memprov_step (snd (memprov_step p (MSetWidth w))) (MSetCount c)) in
  nth i (memprov_run p' k) 0 = spec_counter w (c + Z.of_nat i).
Proof.
  intros Hw R Hi. cbv zeta. rewrite memprov_run_mem_run. cbn [memprov_step snd m_width m_count].
  rewrite mem_run_spec by assumption. apply count_from_nth. exact Hi.
Qed.

(* file providers *)
Lemma w_set_cur_cur s : w_set_cur s (w_cur s) = s.
Proof. destruct s as [w b fa fb w2]. destruct b; reflexivity. Qed.
Lemma w_cur_set_cur s f : w_cur (w_set_cur s f) = f.
Proof. destruct s as [w b fa fb w2]. destruct b; reflexivity. Qed.
Lemma w_width_set_cur s f : w_width (w_set_cur s f) = w_width s.
Proof. destruct s as [w b fa fb w2]. destruct b; reflexivity. Qed.

(* a provider re-configured through the setter is indistinguishable from a NEW provider object of
   that width on the same (existing) file: the object holds no other state *)
Lemma world_set_width_is_new s w c : w_cur s = Some c ->
  world_step s (WSetWidth w) = world_step s (WNew w).
Proof.
  intros H. cbn [world_step].
  assert (E : w_cur (w_set_width s w) = Some c) by (destruct s as [? b ? ? ?]; destruct b; exact H).
  rewrite <- (w_set_cur_cur (w_set_width s w)) at 1. rewrite E.
  replace (file_new (w_cur s)) with (Some c) by (rewrite H; reflexivity).
  reflexivity.
Qed.

(* after the setter every call uses the new width: valid content of the new range is returned and
   advanced modulo 2^w, content outside it (or unreadable) is refused with ValueError and the file
   is left alone *)
Lemma world_next_after_set_width s w c : 0 <= w -> w_cur s = Some c ->
  let s1 := snd (world_step s (WSetWidth w)) in
  (forall n, holds_count w c n ->
     exists c', world_step s1 WNext = (Some (Ok n), w_set_cur s1 (Some c')) /\
                holds_count w c' (spec_succ w n)) /\
  ((forall n, ~ holds_count w c n) -> world_step s1 WNext = (Some (Err EValue), s1)).
Proof.
  intros Hw Hc. cbv zeta. cbn [world_step snd].
  assert (E : w_cur (w_set_width s w) = Some c) by (destruct s as [? b ? ? ?]; destruct b; exact Hc).
  assert (Ew : w_width (w_set_width s w) = w) by reflexivity.
  rewrite E, Ew. pose proof (file_next_spec w (Some c) Hw) as [Hok Hbad]. split.
  - intros n Hn. destruct (Hok n Hn) as (c' & En & Hv & _). exists c'. rewrite En. split; [reflexivity|exact Hv].
  - intros Hn. destruct (Hbad Hn) as [En _]. rewrite En. f_equal.
    transitivity (w_set_cur (w_set_width s w) (w_cur (w_set_width s w))); [rewrite E; reflexivity|apply w_set_cur_cur].
Qed.

(* the two files do not interfere: a call of the second provider never touches file A, and a call
   of the main provider never touches the file it does not point at *)
Lemma world_next2_keeps_a s : w_a (snd (world_step s WNext2)) = w_a s.
Proof. cbn [world_step]. destruct (file_next (w_width2 s) (w_b s)). reflexivity. Qed.
Lemma world_next_keeps_other s :
  let s' := snd (world_step s WNext) in
  (if w_on_b s then w_a s' = w_a s else w_b s' = w_b s) /\ w_on_b s' = w_on_b s /\ w_width s' = w_width s.
Proof.
  cbv zeta. cbn [world_step]. destruct (file_next (w_width s) (w_cur s)) as [r f]. cbn [snd].
  destruct s as [w b fa fb w2]. destruct b; cbn; auto.
Qed.
