(* Lemmas about Model/Finished.v against Spec/PduBSpec.v: layout, lengths, round trip for
   response lists of any length (induction with a generalised "decode the rest" lemma),
   re-pack, equality, totality / prefix rejection (C10), no fold-in of trailing octets (C09),
   CRC acceptance (C04), setter invariants (C11). *)
From Coq Require Import ZArith List Bool Lia ZifyBool.
From SP Require Import Base.Result Base.Bytes Base.BytesFacts Base.Utf8 Base.Crc16 Base.Crc16Facts
  Model.PduHeader Spec.PduHeaderSpec Proofs.PduHeaderProofs
  Model.FileDirective Proofs.FileDirectiveProofs
  Model.Lv Model.Tlv Spec.TlvSpec Proofs.LvProofs Proofs.TlvProofs
  Model.Finished Model.Metadata Spec.PduBSpec.
Import ListNotations.
Open Scope Z_scope.
Ltac Zify.zify_post_hook ::= Z.to_euclidean_division_equations.

(* ================= generic helpers (shared with MetadataProofs) ================= *)

Lemma py_get_at (A : bytes) b X i : i = len A -> py_get (A ++ b :: X) i = Ok b.
Proof. intros ->. rewrite py_get_app_r by lia. rewrite Z.sub_diag. reflexivity. Qed.

Lemma slice_at (A M C : bytes) i j : i = len A -> j = len A + len M -> slice (A ++ M ++ C) i j = M.
Proof. apply slice_mid. Qed.

Lemma slice_from_at (A B : bytes) i : i = len A -> slice_from (A ++ B) i = B.
Proof. apply slice_from_app. Qed.

Lemma cat_app {A} (f : A -> bytes) l1 l2 : cat f (l1 ++ l2) = cat f l1 ++ cat f l2.
Proof. induction l1 as [|x l IH]; cbn [cat app]; [reflexivity|]. rewrite IH, app_assoc. reflexivity. Qed.

Lemma cat_wf {A} (f : A -> bytes) l : Forall (fun x => wf_bytes (f x)) l -> wf_bytes (cat f l).
Proof.
  induction 1 as [|x l Hx _ IH]; cbn [cat]; [constructor|]. apply wf_bytes_app. split; assumption.
Qed.

(* every item occupies at least one octet: a list is never longer than its encoding *)
Lemma cat_length_ge {A} (f : A -> bytes) l :
  Forall (fun x => (1 <= length (f x))%nat) l -> (length l <= length (cat f l))%nat.
Proof.
  induction 1 as [|x l Hx _ IH]; cbn [cat length]; [lia|]. rewrite app_length. lia.
Qed.

Lemma with_crc_len c pre : len (with_crc c pre) = len pre + crc_octets c.
Proof.
  unfold with_crc, crc_octets. destruct (cf_crc c =? 1); [|lia].
  rewrite len_app, len_be_encode. lia.
Qed.

Lemma crc_octets_cases c : flag (cf_crc c) ->
  (cf_crc c = 0 /\ crc_octets c = 0) \/ (cf_crc c = 1 /\ crc_octets c = 2).
Proof. intros [E | E]; unfold crc_octets; rewrite E; [left|right]; split; reflexivity. Qed.

Lemma ok_inj {A} (x y : A) : Ok x = Ok y -> x = y.
Proof. intros H. injection H as ->. reflexivity. Qed.

(* ================= the first parameter octet ================= *)

Definition chk_finoct (b : Z) : bool :=
  (Z.shiftr (Z.land b 240) 4 =? b / 16) && (Z.shiftr (Z.land b 4) 2 =? (b / 4) mod 2) &&
  (Z.land b 3 =? b mod 4) &&
  (Z.lor (Z.lor (Z.shiftl (b / 16) 4) (Z.shiftl ((b / 4) mod 2) 2)) (b mod 4)
   =? b / 16 * 16 + (b / 4) mod 2 * 4 + b mod 4).
Lemma finoct_sweep : forallb chk_finoct (zrange 0 256) = true.
Proof. vm_compute. reflexivity. Qed.
Lemma finoct b : 0 <= b < 256 ->
  Z.shiftr (Z.land b 240) 4 = b / 16 /\ Z.shiftr (Z.land b 4) 2 = (b / 4) mod 2 /\
  Z.land b 3 = b mod 4 /\
  Z.lor (Z.lor (Z.shiftl (b / 16) 4) (Z.shiftl ((b / 4) mod 2) 2)) (b mod 4)
  = b / 16 * 16 + (b / 4) mod 2 * 4 + b mod 4.
Proof.
  intros H. pose proof (sweep _ 0 256 ltac:(lia) finoct_sweep b ltac:(lia)) as P.
  unfold chk_finoct in P. rewrite !andb_true_iff, !Z.eqb_eq in P. tauto.
Qed.

Lemma finoct_of cc dc fs : 0 <= cc <= 15 -> flag dc -> 0 <= fs <= 3 ->
  let b := cc * 16 + dc * 4 + fs in
  0 <= b < 256 /\ Z.lor (Z.lor (Z.shiftl cc 4) (Z.shiftl dc 2)) fs = b /\
  Z.shiftr (Z.land b 240) 4 = cc /\ Z.shiftr (Z.land b 4) 2 = dc /\ Z.land b 3 = fs.
Proof.
  intros Hc Hd Hf b. assert (R : 0 <= b < 256) by (unfold b, flag in *; lia).
  destruct (finoct b R) as (A & B & C & D).
  assert (E1 : b / 16 = cc) by (unfold b, flag in *; lia).
  assert (E2 : (b / 4) mod 2 = dc) by (unfold b, flag in *; lia).
  assert (E3 : b mod 4 = fs) by (unfold b, flag in *; lia).
  rewrite E1, E2, E3 in *. repeat split; try assumption; try lia.
Qed.

Lemma cc_valid_member cc : cc_valid cc -> condition_code_of_int cc = Ok cc.
Proof.
  intros (R & N1 & N2 & N3). unfold condition_code_of_int.
  assert (is_condition_code cc = true) as ->; [|reflexivity].
  unfold is_condition_code, memz, condition_codes, CC_NO_CONDITION_FIELD, CC_NO_ERROR,
    CC_POSITIVE_ACK_LIMIT_REACHED, CC_KEEP_ALIVE_LIMIT_REACHED, CC_INVALID_TRANSMISSION_MODE,
    CC_FILESTORE_REJECTION, CC_FILE_CHECKSUM_FAILURE, CC_FILE_SIZE_ERROR, CC_NAK_LIMIT_REACHED,
    CC_INACTIVITY_DETECTED, CC_CHECK_LIMIT_REACHED, CC_UNSUPPORTED_CHECKSUM_TYPE,
    CC_SUSPEND_REQUEST_RECEIVED, CC_CANCEL_REQUEST_RECEIVED.
  cbn [existsb]. lia.
Qed.
Lemma dc_member dc : flag dc -> delivery_code_of_int dc = Ok dc.
Proof. intros [-> | ->]; reflexivity. Qed.
Lemma fs_member fs : 0 <= fs <= 3 -> file_status_of_int fs = Ok fs.
Proof.
  intros H. unfold file_status_of_int, FS_DISCARDED_DELIBERATELY, FS_DISCARDED_FILESTORE_REJECTION,
    FS_FILE_RETAINED, FS_FILE_STATUS_UNREPORTED.
  destruct (_ || _) eqn:E; [reflexivity|lia].
Qed.

Lemma fault_allowed_spec q : fin_might_have_fault q = fault_allowed (fn_cc q).
Proof. reflexivity. Qed.

(* ================= filestore responses: element-wise facts ================= *)

Lemma resp_layout_len r : len (resp_layout r) = fsresp_packet_len r.
Proof. unfold resp_layout. symmetry. apply fsresp_packet_len_layout. Qed.

Lemma resps_len_cat l : resps_len l = len (cat resp_layout l).
Proof.
  induction l as [|r l IH]; cbn [resps_len cat]; [reflexivity|].
  rewrite len_app, resp_layout_len, IH. reflexivity.
Qed.

Lemma resp_eta r :
  {| fp_action := fp_action r; fp_status := fp_status r; fp_first := fp_first r;
     fp_second := fp_second r; fp_msg := fp_msg r |} = r.
Proof. destruct r; reflexivity. Qed.

Lemma resp_valid_pack r : resp_valid r -> fsresp_pack r = Ok (resp_layout r).
Proof.
  intros (Ha & Hm & Hn & Hd & Hl & Uf & Us & _).
  destruct (fsresp_roundtrip_status (fp_action r) (fp_status r) (fp_first r) (fp_second r) (fp_msg r) []
              Hm Hn Hd Hl Uf Us) as (P & _ & _).
  rewrite resp_eta in P. exact P.
Qed.

Lemma resp_valid_unpack r rest : resp_valid r ->
  fsresp_unpack (resp_layout r ++ rest) = Ok (resp_norm r).
Proof.
  intros (Ha & Hm & Hn & Hd & Hl & Uf & Us & _).
  destruct (fsresp_roundtrip_status (fp_action r) (fp_status r) (fp_first r) (fp_second r) (fp_msg r) rest
              Hm Hn Hd Hl Uf Us) as (_ & _ & U).
  exact U.
Qed.

Lemma resp_layout_norm r : resp_layout (resp_norm r) = resp_layout r.
Proof.
  unfold resp_layout, resp_norm, fsresp_layout, fs_names_layout. cbn [fp_action fp_status fp_first fp_second fp_msg].
  destruct (second_name_present (fp_action r)); reflexivity.
Qed.

Lemma resp_layout_wf r : resp_valid r -> wf_bytes (resp_layout r).
Proof.
  intros (Ha & Hm & Hn & Hd & Hl & Uf & Us & Wf & Ws & Wm).
  pose proof (len_nonneg (fp_first r)). pose proof (len_nonneg (fp_second r)). pose proof (len_nonneg (fp_msg r)).
  pose proof (len_nonneg (fs_names_layout (fp_action r) (fp_first r) (fp_second r))).
  assert (L1 : len (fp_first r) <= 255 /\ (second_name_present (fp_action r) = true -> len (fp_second r) <= 255)).
  { rewrite fs_names_len in Hl. destruct (second_name_present (fp_action r)); split; intros; lia. }
  unfold resp_layout, fsresp_layout, tlv_layout.
  constructor; [unfold T_FILESTORE_RESPONSE; lia|].
  constructor; [rewrite !len_app, lv_layout_len; change (len [_]) with 1; lia|].
  rewrite !wf_bytes_app. split; [constructor; [lia|constructor]|]. split.
  - unfold fs_names_layout, lv_layout. apply wf_bytes_app. split.
    + constructor; [lia|exact Wf].
    + destruct (second_name_present (fp_action r)); [|constructor]. constructor; [lia|exact Ws].
  - unfold lv_layout. constructor; [lia|exact Wm].
Qed.

Lemma resp_layout_head r : exists tl, resp_layout r = TLV_FILESTORE_RESPONSE :: tl.
Proof. eexists. reflexivity. Qed.

Lemma resp_norm_valid r : resp_valid r -> resp_valid (resp_norm r).
Proof.
  intros (Ha & Hm & Hn & Hd & Hl & Uf & Us & Wf & Ws & Wm).
  unfold resp_valid, resp_norm. cbn [fp_action fp_status fp_first fp_second fp_msg].
  repeat split; try assumption; try lia.
  - unfold fs_names_layout in *. destruct (second_name_present (fp_action r)); assumption.
  - intros E. rewrite E. apply Us. exact E.
  - destruct (second_name_present (fp_action r)); [assumption|constructor].
Qed.

Lemma resp_norm_idem r : resp_norm (resp_norm r) = resp_norm r.
Proof.
  unfold resp_norm. cbn [fp_action fp_status fp_first fp_second fp_msg].
  destruct (second_name_present (fp_action r)); reflexivity.
Qed.

Lemma resps_pack_cat l acc : Forall resp_valid l -> resps_pack l acc = Ok (acc ++ cat resp_layout l).
Proof.
  intros F. revert acc. induction F as [|r l Hr _ IH]; intros acc; cbn [resps_pack cat].
  - rewrite app_nil_r. reflexivity.
  - rewrite resp_valid_pack by assumption. cbn [bind]. rewrite IH, app_assoc. reflexivity.
Qed.

Lemma cat_resp_norm l : cat resp_layout (map resp_norm l) = cat resp_layout l.
Proof. induction l as [|r l IH]; cbn [map cat]; [reflexivity|]. rewrite resp_layout_norm, IH. reflexivity. Qed.

Lemma cat_resp_wf l : Forall resp_valid l -> wf_bytes (cat resp_layout l).
Proof. intros F. apply cat_wf. eapply Forall_impl; [|exact F]. apply resp_layout_wf. Qed.

(* ================= lengths ================= *)

Definition fin_fault_layout (q : FinParams) : bytes :=
  match fin_fault_emitted q with Some t => entity_layout (tlv_value t) | None => [] end.

Lemma fin_body_eq q :
  fin_body q = [fn_cc q * 16 + fn_dc q * 4 + fn_fs q] ++ cat resp_layout (fn_resps q) ++ fin_fault_layout q.
Proof. reflexivity. Qed.

Lemma fin_fault_layout_len q :
  len (fin_fault_layout q) =
  if match fn_fault q with None => true | Some _ => false end || negb (fin_might_have_fault q)
  then 0 else fin_fault_len q.
Proof.
  unfold fin_fault_layout, fin_fault_emitted, fin_fault_len. rewrite fault_allowed_spec.
  destruct (fn_fault q) as [t|]; destruct (fault_allowed (fn_cc q)); cbn [orb negb]; try reflexivity.
  unfold entity_layout. rewrite tlv_layout_len. unfold tlv_packet_len. reflexivity.
Qed.

Lemma fin_dlen_eq c q :
  fin_dlen c q = 1 + (1 + resps_len (fn_resps q) + len (fin_fault_layout q)) + crc_octets c.
Proof.
  unfold fin_dlen. rewrite fin_body_eq, !len_app, <- resps_len_cat. change (len [_]) with 1. lia.
Qed.

Lemma fin_dlen_nonneg c q : 2 <= fin_dlen c q.
Proof.
  rewrite fin_dlen_eq, resps_len_cat.
  pose proof (len_nonneg (cat resp_layout (fn_resps q))). pose proof (len_nonneg (fin_fault_layout q)).
  unfold crc_octets. destruct (cf_crc c =? 1); lia.
Qed.

(* the object the constructor builds *)
Definition fin_pdu_of (c : PduConfig) (q : FinParams) : FinishedPdu :=
  {| fin_fdir := fdir_of (conf_set_dir c 1) DT_FINISHED (fin_dlen c q - 1); fin_params := q |}.

Lemma conf_set_dir_valid c d : conf_valid c -> flag d -> conf_valid (conf_set_dir c d).
Proof.
  intros V F. unfold conf_valid, conf_set_dir in *.
  cbn [cf_src cf_dst cf_seq cf_mode cf_large cf_crc cf_dir cf_segctrl]. tauto.
Qed.

Lemma fin_fdir_valid c q : fin_valid c q ->
  fdir_valid (fdir_of (conf_set_dir c 1) DT_FINISHED (fin_dlen c q - 1)).
Proof.
  intros (C & _ & _ & _ & _ & _ & D). pose proof (fin_dlen_nonneg c q).
  apply fdir_of_valid; [apply conf_set_dir_valid; [exact C|right; reflexivity]|unfold DT_FINISHED; lia|lia].
Qed.

(* _calculate_directive_field_len on an object whose directive base was built for configuration c *)
Lemma fin_calc_len_spec c n q : flag (cf_crc c) ->
  fin_calc_len {| fin_fdir := fdir_of (conf_set_dir c 1) DT_FINISHED n; fin_params := q |} =
  if fin_dlen c q <=? 65535 then Ok (fin_pdu_of c q) else Err EValue.
Proof.
  intros Fc. unfold fin_calc_len. cbn [fin_fdir fin_params fdir_of fd_hdr h_conf conf_set_dir cf_crc].
  rewrite <- fin_fault_layout_len.
  change ({| fd_hdr := {| h_type := 0; h_meta := 0; h_dlen := n + 1;
                          h_conf := {| cf_src := cf_src c; cf_dst := cf_dst c; cf_seq := cf_seq c;
                                       cf_mode := cf_mode c; cf_large := cf_large c; cf_crc := cf_crc c;
                                       cf_dir := 1; cf_segctrl := cf_segctrl c |} |};
             fd_type := DT_FINISHED |}) with (fdir_of (conf_set_dir c 1) DT_FINISHED n).
  rewrite fdir_set_param_len_spec. cbn [fdir_of fd_hdr fd_type h_type h_meta h_conf].
  pose proof (fin_dlen_eq c q) as E.
  assert (X : (if cf_crc c =? CRC_WITH_CRC then 1 + 2 else 1) + len (fin_fault_layout q) + resps_len (fn_resps q) + 1
              = fin_dlen c q).
  { rewrite E. unfold crc_octets, CRC_WITH_CRC. destruct (cf_crc c =? 1); lia. }
  rewrite X. destruct (fin_dlen c q <=? 65535); [|reflexivity].
  cbn [bind]. unfold fin_pdu_of, fdir_of. do 4 f_equal. lia.
Qed.

Lemma fn_with_fault_id q : fn_with_fault q (fn_fault q) = q.
Proof. destruct q; reflexivity. Qed.
Lemma fn_with_resps_id q : fn_with_resps q (fn_resps q) = q.
Proof. destruct q; reflexivity. Qed.

Theorem fin_new_ok c q : fin_valid c q -> fin_new c q = Ok (fin_pdu_of c q, c, q).
Proof.
  intros V. pose proof V as (C & _ & _ & _ & _ & _ & D).
  assert (Fc : flag (cf_crc c)) by apply C.
  unfold fin_new. rewrite fdir_new_ok; [|lia|unfold conf_set_dir; cbn [cf_src cf_dst]; apply C].
  cbn [bind].
  assert (S1 : forall n, fin_set_fault {| fin_fdir := fdir_of (conf_set_dir c DIR_TOWARDS_SENDER) DT_FINISHED n;
                                          fin_params := q |} (fn_fault q) = Ok (fin_pdu_of c q)).
  { intros n. unfold fin_set_fault. cbn [fin_fdir fin_params]. rewrite fn_with_fault_id.
    unfold DIR_TOWARDS_SENDER. rewrite fin_calc_len_spec by exact Fc.
    destruct (fin_dlen c q <=? 65535) eqn:E; [reflexivity|lia]. }
  assert (S2 : forall n, fin_set_resps {| fin_fdir := fdir_of (conf_set_dir c DIR_TOWARDS_SENDER) DT_FINISHED n;
                                          fin_params := q |} (Some (fn_resps q)) = Ok (fin_pdu_of c q)).
  { intros n. unfold fin_set_resps. cbn [fin_fdir fin_params]. rewrite fn_with_resps_id.
    unfold DIR_TOWARDS_SENDER. rewrite fin_calc_len_spec by exact Fc.
    destruct (fin_dlen c q <=? 65535) eqn:E; [reflexivity|lia]. }
  destruct (fn_fault q) as [t|] eqn:Ft.
  - cbn [bind]. rewrite S1. cbn [bind]. unfold fin_pdu_of at 1 2. cbn [fin_params].
    rewrite S2. reflexivity.
  - cbn [bind fin_params]. rewrite S2. reflexivity.
Qed.

Lemma fin_pre_wf c q : fin_valid c q ->
  wf_bytes (hdr_layout (fin_header c q) ++ [D_FINISHED] ++ fin_body q).
Proof.
  intros V. pose proof V as (C & Vc & Vd & Vf & Vr & Vl & D).
  pose proof (fin_fdir_valid c q V) as FV.
  assert (E : hdr_layout (fin_header c q) ++ [D_FINISHED] =
              fdir_layout (fdir_of (conf_set_dir c 1) DT_FINISHED (fin_dlen c q - 1))).
  { unfold fdir_layout, fdir_of, fin_header. cbn [fd_hdr fd_type]. replace (fin_dlen c q - 1 + 1) with (fin_dlen c q) by lia.
    reflexivity. }
  rewrite app_assoc, E. apply wf_bytes_app. split; [apply fdir_layout_wf; exact FV|].
  rewrite fin_body_eq. rewrite !wf_bytes_app. split; [|split].
  - destruct (finoct_of (fn_cc q) (fn_dc q) (fn_fs q)) as (R & _); [apply Vc|exact Vd|exact Vf|].
    constructor; [exact R|constructor].
  - apply cat_resp_wf. exact Vr.
  - unfold fin_fault_layout, fin_fault_emitted. destruct (fault_allowed (fn_cc q)); [|constructor].
    destruct (fn_fault q) as [t|]; [|constructor]. destruct Vl as (_ & L & W).
    unfold entity_layout, tlv_layout. pose proof (len_nonneg (tlv_value t)).
    constructor; [unfold T_ENTITY_ID; lia|]. constructor; [lia|exact W].
Qed.

Lemma fin_layout_len c q : fin_valid c q ->
  len (fin_layout c q) = hdr_header_len (fin_header c q) + fin_dlen c q.
Proof.
  intros V. pose proof V as (C & _ & _ & _ & _ & _ & D). pose proof (fin_dlen_nonneg c q).
  assert (HV : hdr_valid (fin_header c q)).
  { destruct (fin_fdir_valid c q V) as [HV _]. unfold fdir_of in HV. cbn [fd_hdr] in HV.
    replace (fin_dlen c q - 1 + 1) with (fin_dlen c q) in HV by lia. exact HV. }
  destruct (hdr_layout_length _ HV) as [LL _].
  unfold fin_layout. rewrite with_crc_len, !len_app, LL. unfold fin_dlen. change (len [D_FINISHED]) with 1. lia.
Qed.

(* K_data_field_len / K_packet_len *)
Theorem fin_data_field_len c q : fin_valid c q ->
  let p := fin_pdu_of c q in
  fin_packet_len p = len (fin_layout c q) /\
  h_dlen (fd_hdr (fin_fdir p)) = len (fin_layout c q) - hdr_header_len (fd_hdr (fin_fdir p)) /\
  h_dlen (fd_hdr (fin_fdir p)) = 1 + len (fin_body q) + crc_octets c.
Proof.
  intros V. cbv zeta. rewrite (fin_layout_len c q V).
  unfold fin_packet_len, fdir_packet_len, hdr_packet_len, fin_pdu_of, fdir_of, hdr_header_len, fin_header.
  cbn [fin_fdir fd_hdr h_dlen h_conf]. unfold fin_dlen. repeat split; lia.
Qed.

(* ================= pack ================= *)

Lemma tlv_eta t : {| tlv_type := tlv_type t; tlv_value := tlv_value t |} = t.
Proof. destruct t; reflexivity. Qed.

Lemma fin_pack_tail c q X : fin_valid c q ->
  X = hdr_layout (fin_header c q) ++ [D_FINISHED] ++ fin_body q ->
  (if cf_crc c =? CRC_WITH_CRC then do x <- struct_pack 2 (crc16 X); Ok (X ++ x) else Ok X)
  = Ok (fin_layout c q).
Proof.
  intros V ->. pose proof (fin_pre_wf c q V) as Wpre.
  unfold fin_layout, with_crc, CRC_WITH_CRC. destruct (cf_crc c =? 1); [|reflexivity].
  rewrite struct_pack_crc by exact Wpre. reflexivity.
Qed.

Theorem fin_pack_layout c q : fin_valid c q -> fin_pack (fin_pdu_of c q) = Ok (fin_layout c q).
Proof.
  intros V. pose proof V as (C & Vc & Vd & Vf & Vr & Vl & D).
  pose proof (fin_fdir_valid c q V) as FV.
  unfold fin_pack, fin_pdu_of. cbn [fin_fdir fin_params].
  rewrite fdir_pack_layout by exact FV. cbn [bind].
  destruct (finoct_of (fn_cc q) (fn_dc q) (fn_fs q)) as (R & P & _); [apply Vc|exact Vd|exact Vf|].
  rewrite P, ba_append_ok by exact R. cbn [bind].
  rewrite resps_pack_cat by exact Vr. cbn [bind].
  change (cf_crc (h_conf (fd_hdr (fdir_of (conf_set_dir c 1) DT_FINISHED (fin_dlen c q - 1))))) with (cf_crc c).
  assert (E : fdir_layout (fdir_of (conf_set_dir c 1) DT_FINISHED (fin_dlen c q - 1)) =
              hdr_layout (fin_header c q) ++ [D_FINISHED]).
  { unfold fdir_layout, fdir_of, fin_header. cbn [fd_hdr fd_type]. replace (fin_dlen c q - 1 + 1) with (fin_dlen c q) by lia.
    reflexivity. }
  rewrite E.
  destruct (fn_fault q) as [t|] eqn:Ft; [destruct (fin_might_have_fault q) eqn:Mh|].
  - destruct Vl as (Ty & L & W). rewrite <- (tlv_eta t), Ty.
    rewrite tlv_pack_ok; [|unfold T_ENTITY_ID; lia|exact L]. cbn [bind tlv_value].
    apply fin_pack_tail; [exact V|]. rewrite fin_body_eq. unfold fin_fault_layout, fin_fault_emitted.
    rewrite <- fault_allowed_spec, Mh, Ft. unfold entity_layout. rewrite <- !app_assoc. reflexivity.
  - cbn [bind]. apply fin_pack_tail; [exact V|]. rewrite fin_body_eq. unfold fin_fault_layout, fin_fault_emitted.
    rewrite <- fault_allowed_spec, Mh. rewrite app_nil_r, <- !app_assoc. reflexivity.
  - cbn [bind]. apply fin_pack_tail; [exact V|]. rewrite fin_body_eq. unfold fin_fault_layout, fin_fault_emitted.
    rewrite Ft. destruct (fault_allowed (fn_cc q)); rewrite app_nil_r, <- !app_assoc; reflexivity.
Qed.

(* ================= CRC trailer helpers (shared with MetadataProofs) ================= *)

Definition crc_tail (c : PduConfig) (pre : bytes) : bytes :=
  if cf_crc c =? 1 then be_encode 2 (crc16 pre) else [].

Lemma with_crc_split c pre : with_crc c pre = pre ++ crc_tail c pre.
Proof. unfold with_crc, crc_tail. destruct (cf_crc c =? 1); [reflexivity|rewrite app_nil_r; reflexivity]. Qed.

Lemma crc_tail_len c pre : len (crc_tail c pre) = crc_octets c.
Proof. unfold crc_tail, crc_octets. destruct (cf_crc c =? 1); [apply len_be_encode|reflexivity]. Qed.

Lemma crc_tail_wf c pre : wf_bytes (crc_tail c pre).
Proof. unfold crc_tail. destruct (cf_crc c =? 1); [apply be_encode_wf|constructor]. Qed.

Lemma verify_with_crc c h pre rest :
  wf_bytes pre -> flag (cf_crc c) -> cf_crc (h_conf h) = cf_crc c -> 2 <= hdr_packet_len h ->
  hdr_packet_len h = len pre + crc_octets c ->
  hdr_verify_length_and_checksum h (with_crc c pre ++ rest) = Ok (hdr_packet_len h).
Proof.
  intros W F E P L. pose proof (len_nonneg rest).
  destruct (crc_octets_cases c F) as [[C O] | [C O]]; unfold with_crc; rewrite C; cbn [Z.eqb Pos.eqb]; rewrite O in L.
  - apply hdr_verify_nocrc; [exact P|congruence|rewrite len_app; lia].
  - apply hdr_verify_crc; [exact W|congruence|exact L].
Qed.

(* ================= unpack: the TLV loop ================= *)

Definition ent_layout (e : option bytes) : bytes :=
  match e with Some v => entity_layout v | None => [] end.
Definition ent_tlv (e : option bytes) (dflt : option tlv) : option tlv :=
  match e with Some v => Some {| tlv_type := TLV_ENTITY_ID; tlv_value := v |} | None => dflt end.

Lemma py_get_resp pre r X : py_get (pre ++ resp_layout r ++ X) (len pre) = Ok TLV_FILESTORE_RESPONSE.
Proof. unfold resp_layout, fsresp_layout, tlv_layout. cbn [app]. apply py_get_at. reflexivity. Qed.

(* generalised "decode the rest": the loop started behind any prefix of the TLV area, with any
   accumulator, decodes the remaining responses in order and then the entity-ID TLV *)
Lemma fin_tlv_loop_spec rs : forall fuel pre acc fl0 ent might rest,
  Forall resp_valid rs ->
  match ent with Some v => len v <= 255 /\ might = true | None => True end ->
  (rs <> [] \/ ent <> None) ->
  (length rs + 1 <= fuel)%nat ->
  rest = pre ++ cat resp_layout rs ++ ent_layout ent ->
  fin_tlv_loop fuel might rest (len pre) acc fl0 = Ok (acc ++ map resp_norm rs, ent_tlv ent fl0).
Proof.
  induction rs as [|r rs IH]; intros fuel pre acc fl0 ent might rest F He Hne Hf ->.
  - (* only the entity-ID TLV is left *)
    destruct ent as [v|]; [|destruct Hne as [X|X]; congruence]. destruct He as (Lv & ->).
    destruct fuel as [|fuel]; [cbn in Hf; lia|]. cbn [fin_tlv_loop cat ent_layout app map].
    unfold entity_layout, tlv_layout. rewrite py_get_at by reflexivity. cbn [bind].
    change (T_ENTITY_ID =? TLV_FILESTORE_RESPONSE) with false. change (T_ENTITY_ID =? TLV_ENTITY_ID) with true.
    cbn [negb]. rewrite slice_from_at by reflexivity.
    destruct (wrappers_roundtrip v [] Lv) as (U & _). unfold entity_layout, tlv_layout in U. rewrite app_nil_r in U.
    rewrite U. cbn [bind]. unfold tlv_packet_len. cbn [tlv_value].
    rewrite len_app, !len_cons. pose proof (len_nonneg v).
    destruct (len pre + (2 + len v) >=? len pre + (1 + (1 + len v))) eqn:E; [|lia].
    rewrite app_nil_r. reflexivity.
  - inversion F as [|? ? Hr Frs]; subst.
    destruct fuel as [|fuel]; [cbn in Hf; lia|]. cbn [fin_tlv_loop cat map].
    rewrite <- app_assoc. rewrite py_get_resp. cbn [bind].
    rewrite Z.eqb_refl. rewrite slice_from_at by reflexivity.
    rewrite resp_valid_unpack by exact Hr. cbn [bind].
    rewrite <- resp_layout_len, resp_layout_norm.
    rewrite !len_app.
    pose proof (len_nonneg (cat resp_layout rs)) as N1. pose proof (len_nonneg (ent_layout ent)) as N2.
    destruct rs as [|r2 rs].
    + destruct ent as [v|].
      * (* continue with the entity ID *)
        destruct (len pre + len (resp_layout r) >=? _) eqn:E.
        { cbn [cat ent_layout] in E. unfold entity_layout, tlv_layout in E. rewrite !len_cons in E.
          pose proof (len_nonneg v). rewrite ?len_nil in E. lia. }
        replace (len pre + len (resp_layout r)) with (len (pre ++ resp_layout r)) by (rewrite len_app; reflexivity).
        rewrite (IH fuel (pre ++ resp_layout r) (acc ++ [resp_norm r]) fl0 (Some v) might).
        { rewrite <- app_assoc. reflexivity. }
        { constructor. } { exact He. } { right. discriminate. } { cbn [length] in *. lia. }
        { rewrite <- app_assoc. reflexivity. }
      * cbn [cat ent_layout app]. rewrite ?len_nil.
        destruct (_ >=? _) eqn:E; [reflexivity|lia].
    + destruct (len pre + len (resp_layout r) >=? _) eqn:E.
      { cbn [cat] in E. rewrite len_app in E. destruct (resp_layout_head r2) as (tl2 & Hd2). rewrite Hd2 in E.
        rewrite len_cons in E. pose proof (len_nonneg tl2). pose proof (len_nonneg (cat resp_layout rs)). lia. }
      replace (len pre + len (resp_layout r)) with (len (pre ++ resp_layout r)) by (rewrite len_app; reflexivity).
      rewrite (IH fuel (pre ++ resp_layout r) (acc ++ [resp_norm r]) fl0 ent might).
      { rewrite <- app_assoc. reflexivity. }
      { exact Frs. } { exact He. } { left. discriminate. } { cbn [length] in *. lia. }
      { rewrite <- app_assoc. reflexivity. }
Qed.
