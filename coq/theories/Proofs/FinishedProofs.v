(* Lemmas about Model/Finished.v against Spec/PduBSpec.v: layout, lengths, round trip for
   response lists of any length (induction with a generalised "decode the rest" lemma),
   re-pack, equality, totality / prefix rejection (C10), no fold-in of trailing octets (C09),
   CRC acceptance (C04), setter invariants (C11). *)
From Coq Require Import ZArith List Bool Lia ZifyBool.
From SP Require Import Base.Result Base.Bytes Base.BytesFacts Base.Utf8 Base.Crc16 Base.Crc16Facts
  Model.PduHeader Spec.PduHeaderSpec Proofs.PduHeaderProofs
  Model.FileDirective Proofs.FileDirectiveProofs
  Model.Lv Model.Tlv Spec.TlvSpec Proofs.LvProofs Proofs.TlvProofs
  Model.Finished Model.Metadata Spec.PduBSpec.
Import ListNotations.
Open Scope Z_scope.
Ltac Zify.zify_post_hook ::= Z.to_euclidean_division_equations.

(* ================= generic helpers (shared with MetadataProofs) ================= *)

Lemma py_get_at (A : bytes) b X i : i = len A -> py_get (A ++ b :: X) i = Ok b.
Proof. intros ->. rewrite py_get_app_r by lia. rewrite Z.sub_diag. reflexivity. Qed.

Lemma slice_at (A M C : bytes) i j : i = len A -> j = len A + len M -> slice (A ++ M ++ C) i j = M.
Proof. apply slice_mid. Qed.

Lemma slice_from_at (A B : bytes) i : i = len A -> slice_from (A ++ B) i = B.
Proof. apply slice_from_app. Qed.

Lemma cat_app {A} (f : A -> bytes) l1 l2 : cat f (l1 ++ l2) = cat f l1 ++ cat f l2.
Proof. induction l1 as [|x l IH]; cbn [cat app]; [reflexivity|]. rewrite IH, app_assoc. reflexivity. Qed.

Lemma cat_wf {A} (f : A -> bytes) l : Forall (fun x => wf_bytes (f x)) l -> wf_bytes (cat f l).
Proof.
  induction 1 as [|x l Hx _ IH]; cbn [cat]; [constructor|]. apply wf_bytes_app. split; assumption.
Qed.

(* every item occupies at least one octet: a list is never longer than its encoding *)
Lemma cat_length_ge {A} (f : A -> bytes) l :
  Forall (fun x => (1 <= length (f x))%nat) l -> (length l <= length (cat f l))%nat.
Proof.
  induction 1 as [|x l Hx _ IH]; cbn [cat length]; [lia|]. rewrite app_length. lia.
Qed.

Lemma with_crc_len c pre : len (with_crc c pre) = len pre + crc_octets c.
Proof.
  unfold with_crc, crc_octets. destruct (cf_crc c =? 1); [|lia].
  rewrite len_app, len_be_encode. lia.
Qed.

Lemma crc_octets_cases c : flag (cf_crc c) ->
  (cf_crc c = 0 /\ crc_octets c = 0) \/ (cf_crc c = 1 /\ crc_octets c = 2).
Proof. intros [E | E]; unfold crc_octets; rewrite E; [left|right]; split; reflexivity. Qed.

Lemma ok_inj {A} (x y : A) : Ok x = Ok y -> x = y.
Proof. intros H. injection H as ->. reflexivity. Qed.

(* ================= the first parameter octet ================= *)

Definition chk_finoct (b : Z) : bool :=
  (Z.shiftr (Z.land b 240) 4 =? b / 16) && (Z.shiftr (Z.land b 4) 2 =? (b / 4) mod 2) &&
  (Z.land b 3 =? b mod 4) &&
  (Z.lor (Z.lor (Z.shiftl (b / 16) 4) (Z.shiftl ((b / 4) mod 2) 2)) (b mod 4)
   =? b / 16 * 16 + (b / 4) mod 2 * 4 + b mod 4).
Lemma finoct_sweep : forallb chk_finoct (zrange 0 256) = true.
Proof. vm_compute. reflexivity. Qed.
Lemma finoct b : 0 <= b < 256 ->
  Z.shiftr (Z.land b 240) 4 = b / 16 /\ Z.shiftr (Z.land b 4) 2 = (b / 4) mod 2 /\
  Z.land b 3 = b mod 4 /\
  Z.lor (Z.lor (Z.shiftl (b / 16) 4) (Z.shiftl ((b / 4) mod 2) 2)) (b mod 4)
  = b / 16 * 16 + (b / 4) mod 2 * 4 + b mod 4.
Proof.
  intros H. pose proof (sweep _ 0 256 ltac:(lia) finoct_sweep b ltac:(lia)) as P.
  unfold chk_finoct in P. rewrite !andb_true_iff, !Z.eqb_eq in P. tauto.
Qed.

Lemma finoct_of cc dc fs : 0 <= cc <= 15 -> flag dc -> 0 <= fs <= 3 ->
  let b := cc * 16 + dc * 4 + fs in
  0 <= b < 256 /\ Z.lor (Z.lor (Z.shiftl cc 4) (Z.shiftl dc 2)) fs = b /\
  Z.shiftr (Z.land b 240) 4 = cc /\ Z.shiftr (Z.land b 4) 2 = dc /\ Z.land b 3 = fs.
Proof.
  intros Hc Hd Hf b. assert (R : 0 <= b < 256) by (unfold b, flag in *; lia).
  destruct (finoct b R) as (A & B & C & D).
  assert (E1 : b / 16 = cc) by (unfold b, flag in *; lia).
  assert (E2 : (b / 4) mod 2 = dc) by (unfold b, flag in *; lia).
  assert (E3 : b mod 4 = fs) by (unfold b, flag in *; lia).
  rewrite E1, E2, E3 in *. repeat split; try assumption; try lia.
Qed.

Lemma cc_valid_member cc : cc_valid cc -> condition_code_of_int cc = Ok cc.
Proof.
  intros (R & N1 & N2 & N3). unfold condition_code_of_int.
  assert (is_condition_code cc = true) as ->; [|reflexivity].
  unfold is_condition_code, memz, condition_codes, CC_NO_CONDITION_FIELD, CC_NO_ERROR,
    CC_POSITIVE_ACK_LIMIT_REACHED, CC_KEEP_ALIVE_LIMIT_REACHED, CC_INVALID_TRANSMISSION_MODE,
    CC_FILESTORE_REJECTION, CC_FILE_CHECKSUM_FAILURE, CC_FILE_SIZE_ERROR, CC_NAK_LIMIT_REACHED,
    CC_INACTIVITY_DETECTED, CC_CHECK_LIMIT_REACHED, CC_UNSUPPORTED_CHECKSUM_TYPE,
    CC_SUSPEND_REQUEST_RECEIVED, CC_CANCEL_REQUEST_RECEIVED.
  cbn [existsb]. lia.
Qed.
Lemma dc_member dc : flag dc -> delivery_code_of_int dc = Ok dc.
Proof. intros [-> | ->]; reflexivity. Qed.
Lemma fs_member fs : 0 <= fs <= 3 -> file_status_of_int fs = Ok fs.
Proof.
  intros H. unfold file_status_of_int, FS_DISCARDED_DELIBERATELY, FS_DISCARDED_FILESTORE_REJECTION,
    FS_FILE_RETAINED, FS_FILE_STATUS_UNREPORTED.
  destruct (_ || _) eqn:E; [reflexivity|lia].
Qed.

Lemma fault_allowed_spec q : fin_might_have_fault q = fault_allowed (fn_cc q).
Proof. reflexivity. Qed.

(* ================= filestore responses: element-wise facts ================= *)

Lemma resp_layout_len r : len (resp_layout r) = fsresp_packet_len r.
Proof. unfold resp_layout. symmetry. apply fsresp_packet_len_layout. Qed.

Lemma resps_len_cat l : resps_len l = len (cat resp_layout l).
Proof.
  induction l as [|r l IH]; cbn [resps_len cat]; [reflexivity|].
  rewrite len_app, resp_layout_len, IH. reflexivity.
Qed.

Lemma resp_eta r :
  {| fp_action := fp_action r; fp_status := fp_status r; fp_first := fp_first r;
     fp_second := fp_second r; fp_msg := fp_msg r |} = r.
Proof. destruct r; reflexivity. Qed.

Lemma resp_valid_pack r : resp_valid r -> fsresp_pack r = Ok (resp_layout r).
Proof.
  intros (Ha & Hm & Hn & Hd & Hl & Uf & Us & _).
  destruct (fsresp_roundtrip_status (fp_action r) (fp_status r) (fp_first r) (fp_second r) (fp_msg r) []
              Hm Hn Hd Hl Uf Us) as (P & _ & _).
  rewrite resp_eta in P. exact P.
Qed.

Lemma resp_valid_unpack r rest : resp_valid r ->
  fsresp_unpack (resp_layout r ++ rest) = Ok (resp_norm r).
Proof.
  intros (Ha & Hm & Hn & Hd & Hl & Uf & Us & _).
  destruct (fsresp_roundtrip_status (fp_action r) (fp_status r) (fp_first r) (fp_second r) (fp_msg r) rest
              Hm Hn Hd Hl Uf Us) as (_ & _ & U).
  exact U.
Qed.

Lemma resp_layout_norm r : resp_layout (resp_norm r) = resp_layout r.
Proof.
  unfold resp_layout, resp_norm, fsresp_layout, fs_names_layout. cbn [fp_action fp_status fp_first fp_second fp_msg].
  destruct (second_name_present (fp_action r)); reflexivity.
Qed.

Lemma resp_layout_wf r : resp_valid r -> wf_bytes (resp_layout r).
Proof.
  intros (Ha & Hm & Hn & Hd & Hl & Uf & Us & Wf & Ws & Wm).
  pose proof (len_nonneg (fp_first r)). pose proof (len_nonneg (fp_second r)). pose proof (len_nonneg (fp_msg r)).
  pose proof (len_nonneg (fs_names_layout (fp_action r) (fp_first r) (fp_second r))).
  assert (L1 : len (fp_first r) <= 255 /\ (second_name_present (fp_action r) = true -> len (fp_second r) <= 255)).
  { rewrite fs_names_len in Hl. destruct (second_name_present (fp_action r)); split; intros; lia. }
  unfold resp_layout, fsresp_layout, tlv_layout.
  constructor; [unfold T_FILESTORE_RESPONSE; lia|].
  constructor; [rewrite !len_app, lv_layout_len; change (len [_]) with 1; lia|].
  rewrite !wf_bytes_app. split; [constructor; [lia|constructor]|]. split.
  - unfold fs_names_layout, lv_layout. apply wf_bytes_app. split.
    + constructor; [lia|exact Wf].
    + destruct (second_name_present (fp_action r)); [|constructor]. constructor; [lia|exact Ws].
  - unfold lv_layout. constructor; [lia|exact Wm].
Qed.

Lemma resp_layout_head r : exists tl, resp_layout r = TLV_FILESTORE_RESPONSE :: tl.
Proof. eexists. reflexivity. Qed.

Lemma resp_norm_valid r : resp_valid r -> resp_valid (resp_norm r).
Proof.
  intros (Ha & Hm & Hn & Hd & Hl & Uf & Us & Wf & Ws & Wm).
  unfold resp_valid, resp_norm. cbn [fp_action fp_status fp_first fp_second fp_msg].
  repeat split; try assumption; try lia.
  - unfold fs_names_layout in *. destruct (second_name_present (fp_action r)); assumption.
  - intros E. rewrite E. apply Us. exact E.
  - destruct (second_name_present (fp_action r)); [assumption|constructor].
Qed.

Lemma resp_norm_idem r : resp_norm (resp_norm r) = resp_norm r.
Proof.
  unfold resp_norm. cbn [fp_action fp_status fp_first fp_second fp_msg].
  destruct (second_name_present (fp_action r)); reflexivity.
Qed.

Lemma resps_pack_cat l acc : Forall resp_valid l -> resps_pack l acc = Ok (acc ++ cat resp_layout l).
Proof.
  intros F. revert acc. induction F as [|r l Hr _ IH]; intros acc; cbn [resps_pack cat].
  - rewrite app_nil_r. reflexivity.
  - rewrite resp_valid_pack by assumption. cbn [bind]. rewrite IH, app_assoc. reflexivity.
Qed.

Lemma cat_resp_norm l : cat resp_layout (map resp_norm l) = cat resp_layout l.
Proof. induction l as [|r l IH]; cbn [map cat]; [reflexivity|]. rewrite resp_layout_norm, IH. reflexivity. Qed.

Lemma cat_resp_wf l : Forall resp_valid l -> wf_bytes (cat resp_layout l).
Proof. intros F. apply cat_wf. eapply Forall_impl; [|exact F]. apply resp_layout_wf. Qed.

(* ================= lengths ================= *)

Definition fin_fault_layout (q : FinParams) : bytes :=
  match fin_fault_emitted q with Some t => entity_layout (tlv_value t) | None => [] end.

Lemma fin_body_eq q :
  fin_body q = [fn_cc q * 16 + fn_dc q * 4 + fn_fs q] ++ cat resp_layout (fn_resps q) ++ fin_fault_layout q.
Proof. reflexivity. Qed.

Lemma fin_fault_layout_len q :
  len (fin_fault_layout q) =
  if match fn_fault q with None => true | Some _ => false end || negb (fin_might_have_fault q)
  then 0 else fin_fault_len q.
Proof.
  unfold fin_fault_layout, fin_fault_emitted, fin_fault_len. rewrite fault_allowed_spec.
  destruct (fn_fault q) as [t|]; destruct (fault_allowed (fn_cc q)); cbn [orb negb]; try reflexivity.
  unfold entity_layout. rewrite tlv_layout_len. unfold tlv_packet_len. reflexivity.
Qed.

Lemma fin_dlen_eq c q :
  fin_dlen c q = 1 + (1 + resps_len (fn_resps q) + len (fin_fault_layout q)) + crc_octets c.
Proof.
  unfold fin_dlen. rewrite fin_body_eq, !len_app, <- resps_len_cat. change (len [_]) with 1. lia.
Qed.

Lemma fin_dlen_nonneg c q : 2 <= fin_dlen c q.
Proof.
  rewrite fin_dlen_eq, resps_len_cat.
  pose proof (len_nonneg (cat resp_layout (fn_resps q))). pose proof (len_nonneg (fin_fault_layout q)).
  unfold crc_octets. destruct (cf_crc c =? 1); lia.
Qed.

(* the object the constructor builds *)
Definition fin_pdu_of (c : PduConfig) (q : FinParams) : FinishedPdu :=
  {| fin_fdir := fdir_of (conf_set_dir c 1) DT_FINISHED (fin_dlen c q - 1); fin_params := q |}.

Lemma conf_set_dir_valid c d : conf_valid c -> flag d -> conf_valid (conf_set_dir c d).
Proof.
  intros V F. unfold conf_valid, conf_set_dir in *.
  cbn [cf_src cf_dst cf_seq cf_mode cf_large cf_crc cf_dir cf_segctrl]. tauto.
Qed.

Lemma fin_fdir_valid c q : fin_valid c q ->
  fdir_valid (fdir_of (conf_set_dir c 1) DT_FINISHED (fin_dlen c q - 1)).
Proof.
  intros (C & _ & _ & _ & _ & _ & D). pose proof (fin_dlen_nonneg c q).
  apply fdir_of_valid; [apply conf_set_dir_valid; [exact C|right; reflexivity]|unfold DT_FINISHED; lia|lia].
Qed.

(* _calculate_directive_field_len on an object whose directive base was built for configuration c *)
Lemma fin_calc_len_spec c n q : flag (cf_crc c) ->
  fin_calc_len {| fin_fdir := fdir_of (conf_set_dir c 1) DT_FINISHED n; fin_params := q |} =
  if fin_dlen c q <=? 65535 then Ok (fin_pdu_of c q) else Err EValue.
Proof.
  intros Fc. unfold fin_calc_len. cbn [fin_fdir fin_params fdir_of fd_hdr h_conf conf_set_dir cf_crc].
  rewrite <- fin_fault_layout_len.
  change ({| fd_hdr := {| h_type := 0; h_meta := 0; h_dlen := n + 1;
                          h_conf := {| cf_src := cf_src c; cf_dst := cf_dst c; cf_seq := cf_seq c;
                                       cf_mode := cf_mode c; cf_large := cf_large c; cf_crc := cf_crc c;
                                       cf_dir := 1; cf_segctrl := cf_segctrl c |} |};
             fd_type := DT_FINISHED |}) with (fdir_of (conf_set_dir c 1) DT_FINISHED n).
  rewrite fdir_set_param_len_spec. cbn [fdir_of fd_hdr fd_type h_type h_meta h_conf].
  pose proof (fin_dlen_eq c q) as E.
  assert (X : (if cf_crc c =? CRC_WITH_CRC then 1 + 2 else 1) + len (fin_fault_layout q) + resps_len (fn_resps q) + 1
              = fin_dlen c q).
  { rewrite E. unfold crc_octets, CRC_WITH_CRC. destruct (cf_crc c =? 1); lia. }
  rewrite X. destruct (fin_dlen c q <=? 65535); [|reflexivity].
  cbn [bind]. unfold fin_pdu_of, fdir_of. do 4 f_equal. lia.
Qed.

Lemma fn_with_fault_id q : fn_with_fault q (fn_fault q) = q.
Proof. destruct q; reflexivity. Qed.
Lemma fn_with_resps_id q : fn_with_resps q (fn_resps q) = q.
Proof. destruct q; reflexivity. Qed.

Theorem fin_new_ok c q : fin_valid c q -> fin_new c q = Ok (fin_pdu_of c q, c, q).
Proof.
  intros V. pose proof V as (C & _ & _ & _ & _ & _ & D).
  assert (Fc : flag (cf_crc c)) by apply C.
  unfold fin_new. rewrite fdir_new_ok; [|lia|unfold conf_set_dir; cbn [cf_src cf_dst]; apply C].
  cbn [bind].
  assert (S1 : forall n, fin_set_fault {| fin_fdir := fdir_of (conf_set_dir c DIR_TOWARDS_SENDER) DT_FINISHED n;
                                          fin_params := q |} (fn_fault q) = Ok (fin_pdu_of c q)).
  { intros n. unfold fin_set_fault. cbn [fin_fdir fin_params]. rewrite fn_with_fault_id.
    unfold DIR_TOWARDS_SENDER. rewrite fin_calc_len_spec by exact Fc.
    destruct (fin_dlen c q <=? 65535) eqn:E; [reflexivity|lia]. }
  assert (S2 : forall n, fin_set_resps {| fin_fdir := fdir_of (conf_set_dir c DIR_TOWARDS_SENDER) DT_FINISHED n;
                                          fin_params := q |} (Some (fn_resps q)) = Ok (fin_pdu_of c q)).
  { intros n. unfold fin_set_resps. cbn [fin_fdir fin_params]. rewrite fn_with_resps_id.
    unfold DIR_TOWARDS_SENDER. rewrite fin_calc_len_spec by exact Fc.
    destruct (fin_dlen c q <=? 65535) eqn:E; [reflexivity|lia]. }
  destruct (fn_fault q) as [t|] eqn:Ft.
  - cbn [bind]. rewrite S1. cbn [bind]. unfold fin_pdu_of at 1 2. cbn [fin_params].
    rewrite S2. reflexivity.
  - cbn [bind fin_params]. rewrite S2. reflexivity.
Qed.

Lemma fin_pre_wf c q : fin_valid c q ->
  wf_bytes (hdr_layout (fin_header c q) ++ [D_FINISHED] ++ fin_body q).
Proof.
  intros V. pose proof V as (C & Vc & Vd & Vf & Vr & Vl & D).
  pose proof (fin_fdir_valid c q V) as FV.
  assert (E : hdr_layout (fin_header c q) ++ [D_FINISHED] =
              fdir_layout (fdir_of (conf_set_dir c 1) DT_FINISHED (fin_dlen c q - 1))).
  { unfold fdir_layout, fdir_of, fin_header. cbn [fd_hdr fd_type]. replace (fin_dlen c q - 1 + 1) with (fin_dlen c q) by lia.
    reflexivity. }
  rewrite app_assoc, E. apply wf_bytes_app. split; [apply fdir_layout_wf; exact FV|].
  rewrite fin_body_eq. rewrite !wf_bytes_app. split; [|split].
  - destruct (finoct_of (fn_cc q) (fn_dc q) (fn_fs q)) as (R & _); [apply Vc|exact Vd|exact Vf|].
    constructor; [exact R|constructor].
  - apply cat_resp_wf. exact Vr.
  - unfold fin_fault_layout, fin_fault_emitted. destruct (fault_allowed (fn_cc q)); [|constructor].
    destruct (fn_fault q) as [t|]; [|constructor]. destruct Vl as (_ & L & W).
    unfold entity_layout, tlv_layout. pose proof (len_nonneg (tlv_value t)).
    constructor; [unfold T_ENTITY_ID; lia|]. constructor; [lia|exact W].
Qed.

Lemma fin_layout_len c q : fin_valid c q ->
  len (fin_layout c q) = hdr_header_len (fin_header c q) + fin_dlen c q.
Proof.
  intros V. pose proof V as (C & _ & _ & _ & _ & _ & D). pose proof (fin_dlen_nonneg c q).
  assert (HV : hdr_valid (fin_header c q)).
  { destruct (fin_fdir_valid c q V) as [HV _]. unfold fdir_of in HV. cbn [fd_hdr] in HV.
    replace (fin_dlen c q - 1 + 1) with (fin_dlen c q) in HV by lia. exact HV. }
  destruct (hdr_layout_length _ HV) as [LL _].
  unfold fin_layout. rewrite with_crc_len, !len_app, LL. unfold fin_dlen. change (len [D_FINISHED]) with 1. lia.
Qed.

(* K_data_field_len / K_packet_len *)
Theorem fin_data_field_len c q : fin_valid c q ->
  let p := fin_pdu_of c q in
  fin_packet_len p = len (fin_layout c q) /\
  h_dlen (fd_hdr (fin_fdir p)) = len (fin_layout c q) - hdr_header_len (fd_hdr (fin_fdir p)) /\
  h_dlen (fd_hdr (fin_fdir p)) = 1 + len (fin_body q) + crc_octets c.
Proof.
  intros V. cbv zeta. rewrite (fin_layout_len c q V).
  unfold fin_packet_len, fdir_packet_len, hdr_packet_len, fin_pdu_of, fdir_of, hdr_header_len, fin_header.
  cbn [fin_fdir fd_hdr h_dlen h_conf]. unfold fin_dlen. repeat split; lia.
Qed.

(* ================= pack ================= *)

Lemma tlv_eta t : {| tlv_type := tlv_type t; tlv_value := tlv_value t |} = t.
Proof. destruct t; reflexivity. Qed.

Lemma fin_pack_tail c q X : fin_valid c q ->
  X = hdr_layout (fin_header c q) ++ [D_FINISHED] ++ fin_body q ->
  (if cf_crc c =? CRC_WITH_CRC then do x <- struct_pack 2 (crc16 X); Ok (X ++ x) else Ok X)
  = Ok (fin_layout c q).
Proof.
  intros V ->. pose proof (fin_pre_wf c q V) as Wpre.
  unfold fin_layout, with_crc, CRC_WITH_CRC. destruct (cf_crc c =? 1); [|reflexivity].
  rewrite struct_pack_crc by exact Wpre. reflexivity.
Qed.

Theorem fin_pack_layout c q : fin_valid c q -> fin_pack (fin_pdu_of c q) = Ok (fin_layout c q).
Proof.
  intros V. pose proof V as (C & Vc & Vd & Vf & Vr & Vl & D).
  pose proof (fin_fdir_valid c q V) as FV.
  unfold fin_pack, fin_pdu_of. cbn [fin_fdir fin_params].
  rewrite fdir_pack_layout by exact FV. cbn [bind].
  destruct (finoct_of (fn_cc q) (fn_dc q) (fn_fs q)) as (R & P & _); [apply Vc|exact Vd|exact Vf|].
  rewrite P, ba_append_ok by exact R. cbn [bind].
  rewrite resps_pack_cat by exact Vr. cbn [bind].
  change (cf_crc (h_conf (fd_hdr (fdir_of (conf_set_dir c 1) DT_FINISHED (fin_dlen c q - 1))))) with (cf_crc c).
  assert (E : fdir_layout (fdir_of (conf_set_dir c 1) DT_FINISHED (fin_dlen c q - 1)) =
              hdr_layout (fin_header c q) ++ [D_FINISHED]).
  { unfold fdir_layout, fdir_of, fin_header. cbn [fd_hdr fd_type]. replace (fin_dlen c q - 1 + 1) with (fin_dlen c q) by lia.
    reflexivity. }
  rewrite E.
  destruct (fn_fault q) as [t|] eqn:Ft; [destruct (fin_might_have_fault q) eqn:Mh|].
  - destruct Vl as (Ty & L & W). rewrite <- (tlv_eta t), Ty.
    rewrite tlv_pack_ok; [|unfold T_ENTITY_ID; lia|exact L]. cbn [bind tlv_value].
    apply fin_pack_tail; [exact V|]. rewrite fin_body_eq. unfold fin_fault_layout, fin_fault_emitted.
    rewrite <- fault_allowed_spec, Mh, Ft. unfold entity_layout. rewrite <- !app_assoc. reflexivity.
  - cbn [bind]. apply fin_pack_tail; [exact V|]. rewrite fin_body_eq. unfold fin_fault_layout, fin_fault_emitted.
    rewrite <- fault_allowed_spec, Mh. rewrite app_nil_r, <- !app_assoc. reflexivity.
  - cbn [bind]. apply fin_pack_tail; [exact V|]. rewrite fin_body_eq. unfold fin_fault_layout, fin_fault_emitted.
    rewrite Ft. destruct (fault_allowed (fn_cc q)); rewrite app_nil_r, <- !app_assoc; reflexivity.
Qed.

(* ================= CRC trailer helpers (shared with MetadataProofs) ================= *)

Definition crc_tail (c : PduConfig) (pre : bytes) : bytes :=
  if cf_crc c =? 1 then be_encode 2 (crc16 pre) else [].

Lemma with_crc_split c pre : with_crc c pre = pre ++ crc_tail c pre.
Proof. unfold with_crc, crc_tail. destruct (cf_crc c =? 1); [reflexivity|rewrite app_nil_r; reflexivity]. Qed.

Lemma crc_tail_len c pre : len (crc_tail c pre) = crc_octets c.
Proof. unfold crc_tail, crc_octets. destruct (cf_crc c =? 1); [apply len_be_encode|reflexivity]. Qed.

Lemma crc_tail_wf c pre : wf_bytes (crc_tail c pre).
Proof. unfold crc_tail. destruct (cf_crc c =? 1); [apply be_encode_wf|constructor]. Qed.

Lemma verify_with_crc c h pre rest :
  wf_bytes pre -> flag (cf_crc c) -> cf_crc (h_conf h) = cf_crc c -> 2 <= hdr_packet_len h ->
  hdr_packet_len h = len pre + crc_octets c ->
  hdr_verify_length_and_checksum h (with_crc c pre ++ rest) = Ok (hdr_packet_len h).
Proof.
  intros W F E P L. pose proof (len_nonneg rest).
  destruct (crc_octets_cases c F) as [[C O] | [C O]]; unfold with_crc; rewrite C; cbn [Z.eqb Pos.eqb]; rewrite O in L.
  - apply hdr_verify_nocrc; [exact P|congruence|rewrite len_app; lia].
  - apply hdr_verify_crc; [exact W|congruence|exact L].
Qed.

(* ================= unpack: the TLV loop ================= *)

Definition ent_layout (e : option bytes) : bytes :=
  match e with Some v => entity_layout v | None => [] end.
Definition ent_tlv (e : option bytes) (dflt : option tlv) : option tlv :=
  match e with Some v => Some {| tlv_type := TLV_ENTITY_ID; tlv_value := v |} | None => dflt end.

Lemma py_get_resp pre r X : py_get (pre ++ resp_layout r ++ X) (len pre) = Ok TLV_FILESTORE_RESPONSE.
Proof. unfold resp_layout, fsresp_layout, tlv_layout. cbn [app]. apply py_get_at. reflexivity. Qed.

(* generalised "decode the rest": the loop started behind any prefix of the TLV area, with any
   accumulator, decodes the remaining responses in order and then the entity-ID TLV *)
Lemma fin_tlv_loop_spec rs : forall fuel pre acc fl0 ent might rest,
  Forall resp_valid rs ->
  match ent with Some v => len v <= 255 /\ might = true | None => True end ->
  (rs <> [] \/ ent <> None) ->
  (length rs + 1 <= fuel)%nat ->
  rest = pre ++ cat resp_layout rs ++ ent_layout ent ->
  fin_tlv_loop fuel might rest (len pre) acc fl0 = Ok (acc ++ map resp_norm rs, ent_tlv ent fl0).
Proof.
  induction rs as [|r rs IH]; intros fuel pre acc fl0 ent might rest F He Hne Hf ->.
  - (* only the entity-ID TLV is left *)
    destruct ent as [v|]; [|destruct Hne as [X|X]; congruence]. destruct He as (Lv & ->).
    destruct fuel as [|fuel]; [cbn in Hf; lia|]. cbn [fin_tlv_loop cat ent_layout app map].
    unfold entity_layout, tlv_layout. rewrite py_get_at by reflexivity. cbn [bind].
    change (T_ENTITY_ID =? TLV_FILESTORE_RESPONSE) with false. change (T_ENTITY_ID =? TLV_ENTITY_ID) with true.
    cbn [negb]. rewrite slice_from_at by reflexivity.
    destruct (wrappers_roundtrip v [] Lv) as (U & _). unfold entity_layout, tlv_layout in U. rewrite app_nil_r in U.
    rewrite U. cbn [bind]. unfold tlv_packet_len. cbn [tlv_value].
    rewrite len_app, !len_cons. pose proof (len_nonneg v).
    destruct (len pre + (2 + len v) >=? len pre + (1 + (1 + len v))) eqn:E; [|lia].
    rewrite app_nil_r. reflexivity.
  - inversion F as [|? ? Hr Frs]; subst.
    destruct fuel as [|fuel]; [cbn in Hf; lia|]. cbn [fin_tlv_loop cat map].
    rewrite <- app_assoc. rewrite py_get_resp. cbn [bind].
    rewrite Z.eqb_refl. rewrite slice_from_at by reflexivity.
    rewrite resp_valid_unpack by exact Hr. cbn [bind].
    rewrite <- resp_layout_len, resp_layout_norm.
    rewrite !len_app.
    pose proof (len_nonneg (cat resp_layout rs)) as N1. pose proof (len_nonneg (ent_layout ent)) as N2.
    destruct rs as [|r2 rs].
    + destruct ent as [v|].
      * (* continue with the entity ID *)
        destruct (len pre + len (resp_layout r) >=? _) eqn:E.
        { cbn [cat ent_layout] in E. unfold entity_layout, tlv_layout in E. rewrite !len_cons in E.
          pose proof (len_nonneg v). rewrite ?len_nil in E. lia. }
        replace (len pre + len (resp_layout r)) with (len (pre ++ resp_layout r)) by (rewrite len_app; reflexivity).
        rewrite (IH fuel (pre ++ resp_layout r) (acc ++ [resp_norm r]) fl0 (Some v) might).
        { rewrite <- app_assoc. reflexivity. }
        { constructor. } { exact He. } { right. discriminate. } { cbn [length] in *. lia. }
        { rewrite <- app_assoc. reflexivity. }
      * cbn [cat ent_layout app]. rewrite ?len_nil.
        destruct (_ >=? _) eqn:E; [reflexivity|lia].
    + destruct (len pre + len (resp_layout r) >=? _) eqn:E.
      { cbn [cat] in E. rewrite len_app in E. destruct (resp_layout_head r2) as (tl2 & Hd2). rewrite Hd2 in E.
        rewrite len_cons in E. pose proof (len_nonneg tl2). pose proof (len_nonneg (cat resp_layout rs)). lia. }
      replace (len pre + len (resp_layout r)) with (len (pre ++ resp_layout r)) by (rewrite len_app; reflexivity).
      rewrite (IH fuel (pre ++ resp_layout r) (acc ++ [resp_norm r]) fl0 ent might).
      { rewrite <- app_assoc. reflexivity. }
      { exact Frs. } { exact He. } { left. discriminate. } { cbn [length] in *. lia. }
      { rewrite <- app_assoc. reflexivity. }
Qed.

Lemma resp_layout_pos r : (1 <= length (resp_layout r))%nat.
Proof. destruct (resp_layout_head r) as (tl & ->). cbn [length]. lia. Qed.

(* parameters as decoded: codes, normalised responses, the transmitted fault location *)
Lemma fin_norm_dlen c q : fin_dlen c (fin_norm q) = fin_dlen c q.
Proof.
  unfold fin_dlen, fin_body, fin_norm, fin_fault_emitted. cbn [fn_cc fn_dc fn_fs fn_resps fn_fault].
  rewrite cat_resp_norm. destruct (fault_allowed (fn_cc q)); reflexivity.
Qed.

Lemma fin_norm_body q : fin_body (fin_norm q) = fin_body q.
Proof.
  unfold fin_body, fin_norm, fin_fault_emitted. cbn [fn_cc fn_dc fn_fs fn_resps fn_fault].
  rewrite cat_resp_norm. destruct (fault_allowed (fn_cc q)); reflexivity.
Qed.

Lemma fin_norm_layout c q : fin_layout c (fin_norm q) = fin_layout c q.
Proof.
  unfold fin_layout, fin_header. rewrite fin_norm_dlen, fin_norm_body. reflexivity.
Qed.

Lemma fin_norm_valid c q : fin_valid c q -> fin_valid c (fin_norm q).
Proof.
  intros (C & Vc & Vd & Vf & Vr & Vl & D). unfold fin_valid. rewrite fin_norm_dlen.
  unfold fin_norm. cbn [fn_cc fn_dc fn_fs fn_resps fn_fault].
  split; [exact C|]. split; [exact Vc|]. split; [exact Vd|]. split; [exact Vf|]. split; [|split; [|exact D]].
  - apply Forall_forall. intros x Hx. apply in_map_iff in Hx. destruct Hx as (r & <- & Hr).
    apply resp_norm_valid. rewrite Forall_forall in Vr. apply Vr. exact Hr.
  - unfold fin_fault_emitted. destruct (fault_allowed (fn_cc q)); [exact Vl|exact I].
Qed.

Lemma fin_norm_idem q : fin_norm (fin_norm q) = fin_norm q.
Proof.
  unfold fin_norm, fin_fault_emitted. cbn [fn_cc fn_dc fn_fs fn_resps fn_fault].
  rewrite map_map. f_equal.
  - apply map_ext. intros r. apply resp_norm_idem.
  - destruct (fault_allowed (fn_cc q)); reflexivity.
Qed.

Lemma fin_empty_ok : exists e0, fin_empty = Ok e0.
Proof. eexists. vm_compute. reflexivity. Qed.

(* K_unpack_pack: the decoder applied to the prescribed octets (followed by anything) returns
   the PDU object of the transmitted parameters, for response lists of any length *)
Theorem fin_unpack_pack c q rest : fin_valid c q -> wf_bytes rest ->
  fin_unpack (fin_layout c q ++ rest) = Ok (fin_pdu_of c (fin_norm q)).
Proof.
  intros V Wr. pose proof V as (C & Vc & Vd & Vf & Vr & Vl & D).
  assert (Fc : flag (cf_crc c)) by apply C.
  pose proof (fin_fdir_valid c q V) as FV. pose proof (fin_pre_wf c q V) as Wpre.
  pose proof (fin_dlen_nonneg c q) as Dn.
  set (f := fdir_of (conf_set_dir c 1) DT_FINISHED (fin_dlen c q - 1)) in *.
  assert (E : hdr_layout (fin_header c q) ++ [D_FINISHED] = fdir_layout f).
  { unfold fdir_layout, f, fdir_of, fin_header. cbn [fd_hdr fd_type].
    replace (fin_dlen c q - 1 + 1) with (fin_dlen c q) by lia. reflexivity. }
  set (b0 := fn_cc q * 16 + fn_dc q * 4 + fn_fs q).
  set (T := cat resp_layout (fn_resps q) ++ fin_fault_layout q).
  assert (PRE : hdr_layout (fin_header c q) ++ [D_FINISHED] ++ fin_body q = fdir_layout f ++ [b0] ++ T).
  { rewrite app_assoc, E, fin_body_eq. reflexivity. }
  set (pre := hdr_layout (fin_header c q) ++ [D_FINISHED] ++ fin_body q) in *.
  assert (HL : len (fdir_layout f) = fdir_header_len f) by (apply fdir_layout_len; exact FV).
  assert (PL : hdr_packet_len (fd_hdr f) = len pre + crc_octets c).
  { rewrite PRE, !len_app, HL. unfold hdr_packet_len, f, fdir_of, fdir_header_len. cbn [fd_hdr h_dlen].
    rewrite fin_dlen_eq, resps_len_cat. unfold T. rewrite len_app. change (len [b0]) with 1. lia. }
  assert (LT : len T = resps_len (fn_resps q) + len (fin_fault_layout q)).
  { unfold T. rewrite len_app, resps_len_cat. reflexivity. }
  unfold fin_unpack. destruct fin_empty_ok as (e0 & ->). cbn [bind].
  unfold fin_layout. fold pre.
  (* file directive base *)
  assert (U : fdir_unpack (with_crc c pre ++ rest) = Ok f).
  { rewrite with_crc_split, PRE, <- !app_assoc. apply fdir_unpack_layout; [exact FV|].
    rewrite <- PRE in *. clear - Wpre Wr PRE. rewrite PRE in Wpre. rewrite !wf_bytes_app in *.
    destruct Wpre as (_ & W1 & W2). repeat split; try assumption. apply crc_tail_wf. }
  rewrite U. cbn [bind].
  rewrite verify_with_crc; [|exact Wpre|exact Fc|reflexivity|destruct (hdr_valid_packet_len _ (proj1 FV)); lia|exact PL].
  cbn [bind].
  assert (LD : len (with_crc c pre ++ rest) = hdr_packet_len (fd_hdr f) + len rest).
  { rewrite len_app, with_crc_len. lia. }
  pose proof (len_nonneg rest) as Lr. pose proof (len_nonneg T) as LTn.
  unfold fdir_packet_len. destruct (hdr_packet_len (fd_hdr f) >? _) eqn:G; [lia|]. clear G.
  change (cf_crc (h_conf (fd_hdr f))) with (cf_crc c).
  assert (EP : (if cf_crc c =? CRC_WITH_CRC then hdr_packet_len (fd_hdr f) - 2 else hdr_packet_len (fd_hdr f))
               = fdir_header_len f + 1 + len T).
  { rewrite PL, PRE, !len_app, HL. change (len [b0]) with 1. unfold crc_octets, CRC_WITH_CRC.
    destruct (cf_crc c =? 1); lia. }
  rewrite EP. destruct (fdir_header_len f >=? fdir_header_len f + 1 + len T) eqn:G; [lia|]. clear G.
  (* first parameter octet *)
  assert (DATA : with_crc c pre ++ rest = fdir_layout f ++ b0 :: T ++ crc_tail c pre ++ rest).
  { rewrite with_crc_split, PRE, <- !app_assoc. reflexivity. }
  rewrite DATA at 1. rewrite py_get_at by (symmetry; exact HL). cbn [bind].
  destruct (finoct_of (fn_cc q) (fn_dc q) (fn_fs q)) as (R & _ & D1 & D2 & D3); [apply Vc|exact Vd|exact Vf|].
  fold b0 in R, D1, D2, D3. rewrite D1, D2, D3.
  rewrite cc_valid_member by exact Vc. rewrite dc_member by exact Vd. rewrite fs_member by exact Vf. cbn [bind].
  destruct (fdir_header_len f + 1 + len T >? fdir_header_len f + 1) eqn:G.
  - (* TLV area not empty *)
    assert (SL : slice (with_crc c pre ++ rest) (fdir_header_len f + 1) (fdir_header_len f + 1 + len T) = T).
    { rewrite DATA. change (fdir_layout f ++ b0 :: T ++ crc_tail c pre ++ rest)
        with (fdir_layout f ++ [b0] ++ T ++ crc_tail c pre ++ rest).
      rewrite app_assoc. apply slice_at; rewrite len_app, HL; reflexivity. }
    rewrite SL. unfold fin_unpack_tlvs. cbn [fin_params].
    set (ent := match fin_fault_emitted q with Some t => Some (tlv_value t) | None => None end).
    assert (TE : T = [] ++ cat resp_layout (fn_resps q) ++ ent_layout ent).
    { unfold T, fin_fault_layout, ent. destruct (fin_fault_emitted q); reflexivity. }
    assert (MH : fin_might_have_fault {| fn_cc := fn_cc q; fn_dc := fn_dc q; fn_fs := fn_fs q; fn_resps := []; fn_fault := None |}
                 = fault_allowed (fn_cc q)) by reflexivity.
    rewrite MH.
    assert (X1 : match ent with Some v => len v <= 255 /\ fault_allowed (fn_cc q) = true | None => True end).
    { unfold ent, fin_fault_emitted. destruct (fault_allowed (fn_cc q)); [|exact I].
      destruct (fn_fault q) as [t|]; [|exact I]. split; [apply Vl|reflexivity]. }
    assert (X2 : fn_resps q <> [] \/ ent <> None).
    { destruct (fn_resps q) as [|r rs]; [right|left; discriminate].
      unfold ent. destruct (fin_fault_emitted q) as [t|] eqn:FE; [discriminate|].
      exfalso. unfold T, fin_fault_layout in LTn, G. rewrite FE in G. cbn [cat app] in G. rewrite len_nil in G. lia. }
    assert (X3 : (length (fn_resps q) + 1 <= S (length T))%nat).
    { assert ((length (fn_resps q) <= length T)%nat); [|lia].
      unfold T. rewrite app_length.
      pose proof (cat_length_ge resp_layout (fn_resps q)) as X.
      assert (Forall (fun x => (1 <= length (resp_layout x))%nat) (fn_resps q)) as Y
        by (apply Forall_forall; intros x _; apply resp_layout_pos).
      specialize (X Y). lia. }
    pose proof (fin_tlv_loop_spec (fn_resps q) (S (length T)) [] [] None ent (fault_allowed (fn_cc q)) T Vr X1 X2 X3 TE) as LS.
    change (len []) with 0 in LS. rewrite LS. clear LS.
    cbn [bind app len length].
    (* the two setters *)
    assert (ET : ent_tlv ent None = fin_fault_emitted q).
    { unfold ent, ent_tlv, fin_fault_emitted. destruct (fault_allowed (fn_cc q)); [|reflexivity].
      destruct (fn_fault q) as [t|]; [|reflexivity]. destruct Vl as (Ty & _). rewrite <- (tlv_eta t) at 2.
      unfold TLV_ENTITY_ID. unfold T_ENTITY_ID in Ty. rewrite Ty. reflexivity. }
    rewrite ET. unfold fin_set_resps. cbn [fin_fdir fin_params]. unfold fn_with_resps. cbn [fn_cc fn_dc fn_fs fn_fault].
    fold f. unfold f at 1. rewrite fin_calc_len_spec by exact Fc.
    set (q1 := {| fn_cc := fn_cc q; fn_dc := fn_dc q; fn_fs := fn_fs q; fn_resps := map resp_norm (fn_resps q); fn_fault := None |}).
    assert (D1' : fin_dlen c q1 <= fin_dlen c q).
    { rewrite !fin_dlen_eq. unfold q1 at 1. cbn [fn_resps]. rewrite !resps_len_cat, cat_resp_norm.
      assert (len (fin_fault_layout q1) = 0) as -> by (unfold fin_fault_layout, fin_fault_emitted, q1; cbn [fn_fault fn_cc];
        destruct (fault_allowed (fn_cc q)); reflexivity).
      pose proof (len_nonneg (fin_fault_layout q)). lia. }
    destruct (fin_dlen c q1 <=? 65535) eqn:G1; [|lia]. cbn [bind].
    destruct (fin_fault_emitted q) as [t|] eqn:FE.
    * unfold fin_set_fault, fn_with_fault, fin_pdu_of, q1. cbn [fin_fdir fin_params fn_cc fn_dc fn_fs fn_resps].
      rewrite fin_calc_len_spec by exact Fc.
      assert (QN : {| fn_cc := fn_cc q; fn_dc := fn_dc q; fn_fs := fn_fs q; fn_resps := map resp_norm (fn_resps q); fn_fault := Some t |}
                   = fin_norm q) by (unfold fin_norm; rewrite FE; reflexivity).
      rewrite QN, fin_norm_dlen. destruct (fin_dlen c q <=? 65535) eqn:G2; [|lia].
      unfold fin_pdu_of. rewrite ?fin_norm_dlen. reflexivity.
    * assert (QN : q1 = fin_norm q) by (unfold fin_norm, q1; rewrite FE; reflexivity).
      rewrite QN. reflexivity.
  - (* no TLVs *)
    assert (T0 : T = []) by (apply len_0_nil; lia).
    assert (R0 : fn_resps q = []).
    { unfold T in T0. apply app_eq_nil in T0. destruct T0 as (T1 & _).
      destruct (fn_resps q) as [|r rs]; [reflexivity|]. cbn [cat] in T1.
      destruct (resp_layout_head r) as (tl & Hd). rewrite Hd in T1. discriminate. }
    assert (F0 : fin_fault_emitted q = None).
    { unfold T in T0. apply app_eq_nil in T0. destruct T0 as (_ & T2).
      unfold fin_fault_layout in T2. destruct (fin_fault_emitted q) as [t|]; [discriminate|reflexivity]. }
    unfold fin_pdu_of. rewrite fin_norm_dlen. unfold fin_norm. rewrite R0, F0. reflexivity.
Qed.

(* K_repack: packing the decoded object gives the original octets *)
Theorem fin_repack c q : fin_valid c q -> fin_pack (fin_pdu_of c (fin_norm q)) = Ok (fin_layout c q).
Proof. intros V. rewrite <- fin_norm_layout. apply fin_pack_layout, fin_norm_valid. exact V. Qed.

(* C09: octets behind the PDU do not change the result *)
Theorem fin_suffix_irrelevant c q s : fin_valid c q -> wf_bytes s ->
  fin_unpack (fin_layout c q ++ s) = fin_unpack (fin_layout c q).
Proof.
  intros V W. rewrite fin_unpack_pack by assumption.
  pose proof (fin_unpack_pack c q [] V ltac:(constructor)) as E. rewrite app_nil_r in E. symmetry. exact E.
Qed.

(* ---- equality of the decoded object with the original ---- *)
Lemma ubf_eqb_refl u : ubf_eqb u u = true.
Proof. unfold ubf_eqb. rewrite !Z.eqb_refl. reflexivity. Qed.
Lemma hdr_eqb_refl h : hdr_eqb h h = true.
Proof. unfold hdr_eqb. rewrite !Z.eqb_refl, !ubf_eqb_refl. reflexivity. Qed.
Lemma fdir_eqb_refl f : fdir_eqb f f = true.
Proof. unfold fdir_eqb. rewrite hdr_eqb_refl, Z.eqb_refl. reflexivity. Qed.
Lemma bytes_eqb_refl b : bytes_eqb b b = true.
Proof. apply bytes_eqb_eq. reflexivity. Qed.

Lemma resp_valid_value r : resp_valid r ->
  exists v, fsresp_value r = Ok v /\ fsresp_value (resp_norm r) = Ok v.
Proof.
  intros (Ha & Hm & Hn & Hd & Hl & _).
  destruct (fsresp_pack_layout (fp_action r) (fp_status r) (fp_first r) (fp_second r) (fp_msg r) Ha Hl) as (_ & P & _).
  rewrite resp_eta in P. eexists. split; [exact P|].
  assert (Hl' : 1 + len (fs_names_layout (fp_action r) (fp_first r) (if second_name_present (fp_action r) then fp_second r else []))
                + (1 + len (fp_msg r)) <= 255).
  { unfold fs_names_layout in *. destruct (second_name_present (fp_action r)); exact Hl. }
  destruct (fsresp_pack_layout (fp_action r) (fp_status r) (fp_first r)
              (if second_name_present (fp_action r) then fp_second r else []) (fp_msg r) Ha Hl') as (_ & P' & _).
  unfold resp_norm. rewrite P'. unfold fs_names_layout. destruct (second_name_present (fp_action r)); reflexivity.
Qed.

Lemma resps_eq_norm l : Forall resp_valid l -> resps_eq (map resp_norm l) l = Ok true.
Proof.
  intros F. unfold resps_eq. rewrite map_length, Nat.eqb_refl. cbn [negb].
  induction F as [|r l Hr _ IH]; cbn [map resps_eq_elems]; [reflexivity|].
  destruct (resp_valid_value r Hr) as (v & E1 & E2). unfold fsresp_eq. rewrite E2, E1. cbn [bind].
  rewrite bytes_eqb_refl. exact IH.
Qed.

(* a parameter set of the standard: no fault location with condition codes that do not carry one *)
Definition fin_params_std (q : FinParams) : Prop := fin_fault_emitted q = fn_fault q.

Theorem fin_eq_roundtrip c q : fin_valid c q -> fin_params_std q ->
  fin_eq (fin_pdu_of c (fin_norm q)) (fin_pdu_of c q) = Ok true.
Proof.
  intros V S. pose proof V as (C & Vc & Vd & Vf & Vr & Vl & D).
  unfold fin_eq, fin_pdu_of. cbn [fin_params fin_fdir]. rewrite fin_norm_dlen, fdir_eqb_refl.
  unfold fn_eq, fin_norm. cbn [fn_cc fn_dc fn_fs fn_resps fn_fault]. rewrite !Z.eqb_refl. cbn [negb].
  rewrite resps_eq_norm by exact Vr. cbn [bind negb]. rewrite S.
  unfold fault_eq. destruct (fn_fault q); [rewrite Z.eqb_refl|]; reflexivity.
Qed.

(* K_unpack_pack in one statement: constructor, pack, decode (followed by anything), compare, re-pack *)
Theorem fin_roundtrip c q rest : fin_valid c q -> wf_bytes rest ->
  exists p b p',
    fin_new c q = Ok (p, c, q) /\ fin_pack p = Ok b /\ b = fin_layout c q /\
    fin_packet_len p = len b /\
    fin_unpack (b ++ rest) = Ok p' /\ fin_params p' = fin_norm q /\
    (fin_params_std q -> fin_eq p' p = Ok true) /\
    fin_pack p' = Ok b /\ fin_packet_len p' = len b.
Proof.
  intros V W. exists (fin_pdu_of c q), (fin_layout c q), (fin_pdu_of c (fin_norm q)).
  destruct (fin_data_field_len c q V) as (PL & _).
  split; [apply fin_new_ok; exact V|]. split; [apply fin_pack_layout; exact V|]. split; [reflexivity|].
  split; [exact PL|]. split; [apply fin_unpack_pack; assumption|]. split; [reflexivity|].
  split; [intros S; apply fin_eq_roundtrip; assumption|]. split; [apply fin_repack; exact V|].
  destruct (fin_data_field_len c (fin_norm q) (fin_norm_valid c q V)) as (PL' & _).
  rewrite PL', fin_norm_layout. reflexivity.
Qed.

(* K_too_large / refusals: a value list whose encoding exceeds the 16-bit data field length is
   refused by the constructor, never truncated *)
Theorem fin_too_long_refused c q : conf_valid c -> 65535 < fin_dlen c q -> exists e, fin_new c q = Err e.
Proof.
  intros C L. assert (Fc : flag (cf_crc c)) by apply C.
  unfold fin_new. rewrite fdir_new_ok; [|lia|unfold conf_set_dir; cbn [cf_src cf_dst]; apply C]. cbn [bind].
  assert (S2 : forall n q', fin_dlen c q' = fin_dlen c q ->
             fin_set_resps {| fin_fdir := fdir_of (conf_set_dir c DIR_TOWARDS_SENDER) DT_FINISHED n; fin_params := q' |}
               (Some (fn_resps q')) = Err EValue).
  { intros n q' Eq. unfold fin_set_resps. cbn [fin_fdir fin_params]. rewrite fn_with_resps_id.
    unfold DIR_TOWARDS_SENDER. rewrite fin_calc_len_spec by exact Fc. rewrite Eq.
    destruct (fin_dlen c q <=? 65535) eqn:E; [lia|reflexivity]. }
  destruct (fn_fault q) as [t|] eqn:Ft.
  - unfold fin_set_fault. cbn [fin_fdir fin_params]. rewrite <- Ft, fn_with_fault_id.
    unfold DIR_TOWARDS_SENDER. rewrite fin_calc_len_spec by exact Fc.
    destruct (fin_dlen c q <=? 65535) eqn:E; [lia|]. eexists. reflexivity.
  - cbn [bind fin_params]. rewrite S2 by reflexivity. eexists. reflexivity.
Qed.

(* ================= non-vacuity ================= *)
Definition ex_conf (crc large : Z) : PduConfig :=
  {| cf_src := {| ubf_val := 258; ubf_len := 2 |}; cf_dst := {| ubf_val := 65535; ubf_len := 2 |};
     cf_seq := {| ubf_val := 4294967295; ubf_len := 4 |};
     cf_mode := 1; cf_large := large; cf_crc := crc; cf_dir := 0; cf_segctrl := 1 |}.
Lemma ex_conf_valid crc large : flag crc -> flag large -> conf_valid (ex_conf crc large).
Proof.
  intros Fc Fl. unfold conf_valid, ubf_valid, width_ok, flag, ex_conf in *.
  cbn [cf_src cf_dst cf_seq cf_mode cf_large cf_crc cf_dir cf_segctrl ubf_val ubf_len].
  repeat split; try lia; auto.
Qed.
Definition ex_resp1 : fsresp :=   (* rename "a" -> "bä" succeeded, message 01 02 *)
  {| fp_action := 2; fp_status := 32; fp_first := [97]; fp_second := [98; 195; 164]; fp_msg := [1; 2] |}.
Definition ex_resp2 : fsresp :=   (* create file "" not allowed *)
  {| fp_action := 0; fp_status := 1; fp_first := []; fp_second := []; fp_msg := [] |}.
Definition ex_fin : FinParams :=
  {| fn_cc := 4; fn_dc := 1; fn_fs := 1; fn_resps := [ex_resp1; ex_resp2];
     fn_fault := Some {| tlv_type := 6; tlv_value := [1; 2] |} |}.
Lemma ex_resp_valid : resp_valid ex_resp1 /\ resp_valid ex_resp2.
Proof.
  unfold resp_valid, ex_resp1, ex_resp2, wf_bytes. cbn [fp_action fp_status fp_first fp_second fp_msg].
  split; repeat split; try reflexivity; try (vm_compute; congruence); try lia; repeat constructor; lia.
Qed.
Example fin_valid_example : fin_valid (ex_conf 1 0) ex_fin /\ fin_params_std ex_fin.
Proof.
  split; [|reflexivity]. unfold fin_valid. split; [apply ex_conf_valid; [right|left]; reflexivity|].
  split; [unfold cc_valid, ex_fin; cbn [fn_cc]; lia|]. split; [right; reflexivity|].
  split; [unfold ex_fin; cbn [fn_fs]; lia|].
  split; [unfold ex_fin; cbn [fn_resps]; destruct ex_resp_valid as [H1 H2]; constructor; [exact H1|constructor; [exact H2|constructor]]|].
  split; [unfold fault_valid, ex_fin, wf_bytes; cbn [fn_fault tlv_type tlv_value]; repeat split; try reflexivity;
          try (vm_compute; congruence); repeat constructor; lia|].
  vm_compute. congruence.
Qed.
Example fin_layout_example :
  fin_layout (ex_conf 0 0) ex_fin =
  [44; 0; 23; 147; 1; 2; 255; 255; 255; 255; 255; 255; 5; 69;
   1; 10; 32; 1; 97; 3; 98; 195; 164; 2; 1; 2;  1; 3; 1; 0; 0;  6; 2; 1; 2].
Proof. vm_compute. reflexivity. Qed.

(* ================= C10: totality (never IndexError / struct.error / fuel) ================= *)

Lemma py_get_in_range (d : bytes) i : 0 <= i < len d -> exists b, py_get d i = Ok b.
Proof.
  intros H. unfold py_get. destruct (i <? 0) eqn:E; [lia|].
  destruct (nth_error d (Z.to_nat i)) as [b|] eqn:N; [eexists; reflexivity|].
  apply nth_error_None in N. unfold len in H. lia.
Qed.

Lemma fsresp_packet_len_pos r : 5 <= fsresp_packet_len r.
Proof.
  unfold fsresp_packet_len, common_packet_len, lv_packet_len.
  pose proof (len_nonneg (fp_first r)). pose proof (len_nonneg (fp_second r)). pose proof (len_nonneg (fp_msg r)).
  destruct (is_two_name (fp_action r)); lia.
Qed.

Lemma tlv_packet_len_pos t : 2 <= tlv_packet_len t.
Proof. unfold tlv_packet_len. pose proof (len_nonneg (tlv_value t)). lia. Qed.

Lemma fin_calc_len_total p : ok_or_documented (fin_calc_len p).
Proof.
  unfold fin_calc_len, fdir_set_param_len. rewrite hdr_set_dlen_spec.
  destruct (_ <=? 65535); cbn [bind]; [exact I|reflexivity].
Qed.

(* the loop: every outcome is a value or a documented error; in particular the fuel
   len(rest)+1 is never exhausted (fin_tlv_loop_fuel_ok) and no index is out of range *)
Lemma fin_tlv_loop_total fuel : forall might rest idx acc fl,
  0 <= idx < len rest -> (Z.to_nat (len rest - idx) <= fuel)%nat ->
  ok_or_documented (fin_tlv_loop fuel might rest idx acc fl).
Proof.
  induction fuel as [|fuel IH]; intros might rest idx acc fl Hi Hf; [lia|].
  cbn [fin_tlv_loop]. destruct (py_get_in_range rest idx Hi) as (code & ->). cbn [bind].
  destruct (code =? TLV_FILESTORE_RESPONSE).
  - pose proof (fsresp_unpack_total (slice_from rest idx)) as T.
    destruct (fsresp_unpack (slice_from rest idx)) as [r|e]; [|exact T]. cbn [bind].
    pose proof (fsresp_packet_len_pos r).
    destruct (idx + fsresp_packet_len r >=? len rest) eqn:G; [exact I|]. apply IH; lia.
  - destruct (code =? TLV_ENTITY_ID); [|reflexivity].
    destruct (negb might); [reflexivity|].
    pose proof (wrap_unpack_total TLV_ENTITY_ID (slice_from rest idx)) as T. fold entity_unpack in T.
    destruct (entity_unpack (slice_from rest idx)) as [t|e]; [|exact T]. cbn [bind].
    pose proof (tlv_packet_len_pos t).
    destruct (idx + tlv_packet_len t >=? len rest) eqn:G; [exact I|]. apply IH; lia.
Qed.

Corollary fin_tlv_loop_fuel_ok might rest acc fl : 0 < len rest ->
  fin_tlv_loop (S (length rest)) might rest 0 acc fl <> Err EFuel.
Proof.
  intros H. pose proof (fin_tlv_loop_total (S (length rest)) might rest 0 acc fl ltac:(lia) ltac:(unfold len; lia)) as T.
  intros E. rewrite E in T. discriminate T.
Qed.

Lemma fin_unpack_tlvs_total p rest : 0 < len rest -> ok_or_documented (fin_unpack_tlvs p rest).
Proof.
  intros H. unfold fin_unpack_tlvs. apply bind_documented.
  - apply fin_tlv_loop_total; [lia|unfold len; lia].
  - intros [resps fault] _. apply bind_documented; [apply fin_calc_len_total|].
    intros p' _. destruct fault; [apply fin_calc_len_total|exact I].
Qed.

Theorem fin_unpack_total d : wf_bytes d -> ok_or_documented (fin_unpack d).
Proof.
  intros W. unfold fin_unpack. destruct fin_empty_ok as (e0 & ->). cbn [bind].
  pose proof (fdir_unpack_total d W) as T.
  destruct (fdir_unpack d) as [f|e] eqn:U; [|exact T]. clear T. cbn [bind].
  destruct (fdir_unpack_inv d f W U) as (FV & _ & Lhl & _).
  destruct (hdr_valid_packet_len _ (proj1 FV)) as (Hh & Hp).
  assert (P2 : 2 <= hdr_packet_len (fd_hdr f)) by lia.
  destruct (hdr_verify_length_and_checksum (fd_hdr f) d) as [pl|e] eqn:Ve.
  2:{ destruct (hdr_verify_err _ _ _ P2 Ve) as [-> | ->]; reflexivity. }
  destruct (hdr_verify_accept _ _ _ P2 Ve) as (-> & Lpl & _). cbn [bind].
  unfold fdir_packet_len. destruct (hdr_packet_len (fd_hdr f) >? len d); [reflexivity|].
  set (e := if cf_crc (h_conf (fd_hdr f)) =? CRC_WITH_CRC then hdr_packet_len (fd_hdr f) - 2 else hdr_packet_len (fd_hdr f)).
  assert (Le : e <= len d) by (unfold e; destruct (_ =? _); lia).
  destruct (fdir_header_len f >=? e) eqn:G; [reflexivity|].
  pose proof (fdir_header_len_range f FV) as Rh.
  destruct (py_get_in_range d (fdir_header_len f) ltac:(lia)) as (b & ->). cbn [bind].
  unfold condition_code_of_int. destruct (is_condition_code _); [|reflexivity]. cbn [bind].
  unfold delivery_code_of_int. destruct (_ || _); [|reflexivity]. cbn [bind].
  unfold file_status_of_int. destruct (_ || _); [|reflexivity]. cbn [bind].
  destruct (e >? fdir_header_len f + 1) eqn:G2; [|exact I].
  apply fin_unpack_tlvs_total. rewrite slice_len; lia.
Qed.

(* C10: every strict prefix of a packed Finished PDU is refused with a documented error *)
Theorem fin_prefix_rejected c q n : fin_valid c q -> (n < length (fin_layout c q))%nat ->
  exists e, fin_unpack (firstn n (fin_layout c q)) = Err e /\ documented e = true.
Proof.
  intros V L.
  assert (WL : wf_bytes (fin_layout c q)).
  { unfold fin_layout. rewrite with_crc_split. apply wf_bytes_app. split; [apply fin_pre_wf; exact V|apply crc_tail_wf]. }
  pose proof (fin_unpack_total _ (wf_bytes_firstn n _ WL)) as T.
  destruct (fin_unpack (firstn n (fin_layout c q))) as [p|e] eqn:U; [exfalso|exists e; split; [reflexivity|exact T]].
  (* an accepted prefix would have to be at least as long as the length its own header declares *)
  pose proof (fin_fdir_valid c q V) as FV.
  set (f := fdir_of (conf_set_dir c 1) DT_FINISHED (fin_dlen c q - 1)) in *.
  pose proof (fin_layout_len c q V) as LL.
  assert (E : fin_layout c q = fdir_layout f ++ fin_body q ++ crc_tail c (hdr_layout (fin_header c q) ++ [D_FINISHED] ++ fin_body q)).
  { unfold fin_layout. rewrite with_crc_split.
    assert (X : hdr_layout (fin_header c q) ++ [D_FINISHED] = fdir_layout f).
    { unfold fdir_layout, f, fdir_of, fin_header. cbn [fd_hdr fd_type]. pose proof (fin_dlen_nonneg c q).
      replace (fin_dlen c q - 1 + 1) with (fin_dlen c q) by lia. reflexivity. }
    rewrite (app_assoc (hdr_layout _) [D_FINISHED]), X, <- app_assoc. reflexivity. }
  pose proof (fdir_layout_len f FV) as HL.
  unfold fin_unpack in U. destruct fin_empty_ok as (e0 & Ee). rewrite Ee in U. cbn [bind] in U.
  destruct (Nat.lt_ge_cases n (length (fdir_layout f))) as [Sh | Lg].
  - rewrite E in U. destruct (fdir_unpack_short_prefix f n _ FV ltac:(rewrite E in WL; apply wf_bytes_app in WL; apply WL) Sh) as (e & Ue & _).
    rewrite Ue in U. discriminate U.
  - assert (Fn : firstn n (fin_layout c q) = fdir_layout f ++ firstn (n - length (fdir_layout f)) (fin_body q ++ crc_tail c (hdr_layout (fin_header c q) ++ [D_FINISHED] ++ fin_body q))).
    { rewrite E at 1. rewrite firstn_app. rewrite firstn_all2 by lia. reflexivity. }
    rewrite Fn in U. rewrite fdir_unpack_layout in U; [|exact FV|apply wf_bytes_firstn; rewrite E in WL; apply wf_bytes_app in WL; apply WL].
    cbn [bind] in U. rewrite hdr_verify_short in U; [discriminate U|].
    rewrite <- Fn. unfold len at 1. rewrite firstn_length.
    unfold hdr_packet_len, f, fdir_of. cbn [fd_hdr h_dlen]. unfold len in LL.
    unfold hdr_header_len, fin_header in LL. cbn [h_conf] in LL. unfold hdr_header_len. cbn [h_conf]. lia.
Qed.

(* C04: an accepted CRC-flagged PDU has CRC residue zero over its declared length *)
Theorem fin_accept_needs_crc0 d p : wf_bytes d -> fin_unpack d = Ok p ->
  exists h, hdr_unpack d = Ok h /\
    (cf_crc (h_conf h) = 1 -> crc16 (firstn (Z.to_nat (hdr_packet_len h)) d) = 0) /\
    hdr_packet_len h <= len d.
Proof.
  intros W U. unfold fin_unpack in U. destruct fin_empty_ok as (e0 & Ee). rewrite Ee in U. cbn [bind] in U.
  destruct (fdir_unpack d) as [f|e] eqn:Uf; [|discriminate U]. cbn [bind] in U.
  destruct (fdir_unpack_inv d f W Uf) as (FV & Uh & _).
  destruct (hdr_valid_packet_len _ (proj1 FV)) as (_ & Hp).
  assert (P2 : 2 <= hdr_packet_len (fd_hdr f)) by lia.
  destruct (hdr_verify_length_and_checksum (fd_hdr f) d) as [pl|e] eqn:Ve; [|discriminate U].
  destruct (hdr_verify_accept _ _ _ P2 Ve) as (-> & Lpl & Cr).
  exists (fd_hdr f). split; [exact Uh|]. split; [exact Cr|exact Lpl].
Qed.

(* ================= C11: lengths track the setters ================= *)

Inductive fin_op :=
| FSetFault (o : option tlv)
| FSetResps (o : option (list fsresp))
| FSetCc (cc : Z).
Definition fin_apply_op (p : FinishedPdu) (o : fin_op) : res FinishedPdu :=
  match o with
  | FSetFault x => fin_set_fault p x
  | FSetResps x => fin_set_resps p x
  | FSetCc cc => fin_set_cc p cc
  end.
Fixpoint fin_apply_ops (p : FinishedPdu) (ops : list fin_op) : res FinishedPdu :=
  match ops with [] => Ok p | o :: r => do p' <- fin_apply_op p o; fin_apply_ops p' r end.

(* invariant: the cached data-field length is the one computed from the current parameters *)
Definition fin_inv (c : PduConfig) (p : FinishedPdu) : Prop := p = fin_pdu_of c (fin_params p).

Lemma fin_apply_op_inv c p o p' : flag (cf_crc c) -> fin_inv c p -> fin_apply_op p o = Ok p' -> fin_inv c p'.
Proof.
  intros Fc I. unfold fin_inv in I.
  assert (X : forall q', fin_calc_len {| fin_fdir := fin_fdir p; fin_params := q' |} = Ok p' -> fin_inv c p').
  { intros q' H. rewrite I in H. unfold fin_pdu_of at 1 in H. cbn [fin_fdir] in H.
    rewrite fin_calc_len_spec in H by exact Fc. destruct (fin_dlen c q' <=? 65535); [|discriminate H].
    injection H as <-. reflexivity. }
  destruct o as [x|x|cc]; unfold fin_apply_op, fin_set_fault, fin_set_resps, fin_set_cc; apply X.
Qed.

Theorem fin_setters_inv c q ops p : fin_valid c q ->
  fin_apply_ops (fin_pdu_of c q) ops = Ok p -> p = fin_pdu_of c (fin_params p).
Proof.
  intros V. assert (Fc : flag (cf_crc c)) by apply V.
  assert (I0 : fin_inv c (fin_pdu_of c q)) by reflexivity.
  revert I0. generalize (fin_pdu_of c q) as p0. induction ops as [|o r IH]; intros p0 I0 A; cbn [fin_apply_ops] in A.
  - injection A as <-. exact I0.
  - destruct (fin_apply_op p0 o) as [p1|e] eqn:E; [|discriminate A]. cbn [bind] in A.
    apply (IH p1); [|exact A]. apply (fin_apply_op_inv c p0 o p1 Fc I0 E).
Qed.

(* K_len_inv / K_pack_eq_fresh: after the constructor and any sequence of setter calls the
   reported length is the length of the packed octets, the packed octets are the layout of the
   current values, and the object is the one a fresh constructor call would build *)
Theorem fin_len_inv c q ops p : fin_valid c q ->
  fin_apply_ops (fin_pdu_of c q) ops = Ok p -> fin_valid c (fin_params p) ->
  fin_pack p = Ok (fin_layout c (fin_params p)) /\
  fin_packet_len p = len (fin_layout c (fin_params p)) /\
  fin_new c (fin_params p) = Ok (p, c, fin_params p).
Proof.
  intros V A Vp. pose proof (fin_setters_inv c q ops p V A) as I.
  remember (fin_params p) as q' eqn:Q.
  destruct (fin_data_field_len c q' Vp) as (PL & _).
  rewrite I. split; [apply fin_pack_layout; exact Vp|]. split; [exact PL|].
  apply fin_new_ok. exact Vp.
Qed.
